(* Proofs_Apply0.v — helper lemmas for Proofs_Apply.v: the detector grammar of a well-formed macro
   satisfies the hypotheses of the LR theorems; derivation trees of the detector grammar. *)
From Coq Require Import List ZArith NArith Lia Bool Sorting.Sorted.
From Theo Require Import Base Tokens Errors MacroExtract Grammar LR Gen_MacroGrammar Gen_Consts MacroApply SpecMacro SpecLR LRStatements CompileStatements ApplyStatements Proofs_First Proofs_LRSound0 Proofs_LRSound Proofs_Macro Proofs_Front.
Import ListNotations.

(* ================================================================================================ *)
(* 1. the detector grammar, concretely                                                               *)
(* ================================================================================================ *)
Definition base_rs : list (sym * list alternative) := Eval vm_compute in right_sides base_grammar.

Lemma base_rs_eq : right_sides base_grammar = base_rs.
Proof. vm_compute. reflexivity. Qed.

Definition nf (rhs : list sym) : list sym := filter (fun s => negb (sym_eqb s Eps)) rhs.

Lemma dg_gen rhs : add_rule base_grammar macro_sym rhs = mkG 8 (base_rs ++ [(Nt 7, [nf rhs])]) [] 0.
Proof. vm_compute. reflexivity. Qed.

Lemma pattern_not_eps t : pattern_sym t <> Eps.
Proof. unfold pattern_sym. destruct (slot_nonterminal (tk t)); discriminate. Qed.

Lemma nf_pattern l : nf (map pattern_sym l) = map pattern_sym l.
Proof.
  unfold nf. induction l as [|a l IH]; cbn [map filter]; [reflexivity|].
  pose proof (pattern_not_eps a) as NE.
  destruct (pattern_sym a) eqn:E; [congruence| |]; cbn; f_equal; exact IH.
Qed.

Definition pat_rhs (m : macrodef) : list sym := map pattern_sym (m_rule m).

Lemma dg_eq m : detector_grammar m = mkG 8 (base_rs ++ [(Nt 7, [pat_rhs m])]) [] 0.
Proof. unfold detector_grammar. rewrite dg_gen, nf_pattern. reflexivity. Qed.

(* ---- one boolean check for everything the LR theorems want ---------------------------------------- *)
Definition okb (s : sym) : bool :=
  match s with Eps => false | Tm i => negb (N.eqb i 0) | Nt n => N.ltb n 7 end.
Definition key_okb (s : sym) : bool := match s with Nt n => N.ltb n 8 | _ => false end.
Definition rs_okb (rs : list (sym * list alternative)) : bool :=
  forallb (fun r => key_okb (fst r) && forallb (fun alt => forallb okb alt) (snd r)) rs.

Lemma base_okb : rs_okb base_rs = true.
Proof. vm_compute. reflexivity. Qed.

Lemma rs_okb_spec rs : rs_okb rs = true -> forall X alts, In (X, alts) rs ->
  (exists n, X = Nt n /\ (n < 8)%N) /\ forall alt s, In alt alts -> In s alt -> okb s = true.
Proof.
  intros H X alts HI. unfold rs_okb in H. rewrite forallb_forall in H. specialize (H _ HI).
  cbn [fst snd] in H. apply andb_true_iff in H. destruct H as [HK HA]. split.
  - destruct X; try discriminate. exists i. split; auto. apply N.ltb_lt. exact HK.
  - intros alt s Ha Hs. rewrite forallb_forall in HA. specialize (HA _ Ha).
    rewrite forallb_forall in HA. auto.
Qed.

Lemma rs_okb_app l1 l2 : rs_okb (l1 ++ l2) = rs_okb l1 && rs_okb l2.
Proof. unfold rs_okb. apply forallb_app. Qed.

Lemma tk_num_0 k : tk_num k = 0%N -> k = T_EOF.
Proof. destruct k; try discriminate; auto. Qed.

Lemma tk_num_inj a b : tk_num a = tk_num b -> a = b.
Proof. intros H. apply xe_tk_eqb_eq. unfold tk_eqb. rewrite H. apply N.eqb_refl. Qed.

Lemma pattern_okb t : tk t <> T_EOF -> okb (pattern_sym t) = true.
Proof. unfold pattern_sym. destruct (tk t) eqn:E; intros H; try reflexivity. congruence. Qed.

Definition rule_ok (m : macrodef) : Prop := Forall (fun t => tk t <> T_EOF) (m_rule m).

Lemma macro_ok_rule m : macro_ok m -> rule_ok m.
Proof. intros H. apply H. Qed.

Lemma dg_okb m : rule_ok m -> rs_okb (right_sides (detector_grammar m)) = true.
Proof.
  intros H. rewrite dg_eq. cbn [right_sides]. rewrite rs_okb_app, base_okb. cbn [andb].
  unfold rs_okb. cbn [forallb fst snd key_okb andb].
  rewrite !andb_true_r. change (7 <? 8)%N with true. cbn [andb].
  unfold pat_rhs. unfold rule_ok in H. induction H as [|t l Ht Hl IH]; cbn [map forallb]; [reflexivity|].
  rewrite pattern_okb by exact Ht. exact IH.
Qed.

Lemma dg_wf m : rule_ok m -> wf_grammar (detector_grammar m).
Proof.
  intros H. pose proof (rs_okb_spec _ (dg_okb m H)) as S. constructor.
  - rewrite dg_eq. cbn [right_sides].
    change (map fst (base_rs ++ [(Nt 7%N, [pat_rhs m])]))
      with [Nt 0; Nt 1; Nt 2; Nt 3; Nt 4; Nt 5; Nt 6; Nt 7]%N.
    repeat (constructor; [|repeat (constructor; try reflexivity)]). constructor.
  - intros X alts HI. destruct (S _ _ HI) as [(n & -> & _) _]. eauto.
  - intros X alts alt HI Ha He. destruct (S _ _ HI) as [_ K]. specialize (K _ _ Ha He). discriminate.
  - rewrite dg_eq. reflexivity.
Qed.

Lemma dg_start_ok m : rule_ok m ->
  start_ok (detector_grammar m) (Nt (N.of_nat detector_start)) (Tm (tk_num detector_eof)).
Proof.
  intros H. pose proof (rs_okb_spec _ (dg_okb m H)) as S. split; [|split].
  - exists 7%N. split; [reflexivity|]. rewrite dg_eq. reflexivity.
  - eexists; reflexivity.
  - intros X alts HI. destruct (S _ _ HI) as [(n & -> & L) _]. exists n. split; [reflexivity|].
    rewrite dg_eq. exact L.
Qed.

Lemma dg_rhs_closed m : rule_ok m -> rhs_closed (detector_grammar m).
Proof.
  intros H. pose proof (rs_okb_spec _ (dg_okb m H)) as S.
  intros X alts alt n HI Ha Hn. destruct (S _ _ HI) as [_ K]. specialize (K _ _ Ha Hn).
  cbn [okb] in K. apply N.ltb_lt in K. rewrite dg_eq. cbn [total_nt]. lia.
Qed.

Lemma dg_eof_fresh m : rule_ok m -> eof_fresh (detector_grammar m) (Tm (tk_num detector_eof)).
Proof.
  intros H. pose proof (rs_okb_spec _ (dg_okb m H)) as S.
  intros [(alts & HI)|(Y & alts & alt & HI & Ha & Hs)].
  - destruct (S _ _ HI) as [(n & E & _) _]. discriminate.
  - destruct (S _ _ HI) as [_ K]. specialize (K _ _ Ha Hs). discriminate.
Qed.

(* ---- rules of a symbol ------------------------------------------------------------------------------ *)
Lemma alookup_app {V} (l1 l2 : list (sym * V)) k :
  alookup sym_ltb (l1 ++ l2) k =
  match alookup sym_ltb l1 k with Some v => Some v | None => alookup sym_ltb l2 k end.
Proof.
  induction l1 as [|[k0 v0] t IH]; cbn [app alookup]; [reflexivity|].
  destruct (keqb sym_ltb k k0); auto.
Qed.

Lemma rs_get_base X : rs_get base_grammar X = match alookup sym_ltb base_rs X with Some l => l | None => [] end.
Proof. unfold rs_get. rewrite base_rs_eq. reflexivity. Qed.

Lemma dg_rs_get_other m X : X <> Nt 7%N -> rs_get (detector_grammar m) X = rs_get base_grammar X.
Proof.
  intros NE. rewrite rs_get_base. unfold rs_get. rewrite dg_eq. cbn [right_sides]. rewrite alookup_app.
  destruct (alookup sym_ltb base_rs X); [reflexivity|].
  cbn [alookup]. destruct (keqb sym_ltb X (Nt 7%N)) eqn:E; [|reflexivity].
  apply keqb_true_iff in E. contradiction.
Qed.

Lemma dg_rs_get_macro m : rs_get (detector_grammar m) (Nt 7%N) = [pat_rhs m].
Proof. unfold rs_get. rewrite dg_eq. cbn [right_sides]. rewrite alookup_app. reflexivity. Qed.

Lemma base_rule_okb X alt s : In alt (rs_get base_grammar X) -> In s alt -> okb s = true.
Proof.
  rewrite rs_get_base. destruct (alookup sym_ltb base_rs X) eqn:E; [|intros []].
  apply alookup_In in E. intros Ha Hs. destruct (rs_okb_spec _ base_okb _ _ E) as [_ K]. eauto.
Qed.

(* ================================================================================================ *)
(* 2. derivation trees of the detector grammar                                                        *)
(* ================================================================================================ *)
Notation ttree := (@tree token).
Notation rootT := (root translator).
Notation validT := (valid translator).
Notation valueT := (value creator semantic).

Section TreeInd.
  Variable P : ttree -> Prop.
  Hypothesis HL : forall tok, P (Leaf tok).
  Hypothesis HI : forall lhs alt ch, Forall P ch -> P (Inner lhs alt ch).
  Fixpoint tree_ind2 (t : ttree) : P t :=
    match t with
    | Leaf tok => HL tok
    | Inner lhs alt ch =>
        HI lhs alt ch ((fix go (l : list ttree) : Forall P l :=
                          match l with
                          | [] => Forall_nil P
                          | c :: r => @Forall_cons _ P c r (tree_ind2 c) (go r)
                          end) ch)
    end.
End TreeInd.

Lemma yield_inner lhs alt (ch : list ttree) : yield (Inner lhs alt ch) = concat (map yield ch).
Proof. simpl. induction ch as [|c r IH]; simpl; [reflexivity|]. rewrite IH. reflexivity. Qed.

Lemma value_inner lhs alt (ch : list ttree) :
  valueT (Inner lhs alt ch) = semantic lhs alt (rev (map valueT ch)).
Proof.
  reflexivity.
Qed.

Definition noeof (l : list token) : Prop := Forall (fun t => tk t <> T_EOF) l.

Lemma kinds_app a b : kinds (a ++ b) = kinds a ++ kinds b.
Proof. apply map_app. Qed.

Lemma semantic_other lhs alt popped : lhs <> Nt 7%N ->
  semantic lhs alt popped = (concat (map fst (rev popped)), []).
Proof.
  intros NE. unfold semantic. destruct (sym_eqb lhs macro_sym) eqn:E; auto.
  apply sym_eqb_eq in E. contradiction.
Qed.

Lemma semantic_macro alt popped :
  semantic (Nt 7%N) alt popped = (concat (map fst popped), rev (map fst popped)).
Proof. reflexivity. Qed.

Definition lowQ (t : ttree) : Prop :=
  fst (valueT t) = yield t /\ Derives base_grammar (rootT t) (kinds (yield t)) /\ noeof (yield t).

Lemma lowQ_children (ch : list ttree) : Forall lowQ ch ->
  map fst (map valueT ch) = map yield ch /\
  DerivesL base_grammar (map rootT ch) (kinds (concat (map yield ch))) /\
  noeof (concat (map yield ch)).
Proof.
  induction 1 as [|c r (A & B & C) HR (IA & IB & IC)]; cbn [map concat].
  - repeat split; constructor.
  - split; [rewrite A, IA; reflexivity|]. split.
    + rewrite kinds_app. constructor; auto.
    + apply Forall_app. split; auto.
Qed.

Lemma okb_nt_lt X : okb X = true -> (exists i, X = Tm i /\ i <> 0%N) \/ (exists n, X = Nt n /\ (n < 7)%N).
Proof.
  destruct X; cbn [okb]; intros H; [discriminate| |].
  - left. exists i. split; auto. intros ->. discriminate.
  - right. exists i. split; auto. apply N.ltb_lt. exact H.
Qed.

Lemma low_tree m : forall t, validT (detector_grammar m) t -> okb (rootT t) = true -> lowQ t.
Proof.
  induction t as [tok|lhs alt ch IH] using tree_ind2; intros HV HO.
  - unfold lowQ. cbn [value yield root creator fst]. repeat split.
    + constructor.
    + constructor; [|constructor]. cbn [root okb] in HO. intros E. unfold translator in HO.
      rewrite E in HO. discriminate.
  - cbn [root] in HO. destruct (okb_nt_lt _ HO) as [(i & -> & _)|(n & -> & Hn)].
    + exfalso. apply valid_inner_inv in HV. destruct HV as (rhs & Hr & _).
      rewrite dg_rs_get_other in Hr by discriminate. rewrite rs_get_base in Hr.
      destruct (alookup sym_ltb base_rs (Tm i)) eqn:E.
      * apply alookup_In in E. destruct (rs_okb_spec _ base_okb _ _ E) as [(k & K & _) _]. discriminate.
      * destruct (N.to_nat alt); discriminate.
    + apply valid_inner_inv in HV. destruct HV as (rhs & Hr & Hroots & Hch).
      assert (NE : Nt n <> Nt 7%N) by (intros E; inversion E; lia).
      rewrite dg_rs_get_other in Hr by exact NE.
      assert (HQ : Forall lowQ ch).
      { rewrite Forall_forall in *. intros c Hc. apply IH; auto.
        apply (base_rule_okb (Nt n) rhs); [eapply nth_error_In; eauto|].
        rewrite <- Hroots. apply in_map. exact Hc. }
      destruct (lowQ_children ch HQ) as (A & B & C).
      unfold lowQ. rewrite value_inner, yield_inner. cbn [root]. split; [|split; auto].
      * rewrite semantic_other by exact NE. cbn [fst]. rewrite rev_involutive, A. reflexivity.
      * econstructor; [exact Hr|]. rewrite <- Hroots. exact B.
Qed.

Lemma valid_tm_leaf m t i : validT (detector_grammar m) t -> rootT t = Tm i ->
  exists tok, t = Leaf tok /\ translator tok = i.
Proof.
  destruct t as [tok|lhs alt ch]; cbn [root]; intros HV E.
  - inversion E. eauto.
  - subst lhs. exfalso. apply valid_inner_inv in HV. destruct HV as (rhs & Hr & _).
    rewrite dg_rs_get_other in Hr by discriminate. rewrite rs_get_base in Hr.
    destruct (alookup sym_ltb base_rs (Tm i)) eqn:E.
    + apply alookup_In in E. destruct (rs_okb_spec _ base_okb _ _ E) as [(k & K & _) _]. discriminate.
    + destruct (N.to_nat alt); discriminate.
Qed.

Lemma length_concat_rev {A} (l : list (list A)) : length (concat (rev l)) = length (concat l).
Proof.
  induction l as [|a l IH]; cbn [rev concat]; [reflexivity|].
  rewrite concat_app, !app_length, IH. cbn [concat]. rewrite app_nil_r. lia.
Qed.

Lemma macro_tree m tr : rule_ok m -> validT (detector_grammar m) tr -> rootT tr = Nt 7%N ->
  exists ch, yield tr = concat (map yield ch) /\
             valueT tr = (concat (rev (map yield ch)), map yield ch) /\
             map rootT ch = pat_rhs m /\
             Forall (fun c => validT (detector_grammar m) c /\ lowQ c) ch.
Proof.
  intros RO HV HR. destruct tr as [tok|lhs alt ch]; cbn [root] in HR; [discriminate|]. subst lhs.
  apply valid_inner_inv in HV. destruct HV as (rhs & Hr & Hroots & Hch).
  rewrite dg_rs_get_macro in Hr.
  assert (E : rhs = pat_rhs m).
  { destruct (N.to_nat alt) as [|k]; cbn in Hr; [congruence|]. destruct k; discriminate. }
  rewrite E in Hroots. clear E Hr. exists ch.
  assert (HQ : Forall (fun c => validT (detector_grammar m) c /\ lowQ c) ch).
  { rewrite Forall_forall in *. intros c Hc. split; auto. apply (low_tree m); auto.
    assert (I : In (rootT c) (pat_rhs m)) by (rewrite <- Hroots; apply in_map; exact Hc).
    unfold pat_rhs in I. apply in_map_iff in I. destruct I as (p & <- & Hp).
    apply pattern_okb. unfold rule_ok in RO. rewrite Forall_forall in RO. auto. }
  split; [apply yield_inner|]. split; [|split; auto].
  rewrite value_inner. rewrite (semantic_macro alt).
  assert (HQ' : Forall lowQ ch) by (eapply Forall_impl; [|exact HQ]; intros c [_ Q]; exact Q).
  destruct (lowQ_children ch HQ') as (A & _ & _).
  rewrite map_rev, rev_involutive. f_equal; [f_equal; f_equal|]; exact A.
Qed.

(* ---- the split of a MACRO tree, per pattern symbol --------------------------------------------- *)
Lemma nth_error_map_inv {A B} (f : A -> B) l i y : nth_error (map f l) i = Some y ->
  exists x, nth_error l i = Some x /\ y = f x.
Proof.
  revert i. induction l as [|a l IH]; intros [|i]; cbn; try discriminate.
  - intros H; inversion H; eauto.
  - apply IH.
Qed.

Lemma macro_children m (ch : list ttree) :
  map rootT ch = pat_rhs m -> Forall (fun c => validT (detector_grammar m) c /\ lowQ c) ch ->
  forall i p range, nth_error (m_rule m) i = Some p -> nth_error (map yield ch) i = Some range ->
    match slot_nonterminal (tk p) with
    | Some n => Derives base_grammar (Nt (N.of_nat n)) (kinds range)
    | None => exists t, range = [t] /\ tk t = tk p
    end.
Proof.
  intros HR HQ i p range Hp Hrange.
  apply nth_error_map_inv in Hrange. destruct Hrange as (c & Hc & ->).
  assert (RC : rootT c = pattern_sym p).
  { assert (E : nth_error (map rootT ch) i = Some (rootT c)) by (apply map_nth_error; exact Hc).
    rewrite HR in E. unfold pat_rhs in E. rewrite (map_nth_error pattern_sym _ _ Hp) in E. congruence. }
  rewrite Forall_forall in HQ. destruct (HQ c (nth_error_In _ _ Hc)) as (HV & _ & HD & _).
  unfold pattern_sym in RC. destruct (slot_nonterminal (tk p)) as [n|].
  - rewrite <- RC. exact HD.
  - destruct (valid_tm_leaf _ _ _ HV RC) as (tok & -> & E). exists tok. split; [reflexivity|].
    apply tk_num_inj. exact E.
Qed.

(* ================================================================================================ *)
(* 3. detectors                                                                                       *)
(* ================================================================================================ *)
Definition gen_of (m : macrodef) : result (grammar * tables * list conflict * list lrstate) :=
  generate_tables max_states (detector_grammar m) detector_prefix_mode
                  (Nt (N.of_nat detector_start)) (Tm (tk_num detector_eof)).

Lemma make_detector_unfold m :
  make_detector m = bind (gen_of m) (fun r => let '(_, tab, confs, _) := r in Ok (mkDet m tab confs)).
Proof. unfold make_detector, gen_of. reflexivity. Qed.

Definition empty_macro : macrodef := mkMacro 0 [] [] [] [].

Lemma empty_confs :
  match gen_of empty_macro with Ok (_, _, confs, _) => confs = [] | _ => True end.
Proof. vm_compute. reflexivity. Qed.

Lemma gen_of_rule m m' : m_rule m = m_rule m' -> gen_of m = gen_of m'.
Proof. intros H. unfold gen_of, detector_grammar. rewrite H. reflexivity. Qed.

Global Opaque generate_tables.

Lemma gen_sound m g' tab confs states : rule_ok m -> gen_of m = Ok (g', tab, confs, states) ->
  forall fuel input v, parse translator creator semantic tab fuel input = Ok (Some v) ->
    exists (tr : ttree) rest, validT (detector_grammar m) tr /\ rootT tr = Nt 7%N /\
                              input = yield tr ++ rest /\ v = valueT tr.
Proof.
  intros R HG fuel input v HP. unfold gen_of in HG.
  destruct (C13_sound_partial token accum translator creator semantic max_states (detector_grammar m)
              detector_prefix_mode (Nt (N.of_nat detector_start)) (Tm (tk_num detector_eof))
              g' tab confs states fuel input v (dg_wf m R) (dg_start_ok m R) (dg_rhs_closed m R) HG HP)
    as (tr & rest & A & B & C & D & _).
  exists tr, rest. split; [exact A|]. split; [exact B|]. split; [exact C|exact D].
Qed.

Lemma gen_safe m g' tab confs states : rule_ok m -> gen_of m = Ok (g', tab, confs, states) ->
  forall input, (exists pre tok post, input = pre ++ tok :: post /\ tk tok = T_EOF) ->
  forall fuel, parse translator creator semantic tab fuel input = Fuel \/
               exists r, parse translator creator semantic tab fuel input = Ok r.
Proof.
  intros R HG input (pre & tok & post & E & K) fuel. unfold gen_of in HG.
  apply (C13_driver_safe_partial token accum translator creator semantic max_states (detector_grammar m)
              detector_prefix_mode (Nt (N.of_nat detector_start)) (Tm (tk_num detector_eof))
              g' tab confs states input (dg_wf m R) (dg_start_ok m R) (dg_rhs_closed m R)
              (dg_eof_fresh m R) HG).
  exists pre, tok, post. split; [exact E|]. unfold translator. rewrite K. reflexivity.
Qed.

Lemma gen_total m : rule_ok m -> gen_of m = Fuel \/ exists r, gen_of m = Ok r.
Proof.
  intros R. unfold gen_of.
  exact (C13_generate_total_partial max_states (detector_grammar m) detector_prefix_mode
           (Nt (N.of_nat detector_start)) (Tm (tk_num detector_eof))
           (dg_wf m R) (dg_start_ok m R) (dg_rhs_closed m R)).
Qed.

Global Opaque gen_of.

Lemma make_detector_inv m d : make_detector m = Ok d ->
  exists g' tab confs states, gen_of m = Ok (g', tab, confs, states) /\ d = mkDet m tab confs.
Proof.
  rewrite make_detector_unfold. intros H. bind_inv H r Hr.
  destruct r as [[[g' tab] confs] states]. cbv beta iota in H.
  exists g', tab, confs, states. split; [exact Hr|]. injection H as H. symmetry; exact H.
Qed.

Lemma make_detector_total m : rule_ok m -> make_detector m = Fuel \/ exists d, make_detector m = Ok d.
Proof.
  intros R. rewrite make_detector_unfold. destruct (gen_total m R) as [E|([[[g' tab] confs] states] & E)]; rewrite E.
  - left; reflexivity.
  - right. eexists. reflexivity.
Qed.

Global Opaque make_detector.

Lemma empty_rule_confs m d : make_detector m = Ok d -> m_rule m = [] -> d_conflicts d = [].
Proof.
  intros H E. destruct (make_detector_inv _ _ H) as (g' & tab & confs & states & HG & ->).
  cbn [d_conflicts]. rewrite (gen_of_rule m empty_macro E) in HG.
  pose proof empty_confs as K. rewrite HG in K. exact K.
Qed.

Lemma detector_errors_total m d : make_detector m = Ok d -> exists e, detector_errors d = Ok e.
Proof.
  intros H. unfold detector_errors. destruct (d_conflicts d) eqn:EC; [eauto|].
  destruct (make_detector_inv _ _ H) as (g' & tab & confs & states & HG & E).
  assert (DM : d_macro d = m) by (rewrite E; reflexivity). rewrite DM.
  destruct (m_rule m) eqn:ER; [|eauto].
  rewrite (empty_rule_confs m d H ER) in EC. discriminate.
Qed.
(* ================================================================================================ *)
(* 4. detection                                                                                       *)
(* ================================================================================================ *)
Local Open Scope Z_scope.

Lemma ap_str_eqb_eq a : forall b, str_eqb a b = true -> a = b.
Proof.
  induction a as [|x a IH]; destruct b as [|y b]; cbn [str_eqb]; try discriminate; auto.
  intros H. apply andb_true_iff in H. destruct H as [H1 H2]. apply N.eqb_eq in H1. subst.
  f_equal. auto.
Qed.

Lemma check_constraint_true rule matched : forall cc, check_constraint rule matched cc = Ok true ->
  forall c p, In c cc -> znth rule c = Some p ->
    exists t, znth matched c = Some [t] /\ ttext t = ttext p.
Proof.
  induction cc as [|c0 cc IH]; intros H c p HI HZ; [destruct HI|].
  cbn [check_constraint] in H. bind_inv H req Hreq. bind_inv H found Hf.
  apply of_opt_Ok in Hreq. apply of_opt_Ok in Hf.
  destruct found as [|f [|f2 fr]]; try discriminate.
  destruct (str_eqb (ttext f) (ttext req)) eqn:E; [|discriminate].
  destruct HI as [<-|HI]; [|eauto].
  rewrite HZ in Hreq. inversion Hreq; subst. exists f. split; auto. apply ap_str_eqb_eq; auto.
Qed.

Lemma check_constraint_total rule (matched : list (list token)) : length matched = length rule ->
  forall cc, Forall (fun i => 0 <= i < zlen rule) cc -> exists b, check_constraint rule matched cc = Ok b.
Proof.
  intros L. induction cc as [|c cc IH]; intros F; [eexists; reflexivity|].
  inversion F as [|c' cc' Hc Hcc]; subst. cbn [check_constraint].
  destruct (xe_znth_some rule c Hc) as (req & E1 & _). rewrite E1. cbn [of_opt bind].
  destruct (xe_znth_some matched c) as (fd & E2 & _).
  { unfold zlen in *. rewrite L. exact Hc. }
  rewrite E2. cbn [of_opt bind].
  destruct fd as [|f [|f2 fr]]; try (eexists; reflexivity).
  destruct (str_eqb (ttext f) (ttext req)); [auto|eexists; reflexivity].
Qed.

Lemma zlen_cons {A} (x : A) l : zlen (x :: l) = zlen l + 1.
Proof. unfold zlen. cbn [length]. lia. Qed.

Lemma zlen_app {A} (a b : list A) : zlen (a ++ b) = zlen a + zlen b.
Proof. unfold zlen. rewrite app_length. lia. Qed.

Lemma zlen_nonneg {A} (l : list A) : 0 <= zlen l.
Proof. unfold zlen. lia. Qed.

Lemma detect_from_inv m d : rule_ok m -> make_detector m = Ok d -> forall input i r,
  detect_from d input i = Ok (Some r) ->
  exists pre (tr : ttree) rest,
    input = pre ++ yield tr ++ rest /\ r_location r = i + zlen pre /\ yield tr ++ rest <> [] /\
    validT (detector_grammar m) tr /\ rootT tr = Nt 7%N /\
    r_length r = zlen (fst (valueT tr)) /\ r_matched r = snd (valueT tr) /\
    check_constraint (m_rule m) (r_matched r) (m_cc m) = Ok true.
Proof.
  intros R HM. destruct (make_detector_inv _ _ HM) as (g' & tab & confs & states & HG & ->).
  induction input as [|x rest0 IH]; intros i r H.
  - cbn [detect_from] in H. discriminate.
  - rewrite detect_from_cons in H. cbn [d_tab d_macro] in H. bind_inv H p Hp.
    assert (REC : detect_from (mkDet m tab confs) rest0 (i + 1) = Ok (Some r) ->
      exists pre (tr : ttree) rest,
        x :: rest0 = pre ++ yield tr ++ rest /\ r_location r = i + zlen pre /\ yield tr ++ rest <> [] /\
        validT (detector_grammar m) tr /\ rootT tr = Nt 7%N /\
        r_length r = zlen (fst (valueT tr)) /\ r_matched r = snd (valueT tr) /\
        check_constraint (m_rule m) (r_matched r) (m_cc m) = Ok true).
    { intros H'. destruct (IH _ _ H') as (pre & tr & rest & E & L & K).
      exists (x :: pre), tr, rest. split; [rewrite E; reflexivity|]. split; [rewrite zlen_cons; lia|exact K]. }
    destruct p as [[total split]|]; [|apply REC; exact H].
    bind_inv H ok Hok. destruct ok; [|apply REC; exact H].
    inversion H; subst r. cbn [r_location r_length r_matched].
    destruct (gen_sound m _ _ _ _ R HG _ _ _ Hp) as (tr & rest & A & B & C & D).
    exists [], tr, rest. rewrite <- D. cbn [fst snd app].
    split; [exact C|]. split; [unfold zlen; cbn [length]; lia|]. split; [rewrite <- C; discriminate|].
    split; [exact A|]. split; [exact B|]. split; [reflexivity|]. split; [reflexivity|exact Hok].
Qed.

Lemma detect_facts m d input i r : rule_ok m -> make_detector m = Ok d ->
  detect_from d input i = Ok (Some r) ->
  exists pre rest (ch : list ttree),
    input = pre ++ concat (map yield ch) ++ rest /\ r_location r = i + zlen pre /\
    concat (map yield ch) ++ rest <> [] /\
    r_length r = zlen (concat (map yield ch)) /\ r_matched r = map yield ch /\
    map rootT ch = pat_rhs m /\ Forall (fun c => validT (detector_grammar m) c /\ lowQ c) ch /\
    check_constraint (m_rule m) (map yield ch) (m_cc m) = Ok true.
Proof.
  intros R HM H. destruct (detect_from_inv m d R HM _ _ _ H) as (pre & tr & rest & E & L & NE & A & B & LN & MT & CC).
  destruct (macro_tree m tr R A B) as (ch & Y & V & RT & Q).
  exists pre, rest, ch. rewrite V in LN, MT. cbn [fst snd] in LN, MT. rewrite Y in E, NE. rewrite MT in CC.
  split; [exact E|]. split; [exact L|]. split; [exact NE|]. split.
  { rewrite LN. unfold zlen. rewrite length_concat_rev. reflexivity. }
  split; [exact MT|]. split; [exact RT|]. split; [exact Q|exact CC].
Qed.

Lemma matched_length m (ch : list ttree) : map rootT ch = pat_rhs m -> length (map yield ch) = length (m_rule m).
Proof.
  intros H. rewrite map_length. rewrite <- (map_length rootT ch), H. unfold pat_rhs. apply map_length.
Qed.

Lemma matched_noeof (ch : list ttree) m : Forall (fun c => validT (detector_grammar m) c /\ lowQ c) ch ->
  Forall noeof (map yield ch) /\ noeof (concat (map yield ch)).
Proof.
  intros H. assert (HQ : Forall lowQ ch) by (eapply Forall_impl; [|exact H]; intros c [_ Q]; exact Q).
  split; [|apply (lowQ_children ch HQ)].
  clear H. induction HQ as [|c r (_ & _ & N) HR IH]; cbn [map]; constructor; auto.
Qed.

Lemma skipn_app_len {A} (a b : list A) : skipn (length a) (a ++ b) = b.
Proof. induction a; cbn; auto. Qed.

Lemma firstn_app_len {A} (a b : list A) : firstn (length a) (a ++ b) = a.
Proof. induction a; cbn; [reflexivity|]. f_equal; auto. Qed.

Lemma to_nat_zlen {A} (l : list A) : Z.to_nat (zlen l) = length l.
Proof. unfold zlen. apply Nat2Z.id. Qed.

(* ---- totality of detect on streams that end with an end-of-file token ------------------------------ *)
Definition ends_eof (l : list token) : Prop := l = [] \/ exists pre e, l = pre ++ [e] /\ tk e = T_EOF.

Lemma ends_eof_tl x l : ends_eof (x :: l) -> ends_eof l.
Proof.
  intros [H|(pre & e & E & K)]; [discriminate|].
  destruct pre as [|y pre]; cbn in E; inversion E; subst.
  - left; reflexivity.
  - right. eauto.
Qed.

Lemma ends_eof_has x l : ends_eof (x :: l) ->
  exists pre tok post, x :: l = pre ++ tok :: post /\ tk tok = T_EOF.
Proof. intros [H|(pre & e & E & K)]; [discriminate|]. exists pre, e, []. auto. Qed.

Lemma eofterm_ends l : eof_terminated l -> ends_eof l.
Proof. intros (body & e & E & K & _). right. eauto. Qed.

Lemma detect_from_total m d : macro_ok m -> make_detector m = Ok d -> forall input i, ends_eof input ->
  detect_from d input i = Fuel \/ exists r, detect_from d input i = Ok r.
Proof.
  intros MO HM. pose proof (macro_ok_rule m MO) as R.
  destruct (make_detector_inv _ _ HM) as (g' & tab & confs & states & HG & ->).
  induction input as [|x rest0 IH]; intros i EE.
  - right. eexists. reflexivity.
  - rewrite detect_from_cons. cbn [d_tab d_macro].
    destruct (gen_safe m _ _ _ _ R HG (x :: rest0) (ends_eof_has _ _ EE) (parse_fuel (x :: rest0))) as [E|(p & E)];
      rewrite E; cbn [bind].
    + left; reflexivity.
    + destruct p as [[total split]|]; [|apply IH; eapply ends_eof_tl; exact EE].
      destruct (gen_sound m _ _ _ _ R HG _ _ _ E) as (tr & rest & A & B & C & D).
      destruct (macro_tree m tr R A B) as (ch & Y & V & RT & Q).
      assert (ES : split = map yield ch) by (rewrite V in D; inversion D; reflexivity).
      destruct (check_constraint_total (m_rule m) split) with (cc := m_cc m) as (b & Eb).
      { rewrite ES. apply matched_length. exact RT. }
      { apply MO. }
      rewrite Eb. cbn [bind]. destruct b; [right; eexists; reflexivity|].
      apply IH. eapply ends_eof_tl; exact EE.
Qed.
