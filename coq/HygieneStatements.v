(* HygieneStatements.v — C10 at the level of token streams: where the identifiers of an expanded stream come from.
   Every token after k rewriting steps is (a) a token of the stream before, (b) a token of a macro body (the "error"
   identifiers that extraction puts in place of bad insertions are body tokens by then) — or (c) a renamed temporary #n
   of exactly one rewriting step, whose name carries that step's pass number.  Together with C10_pass_inj (different passes: different names, whatever the
   texts), C10_index_inj (same step, different n: different names) and C10_not_user (never a scannable identifier)
   this is the hygiene property for whole expansions. *)
From Coq Require Import Sorting.Sorted.
From Theo Require Import Base Regex Tokens Errors MacroExtract Grammar LR Gen_MacroGrammar Gen_Consts MacroApply SpecLex SpecMacro
                         MacroStatements.
Local Open Scope Z_scope.

(* t is the renamed form, made at pass q, of a temporary token of the body of a macro of bins *)
Definition temp_of_pass (bins : list (Z * list detector)) (q : Z) (t : token) : Prop :=
  exists p ds d cand first,
    In (p, ds) bins /\ In d ds /\ In cand (m_repl (d_macro d)) /\ tk cand = TEMP_VAL /\
    m_repl (d_macro d) = first :: tl (m_repl (d_macro d)) /\
    t = mkTok ID (temp_name (ttext cand) (tfile cand) (tline first) q) (tfile cand) (tline cand).

Definition body_token (bins : list (Z * list detector)) (t : token) : Prop :=
  exists p ds d, In (p, ds) bins /\ In d ds /\ In t (m_repl (d_macro d)).

Definition C10_steps_provenance_stmt : Prop :=
  forall bins input p k out, Steps bins input p k out ->
    forall t, In t out ->
      In t input \/ body_token bins t \/
      exists q, p <= q < p + Z.of_nat k /\ temp_of_pass bins q t.

(* two renamed temporaries of one expanded stream with the same name were made at the same pass — i.e. by the same
   rewriting step (C10_one_rewrite_per_pass) — provided no token of the original stream and of the bodies already has
   the shape of a renamed temporary (true of scanner output: C10_not_user) *)
Definition C10_steps_hygiene_stmt : Prop :=
  forall bins input p k out t1 t2 q1 q2, 0 <= p ->
    Steps bins input p k out ->
    In t1 out -> In t2 out ->
    temp_of_pass bins q1 t1 -> temp_of_pass bins q2 t2 -> 0 <= q1 -> 0 <= q2 ->
    ttext t1 = ttext t2 -> q1 = q2.
