(* Proofs_C01s4q.v — C01, stage 4, part 17: the parser.
   Every tree the parser builds has its definition headers on the line of their sequence node (headers4), and every
   tree of an error-free parse has the shape of stage 4 (shape4).  Postconditions per grammar function, proved by
   induction on the fuel of pcall, as in Proofs_Front.v (shape_ok) and Proofs_GenWf.v (topok). *)
From Coq Require Import List ZArith NArith Lia Bool.
From Theo Require Import Base Tokens Errors MacroExtract Parser VMModel VMSpec GenModel Compile RefSem RefSemChk C01Statements C01Stages C01Stages3 C01Stages4 Proofs_Front Proofs_C01b Proofs_C01s2c Proofs_C01s4i Proofs_C01s4n.
Import ListNotations.
Local Open Scope Z_scope.

(* ================================================================================================ *)
(* 1. nodes made by matchmk                                                                         *)
(* ================================================================================================ *)
Lemma matchmk_node4 s k ty n s' : matchmk s k ty = Ok (n, s') -> exists a b c, n = Node ty a b c None None.
Proof.
  unfold matchmk. intros H.
  apply pp_bind_inv in H. destruct H as (t & _ & H).
  apply pp_bind_inv in H. destruct H as (s1 & _ & H).
  inversion H; subst. eauto.
Qed.

(* ================================================================================================ *)
(* 2. definition headers                                                                            *)
(* ================================================================================================ *)
Definition oh4 (o : option node) : bool := match o with None => true | Some x => headers4 x end.

Definition hpost (f : pfn) (r : option node) : Prop :=
  match f with
  | fS | fP => oh4 r = true
  | _ => True
  end.

Lemma node_on_refl f l : node_on f l f l = true.
Proof. unfold node_on. rewrite str_eqb_refl, Z.eqb_refl. apply orb_true_r. Qed.

Lemma h4_def like a b more :
  headers4 (mk N_SPLIT like (Some (mk N_PROGRAM like a b)) more) = oh4 more.
Proof. unfold mk. cbn [headers4]. rewrite node_on_refl. reflexivity. Qed.

Ltac hfin :=
  repeat match goal with o : option node |- _ => destruct o end;
  cbn [hpost oh4 fst snd] in *;
  try exact I; try reflexivity; try assumption;
  try (rewrite h4_def; cbn [oh4]; assumption);
  try (unfold mk; cbn [headers4]; reflexivity).

Ltac hstep IH :=
  match goal with
  | H : bind (bind _ _) _ = Ok _ |- _ => rewrite pp_bind_assoc in H; cbv beta in H
  | H : bind (Ok _) _ = Ok _ |- _ => cbn [bind] in H; cbv beta iota in H
  | H : bind (la _) _ = Ok _ |- _ =>
      let k := fresh "k" in
      apply pp_bind_inv in H; destruct H as (k & _ & H); destruct k; cbv beta iota in H
  | H : bind (perror ?si _) _ = Ok _ |- _ =>
      let s1 := fresh "s" in apply pp_bind_inv in H; destruct H as (s1 & _ & H)
  | H : bind (pmatch ?si _) _ = Ok _ |- _ =>
      let s1 := fresh "s" in apply pp_bind_inv in H; destruct H as (s1 & _ & H)
  | H : bind (matchmk ?si _ _) _ = Ok _ |- _ =>
      let n1 := fresh "n" in let s1 := fresh "s" in let E := fresh "E" in
      apply pp_bind_inv in H; destruct H as ((n1 & s1) & E & H); apply matchmk_node4 in E;
      destruct E as (? & ? & ? & ->); cbn [fst snd] in H; cbv beta iota in H
  | H : bind (pcall _ ?g ?si) _ = Ok _ |- _ =>
      let r1 := fresh "r" in let s1 := fresh "s" in let E := fresh "E" in
      apply pp_bind_inv in H; destruct H as ((r1 & s1) & E & H); apply IH in E; cbn [hpost] in E;
      cbn [fst snd] in H; cbv beta iota in H
  | H : (if is_value_start _ then _ else _) = Ok _ |- _ => cbn [is_value_start] in H
  | H : match ?v with _ => _ end = Ok _ |- _ => is_var v; destruct v
  | H : bind (of_opt _ ?o) _ = Ok _ |- _ =>
      let a := fresh "a" in let E := fresh "E" in
      apply pp_bind_inv in H; destruct H as (a & E & H); apply pp_of_opt_inv in E; subst o
  | H : pcall _ ?g ?si = Ok (_, _) |- _ => apply IH in H; cbn [hpost] in H; hfin
  | H : Ok _ = Ok (_, _) |- _ => inversion H; subst; clear H; hfin
  end.

Lemma pcall_headers : forall fuel f s r s', pcall fuel f s = Ok (r, s') -> hpost f r.
Proof.
  induction fuel as [|fu IH]; intros f s r s' H; [discriminate H|].
  destruct f.
  - rewrite pcall_fS in H. repeat hstep IH.
  - exact I.
  - exact I.
  - exact I.
  - exact I.
  - rewrite pcall_fP in H. repeat hstep IH.
  - exact I.
  - exact I.
  - exact I.
  - exact I.
  - exact I.
Qed.

Lemma parser_headers4 toks root errs : parse_tokens toks = Ok (Some root, errs) -> headers4 root = true.
Proof.
  unfold parse_tokens. intros H.
  apply pp_bind_inv in H. destruct H as ((r & s1) & E & H).
  apply pp_bind_inv in H. destruct H as (s2 & _ & H).
  cbn [fst snd] in H. inversion H; subst. apply pcall_headers in E. exact E.
Qed.

(* ================================================================================================ *)
(* 3. the number of recorded errors only grows                                                      *)
(* ================================================================================================ *)
Definition ne (s : pst) : nat := length (p_errs s).

Lemma perror_ne s k s' : perror s k = Ok s' -> ne s' = S (ne s).
Proof.
  unfold perror. intros H. apply pp_bind_inv in H. destruct H as (t & _ & H). inversion H; subst.
  unfold ne. cbn [p_errs]. rewrite app_length. cbn [length]. lia.
Qed.

Lemma pmatch_ne s k s' : pmatch s k = Ok s' -> (ne s <= ne s')%nat.
Proof.
  intros H. unfold pmatch in H.
  apply pp_bind_inv in H. destruct H as (k0 & _ & H).
  apply pp_bind_inv in H. destruct H as (s1 & E1 & H).
  apply pp_bind_inv in H. destruct H as (k1 & _ & H).
  assert (I1 : (ne s <= ne s1)%nat).
  { destruct (tk_eqb k0 k).
    - inversion E1; subst. lia.
    - apply pp_bind_inv in E1. destruct E1 as (s2 & E2 & E1). inversion E1; subst.
      apply perror_ne in E2. unfold ne in *. cbn [p_errs]. lia. }
  destruct k1; inversion H; subst; unfold ne in *; cbn [p_errs]; exact I1.
Qed.

Lemma matchmk_ne s k ty n s' : matchmk s k ty = Ok (n, s') ->
  (exists a b c, n = Node ty a b c None None) /\ (ne s <= ne s')%nat.
Proof.
  intros H. split; [eapply matchmk_node4; eauto|].
  unfold matchmk in H. apply pp_bind_inv in H. destruct H as (t & _ & H).
  apply pp_bind_inv in H. destruct H as (s1 & E & H). inversion H; subst. eapply pmatch_ne; eauto.
Qed.

(* ================================================================================================ *)
(* 4. the shape of an error-free parse                                                              *)
(* ================================================================================================ *)
Notation T3 := (fun (_ : str) (_ : Z) (_ : node) => true).

Definition shp (f : pfn) (r : option node) : Prop :=
  match f with
  | fS => match r with Some n => prog4 T3 n = true | None => False end
  | fP => match r with Some n => body4 T3 n = true | None => False end
  | fMOREP => match r with Some n => body4 T3 n = true | None => True end
  | fVALUE => match r with Some n => value4 n = true | None => False end
  | fVARGS => match r with Some n => vargs4 n = true | None => True end
  | fMVARGS => match r with Some n => vargs4 n = true | None => True end
  | fPORTS => ports4 r = true
  | fOPORTS => match r with Some n => leaf_name n = true | None => True end
  | fARGS => match r with Some n => params4 n = true | None => False end
  | fMARGS => match r with Some n => params4 n = true | None => True end
  | fEEOS => True
  end.

Definition spost (f : pfn) (s : pst) (r : option node) (s' : pst) : Prop :=
  (ne s <= ne s')%nat /\ (ne s' = ne s -> shp f r).

Lemma body4_prog4 ol n : body4 ol n = true -> prog4 ol n = true.
Proof.
  intros H. destruct n as [t a b c [[t2 a2 b2 c2 l2 r2]|] r]; destruct t; try exact H.
  destruct t2; try exact H. cbn [body4] in H. discriminate H.
Qed.

Lemma ports4_def like a outs :
  ports4 (Some (mk N_SPLIT like (Some a) outs)) = params4 a && match outs with None => true | Some o => leaf_name o end.
Proof. reflexivity. Qed.

Ltac sfin :=
  split; [lia|];
  let Hno := fresh "Hno" in intros Hno;
  try (exfalso; lia);
  repeat match goal with Hs : (ne _ = ne _ -> _) |- _ => specialize (Hs ltac:(lia)) end;
  cbn [shp fst snd] in *;
  repeat match goal with
         | Hs : match ?r with Some _ => _ | None => False end |- _ => destruct r; [|contradiction Hs]
         | Hs : match ?r with Some _ => _ | None => True end |- _ => destruct r
         end;
  try exact I;
  try (apply body4_prog4; assumption);
  rewrite ?ports4_def; unfold mk; rewrite ?value4_call;
  cbn [prog4 body4 value4 vargs4 params4 leaf_name is_number n_type andb];
  repeat match goal with Hs : _ = true |- _ => rewrite Hs; clear Hs end;
  try reflexivity.

Ltac sstep IH :=
  match goal with
  | H : bind (bind _ _) _ = Ok _ |- _ => rewrite pp_bind_assoc in H; cbv beta in H
  | H : bind (Ok _) _ = Ok _ |- _ => cbn [bind] in H; cbv beta iota in H
  | H : bind (la _) _ = Ok _ |- _ =>
      let k := fresh "k" in
      apply pp_bind_inv in H; destruct H as (k & _ & H); destruct k; cbv beta iota in H
  | H : bind (perror ?si _) _ = Ok _ |- _ =>
      let s1 := fresh "s" in let E := fresh "E" in
      apply pp_bind_inv in H; destruct H as (s1 & E & H); apply perror_ne in E
  | H : bind (pmatch ?si _) _ = Ok _ |- _ =>
      let s1 := fresh "s" in let E := fresh "E" in
      apply pp_bind_inv in H; destruct H as (s1 & E & H); apply pmatch_ne in E
  | H : bind (matchmk ?si _ _) _ = Ok _ |- _ =>
      let n1 := fresh "n" in let s1 := fresh "s" in let E := fresh "E" in let E' := fresh "E" in
      apply pp_bind_inv in H; destruct H as ((n1 & s1) & E & H); apply matchmk_ne in E;
      destruct E as [(? & ? & ? & ->) E']; cbn [fst snd] in H; cbv beta iota in H
  | H : bind (pcall _ ?g ?si) _ = Ok _ |- _ =>
      let r1 := fresh "r" in let s1 := fresh "s" in let E := fresh "E" in let E' := fresh "E" in
      apply pp_bind_inv in H; destruct H as ((r1 & s1) & E & H); apply IH in E; destruct E as [E E'];
      cbn [fst snd] in H; cbv beta iota in H
  | H : (if is_value_start _ then _ else _) = Ok _ |- _ => cbn [is_value_start] in H
  | H : match ?v with _ => _ end = Ok _ |- _ => is_var v; destruct v
  | H : bind (of_opt _ ?o) _ = Ok _ |- _ =>
      let a := fresh "a" in let E := fresh "E" in
      apply pp_bind_inv in H; destruct H as (a & E & H); apply pp_of_opt_inv in E; subst o
  | H : pcall _ ?g ?si = Ok (_, _) |- _ =>
      let E' := fresh "E" in apply IH in H; destruct H as [H E']; sfin
  | H : Ok _ = Ok (_, _) |- _ => inversion H; subst; clear H; sfin
  end.

Lemma pcall_shape : forall fuel f s r s', pcall fuel f s = Ok (r, s') -> spost f s r s'.
Proof.
  induction fuel as [|fu IH]; intros f s r s' H; [discriminate H|]. unfold spost.
  destruct f.
  - rewrite pcall_fS in H. repeat sstep IH.
  - rewrite pcall_fPORTS in H. repeat sstep IH.
  - rewrite pcall_fOPORTS in H. repeat sstep IH.
  - rewrite pcall_fARGS in H. repeat sstep IH.
  - rewrite pcall_fMARGS in H. repeat sstep IH.
  - rewrite pcall_fP in H. repeat sstep IH.
  - rewrite pcall_fMOREP in H. repeat sstep IH.
  - rewrite pcall_fVALUE in H. repeat sstep IH.
  - rewrite pcall_fVARGS in H. repeat sstep IH.
  - rewrite pcall_fMVARGS in H. repeat sstep IH.
  - rewrite pcall_fEEOS in H. repeat sstep IH.
Qed.

Lemma excess_ne : forall n fuel s s', excess_loop n fuel s = Ok s' -> (ne s <= ne s')%nat.
Proof.
  induction n as [|n IH]; intros fuel s s' H; cbn [excess_loop] in H; [discriminate H|].
  destruct (p_rest s) as [|t rest]; [inversion H; subst; lia|].
  assert (Hgen : s' = s \/
            (do s1 <- perror s e_excess_input; do s2 <- pmatch s1 (tk t); do k2 <- la s2;
             match k2 with T_EOF => Ok s2 | _ => do r <- pcall fuel fS s2; excess_loop n fuel (snd r) end) = Ok s').
  { destruct (tk t); try (right; exact H). left. inversion H; reflexivity. }
  clear H. destruct Hgen as [->|H]; [lia|].
  apply pp_bind_inv in H. destruct H as (s1 & E1 & H). apply perror_ne in E1.
  apply pp_bind_inv in H. destruct H as (s2 & E2 & H). apply pmatch_ne in E2.
  apply pp_bind_inv in H. destruct H as (k2 & _ & H).
  assert (Hgen : s' = s2 \/ (do r <- pcall fuel fS s2; excess_loop n fuel (snd r)) = Ok s').
  { destruct k2; try (right; exact H). left. inversion H; reflexivity. }
  clear H. destruct Hgen as [->|H]; [lia|].
  apply pp_bind_inv in H. destruct H as ((r & s3) & E3 & H). apply pcall_shape in E3. destruct E3 as [E3 _].
  cbn [snd] in H. apply IH in H. lia.
Qed.

Lemma C01_parser_shape4_proof : C01_parser_shape4_stmt.
Proof.
  intros toks root H. unfold parse_tokens in H.
  apply pp_bind_inv in H. destruct H as ((r & s1) & E & H).
  apply pp_bind_inv in H. destruct H as (s2 & E2 & H).
  cbn [fst snd] in H, E2. inversion H; subst r. apply excess_ne in E2.
  apply pcall_shape in E. destruct E as [E1 Esh].
  assert (Hz : ne s2 = 0%nat) by (unfold ne; match goal with Hx : p_errs s2 = [] |- _ => rewrite Hx end; reflexivity).
  assert (H0 : ne (mkP toks []) = 0%nat) by reflexivity.
  exact (Esh ltac:(lia)).
Qed.

Print Assumptions parser_headers4.
Print Assumptions C01_parser_shape4_proof.
