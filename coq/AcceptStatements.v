(* AcceptStatements.v — C04: the parser accepts exactly the sentences of the documented grammar;
   the generator accepts exactly the trees that obey the static rules (= the trees RefSem can flatten). *)
From Theo Require Import Base Tokens Errors MacroExtract Parser VMModel GenModel RefSem SpecGrammar CompileStatements.

(* no syntax error <-> the kinds before the end-of-file token form a sentence *)
Definition C04_parser_stmt : Prop :=
  forall body e, tk e = T_EOF -> Forall (fun t => tk t <> T_EOF) body ->
    ((exists root, parse_tokens (body ++ [e]) = Ok (root, [])) <-> DS (map tk body)).

(* on the trees the parser delivers, code generation reports no error exactly when the static rules hold,
   i.e. when the reference semantics is defined for the tree *)
Definition C04_static_stmt : Prop :=
  forall toks root r, parse_tokens toks = Ok (Some root, []) -> gen true [] (Some root) = Ok r ->
    (gr_errors r = [] <-> exists rs, abstract_source (Some root) = Some rs).
