(* Proofs_LocErr.v — C02, last sentence: every error of a compilation is located at the '-' placeholder or on a line of
   a file the scanner read.  Scanner: Proofs_LocErr0.v; extraction, application, parser: Proofs_LocErr1.v; generator:
   Proofs_LocErr2.v.  The statements are proved as written (no counterexample was found). *)
From Coq Require Import List ZArith NArith Lia Bool.
From Theo Require Import Base Regex Tokens Errors Lexer Scan MacroExtract Grammar LR MacroApply Parser VMModel GenModel Compile Gen_Lexer Gen_Consts CompileStatements LocErrStatements Proofs_Lexer Proofs_Scan Proofs_Front Proofs_Gen0 Proofs_Gen Proofs_Macro Proofs_Apply0 Proofs_Apply Proofs_Loc.
From Theo Require Import Proofs_LocErr0 Proofs_LocErr1 Proofs_LocErr2.
Import ListNotations.
Local Open Scope Z_scope.

Lemma C02_scan_positions_proof : C02_scan_positions_stmt.
Proof. intros rules files main toks errs H. apply (scan_positions rules files main toks errs H). Qed.

Lemma C02_error_locations_proof : C02_error_locations_stmt.
Proof.
  intros files main c e H He. unfold compile, compile_budget in H.
  apply bind_Ok_inv in H. destruct H as (p & Hp & H).
  apply bind_Ok_inv in H. destruct H as (g & Hg & H).
  inversion H; subst c; clear H. cbn [cr_errors] in He.
  set (Q := fun f l => loc_ok (seen_files files main) f l).
  assert (Qdash : Q dash (-1)) by (left; split; reflexivity).
  assert (Qroot : Q root_ctx root_line) by (left; split; reflexivity).
  unfold parse_budget in Hp. cbv zeta in Hp.
  change (if fcontains (with_standards files) main
          then prepend_to (with_standards files) main incl_phrase else with_standards files)
    with (seen_files files main) in Hp.
  apply bind_Ok_inv in Hp. destruct Hp as ([toks serrs] & Hs & Hp).
  apply bind_Ok_inv in Hp. destruct Hp as ([[xerrs out] macros] & Hx & Hp).
  apply bind_Ok_inv in Hp. destruct Hp as ([aerrs toks2] & Ha & Hp).
  apply bind_Ok_inv in Hp. destruct Hp as ([root perrs] & Hpr & Hp).
  inversion Hp; subst p; clear Hp. cbn [pr_ok pr_errors pr_root] in Hg.
  (* scanner *)
  destruct (scan_positions _ _ _ _ _ Hs) as [T0 E0].
  change (Forall (tokQ Q) toks) in T0. change (Forall (perrQ Q) serrs) in E0.
  (* extraction *)
  pose proof (extract_errors Q toks xerrs out macros T0 Hx) as E1.
  destruct (extract_tokens Q toks xerrs out macros T0 Hx) as [T1 M1].
  (* application *)
  assert (E2 : Forall (perrQ Q) aerrs).
  { apply (apply_errors Q Qdash out macros (N.to_nat macro_passes) aerrs toks2); [|exact Ha].
    intros m t Hm Ht. apply (M1 m t Hm). left. exact Ht. }
  assert (T2 : Forall (tokQ Q) toks2).
  { apply (apply_tokens Q out macros (N.to_nat macro_passes) aerrs toks2 T1); [|exact Ha].
    intros m t Hm Ht. apply (M1 m t Hm). right. exact Ht. }
  (* parser *)
  destruct (parse_errors Q toks2 root perrs T2 Hpr) as [E3 N3].
  (* everything handed to the generator *)
  assert (EA : Forall (fun e => Q (se_file e) (se_line e)) (perrs ++ map to_serr (serrs ++ xerrs ++ aerrs))).
  { apply Forall_app. split; [exact E3|]. apply Forall_forall. intros s Hs0.
    apply in_map_iff in Hs0. destruct Hs0 as (pe & <- & Hpe). unfold to_serr. cbn [se_file se_line].
    assert (F : Forall (perrQ Q) (serrs ++ xerrs ++ aerrs)).
    { apply Forall_app. split; [exact E0|]. apply Forall_app. split; [exact E1|exact E2]. }
    rewrite Forall_forall in F. apply (F pe Hpe). }
  assert (RA : allq_o Q root).
  { destruct root as [n|]; cbn; [|exact I]. intros f l Hi. apply (N3 n eq_refl f l Hi). }
  pose proof (gen_errors Q Qroot _ _ _ _ EA RA Hg) as EG.
  rewrite Forall_forall in EG. apply (EG e He).
Qed.

Lemma C02_seen_files_proof : C02_seen_files_stmt.
Proof.
  intros SR files main f l H. apply seen_files_in_file in H; [|exact SR].
  destruct H as (text & Hf & B). cbn [flookup] in Hf.
  destruct (str_eqb standards_name f) eqn:E.
  - apply str_eqb_eq in E. left. split; [symmetry; exact E|]. inversion Hf; subst text. exact B.
  - right. split.
    + intros ->. rewrite str_eqb_refl in E. discriminate.
    + exists text. split; assumption.
Qed.

Print Assumptions C02_scan_positions_proof.
Print Assumptions C02_error_locations_proof.
Print Assumptions C02_seen_files_proof.
