(* Proofs_C01s4d.v — C01, stage 4, part 4: the DYNAMIC part, one instruction of stage 3 with an abstract position map.
   The step lemma of Proofs_C01s3a.v (sim_step3), restated for a block at PM pc whose successor block is at
   PM (pc + 1) = PM pc + blen3 i, for an arbitrary map PM: in stage 4 the position map is built from blen4, and the
   instructions of stage 3 keep their blocks. *)
From Coq Require Import List ZArith NArith Lia Bool.
From Theo Require Import Base Tokens Errors MacroExtract Parser VMModel VMSpec GenModel Compile RefSem RefSemChk C01Statements C01Stages Gen_Consts Proofs_VM_mem Proofs_VM_dbg Proofs_Gen0 Proofs_Gen Proofs_Sem Proofs_C01a Proofs_C01b Proofs_C01 Proofs_C01s2a Proofs_C01s3a.
Import ListNotations.
Local Open Scope Z_scope.

Section Step3G.
  Variables (rs : list routine) (k : nat) (r : routine).
  Variables (rm : regmap) (base N : Z) (C : list instr) (PM : Z -> Z).
  Hypothesis OK : rm_ok rm N.

  Definition jpostG : jrel3 := fun q f tg =>
    match tg with
    | JId e => exists t, znth (r_targets r) e = Some t /\ (0 <= t -> q + f = PM t)
    | JLab l => 0 <= label_pos (r_labels r) l -> q + f = PM (label_pos (r_labels r) l)
    end.

  Lemma step3_generic rec ctx a pc steps trace i s d o :
    imatch3 rm C jpostG (PM pc) i -> PM (pc + 1) = PM pc + blen3 i ->
    frame_of base C s -> SR rm base N a d ->
    exec_instr_c rs rec r ctx k a pc steps trace i = o -> o <> OBad ->
    ((i = RHalt \/ i = RStop) /\ o = OStop (ctx ++ [view_of r a]) (S steps) trace) \/
    (not_halt C (PM pc) /\
     exists a' pc' tr1 n d',
        (1 <= n)%nat /\ vm_run n (vm_at s (PM pc) d) = Ok (vm_at s (PM pc') d') /\
        SR rm base N a' d' /\ chg rm base d d' (in_frame base N) /\
        rec ctx k a' pc' (S steps) tr1 = o).
  Proof.
    intros HM Hnext (HC & act & rest & Hst & Hb) HS HX Hne.
    pose proof HS as [Hf Hvar Hcnt Hvb Hcb].
    unfold exec_instr_c in HX. cbv zeta in HX.
    destruct i as [l|x v|id v|id ex|id back|v ex|target|l|x y l| |out|]; cbn [imatch3 imatch blen3 blen] in HM, Hnext; try contradiction.
    - (* RSite *)
      right. split; [eexists; split; [exact HM | reflexivity]|].
      exists a, (pc + 1), (trace ++ [(l, ctx ++ [view_of r a])]), 1%nat, d.
      split; [lia|]. split; [|split; [exact HS|split; [apply chg_refl | exact HX]]].
      rewrite Hnext. apply at_pb. rewrite HC. exact HM.
    - (* RAssign *)
      destruct HM as (rx & Hx & HV).
      rewrite (eval_c_simple _ _ _ _ _ _ _ (vmatch_shape _ _ _ _ _ HV)) in HX.
      destruct (sval (ra_vars a) v) as [z|] eqn:Ev; [|congruence].
      pose proof (rmo_var_rng _ _ OK _ _ Hx) as Rx.
      destruct (run_val rm base N C OK v rx (PM pc) s d act rest a z HS HC Hst Hb HV Rx Ev) as (d' & Hrun & Hch & Hz & Hzb).
      right. split; [exact (vmatch_first _ _ _ _ _ HV)|].
      exists (mkRAct (put (ra_vars a) x z) (ra_cnt a)), (pc + 1), trace, (Z.to_nat (vlen v)), d'.
      split; [pose proof (vmatch_shape _ _ _ _ _ HV); destruct v as [| |[]|[]|]; cbn in *; try discriminate; lia|].
      split; [rewrite Hnext; exact Hrun|].
      split; [eapply SR_var; eauto|]. split; [eapply chg_in_frame; eauto | exact HX].
    - (* RLoopInit *)
      destruct HM as (rc & Hx & HV).
      rewrite (eval_c_simple _ _ _ _ _ _ _ (vmatch_shape _ _ _ _ _ HV)) in HX.
      destruct (sval (ra_vars a) v) as [z|] eqn:Ev; [|congruence].
      pose proof (rmo_cnt_rng _ _ OK _ _ Hx) as Rx.
      destruct (run_val rm base N C OK v rc (PM pc) s d act rest a z HS HC Hst Hb HV Rx Ev) as (d' & Hrun & Hch & Hz & Hzb).
      right. split; [exact (vmatch_first _ _ _ _ _ HV)|].
      exists (mkRAct (ra_vars a) (putc (ra_cnt a) id z)), (pc + 1), trace, (Z.to_nat (vlen v)), d'.
      split; [pose proof (vmatch_shape _ _ _ _ _ HV); destruct v as [| |[]|[]|]; cbn in *; try discriminate; lia|].
      split; [rewrite Hnext; exact Hrun|].
      split; [eapply SR_cnt; eauto|]. split; [eapply chg_in_frame; eauto | exact HX].
    - (* RLoopTest *)
      destruct HM as (rc & f & Hx & Hz & (t & Ht & Hj)).
      pose proof (Hcnt _ _ Hx) as Hrd. rewrite <- Hb in Hrd.
      pose proof (at_jmpc s act rest (PM pc) d f rc _ ltac:(rewrite HC; exact Hz) Hst Hrd) as Hrun.
      right. split; [eexists; split; [exact Hz | reflexivity]|]. destruct (getc (ra_cnt a) id =? 0).
      + rewrite Ht in HX. unfold goto_of in HX. destruct (Z.ltb_spec t 0) as [|Hge]; [congruence|].
        exists a, t, trace, 1%nat, d. split; [lia|]. rewrite <- (Hj Hge).
        split; [exact Hrun|]. split; [exact HS|]. split; [apply chg_refl | exact HX].
      + exists a, (pc + 1), trace, 1%nat, d. split; [lia|]. rewrite Hnext.
        split; [exact Hrun|]. split; [exact HS|]. split; [apply chg_refl | exact HX].
    - (* RLoopDec *)
      destruct HM as (rc & f & Hx & Hz & Hz1 & (t & Ht & Hj)).
      rewrite Ht in HX. unfold goto_of in HX. destruct (Z.ltb_spec t 0) as [|Hge]; [congruence|].
      pose proof (Hcnt _ _ Hx) as Hrd. rewrite <- Hb in Hrd.
      pose proof (rmo_cnt_rng _ _ OK _ _ Hx) as Rx. pose proof (Hcb id) as Bc.
      set (x := getc (ra_cnt a) id) in *.
      destruct (zupd_ex d (data_start act + rc) (clampz (x + -1)) ltac:(lia)) as [d' Hu].
      assert (Ec : clampz (x + -1) = Z.max (x - 1) 0) by (unfold clampz; lia).
      right. split; [eexists; split; [exact Hz | reflexivity]|].
      exists (mkRAct (ra_vars a) (putc (ra_cnt a) id (Z.max (x - 1) 0))), t, trace, (1 + 1)%nat, d'.
      split; [lia|]. split.
      + rewrite <- (Hj Hge).
        eapply vm_run_trans; [eapply at_add; [rewrite HC; exact Hz | exact Hst | exact Hrd | exact Hu]|].
        apply at_jmp. rewrite HC. exact Hz1.
      + rewrite Hb in Hu. split.
        * eapply SR_cnt; eauto; [eapply chg_zupd; exact Hu | | lia].
          rewrite (znth_zupd _ _ _ _ Hu), Z.eqb_refl, Ec. reflexivity.
        * split; [|exact HX]. eapply chg_in_frame; [exact Rx|]. eapply chg_zupd; exact Hu.
    - (* RWhileTest *)
      destruct HM as (tt & f & Htt & HV & Hz & (t & Ht & Hj)).
      rewrite (eval_c_simple _ _ _ _ _ _ _ (vmatch_shape _ _ _ _ _ HV)) in HX.
      destruct (sval (ra_vars a) v) as [z|] eqn:Ev; [|congruence].
      pose proof (rmo_tmp_rng _ _ OK _ Htt) as Rt.
      destruct (run_val rm base N C OK v tt (PM pc) s d act rest a z HS HC Hst Hb HV Rt Ev) as (d' & Hrun & Hch & Hzz & Hzb).
      assert (HS' : SR rm base N a d').
      { eapply SR_tmp; eauto. destruct Hch as [Hl Hc']. split; [exact Hl|]. intros j _ Hj'. apply Hc'; [|exact Hj'].
        intros ->. apply (Hj' tt Htt). reflexivity. }
      assert (Hch' : chg rm base d d' (in_frame base N)) by (eapply chg_in_frame; eauto).
      rewrite <- Hb in Hzz.
      pose proof (at_jmpc s act rest (PM pc + vlen v) d' f tt z ltac:(rewrite HC; exact Hz) Hst Hzz) as Hrun2.
      right. split; [exact (vmatch_first _ _ _ _ _ HV)|]. destruct (z =? 0).
      + rewrite Ht in HX. unfold goto_of in HX. destruct (Z.ltb_spec t 0) as [|Hge]; [congruence|].
        exists a, t, trace, (Z.to_nat (vlen v) + 1)%nat, d'. split; [lia|]. rewrite <- (Hj Hge).
        split; [eapply vm_run_trans; [exact Hrun | exact Hrun2]|]. split; [exact HS'|]. split; [exact Hch' | exact HX].
      + exists a, (pc + 1), trace, (Z.to_nat (vlen v) + 1)%nat, d'. split; [lia|]. rewrite Hnext.
        replace (PM pc + (vlen v + 1)) with (PM pc + vlen v + 1) by lia.
        split; [eapply vm_run_trans; [exact Hrun | exact Hrun2]|]. split; [exact HS'|]. split; [exact Hch' | exact HX].
    - (* RJump *)
      destruct HM as (f & Hz & (t & Ht & Hj)).
      rewrite Ht in HX. unfold goto_of in HX. destruct (Z.ltb_spec t 0) as [|Hge]; [congruence|].
      right. split; [eexists; split; [exact Hz | reflexivity]|].
      exists a, t, trace, 1%nat, d. split; [lia|]. rewrite <- (Hj Hge).
      split; [apply at_jmp; rewrite HC; exact Hz|]. split; [exact HS|]. split; [apply chg_refl | exact HX].
    - (* RGoto *)
      destruct HM as (f & Hz & Hj). cbn [jpostG] in Hj.
      unfold goto_of in HX. destruct (Z.ltb_spec (label_pos (r_labels r) l) 0) as [|Hge]; [congruence|].
      right. split; [eexists; split; [exact Hz | reflexivity]|].
      exists a, (label_pos (r_labels r) l), trace, 1%nat, d. split; [lia|]. rewrite <- (Hj Hge).
      split; [apply at_jmp; rewrite HC; exact Hz|]. split; [exact HS|]. split; [apply chg_refl | exact HX].
    - (* RIfGoto *)
      destruct x as [y0| | | |]; try contradiction. destruct y as [|c| | |]; try contradiction.
      destruct HM as (ry & t1 & t2 & tc & f & Hy & T1 & T2 & Tc & Hne12 & Hc & Z0 & Z1 & Z2 & Z3 & Hj). cbn [jpostG] in Hj.
      cbn [eval_c] in HX. cbn [vlen] in Hnext.
      pose proof (rmo_tmp_rng _ _ OK _ T1) as R1. pose proof (rmo_tmp_rng _ _ OK _ T2) as R2. pose proof (rmo_tmp_rng _ _ OK _ Tc) as Rc.
      pose proof (Hvb y0) as By. set (x := get (ra_vars a) y0) in *.
      destruct (zupd_ex d (data_start act + t1) (clampz (x + 0)) ltac:(lia)) as [d1 U1].
      assert (E1 : clampz (x + 0) = x) by (unfold clampz; lia).
      pose proof (zupd_length _ _ _ _ U1) as L1.
      destruct (zupd_ex d1 (data_start act + t2) c ltac:(lia)) as [d2 U2].
      pose proof (zupd_length _ _ _ _ U2) as L2.
      destruct (zupd_ex d2 (data_start act + tc) (if x =? c then 0 else 1) ltac:(lia)) as [d3 U3].
      assert (Rd1 : znth d2 (data_start act + t1) = Some x).
      { rewrite (znth_zupd _ _ _ _ U2). destruct (Z.eqb_spec (data_start act + t1) (data_start act + t2)); [lia|].
        rewrite (znth_zupd _ _ _ _ U1), Z.eqb_refl, E1. reflexivity. }
      assert (Rd2 : znth d2 (data_start act + t2) = Some c) by (rewrite (znth_zupd _ _ _ _ U2), Z.eqb_refl; reflexivity).
      assert (Rd3 : znth d3 (data_start act + tc) = Some (if x =? c then 0 else 1)) by (rewrite (znth_zupd _ _ _ _ U3), Z.eqb_refl; reflexivity).
      assert (Hch : chg rm base d d3 (fun _ => False)).
      { rewrite <- Hb.
        eapply chg_trans with (W1 := fun _ => False) (W2 := fun _ => False); [tauto | tauto | | exact (chg_zupd_tmp _ _ _ _ _ _ Tc U3)].
        eapply chg_trans with (W1 := fun _ => False) (W2 := fun _ => False);
          [tauto | tauto | exact (chg_zupd_tmp _ _ _ _ _ _ T1 U1) | exact (chg_zupd_tmp _ _ _ _ _ _ T2 U2)]. }
      assert (HS' : SR rm base N a d3) by (eapply SR_tmp; eauto).
      assert (Hch' : chg rm base d d3 (in_frame base N)) by (eapply chg_weaken; [|exact Hch]; tauto).
      assert (Hrun : vm_run (1 + (1 + (1 + 1))) (vm_at s (PM pc) d) =
                     Ok (vm_at s (if (if x =? c then 0 else 1) =? 0 then PM pc + 1 + 1 + 1 + f else PM pc + 1 + 1 + 1 + 1) d3)).
      { eapply vm_run_trans; [eapply at_add; [rewrite HC; exact Z0 | exact Hst | rewrite Hb; apply Hvar; exact Hy | exact U1]|].
        eapply vm_run_trans; [eapply at_const; [rewrite HC; exact Z1 | exact Hst | exact U2]|].
        eapply vm_run_trans; [eapply at_test; [rewrite HC; replace (PM pc + 1 + 1) with (PM pc + 2) by lia; exact Z2
                                               | exact Hst | exact Rd1 | exact Rd2 | exact U3]|].
        eapply at_jmpc; [rewrite HC; replace (PM pc + 1 + 1 + 1) with (PM pc + 3) by lia; exact Z3 | exact Hst | exact Rd3]. }
      right. split; [eexists; split; [exact Z0 | reflexivity]|].
      destruct (x =? c).
      + unfold goto_of in HX. destruct (Z.ltb_spec (label_pos (r_labels r) l) 0) as [|Hge]; [congruence|].
        exists a, (label_pos (r_labels r) l), trace, (1 + (1 + (1 + 1)))%nat, d3. split; [lia|].
        rewrite <- (Hj Hge). cbn [Z.eqb] in Hrun. replace (PM pc + 3 + f) with (PM pc + 1 + 1 + 1 + f) by lia.
        split; [exact Hrun|]. split; [exact HS'|]. split; [exact Hch' | exact HX].
      + exists a, (pc + 1), trace, (1 + (1 + (1 + 1)))%nat, d3. split; [lia|]. rewrite Hnext.
        cbn [Z.eqb] in Hrun. replace (PM pc + (1 + 1 + 2)) with (PM pc + 1 + 1 + 1 + 1) by lia.
        split; [exact Hrun|]. split; [exact HS'|]. split; [exact Hch' | exact HX].
    - (* RStop *)
      left. split; [right; reflexivity | congruence].
    - (* RHalt *)
      left. split; [left; reflexivity | congruence].
  Qed.

End Step3G.
