(* Scan.v — model of Theo::scan (Compiler/src/scan.cpp:45-101).  The explicit scanner stack of
   the C++ is rendered as recursion: scanning a file recurses into an included file and then goes
   on with the rest of the including file.  [active] is the list of file names on the C++
   lex_stack (exists_scanner).  Tokens and errors come out in the order the C++ appends them. *)
From Theo Require Import Base Regex Tokens Lexer Errors.
Local Open Scope Z_scope.

Definition files_t := list (str * str).       (* std::map<FileName, FileContent> *)

Fixpoint flookup (files : files_t) (n : str) : option str :=
  match files with
  | [] => None
  | (k, v) :: t => if str_eqb k n then Some v else flookup t n
  end.
Definition fcontains (files : files_t) (n : str) : bool :=
  match flookup files n with Some _ => true | None => false end.

Fixpoint str_in (n : str) (l : list str) : bool :=
  match l with [] => false | x :: t => str_eqb x n || str_in n t end.

(* nfn.substr(1, nfn.size() - 2) *)
Definition strip_quotes (s : str) : str := removelast (tl s).

Definition EOF_text : str := [69; 79; 70]%N.
Definition dash : str := [45]%N.

Section Scan.
  Variable rules : list rule.

  Fixpoint scan_file (depth : nat) (files : files_t) (active : list str) (f : str) (content : list N)
    : result (list token * list perr) :=
    match depth with
    | O => Fuel
    | S d =>
        (fix loop (fuel : nat) (s : list N) (line : Z) {struct fuel} : result (list token * list perr) :=
           match fuel with
           | O => Fuel
           | S fu =>
               match next_token (S (length s)) rules s line with
               | None => Ok ([], [])
               | Some (k, text, line1, rest) =>
                   let t := mkTok k text f line1 in
                   let unk := match k with UNKNOWN => [mkPerr e_unknown_token f line1 []] | _ => [] end in
                   match k with
                   | INCLUDE =>
                       match next_token (S (length rest)) rules rest line1 with
                       | None =>
                           do r <- loop fu [] line1;
                           Ok (fst r, unk ++ mkPerr e_expected_filename f line1 [] :: snd r)
                       | Some (k2, text2, line2, rest2) =>
                           match k2 with
                           | FNAME =>
                               let nfn := strip_quotes text2 in
                               match flookup files nfn with
                               | None =>
                                   do r <- loop fu rest2 line2;
                                   Ok (fst r, unk ++ mkPerr e_file_not_found f line2 nfn :: snd r)
                               | Some c =>
                                   if str_in nfn active then
                                     do r <- loop fu rest2 line2;
                                     Ok (fst r, unk ++ mkPerr e_recursive_include f line2 [] :: snd r)
                                   else
                                     do r1 <- scan_file d files (nfn :: active) nfn c;
                                     do r2 <- loop fu rest2 line2;
                                     Ok (fst r1 ++ fst r2, unk ++ snd r1 ++ snd r2)
                               end
                           | _ =>
                               do r <- loop fu rest2 line2;
                               Ok (fst r, unk ++ mkPerr e_expected_filename f line2 [] :: snd r)
                           end
                       end
                   | _ =>
                       do r <- loop fu rest line1;
                       Ok (t :: fst r, unk ++ snd r)
                   end
               end
           end) (S (length content)) content 1
    end.

  Definition eof_token (files : files_t) (main : str) (toks : list token) : token :=
    match rev toks with
    | last :: _ => mkTok T_EOF EOF_text (tfile last) (tline last)
    | [] => if fcontains files main then mkTok T_EOF EOF_text main 1 else mkTok T_EOF EOF_text dash (-1)
    end.

  (* Theo::scan with an explicit include-depth budget *)
  Definition scan_fuel (depth : nat) (files : files_t) (main : str) : result (list token * list perr) :=
    match flookup files main with
    | Some c =>
        do r <- scan_file depth files [main] main c;
        Ok (fst r ++ [eof_token files main (fst r)], snd r)
    | None =>
        Ok ([eof_token files main []], [mkPerr e_main_not_found dash (-1) main])
    end.

  Definition scan (files : files_t) (main : str) : result (list token * list perr) :=
    scan_fuel (S (length files)) files main.
End Scan.
