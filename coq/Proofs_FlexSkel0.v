(* Proofs_FlexSkel0.v — the generic part of the skeleton proof: for any tables `t` that satisfy a handful of explicit
   hypotheses (established for the committed tables by a reflective check in Proofs_FlexSkel.v), the match loop of
   FlexSkel followed by yy_find_action reaches the verdict of the abstract pass FlexModel.flex_run.

   This file: list / buffer facts, the abstract prefix run `arun`, the relation between the abstract `best` and the
   skeleton's yy_last_accepting_{state,cpos}, the match-loop lemma and the yy_get_previous_state lemma. *)
From Coq Require Import List ZArith NArith Lia Bool.
From Theo Require Import Base Regex Tokens Lexer FlexModel FlexSkel FlexStatements Proofs_Flex.
Import ListNotations.
Local Open Scope Z_scope.

(* ================================================================================================ *)
(* 1. lists and positions                                                                            *)
(* ================================================================================================ *)
Lemma zlen_nil : forall A, zlen (@nil A) = 0.
Proof. reflexivity. Qed.

Lemma zlen_cons : forall A (x : A) l, zlen (x :: l) = 1 + zlen l.
Proof. intros A x l. unfold zlen. cbn [length]. lia. Qed.

Lemma zlen_app : forall A (a b : list A), zlen (a ++ b) = zlen a + zlen b.
Proof. intros A a b. unfold zlen. rewrite app_length. lia. Qed.

Lemma zlen_nonneg : forall A (l : list A), 0 <= zlen l.
Proof. intros A l. unfold zlen. lia. Qed.

Lemma skipn_cons_nth : forall A (l : list A) k c rest,
  skipn k l = c :: rest -> nth_error l k = Some c /\ skipn (S k) l = rest.
Proof.
  induction l as [| x l IH]; intros k c rest H.
  - destruct k; discriminate.
  - destruct k as [| k].
    + cbn [skipn] in H. injection H as H1 H2. subst. split; reflexivity.
    + cbn [skipn] in H. destruct (IH k c rest H) as [H1 H2]. split; [exact H1 | exact H2].
Qed.

Lemma skipn_add : forall A (x y : nat) (l : list A), skipn x (skipn y l) = skipn (y + x) l.
Proof.
  intros A x y. induction y as [| y IH]; intros l.
  - reflexivity.
  - destruct l as [| a l]; [rewrite !skipn_nil; reflexivity |]. cbn [skipn Nat.add]. apply IH.
Qed.

Lemma bytes_ok_app : forall a b, bytes_ok (a ++ b) -> bytes_ok a /\ bytes_ok b.
Proof. intros a b H. unfold bytes_ok in *. apply Forall_app in H. exact H. Qed.

Lemma bytes_ok_app_intro : forall a b, bytes_ok a -> bytes_ok b -> bytes_ok (a ++ b).
Proof. intros a b Ha Hb. unfold bytes_ok in *. apply Forall_app. split; assumption. Qed.

(* ================================================================================================ *)
(* 2. unfolding equations of the skeleton                                                            *)
(* ================================================================================================ *)
Lemma match_loop_S : forall t text f cur cp last,
  match_loop t text (S f) cur cp last =
  match buf_at text cp with
  | None => None
  | Some ch =>
      match ec_of t ch, note t cur cp last with
      | Some c, Some last' =>
          match trans t cur c with
          | None => None
          | Some q => if q =? ft_jam t then Some last' else match_loop t text f q (cp + 1) last'
          end
      | _, _ => None
      end
  end.
Proof. reflexivity. Qed.

Lemma prev_state_eq : forall t text fuel cur cp stop last,
  prev_state t text fuel cur cp stop last =
  if stop <=? cp then Some (cur, last)
  else
    match fuel with
    | O => None
    | S f =>
        match buf_at text cp with
        | None => None
        | Some ch =>
            match ec_prev t ch, note t cur cp last with
            | Some c, Some last' =>
                match trans t cur c with
                | None => None
                | Some q => prev_state t text f q (cp + 1) stop last'
                end
            | _, _ => None
            end
        end
    end.
Proof. intros t text fuel cur cp stop last. destruct fuel; reflexivity. Qed.

Lemma find_action_S : forall t acts text f bp cur cp last line,
  find_action t acts text (S f) bp cur cp last line =
  match accept_of t cur with
  | None => SDone LFault
  | Some act =>
      let c_buf_p := cp in
      let line' := if negb (act =? ft_eob t) && eol_flag t act then line + count_nl (slice text bp cp) else line in
      if act =? 0 then
        match last with
        | Some (ls, lc) => find_action t acts text f bp ls lc last line'
        | None => SDone LFault
        end
      else if act =? ft_eob t then
        let amount := (cp - bp) - 1 in
        if c_buf_p <=? n_chars text then
          let c_buf_p1 := bp + amount in
          match prev_state t text (Z.to_nat (amount + 1)) (ft_start t) bp c_buf_p1 last with
          | None => SDone LFault
          | Some (st, last1) =>
              match note t st c_buf_p1 last1, trans t st (ft_nul t) with
              | Some last2, Some q =>
                  if q =? ft_jam t then
                    match last2 with
                    | Some (ls, lc) => find_action t acts text f bp ls lc last2 line'
                    | None => SDone LFault
                    end
                  else
                    match match_loop t text (S (Z.to_nat (n_chars text + 2 - c_buf_p1))) q (c_buf_p1 + 1) last2 with
                    | Some (Some (ls, lc)) => find_action t acts text f bp ls lc (Some (ls, lc)) line'
                    | _ => SDone LFault
                    end
              | _, _ => SDone LFault
              end
          end
        else
          if c_buf_p - bp =? 1 then SDone LEof
          else
            match prev_state t text (Z.to_nat (n_chars text - bp + 1)) (ft_start t) bp (n_chars text) last with
            | None => SDone LFault
            | Some (st, last1) => find_action t acts text f bp st (n_chars text) last1 line'
            end
      else
        match nth_error acts (Z.to_nat (act - 1)) with
        | Some (Some (Some k)) => SDone (LTok k (slice text bp cp) line' c_buf_p)
        | Some (Some None) => SNext c_buf_p line'
        | _ => SDone LFault
        end
  end.
Proof. reflexivity. Qed.

(* ================================================================================================ *)
(* 3. the buffer: the text followed by two NUL sentinels                                             *)
(* ================================================================================================ *)
Lemma buf_at_text : forall text cp c rest, 0 <= cp -> skipn (Z.to_nat cp) text = c :: rest ->
  buf_at text cp = Some c /\ skipn (Z.to_nat (cp + 1)) text = rest /\ cp < n_chars text.
Proof.
  intros text cp c rest Hcp H. apply skipn_cons_nth in H. destruct H as [Hn Hs].
  assert (Hlt : (Z.to_nat cp < length text)%nat).
  { apply nth_error_Some. rewrite Hn. discriminate. }
  assert (Hlt' : cp < n_chars text) by (unfold n_chars, zlen; lia).
  split; [| split].
  - unfold buf_at.
    destruct (0 <=? cp) eqn:E1; [| apply Z.leb_gt in E1; lia].
    destruct (cp <? n_chars text) eqn:E2; [| apply Z.ltb_ge in E2; lia].
    cbn [andb]. unfold znth.
    destruct (cp <? 0) eqn:E3; [apply Z.ltb_lt in E3; lia |]. exact Hn.
  - replace (Z.to_nat (cp + 1)) with (S (Z.to_nat cp)) by lia. exact Hs.
  - exact Hlt'.
Qed.

Lemma buf_at_end0 : forall text, buf_at text (n_chars text) = Some 0%N.
Proof.
  intros text. unfold buf_at.
  assert (H0 : 0 <= n_chars text) by (unfold n_chars; apply zlen_nonneg).
  rewrite Z.ltb_irrefl. rewrite andb_false_r. rewrite Z.eqb_refl. reflexivity.
Qed.

Lemma buf_at_end1 : forall text, buf_at text (n_chars text + 1) = Some 0%N.
Proof.
  intros text. unfold buf_at.
  assert (H0 : 0 <= n_chars text) by (unfold n_chars; apply zlen_nonneg).
  destruct (n_chars text + 1 <? n_chars text) eqn:E; [apply Z.ltb_lt in E; lia |].
  rewrite andb_false_r. rewrite Z.eqb_refl. rewrite orb_true_r. reflexivity.
Qed.

(* every buffer position up to the second sentinel holds a byte *)
Lemma buf_at_byte : forall text i, bytes_ok text -> 0 <= i <= n_chars text + 1 ->
  exists ch, buf_at text i = Some ch /\ (ch < 256)%N.
Proof.
  intros text i Hb Hi.
  destruct (Z.eq_dec i (n_chars text)) as [E | E].
  { subst i. exists 0%N. split; [apply buf_at_end0 | lia]. }
  destruct (Z.eq_dec i (n_chars text + 1)) as [E1 | E1].
  { subst i. exists 0%N. split; [apply buf_at_end1 | lia]. }
  assert (Hlt : i < n_chars text) by lia.
  assert (Hlt' : (Z.to_nat i < length text)%nat) by (unfold n_chars, zlen in Hlt; lia).
  destruct (nth_error text (Z.to_nat i)) as [c |] eqn:En.
  - exists c. split.
    + unfold buf_at.
      destruct (0 <=? i) eqn:E2; [| apply Z.leb_gt in E2; lia].
      destruct (i <? n_chars text) eqn:E3; [| apply Z.ltb_ge in E3; lia].
      cbn [andb]. unfold znth. destruct (i <? 0) eqn:E4; [apply Z.ltb_lt in E4; lia |]. exact En.
    + apply nth_error_In in En. unfold bytes_ok in Hb. rewrite Forall_forall in Hb. apply Hb. exact En.
  - apply nth_error_None in En. lia.
Qed.

(* ================================================================================================ *)
(* 4. the abstract run over a prefix that does not jam                                               *)
(* ================================================================================================ *)
Fixpoint arun (t : ftables) (cur : Z) (l : list N) (n : nat) (best : option (nat * Z)) : option (Z * option (nat * Z)) :=
  match l with
  | [] => Some (cur, best)
  | c :: r =>
      match accept_of t cur with
      | None => None
      | Some a =>
          let best' := if a =? 0 then best else Some (n, a) in
          match byte_class t c with
          | None => None
          | Some k =>
              match next_state (chain_fuel t) t cur k with
              | None => None
              | Some q => if q =? ft_jam t then None else arun t q r (S n) best'
              end
          end
      end
  end.

Lemma arun_flex_run : forall t l cur n best q b, arun t cur l n best = Some (q, b) ->
  forall r, flex_run t cur (l ++ r) n best = flex_run t q r (n + length l) b.
Proof.
  intros t. induction l as [| c l IH]; intros cur n best q b H r.
  - cbn [arun] in H. injection H as H1 H2. subst. cbn [app length]. rewrite Nat.add_0_r. reflexivity.
  - cbn [arun] in H. cbn [app]. rewrite flex_run_eq.
    destruct (accept_of t cur) as [a |]; [| discriminate].
    destruct (byte_class t c) as [k |]; [| discriminate].
    destruct (next_state (chain_fuel t) t cur k) as [q1 |]; [| discriminate].
    destruct (q1 =? ft_jam t); [discriminate |].
    cbv zeta. rewrite (IH _ _ _ _ _ H r). cbn [length].
    replace (S n + length l)%nat with (n + S (length l))%nat by lia. reflexivity.
Qed.

Lemma arun_app : forall t l1 l2 cur n best,
  arun t cur (l1 ++ l2) n best =
  match arun t cur l1 n best with
  | Some (q, b) => arun t q l2 (n + length l1) b
  | None => None
  end.
Proof.
  intros t. induction l1 as [| c l1 IH]; intros l2 cur n best.
  - cbn [app arun length]. rewrite Nat.add_0_r. reflexivity.
  - cbn [app arun].
    destruct (accept_of t cur) as [a |]; [| reflexivity].
    destruct (byte_class t c) as [k |]; [| reflexivity].
    destruct (next_state (chain_fuel t) t cur k) as [q1 |]; [| reflexivity].
    destruct (q1 =? ft_jam t); [reflexivity |].
    cbv zeta. rewrite IH. cbn [length].
    replace (S n + length l1)%nat with (n + S (length l1))%nat by lia. reflexivity.
Qed.

(* ================================================================================================ *)
(* 5. the generic development                                                                        *)
(* ================================================================================================ *)
Section Generic.
Variables (t : ftables) (acts : list (option (option tkind))).
Variables (good : Z -> Prop) (c0 e : Z).
Hypothesis Hc0 : znth (ft_ec t) 0 = Some c0.
Hypothesis He_nj : e <> ft_jam t.
Hypothesis He_acc : accept_of t e = Some (ft_eob t).
Hypothesis Heob0 : ft_eob t <> 0.
Hypothesis He_jam : forall c, (c < 256)%N -> exists k, ec_of t c = Some k /\ trans t e k = Some (ft_jam t).
Hypothesis Hg_acc : forall q, good q -> exists a, accept_of t q = Some a.
Hypothesis Hg_c0 : forall q, good q -> trans t q c0 = Some e.
Hypothesis Hg_step : forall q c, good q -> (c < 256)%N ->
  exists k q', byte_class t c = Some k /\ trans t q k = Some q' /\ (q' = ft_jam t \/ good q').

Variable text : list N.
Hypothesis Htext : bytes_ok text.
Variable bp : Z.

(* best = (length, act) of the abstract run;  last = (state, cpos) of the skeleton *)
Definition rel (best : option (nat * Z)) (last : last_t) : Prop :=
  match best with
  | None => True
  | Some (l, a) => exists st, last = Some (st, bp + Z.of_nat l) /\ accept_of t st = Some a
  end.

Lemma note_rel : forall q a cp n best last, accept_of t q = Some a -> cp = bp + Z.of_nat n -> rel best last ->
  exists last', note t q cp last = Some last' /\ rel (if a =? 0 then best else Some (n, a)) last'.
Proof.
  intros q a cp n best last Ha Hcp Hrel. unfold note. rewrite Ha.
  destruct (a =? 0) eqn:E.
  - exists last. split; [reflexivity | exact Hrel].
  - exists (Some (q, cp)). split; [reflexivity |]. cbn [rel]. exists q. subst cp. split; [reflexivity | exact Ha].
Qed.

Lemma arun_good : forall l cur n best q b, bytes_ok l -> good cur -> arun t cur l n best = Some (q, b) -> good q.
Proof.
  induction l as [| c l IH]; intros cur n best q b Hl Hg H.
  - cbn [arun] in H. injection H as H1 H2. subst. exact Hg.
  - cbn [arun] in H. inversion Hl as [| c' l' Hc Hl']. subst c' l'.
    destruct (Hg_step cur c Hg Hc) as [k [q1 [Hk [Hq1 Hor]]]]. unfold trans in Hq1.
    destruct (accept_of t cur) as [a |]; [| discriminate].
    rewrite Hk, Hq1 in H.
    destruct (q1 =? ft_jam t) eqn:Ej; [discriminate |].
    destruct Hor as [Hj | Hg1]; [apply Z.eqb_neq in Ej; contradiction |].
    exact (IH _ _ _ _ _ Hl' Hg1 H).
Qed.

(* the match loop on a NUL byte or on the first sentinel: on to the end-of-buffer state, which jams on the next byte *)
Lemma eob_step : forall mf q i last, (2 <= mf)%nat -> good q -> 0 <= i <= n_chars text ->
  buf_at text i = Some 0%N ->
  match_loop t text mf q i last = Some (Some (e, i + 1)).
Proof.
  intros mf q i last Hmf Hg Hi Hb.
  destruct mf as [| [| f]]; [lia | lia |].
  rewrite match_loop_S. rewrite Hb.
  unfold ec_of at 1. cbn [Z.of_N]. rewrite Hc0.
  destruct (Hg_acc q Hg) as [a Ha].
  unfold note at 1. rewrite Ha.
  rewrite (Hg_c0 q Hg).
  destruct (e =? ft_jam t) eqn:Ej; [apply Z.eqb_eq in Ej; contradiction |].
  rewrite match_loop_S.
  destruct (buf_at_byte text (i + 1) Htext) as [ch [Hch Hlt]]; [lia |].
  rewrite Hch.
  destruct (He_jam ch Hlt) as [k [Hk Hjam]]. rewrite Hk.
  unfold note. rewrite He_acc.
  destruct (ft_eob t =? 0) eqn:E0; [apply Z.eqb_eq in E0; contradiction |].
  rewrite Hjam. rewrite Z.eqb_refl. reflexivity.
Qed.

(* Key lemma 1: the match loop from (q, cp) either follows the abstract run to its jam, or stops at the first NUL
   byte / at the sentinel in the end-of-buffer state *)
Lemma match_loop_spec : forall r cp q n best last mf,
  bytes_ok r -> skipn (Z.to_nat cp) text = r -> cp + zlen r = n_chars text -> 0 <= cp ->
  cp = bp + Z.of_nat n -> good q -> rel best last -> (length r + 2 <= mf)%nat ->
  exists last', match_loop t text mf q cp last = Some last' /\
    ( (exists bf, flex_run t q r n best = Some bf /\ rel bf last')
      \/ (exists l r' q' b', r = l ++ r' /\ (r' = [] \/ exists r'', r' = 0%N :: r'') /\
                             arun t q l n best = Some (q', b') /\ last' = Some (e, cp + zlen l + 1)) ).
Proof.
  induction r as [| c rest IH]; intros cp q n best last mf Hr Hsk Hlen Hcp Hn Hg Hrel Hmf.
  - rewrite zlen_nil in Hlen. assert (Ecp : cp = n_chars text) by lia.
    exists (Some (e, cp + 1)). split.
    + apply eob_step; [cbn [length] in Hmf; lia | exact Hg | lia | rewrite Ecp; apply buf_at_end0].
    + right. exists [], [], q, best. split; [reflexivity |]. split; [left; reflexivity |].
      split; [reflexivity |]. rewrite zlen_nil. f_equal. f_equal. lia.
  - destruct (buf_at_text text cp c rest Hcp Hsk) as [Hbuf [Hsk' Hlt]].
    rewrite zlen_cons in Hlen.
    inversion Hr as [| c' l' Hc Hrest]. subst c' l'.
    destruct (N.eq_dec c 0) as [Ec | Ec].
    + subst c. exists (Some (e, cp + 1)). split.
      * apply eob_step; [cbn [length] in Hmf; lia | exact Hg | lia | exact Hbuf].
      * right. exists [], (0%N :: rest), q, best. split; [reflexivity |].
        split; [right; exists rest; reflexivity |]. split; [reflexivity |].
        rewrite zlen_nil. f_equal. f_equal. lia.
    + destruct mf as [| mf]; [cbn [length] in Hmf; lia |].
      rewrite match_loop_S. rewrite Hbuf.
      destruct (Hg_step q c Hg Hc) as [k [q1 [Hk [Hq1 Hor]]]].
      assert (Hec : ec_of t c = Some k).
      { unfold byte_class in Hk. destruct (c =? 0)%N eqn:E; [apply N.eqb_eq in E; contradiction |].
        unfold ec_of. exact Hk. }
      rewrite Hec.
      destruct (Hg_acc q Hg) as [a Ha].
      destruct (note_rel q a cp n best last Ha Hn Hrel) as [last1 [Hnote Hrel1]].
      rewrite Hnote. rewrite Hq1. unfold trans in Hq1.
      destruct (q1 =? ft_jam t) eqn:Ej.
      * exists last1. split; [reflexivity |]. left.
        exists (if a =? 0 then best else Some (n, a)). split; [| exact Hrel1].
        rewrite flex_run_eq. rewrite Ha. cbv zeta. rewrite Hk, Hq1, Ej. reflexivity.
      * destruct Hor as [Hj | Hg1]; [apply Z.eqb_neq in Ej; contradiction |].
        assert (Hn1 : cp + 1 = bp + Z.of_nat (S n)) by lia.
        assert (Hlen1 : cp + 1 + zlen rest = n_chars text) by lia.
        assert (Hmf1 : (length rest + 2 <= mf)%nat) by (cbn [length] in Hmf; lia).
        destruct (IH (cp + 1) q1 (S n) _ last1 mf Hrest Hsk' Hlen1 ltac:(lia) Hn1 Hg1 Hrel1 Hmf1)
          as [last' [Hml Hdisj]].
        exists last'. split; [exact Hml |].
        destruct Hdisj as [[bf [Hrun Hrelf]] | [l [r' [q' [b' [Hsplit [Hr' [Harun Hlast]]]]]]]].
        -- left. exists bf. split; [| exact Hrelf].
           rewrite flex_run_eq. rewrite Ha. cbv zeta. rewrite Hk, Hq1, Ej. exact Hrun.
        -- right. exists (c :: l), r', q', b'. split; [cbn [app]; rewrite Hsplit; reflexivity |].
           split; [exact Hr' |]. split.
           ++ cbn [arun]. rewrite Ha, Hk, Hq1, Ej. exact Harun.
           ++ rewrite Hlast. rewrite zlen_cons. f_equal. f_equal. lia.
Qed.

(* Key lemma 2: yy_get_previous_state recomputes the abstract prefix run *)
Lemma prev_state_spec : forall l cp cur n best last r' q' b' fuel,
  skipn (Z.to_nat cp) text = l ++ r' -> 0 <= cp -> cp = bp + Z.of_nat n -> rel best last ->
  arun t cur l n best = Some (q', b') -> (length l <= fuel)%nat ->
  exists last', prev_state t text fuel cur cp (cp + zlen l) last = Some (q', last') /\ rel b' last'.
Proof.
  induction l as [| c l IH]; intros cp cur n best last r' q' b' fuel Hsk Hcp Hn Hrel Harun Hfuel.
  - cbn [arun] in Harun. injection Harun as H1 H2. subst q' b'.
    rewrite prev_state_eq. rewrite zlen_nil.
    destruct (cp + 0 <=? cp) eqn:E; [| apply Z.leb_gt in E; lia].
    exists last. split; [reflexivity | exact Hrel].
  - cbn [app] in Hsk.
    destruct (buf_at_text text cp c (l ++ r') Hcp Hsk) as [Hbuf [Hsk' Hlt]].
    cbn [arun] in Harun.
    destruct (accept_of t cur) as [a |] eqn:Ha; [| discriminate].
    destruct (byte_class t c) as [k |] eqn:Hk; [| discriminate].
    destruct (next_state (chain_fuel t) t cur k) as [q1 |] eqn:Hq1; [| discriminate].
    destruct (q1 =? ft_jam t) eqn:Ej; [discriminate |].
    cbv zeta in Harun.
    rewrite prev_state_eq. rewrite zlen_cons.
    pose proof (zlen_nonneg _ l) as Hl0.
    destruct (cp + (1 + zlen l) <=? cp) eqn:E; [apply Z.leb_le in E; lia |].
    destruct fuel as [| fuel]; [cbn [length] in Hfuel; lia |].
    rewrite Hbuf.
    assert (Hecp : ec_prev t c = Some k). { unfold ec_prev, ec_of. unfold byte_class in Hk. exact Hk. }
    rewrite Hecp.
    destruct (note_rel cur a cp n best last Ha Hn Hrel) as [last1 [Hnote Hrel1]].
    rewrite Hnote. unfold trans. rewrite Hq1.
    assert (Hn1 : cp + 1 = bp + Z.of_nat (S n)) by lia.
    destruct (IH (cp + 1) q1 (S n) _ last1 r' q' b' fuel Hsk' ltac:(lia) Hn1 Hrel1 Harun
                 ltac:(cbn [length] in Hfuel; lia)) as [last' [Hps Hrel']].
    exists last'. split; [| exact Hrel'].
    replace (cp + (1 + zlen l)) with (cp + 1 + zlen l) by lia. exact Hps.
Qed.


(* ================================================================================================ *)
(* 6. from yy_find_action on                                                                         *)
(* ================================================================================================ *)
Hypothesis Heol0 : eol_flag t 0 = false.
Hypothesis Hstart : good (ft_start t).

Lemma skipn_app_exact : forall (k : nat) (l r : list N), skipn k text = l ++ r -> skipn (k + length l) text = r.
Proof.
  intros k l r H. rewrite <- skipn_add. rewrite H.
  rewrite skipn_app. rewrite skipn_all. rewrite Nat.sub_diag. reflexivity.
Qed.

(* the end-of-buffer action, entered with yy_cp = i + 1 where i is the position of the NUL / sentinel *)
Lemma find_action_eob : forall f last i line,
  find_action t acts text (S f) bp e (i + 1) last line =
  if i + 1 <=? n_chars text then
    match prev_state t text (Z.to_nat (i - bp + 1)) (ft_start t) bp i last with
    | None => SDone LFault
    | Some (st, last1) =>
        match note t st i last1, trans t st (ft_nul t) with
        | Some last2, Some q =>
            if q =? ft_jam t then
              match last2 with
              | Some (ls, lc) => find_action t acts text f bp ls lc last2 line
              | None => SDone LFault
              end
            else
              match match_loop t text (S (Z.to_nat (n_chars text + 2 - i))) q (i + 1) last2 with
              | Some (Some (ls, lc)) => find_action t acts text f bp ls lc (Some (ls, lc)) line
              | _ => SDone LFault
              end
        | _, _ => SDone LFault
        end
    end
  else if i + 1 - bp =? 1 then SDone LEof
  else
    match prev_state t text (Z.to_nat (n_chars text - bp + 1)) (ft_start t) bp (n_chars text) last with
    | None => SDone LFault
    | Some (st, last1) => find_action t acts text f bp st (n_chars text) last1 line
    end.
Proof.
  intros f last i line. rewrite find_action_S. rewrite He_acc. cbv zeta.
  destruct (ft_eob t =? 0) eqn:E0; [apply Z.eqb_eq in E0; contradiction |].
  rewrite Z.eqb_refl. cbn [negb andb].
  replace (i + 1 - bp - 1) with (i - bp) by lia.
  replace (bp + (i - bp)) with i by lia. reflexivity.
Qed.

Section OneToken.
Variables (s : list N) (len : nat) (act : Z) (line : Z).
Hypothesis Hbp : 0 <= bp.
Hypothesis Hs : skipn (Z.to_nat bp) text = s.
Hypothesis Hmatch : flex_match t s = Some (Some (len, act)).
Hypothesis Hact0 : act <> 0.
Hypothesis Hacte : act <> ft_eob t.
Hypothesis Hbplt : bp < n_chars text.

Definition verdict : step_res :=
  let line' := if eol_flag t act then line + count_nl (slice text bp (bp + Z.of_nat len)) else line in
  match nth_error acts (Z.to_nat (act - 1)) with
  | Some (Some (Some k)) => SDone (LTok k (slice text bp (bp + Z.of_nat len)) line' (bp + Z.of_nat len))
  | Some (Some None) => SNext (bp + Z.of_nat len) line'
  | _ => SDone LFault
  end.

Lemma final_action : forall f st last, accept_of t st = Some act ->
  find_action t acts text (S f) bp st (bp + Z.of_nat len) last line = verdict.
Proof.
  intros f st last Ha. rewrite find_action_S. rewrite Ha. cbv zeta.
  destruct (act =? 0) eqn:E0; [apply Z.eqb_eq in E0; contradiction |].
  destruct (act =? ft_eob t) eqn:E1; [apply Z.eqb_eq in E1; contradiction |].
  cbn [negb andb]. unfold verdict. reflexivity.
Qed.

Lemma bytes_ok_s : bytes_ok s.
Proof. rewrite <- Hs. apply bytes_ok_skipn. exact Htext. Qed.

Lemma run_from : forall l1 r1 q1 b1, s = l1 ++ r1 -> arun t (ft_start t) l1 0 None = Some (q1, b1) ->
  flex_run t q1 r1 (length l1) b1 = Some (Some (len, act)).
Proof.
  intros l1 r1 q1 b1 Hsp Har. rewrite <- Hmatch. unfold flex_match. rewrite Hsp.
  rewrite (arun_flex_run _ _ _ _ _ _ _ Har r1). reflexivity.
Qed.

(* the composite "yy_match; yy_find_action" continues any abstract prefix run to the verdict of flex_match *)
Lemma composite : forall k r cp q n best last mf f l0,
  (length r < k)%nat -> skipn (Z.to_nat cp) text = r -> cp + zlen r = n_chars text ->
  cp = bp + Z.of_nat n -> s = l0 ++ r -> length l0 = n ->
  arun t (ft_start t) l0 0 None = Some (q, best) ->
  rel best last -> (length r + 2 <= mf)%nat -> (length r + 3 <= f)%nat ->
  match match_loop t text mf q cp last with
  | Some (Some (ls, lc)) => find_action t acts text f bp ls lc (Some (ls, lc)) line
  | _ => SDone LFault
  end = verdict.
Proof.
  induction k as [| k IH]; intros r cp q n best last mf f l0 Hk Hsk Hlen Hn Hsp Hl0 Har0 Hrel Hmf Hf; [lia |].
  pose proof bytes_ok_s as Hbs. rewrite Hsp in Hbs. apply bytes_ok_app in Hbs. destruct Hbs as [Hbl0 Hbr].
  assert (Hgq : good q) by exact (arun_good l0 _ _ _ _ _ Hbl0 Hstart Har0).
  assert (Hcp0 : 0 <= cp) by lia.
  destruct (match_loop_spec r cp q n best last mf Hbr Hsk Hlen Hcp0 Hn Hgq Hrel Hmf)
    as [last' [Hml [[bf [Hrun Hrelf]] | [l [r' [q' [b' [Hsplit [Hr' [Harun Hlast]]]]]]]]]].
  - (* the DFA jams inside the text, before any NUL *)
    rewrite Hml.
    pose proof (run_from l0 r q best Hsp Har0) as Hfm. rewrite Hl0 in Hfm.
    rewrite Hfm in Hrun. injection Hrun as Hbf. subst bf.
    cbn [rel] in Hrelf. destruct Hrelf as [st [Hl Hacc]]. subst last'.
    destruct f as [| f]; [lia |]. apply final_action. exact Hacc.
  - (* a NUL byte of the text or the sentinel at position i *)
    rewrite Hml. subst last'.
    destruct f as [| f1]; [lia |].
    rewrite find_action_eob.
    set (i := cp + zlen l).
    assert (Har1 : arun t (ft_start t) (l0 ++ l) 0 None = Some (q', b')).
    { rewrite arun_app. rewrite Har0. cbn [Nat.add]. rewrite Hl0. exact Harun. }
    assert (Hlen1 : length (l0 ++ l) = (n + length l)%nat) by (rewrite app_length; lia).
    assert (Hsp1 : s = (l0 ++ l) ++ r') by (rewrite Hsp, Hsplit, app_assoc; reflexivity).
    assert (Hbl : bytes_ok (l0 ++ l)).
    { apply bytes_ok_app_intro; [exact Hbl0 |]. rewrite Hsplit in Hbr. apply bytes_ok_app in Hbr. tauto. }
    assert (Hgq' : good q') by exact (arun_good _ _ _ _ _ _ Hbl Hstart Har1).
    assert (Hi : i = bp + Z.of_nat (n + length l)) by (unfold i, zlen; lia).
    assert (Hzl : zlen r = zlen l + zlen r') by (rewrite Hsplit; apply zlen_app).
    assert (Hstop : bp + zlen (l0 ++ l) = i) by (unfold zlen; rewrite Hlen1; lia).
    pose proof (run_from _ _ _ _ Hsp1 Har1) as Hfm. rewrite Hlen1 in Hfm.
    destruct (Hg_acc q' Hgq') as [a' Ha'].
    rewrite <- Hs in Hsp1.
    destruct Hr' as [Hnil | [r'' Hcons]].
    + (* the sentinel: EOB_ACT_LAST_MATCH *)
      subst r'. rewrite zlen_nil in Hzl.
      assert (Ein : i = n_chars text) by (unfold i; lia).
      destruct (i + 1 <=? n_chars text) eqn:E1; [apply Z.leb_le in E1; lia |].
      destruct (i + 1 - bp =? 1) eqn:E2; [apply Z.eqb_eq in E2; lia |].
      destruct (prev_state_spec (l0 ++ l) bp (ft_start t) 0 None (Some (e, i + 1)) [] q' b'
                  (Z.to_nat (n_chars text - bp + 1)) Hsp1 Hbp ltac:(lia) I Har1 ltac:(lia))
        as [last1 [Hps Hrel1]].
      rewrite Hstop in Hps. rewrite Ein in Hps |- *. rewrite Hps.
      rewrite flex_run_eq in Hfm. rewrite Ha' in Hfm. cbv zeta in Hfm. injection Hfm as Hfm.
      destruct f1 as [| f2]; [lia |].
      destruct (a' =? 0) eqn:Ea.
      * apply Z.eqb_eq in Ea. subst a' b'. cbn [rel] in Hrel1. destruct Hrel1 as [st [Hl1 Hacc]].
        rewrite find_action_S. rewrite Ha'. cbv zeta. rewrite Z.eqb_refl.
        rewrite Heol0. rewrite andb_false_r. rewrite Hl1.
        destruct f2 as [| f3]; [lia |]. apply final_action. exact Hacc.
      * injection Hfm as Hlen' Hact'. subst a'.
        replace (n_chars text) with (bp + Z.of_nat len) by lia.
        apply final_action. exact Ha'.
    + (* this was really a NUL *)
      subst r'. rewrite zlen_cons in Hzl. pose proof (zlen_nonneg _ r'') as Hr0.
      destruct (i + 1 <=? n_chars text) eqn:E1; [| apply Z.leb_gt in E1; unfold i in E1; lia].
      destruct (prev_state_spec (l0 ++ l) bp (ft_start t) 0 None (Some (e, i + 1)) (0%N :: r'') q' b'
                  (Z.to_nat (i - bp + 1)) Hsp1 Hbp ltac:(lia) I Har1 ltac:(lia))
        as [last1 [Hps Hrel1]].
      rewrite Hstop in Hps. rewrite Hps.
      destruct (note_rel q' a' i (n + length l) b' last1 Ha' Hi Hrel1) as [last2 [Hnote Hrel2]].
      rewrite Hnote.
      destruct (Hg_step q' 0%N Hgq' ltac:(lia)) as [k0 [q'' [Hk0 [Hq'' Hor]]]].
      assert (Ek0 : k0 = ft_nul t). { unfold byte_class in Hk0. cbn [N.eqb] in Hk0. congruence. }
      subst k0. rewrite Hq''. unfold trans in Hq''.
      rewrite flex_run_eq in Hfm. rewrite Ha', Hk0, Hq'' in Hfm. cbv zeta in Hfm.
      destruct (q'' =? ft_jam t) eqn:Ej.
      * injection Hfm as Hfm. rewrite Hfm in Hrel2. cbn [rel] in Hrel2. destruct Hrel2 as [st [Hl2 Hacc]].
        rewrite Hl2. destruct f1 as [| f2]; [lia |]. apply final_action. exact Hacc.
      * destruct Hor as [Hj | Hg2]; [apply Z.eqb_neq in Ej; contradiction |].
        apply (IH r'' (i + 1) q'' (S (n + length l)) (if a' =? 0 then b' else Some ((n + length l)%nat, a')) last2
                  _ f1 (l0 ++ l ++ [0%N])).
        -- rewrite Hsplit in Hk. rewrite app_length in Hk. cbn [length] in Hk. lia.
        -- replace (Z.to_nat (i + 1)) with (Z.to_nat cp + length (l ++ [0%N]))%nat
             by (rewrite app_length; cbn [length]; unfold i, zlen; lia).
           apply skipn_app_exact. rewrite Hsk, Hsplit. rewrite <- app_assoc. reflexivity.
        -- unfold i. lia.
        -- lia.
        -- rewrite Hsp, Hsplit. rewrite <- !app_assoc. reflexivity.
        -- rewrite !app_length. cbn [length]. lia.
        -- rewrite arun_app. rewrite Har0. cbn [Nat.add]. rewrite Hl0. rewrite arun_app. rewrite Harun.
           cbn [arun]. rewrite Ha', Hk0, Hq'', Ej. reflexivity.
        -- exact Hrel2.
        -- unfold i, zlen in *. lia.
        -- rewrite Hsplit in Hf. rewrite app_length in Hf. cbn [length] in Hf. lia.
Qed.

(* one pass of the outer loop on a non-empty rest of the text *)
Lemma one_match_verdict : one_match t acts text bp line = verdict.
Proof.
  unfold one_match.
  assert (Hlen : bp + zlen s = n_chars text).
  { rewrite <- Hs. unfold zlen, n_chars, zlen in *. rewrite skipn_length. lia. }
  apply (composite (S (length s)) s bp (ft_start t) 0 None None _ _ []).
  - lia.
  - exact Hs.
  - exact Hlen.
  - lia.
  - reflexivity.
  - reflexivity.
  - reflexivity.
  - exact I.
  - unfold zlen in Hlen. lia.
  - unfold zlen in Hlen. lia.
Qed.

End OneToken.

(* the end of the text: EOB_ACT_END_OF_FILE *)
Lemma one_match_eof : forall line, one_match t acts text (n_chars text) line = SDone LEof.
Proof.
  intros line. unfold one_match.
  assert (H0 : 0 <= n_chars text) by (unfold n_chars; apply zlen_nonneg).
  rewrite (eob_step _ (ft_start t) (n_chars text) None); [| lia | exact Hstart | lia | apply buf_at_end0].
  replace (S (S (Z.to_nat (n_chars text + 2 - n_chars text)))) with (S 3) by lia.
  rewrite find_action_S. rewrite He_acc. cbv zeta.
  destruct (ft_eob t =? 0) eqn:E0; [apply Z.eqb_eq in E0; contradiction |].
  rewrite Z.eqb_refl.
  destruct (n_chars text + 1 <=? n_chars text) eqn:E1; [apply Z.leb_le in E1; lia |].
  replace (n_chars text + 1 - n_chars text) with 1 by lia. reflexivity.
Qed.

End Generic.
