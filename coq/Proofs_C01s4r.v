(* Proofs_C01s4r.v — C01, stage 4, part 18: every jump of the generated code is on the to-do list, for the trees of
   stage 4.  Proofs_GenWf1.v proves the generator's invariant (Inv: among others, every jump behind position 0 is on
   the to-do list) for trees without a PROGRAM node below the top level (noprog / topok).  The trees of stage 4
   (C01Stages4.prog4) allow any subtree below the number of IF x = c, which the generator never visits; so the
   statements p_body / p_program / p_top are proved again here for the weaker condition "no PROGRAM node in a
   statement position" (sprog / stop4), with the same tactics. *)
From Coq Require Import List ZArith NArith Lia Bool.
From Theo Require Import Base Tokens Errors MacroExtract Parser VMModel VMSpec VMStatements VMCheck VMCheckStatements GenModel CompileStatements Proofs_VM_mem Proofs_VM_dbg Proofs_VMCheck Proofs_Front Proofs_Gen0 Proofs_Gen Proofs_Static0 Proofs_Static1 GenWfStatements Proofs_GenWf0 Proofs_GenWf1 Proofs_GenWf.
From Theo Require Import C01Stages C01Stages3 C01Stages4.
Import ListNotations.
Local Open Scope Z_scope.

(* ================================================================================================ *)
(* 1. no PROGRAM node where the generator looks for statements                                      *)
(* ================================================================================================ *)
Fixpoint sprog (n : node) : bool :=
  match n with
  | Node t _ _ _ l r =>
      match t with
      | N_PROGRAM => false
      | N_SPLIT => (match l with None => true | Some x => sprog x end) && (match r with None => true | Some x => sprog x end)
      | N_LOOP | N_WHILE => match r with None => true | Some x => sprog x end
      | _ => true
      end
  end.
Definition osp (o : option node) : bool := match o with None => true | Some x => sprog x end.

Definition Pbody' (n : node) : Prop :=
  sprog n = true -> forall g g' gh, Inv None g gh -> dispatch_void false false false n g = Ok g' ->
    exists gh', Inv None g' gh' /\ Ext g gh g' gh'.

Lemma sub_body' o : optP Pbody' o -> osp o = true ->
  forall g g' gh, Inv None g gh -> dvo false false false o g = Ok g' -> exists gh', Inv None g' gh' /\ Ext g gh g' gh'.
Proof.
  intros IH Hn x y z Hx Hd. destruct o as [n|]; cbn in Hd, IH, Hn; [apply (IH Hn); auto|].
  inversion Hd; subst. exists z. split; [exact Hx | apply Ext_refl].
Qed.

Lemma p_body' : forall n, Pbody' n.
Proof.
  induction n as [t line file tok l r IHl IHr] using Proofs_Gen0.node_ind'. intros Hnp g g' gh I0 H.
  pose proof (Ext_refl g gh) as X0.
  destruct (void_type t) eqn:Et.
  - destruct t; try discriminate.
    + (* SPLIT *) cbn [sprog] in Hnp. apply andb_true_iff in Hnp. destruct Hnp as [Hnl Hnr].
      pose proof (sub_body' l IHl Hnl) as Il. pose proof (sub_body' r IHr Hnr) as Ir. clear IHl IHr.
      rewrite dvoid_split in H. binv H. repeat step2 Il Ir. fin'.
    + (* ASSIGN *) clear IHl IHr. rewrite dvoid_assign in H. binv H. repeat step2 I I. fin'.
    + (* LOOP *) cbn [sprog] in Hnp. pose proof (sub_body' r IHr Hnp) as Ir. clear IHl IHr.
      rewrite dvoid_loop in H. cbv zeta in H. binv H. repeat step2 I Ir. fin'.
    + (* WHILE *) cbn [sprog] in Hnp. pose proof (sub_body' r IHr Hnp) as Ir. clear IHl IHr.
      rewrite dvoid_while in H. cbv zeta in H. binv H. repeat step2 I Ir. fin'.
    + (* GOTO *) clear IHl IHr. rewrite dvoid_goto in H. binv H. repeat step2 I I. fin'.
    + (* IF *) clear IHl IHr. rewrite dvoid_if in H. cbv zeta in H. binv H. repeat step2 I I. fin'.
    + (* MARK *) clear IHl IHr. rewrite dvoid_mark in H. binv H. repeat step2 I I. fin'.
    + (* STOP *) clear IHl IHr. rewrite dvoid_stop in H. repeat step2 I I. fin'.
  - clear IHl IHr. rewrite dvoid_other in H by auto. repeat step2 I I. fin'.
Qed.

(* ================================================================================================ *)
(* 2. routine definitions (Proofs_GenWf1.p_program, with the weaker condition on the body)          *)
(* ================================================================================================ *)
Lemma p_program' line file tok l r g g' gh : Inv None g gh -> ostk gh = [0] -> Clean g -> osp r = true ->
  dispatch_void false false false (Node N_PROGRAM line file tok l r) g = Ok g' ->
  exists gh', Inv None g' gh' /\ ostk gh' = [0] /\ (exists c i, g_code g' = c ++ [i] /\ iop i <> POTENTIAL_BREAK).
Proof.
  intros I0 O0 C0 Hnr H. rewrite dvoid_program in H. cbv zeta in H. binv H.
  match goal with Hx : remove_top_pot_break _ _ = Ok ?x |- _ => rename Hx into Hrem; rename x into gr end.
  match goal with Hx : fetch_variable _ _ = Ok (?x, ?y) |- _ => rename Hx into Hfv; rename x into g6; rename y into ret_val end.
  match goal with Hx : create_label _ = (?x, ?y) |- _ => rename Hx into Ecl; rename x into g1; rename y into after end.
  match goal with Hx : dispatch_args _ _ _ = Ok ?x |- _ => rename Hx into Hargs; rename x into g4 end.
  match goal with Hx : dvo _ _ _ _ _ = Ok ?x |- _ => rename Hx into Hbody; rename x into g5 end.
  match goal with Hx : pop_symbols _ _ = Ok ?x |- _ => rename Hx into Hpop; rename x into g8 end.
  (* advance, remove *)
  destruct (p_advance g gh line file I0) as (gh1 & I1 & X1 & _).
  assert (O1 : ostk gh1 = [0]) by (rewrite (ex_ostk _ _ _ _ X1); exact O0).
  pose proof (clean_advance g gh line file I0 C0) as C1.
  destruct (p_remove _ _ _ I1 O1 C1 Hrem) as (I2 & _ & _).
  (* the label behind the definition, the jump over it *)
  destruct (p_create None _ _ _ _ I2 Ecl) as (I3 & X3 & L3).
  set (gh2 := gh_label gh1 after) in *.
  assert (O2 : ostk gh2 = [0]) by exact O1.
  assert (A3 : lab0 g1 gh2 after).
  { destruct L3 as [L3a L3b]. split; [exact L3a|]. rewrite L3b. unfold cur. rewrite O2. reflexivity. }
  destruct (p_emit_jmp g1 gh2 after I3 L3) as (gh3 & I4 & X4 & _).
  set (g2 := emit_backpatched g1 (IJmp after)) in *.
  assert (O3 : ostk gh3 = [0]) by (rewrite (ex_ostk _ _ _ _ X4); exact O2).
  pose proof (lab0_ext _ _ _ _ _ X4 A3) as A4.
  assert (Hn2 : next_pos g2 = next_pos g1 + 1).
  { unfold g2, emit_backpatched, next_pos. cbn. rewrite zlen_app. reflexivity. }
  (* entering the routine *)
  assert (I5 : Inv None (push_symbols g2 (n_tok a1)) (gh_push gh3 (next_pos g2))).
  { apply p_push; [exact I4 | exact O3 | |].
    - exists (g_code g1), (IJmp after). split; reflexivity.
    - intros l0 p0 Hz. change (g_labels g2) with (g_labels g1) in Hz.
      pose proof (labels_le _ _ _ _ _ I3 Hz). lia. }
  set (gh4 := gh_push gh3 (next_pos g2)) in *.
  assert (A5 : lab0 (push_symbols g2 (n_tok a1)) gh4 after) by exact A4.
  destruct (p_dargs _ _ _ _ _ I5 Hargs) as (I6 & X6 & C6 & L6).
  pose proof (lab0_ext _ _ _ _ _ X6 A5) as A6.
  assert (Hn4 : next_pos g4 = next_pos g2) by (unfold next_pos; rewrite C6; reflexivity).
  assert (O4 : ostk gh4 = [next_pos g4; 0]) by (rewrite Hn4; reflexivity).
  (* the body *)
  assert (S7 : exists gh5, Inv None g5 gh5 /\ Ext g4 gh4 g5 gh5).
  { destruct r as [n|]; cbn in Hbody, Hnr; [apply (p_body' n Hnr); auto|].
    inversion Hbody; subst. exists gh4. split; [exact I6 | apply Ext_refl]. }
  destruct S7 as (gh5 & I7 & X7).
  pose proof (lab0_ext _ _ _ _ _ X7 A6) as A7.
  assert (O5 : ostk gh5 = [next_pos g4; 0]) by (rewrite (ex_ostk _ _ _ _ X7); exact O4).
  pose proof (ex_np _ _ _ _ X7) as N7.
  (* the result, RET *)
  destruct (p_fetch_variable None _ _ _ _ _ I7 Hfv) as (I8 & X8 & R8).
  pose proof (lab0_ext _ _ _ _ _ X8 A7) as A8. pose proof (ex_np _ _ _ _ X8) as N8.
  pose proof (next_pos_ge1 _ _ _ I6) as G4.
  destruct (p_emit_ret g6 gh5 ret_val I8 R8) as (gh7 & I9 & X9 & _).
  { unfold cur. rewrite O5. cbn. lia. }
  set (g7 := emit g6 (IRet ret_val)) in *.
  pose proof (lab0_ext _ _ _ _ _ X9 A8) as A9.
  assert (O7 : ostk gh7 = [next_pos g4; 0]) by (rewrite (ex_ostk _ _ _ _ X9); exact O5).
  assert (Hn7 : next_pos g7 = next_pos g6 + 1).
  { unfold g7, next_pos. cbn. rewrite zlen_app. reflexivity. }
  (* leaving the routine *)
  destruct (p_pop g7 gh7 (next_pos g4) g8 I9 O7) as (I10 & C10 & L10 & _); [lia | | | exact Hpop |].
  { exists (g_code g6), (IRet ret_val). split; reflexivity. }
  { intros l0 p0 Hz. change (g_labels g7) with (g_labels g6) in Hz. pose proof (labels_le _ _ _ _ _ I8 Hz). lia. }
  set (gh8 := gh_pop gh7 (next_pos g7) (next_pos g4) (topsz g7)) in *.
  assert (A10 : lok g8 gh8 after).
  { destruct A9 as [A9a A9b]. split; [rewrite L10; exact A9a|]. exact A9b. }
  destruct (p_set_label_np g8 gh8 after g' I10 A10 H) as (I11 & X11).
  exists gh8. split; [exact I11|]. split; [reflexivity|].
  exists (g_code g6), (IRet ret_val). split; [|discriminate].
  rewrite (set_label_code _ _ _ _ H), C10. reflexivity.
Qed.


(* ================================================================================================ *)
(* 3. the top level                                                                                 *)
(* ================================================================================================ *)
Fixpoint stop4 (n : node) : bool :=
  sprog n ||
  match n with
  | Node N_SPLIT _ _ _ (Some (Node N_PROGRAM _ _ _ h b)) more =>
      osp b && (match more with None => true | Some m => stop4 m end)
  | _ => false
  end.

Definition Ptop' (n : node) : Prop :=
  stop4 n = true -> forall g g' gh, Inv None g gh -> ostk gh = [0] -> Clean g ->
    dispatch_void false false false n g = Ok g' -> exists gh', Inv None g' gh' /\ ostk gh' = [0].

Lemma p_top' : forall n, Ptop' n.
Proof.
  induction n as [t line file tok l r IHl IHr] using Proofs_Gen0.node_ind'. intros Ht g g' gh I0 O0 C0 H.
  destruct (sprog (Node t line file tok l r)) eqn:Enp.
  - destruct (p_body' _ Enp g g' gh I0 H) as (gh' & I1 & X1). exists gh'. split; [exact I1|].
    rewrite (ex_ostk _ _ _ _ X1). exact O0.
  - cbn [stop4] in Ht. fold (sprog (Node t line file tok l r)) in Ht. rewrite Enp in Ht. cbn [orb] in Ht.
    destruct t; try discriminate Ht. destruct l as [[tl ll fl tkl hl bl]|]; [|discriminate Ht].
    destruct tl; try discriminate Ht. apply andb_true_iff in Ht. destruct Ht as [Hb Hm].
    rewrite dvoid_split in H. binv H. cbn [dvo] in *.
    destruct (p_advance g gh line file I0) as (gh1 & I1 & X1 & _).
    assert (O1 : ostk gh1 = [0]) by (rewrite (ex_ostk _ _ _ _ X1); exact O0).
    pose proof (clean_advance g gh line file I0 C0) as C1.
    match goal with Hp : dispatch_void _ _ _ (Node N_PROGRAM _ _ _ _ _) _ = Ok ?x |- _ =>
      destruct (p_program' _ _ _ _ _ _ _ _ I1 O1 C1 Hb Hp) as (gh2 & I2 & O2 & C2) end.
    destruct r as [m|].
    + cbn in IHr. apply (IHr Hm _ _ gh2 I2 O2); [left; exact C2 | exact H].
    + inversion H; subst. exists gh2. split; assumption.
Qed.

(* ================================================================================================ *)
(* 4. the trees of stage 4                                                                          *)
(* ================================================================================================ *)
Lemma body4_sprog ol : forall n, body4 ol n = true -> sprog n = true.
Proof.
  fix IH 1. intros n H. destruct n as [t line file tok l r]. cbn [body4] in H.
  repeat match type of H with
         | context [match ?x with _ => _ end] => is_var x; destruct x; try discriminate H
         end;
    rewrite ?andb_true_iff in H; decompose [and] H; cbn [sprog andb];
    repeat match goal with
           | Hb : body4 ol ?b = true |- context [sprog ?b] => rewrite (IH b Hb)
           end; reflexivity.
Qed.

Lemma prog4_stop4 ol : forall n, prog4 ol n = true -> stop4 n = true.
Proof.
  induction n as [t line file tok l r IHl IHr] using Proofs_Gen0.node_ind'. intros H.
  assert (Hcase : body4 ol (Node t line file tok l r) = true \/
            exists pl pf ptok h b body x y z e, t = N_SPLIT /\ l = Some (Node N_PROGRAM pl pf ptok h (Some (Node N_SPLIT x y z (Some body) e))) /\
              b = Some (Node N_SPLIT x y z (Some body) e) /\ body4 ol body = true /\
              match r with None => True | Some m => prog4 ol m = true end).
  { cbn [prog4] in H.
    repeat (match type of H with
            | context [match ?x with _ => _ end] => is_var x; destruct x
            end; cbv iota in H; try (left; exact H)).
    all: right; rewrite ?andb_true_iff in H; decompose [and] H; do 10 eexists; repeat split; auto. }
  destruct Hcase as [Hb|(pl & pf & ptok & h & b & body & x & y & z & e & -> & -> & -> & Hb & Hm)].
  - cbn [stop4]. fold (sprog (Node t line file tok l r)). rewrite (body4_sprog ol _ Hb). reflexivity.
  - cbn [stop4]. cbn [osp sprog]. rewrite (body4_sprog ol _ Hb).
    assert (He : match e with None => true | Some x0 => sprog x0 end = true).
    { cbn [prog4] in H. destruct h as [[[] ? ? ? [?|] ?]|]; try (cbn [body4] in H; discriminate H);
        destruct e as [[[] ? ? ? [?|] [?|]]|]; try (cbn [body4] in H; discriminate H); reflexivity. }
    rewrite He. cbn [andb]. destruct r as [m|]; [|apply orb_true_r].
    cbn [optP] in IHr. rewrite (IHr Hm). apply orb_true_r.
Qed.

Lemma all_jumps_todo4 ol root g3 : prog4 ol root = true ->
  dispatch_void false false false root ginit = Ok g3 ->
  forall pc i, 1 <= pc -> znth (g_code g3) pc = Some i -> (iop i = JMP \/ iop i = JMPC) -> In pc (g_todo g3).
Proof.
  intros Hp Hb pc i Hpc Hz Hj.
  destruct (p_top' root (prog4_stop4 ol root Hp) ginit g3 gh_init inv_ginit eq_refl clean_ginit Hb) as (gh & I3 & _).
  destruct (iv_pos _ _ _ I3 pc i Hpc Hz) as (_ & _ & _ & _ & H). apply H. exact Hj.
Qed.
