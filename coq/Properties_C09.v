(* Properties_C09.v — the theorems that decide property C09 on the model, each stated in full and closed by
   `exact <lemma>`; the lemmas live in the Proofs_*.v files.  Nothing else belongs in this file. *)
From Coq Require Import Sorting.Sorted.
From Theo Require Import Base Regex Tokens Errors MacroExtract Grammar LR Gen_MacroGrammar Gen_Consts MacroApply SpecLex SpecMacro MacroStatements Proofs_Macro ApplyCompleteStatements CompileStatements ApplyStatements Proofs_ApplyComplete SugarStatements Lexer Scan Gen_Lexer LocErrStatements Proofs_Sugar PipelineStatements Proofs_Pipeline.
Local Open Scope Z_scope.


Theorem C09_choice :
  forall bins input pass out, bins_ok bins ->
    try_bins false bins input pass = Ok (Some out) ->
    exists c, reported bins input c /\ rewrite_with input c pass out /\
              forall c', reported bins input c' -> at_least_as_good c c'.
Proof. exact C09_choice_proof. Qed.
Print Assumptions C09_choice.

Theorem C09_none :
  forall bins input pass, try_bins false bins input pass = Ok None ->
    forall c, ~ reported bins input c.
Proof. exact C09_none_proof. Qed.
Print Assumptions C09_none.

Theorem C09_bins_ok :
  forall defs errs bins, prepare defs = Ok (errs, bins) -> bins_ok bins.
Proof. exact C09_bins_ok_proof. Qed.
Print Assumptions C09_bins_ok.

Theorem C09_body :
  forall m r pass repl, get_replacement m r pass = Ok repl ->
    match m_repl m with
    | [] => repl = []
    | t0 :: _ => body_spec m (tline t0) (r_matched r) pass (m_repl m) = Some repl
    end.
Proof. exact C09_body_proof. Qed.
Print Assumptions C09_body.

Theorem C09_leftmost :
  forall d input r, detect d input = Ok (Some r) ->
    0 <= r_location r < zlen input /\
    (forall i, 0 <= i < r_location r ->
       forall total split, parse translator creator semantic (d_tab d) (parse_fuel (skipn (Z.to_nat i) input)) (skipn (Z.to_nat i) input) = Ok (Some (total, split)) ->
       check_constraint (m_rule (d_macro d)) split (m_cc (d_macro d)) = Ok false).
Proof. exact C09_leftmost_proof. Qed.
Print Assumptions C09_leftmost.

Theorem C09_refuted_at_pinned :
  exists (x : cand) (rest : list cand),
    let c := min_element true x rest in
    exists c', In c' (x :: rest) /\ prio c = prio c' /\ ~ at_least_as_good c c'.
Proof. exact C09_refuted_at_pinned_proof. Qed.
Print Assumptions C09_refuted_at_pinned.

Theorem C09_iterate :
  forall n bins input p out ch, pass_loop false n bins input p = Ok (out, ch) ->
    exists k, (k <= n)%nat /\ Steps bins input p k out /\
              (ch = true -> k = n /\ (0 < n)%nat) /\
              (ch = false -> (0 < n)%nat -> try_bins false bins out (p + Z.of_nat k) = Ok None).
Proof. exact C11_steps_proof. Qed.
Print Assumptions C09_iterate.

(* ---- a detection IS a match of the pattern, in the declarative sense (on top of C13_sound) ---- *)
From Theo Require Import CompileStatements ApplyStatements Proofs_Apply.

Theorem C09_detect_sound :
  forall m d input r, macro_ok m -> make_detector m = Ok d -> detect d input = Ok (Some r) ->
    0 <= r_location r /\ 0 <= r_length r /\ r_location r + r_length r <= zlen input /\
    concat (r_matched r) = firstn (Z.to_nat (r_length r)) (skipn (Z.to_nat (r_location r)) input) /\
    length (r_matched r) = length (m_rule m) /\
    (forall i p range, nth_error (m_rule m) i = Some p -> nth_error (r_matched r) i = Some range ->
        match slot_nonterminal (tk p) with
        | Some n => Derives base_grammar (Nt (N.of_nat n)) (kinds range)
        | None => exists t, range = [t] /\ tk t = tk p
        end) /\
    (forall c p, In c (m_cc m) -> znth (m_rule m) c = Some p ->
        exists t, znth (r_matched r) c = Some [t] /\ ttext t = ttext p).
Proof. exact C09_detect_sound_proof. Qed.
Print Assumptions C09_detect_sound.

Theorem C09_detect_complete :
  forall m d input res loc parts,
    macro_ok m -> make_detector m = Ok d -> d_conflicts d = [] ->
    no_unknown input ->
    detect d input = Ok res ->
    occurs_at m input loc parts ->
    exists r, res = Some r /\ r_location r <= Z.of_nat loc /\
              (r_location r = Z.of_nat loc -> r_matched r = parts /\ r_length r = zlen (concat parts)).
Proof. exact C09_detect_complete_proof. Qed.
Print Assumptions C09_detect_complete.

Theorem C09_best :
  forall defs errs bins input pass out,
    Forall macro_ok defs -> prepare defs = Ok (errs, bins) ->
    no_unknown input ->
    try_bins false bins input pass = Ok (Some out) ->
    exists c, reported bins input c /\ rewrite_with input c pass out /\
      forall p ds d' loc' parts', In (p, ds) bins -> In d' ds ->
        occurs_at (d_macro d') input loc' parts' ->
        p < prio c \/
        (p = prio c /\ (loc c < Z.of_nat loc' \/ (loc c = Z.of_nat loc' /\ zlen (concat parts') <= len c))).
Proof. exact C09_best_proof. Qed.
Print Assumptions C09_best.

Theorem C09_none_complete :
  forall defs errs bins input pass,
    Forall macro_ok defs -> prepare defs = Ok (errs, bins) ->
    no_unknown input ->
    try_bins false bins input pass = Ok None ->
    forall p ds d' loc' parts', In (p, ds) bins -> In d' ds -> ~ occurs_at (d_macro d') input loc' parts'.
Proof. exact C09_none_complete_proof. Qed.
Print Assumptions C09_none_complete.

Theorem C09_complete_needs_no_unknown :
  ~ C09_detect_complete_unguarded_stmt /\ ~ C09_best_unguarded_stmt /\ ~ C09_none_complete_unguarded_stmt.
Proof. exact C09_complete_needs_no_unknown_proof. Qed.
Print Assumptions C09_complete_needs_no_unknown.

Theorem C14_no_unknown_scan :
  forall files main toks errs, scan Gen_Lexer.rules files main = Ok (toks, errs) -> no_unknown toks.
Proof. exact C14_no_unknown_scan_proof. Qed.
Print Assumptions C14_no_unknown_scan.

Theorem C09_no_unknown_extract :
  forall toks errs out macros, no_unknown toks -> extract_macros toks = Ok (errs, out, macros) ->
    no_unknown out /\ Forall (fun m => no_unknown (m_rule m) /\ no_unknown (m_repl m)) macros.
Proof. exact C09_no_unknown_extract_proof. Qed.
Print Assumptions C09_no_unknown_extract.

Theorem C09_no_unknown_apply :
  forall input defs passes errs out,
    no_unknown input -> Forall (fun m => no_unknown (m_repl m)) defs ->
    apply_macros input defs passes = Ok (errs, out) -> no_unknown out.
Proof. exact C09_no_unknown_apply_proof. Qed.
Print Assumptions C09_no_unknown_apply.

Theorem C09_pipeline :
  forall files main out macros bins k mid,
    front files main out macros bins -> Steps bins out 0 k mid ->
    no_unknown mid /\
    (forall pass out', try_bins false bins mid pass = Ok (Some out') ->
       exists c, reported bins mid c /\ rewrite_with mid c pass out' /\
         forall p ds d' loc' parts', In (p, ds) bins -> In d' ds ->
           occurs_at (d_macro d') mid loc' parts' ->
           p < prio c \/
           (p = prio c /\ (loc c < Z.of_nat loc' \/ (loc c = Z.of_nat loc' /\ zlen (concat parts') <= len c)))) /\
    (forall pass, try_bins false bins mid pass = Ok None ->
       forall p ds d' loc' parts', In (p, ds) bins -> In d' ds -> ~ occurs_at (d_macro d') mid loc' parts').
Proof. exact C09_pipeline_proof. Qed.
Print Assumptions C09_pipeline.
