(* Proofs_C01s3.v — C01, stage 3: the whole statement language of one routine (C01Stages3.v): assignments of simple
   values, LOOP, WHILE, labels, GOTO, IF x = c THEN GOTO l, STOP, nested arbitrarily.
     C01_jumps_proof         the finished checked reference run is simulated by the VM (as stage 2);
     C01_jumps_budget_proof  while the reference run is out of fuel after n steps, the VM is not done after n
                             instructions.
   Assembly of the dynamic part (Proofs_C01s3a.v) and the static part (Proofs_C01s3b/c/d.v) through the end of gen,
   as in Proofs_C01s2.v.  C01_jumps_stmt is true as stated: labels are kept by name on both sides (END marks
   included), the last definition of a label wins on both sides, and abstract_source (labels_set) excludes jumps to
   labels that are never defined; gr_ok is not needed. *)
From Coq Require Import List ZArith NArith Lia Bool.
From Theo Require Import Base Tokens Errors MacroExtract Parser VMModel VMSpec GenModel Compile RefSem RefSemChk C01Statements C01Stages Gen_Consts Proofs_VM_mem Proofs_VM_dbg Proofs_Gen0 Proofs_Gen Proofs_Sem Proofs_C01a Proofs_C01b Proofs_C01.
From Theo Require Import C01Stages3 Proofs_C01s2a Proofs_C01s2b Proofs_C01s2c Proofs_C01s2d Proofs_C01s2 Proofs_C01s3a Proofs_C01s3b Proofs_C01s3c Proofs_C01s3d.
Import ListNotations.
Local Open Scope Z_scope.

(* ================================================================================================ *)
(* 1. backpatching re-targets the jumps of a block                                                  *)
(* ================================================================================================ *)
Lemma imatch3_patch rm C C' (J J' : jrel3) q i :
  (forall q' ins, q <= q' -> znth C q' = Some ins -> ~ is_jmp (iop ins) -> znth C' q' = Some ins) ->
  (forall q' ins e, q <= q' -> znth C q' = Some ins -> is_jmp (iop ins) -> J q' (ia ins) e ->
     exists f', znth C' q' = Some (mkI (iop ins) f' (ib ins) (ic ins)) /\ J' q' f' e) ->
  imatch3 rm C J q i -> imatch3 rm C' J' q i.
Proof.
  intros HC HJ.
  assert (Hold : imatch rm C (jid J) q i -> imatch rm C' (jid J') q i).
  { apply imatch_patch; [exact HC|]. intros q' ins e Hq Hz Hj Hjj. unfold jid in *. eapply HJ; eauto. }
  assert (NJ1 : forall a b c, ~ is_jmp (iop (IAdd a b c))) by (intros a b c [E|E]; discriminate E).
  assert (NJ2 : forall a b, ~ is_jmp (iop (IConst a b))) by (intros a b [E|E]; discriminate E).
  assert (NJ3 : forall a b c, ~ is_jmp (iop (ITest a b c))) by (intros a b c [E|E]; discriminate E).
  assert (NJ4 : ~ is_jmp (iop IHalt)) by (intros [E|E]; discriminate E).
  destruct i as [l|x v|id v|id ex|id back|v ex|target|l|x y l| |out|]; cbn [imatch3]; auto.
  - intros (f & H1 & H2).
    destruct (HJ q (IJmp f) (JLab l) ltac:(lia) H1 ltac:(left; reflexivity) H2) as (f' & A & B).
    exists f'. auto.
  - destruct x; auto. destruct y; auto.
    intros (ry & t1 & t2 & tc & f & A1 & A2 & A3 & A4 & A5 & A6 & A7 & A8 & A9 & A10 & A11).
    destruct (HJ (q + 3) (IJmpC f tc) (JLab l) ltac:(lia) A10 ltac:(right; reflexivity) A11) as (f' & A & B).
    exists ry, t1, t2, tc, f'. repeat split; auto; try lia; apply HC; auto; lia.
  - intros H. apply HC; auto; lia.
Qed.

(* ================================================================================================ *)
(* 2. from gen and abstract_source to matched code                                                  *)
(* ================================================================================================ *)
Lemma J3_init : J3 1 ginit s_init [] 0.
Proof.
  split; [discriminate|]. split; [|split; reflexivity].
  change (b_code (f_cur s_init)) with (@nil rinstr). change (b_targets (f_cur s_init)) with (@nil Z).
  change (b_labels (f_cur s_init)) with (@nil (str * Z)).
  change (b_vars (f_cur s_init)) with (@nil str). change (gks ginit) with (@nil (str * bool)).
  change (gmarks ginit) with (@nil (str * Z)). change (g_code ginit) with [IPrepare (-1) (-1) 0].
  change (g_labels ginit) with (@nil Z). change (g_todo ginit) with (@nil Z). change (g_loops ginit) with 0.
  apply JB3_intro.
  - split; [reflexivity|]. split; [|reflexivity]. intros pc i H. rewrite znth_nil in H. discriminate.
  - constructor.
    + reflexivity.
    + constructor.
    + intros nm l H; discriminate H.
    + intros n1 n2 l H; discriminate H.
    + intros e lab H. rewrite znth_nil in H. discriminate.
    + intros nm lab H; discriminate H.
    + intros nm _. reflexivity.
  - split; [constructor | intros q []].
  - apply RW_nil.
  - apply JV_nil.
  - lia.
  - lia.
Qed.

Lemma jumps_setup root r rs :
  jumps root = true -> lexable_names root = true ->
  gen true [] (Some root) = Ok r -> abstract_source (Some root) = Some rs ->
  exists rt regsF L,
    rs = [rt] /\ r_name rt = root_name /\
    stack_maps (gr_prog r) = [mkSM name_root (stack_map_of regsF 0)] /\
    znth (code (gr_prog r)) 0 = Some (IPrepare (zlen regsF) 0 0) /\
    (forall pc i, znth (r_code rt) pc = Some i ->
       imatch3 (RMof (map key regsF)) (code (gr_prog r)) (jpost3 rt 1) (pm3 rt 1 pc) i) /\
    RW (map key regsF) L /\ JV (map key regsF) (r_vars rt).
Proof.
  intros Hst Hlex Hgen Habs.
  unfold gen in Hgen. apply gen_gen_inv in Hgen.
  destruct Hgen as (g3 & g4 & p & i0 & c0 & g6 & Hbody & Hpop & Hp & Hi0 & Hc0 & Hbp & Hr).
  unfold gen_body in Hbody. cbn [negb cg_neg cg_pb cg_args cfgen_now] in Hbody.
  unfold abstract_source in Habs. cbv zeta in Habs. fold s_init in Habs.
  destruct (flat_stmt root s_init) as [sF|] eqn:EF; [|discriminate].
  destruct (forallb labels_set (f_done sF ++ [finish_routine (bemit (f_cur sF) RHalt)])) eqn:Els; [|discriminate].
  inversion Habs; subst rs; clear Habs Els.
  destruct (joint_walk3 1 root Hst Hlex ginit s_init [] g3 sF J3_init Hbody EF) as (lmapF & HJ & HX & HF & _).
  destruct HF as (Fd & Fn & Fnm & Fpar). cbn [s_init f_done f_names f_cur b_name b_params] in Fd, Fn, Fnm, Fpar.
  destruct HX as (_ & [blk Hblk] & Hmaps & Hfuncs & f & f' & tls & Es0 & Es3 & Hfn & Hfa).
  change (g_syms ginit) with [mkFGS name_root [] 0 []] in Es0. inversion Es0; subst f tls; clear Es0.
  cbn [f_name f_argnum] in Hfn, Hfa.
  change (g_code ginit) with [IPrepare (-1) (-1) 0] in Hblk.
  change (g_maps ginit) with (@nil stackmap) in Hmaps. change (g_funcs ginit) with (@nil (str * progrec)) in Hfuncs.
  destruct HJ as (_ & HB & _ & _).
  unfold gks, gregs, gmarks in HB. rewrite Es3 in HB.
  set (regsF := f_regs f') in *. set (ksF := map key regsF) in *.
  set (rcode := b_code (f_cur sF)) in *. set (targets := b_targets (f_cur sF)) in *. set (vars := b_vars (f_cur sF)) in *.
  set (blabels := b_labels (f_cur sF)) in *.
  destruct HB as (HC & HL & HT & HR & HV & HL0 & _).
  set (N := zlen regsF).
  (* ---- the end of gen ---- *)
  unfold pop_symbols, get_symbols in Hpop. rewrite Es3 in Hpop. cbn [hd_error of_opt bind] in Hpop.
  destruct (check_marks g3 (f_marks f')) as [g1| |] eqn:Ecm; cbn [bind] in Hpop; try discriminate.
  destruct (check_marks_errs _ _ _ Ecm) as [e Eg1]. subst g1. inversion Hpop; subst g4; clear Hpop Ecm.
  cbn [upd_errs g_code g_maps g_pb g_li g_errs g_syms g_funcs g_labels g_todo g_loops g_fsname g_fsline] in *.
  rewrite Hmaps, Hfuncs, Hfn in *. cbn [app ainsert] in Hp. fold regsF in Hp. fold N in Hp.
  change (zlen [mkSM name_root (stack_map_of regsF 0)] - 1) with 0 in Hp.
  cbn [alookup] in Hp. rewrite (proj2 (str_keqb_eq name_root name_root) eq_refl) in Hp.
  inversion Hp; subst p; clear Hp. cbn [p_stack_size p_mi] in Hc0.
  rewrite Hblk in Hi0, Hc0. change (znth ([IPrepare (-1) (-1) 0] ++ blk) 0) with (Some (IPrepare (-1) (-1) 0)) in Hi0.
  inversion Hi0; subst i0; clear Hi0. cbn [iop ic IPrepare] in Hc0.
  assert (Ec0 : c0 = [IPrepare N 0 0] ++ blk).
  { apply Proofs_VM_mem.zupd_some in Hc0. exact Hc0. }
  subst c0. clear Hc0.
  unfold backpatch in Hbp. binv Hbp. rename a into g6'. rename H into Hbpl. inversion Hbp; subst g6; clear Hbp.
  cbn [emit upd_code g_code g_todo g_labels] in Hbpl.
  match type of Hbpl with backpatch_list ?g _ = _ => set (g5 := g) in * end.
  set (C5 := ([IPrepare N 0 0] ++ blk) ++ [IHalt]).
  assert (EC5 : g_code g5 = C5) by reflexivity.
  assert (EL5 : g_labels g5 = g_labels g3) by reflexivity.
  change (backpatch_list g5 (g_todo g3) = Ok g6') in Hbpl.
  destruct (backpatch_list_patch _ _ _ Hbpl (proj1 HT)) as (BL & BM & _ & _ & BA & BB).
  rewrite EC5 in BA, BB. rewrite EL5 in BB.
  set (C6 := g_code g6') in *.
  set (prg := gr_prog r).
  assert (Ecode : code prg = C6) by (unfold prg; rewrite Hr; reflexivity).
  assert (Emaps : stack_maps prg = [mkSM name_root (stack_map_of regsF 0)]).
  { unfold prg. rewrite Hr. cbn [gen_result gr_prog stack_maps upd_todo g_maps]. rewrite BM. reflexivity. }
  (* ---- the routine and its code ---- *)
  set (rt := finish_routine (bemit (f_cur sF) RHalt)) in *.
  assert (Ert : r_code rt = rcode ++ [RHalt]) by reflexivity.
  assert (Etg : r_targets rt = targets) by reflexivity.
  assert (Elb : r_labels rt = blabels) by reflexivity.
  assert (Evs : r_vars rt = vars) by reflexivity.
  assert (Enm : r_name rt = root_name) by (cbn [rt finish_routine r_name bemit b_name]; exact Fnm).
  destruct HC as (HClen & HCm & _). rewrite Hblk in HClen.
  assert (Hlen5 : zlen ([IPrepare N 0 0] ++ blk) = 1 + boff3 rcode (length rcode)).
  { rewrite zlen_app in *. change (zlen [IPrepare N 0 0]) with 1. change (zlen [IPrepare (-1) (-1) 0]) with 1 in HClen. lia. }
  assert (Hcopy : forall q ins, 1 <= q -> znth (g_code g3) q = Some ins -> znth C5 q = Some ins).
  { intros q ins Hq Hz. rewrite Hblk in Hz. unfold C5. apply znth_app_some.
    rewrite znth_app_r in Hz by (change (zlen [IPrepare (-1) (-1) 0]) with 1; lia).
    rewrite znth_app_r by (change (zlen [IPrepare N 0 0]) with 1; lia). exact Hz. }
  assert (Z0 : znth C6 0 = Some (IPrepare N 0 0)).
  { apply BA; [reflexivity|]. right. intros [E|E]; discriminate E. }
  exists rt, regsF, (g_loops g3).
  split; [rewrite Fd; reflexivity|]. split; [exact Enm|]. split; [exact Emaps|].
  fold prg. rewrite Ecode. split; [exact Z0|]. split; [|split; [exact HR | rewrite Evs; exact HV]].
  intros pc i Hz. rewrite Ert in Hz. unfold pm3. rewrite Ert. apply znth_snoc_inv in Hz. destruct Hz as [[Hlt Hz]|[-> ->]].
  - rewrite pm_of3_app by lia.
    assert (Hq1 : 1 <= pm_of3 1 rcode pc) by (unfold pm_of3; pose proof (boff3_nonneg rcode (Z.to_nat pc)); lia).
    eapply (imatch3_patch _ C5 C6 (jpre3 lmapF (f_marks f') (g_todo g3)) (jpost3 rt 1));
      [| |eapply imatch3_mono; [apply rm_le_refl | | | apply HCm; exact Hz]].
    + intros q' ins Hq' Hzq Hnj. apply BA; [exact Hzq | right; exact Hnj].
    + intros q' ins e' Hq' Hzq Hjm [Hin Hlm].
      destruct (BB _ _ Hzq Hin Hjm) as (tgt & Htg & Hz6). exists (tgt - q'). split; [exact Hz6|].
      destruct e' as [e'|l]; cbn [jpost3].
      * destruct (jl_str _ _ _ _ _ _ _ HL _ _ Hlm) as (_ & _ & lv & t & A & B & Cc & D).
        rewrite A in Htg. inversion Htg; subst tgt. rewrite Etg. exists t. split; [exact B|].
        intros Ht. unfold pm3. rewrite Ert, pm_of3_app by lia. rewrite (D Ht). lia.
      * destruct (jl_mark _ _ _ _ _ _ _ HL _ _ Hlm) as (lv & A & Cc & D).
        rewrite A in Htg. inversion Htg; subst tgt. rewrite Elb.
        intros Ht. unfold pm3. rewrite Ert, pm_of3_app by lia. rewrite (D Ht). lia.
    + intros q' ins Hq' Hzq. apply Hcopy; [lia | exact Hzq].
    + intros q' f0 e0 _ Hj. exact Hj.
  - cbn [imatch3 imatch]. rewrite pm_of3_app by lia. unfold pm_of3, zlen. rewrite Nat2Z.id. rewrite <- Hlen5.
    apply BA; [unfold C5; apply znth_app_last|]. right. intros [E|E]; discriminate E.
Qed.

(* the VM after PREPARE, and the initial store relation *)
Lemma vm_start prg N C : code prg = C -> znth C 0 = Some (IPrepare N 0 0) ->
  let s1 := mkVM false 1 prg (zrepeat 0 (Z.to_nat N)) [mkAct 0 N 0 (-1) 0] [] in
  exec1 (init prg) = Ok (s1, false) /\ frame_of 0 C s1.
Proof.
  intros HC Z0 s1. split.
  - unfold exec1, exec1_gen, init. cbn [prog ip]. rewrite HC, Z0.
    cbn [of_opt bind iop IPrepare ia ib ic data stepping stack enabled app]. reflexivity.
  - split; [exact HC | eexists _, []; split; reflexivity].
Qed.

Lemma SR_start rm N : rm_ok rm N -> 0 <= N -> SR rm 0 N (mkRAct [] []) (zrepeat 0 (Z.to_nat N)).
Proof.
  intros ROK HN.
  assert (Ld0 : zlen (zrepeat 0 (Z.to_nat N)) = N) by (unfold zlen; rewrite zrepeat_length; lia).
  constructor.
  - lia.
  - intros x i Hx. rewrite Z.add_0_l. apply znth_zrepeat. pose proof (rmo_var_rng _ _ ROK _ _ Hx). lia.
  - intros c i Hx. rewrite Z.add_0_l. apply znth_zrepeat. pose proof (rmo_cnt_rng _ _ ROK _ _ Hx). lia.
  - intros x. cbn. unfold INT_MAX. lia.
  - intros c. cbn. unfold INT_MAX. lia.
Qed.

(* ================================================================================================ *)
(* 3. the two statements                                                                            *)
(* ================================================================================================ *)
Lemma C01_jumps_proof : C01_jumps_stmt.
Proof.
  intros root r rs fuel rviews steps trace Hst Hlex Hgen _ Habs Hrun.
  destruct (jumps_setup root r rs Hst Hlex Hgen Habs) as (rt & regsF & L & -> & Enm & Emaps & Z0 & CM & HR & HV).
  set (prg := gr_prog r) in *. set (C6 := code prg) in *. set (N := zlen regsF) in *. set (ksF := map key regsF) in *.
  unfold run_ref_chk in Hrun. cbn [length] in Hrun.
  assert (ROK : rm_ok (RMof ksF) N) by (unfold N; rewrite <- (zlen_map key regsF); eapply RW_rm_ok; exact HR).
  assert (HN : 0 <= N) by apply zlen_nonneg.
  destruct (vm_start prg N C6 eq_refl Z0) as [E1 FR]. cbv zeta in E1, FR.
  set (d0 := zrepeat 0 (Z.to_nat N)) in *. set (act0 := mkAct 0 N 0 (-1) 0) in *.
  set (s1 := mkVM false 1 prg d0 [act0] []) in *.
  destruct (sim_run3 [rt] 0%nat rt eq_refl (RMof ksF) 0 N C6 1 ROK CM fuel [] (mkRAct [] []) 0 0%nat [] s1 d0 rviews steps trace
                     FR (SR_start _ _ ROK HN) Hrun) as (n & pcf & a' & d' & Hvm & Hh & HS' & Hch & Hv & Hs).
  change (pm3 rt 1 0) with 1 in Hvm. change (vm_at s1 1 d0) with s1 in Hvm.
  set (sE := vm_at s1 (pm3 rt 1 pcf) d') in *.
  set (sm := mkSM name_root (stack_map_of regsF 0)) in *.
  assert (HVW : exists vmvars, views sE = Ok [(name_root, vmvars)] /\
            same_values (filter (fun e => user_name (fst e)) vmvars) (map (fun x => (x, get (ra_vars a') x)) (r_vars rt))).
  { unfold views. change (stack sE) with [act0]. cbn [rev app views_of].
    change (debug_info act0) with 0. change (prog sE) with prg. rewrite Emaps.
    change (znth [sm] 0) with (Some sm). cbn [of_opt bind]. unfold getActivationVariables.
    change (debug_info act0) with 0. change (prog sE) with prg. rewrite Emaps.
    change (znth [sm] 0) with (Some sm). cbn [of_opt bind smap func_name sm].
    change (seg_size act0) with N. change (data_start act0) with 0. change (data sE) with d'.
    destruct (Z.leb_spec N 0) as [Hle|Hgt].
    - exists []. split; [reflexivity|].
      assert (Evars : r_vars rt = []).
      { destruct (r_vars rt) as [|x vs] eqn:Ev; [reflexivity|]. exfalso.
        destruct HV as (_ & H2 & _). destruct (H2 x (or_introl eq_refl)) as (_ & i & Hi).
        apply frk_range in Hi. unfold ksF in Hi. rewrite zlen_map in Hi. fold N in Hi. lia. }
      rewrite Evars. split; [intros x v []|intros x v H; discriminate H].
    - destruct (final_views regsF _ (r_vars rt) a' d' HR HV HS') as (vmvars & Erv & Hsame).
      exists vmvars. rewrite Erv. split; [reflexivity | exact Hsame]. }
  destruct HVW as (vmvars & Hviews & Hsame).
  unfold sim_conclusion. fold prg.
  exists (S n), sE, [(name_root, vmvars)].
  split; [rewrite vm_run_S, E1; cbn [bind fst]; exact Hvm|].
  split; [apply (halted_at C6); [reflexivity | exact Hh]|].
  split; [exact Hviews|].
  split; [|lia].
  rewrite Hv. cbn [app]. constructor; [|constructor].
  unfold view_of. rewrite Enm. split; [reflexivity | exact Hsame].
Qed.

Lemma C01_jumps_budget_proof : C01_jumps_budget_stmt.
Proof.
  intros root r rs n s Hst Hlex Hgen _ Habs Hrun Hvm.
  destruct (jumps_setup root r rs Hst Hlex Hgen Habs) as (rt & regsF & L & -> & Enm & Emaps & Z0 & CM & HR & HV).
  set (prg := gr_prog r) in *. set (C6 := code prg) in *. set (N := zlen regsF) in *. set (ksF := map key regsF) in *.
  unfold run_ref_chk in Hrun. cbn [length] in Hrun.
  destruct n as [|f].
  - inversion Hvm; subst s. unfold isDone, init. cbn [prog ip]. fold C6. rewrite Z0. reflexivity.
  - assert (ROK : rm_ok (RMof ksF) N) by (unfold N; rewrite <- (zlen_map key regsF); eapply RW_rm_ok; exact HR).
    assert (HN : 0 <= N) by apply zlen_nonneg.
    destruct (vm_start prg N C6 eq_refl Z0) as [E1 FR]. cbv zeta in E1, FR.
    set (d0 := zrepeat 0 (Z.to_nat N)) in *. set (act0 := mkAct 0 N 0 (-1) 0) in *.
    set (s1 := mkVM false 1 prg d0 [act0] []) in *.
    destruct (sim_prefix3 [rt] 0%nat rt eq_refl (RMof ksF) 0 N C6 1 ROK CM f [] (mkRAct [] []) 0 0%nat [] s1 d0
                          FR (SR_start _ _ ROK HN) Hrun) as (m & s' & Hm & Hvm' & Hd).
    change (pm3 rt 1 0) with 1 in Hvm'. change (vm_at s1 1 d0) with s1 in Hvm'.
    rewrite vm_run_S, E1 in Hvm. cbn [bind fst] in Hvm.
    exact (not_done_earlier f m s1 s s' Hm Hvm Hvm' Hd).
Qed.

(* ================================================================================================ *)
(* 4. the hypotheses are satisfiable: a parsed source with labels, GOTO, IF and STOP                *)
(* ================================================================================================ *)
Definition ex3_src : str :=
  [120; 32; 58; 61; 32; 51; 59; 10; 108; 49; 58; 32; 121; 32; 58; 61; 32; 121; 32; 43; 32; 50; 59; 10; 76; 
   79; 79; 80; 32; 120; 32; 68; 79; 10; 32; 32; 122; 32; 58; 61; 32; 122; 32; 43; 32; 49; 59; 10; 32; 32; 73; 
   70; 32; 122; 32; 61; 32; 50; 32; 84; 72; 69; 78; 32; 71; 79; 84; 79; 32; 108; 50; 10; 69; 78; 68; 59; 10; 
   120; 32; 58; 61; 32; 120; 32; 45; 32; 49; 59; 10; 73; 70; 32; 120; 32; 61; 32; 48; 32; 84; 72; 69; 78; 32; 
   71; 79; 84; 79; 32; 108; 51; 59; 10; 71; 79; 84; 79; 32; 108; 49; 59; 10; 108; 50; 58; 32; 108; 52; 58; 
   32; 87; 72; 73; 76; 69; 32; 121; 32; 33; 61; 32; 48; 32; 68; 79; 10; 32; 32; 121; 32; 58; 61; 32; 121; 32; 
   45; 32; 49; 10; 69; 78; 68; 59; 10; 83; 84; 79; 80; 59; 10; 108; 51; 58; 32; 119; 32; 58; 61; 32; 55]%N.

Lemma C01_jumps_instance :
  match Compile.parse [(ex_name, ex3_src)] ex_name with
  | Ok p =>
      match pr_root p with
      | Some root =>
          match gen true [] (Some root), abstract_source (Some root) with
          | Ok r, Some rs =>
              match run_ref_chk 1000 rs with
              | OStop rviews steps trace =>
                  pr_ok p = true /\ jumps root = true /\ lexable_names root = true /\ steps = 30%nat /\
                  sim_conclusion r rviews steps /\
                  (forall n s, run_ref_chk n rs = OFuel -> vm_run n (init (gr_prog r)) = Ok s -> isDone s = Ok false)
              | _ => False
              end
          | _, _ => False
          end
      | None => False
      end
  | _ => False
  end.
Proof.
  destruct (Compile.parse [(ex_name, ex3_src)] ex_name) as [p| |] eqn:Ep; vm_compute in Ep; try discriminate.
  inversion Ep; subst p; clear Ep. cbn [pr_root pr_ok].
  match goal with |- context [gen true [] (Some ?n)] => set (root := n) end.
  destruct (gen true [] (Some root)) as [r| |] eqn:Eg; [|vm_compute in Eg; discriminate..].
  destruct (abstract_source (Some root)) as [rs|] eqn:Ea; [|vm_compute in Ea; discriminate].
  assert (Hrun : exists rviews trace, run_ref_chk 1000 rs = OStop rviews 30 trace).
  { vm_compute in Ea. inversion Ea; subst rs. vm_compute. eexists _, _. reflexivity. }
  destruct Hrun as (rviews & trace & Hrun). rewrite Hrun.
  assert (Hj : jumps root = true) by (vm_compute; reflexivity).
  assert (Hl : lexable_names root = true) by (vm_compute; reflexivity).
  assert (Hok : gr_ok r = true) by (vm_compute in Eg; inversion Eg; subst r; reflexivity).
  split; [reflexivity|]. split; [exact Hj|]. split; [exact Hl|]. split; [reflexivity|]. split.
  - eapply C01_jumps_proof; eauto.
  - intros n s Hf Hv. eapply C01_jumps_budget_proof; eauto.
Qed.

Print Assumptions C01_jumps_proof.
Print Assumptions C01_jumps_budget_proof.
Print Assumptions C01_jumps_instance.
