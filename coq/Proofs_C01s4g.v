(* Proofs_C01s4g.v — C01, stage 4, part 7: the STATIC part, components of the joint invariant of one routine.
   As Proofs_C01s3b.v, with the blocks of stage 4 (imatch4: values with calls against the callee table FT, RReturn)
   and one more fact about labels: the routine only touches labels it created (those beyond the snapshot LS taken
   at its start), so that the labels of finished routines keep their values. *)
From Coq Require Import List ZArith NArith Lia Bool.
From Theo Require Import Base Tokens Errors MacroExtract Parser VMModel VMSpec GenModel Compile RefSem RefSemChk C01Statements C01Stages Gen_Consts Proofs_VM_mem Proofs_VM_dbg Proofs_Gen0 Proofs_Gen Proofs_Sem Proofs_C01a Proofs_C01b Proofs_C01 Proofs_C01s2a Proofs_C01s2b Proofs_C01s2 Proofs_C01s3a Proofs_C01s3b Proofs_C01s4a Proofs_C01s4b.
Import ListNotations.
Local Open Scope Z_scope.

Section Static4.
  Variable P0 : Z.
  Variable FT : ftab.
  Variable LS : list Z.   (* the labels at the start of the routine: never touched by it *)

  Definition JC4 (code : list instr) (ks : list (str * bool)) (marks : list (str * Z)) (todo lmap : list Z)
             (rcode : list rinstr) (p : Z) : Prop :=
    zlen code = P0 + boff4 rcode (length rcode) + p /\
    (forall pc i, znth rcode pc = Some i -> imatch4 (RMof ks) code FT (jpre3 lmap marks todo) (pm_of4 P0 rcode pc) i) /\
    (p = 0 -> code_last_pb code = rlast_site rcode).

  Lemma JC4_mono code ks marks todo lmap rcode p code' ks' marks' todo' lmap' p' :
    JC4 code ks marks todo lmap rcode p -> 0 <= p ->
    (exists blk, code' = code ++ blk) -> kext ks ks' -> mle marks marks' -> incl todo todo' -> (exists m, lmap' = lmap ++ m) ->
    zlen code' = P0 + boff4 rcode (length rcode) + p' ->
    JC4 code' ks' marks' todo' lmap' rcode p'.
  Proof.
    intros (HL0 & HM & HS) Hp [blk ->] Hk Hmk Ht [m ->] Hl. split; [exact Hl|]. split.
    - intros pc i Hi. eapply imatch4_mono; [apply RMof_mono; exact Hk | intros j x Hx; exact Hx | | apply HM; exact Hi].
      intros q' f e _ [A B]. split; [apply Ht; exact A|]. destruct e; [apply znth_app_some; exact B | apply Hmk; exact B].
    - intros ->. rewrite zlen_app in Hl. pose proof (zlen_nonneg blk).
      assert (p = 0) by lia. assert (zlen blk = 0) by lia.
      destruct blk; [|rewrite zlen_cons in *; pose proof (zlen_nonneg blk); lia]. rewrite app_nil_r. auto.
  Qed.

  Lemma JC4_bemit code ks marks todo lmap rcode p i :
    JC4 code ks marks todo lmap rcode p -> blen4 i = p ->
    imatch4 (RMof ks) code FT (jpre3 lmap marks todo) (zlen code - p) i ->
    JC4 code ks marks todo lmap (rcode ++ [i]) 0.
  Proof.
    intros (HL & HM & HS) Hb Hi. split; [|split].
    - rewrite app_length. cbn [length]. rewrite Nat.add_1_r, boff4_snoc. lia.
    - intros pc j Hz. apply znth_snoc_inv in Hz. destruct Hz as [[Hlt Hz]|[-> ->]].
      + rewrite pm_of4_app by lia. apply HM; exact Hz.
      + rewrite pm_of4_app by lia. unfold pm_of4, zlen. rewrite Nat2Z.id.
        replace (P0 + boff4 rcode (length rcode)) with (zlen code - p) by lia. exact Hi.
    - intros _. rewrite rlast_site_snoc. destruct (imatch4_last _ _ _ _ _ _ Hi) as (ins & Hz & Hop).
      rewrite <- Hop. apply code_last_pb_znth. replace (zlen code - 1) with (zlen code - p + blen4 i - 1) by lia. exact Hz.
  Qed.

  (* labels of the generator against targets (lmap : target id -> label id) and source labels of the flattener *)
  Record JL4 (labels : list Z) (marks blabels : list (str * Z)) (targets lmap : list Z) (rcode : list rinstr) : Prop := mkJL4 {
    jl4_len : zlen lmap = zlen targets;
    jl4_nd : NoDup lmap;
    jl4_mrng : forall nm l, alookup str_ltb marks nm = Some l -> 0 <= l < zlen labels;
    jl4_minj : forall n1 n2 l, alookup str_ltb marks n1 = Some l -> alookup str_ltb marks n2 = Some l -> n1 = n2;
    jl4_str : forall e lab, znth lmap e = Some lab ->
        0 <= lab < zlen labels /\ (forall nm, alookup str_ltb marks nm <> Some lab) /\
        exists lv t, znth labels lab = Some lv /\ znth targets e = Some t /\ -1 <= t <= zlen rcode /\
                     (0 <= t -> lv = pm_of4 P0 rcode t);
    jl4_mark : forall nm lab, alookup str_ltb marks nm = Some lab ->
        exists lv, znth labels lab = Some lv /\ -1 <= label_pos blabels nm <= zlen rcode /\
                   (0 <= label_pos blabels nm -> lv = pm_of4 P0 rcode (label_pos blabels nm));
    jl4_none : forall nm, alookup str_ltb marks nm = None -> label_pos blabels nm = -1;
    jl4_lo_s : forall e lab, znth lmap e = Some lab -> zlen LS <= lab;
    jl4_lo_m : forall nm l, alookup str_ltb marks nm = Some l -> zlen LS <= l;
    jl4_snap : zlen LS <= zlen labels /\ forall lab, lab < zlen LS -> znth labels lab = znth LS lab }.

  Lemma JL4_bemit labels marks blabels targets lmap rcode i :
    JL4 labels marks blabels targets lmap rcode -> JL4 labels marks blabels targets lmap (rcode ++ [i]).
  Proof.
    intros [H1 H2 H3 H4 H5 H6 H7 H8 H9 H10]. pose proof (@zlen_nonneg rinstr [i]) as Hi.
    constructor; auto.
    - intros e lab He. destruct (H5 _ _ He) as (A & B & lv & t & C1 & C2 & C3 & C4).
      split; [exact A|]. split; [exact B|]. exists lv, t. split; [exact C1|]. split; [exact C2|]. split.
      + rewrite zlen_app. lia.
      + intros Ht. rewrite pm_of4_app by lia. auto.
    - intros nm lab Hm. destruct (H6 _ _ Hm) as (lv & C1 & C3 & C4). exists lv. split; [exact C1|]. split.
      + rewrite zlen_app. lia.
      + intros Ht. rewrite pm_of4_app by lia. auto.
  Qed.

  Lemma JL4_new labels marks blabels targets lmap rcode :
    JL4 labels marks blabels targets lmap rcode ->
    JL4 (labels ++ [-1]) marks blabels (targets ++ [-1]) (lmap ++ [zlen labels]) rcode.
  Proof.
    intros [H1 H2 H3 H4 H5 H6 H7 H8 H9 H10]. pose proof (zlen_nonneg labels) as Hl0. constructor; auto.
    - rewrite !zlen_snoc; lia.
    - apply NoDup_snoc; [exact H2|]. intros Hin. apply In_znth in Hin. destruct Hin as [e He].
      destruct (H5 _ _ He) as [A _]. lia.
    - intros nm l Hin. rewrite zlen_snoc. apply H3 in Hin. lia.
    - intros e lab He. apply znth_snoc_inv in He. destruct He as [[Hlt He]|[-> ->]].
      + destruct (H5 _ _ He) as (A & B & lv & t & C1 & C2 & C3 & C4).
        split; [rewrite zlen_snoc; lia|]. split; [exact B|]. exists lv, t.
        split; [apply znth_app_some; exact C1|]. split; [apply znth_app_some; exact C2|]. split; [lia | exact C4].
      + split; [rewrite zlen_snoc; lia|]. split.
        * intros nm Hin. apply H3 in Hin. lia.
        * exists (-1), (-1). rewrite H1. rewrite !znth_app_last. pose proof (zlen_nonneg rcode).
          split; [reflexivity|]. split; [reflexivity|]. split; [lia|]. intros; lia.
    - intros nm lab Hm. destruct (H6 _ _ Hm) as (lv & C1 & C3). exists lv. split; [apply znth_app_some; exact C1 | exact C3].
    - intros e lab He. apply znth_snoc_inv in He. destruct He as [[_ He]|[_ ->]]; [eapply H8; eauto | apply H10].
    - destruct H10 as [A B]. split; [rewrite zlen_snoc; lia|]. intros lab Hl. rewrite znth_app_l by lia. apply B; exact Hl.
  Qed.

  Lemma JL4_set labels marks blabels targets lmap rcode e0 lab0 labels' targets' :
    JL4 labels marks blabels targets lmap rcode -> znth lmap e0 = Some lab0 ->
    zupd labels lab0 (pm_of4 P0 rcode (zlen rcode)) = Some labels' ->
    zupd targets e0 (zlen rcode) = Some targets' ->
    JL4 labels' marks blabels targets' lmap rcode.
  Proof.
    intros [H1 H2 H3 H4 H5 H6 H7 H8 H9 H10] He0 Ul Ut.
    pose proof (zupd_length _ _ _ _ Ul) as Ll. pose proof (zupd_length _ _ _ _ Ut) as Lt.
    constructor; auto.
    - lia.
    - intros nm l Hin. rewrite Ll. eapply H3; eauto.
    - intros e lab He. destruct (H5 _ _ He) as (A & B & lv & t & C1 & C2 & C3 & C4).
      split; [lia|]. split; [exact B|].
      rewrite (znth_zupd _ _ _ _ Ul), (znth_zupd _ _ _ _ Ut).
      destruct (Z.eqb_spec e e0) as [->|Hne].
      + assert (lab = lab0) by congruence. subst lab. rewrite Z.eqb_refl.
        exists (pm_of4 P0 rcode (zlen rcode)), (zlen rcode). pose proof (zlen_nonneg rcode).
        split; [reflexivity|]. split; [reflexivity|]. split; [lia|]. intros; reflexivity.
      + destruct (Z.eqb_spec lab lab0) as [->|Hne2].
        * exfalso. apply Hne. eapply NoDup_znth; eauto.
        * exists lv, t. split; [exact C1|]. split; [exact C2|]. split; [lia | exact C4].
    - intros nm lab Hm. destruct (H6 _ _ Hm) as (lv & C1 & C3). exists lv. split; [|exact C3].
      rewrite (znth_zupd _ _ _ _ Ul). destruct (Z.eqb_spec lab lab0) as [->|]; [|exact C1].
      exfalso. destruct (H5 _ _ He0) as (_ & B & _). exact (B _ Hm).
    - destruct H10 as [A B]. split; [lia|]. intros lab Hl. rewrite (znth_zupd _ _ _ _ Ul).
      destruct (Z.eqb_spec lab lab0) as [->|]; [|apply B; exact Hl]. pose proof (H8 _ _ He0). lia.
  Qed.

  Lemma JL4_mark_set labels marks blabels targets lmap rcode nm lab t labels' blabels' :
    JL4 labels marks blabels targets lmap rcode -> alookup str_ltb marks nm = Some lab ->
    0 <= t <= zlen rcode ->
    zupd labels lab (pm_of4 P0 rcode t) = Some labels' ->
    label_pos blabels' nm = t -> (forall nm', nm' <> nm -> label_pos blabels' nm' = label_pos blabels nm') ->
    JL4 labels' marks blabels' targets lmap rcode.
  Proof.
    intros [H1 H2 H3 H4 H5 H6 H7 H8 H9 H10] Hin Ht Ul Hs Ho. pose proof (zupd_length _ _ _ _ Ul) as Ll.
    constructor; auto.
    - intros nm' l Hin'. rewrite Ll. eapply H3; eauto.
    - intros e lab' He. destruct (H5 _ _ He) as (A & B & lv & t' & C1 & C2 & C3 & C4).
      split; [lia|]. split; [exact B|]. exists lv, t'. split; [|split; [exact C2|split; [lia | exact C4]]].
      rewrite (znth_zupd _ _ _ _ Ul). destruct (Z.eqb_spec lab' lab) as [->|]; [|exact C1].
      exfalso. exact (B _ Hin).
    - intros nm' lab' Hm. destruct (str_eqb nm' nm) eqn:E.
      + apply str_eqb_eq in E. subst nm'. assert (lab' = lab) by congruence. subst lab'.
        exists (pm_of4 P0 rcode t). rewrite (znth_zupd _ _ _ _ Ul), Z.eqb_refl, Hs.
        split; [reflexivity|]. split; [lia|]. intros; reflexivity.
      + assert (Hne : nm' <> nm) by (intros ->; rewrite str_eqb_refl in E; discriminate).
        destruct (H6 _ _ Hm) as (lv & C1 & C3). exists lv. rewrite (Ho _ Hne). split; [|exact C3].
        rewrite (znth_zupd _ _ _ _ Ul). destruct (Z.eqb_spec lab' lab) as [->|]; [|exact C1].
        exfalso. apply Hne. eapply H4; eauto.
    - intros nm' Hn. assert (Hne : nm' <> nm) by (intros ->; congruence). rewrite (Ho _ Hne). apply H7; exact Hn.
    - destruct H10 as [A B]. split; [lia|]. intros lab' Hl. rewrite (znth_zupd _ _ _ _ Ul).
      destruct (Z.eqb_spec lab' lab) as [->|]; [|apply B; exact Hl]. pose proof (H9 _ _ Hin). lia.
  Qed.

  Lemma JL4_mark_new labels marks blabels targets lmap rcode nm :
    JL4 labels marks blabels targets lmap rcode -> alookup str_ltb marks nm = None ->
    JL4 (labels ++ [-1]) (ainsert str_ltb marks nm (zlen labels)) blabels targets lmap rcode.
  Proof.
    intros [H1 H2 H3 H4 H5 H6 H7 H8 H9 H10] Hn. pose proof (zlen_nonneg labels) as Hl0. constructor; auto.
    - intros nm' l Hin. rewrite zlen_snoc. rewrite str_lookup_insert in Hin.
      destruct (keqb str_ltb nm' nm); [inversion Hin; lia|]. apply H3 in Hin. lia.
    - intros n1 n2 l A B. rewrite str_lookup_insert in A, B.
      destruct (keqb str_ltb n1 nm) eqn:E1; destruct (keqb str_ltb n2 nm) eqn:E2.
      + apply str_keqb_eq in E1, E2. congruence.
      + inversion A; subst l. apply H3 in B. lia.
      + inversion B; subst l. apply H3 in A. lia.
      + eapply H4; eauto.
    - intros e lab He. destruct (H5 _ _ He) as (A & B & lv & t & C1 & C2 & C3 & C4).
      split; [rewrite zlen_snoc; lia|]. split.
      + intros nm' Hin. rewrite str_lookup_insert in Hin. destruct (keqb str_ltb nm' nm); [inversion Hin; lia|]. exact (B _ Hin).
      + exists lv, t. split; [apply znth_app_some; exact C1|]. split; [exact C2|]. split; [lia | exact C4].
    - intros nm' lab Hm. rewrite str_lookup_insert in Hm. destruct (keqb str_ltb nm' nm) eqn:E.
      + apply str_keqb_eq in E. subst nm'. inversion Hm; subst lab. exists (-1). rewrite znth_app_last.
        rewrite (H7 _ Hn). pose proof (zlen_nonneg rcode). split; [reflexivity|]. split; [lia|]. intros; lia.
      + destruct (H6 _ _ Hm) as (lv & C1 & C3). exists lv. split; [apply znth_app_some; exact C1 | exact C3].
    - intros nm' Hm. rewrite str_lookup_insert in Hm. destruct (keqb str_ltb nm' nm); [discriminate|]. apply H7; exact Hm.
    - intros nm' l Hin. rewrite str_lookup_insert in Hin. destruct (keqb str_ltb nm' nm); [inversion Hin; apply H10|]. eapply H9; eauto.
    - destruct H10 as [A B]. split; [rewrite zlen_snoc; lia|]. intros lab Hl. rewrite znth_app_l by lia. apply B; exact Hl.
  Qed.

  Lemma JL4_blabels labels marks blabels blabels' targets lmap rcode :
    JL4 labels marks blabels targets lmap rcode -> (forall nm, label_pos blabels' nm = label_pos blabels nm) ->
    JL4 labels marks blabels' targets lmap rcode.
  Proof.
    intros [H1 H2 H3 H4 H5 H6 H7 H8 H9 H10] He. constructor; auto.
    - intros nm lab Hm. rewrite He. apply H6; exact Hm.
    - intros nm Hm. rewrite He. apply H7; exact Hm.
  Qed.

  Definition JB4 (code : list instr) (ks : list (str * bool)) (marks : list (str * Z)) (labels todo : list Z) (L : Z)
             (rcode : list rinstr) (blabels : list (str * Z)) (targets : list Z) (vars : list str) (lmap : list Z) (p : Z) : Prop :=
    JC4 code ks marks todo lmap rcode p /\ JL4 labels marks blabels targets lmap rcode /\ JT todo code /\
    RW ks L /\ JV ks vars /\ 0 <= L /\ 0 <= p.

  Lemma JB4_intro code ks marks labels todo L rcode blabels targets vars lmap p :
    JC4 code ks marks todo lmap rcode p -> JL4 labels marks blabels targets lmap rcode -> JT todo code ->
    RW ks L -> JV ks vars -> 0 <= L -> 0 <= p ->
    JB4 code ks marks labels todo L rcode blabels targets vars lmap p.
  Proof. unfold JB4. tauto. Qed.

  Lemma JB4_emit code ks marks labels todo L rcode blabels targets vars lmap p ins :
    JB4 code ks marks labels todo L rcode blabels targets vars lmap p ->
    JB4 (code ++ [ins]) ks marks labels todo L rcode blabels targets vars lmap (p + 1).
  Proof.
    intros (HC & HL & (T1 & T2) & HR & HV & H0 & Hp). apply JB4_intro; auto; try lia.
    - eapply JC4_mono; [exact HC | exact Hp | eexists; reflexivity | apply kext_refl | apply mle_refl | apply incl_refl | apply nil_ex |].
      rewrite zlen_snoc. destruct HC as [E _]. lia.
    - split; [exact T1|]. intros q Hq. apply T2 in Hq. rewrite zlen_snoc. lia.
  Qed.

  Lemma JB4_emit_bp code ks marks labels todo L rcode blabels targets vars lmap p ins :
    JB4 code ks marks labels todo L rcode blabels targets vars lmap p ->
    JB4 (code ++ [ins]) ks marks labels (todo ++ [zlen code]) L rcode blabels targets vars lmap (p + 1).
  Proof.
    intros (HC & HL & (T1 & T2) & HR & HV & H0 & Hp). pose proof (zlen_nonneg code). apply JB4_intro; auto; try lia.
    - eapply JC4_mono; [exact HC | exact Hp | eexists; reflexivity | apply kext_refl | apply mle_refl | | apply nil_ex |].
      + intros q Hq. apply in_or_app; left; exact Hq.
      + rewrite zlen_snoc. destruct HC as [E _]. lia.
    - split.
      + apply NoDup_snoc; [exact T1|]. intros Hin. apply T2 in Hin. lia.
      + intros q Hq. rewrite zlen_snoc. apply in_app_or in Hq. destruct Hq as [Hq|[<-|[]]]; [apply T2 in Hq; lia | lia].
  Qed.

  Lemma JB4_bemit code ks marks labels todo L rcode blabels targets vars lmap p i :
    JB4 code ks marks labels todo L rcode blabels targets vars lmap p -> blen4 i = p ->
    imatch4 (RMof ks) code FT (jpre3 lmap marks todo) (zlen code - p) i ->
    JB4 code ks marks labels todo L (rcode ++ [i]) blabels targets vars lmap 0.
  Proof.
    intros (HC & HL & HT & HR & HV & H0 & Hp) Hb Hi. apply JB4_intro; auto; try lia.
    - eapply JC4_bemit; eauto.
    - apply JL4_bemit; exact HL.
  Qed.

  Lemma JB4_ks code ks marks labels todo L rcode blabels targets vars lmap p ks' vars' L' :
    JB4 code ks marks labels todo L rcode blabels targets vars lmap p ->
    kext ks ks' -> RW ks' L' -> JV ks' vars' -> 0 <= L' ->
    JB4 code ks' marks labels todo L' rcode blabels targets vars' lmap p.
  Proof.
    intros (HC & HL & HT & HR & HV & H0 & Hp) Hk HR' HV' HL'. apply JB4_intro; auto.
    eapply JC4_mono; [exact HC | exact Hp | apply nil_ex | exact Hk | apply mle_refl | apply incl_refl | apply nil_ex | apply HC].
  Qed.

  Lemma JB4_newlab code ks marks labels todo L rcode blabels targets vars lmap p :
    JB4 code ks marks labels todo L rcode blabels targets vars lmap p ->
    JB4 code ks marks (labels ++ [-1]) todo L rcode blabels (targets ++ [-1]) vars (lmap ++ [zlen labels]) p.
  Proof.
    intros (HC & HL & HT & HR & HV & H0 & Hp). apply JB4_intro; auto.
    - eapply JC4_mono; [exact HC | exact Hp | apply nil_ex | apply kext_refl | apply mle_refl | apply incl_refl | eexists; reflexivity | apply HC].
    - apply JL4_new; exact HL.
  Qed.

  Lemma JB4_setlab code ks marks labels todo L rcode blabels targets vars lmap e0 lab0 labels' targets' :
    JB4 code ks marks labels todo L rcode blabels targets vars lmap 0 -> znth lmap e0 = Some lab0 ->
    zupd labels lab0 (zlen code) = Some labels' -> zupd targets e0 (zlen rcode) = Some targets' ->
    JB4 code ks marks labels' todo L rcode blabels targets' vars lmap 0.
  Proof.
    intros (HC & HL & HT & HR & HV & H0 & Hp) He Ul Ut. apply JB4_intro; auto.
    eapply JL4_set; eauto. unfold pm_of4, zlen at 1. rewrite Nat2Z.id. destruct HC as [E _].
    replace (P0 + boff4 rcode (length rcode)) with (zlen code) by lia. exact Ul.
  Qed.

  (* a change of the label tables *)
  Lemma JB4_labels code ks marks labels todo L rcode blabels targets vars lmap p marks' labels' blabels' :
    JB4 code ks marks labels todo L rcode blabels targets vars lmap p ->
    JL4 labels' marks' blabels' targets lmap rcode -> mle marks marks' ->
    JB4 code ks marks' labels' todo L rcode blabels' targets vars lmap p.
  Proof.
    intros (HC & HL & HT & HR & HV & H0 & Hp) HL' Hm. apply JB4_intro; auto.
    eapply JC4_mono; [exact HC | exact Hp | apply nil_ex | apply kext_refl | exact Hm | apply incl_refl | apply nil_ex | apply HC].
  Qed.
End Static4.
