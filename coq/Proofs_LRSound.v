(* Proofs_LRSound.v — the generated LR(1) parser (LR.v) against derivation trees (SpecLR.v).
   Statements: LRStatements.v (C13_sound_stmt, C13_driver_safe_stmt, C13_generate_total_stmt).
   Helpers: Proofs_LRSound0.v, which also defines the two extra hypotheses
     rhs_closed g      : every Nt in a right-hand side of g has index < total_nt g
     eof_fresh g eof   : ~ mentioned g eof

   Findings: all three statements are FALSE as written (refuted below by concrete grammars):
     C13_sound_stmt_false, C13_driver_safe_stmt_false, C13_generate_total_stmt_false.
   wf_grammar/start_ok bound only the KEYS of right_sides; a right-hand side may mention
   Nt (total_nt g) or Nt (total_nt g + 1), which `elements` then uses for its own S' and E
   (S -> E parses "eof" although S derives nothing in g), or an index without a jump-table row
   (zupd out of range: UB).  The driver additionally runs off the input when g itself contains
   the end marker (S -> eof S | a on the input [eof]).
   Proved instead, same conclusions:
     C13_sound_partial           (+ rhs_closed g; any conflict list, not only [])
     C13_driver_safe_partial     (+ rhs_closed g, eof_fresh g eof; any conflict list)
     C13_generate_total_partial  (+ rhs_closed g) *)
From Coq Require Import List ZArith NArith Lia Bool Sorting.Sorted.
From Theo Require Import Base Grammar LR SpecMacro SpecLR LRStatements Proofs_First.
From Theo Require Import Proofs_LRSound0.
Import ListNotations.

(* ================================================================================================ *)
(* 1. the driver                                                                                      *)
(* ================================================================================================ *)
Section Driver.
  Context {T V : Type}.
  Variables (translator : T -> N) (creator : T -> V) (semantic : sym -> N -> list V -> V).
  Variables (g : grammar) (St eof : sym).
  Hypothesis SOK : start_ok g St eof.
  Hypothesis RC : rhs_closed g.
  Variable g5 : grammar.
  Hypothesis H5 : calculate_first_sets (ext_grammar g St eof) = Ok g5.
  Variable prefix : bool.
  Variable states : list lrstate.
  Hypothesis HS : SInv g eof g5 states.
  Variables (rows : list (list lr_action)) (jrows : list (list Z)).
  Hypothesis HT : tabs_ok g5 prefix states rows jrows.

  Let tab : tables := mkTab rows jrows.
  Let Sp : sym := Nt (total_nt g).
  Notation rootT := (root translator).
  Notation valueT := (value creator semantic).
  Notation run := (lr_parse translator creator semantic tab).

  Definition yields (ts : list (@tree T)) : list T := concat (map yield ts).

  Lemma yields_app a b : yields (a ++ b) = yields a ++ yields b.
  Proof. unfold yields. rewrite map_app, concat_app. reflexivity. Qed.

  Lemma yield_inner lhs alt (ch : list (@tree T)) : yield (Inner lhs alt ch) = yields ch.
  Proof.
    unfold yields. simpl. induction ch as [|c r IH]; simpl; [reflexivity|]. rewrite IH. reflexivity.
  Qed.

  Lemma value_inner lhs alt (ch : list (@tree T)) :
    valueT (Inner lhs alt ch) = semantic lhs alt (rev (map valueT ch)).
  Proof.
    reflexivity.
  Qed.

  Lemma run_S f input sts vals :
    run (Datatypes.S f) input sts vals =
    (do s <- of_opt ub_back (hd_error sts);
     do tok <- of_opt ub_iter (hd_error input);
     let a := Z.of_N (translator tok) in
     do row <- of_opt ub_index (znth (t_action tab) s);
     if (zlen row <=? a)%Z then Ok None
     else
       do act <- of_opt ub_index (znth row a);
       match act with
       | AShift s' => run f (tl input) (s' :: sts) (creator tok :: vals)
       | AReduce lft beta lhs alt =>
           do p <- pop_n (N.to_nat beta) sts vals [];
           let '(states', values', popped) := p in
           do s' <- of_opt ub_back (hd_error states');
           do jrow <- of_opt ub_index (znth (t_jump tab) s');
           do target <- of_opt ub_index (znth jrow (Z.of_N lft));
           run f input (target :: states') (semantic lhs alt popped :: values')
       | AAccept => do v <- of_opt ub_back (hd_error vals); Ok (Some v)
       | AErr => Ok None
       end).
  Proof. reflexivity. Qed.

  Lemma pop_n_ok : forall n (sts : list Z) (vs : list V) acc,
    (n <= length vs)%nat -> (n <= length sts)%nat ->
    pop_n n sts vs acc = Ok (skipn n sts, skipn n vs, acc ++ firstn n vs).
  Proof.
    induction n as [|n IH]; intros sts vs acc H1 H2; cbn [pop_n skipn firstn].
    - rewrite app_nil_r. reflexivity.
    - destruct vs as [|v vs]; cbn [length] in H1; [lia|].
      destruct sts as [|s sts]; cbn [length] in H2; [lia|].
      rewrite IH by lia. rewrite <- app_assoc. reflexivity.
  Qed.

  (* ---- the stack invariant ------------------------------------------------------------------- *)
  Inductive stk : list Z -> list (@tree T) -> Prop :=
  | stk0 : stk [0%Z] []
  | stkS : forall q qs ts sq t q',
      stk (q :: qs) ts -> (0 <= q)%Z -> nth_error states (Z.to_nat q) = Some sq ->
      In (rootT t, q') (st_jump sq) -> stk (q' :: q :: qs) (t :: ts).

  Lemma stk_len qs ts : stk qs ts -> length qs = Datatypes.S (length ts).
  Proof. induction 1; cbn [length] in *; auto. Qed.

  Lemma stk_top q qs ts : stk (q :: qs) ts ->
    (0 <= q)%Z /\ exists sq, nth_error states (Z.to_nat q) = Some sq.
  Proof.
    intros H. inversion H as [|q1 qs1 ts1 sq1 t1 q' Hstk1 Hq1 Hsq1 Hin1]; subst.
    - split; [lia|]. destruct (si_zero _ _ _ _ HS) as (s0 & A & _). exists s0. exact A.
    - destruct (si_trans _ _ _ _ HS _ _ _ _ Hsq1 Hin1) as (_ & A & (sj & B & _) & _). eauto.
  Qed.

  Lemma stk_skipn : forall n qs ts, stk qs ts -> (n <= length ts)%nat -> stk (skipn n qs) (skipn n ts).
  Proof.
    induction n as [|n IH]; intros qs ts H Hn; [exact H|].
    inversion H as [|q1 qs1 ts1 sq1 t1 q' Hstk1 Hq1 Hsq1 Hin1]; subst; cbn [length] in Hn; [lia|].
    cbn [skipn]. apply IH; auto. lia.
  Qed.

  Lemma item_self (e : item) : i_dot e = 0%N -> mkItem (i_left e) (i_alt e) 0 (i_follow e) = e.
  Proof. destruct e; cbn. intros ->. reflexivity. Qed.

  (* the symbols before the dot of an item of the top state are the roots of the topmost trees, and
     the item sits with its dot at the start in the state below them *)
  Lemma item_prefix : forall qs ts, stk qs ts ->
    forall q qs' sq e a, qs = q :: qs' -> nth_error states (Z.to_nat q) = Some sq ->
      In e (st_items sq) -> fetch_right g5 e = Ok a ->
      (N.to_nat (i_dot e) <= length ts)%nat /\
      firstn (N.to_nat (i_dot e)) a = map rootT (rev (firstn (N.to_nat (i_dot e)) ts)) /\
      exists q0 s0, nth_error qs (N.to_nat (i_dot e)) = Some q0 /\ (0 <= q0)%Z /\
                    nth_error states (Z.to_nat q0) = Some s0 /\
                    In (mkItem (i_left e) (i_alt e) 0 (i_follow e)) (st_items s0).
  Proof.
    induction 1 as [|q qs ts sq t q' Hstk IH Hq Hsq Hin]; intros q1 qs1 sq1 e a Eq Hs1 He Ha.
    - inversion Eq; subst q1 qs1.
      destruct (si_zero _ _ _ _ HS) as (s0 & A & B).
      change (Z.to_nat 0) with 0%nat in Hs1. assert (sq1 = s0) by congruence. subst sq1.
      pose proof (B e He) as Hd. rewrite Hd. cbn [N.to_nat firstn length rev map nth_error].
      split; [lia|split; [reflexivity|]]. exists 0%Z, s0. rewrite item_self by auto.
      repeat split; auto. lia.
    - inversion Eq; subst q1 qs1.
      destruct (si_trans _ _ _ _ HS _ _ _ _ Hsq Hin) as (HX & Hq' & (sj & Hsj & Hor) & _).
      assert (sj = sq1) by congruence. subst sj.
      destruct (Hor e He) as [[Hd Hl]|(e0 & a0 & He0 & Ha0 & Hexp & ->)].
      + rewrite Hd. cbn [N.to_nat firstn length rev map nth_error].
        split; [lia|split; [reflexivity|]]. exists q', sq1. rewrite item_self by auto.
        repeat split; auto.
      + rewrite fetch_right_adv in Ha. assert (a0 = a) by congruence. subst a0.
        destruct (IH q qs sq e0 a eq_refl Hsq He0 Ha0) as (I1 & I2 & q0 & s0 & I3 & I4 & I5 & I6).
        cbn [adv i_dot i_left i_alt i_follow].
        replace (N.to_nat (i_dot e0 + 1)) with (Datatypes.S (N.to_nat (i_dot e0))) by lia.
        split; [cbn [length]; lia|split].
        * rewrite (firstn_S_nth a _ (rootT t)) by (apply expecting_nth; auto).
          cbn [firstn rev]. rewrite map_app. cbn [map]. rewrite I2. reflexivity.
        * exists q0, s0. cbn [nth_error]. auto.
  Qed.

  Lemma good_items q sq e : nth_error states q = Some sq -> In e (st_items sq) -> good g eof g5 e.
  Proof. intros H1 H2. apply (si_items _ _ _ _ HS _ _ H1 e H2). Qed.

  Lemma sprime_eq : sprime_index g5 = total_nt g.
  Proof. unfold sprime_index. rewrite (tn5 _ _ _ _ H5). lia. Qed.

  (* what a justified reduce action does to the stacks *)
  Lemma reduce_step q qs ts sq e rhs :
    stk (q :: qs) ts -> nth_error states (Z.to_nat q) = Some sq -> In e (st_items sq) ->
    fetch_right g5 e = Ok rhs -> i_dot e = N.of_nat (length rhs) ->
    let b := length rhs in
    (b <= length ts)%nat /\ map rootT (rev (firstn b ts)) = rhs /\
    pop_n b (q :: qs) (map valueT ts) [] =
      Ok (skipn b (q :: qs), map valueT (skipn b ts), map valueT (firstn b ts)) /\
    exists q0 qs0 s0, skipn b (q :: qs) = q0 :: qs0 /\ stk (q0 :: qs0) (skipn b ts) /\
      (0 <= q0)%Z /\ nth_error states (Z.to_nat q0) = Some s0 /\
      In (mkItem (i_left e) (i_alt e) 0 (i_follow e)) (st_items s0).
  Proof.
    intros Hstk Hsq He Ha Hd b.
    destruct (item_prefix _ _ Hstk q qs sq e rhs eq_refl Hsq He Ha) as (I1 & I2 & q0 & s0 & I3 & I4 & I5 & I6).
    rewrite Hd, Nat2N.id in I1, I2, I3. fold b in I1, I2, I3.
    split; auto. split.
    { rewrite <- I2. unfold b. apply firstn_all. }
    split.
    { rewrite pop_n_ok.
      - rewrite skipn_map, firstn_map. reflexivity.
      - rewrite map_length. auto.
      - rewrite (stk_len _ _ Hstk). lia. }
    pose proof (stk_skipn b _ _ Hstk I1) as Hsk.
    assert (Hnth : forall (l : list Z) n x, nth_error l n = Some x -> exists r, skipn n l = x :: r).
    { induction l as [|h l IHl]; intros [|n] x Hx; cbn [nth_error] in Hx; try discriminate.
      - inversion Hx; subst. exists l. reflexivity.
      - cbn [skipn]. apply IHl; auto. }
    destruct (Hnth _ _ _ I3) as [qs0 Hqs0].
    exists q0, qs0, s0. rewrite Hqs0 in Hsk. auto.
  Qed.

  Lemma run_neg f input qs vs v : run f input ((-1)%Z :: qs) vs <> Ok (Some v).
  Proof.
    destruct f as [|f]; [discriminate|]. rewrite run_S. cbn [hd_error of_opt bind].
    destruct input as [|tok input]; cbn [hd_error of_opt bind]; [discriminate|].
    rewrite znth_neg. cbn [of_opt bind]. discriminate.
  Qed.

  Lemma lhs_is_nt e rhs n :
    good g eof g5 e -> sym_index (i_left e) <> sprime_index g5 -> i_left e = Nt n ->
    fetch_right g5 e = Ok rhs -> (n < total_nt g)%N.
  Proof.
    intros (m & a & HL & Hm & _) Hne Hn _. rewrite sprime_eq in Hne.
    assert (m = n) by congruence. subst m. rewrite Hn in Hne. cbn [sym_index] in Hne.
    destruct Hm as [Hm|[Hm _]]; [auto|contradiction].
  Qed.

  (* ---- soundness ------------------------------------------------------------------------------- *)
  Lemma lr_sound v : forall fuel input qs ts,
    stk qs ts -> Forall (valid translator g) ts ->
    run fuel input qs (map valueT ts) = Ok (Some v) ->
    exists tr rest, valid translator g tr /\ rootT tr = St /\
      yields (rev ts) ++ input = yield tr ++ rest /\ v = valueT tr /\
      (prefix = false -> exists tok rest', rest = tok :: rest' /\ Tm (translator tok) = eof).
  Proof.
    induction fuel as [|f IH]; intros input qs ts Hstk Hval Hrun; [discriminate|].
    rewrite run_S in Hrun.
    destruct qs as [|q qs]; [inversion Hstk|]. cbn [hd_error of_opt bind] in Hrun.
    destruct input as [|tok input]; cbn [hd_error of_opt bind] in Hrun; [discriminate|].
    cbv zeta in Hrun. bind_inv Hrun row Hrow. apply of_opt_Ok in Hrow.
    apply znth_Some in Hrow. destruct Hrow as [Hq0 Hrow]. cbn [t_action tab] in Hrow.
    destruct (tabs_ok_rows _ _ _ _ _ _ _ HT Hrow) as (sq & jrow & Hsq & _ & (HRJ & _)).
    destruct (zlen row <=? Z.of_N (translator tok))%Z; [discriminate|].
    bind_inv Hrun act Hact. apply of_opt_Ok in Hact. pose proof (HRJ _ _ Hact) as HJ.
    destruct act as [s'|lft beta lhs alt| |]; cbn [justified] in HJ.
    - (* shift *)
      destruct HJ as (i & Hi & Hin). apply N2Z.inj in Hi. subst i. cbn [tl] in Hrun.
      destruct (IH input (s' :: q :: qs) (Leaf tok :: ts)) as (tr & rest & A & B & C & D & E).
      + eapply stkS; eauto.
      + constructor; auto. constructor.
      + exact Hrun.
      + exists tr, rest. repeat split; auto. rewrite <- C. cbn [rev]. rewrite yields_app.
        rewrite <- app_assoc. reflexivity.
    - (* reduce *)
      destruct HJ as (e & rhs & He & HL & HA & HF & HD & HB & HLf & HNe). subst beta.
      rewrite Nat2N.id in Hrun.
      destruct (reduce_step _ _ _ _ _ _ Hstk Hsq He HF HD) as (R1 & R2 & R3 & q0 & qs0 & s0 & R4 & R5 & R6 & R7 & R8).
      rewrite R3 in Hrun. cbn [bind] in Hrun. rewrite R4 in Hrun. cbn [hd_error of_opt bind] in Hrun.
      bind_inv Hrun jrow0 Hjr. apply of_opt_Ok in Hjr. apply znth_Some in Hjr. destruct Hjr as [_ Hjr].
      cbn [t_jump tab] in Hjr.
      destruct (tabs_ok_jrows _ _ _ _ _ _ _ HT Hjr) as (s0' & row0 & Hs0' & _ & (_ & HJJ & _)).
      assert (s0' = s0) by congruence. subst s0'.
      bind_inv Hrun target Htg. apply of_opt_Ok in Htg.
      destruct (HJJ _ _ Htg) as [->|(i & Hi & Hin)]; [exfalso; eapply run_neg; eauto|].
      apply N2Z.inj in Hi. subst i.
      pose proof (good_items _ _ _ Hsq He) as Hg.
      destruct Hg as (n & a' & HLn & Hn & _).
      assert (Hlhs : lhs = Nt lft).
      { rewrite HLf. rewrite <- HL. rewrite HLn. reflexivity. }
      assert (Hnlt : (n < total_nt g)%N).
      { apply (lhs_is_nt e rhs n); [exact (good_items _ _ _ Hsq He)|rewrite HL; exact HNe|exact HLn|exact HF]. }
      set (b := length rhs) in *.
      set (t' := Inner lhs alt (rev (firstn b ts))).
      assert (Hroot : rootT t' = lhs) by reflexivity.
      destruct (IH (tok :: input) (target :: q0 :: qs0) (t' :: skipn b ts)) as (tr & rest & A & B & C & D & E).
      + eapply stkS; eauto. rewrite Hroot, Hlhs. exact Hin.
      + rewrite <- (firstn_skipn b ts) in Hval. apply Forall_app in Hval. destruct Hval as [V1 V2].
        constructor; auto. unfold t'. apply (V_inner translator g lhs alt _ rhs).
        * rewrite <- HL, HLn, <- HA. eapply fetch_orig; eauto.
        * exact R2.
        * apply Forall_rev. auto.
      + cbn [map]. unfold t' at 1. rewrite value_inner. rewrite map_rev, rev_involutive. exact Hrun.
      + exists tr, rest. repeat split; auto. rewrite <- C. cbn [rev]. rewrite yields_app.
        unfold yields at 3. cbn [map concat]. rewrite app_nil_r. unfold t'. rewrite yield_inner.
        rewrite <- yields_app. rewrite <- rev_app_distr. rewrite firstn_skipn. reflexivity.
    - (* accept *)
      destruct HJ as (e & rhs & He & HL & HF & HD & HP).
      pose proof (good_items _ _ _ Hsq He) as Hg. destruct Hg as (n & a' & HLn & Hn & _).
      rewrite sprime_eq, HLn in HL. cbn [sym_index] in HL. subst n.
      destruct (fetch_Sp _ _ _ SOK _ H5 e rhs HLn HF) as [-> Halt].
      cbn [length] in HD.
      (* the stack holds exactly one tree *)
      inversion Hstk as [|q1 qs1 ts1 sq1 t q' Hstk1 Hq1 Hsq1 Hin1]; subst.
      { destruct (si_zero _ _ _ _ HS) as (s0 & A & B). change (Z.to_nat 0) with 0%nat in Hsq.
        assert (sq = s0) by congruence. subst sq. rewrite (B e He) in HD. discriminate. }
      destruct (si_trans _ _ _ _ HS _ _ _ _ Hsq1 Hin1) as (HX & _ & (sj & Hsj & Hor) & _).
      assert (sj = sq) by congruence. subst sj.
      destruct (Hor e He) as [[Hd0 _]|(e0 & a0 & He0 & Ha0 & Hexp & ->)]; [rewrite Hd0 in HD; discriminate|].
      cbn [adv i_dot i_left i_follow] in HD, HLn, Hn.
      assert (Hd0 : i_dot e0 = 0%N) by lia.
      destruct (fetch_Sp _ _ _ SOK _ H5 e0 a0 HLn Ha0) as [-> _].
      unfold expecting, nth_N in Hexp. rewrite Hd0 in Hexp. cbn in Hexp.
      assert (ts1 = []).
      { inversion Hstk1 as [|q2 qs2 ts2 sq2 t2 q'' Hstk2 Hq2 Hsq2 Hin2]; subst; auto.
        destruct (si_trans _ _ _ _ HS _ _ _ _ Hsq2 Hin2) as (_ & _ & (sj & Hsj' & Hor') & _).
        assert (sj = sq1) by congruence. subst sj.
        destruct (Hor' e0 He0) as [[_ Hne]|(e00 & a00 & _ & _ & _ & ->)].
        - exfalso. apply Hne. exact HLn.
        - cbn [adv i_dot] in Hd0. lia. }
      subst ts1. cbn [map hd_error of_opt bind] in Hrun. inversion Hrun; subst v.
      exists t, (tok :: input). inversion Hval; subst. repeat split; auto.
      + cbn [rev app]. unfold yields. cbn [map concat]. rewrite app_nil_r. reflexivity.
      + intros HPf. exists tok, input. split; auto. specialize (HP HPf). apply N2Z.inj in HP.
        destruct Hn as [Hn|[_ Hfol]]; [lia|]. cbn [adv i_follow] in HP.
        rewrite HP, Hfol. destruct SOK as (_ & (e' & ->) & _). reflexivity.
    - discriminate.
  Qed.

  (* ---- safety ---------------------------------------------------------------------------------- *)
  Hypothesis HD : Done g5 (length states) states.
  Hypothesis EF : eof_fresh g eof.

  Lemma znth_in_range {A} (l : list A) i : (0 <= i < zlen l)%Z -> exists x, znth l i = Some x.
  Proof.
    intros H. unfold zlen in H. destruct (nth_error l (Z.to_nat i)) as [x|] eqn:E.
    - exists x. apply znth_of_nth; auto. lia.
    - apply nth_error_None in E. lia.
  Qed.

  (* a terminal some item of a state expects is a terminal of g, hence not the end marker *)
  Lemma expected_tm_not_eof q sq e a i :
    nth_error states q = Some sq -> In e (st_items sq) -> fetch_right g5 e = Ok a ->
    expecting a e = Tm i -> Tm i <> eof.
  Proof.
    intros Hsq He Ha Hexp Heq. pose proof (good_items _ _ _ Hsq He) as (n & a' & HL & Hn & _).
    apply expecting_nth in Hexp; [|discriminate]. apply nth_error_In in Hexp.
    destruct Hn as [Hn|[Hn _]].
    - pose proof (fetch_orig _ _ _ _ H5 e n a HL Hn Ha) as HR.
      apply (rule_in_g g) in HR. destruct HR as [R1 R2].
      apply EF. rewrite <- Heq. right. exists (Nt n), (rs_get g (Nt n)), a. auto.
    - subst n. destruct (fetch_Sp _ _ _ SOK _ H5 e a HL Ha) as [-> _].
      destruct Hexp as [Hexp|[]]. destruct SOK as ((s & Hs & _) & _). congruence.
  Qed.

  Lemma lr_safe : forall fuel input qs ts,
    stk qs ts ->
    (exists pre tok post, input = pre ++ tok :: post /\ Tm (translator tok) = eof) ->
    run fuel input qs (map valueT ts) = Fuel \/ exists r, run fuel input qs (map valueT ts) = Ok r.
  Proof.
    induction fuel as [|f IH]; intros input qs ts Hstk Heof; [left; reflexivity|].
    rewrite run_S.
    destruct qs as [|q qs]; [inversion Hstk|]. cbn [hd_error of_opt bind].
    destruct (stk_top _ _ _ Hstk) as (Hq0 & sq & Hsq).
    destruct (tabs_ok_states _ _ _ _ _ _ _ HT Hsq) as (row & jrow & Hrow & _ & (HRJ & _)).
    destruct input as [|tok input].
    { destruct Heof as (pre & tk & post & E & _). destruct pre; discriminate. }
    cbn [hd_error of_opt bind]. cbv zeta.
    assert (Hzr : znth (t_action tab) q = Some row) by (apply znth_of_nth; auto).
    rewrite Hzr. cbn [of_opt bind].
    destruct (Z.leb_spec (zlen row) (Z.of_N (translator tok))) as [Hle|Hlt]; [right; eauto|].
    destruct (znth_in_range row (Z.of_N (translator tok))) as [act Hact]; [lia|].
    rewrite Hact. cbn [of_opt bind]. pose proof (HRJ _ _ Hact) as HJ.
    destruct act as [s'|lft beta lhs alt| |]; cbn [justified] in HJ.
    - (* shift *)
      destruct HJ as (i & Hi & Hin). apply N2Z.inj in Hi. subst i. cbn [tl].
      apply (IH input (s' :: q :: qs) (Leaf tok :: ts)).
      + eapply stkS; eauto.
      + destruct (si_trans _ _ _ _ HS _ _ _ _ Hsq Hin) as (_ & _ & _ & (e & a & He & Ha & Hexp)).
        pose proof (expected_tm_not_eof _ _ _ _ _ Hsq He Ha Hexp) as Hne.
        destruct Heof as (pre & tk & post & E & Htk). destruct pre as [|p pre]; cbn [app] in E.
        * inversion E; subst. contradiction.
        * inversion E; subst. exists pre, tk, post. auto.
    - (* reduce *)
      destruct HJ as (e & rhs & He & HL & HA & HF & HDt & HB & HLf & HNe). subst beta.
      rewrite Nat2N.id.
      destruct (reduce_step _ _ _ _ _ _ Hstk Hsq He HF HDt) as (R1 & R2 & R3 & q0 & qs0 & s0 & R4 & R5 & R6 & R7 & R8).
      rewrite R3. cbn [bind]. rewrite R4. cbn [hd_error of_opt bind].
      destruct (tabs_ok_states _ _ _ _ _ _ _ HT R7) as (row0 & jrow0 & _ & Hjr0 & (_ & _ & _ & HJC)).
      assert (Hzj : znth (t_jump tab) q0 = Some jrow0) by (apply znth_of_nth; auto).
      rewrite Hzj. cbn [of_opt bind].
      pose proof (good_items _ _ _ Hsq He) as Hg. destruct Hg as (n & a' & HLn & Hn & _).
      assert (Hlhs : lhs = Nt lft).
      { rewrite HLf. rewrite <- HL. rewrite HLn. reflexivity. }
      assert (Hnlt : (n < total_nt g)%N).
      { apply (lhs_is_nt e rhs n); [exact (good_items _ _ _ Hsq He)|rewrite HL; exact HNe|exact HLn|exact HF]. }
      (* the goto is defined *)
      assert (Hrec : exists j, In (Nt lft, j) (st_jump s0)).
      { destruct (si_items _ _ _ _ HS _ _ R7 _ R8) as [_ Horig]. cbn [i_dot i_left] in Horig.
        destruct (Horig eq_refl) as [HSp|(e1 & a1 & He1 & Ha1 & Hexp1)].
        - rewrite HLn in HSp. inversion HSp. lia.
        - assert (Hidx : (Z.to_nat q0 < length states)%nat) by (apply nth_error_Some; congruence).
          destruct (HD _ _ Hidx R7 e1 a1 He1 Ha1) as [j Hj].
          + rewrite Hexp1, HLn. discriminate.
          + exists j. rewrite Hexp1, HL, Hlhs in Hj. exact Hj. }
      destruct Hrec as [j Hj]. destruct (HJC _ _ Hj) as (target & Htg & Hin).
      rewrite Htg. cbn [of_opt bind].
      set (b := length rhs) in *.
      set (t' := Inner lhs alt (rev (firstn b ts))).
      assert (Hroot : rootT t' = lhs) by reflexivity.
      assert (Hv : semantic lhs alt (map valueT (firstn b ts)) :: map valueT (skipn b ts)
                   = map valueT (t' :: skipn b ts)).
      { cbn [map]. unfold t' at 1. rewrite value_inner. rewrite map_rev, rev_involutive. reflexivity. }
      rewrite Hv. apply IH; auto.
      eapply stkS; eauto. rewrite Hroot, Hlhs. exact Hin.
    - (* accept *)
      destruct HJ as (e & rhs & He & HL & HF & HDt & HP).
      destruct (item_prefix _ _ Hstk q qs sq e rhs eq_refl Hsq He HF) as (I1 & _).
      pose proof (good_items _ _ _ Hsq He) as Hg. destruct Hg as (n & a' & HLn & Hn & _).
      rewrite sprime_eq, HLn in HL. cbn [sym_index] in HL. subst n.
      destruct (fetch_Sp _ _ _ SOK _ H5 e rhs HLn HF) as [-> _]. cbn [length] in HDt.
      rewrite HDt in I1. destruct ts as [|t ts]; cbn [length] in I1; [cbn in I1; lia|].
      cbn [map hd_error of_opt bind]. right; eauto.
    - right; eauto.
  Qed.
End Driver.

(* ================================================================================================ *)
(* 2. what generate_tables returns                                                                    *)
(* ================================================================================================ *)
Lemma generate_inv ms g prefix S eof g' tab confs states :
  wf_grammar g -> start_ok g S eof -> rhs_closed g ->
  generate_tables ms g prefix S eof = Ok (g', tab, confs, states) ->
  calculate_first_sets (ext_grammar g S eof) = Ok g' /\
  SInv g eof g' states /\ Done g' (length states) states /\
  exists rows jrows, tab = mkTab rows jrows /\ tabs_ok g' prefix states rows jrows.
Proof.
  intros WF SOK RC H. unfold generate_tables in H. bind_inv H r Hr. destruct r as [g5 sts].
  bind_inv H t Ht. destruct t as [[rows jrows] cf]. inversion H; subst.
  rewrite elements_unfold in Hr. bind_inv Hr g5' H5. bind_inv Hr h Hh. bind_inv Hr sts' Hl.
  inversion Hr; subst.
  destruct (elements_inv g S eof WF SOK RC g' H5 ms h states Hh Hl) as [A B].
  split; auto. split; auto. split; auto. exists rows, jrows. split; auto.
  eapply fill_states_J; eauto.
Qed.

(* ================================================================================================ *)
(* 3. the statements of LRStatements.v are false as written                                           *)
(* ================================================================================================ *)
(* All three fail for grammars whose right-hand sides mention a non-terminal index >= total_nt g:
   `elements` uses the next two indices for its own S' and E.  C13_driver_safe_stmt also fails when
   the end marker occurs in a rule of g (it is then shifted and the input runs out). *)
Lemma valid_inner_inv {T} (translator : T -> N) g lhs alt ch :
  valid translator g (Inner lhs alt ch) ->
  exists rhs, nth_error (rs_get g lhs) (N.to_nat alt) = Some rhs /\ map (root translator) ch = rhs /\
              Forall (valid translator g) ch.
Proof. intros H. inversion H; subst. eauto. Qed.

Local Open Scope N_scope.

Definition g_sound_cex : grammar := mkG 1 [(Nt 0, [[Nt 2]])] [] 0.      (* S -> E, E being elements' own E -> eof *)
Definition g_safe_cex : grammar := mkG 1 [(Nt 0, [[Tm 0; Nt 0]; [Tm 1]])] [] 0.   (* S -> eof S | a *)
Definition g_total_cex : grammar := mkG 1 [(Nt 0, [[Nt 7]])] [] 0.      (* S -> Nt 7, no such row in the jump table *)

Definition out_g (r : result (grammar * tables * list conflict * list lrstate)) : grammar :=
  match r with Ok (g, _, _, _) => g | _ => empty_grammar end.
Definition out_tab (r : result (grammar * tables * list conflict * list lrstate)) : tables :=
  match r with Ok (_, t, _, _) => t | _ => mkTab [] [] end.
Definition out_states (r : result (grammar * tables * list conflict * list lrstate)) : list lrstate :=
  match r with Ok (_, _, _, s) => s | _ => [] end.

Definition sound_cex_g := Eval vm_compute in out_g (generate_tables 50 g_sound_cex false (Nt 0) (Tm 0)).
Definition sound_cex_tab := Eval vm_compute in out_tab (generate_tables 50 g_sound_cex false (Nt 0) (Tm 0)).
Definition sound_cex_states := Eval vm_compute in out_states (generate_tables 50 g_sound_cex false (Nt 0) (Tm 0)).
Lemma sound_cex_gen :
  generate_tables 50 g_sound_cex false (Nt 0) (Tm 0) = Ok (sound_cex_g, sound_cex_tab, [], sound_cex_states).
Proof. vm_compute. reflexivity. Qed.
Lemma sound_cex_run :
  parse (fun x : N => x) (fun _ => tt) (fun _ _ _ => tt) sound_cex_tab 50 [0; 0] = Ok (Some tt).
Proof. vm_compute. reflexivity. Qed.

Definition safe_cex_g := Eval vm_compute in out_g (generate_tables 50 g_safe_cex false (Nt 0) (Tm 0)).
Definition safe_cex_tab := Eval vm_compute in out_tab (generate_tables 50 g_safe_cex false (Nt 0) (Tm 0)).
Definition safe_cex_states := Eval vm_compute in out_states (generate_tables 50 g_safe_cex false (Nt 0) (Tm 0)).
Lemma safe_cex_gen :
  generate_tables 50 g_safe_cex false (Nt 0) (Tm 0) = Ok (safe_cex_g, safe_cex_tab, [], safe_cex_states).
Proof. vm_compute. reflexivity. Qed.
Lemma safe_cex_run :
  parse (fun x : N => x) (fun _ => tt) (fun _ _ _ => tt) safe_cex_tab 50 [0] = UB ub_iter.
Proof. vm_compute. reflexivity. Qed.

Lemma cex_wf alts : (forall alt, In alt alts -> ~ In Eps alt) -> wf_grammar (mkG 1 [(Nt 0, alts)] [] 0).
Proof.
  intros HE. constructor; cbn [right_sides first_sets map fst].
  - constructor; constructor.
  - intros X a [H|[]]. inversion H; eauto.
  - intros X a alt [H|[]]. inversion H; subst. auto.
  - reflexivity.
Qed.

Lemma cex_start_ok alts : start_ok (mkG 1 [(Nt 0, alts)] [] 0) (Nt 0) (Tm 0).
Proof.
  split; [|split].
  - exists 0. split; auto. cbn. lia.
  - exists 0. reflexivity.
  - intros X a [H|[]]. inversion H; subst. exists 0. split; auto. cbn. lia.
Qed.

Lemma C13_sound_stmt_false : ~ C13_sound_stmt.
Proof.
  intros HC.
  pose proof sound_cex_gen as HG. pose proof sound_cex_run as HP.
  set (g' := sound_cex_g) in *. set (tab := sound_cex_tab) in *. set (states := sound_cex_states) in *.
  destruct (HC N unit (fun x => x) (fun _ => tt) (fun _ _ _ => tt) 50%nat g_sound_cex false (Nt 0) (Tm 0)
               g' tab states 50%nat [0; 0] tt) as (tr & rest & Hv & Hr & _);
    [| |exact HG|exact HP|].
  - apply cex_wf. intros alt [<-|[]] [H|[]]. discriminate.
  - apply cex_start_ok.
  - clear HG HP HC. destruct tr as [tok|lhs alt ch]; cbn [root] in Hr; [discriminate Hr|]. subst lhs.
    apply valid_inner_inv in Hv. destruct Hv as (rhs & Hn & Hm & Hf).
    change (rs_get g_sound_cex (Nt 0)) with [[Nt 2]] in Hn.
    destruct (N.to_nat alt) as [|k]; cbn [nth_error] in Hn; [|destruct k; discriminate].
    inversion Hn as [Hrhs]. rewrite <- Hrhs in Hm.
    destruct ch as [|c [|c2 ch]]; cbn [map] in Hm; try discriminate.
    inversion Hm as [Hc]. inversion Hf as [|c' l' Hvc _]; subst c' l'.
    destruct c as [tok|lhs2 alt2 ch2]; cbn [root] in Hc; [discriminate|]. subst lhs2.
    apply valid_inner_inv in Hvc. destruct Hvc as (rhs2 & Hn2 & _).
    change (rs_get g_sound_cex (Nt 2)) with (@nil alternative) in Hn2.
    destruct (N.to_nat alt2); discriminate.
Qed.

Lemma C13_driver_safe_stmt_false : ~ C13_driver_safe_stmt.
Proof.
  intros HC.
  pose proof safe_cex_gen as HG. pose proof safe_cex_run as HP.
  set (g' := safe_cex_g) in *. set (tab := safe_cex_tab) in *. set (states := safe_cex_states) in *.
  destruct (HC N unit (fun x => x) (fun _ => tt) (fun _ _ _ => tt) 50%nat g_safe_cex false (Nt 0) (Tm 0)
               g' tab states [0]) with (fuel := 50%nat) as [HF|[r HF]]; [| |exact HG| | |].
  - apply cex_wf. intros alt [<-|[<-|[]]] H; cbn in H; intuition discriminate.
  - apply cex_start_ok.
  - exists [], 0, []. split; reflexivity.
  - rewrite HP in HF. discriminate HF.
  - rewrite HP in HF. discriminate HF.
Qed.

Lemma C13_generate_total_stmt_false : ~ C13_generate_total_stmt.
Proof.
  intros HC.
  assert (HR : generate_tables 50 g_total_cex false (Nt 0) (Tm 0) = UB ub_index) by (vm_compute; reflexivity).
  destruct (HC 50%nat g_total_cex false (Nt 0) (Tm 0)) as [HF|[r HF]].
  - apply cex_wf. intros alt [<-|[]] [H|[]]. discriminate.
  - apply cex_start_ok.
  - rewrite HR in HF. discriminate HF.
  - rewrite HR in HF. discriminate HF.
Qed.

(* ================================================================================================ *)
(* 4. the theorems, under the hypothesis the statements lack                                          *)
(* ================================================================================================ *)
(* rhs_closed g : every non-terminal occurring in a right-hand side of g has index < total_nt g
   eof_fresh g eof : the end marker occurs in no rule of g
   (both defined in Proofs_LRSound0.v).  The conflict list may be anything: soundness and driver
   safety do not need the tables to be conflict-free. *)
Definition C13_sound_partial_stmt : Prop :=
  forall (T V : Type) (translator : T -> N) (creator : T -> V) (semantic : sym -> N -> list V -> V)
         max_states g prefix S eof g' tab confs states fuel input v,
    wf_grammar g -> start_ok g S eof -> rhs_closed g ->
    generate_tables max_states g prefix S eof = Ok (g', tab, confs, states) ->
    parse translator creator semantic tab fuel input = Ok (Some v) ->
    exists (tr : tree) rest,
      valid translator g tr /\ root translator tr = S /\
      input = yield tr ++ rest /\ v = value creator semantic tr /\
      (prefix = false -> exists tok rest', rest = tok :: rest' /\ Tm (translator tok) = eof).

Lemma C13_sound_partial : C13_sound_partial_stmt.
Proof.
  intros T V translator creator semantic ms g prefix S eof g' tab confs states fuel input v
         WF SOK RC HG HP.
  destruct (generate_inv _ _ _ _ _ _ _ _ _ WF SOK RC HG) as (H5 & HS & HD & rows & jrows & -> & HT).
  unfold parse in HP.
  destruct (lr_sound translator creator semantic g S eof SOK g' H5 prefix states HS rows jrows HT
              v fuel input [0%Z] []) as (tr & rest & A & B & C & D & E).
  - constructor.
  - constructor.
  - exact HP.
  - exists tr, rest. repeat split; auto.
Qed.

Definition C13_driver_safe_partial_stmt : Prop :=
  forall (T V : Type) (translator : T -> N) (creator : T -> V) (semantic : sym -> N -> list V -> V)
         max_states g prefix S eof g' tab confs states input,
    wf_grammar g -> start_ok g S eof -> rhs_closed g -> eof_fresh g eof ->
    generate_tables max_states g prefix S eof = Ok (g', tab, confs, states) ->
    (exists pre tok post, input = pre ++ tok :: post /\ Tm (translator tok) = eof) ->
    forall fuel, parse translator creator semantic tab fuel input = Fuel \/
                 exists r, parse translator creator semantic tab fuel input = Ok r.

Lemma C13_driver_safe_partial : C13_driver_safe_partial_stmt.
Proof.
  intros T V translator creator semantic ms g prefix S eof g' tab confs states input
         WF SOK RC EF HG HE fuel.
  destruct (generate_inv _ _ _ _ _ _ _ _ _ WF SOK RC HG) as (H5 & HS & HD & rows & jrows & -> & HT).
  unfold parse.
  apply (lr_safe translator creator semantic g S eof SOK g' H5 prefix states HS rows jrows HT HD EF
           fuel input [0%Z] []); auto.
  constructor.
Qed.

Definition C13_generate_total_partial_stmt : Prop :=
  forall max_states g prefix S eof, wf_grammar g -> start_ok g S eof -> rhs_closed g ->
    generate_tables max_states g prefix S eof = Fuel \/
    exists r, generate_tables max_states g prefix S eof = Ok r.

Lemma C13_generate_total_partial : C13_generate_total_partial_stmt.
Proof.
  intros ms g prefix S eof WF SOK RC. unfold generate_tables. rewrite elements_unfold.
  destruct (C13_first_terminates_proof (ext_grammar g S eof) (wf4 g S eof WF SOK)) as (g5 & H5 & _).
  rewrite H5. cbn [bind].
  assert (Hf : forall e, In e [mkItem (Nt (total_nt g)) 0 0 eof] -> fetchable g5 e).
  { intros e [<-|[]]. eapply good_fetchable. eapply good_init; eauto. }
  pose proof (hull_fuel_total g5 (hull_budget g5) _ Hf) as Hht.
  change (hull_fuel (hull_budget g5) g5) with (hull g5) in Hht.
  destruct Hht as [Hh|[h Hh]]; rewrite Hh; cbn [bind]; [left; reflexivity|].
  pose proof (SInv_init g S eof WF SOK RC g5 H5 h Hh) as HS0.
  destruct (elements_loop_total g S eof WF SOK RC g5 H5 ms [mkSt h []] 0%nat HS0) as [Hl|[states Hl]];
    rewrite Hl; cbn [bind]; [left; reflexivity|].
  destruct (elements_inv g S eof WF SOK RC g5 H5 ms h states Hh Hl) as [HS _].
  destruct (fill_states_total g5 prefix eof states 0%Z []
              (SInv_fill_cond g S eof WF SOK RC g5 H5 states HS)) as [r Hr].
  rewrite Hr. cbn [bind]. destruct r as [[rows jrows] confs]. right. eauto.
Qed.

Print Assumptions C13_sound_stmt_false.
Print Assumptions C13_driver_safe_stmt_false.
Print Assumptions C13_generate_total_stmt_false.
Print Assumptions C13_sound_partial.
Print Assumptions C13_driver_safe_partial.
Print Assumptions C13_generate_total_partial.
