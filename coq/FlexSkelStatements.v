(* FlexSkelStatements.v — one yylex() call of the committed scanner, control flow of the flex skeleton included
   (FlexSkel.yylex), is the abstract single pass FlexModel.flex_next_token, hence (C14_flex_next_token) the model's
   Lexer.next_token on the rule list of lexer.l — for every byte string and every position in it. *)
From Theo Require Import Base Regex Tokens Lexer FlexModel FlexSkel Gen_Lexer Gen_Flex FlexStatements.
Local Open Scope Z_scope.

Definition lex_expect (text : list N) (r : option (option (tkind * list N * Z * list N))) : lexres :=
  match r with
  | Some (Some (k, txt, line, rest)) => LTok k txt line (zlen text - zlen rest)
  | Some None => LEof
  | None => LFault
  end.

Definition suffix_at (text : list N) (pos : Z) : list N := skipn (Z.to_nat pos) text.

Definition C14_skeleton_stmt : Prop :=
  forall text pos line, bytes_ok text -> 0 <= pos <= zlen text ->
    let s := suffix_at text pos in
    yylex flex_tables flex_actions text (S (length s)) pos line =
    lex_expect text (flex_next_token (S (length s)) flex_tables flex_actions s line).

(* with C14_flex_next_token: the skeleton on the tables = the model's scanner on the rules *)
Definition C14_yylex_is_next_token_stmt : Prop :=
  forall text pos line, bytes_ok text -> 0 <= pos <= zlen text ->
    let s := suffix_at text pos in
    yylex flex_tables flex_actions text (S (length s)) pos line =
    lex_expect text (Some (next_token (S (length s)) rules s line)).
