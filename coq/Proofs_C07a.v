(* Proofs_C07a.v — C07 (stepping is faithful to the source), part 1: the DYNAMIC part.
   step_trace, one instruction at a time; "quiet" runs (no stop reported, no HALT executed); and the stage-3
   simulation of Proofs_C01s3a.v restated for a VM in stepping mode, carrying the stops:
     - a reference instruction that is not a site is simulated by a quiet run of its block;
     - an RSite is simulated by the POTENTIAL_BREAK of its block, after which executeSingle reports a stop whose
       location (getCurrentBreak) is the entry of line_info at that position and whose views agree with the
       views the reference semantics records;
     - RStop / RHalt is the HALT that ends step_trace.
   Everything is generic in the routine, the frame base and the register map, as in Proofs_C01s3a.v. *)
From Coq Require Import List ZArith NArith Lia Bool.
From Theo Require Import Base Tokens Errors MacroExtract Parser VMModel VMSpec GenModel Compile RefSem RefSemChk C01Statements C01Stages Gen_Consts Proofs_VM_mem Proofs_VM_dbg Proofs_Gen0 Proofs_Gen Proofs_Sem Proofs_C01a Proofs_C01b Proofs_C01 Proofs_C01s2a Proofs_C01s3a.
From Theo Require Import C07Statements.
Import ListNotations.
Local Open Scope Z_scope.

(* ================================================================================================ *)
(* 1. step_trace                                                                                    *)
(* ================================================================================================ *)
Lemma step_trace_S n s :
  step_trace (S n) s =
  bind (exec1 s) (fun r =>
    let '(s', stopped) := r in
    if at_halt s then Ok ([], s', true)
    else if stopped then
      bind (of_opt ub_index (getCurrentBreak s')) (fun l =>
      bind (views s') (fun v =>
      bind (step_trace n s') (fun rest =>
      let '(tr, s'', e) := rest in Ok ((l, v) :: tr, s'', e))))
    else step_trace n s').
Proof. reflexivity. Qed.

Lemma st_trans : forall n m s tr1 s' tr2 s'' e,
  step_trace n s = Ok (tr1, s', false) -> step_trace m s' = Ok (tr2, s'', e) ->
  step_trace (n + m) s = Ok (tr1 ++ tr2, s'', e).
Proof.
  induction n as [|n IH]; intros m s tr1 s' tr2 s'' e H1 H2.
  - cbn [step_trace] in H1. inversion H1; subst. exact H2.
  - change (S n + m)%nat with (S (n + m)). rewrite step_trace_S in *.
    destruct (exec1 s) as [[s1 st]| |]; cbn [bind] in *; try discriminate.
    destruct (at_halt s); [discriminate|].
    destruct st.
    + destruct (of_opt ub_index (getCurrentBreak s1)) as [l| |]; cbn [bind] in *; try discriminate.
      destruct (views s1) as [v| |]; cbn [bind] in *; try discriminate.
      destruct (step_trace n s1) as [[[tr sx] ex]| |] eqn:E; cbn [bind] in *; try discriminate.
      inversion H1; subst tr1 sx ex; clear H1.
      rewrite (IH m s1 tr s' tr2 s'' e E H2). reflexivity.
    + apply IH with (s' := s'); assumption.
Qed.

(* a quiet run: n instructions, none of them HALT, no stop reported *)
Definition qrun (n : nat) (s s' : vm) : Prop := step_trace n s = Ok ([], s', false).

Lemma qrun_trans n m s s' s'' : qrun n s s' -> qrun m s' s'' -> qrun (n + m) s s''.
Proof. unfold qrun. intros H1 H2. exact (st_trans n m s [] s' [] s'' false H1 H2). Qed.

Lemma qrun_1 s s' : exec1 s = Ok (s', false) -> at_halt s = false -> qrun 1 s s'.
Proof. intros E H. unfold qrun. rewrite step_trace_S, E. cbn [bind]. rewrite H. reflexivity. Qed.

Lemma qrun_st n m s s' tr s'' e : qrun n s s' -> step_trace m s' = Ok (tr, s'', e) ->
  step_trace (n + m) s = Ok (tr, s'', e).
Proof. intros H1 H2. exact (st_trans n m s [] s' tr s'' e H1 H2). Qed.

Lemma at_halt_at s q d ins : znth (code (prog s)) q = Some ins -> opcode_eqb (iop ins) HALT = false ->
  at_halt (vm_at s q d) = false.
Proof.
  intros Hz Hh. unfold at_halt, op_at, vm_at. cbn [prog ip]. rewrite Hz. cbn [option_map].
  destruct (iop ins); try reflexivity. discriminate Hh.
Qed.

(* ---- the step lemmas of Proofs_C01s2a.v / Proofs_C01s3a.v, as quiet runs ---- *)
Lemma q_add s act rest q d t src c x d' :
  znth (code (prog s)) q = Some (IAdd t src c) -> stack s = act :: rest ->
  znth d (data_start act + src) = Some x -> zupd d (data_start act + t) (clampz (x + c)) = Some d' ->
  qrun 1 (vm_at s q d) (vm_at s (q + 1) d').
Proof.
  intros H1 H2 H3 H4. apply qrun_1.
  - exact (exec1_add (vm_at s q d) act rest t src c x d' H1 H2 H3 H4).
  - eapply at_halt_at; [exact H1 | reflexivity].
Qed.

Lemma q_const s act rest q d t c d' :
  znth (code (prog s)) q = Some (IConst t c) -> stack s = act :: rest ->
  zupd d (data_start act + t) c = Some d' ->
  qrun 1 (vm_at s q d) (vm_at s (q + 1) d').
Proof.
  intros H1 H2 H3. apply qrun_1.
  - exact (exec1_const (vm_at s q d) act rest t c d' H1 H2 H3).
  - eapply at_halt_at; [exact H1 | reflexivity].
Qed.

Lemma q_jmp s q d f :
  znth (code (prog s)) q = Some (IJmp f) -> qrun 1 (vm_at s q d) (vm_at s (q + f) d).
Proof.
  intros H. apply qrun_1.
  - exact (exec1_jmp (vm_at s q d) f H).
  - eapply at_halt_at; [exact H | reflexivity].
Qed.

Lemma q_jmpc s act rest q d f src x :
  znth (code (prog s)) q = Some (IJmpC f src) -> stack s = act :: rest ->
  znth d (data_start act + src) = Some x ->
  qrun 1 (vm_at s q d) (vm_at s (if x =? 0 then q + f else q + 1) d).
Proof.
  intros H1 H2 H3. apply qrun_1.
  - exact (exec1_jmpc (vm_at s q d) act rest f src x H1 H2 H3).
  - eapply at_halt_at; [exact H1 | reflexivity].
Qed.

Lemma q_test s act rest q d t a b x y d' :
  znth (code (prog s)) q = Some (ITest t a b) -> stack s = act :: rest ->
  znth d (data_start act + a) = Some x -> znth d (data_start act + b) = Some y ->
  zupd d (data_start act + t) (if x =? y then 0 else 1) = Some d' ->
  qrun 1 (vm_at s q d) (vm_at s (q + 1) d').
Proof.
  intros H1 H2 H3 H4 H5. apply qrun_1.
  - exact (exec1_test (vm_at s q d) act rest t a b x y d' H1 H2 H3 H4 H5).
  - eapply at_halt_at; [exact H1 | reflexivity].
Qed.

(* a site in stepping mode: one stop *)
Lemma st_site s q d b v :
  stepping s = true -> znth (code (prog s)) q = Some IPotentialBreak ->
  alookup z_ltb (line_info (prog s)) q = Some b -> views (vm_at s (q + 1) d) = Ok v ->
  step_trace 1 (vm_at s q d) = Ok ([(b, v)], vm_at s (q + 1) d, false).
Proof.
  intros Hs Hz Hl Hv. rewrite step_trace_S.
  rewrite (exec1_pb (vm_at s q d) Hz). cbn [bind].
  rewrite (at_halt_at s q d IPotentialBreak Hz eq_refl).
  change (stepping (vm_at s q d)) with (stepping s). rewrite Hs.
  change (ip (vm_at s q d)) with q. change (data (vm_at s q d)) with d.
  rewrite vm_at_at.
  unfold getCurrentBreak. change (ip (vm_at s (q + 1) d)) with (q + 1). change (prog (vm_at s (q + 1) d)) with (prog s).
  replace (q + 1 - 1) with q by lia. rewrite Hl. cbn [of_opt bind]. rewrite Hv. cbn [bind step_trace]. reflexivity.
Qed.

(* HALT ends the stepping run *)
Lemma st_halt s q d :
  znth (code (prog s)) q = Some IHalt ->
  step_trace 1 (vm_at s q d) = Ok ([], vm_at s q d, true).
Proof.
  intros Hz. rewrite step_trace_S.
  assert (E : exec1 (vm_at s q d) = Ok (vm_at s q d, true)).
  { unfold exec1, exec1_gen. change (code (prog (vm_at s q d))) with (code (prog s)). change (ip (vm_at s q d)) with q.
    rewrite Hz. reflexivity. }
  rewrite E. cbn [bind].
  assert (H : at_halt (vm_at s q d) = true).
  { unfold at_halt, op_at, vm_at. cbn [prog ip]. rewrite Hz. reflexivity. }
  rewrite H. reflexivity.
Qed.

(* ================================================================================================ *)
(* 2. simple values, quietly                                                                        *)
(* ================================================================================================ *)
Section Val7.
  Variables (rm : regmap) (base N : Z) (C : list instr).
  Hypothesis OK : rm_ok rm N.

  Lemma run_val7 v tgt q s d act rest a z :
    SR rm base N a d -> code (prog s) = C -> stack s = act :: rest -> data_start act = base ->
    vmatch rm C v tgt q -> 0 <= tgt < N -> sval (ra_vars a) v = Some z ->
    exists d', qrun (Z.to_nat (vlen v)) (vm_at s q d) (vm_at s (q + vlen v) d') /\
               chg rm base d d' (fun j => j = base + tgt) /\
               znth d' (base + tgt) = Some z /\ 0 <= z < INT_MAX.
  Proof.
    intros HS HC Hst Hb HM Ht Hv. pose proof HS as [Hf Hvar Hcnt Hvb Hcb]. subst base.
    destruct v as [y|c|y c|y c|j args]; cbn [vmatch sval vlen] in *; try contradiction.
    - (* variable *)
      destruct HM as (ry & Hy & Hz). inversion Hv; subst z; clear Hv.
      destruct (zupd_ex d (data_start act + tgt) (clampz (get (ra_vars a) y + 0)) ltac:(lia)) as [d' Hu].
      assert (Ec : clampz (get (ra_vars a) y + 0) = get (ra_vars a) y).
      { specialize (Hvb y). unfold clampz, INT_MAX in *. lia. }
      exists d'. split.
      + change (Z.to_nat 1) with 1%nat.
        eapply q_add; [rewrite HC; exact Hz | exact Hst | apply Hvar; exact Hy | exact Hu].
      + split; [eapply chg_zupd; exact Hu|]. split; [|apply Hvb].
        rewrite (znth_zupd _ _ _ _ Hu), Z.eqb_refl, Ec. reflexivity.
    - (* literal *)
      destruct HM as (Hc & Hz). inversion Hv; subst z; clear Hv.
      destruct (zupd_ex d (data_start act + tgt) c ltac:(lia)) as [d' Hu].
      exists d'. split.
      + change (Z.to_nat 1) with 1%nat.
        eapply q_const; [rewrite HC; exact Hz | exact Hst | exact Hu].
      + split; [eapply chg_zupd; exact Hu|]. split; [|exact Hc].
        rewrite (znth_zupd _ _ _ _ Hu), Z.eqb_refl. reflexivity.
    - (* y + c *)
      destruct y as [y| | | |]; try contradiction.
      destruct HM as (ry & t1 & t2 & Hy & T1 & T2 & Hne & Hc & Z0 & Z1 & Z2).
      destruct (Z.leb_spec INT_MAX (get (ra_vars a) y + c)) as [|Hlt]; [discriminate|]. inversion Hv; subst z; clear Hv.
      pose proof (rmo_tmp_rng _ _ OK _ T1) as R1. pose proof (rmo_tmp_rng _ _ OK _ T2) as R2.
      pose proof (Hvb y) as By.
      set (x := get (ra_vars a) y) in *.
      destruct (zupd_ex d (data_start act + t1) (clampz (x + 0)) ltac:(lia)) as [d1 U1].
      assert (E1 : clampz (x + 0) = x) by (unfold clampz; lia).
      pose proof (zupd_length _ _ _ _ U1) as L1.
      destruct (zupd_ex d1 (data_start act + t2) c ltac:(lia)) as [d2 U2].
      pose proof (zupd_length _ _ _ _ U2) as L2.
      destruct (zupd_ex d2 (data_start act + tgt) (clampz (x + c)) ltac:(lia)) as [d3 U3].
      assert (E3 : clampz (x + c) = x + c) by (unfold clampz; lia).
      assert (R : znth d2 (data_start act + t1) = Some x).
      { rewrite (znth_zupd _ _ _ _ U2). destruct (Z.eqb_spec (data_start act + t1) (data_start act + t2)); [lia|].
        rewrite (znth_zupd _ _ _ _ U1), Z.eqb_refl, E1. reflexivity. }
      exists d3. split.
      + change (Z.to_nat 3) with (1 + (1 + 1))%nat.
        replace (q + 3) with (q + 1 + 1 + 1) by lia.
        eapply qrun_trans; [eapply q_add; [rewrite HC; exact Z0 | exact Hst | apply Hvar; exact Hy | exact U1]|].
        eapply qrun_trans; [eapply q_const; [rewrite HC; exact Z1 | exact Hst | exact U2]|].
        eapply q_add; [rewrite HC; replace (q + 1 + 1) with (q + 2) by lia; exact Z2 | exact Hst | exact R | exact U3].
      + split.
        * eapply chg_trans with (W1 := fun _ => False) (W2 := fun j => j = data_start act + tgt);
            [tauto | auto | | eapply chg_zupd; exact U3].
          eapply chg_trans with (W1 := fun _ => False) (W2 := fun _ => False);
            [tauto | tauto | exact (chg_zupd_tmp _ _ _ _ _ _ T1 U1) | exact (chg_zupd_tmp _ _ _ _ _ _ T2 U2)].
        * split; [|lia].
          rewrite (znth_zupd _ _ _ _ U3), Z.eqb_refl, E3. reflexivity.
    - (* y - c *)
      destruct y as [y| | | |]; try contradiction.
      destruct HM as (ry & t1 & t2 & Hy & T1 & T2 & Hne & Hc & Z0 & Z1 & Z2).
      inversion Hv; subst z; clear Hv.
      pose proof (rmo_tmp_rng _ _ OK _ T1) as R1. pose proof (rmo_tmp_rng _ _ OK _ T2) as R2.
      pose proof (Hvb y) as By.
      set (x := get (ra_vars a) y) in *.
      destruct (zupd_ex d (data_start act + t1) (clampz (x + 0)) ltac:(lia)) as [d1 U1].
      assert (E1 : clampz (x + 0) = x) by (unfold clampz; lia).
      pose proof (zupd_length _ _ _ _ U1) as L1.
      destruct (zupd_ex d1 (data_start act + t2) c ltac:(lia)) as [d2 U2].
      pose proof (zupd_length _ _ _ _ U2) as L2.
      destruct (zupd_ex d2 (data_start act + tgt) (clampz (x + - c)) ltac:(lia)) as [d3 U3].
      assert (E3 : clampz (x + - c) = Z.max (x - c) 0) by (unfold clampz; lia).
      assert (R : znth d2 (data_start act + t1) = Some x).
      { rewrite (znth_zupd _ _ _ _ U2). destruct (Z.eqb_spec (data_start act + t1) (data_start act + t2)); [lia|].
        rewrite (znth_zupd _ _ _ _ U1), Z.eqb_refl, E1. reflexivity. }
      exists d3. split.
      + change (Z.to_nat 3) with (1 + (1 + 1))%nat.
        replace (q + 3) with (q + 1 + 1 + 1) by lia.
        eapply qrun_trans; [eapply q_add; [rewrite HC; exact Z0 | exact Hst | apply Hvar; exact Hy | exact U1]|].
        eapply qrun_trans; [eapply q_const; [rewrite HC; exact Z1 | exact Hst | exact U2]|].
        eapply q_add; [rewrite HC; replace (q + 1 + 1) with (q + 2) by lia; exact Z2 | exact Hst | exact R | exact U3].
      + split.
        * eapply chg_trans with (W1 := fun _ => False) (W2 := fun j => j = data_start act + tgt);
            [tauto | auto | | eapply chg_zupd; exact U3].
          eapply chg_trans with (W1 := fun _ => False) (W2 := fun _ => False);
            [tauto | tauto | exact (chg_zupd_tmp _ _ _ _ _ _ T1 U1) | exact (chg_zupd_tmp _ _ _ _ _ _ T2 U2)].
        * split; [|lia].
          rewrite (znth_zupd _ _ _ _ U3), Z.eqb_refl, E3. reflexivity.
  Qed.
End Val7.

(* ================================================================================================ *)
(* 3. one reference instruction that is not a site: a quiet run of its block                        *)
(* ================================================================================================ *)
Section Sim7.
  Variables (rs : list routine) (k : nat) (r : routine).
  Hypothesis Hk : nth_error rs k = Some r.
  Variables (rm : regmap) (base N : Z) (C : list instr) (P0 : Z).
  Hypothesis OK : rm_ok rm N.
  Hypothesis CM : forall pc i, znth (r_code r) pc = Some i -> imatch3 rm C (jpost3 r P0) (pm3 r P0 pc) i.

  Notation pm3 := (pm3 r P0).

  Lemma sim_step7 rec ctx a pc steps trace i s d o :
    znth (r_code r) pc = Some i -> is_site i = false -> frame_of base C s -> SR rm base N a d ->
    exec_instr_c rs rec r ctx k a pc steps trace i = o -> o <> OBad ->
    ((i = RHalt \/ i = RStop) /\ o = OStop (ctx ++ [view_of r a]) (S steps) trace) \/
    (exists a' pc' n d',
        qrun n (vm_at s (pm3 pc) d) (vm_at s (pm3 pc') d') /\
        SR rm base N a' d' /\
        rec ctx k a' pc' (S steps) trace = o).
  Proof.
    intros Hi Hns (HC & act & rest & Hst & Hb) HS HX Hne.
    pose proof (CM _ _ Hi) as HM. pose proof (pm_of3_next P0 _ _ _ Hi) as Hnext.
    fold (pm3 (pc + 1)) in Hnext. fold (pm3 pc) in Hnext.
    pose proof HS as [Hf Hvar Hcnt Hvb Hcb].
    unfold exec_instr_c in HX. cbv zeta in HX.
    destruct i as [l|x v|id v|id ex|id back|v ex|target|l|x y l| |out|]; cbn [imatch3 imatch blen3 blen] in HM, Hnext; try contradiction.
    - (* RSite *) discriminate Hns.
    - (* RAssign *)
      destruct HM as (rx & Hx & HV).
      rewrite (eval_c_simple _ _ _ _ _ _ _ (vmatch_shape _ _ _ _ _ HV)) in HX.
      destruct (sval (ra_vars a) v) as [z|] eqn:Ev; [|congruence].
      pose proof (rmo_var_rng _ _ OK _ _ Hx) as Rx.
      destruct (run_val7 rm base N C OK v rx (pm3 pc) s d act rest a z HS HC Hst Hb HV Rx Ev) as (d' & Hrun & Hch & Hz & Hzb).
      right.
      exists (mkRAct (put (ra_vars a) x z) (ra_cnt a)), (pc + 1), (Z.to_nat (vlen v)), d'.
      split; [rewrite Hnext; exact Hrun|].
      split; [eapply SR_var; eauto | exact HX].
    - (* RLoopInit *)
      destruct HM as (rc & Hx & HV).
      rewrite (eval_c_simple _ _ _ _ _ _ _ (vmatch_shape _ _ _ _ _ HV)) in HX.
      destruct (sval (ra_vars a) v) as [z|] eqn:Ev; [|congruence].
      pose proof (rmo_cnt_rng _ _ OK _ _ Hx) as Rx.
      destruct (run_val7 rm base N C OK v rc (pm3 pc) s d act rest a z HS HC Hst Hb HV Rx Ev) as (d' & Hrun & Hch & Hz & Hzb).
      right.
      exists (mkRAct (ra_vars a) (putc (ra_cnt a) id z)), (pc + 1), (Z.to_nat (vlen v)), d'.
      split; [rewrite Hnext; exact Hrun|].
      split; [eapply SR_cnt; eauto | exact HX].
    - (* RLoopTest *)
      destruct HM as (rc & f & Hx & Hz & (t & Ht & Hj)).
      pose proof (Hcnt _ _ Hx) as Hrd. rewrite <- Hb in Hrd.
      pose proof (q_jmpc s act rest (pm3 pc) d f rc _ ltac:(rewrite HC; exact Hz) Hst Hrd) as Hrun.
      right. destruct (getc (ra_cnt a) id =? 0).
      + rewrite Ht in HX. unfold goto_of in HX. destruct (Z.ltb_spec t 0) as [|Hge]; [congruence|].
        exists a, t, 1%nat, d. rewrite <- (Hj Hge).
        split; [exact Hrun|]. split; [exact HS | exact HX].
      + exists a, (pc + 1), 1%nat, d. rewrite Hnext.
        split; [exact Hrun|]. split; [exact HS | exact HX].
    - (* RLoopDec *)
      destruct HM as (rc & f & Hx & Hz & Hz1 & (t & Ht & Hj)).
      rewrite Ht in HX. unfold goto_of in HX. destruct (Z.ltb_spec t 0) as [|Hge]; [congruence|].
      pose proof (Hcnt _ _ Hx) as Hrd. rewrite <- Hb in Hrd.
      pose proof (rmo_cnt_rng _ _ OK _ _ Hx) as Rx. pose proof (Hcb id) as Bc.
      set (x := getc (ra_cnt a) id) in *.
      destruct (zupd_ex d (data_start act + rc) (clampz (x + -1)) ltac:(lia)) as [d' Hu].
      assert (Ec : clampz (x + -1) = Z.max (x - 1) 0) by (unfold clampz; lia).
      right.
      exists (mkRAct (ra_vars a) (putc (ra_cnt a) id (Z.max (x - 1) 0))), t, (1 + 1)%nat, d'.
      split.
      + rewrite <- (Hj Hge).
        eapply qrun_trans; [eapply q_add; [rewrite HC; exact Hz | exact Hst | exact Hrd | exact Hu]|].
        apply q_jmp. rewrite HC. exact Hz1.
      + rewrite Hb in Hu. split; [|exact HX].
        eapply SR_cnt; eauto; [eapply chg_zupd; exact Hu | | lia].
        rewrite (znth_zupd _ _ _ _ Hu), Z.eqb_refl, Ec. reflexivity.
    - (* RWhileTest *)
      destruct HM as (tt & f & Htt & HV & Hz & (t & Ht & Hj)).
      rewrite (eval_c_simple _ _ _ _ _ _ _ (vmatch_shape _ _ _ _ _ HV)) in HX.
      destruct (sval (ra_vars a) v) as [z|] eqn:Ev; [|congruence].
      pose proof (rmo_tmp_rng _ _ OK _ Htt) as Rt.
      destruct (run_val7 rm base N C OK v tt (pm3 pc) s d act rest a z HS HC Hst Hb HV Rt Ev) as (d' & Hrun & Hch & Hzz & Hzb).
      assert (HS' : SR rm base N a d').
      { eapply SR_tmp; eauto. destruct Hch as [Hl Hc']. split; [exact Hl|]. intros j _ Hj'. apply Hc'; [|exact Hj'].
        intros ->. apply (Hj' tt Htt). reflexivity. }
      rewrite <- Hb in Hzz.
      pose proof (q_jmpc s act rest (pm3 pc + vlen v) d' f tt z ltac:(rewrite HC; exact Hz) Hst Hzz) as Hrun2.
      right. destruct (z =? 0).
      + rewrite Ht in HX. unfold goto_of in HX. destruct (Z.ltb_spec t 0) as [|Hge]; [congruence|].
        exists a, t, (Z.to_nat (vlen v) + 1)%nat, d'. rewrite <- (Hj Hge).
        split; [eapply qrun_trans; [exact Hrun | exact Hrun2]|]. split; [exact HS' | exact HX].
      + exists a, (pc + 1), (Z.to_nat (vlen v) + 1)%nat, d'. rewrite Hnext.
        replace (pm3 pc + (vlen v + 1)) with (pm3 pc + vlen v + 1) by lia.
        split; [eapply qrun_trans; [exact Hrun | exact Hrun2]|]. split; [exact HS' | exact HX].
    - (* RJump *)
      destruct HM as (f & Hz & (t & Ht & Hj)).
      rewrite Ht in HX. unfold goto_of in HX. destruct (Z.ltb_spec t 0) as [|Hge]; [congruence|].
      right.
      exists a, t, 1%nat, d. rewrite <- (Hj Hge).
      split; [apply q_jmp; rewrite HC; exact Hz|]. split; [exact HS | exact HX].
    - (* RGoto *)
      destruct HM as (f & Hz & Hj). cbn [jpost3] in Hj.
      unfold goto_of in HX. destruct (Z.ltb_spec (label_pos (r_labels r) l) 0) as [|Hge]; [congruence|].
      right.
      exists a, (label_pos (r_labels r) l), 1%nat, d. rewrite <- (Hj Hge).
      split; [apply q_jmp; rewrite HC; exact Hz|]. split; [exact HS | exact HX].
    - (* RIfGoto *)
      destruct x as [y0| | | |]; try contradiction. destruct y as [|c| | |]; try contradiction.
      destruct HM as (ry & t1 & t2 & tc & f & Hy & T1 & T2 & Tc & Hne12 & Hc & Z0 & Z1 & Z2 & Z3 & Hj). cbn [jpost3] in Hj.
      cbn [eval_c] in HX. cbn [vlen] in Hnext.
      pose proof (rmo_tmp_rng _ _ OK _ T1) as R1. pose proof (rmo_tmp_rng _ _ OK _ T2) as R2. pose proof (rmo_tmp_rng _ _ OK _ Tc) as Rc.
      pose proof (Hvb y0) as By. set (x := get (ra_vars a) y0) in *.
      destruct (zupd_ex d (data_start act + t1) (clampz (x + 0)) ltac:(lia)) as [d1 U1].
      assert (E1 : clampz (x + 0) = x) by (unfold clampz; lia).
      pose proof (zupd_length _ _ _ _ U1) as L1.
      destruct (zupd_ex d1 (data_start act + t2) c ltac:(lia)) as [d2 U2].
      pose proof (zupd_length _ _ _ _ U2) as L2.
      destruct (zupd_ex d2 (data_start act + tc) (if x =? c then 0 else 1) ltac:(lia)) as [d3 U3].
      assert (Rd1 : znth d2 (data_start act + t1) = Some x).
      { rewrite (znth_zupd _ _ _ _ U2). destruct (Z.eqb_spec (data_start act + t1) (data_start act + t2)); [lia|].
        rewrite (znth_zupd _ _ _ _ U1), Z.eqb_refl, E1. reflexivity. }
      assert (Rd2 : znth d2 (data_start act + t2) = Some c) by (rewrite (znth_zupd _ _ _ _ U2), Z.eqb_refl; reflexivity).
      assert (Rd3 : znth d3 (data_start act + tc) = Some (if x =? c then 0 else 1)) by (rewrite (znth_zupd _ _ _ _ U3), Z.eqb_refl; reflexivity).
      assert (Hch : chg rm base d d3 (fun _ => False)).
      { rewrite <- Hb.
        eapply chg_trans with (W1 := fun _ => False) (W2 := fun _ => False); [tauto | tauto | | exact (chg_zupd_tmp _ _ _ _ _ _ Tc U3)].
        eapply chg_trans with (W1 := fun _ => False) (W2 := fun _ => False);
          [tauto | tauto | exact (chg_zupd_tmp _ _ _ _ _ _ T1 U1) | exact (chg_zupd_tmp _ _ _ _ _ _ T2 U2)]. }
      assert (HS' : SR rm base N a d3) by (eapply SR_tmp; eauto).
      assert (Hrun : qrun (1 + (1 + (1 + 1))) (vm_at s (pm3 pc) d)
                     (vm_at s (if (if x =? c then 0 else 1) =? 0 then pm3 pc + 1 + 1 + 1 + f else pm3 pc + 1 + 1 + 1 + 1) d3)).
      { eapply qrun_trans; [eapply q_add; [rewrite HC; exact Z0 | exact Hst | rewrite Hb; apply Hvar; exact Hy | exact U1]|].
        eapply qrun_trans; [eapply q_const; [rewrite HC; exact Z1 | exact Hst | exact U2]|].
        eapply qrun_trans; [eapply q_test; [rewrite HC; replace (pm3 pc + 1 + 1) with (pm3 pc + 2) by lia; exact Z2
                                               | exact Hst | exact Rd1 | exact Rd2 | exact U3]|].
        eapply q_jmpc; [rewrite HC; replace (pm3 pc + 1 + 1 + 1) with (pm3 pc + 3) by lia; exact Z3 | exact Hst | exact Rd3]. }
      right.
      destruct (x =? c).
      + unfold goto_of in HX. destruct (Z.ltb_spec (label_pos (r_labels r) l) 0) as [|Hge]; [congruence|].
        exists a, (label_pos (r_labels r) l), (1 + (1 + (1 + 1)))%nat, d3.
        rewrite <- (Hj Hge). cbn [Z.eqb] in Hrun. replace (pm3 pc + 3 + f) with (pm3 pc + 1 + 1 + 1 + f) by lia.
        split; [exact Hrun|]. split; [exact HS' | exact HX].
      + exists a, (pc + 1), (1 + (1 + (1 + 1)))%nat, d3. rewrite Hnext.
        cbn [Z.eqb] in Hrun. replace (pm3 pc + (1 + 1 + 2)) with (pm3 pc + 1 + 1 + 1 + 1) by lia.
        split; [exact Hrun|]. split; [exact HS' | exact HX].
    - (* RStop *)
      left. split; [right; reflexivity | congruence].
    - (* RHalt *)
      left. split; [left; reflexivity | congruence].
  Qed.

  (* ============================================================================================== *)
  (* 4. a finished run, in stepping mode, with its stops                                            *)
  (* ============================================================================================== *)
  Theorem sim_run7 s ctx :
    stepping s = true -> frame_of base C s ->
    (forall pc l, znth (r_code r) pc = Some (RSite l) ->
                  alookup z_ltb (line_info (prog s)) (pm3 pc) = Some (mkBP (fst l) (snd l))) ->
    (forall a d q, SR rm base N a d ->
                   exists v, views (vm_at s q d) = Ok v /\ Forall2 view_agrees v (ctx ++ [view_of r a])) ->
    forall fuel a pc steps trace d views steps' trace',
      SR rm base N a d ->
      run_chk rs fuel ctx k a pc steps trace = OStop views steps' trace' ->
      exists n pcf a' d' stops delta,
        step_trace n (vm_at s (pm3 pc) d) = Ok (stops, vm_at s (pm3 pcf) d', true) /\
        SR rm base N a' d' /\ views = ctx ++ [view_of r a'] /\
        trace' = trace ++ delta /\ Forall2 stop_agrees stops delta.
  Proof.
    intros Hstp HF LI VW.
    induction fuel as [|f IH]; intros a pc steps trace d views steps' trace' HS Hrun; [discriminate|].
    rewrite run_chk_S in Hrun. unfold body_c in Hrun. rewrite Hk in Hrun.
    destruct (znth (r_code r) pc) as [i|] eqn:Hi; [|discriminate].
    destruct (is_site i) eqn:Esite.
    - (* a site: one stop *)
      destruct i as [l| | | | | | | | | | |]; try discriminate Esite.
      unfold exec_instr_c in Hrun. cbv zeta in Hrun.
      pose proof (CM _ _ Hi) as HM. cbn [imatch3 imatch] in HM.
      pose proof (pm_of3_next P0 _ _ _ Hi) as Hnext. cbn [blen3 blen] in Hnext.
      fold (pm3 (pc + 1)) in Hnext. fold (pm3 pc) in Hnext.
      destruct (VW a d (pm3 pc + 1) HS) as (v & Hv & Hva).
      destruct HF as (HC & HFr).
      pose proof (st_site s (pm3 pc) d _ v Hstp ltac:(rewrite HC; exact HM) (LI _ _ Hi) Hv) as Hst1.
      rewrite <- Hnext in Hst1.
      destruct (IH _ _ _ _ _ _ _ _ HS Hrun) as (n2 & pcf & a2 & d2 & stops2 & delta2 & Hst2 & HS2 & Hvs & Htr & Hag).
      exists (1 + n2)%nat, pcf, a2, d2, ([(mkBP (fst l) (snd l), v)] ++ stops2), ([(l, ctx ++ [view_of r a])] ++ delta2).
      split; [exact (st_trans _ _ _ _ _ _ _ _ Hst1 Hst2)|].
      split; [exact HS2|]. split; [exact Hvs|]. split; [rewrite Htr, <- app_assoc; reflexivity|].
      cbn [app]. constructor; [|exact Hag].
      unfold stop_agrees. cbn [fst snd bfile bline]. split; [reflexivity|]. split; [reflexivity | exact Hva].
    - destruct (sim_step7 _ _ _ _ _ _ _ s d _ Hi Esite HF HS Hrun ltac:(discriminate))
        as [(Hi' & Ho)|(a' & pc' & n & d' & Hq & HS' & Hrec)].
      + inversion Ho; subst.
        exists 1%nat, pc, a, d, [], [].
        split.
        * apply st_halt. destruct HF as (HC & _). rewrite HC.
          pose proof (CM _ _ Hi) as HM. destruct Hi' as [->| ->]; exact HM.
        * split; [exact HS|]. split; [reflexivity|]. split; [rewrite app_nil_r; reflexivity | constructor].
      + destruct (IH _ _ _ _ _ _ _ _ HS' Hrec) as (n2 & pcf & a2 & d2 & stops2 & delta2 & Hst2 & HS2 & Hvs & Htr & Hag).
        exists (n + n2)%nat, pcf, a2, d2, stops2, delta2.
        split; [exact (qrun_st _ _ _ _ _ _ _ Hq Hst2)|].
        split; [exact HS2|]. split; [exact Hvs|]. split; [exact Htr | exact Hag].
  Qed.
End Sim7.
