(* Proofs_Sugar1.v — macro application with only the two standard macros is `desugar` (C04_sugar).
   Helpers: Proofs_Sugar0.v.  Uses the soundness (C09_detect_sound) and completeness (C09_best, C09_none_complete)
   theorems of detection; the detectors' tables are never unfolded in a goal. *)
From Coq Require Import List ZArith NArith Lia Bool Sorting.Sorted.
From Theo Require Import Base Regex Tokens Errors Lexer Scan MacroExtract Grammar LR Gen_MacroGrammar MacroApply Parser VMModel GenModel
                         Compile RefSem Gen_Lexer Gen_Consts SpecMacro CompileStatements ApplyStatements MacroStatements
                         ApplyCompleteStatements LocErrStatements AcceptStatements SugarStatements
                         Proofs_Macro Proofs_Apply0 Proofs_Apply Proofs_ApplyComplete Proofs_Loc Proofs_Sugar0.
Import ListNotations.
Local Open Scope Z_scope.

(* ================================================================================================ *)
(* 1. the two standard macros and their detectors, by computation                                     *)
(* ================================================================================================ *)
Definition m_plus : macrodef := Eval vm_compute in nth 0 std_macros (mkMacro 0 [] [] [] []).
Definition m_minus : macrodef := Eval vm_compute in nth 1 std_macros (mkMacro 0 [] [] [] []).

Lemma std_macros_eq : std_macros = [m_plus; m_minus].
Proof. vm_compute. reflexivity. Qed.

Definition d_plus : detector :=
  Eval vm_compute in match make_detector m_plus with Ok d => d | _ => mkDet m_plus (mkTab [] []) [] end.
Definition d_minus : detector :=
  Eval vm_compute in match make_detector m_minus with Ok d => d | _ => mkDet m_minus (mkTab [] []) [] end.

Lemma make_plus : make_detector m_plus = Ok d_plus.
Proof. vm_compute. reflexivity. Qed.
Lemma make_minus : make_detector m_minus = Ok d_minus.
Proof. vm_compute. reflexivity. Qed.
Lemma d_plus_macro : d_macro d_plus = m_plus.
Proof. vm_compute. reflexivity. Qed.
Lemma d_minus_macro : d_macro d_minus = m_minus.
Proof. vm_compute. reflexivity. Qed.

Definition sbins : list (Z * list detector) := [(1000000, [d_plus; d_minus])].

(* both detectors are usable (no error) and share one priority bin *)
Lemma prepare_std : prepare std_macros = Ok ([], sbins).
Proof. vm_compute. reflexivity. Qed.

Global Opaque d_plus d_minus.

Lemma macro_for_eq op : macro_for op =
  if str_eqb plus_text op then Some m_plus else if str_eqb minus_text op then Some m_minus else None.
Proof. unfold macro_for. rewrite std_macros_eq. reflexivity. Qed.

Lemma repl_plus a b c r pass : r_matched r = [[a]; [b]; [c]] ->
  get_replacement m_plus r pass = Ok (sugar_body m_plus a c).
Proof. unfold get_replacement. intros ->. vm_compute. reflexivity. Qed.
Lemma repl_minus a b c r pass : r_matched r = [[a]; [b]; [c]] ->
  get_replacement m_minus r pass = Ok (sugar_body m_minus a c).
Proof. unfold get_replacement. intros ->. vm_compute. reflexivity. Qed.

Lemma plus_ok : macro_ok m_plus.
Proof.
  unfold macro_ok. cbn [m_plus m_rule m_repl m_cc m_tt].
  repeat split; repeat constructor; cbn [tk]; try discriminate; try (vm_compute; intros; discriminate).
Qed.
Lemma minus_ok : macro_ok m_minus.
Proof.
  unfold macro_ok. cbn [m_minus m_rule m_repl m_cc m_tt].
  repeat split; repeat constructor; cbn [tk]; try discriminate; try (vm_compute; intros; discriminate).
Qed.

Lemma std_ok : Forall macro_ok std_macros.
Proof. rewrite std_macros_eq. constructor; [exact plus_ok|]. constructor; [exact minus_ok|constructor]. Qed.

Lemma std_repl_nu : Forall (fun m => no_unknown (m_repl m)) std_macros.
Proof.
  rewrite std_macros_eq. unfold no_unknown. cbn [m_plus m_minus m_repl].
  repeat constructor; cbn [tk]; discriminate.
Qed.

Lemma sbins_gd : bins_gd sbins.
Proof.
  intros p l [E|[]]. inversion E; subst. constructor; [|constructor; [|constructor]].
  - exists m_plus. split; [exact plus_ok|exact make_plus].
  - exists m_minus. split; [exact minus_ok|exact make_minus].
Qed.

Lemma sbins_dok : bins_dok std_macros sbins.
Proof.
  intros p l [E|[]]. inversion E; subst. unfold dok. rewrite std_macros_eq.
  constructor; [|constructor; [|constructor]].
  - rewrite d_plus_macro. left; reflexivity.
  - rewrite d_minus_macro. right; left; reflexivity.
Qed.

(* ================================================================================================ *)
(* 2. facts about the GENERATED detector grammar: <ID> is one ID token, <INT> is one INT token        *)
(*    (everything that depends on the concrete rules of Gen_MacroGrammar.v is in this section,        *)
(*     together with section GeneratedGrammarFacts of Proofs_ApplyComplete.v)                         *)
(* ================================================================================================ *)
Section GeneratedGrammarFacts2.
  Local Open Scope N_scope.

  Lemma derivesL_one_tm g i w : DerivesL g [Tm i] w -> w = [i].
  Proof.
    intros H. inversion H as [|X rest w1 w2 H1 H2]; subst.
    inversion H1; subst. inversion H2; subst. reflexivity.
  Qed.

  Lemma derives_id_inv w : Derives base_grammar (Nt 0) w -> w = [1].
  Proof.
    intros H. inversion H as [|n alt rhs w' HR HL]; subst.
    assert (E : rs_get base_grammar (Nt 0) = [[Tm 1]]) by (vm_compute; reflexivity).
    rewrite E in HR. destruct alt as [|alt]; cbn [nth_error] in HR.
    - inversion HR; subst rhs. eapply derivesL_one_tm; exact HL.
    - destruct alt; discriminate.
  Qed.

  Lemma derives_int_inv w : Derives base_grammar (Nt 1) w -> w = [3].
  Proof.
    intros H. inversion H as [|n alt rhs w' HR HL]; subst.
    assert (E : rs_get base_grammar (Nt 1) = [[Tm 3]]) by (vm_compute; reflexivity).
    rewrite E in HR. destruct alt as [|alt]; cbn [nth_error] in HR.
    - inversion HR; subst rhs. eapply derivesL_one_tm; exact HL.
    - destruct alt; discriminate.
  Qed.
End GeneratedGrammarFacts2.

Lemma kinds_single r n : kinds r = [n] -> exists a, r = [a] /\ tk_num (tk a) = n.
Proof.
  destruct r as [|a [|b r]]; cbn; intros H; inversion H. exists a. split; reflexivity.
Qed.

(* ================================================================================================ *)
(* 3. the declarative reading of an occurrence of a standard macro                                    *)
(* ================================================================================================ *)
Definition smac (m : macrodef) (op : str) : Prop :=
  macro_ok m /\ m_cc m = [1] /\
  exists p0 p1 p2, m_rule m = [p0; p1; p2] /\ tk p0 = ID_TEMP /\ tk p1 = NV_ID /\ ttext p1 = op /\ tk p2 = INT_TEMP.

Lemma smac_plus : smac m_plus plus_text.
Proof.
  split; [exact plus_ok|]. split; [reflexivity|]. do 3 eexists. split; [reflexivity|].
  repeat split; reflexivity.
Qed.
Lemma smac_minus : smac m_minus minus_text.
Proof.
  split; [exact minus_ok|]. split; [reflexivity|]. do 3 eexists. split; [reflexivity|].
  repeat split; reflexivity.
Qed.

Lemma matches_fwd m op parts : smac m op -> matches_parts m parts ->
  exists a b c, parts = [[a]; [b]; [c]] /\ tk a = ID /\ tk b = NV_ID /\ ttext b = op /\ tk c = INT.
Proof.
  intros (MO & ECC & p0 & p1 & p2 & ER & K0 & K1 & T1 & K2) (L & P & C).
  rewrite ER in L, P, C. rewrite ECC in C.
  destruct parts as [|r0 [|r1 [|r2 [|r3 parts]]]]; try discriminate L.
  pose proof (P 0%nat p0 r0 eq_refl eq_refl) as A0. rewrite K0 in A0. cbn [slot_nonterminal] in A0.
  pose proof (P 1%nat p1 r1 eq_refl eq_refl) as A1. rewrite K1 in A1. cbn [slot_nonterminal] in A1.
  pose proof (P 2%nat p2 r2 eq_refl eq_refl) as A2. rewrite K2 in A2. cbn [slot_nonterminal] in A2.
  pose proof (C 1 p1 (or_introl eq_refl) eq_refl) as A3.
  apply derives_id_inv in A0. apply kinds_single in A0. destruct A0 as (a & -> & Ka).
  apply derives_int_inv in A2. apply kinds_single in A2. destruct A2 as (c & -> & Kc).
  destruct A1 as (b & -> & Kb). destruct A3 as (t & Et & Tt).
  change (znth [[a]; [b]; [c]] 1) with (Some [b]) in Et. inversion Et; subst t.
  exists a, b, c. split; [reflexivity|].
  split; [apply tk_num_inj; exact Ka|]. split; [congruence|]. split; [congruence|].
  apply tk_num_inj; exact Kc.
Qed.

Lemma matches_bwd m op a b c : smac m op -> tk a = ID -> tk b = NV_ID -> ttext b = op -> tk c = INT ->
  matches_parts m [[a]; [b]; [c]].
Proof.
  intros (MO & ECC & p0 & p1 & p2 & ER & K0 & K1 & T1 & K2) Ka Kb Tb Kc.
  split; [rewrite ER; reflexivity|]. split.
  - intros i p range Hp Hr. rewrite ER in Hp.
    destruct i as [|[|[|i]]]; cbn [nth_error] in Hp, Hr.
    + inversion Hp; inversion Hr; subst. rewrite K0. cbn [slot_nonterminal].
      unfold kinds, translator. cbn [map]. rewrite Ka. exact d_ID.
    + inversion Hp; inversion Hr; subst. rewrite K1. cbn [slot_nonterminal].
      exists b. split; [reflexivity|congruence].
    + inversion Hp; inversion Hr; subst. rewrite K2. cbn [slot_nonterminal].
      unfold kinds, translator. cbn [map]. rewrite Kc. exact d_INT.
    + destruct i; discriminate.
  - intros c' p Hc Hp. rewrite ECC in Hc. destruct Hc as [<-|[]]. rewrite ER in Hp.
    change (znth [p0; p1; p2] 1) with (Some p1) in Hp. inversion Hp; subst p.
    exists b. split; [reflexivity|congruence].
Qed.

(* what a detection of a standard macro looks like *)
Lemma cand_shape d m op input r : smac m op -> make_detector m = Ok d -> detect d input = Ok (Some r) ->
  exists a b c post, skipn (Z.to_nat (r_location r)) input = a :: b :: c :: post /\ 0 <= r_location r /\
    r_length r = 3 /\ r_matched r = [[a]; [b]; [c]] /\ tk a = ID /\ tk b = NV_ID /\ ttext b = op /\ tk c = INT.
Proof.
  intros SM HM HD. pose proof SM as (MO & _).
  destruct (C09_detect_sound_proof m d input r MO HM HD) as (S1 & S2 & S3 & S4 & S5 & S6 & S7).
  destruct (matches_fwd m op (r_matched r) SM (conj S5 (conj S6 S7))) as (a & b & c & E & Ka & Kb & Tb & Kc).
  rewrite E in S4. cbn [concat app] in S4.
  assert (LN : (Z.to_nat (r_length r) <= length (skipn (Z.to_nat (r_location r)) input))%nat).
  { rewrite skipn_length. unfold zlen in S3. lia. }
  pose proof (firstn_length_le _ LN) as FL. rewrite <- S4 in FL. cbn [length] in FL.
  assert (E3 : r_length r = 3) by lia.
  rewrite E3 in S4. change (Z.to_nat 3) with 3%nat in S4.
  destruct (skipn (Z.to_nat (r_location r)) input) as [|x [|y [|z post]]]; cbn [firstn] in S4; try discriminate S4.
  inversion S4; subst x y z.
  exists a, b, c, post. repeat split; assumption.
Qed.

Lemma skipn_plus {A} : forall m (l : list A) n, skipn (n + m) l = skipn n (skipn m l).
Proof.
  induction m as [|m IH]; intros l n.
  - rewrite Nat.add_0_r. reflexivity.
  - rewrite Nat.add_succ_r. destruct l as [|x l]; cbn [skipn]; [rewrite skipn_nil; reflexivity|apply IH].
Qed.

Lemma skipn_nonempty_le {A} (l : list A) i : skipn i l <> [] -> (i <= length l)%nat.
Proof.
  intros H. destruct (Nat.le_gt_cases i (length l)) as [LE|GT]; [exact LE|].
  exfalso. apply H. apply skipn_all2. lia.
Qed.

(* a use of a sugar macro anywhere in an end-of-file terminated stream is an occurrence of its pattern *)
Lemma sug_occurs input i m' : ends_eof input -> sug (skipn i input) = Some m' ->
  exists d' parts', In d' [d_plus; d_minus] /\ occurs_at (d_macro d') input i parts'.
Proof.
  intros EE H.
  destruct (skipn i input) as [|a [|b [|c rest]]] eqn:ES; cbn [sug] in H; try discriminate H.
  destruct (is_sugar_kinds a b c m' H) as (Ka & Kb & Kc).
  assert (LE : (i <= length input)%nat) by (apply skipn_nonempty_le; rewrite ES; discriminate).
  assert (NR : rest <> []).
  { apply (ends_eof_follow a b c rest); [rewrite <- ES; apply ends_eof_skipn; exact EE|]. rewrite Kc. discriminate. }
  destruct rest as [|tok rest]; [contradiction|].
  unfold is_sugar in H. rewrite Ka, Kb, Kc in H. rewrite macro_for_eq in H.
  destruct (str_eqb plus_text (ttext b)) eqn:E1.
  - apply ap_str_eqb_eq in E1. exists d_plus, [[a]; [b]; [c]]. split; [left; reflexivity|].
    rewrite d_plus_macro. split; [apply (matches_bwd m_plus plus_text); auto; exact smac_plus|].
    split; [exact LE|]. exists tok, rest. rewrite ES. reflexivity.
  - destruct (str_eqb minus_text (ttext b)) eqn:E2; [|discriminate H].
    apply ap_str_eqb_eq in E2. exists d_minus, [[a]; [b]; [c]]. split; [right; left; reflexivity|].
    rewrite d_minus_macro. split; [apply (matches_bwd m_minus minus_text); auto; exact smac_minus|].
    split; [exact LE|]. exists tok, rest. rewrite ES. reflexivity.
Qed.

Lemma is_sugar_macro a b c m : is_sugar a b c = Some m -> m = m_plus \/ m = m_minus.
Proof.
  intros H. destruct (is_sugar_kinds a b c m H) as (Ka & Kb & Kc).
  unfold is_sugar in H. rewrite Ka, Kb, Kc in H. rewrite macro_for_eq in H.
  destruct (str_eqb plus_text (ttext b)); [left; congruence|].
  destruct (str_eqb minus_text (ttext b)); [right; congruence|discriminate H].
Qed.

(* ================================================================================================ *)
(* 4. one rewriting step                                                                              *)
(* ================================================================================================ *)
Lemma step_some input pass out : no_unknown input -> eof_terminated input ->
  try_bins false sbins input pass = Ok (Some out) ->
  exists pre a b c post m, input = pre ++ a :: b :: c :: post /\ is_sugar a b c = Some m /\
     nosug_prefix pre (a :: b :: c :: post) /\ out = pre ++ sugar_body m a c ++ post.
Proof.
  intros NU ET H.
  destruct (C09_best_proof std_macros [] sbins input pass out std_ok prepare_std NU H) as (cd & REP & RW & BEST).
  destruct REP as (p & ds & INB & IND & DET).
  destruct INB as [E|[]]. inversion E; subst p ds. clear E.
  assert (SH : exists m op, smac m op /\ make_detector m = Ok (fst cd) /\ d_macro (fst cd) = m /\
                 macro_for op = Some m /\ m_priority m = 1000000 /\
                 (forall a b c0 r ps, r_matched r = [[a]; [b]; [c0]] ->
                                      get_replacement m r ps = Ok (sugar_body m a c0))).
  { destruct IND as [E|[E|[]]]; rewrite <- E.
    - exists m_plus, plus_text. split; [exact smac_plus|]. split; [exact make_plus|]. split; [exact d_plus_macro|].
      split; [rewrite macro_for_eq; reflexivity|]. split; [reflexivity|]. intros; apply (repl_plus a b c0); assumption.
    - exists m_minus, minus_text. split; [exact smac_minus|]. split; [exact make_minus|]. split; [exact d_minus_macro|].
      split; [rewrite macro_for_eq; reflexivity|]. split; [reflexivity|]. intros; apply (repl_minus a b c0); assumption. }
  destruct SH as (m & op & SM & HM & DM & MF & PR & RP).
  destruct (cand_shape _ m op input (snd cd) SM HM DET) as (a & b & c0 & post & ES & L0 & LEN & MT & Ka & Kb & Tb & Kc).
  destruct RW as (repl & GR & _ & _ & BND & OUT).
  rewrite DM in GR. rewrite (RP a b c0 (snd cd) pass MT) in GR. inversion GR; subst repl. clear GR.
  unfold loc, len in *.
  exists (firstn (Z.to_nat (r_location (snd cd))) input), a, b, c0, post, m.
  split. { rewrite <- ES. symmetry. apply firstn_skipn. }
  split. { unfold is_sugar. rewrite Ka, Kb, Kc, Tb. exact MF. }
  split.
  { rewrite <- ES. apply nosug_prefix_index. intros i Hi. rewrite firstn_skipn.
    destruct (sug (skipn i input)) as [m'|] eqn:SG; [exfalso|reflexivity].
    destruct (sug_occurs input i m' (eofterm_ends _ ET) SG) as (d' & parts' & ID' & OC).
    specialize (BEST 1000000 [d_plus; d_minus] d' i parts' (or_introl eq_refl) ID' OC).
    unfold prio in BEST. rewrite DM, PR in BEST.
    rewrite firstn_length in Hi. lia. }
  rewrite OUT. f_equal. f_equal. rewrite LEN.
  replace (Z.to_nat (r_location (snd cd) + 3)) with (3 + Z.to_nat (r_location (snd cd)))%nat by lia.
  rewrite skipn_plus. rewrite ES. reflexivity.
Qed.

Lemma step_none input pass : no_unknown input -> eof_terminated input ->
  try_bins false sbins input pass = Ok None -> nosug_prefix input [].
Proof.
  intros NU ET H. apply nosug_prefix_index. intros i _. rewrite app_nil_r.
  destruct (sug (skipn i input)) as [m'|] eqn:SG; [exfalso|reflexivity].
  destruct (sug_occurs input i m' (eofterm_ends _ ET) SG) as (d' & parts' & ID' & OC).
  exact (C09_none_complete_proof std_macros [] sbins input pass std_ok prepare_std NU H
           1000000 [d_plus; d_minus] d' i parts' (or_introl eq_refl) ID' OC).
Qed.

(* ================================================================================================ *)
(* 5. the body of a standard macro contains and creates no new use                                    *)
(* ================================================================================================ *)
Lemma body_shape m a c : m = m_plus \/ m = m_minus ->
  exists t1 t2 rest, sugar_body m a c = t1 :: t2 :: rest /\ tk t1 = RUN /\ tk t2 = ID.
Proof.
  intros [->| ->]; do 3 eexists; (split; [lazy; reflexivity|split; reflexivity]).
Qed.

Ltac inert_tac Ka Kc :=
  first [ apply is_sugar_a_not; cbn [tk]; try rewrite Ka; try rewrite Kc; discriminate
        | apply is_sugar_b_not; cbn [tk]; try rewrite Ka; try rewrite Kc; discriminate
        | apply is_sugar_c_not; cbn [tk]; try rewrite Ka; try rewrite Kc; discriminate ].

Lemma body_nosug m a c post : m = m_plus \/ m = m_minus -> tk a = ID -> tk c = INT ->
  nosug_prefix (sugar_body m a c) post.
Proof.
  intros [->| ->] Ka Kc.
  - let t := eval lazy in (sugar_body m_plus a c) in change (sugar_body m_plus a c) with t.
    destruct post as [|x [|y post]]; cbn [nosug_prefix app sug]; repeat split; try reflexivity; inert_tac Ka Kc.
  - let t := eval lazy in (sugar_body m_minus a c) in change (sugar_body m_minus a c) with t.
    destruct post as [|x [|y post]]; cbn [nosug_prefix app sug]; repeat split; try reflexivity; inert_tac Ka Kc.
Qed.

Lemma step_desugar pre a b c post m : is_sugar a b c = Some m -> nosug_prefix pre (a :: b :: c :: post) ->
  desugar (pre ++ sugar_body m a c ++ post) = desugar (pre ++ a :: b :: c :: post) /\
  count_sugar (pre ++ a :: b :: c :: post) = S (count_sugar (pre ++ sugar_body m a c ++ post)).
Proof.
  intros IS NP. pose proof (is_sugar_macro a b c m IS) as MM.
  destruct (is_sugar_kinds a b c m IS) as (Ka & Kb & Kc).
  pose proof (body_nosug m a c post MM Ka Kc) as NB.
  assert (NP' : nosug_prefix pre (sugar_body m a c ++ post)).
  { destruct (body_shape m a c MM) as (t1 & t2 & rest & EB & K1 & K2). rewrite EB. cbn [app].
    eapply nosug_prefix_change; [exact NP| | |]; congruence. }
  split.
  - rewrite (desugar_prefix pre _ NP'), (desugar_prefix _ post NB).
    rewrite (desugar_prefix pre _ NP), (desugar_hit a b c post m IS). reflexivity.
  - rewrite (count_prefix pre _ NP'), (count_prefix _ post NB).
    rewrite (count_prefix pre _ NP), (count_hit a b c post m IS). reflexivity.
Qed.

(* ================================================================================================ *)
(* 6. the pass loop                                                                                   *)
(* ================================================================================================ *)
Lemma pass_loop_sugar : forall n input pass out ch, eof_terminated input -> no_unknown input ->
  pass_loop false n sbins input pass = Ok (out, ch) -> (count_sugar input < n)%nat ->
  ch = false /\ out = desugar input.
Proof.
  induction n as [|k IH]; intros input pass out ch ET NU H LT; [lia|].
  rewrite pass_loop_S in H. sbi H r Hr. destruct r as [mid|].
  - destruct (step_some input pass mid NU ET Hr) as (pre & a & b & c & post & m & EI & IS & NP & EO).
    destruct (step_desugar pre a b c post m IS NP) as [D C]. rewrite <- EI, <- EO in D, C.
    destruct k as [|k']; [lia|].
    assert (ET' : eof_terminated mid).
    { destruct (try_bins_total sbins input pass sbins_gd ET) as [E|[E|(o & E & ET')]];
        rewrite E in Hr; try discriminate Hr. inversion Hr; subst o. exact ET'. }
    pose proof (try_bins_nu std_macros std_repl_nu sbins input pass mid sbins_dok NU Hr) as NU'.
    assert (LT' : (count_sugar mid < S k')%nat) by lia.
    destruct (IH mid (pass + 1) out ch ET' NU' H LT') as [E1 E2].
    split; [exact E1|]. rewrite E2. exact D.
  - inversion H; subst. split; [reflexivity|].
    destruct (desugar_none out (step_none out pass NU ET Hr)) as [E _]. symmetry. exact E.
Qed.

Lemma sugar_apply : C04_sugar_stmt.
Proof.
  intros input passes errs out ET NU H LT.
  apply apply_macros_inv in H. destruct H as (ds & errs0 & us & changed & Hds & Hsu & Hpl & ->).
  pose proof prepare_std as P. apply prepare_inv in P. destruct P as (ds' & us' & Hds' & Hsu' & EB).
  rewrite Hds in Hds'. inversion Hds'; subst ds'. rewrite Hsu in Hsu'. inversion Hsu'; subst errs0 us'.
  rewrite <- EB in Hpl.
  destruct (pass_loop_sugar passes input 0 out changed ET NU Hpl LT) as [-> ->].
  split; reflexivity.
Qed.
