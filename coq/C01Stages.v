(* C01Stages.v — compile correctness by fragments of the language (statements; DESIGN.md C01).
   Every stage has the same conclusion: if the CHECKED reference run of the flattened source ends with views V,
   then the compiled program, run on the VM, halts with the same user-variable views, after at least as many
   instructions as reference steps.  The stages differ in which trees they cover. *)
From Theo Require Import Base Tokens Errors MacroExtract Parser VMModel VMSpec GenModel Compile RefSem RefSemChk C01Statements Gen_Consts.
Local Open Scope Z_scope.

(* ---- side conditions that hold for every source a user can write in the canonical layout ---- *)
(* identifiers contain no blank: they can never be "Temporary Variable" or a "Loop Variable ..." counter name *)
Definition lexable (tok : str) : bool := forallb (fun c => negb (N.eqb c 32)) tok.
Fixpoint lexable_names (n : node) : bool :=
  match n with
  | Node t _ _ tok l r =>
      (match t with N_NAME => lexable tok | _ => true end)
      && (match l with Some x => lexable_names x | None => true end)
      && (match r with Some x => lexable_names x | None => true end)
  end.

(* every node of a value stands on the line of its statement (or in the hidden macro file): no line change, hence no
   breakpoint site, in the middle of an expression *)
Fixpoint on_line (f : str) (l : Z) (n : node) : bool :=
  match n with
  | Node _ line file _ a b =>
      (str_eqb file hidden_file || (str_eqb file f && (line =? l)))
      && (match a with Some x => on_line f l x | None => true end)
      && (match b with Some x => on_line f l x | None => true end)
  end.
Definition value_on_line (stmt : node) (v : option node) : bool :=
  match v with Some x => on_line (n_file stmt) (n_line stmt) x | None => true end.

(* ---- stage 2: assignments of simple values, LOOP and WHILE, arbitrarily nested; one routine (the main program) ---- *)
Fixpoint structured (n : node) : bool :=
  match n with
  | Node N_SPLIT _ _ _ (Some (Node N_ASSIGN al af _ (Some tgt) (Some v))) rest =>
      is_name tgt && simple_value v && on_line af al v && on_line af al tgt
      && match rest with None => true | Some r => structured r end
  | Node N_SPLIT _ _ _ (Some (Node N_SPLIT _ _ _ (Some (Node N_LOOP ll lf _ (Some bound) (Some body)))
                                                   (Some (Node N_MARK _ _ _ (Some (Node N_NAME _ _ _ None None)) None)))) rest =>
      is_name bound && on_line lf ll bound && structured body
      && match rest with None => true | Some r => structured r end
  | Node N_SPLIT _ _ _ (Some (Node N_SPLIT _ _ _ (Some (Node N_WHILE wl wf _ (Some cond) (Some body)))
                                                   (Some (Node N_MARK _ _ _ (Some (Node N_NAME _ _ _ None None)) None)))) rest =>
      is_name cond && on_line wf wl cond && structured body
      && match rest with None => true | Some r => structured r end
  | _ => false
  end.

(* the VM's views agree with the reference views: same routine names, same values of the user variables
   (the VM additionally lists its hidden loop counters, whose names contain blanks) *)
Definition user_name (x : str) : bool := lexable x.
Definition view_agrees (vmv : str * list (str * Z)) (rv : str * list (str * Z)) : Prop :=
  fst vmv = fst rv /\
  same_values (filter (fun e => user_name (fst e)) (snd vmv)) (snd rv).

Definition sim_conclusion (r : genresult) (rviews : rviews) (steps : nat) : Prop :=
  exists k s vmviews,
    vm_run k (init (gr_prog r)) = Ok s /\ isDone s = Ok true /\
    views s = Ok vmviews /\ Forall2 view_agrees vmviews rviews /\ (steps <= k)%nat.

Definition C01_structured_stmt : Prop :=
  forall root r rs fuel rviews steps trace,
    structured root = true -> lexable_names root = true ->
    gen true [] (Some root) = Ok r -> gr_ok r = true ->
    abstract_source (Some root) = Some rs ->
    run_ref_chk fuel rs = OStop rviews steps trace ->
    sim_conclusion r rviews steps.

(* the checked run is the reference run *)
Definition C01_chk_is_run_stmt : Prop :=
  forall rs fuel ctx k a pc steps trace o,
    run_chk rs fuel ctx k a pc steps trace = o -> o <> OBad -> run rs fuel ctx k a pc steps trace = o.
