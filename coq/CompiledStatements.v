(* CompiledStatements.v — the VM properties stated end to end: for every program the compiler emits (from any file
   map), for every history of API calls.  Pure compositions of the VM theorems (which have hypotheses about the program:
   tables_ok, no_break, counts_ok, consts_in_range, verified) with the generator theorems that discharge them. *)
From Theo Require Import Base Regex Tokens Errors Lexer Scan MacroExtract Grammar LR MacroApply Parser VMModel VMSpec VMStatements
                         VMCheck VMCheckStatements GenModel Compile Gen_Lexer Gen_Consts CompileStatements.
Local Open Scope Z_scope.

(* C05: after any history the machine is at a point of the uninterrupted run; at the end all values are the same *)
Definition C05_compiled_stmt : Prop :=
  forall files main c h fuel s,
    compile files main = Ok c -> run_hist fuel h (init (cr_prog c)) = Ok s ->
    (exists n, vm_run n (init (cr_prog c)) = Ok (strip s)) /\
    (isDone s = Ok true ->
       forall m s0, vm_run m (init (cr_prog c)) = Ok s0 -> isDone s0 = Ok true ->
         views s0 = views s /\ data s0 = data s /\ stack s0 = stack s /\ ip s0 = ip s).

(* C06: requests succeed exactly for available locations; the enabled set is the fold of the successful requests;
   before the start no location is reported *)
Definition C06_compiled_stmt : Prop :=
  forall files main c,
    compile files main = Ok c ->
    getCurrentBreak (init (cr_prog c)) = None /\
    forall h fuel s, run_hist fuel h (init (cr_prog c)) = Ok s ->
      (forall b, smem bp_ltb (enabled s) b = req_fold (cr_prog c) h b) /\
      (forall f l v, exists s' r, setBreakPoint s f l v = Ok (s', r) /\
                                  (r = true <-> alookup bp_ltb (potential_breaks (cr_prog c)) (mkBP f l) <> None)) /\
      (forall s' b, exec1 s = Ok (s', b) -> (b = true <-> (stop_site s (ip s) \/ halt_at s (ip s)))).

(* C17: reset gives back the freshly constructed machine, as a whole record, and the future is the same *)
Definition C17_compiled_stmt : Prop :=
  forall files main c h fuel s,
    compile files main = Ok c -> run_hist fuel h (init (cr_prog c)) = Ok s ->
    reset s = Ok (init (cr_prog c)) /\
    forall h', run_hist fuel (AReset :: h') s = run_hist fuel h' (init (cr_prog c)).

(* C19: data memory is exactly the frames of the live activations — for every successfully compiled program *)
Definition C19_compiled_stmt : Prop :=
  forall files main c h fuel s,
    compile files main = Ok c -> cr_ok c = true -> run_hist fuel h (init (cr_prog c)) = Ok s ->
    tiled (stack s) (zlen (data s)) /\
    zlen (data s) = sum_sizes (stack s) /\
    zlen (data s) <= zlen (stack s) * max_frame (cr_prog c).

(* C20: every stored value is a word, after any history *)
Definition C20_compiled_stmt : Prop :=
  forall files main c h fuel s,
    compile files main = Ok c -> cr_ok c = true -> run_hist fuel h (init (cr_prog c)) = Ok s ->
    Forall word_ok (data s).

(* C03: no history of a successfully compiled program is undefined: it is out of the model's fuel or it ends in a
   state whose observations are defined; uninterrupted runs of any length are defined and the stack is bounded *)
Definition C03_compiled_stmt : Prop :=
  forall files main c,
    compile files main = Ok c -> cr_ok c = true ->
    (forall h fuel,
       run_hist fuel h (init (cr_prog c)) = Fuel \/
       exists s, run_hist fuel h (init (cr_prog c)) = Ok s /\ (exists b, isDone s = Ok b) /\ (exists v, views s = Ok v)) /\
    (forall k, exists s, vm_run k (init (cr_prog c)) = Ok s /\
                         zlen (stack s) <= zlen (exec_targets (cr_prog c)) + 1).
