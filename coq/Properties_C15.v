(* Properties_C15.v — the theorems that decide property C15 on the model, each stated in full and closed by
   `exact <lemma>`; the lemmas live in the Proofs_*.v files.  Nothing else belongs in this file. *)
From Theo Require Import Base Regex Tokens Lexer Errors Scan SpecLex Gen_Lexer LexStatements Proofs_Lexer Proofs_Scan RequestsStatements MacroExtract Grammar LR MacroApply Parser VMModel GenModel Compile Gen_Consts LocErrStatements Proofs_Requests.
Local Open Scope nat_scope.


Theorem C15_terminates :
  forall rules files main, exists r, scan rules files main = Ok r.
Proof. exact C15_terminates_proof. Qed.
Print Assumptions C15_terminates.

Theorem C15_missing_sound :
  forall rules files main toks errs, scan rules files main = Ok (toks, errs) ->
    forall e, In e errs ->
      (pe_kind e = e_file_not_found -> fcontains files (pe_request e) = false) /\
      (pe_kind e = e_main_not_found -> pe_request e = main /\ fcontains files main = false).
Proof. exact C15_missing_sound_proof. Qed.
Print Assumptions C15_missing_sound.

Theorem C15_no_include :
  forall rules files main c, flookup files main = Some c ->
    Forall (fun t => fst (fst t) <> INCLUDE /\ fst (fst t) <> UNKNOWN) (lex rules c) ->
    exists toks, scan rules files main = Ok (toks, []).
Proof. exact C15_no_include_proof. Qed.
Print Assumptions C15_no_include.

Theorem C15_scan_is_splice :
  forall rules files,
  (forall fuel s line k text l' rest,
      next_token fuel rules s line = Some (k, text, l', rest) -> tk_eqb k UNKNOWN = false) ->
  forall d active fn c, flookup files fn = Some c ->
    scan_file rules d files active fn c = splice rules files d active fn.
Proof. exact scan_file_splice. Qed.
Print Assumptions C15_scan_is_splice.

Theorem C15_compiled_requests :
  forall files main c, compile files main = Ok c ->
    exists toks serrs,
      scan Gen_Lexer.rules (seen_files files main) main = Ok (toks, serrs) /\
      cr_requests c = map pe_request (filter is_request serrs) /\
      (forall n, In n (cr_requests c) -> fcontains (seen_files files main) n = false).
Proof. exact C15_compiled_requests_proof. Qed.
Print Assumptions C15_compiled_requests.
