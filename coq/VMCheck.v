(* VMCheck.v — executable checkers on programs used by C03 and C16:
   wf_program   : the structural validity of emitted bytecode (a bytecode verifier: every reachable
                  instruction gets an annotation (routine, frame size, pending call) and every
                  instruction is checked locally against it), and
   acyclic_calls: routines only call routines with a smaller entry address.
   Definitions only; soundness (wf_program p -> the VM never performs an undefined access) is
   Proofs_VMCheck.v. *)
From Theo Require Import Base VMModel VMSpec.
Local Open Scope Z_scope.

(* annotation of a program point: the routine it belongs to (its entry address, 0 for the root),
   the size of the frame the code runs in, and - between PREPARE_EXEC and EXEC - the frame size of the
   callee being prepared *)
Record annot := mkAnn { a_rid : Z; a_frame : Z; a_pending : option Z }.

Definition opt_z_eqb (a b : option Z) : bool :=
  match a, b with
  | None, None => true
  | Some x, Some y => x =? y
  | _, _ => false
  end.
Definition annot_eqb (a b : annot) : bool :=
  (a_rid a =? a_rid b) && (a_frame a =? a_frame b) && opt_z_eqb (a_pending a) (a_pending b).

Definition in_frame (r f : Z) : bool := (0 <=? r) && (r <? f).

(* the stack map a PREPARE_EXEC names exists and maps only registers of the new frame *)
Definition map_ok (p : program) (idx count : Z) : bool :=
  match znth (stack_maps p) idx with
  | Some sm => forallb (fun e => in_frame (fst e) count) (smap sm)
  | None => false
  end.

(* operands legal under the annotation *)
Definition instr_ok (p : program) (a : annot) (i : instr) : bool :=
  match a_pending a, iop i with
  | Some c, ARG => in_frame (ia i) c && in_frame (ib i) (a_frame a)
  | Some c, EXEC => true
  | Some _, _ => false
  | None, POTENTIAL_BREAK | None, BREAK | None, HALT | None, JMP => true
  | None, ADD_CONST => in_frame (ia i) (a_frame a) && in_frame (ib i) (a_frame a)
  | None, TEST => in_frame (ia i) (a_frame a) && in_frame (ib i) (a_frame a) && in_frame (ic i) (a_frame a)
  | None, CONST => in_frame (ia i) (a_frame a)
  | None, JMPC => in_frame (ib i) (a_frame a)
  | None, PREPARE_EXEC => (0 <=? ia i) && map_ok p (ib i) (ia i) && in_frame (ic i) (a_frame a)
  | None, RET => in_frame (ia i) (a_frame a) && negb (a_rid a =? 0)
  | None, ARG | None, EXEC => false
  end.

(* successors of pc with the annotation each must carry *)
Definition successors (pc : Z) (a : annot) (i : instr) : list (Z * annot) :=
  match iop i with
  | POTENTIAL_BREAK | BREAK | ADD_CONST | TEST | CONST | ARG => [(pc + 1, a)]
  | HALT | RET => []
  | JMP => [(pc + ia i, a)]
  | JMPC => [(pc + ia i, a); (pc + 1, a)]
  | PREPARE_EXEC => [(pc + 1, mkAnn (a_rid a) (a_frame a) (Some (ia i)))]
  | EXEC =>
      match a_pending a with
      | Some c => [(ia i, mkAnn (ia i) c None); (pc + 1, mkAnn (a_rid a) (a_frame a) None)]
      | None => []
      end
  end.

Definition anns := list (option annot).

(* worklist propagation; None = inconsistent (two different annotations for one point, or a point outside the code) *)
Fixpoint propagate (fuel : nat) (p : program) (work : list (Z * annot)) (ann : anns) : option anns :=
  match fuel with
  | O => None
  | S f =>
      match work with
      | [] => Some ann
      | (pc, a) :: rest =>
          if pc <=? 0 then None else
          match znth ann pc with
          | None => None
          | Some (Some a') => if annot_eqb a a' then propagate f p rest ann else None
          | Some None =>
              match znth (code p) pc, zupd ann pc (Some a) with
              | Some i, Some ann' => propagate f p (successors pc a i ++ rest) ann'
              | _, _ => None
              end
          end
      end
  end.

(* instruction 0 creates the root frame *)
Definition root_ok (p : program) : option Z :=
  match code p with
  | i :: _ =>
      match iop i with
      | PREPARE_EXEC => if (0 <=? ia i) && map_ok p (ib i) (ia i) then Some (ia i) else None
      | _ => None
      end
  | [] => None
  end.

Definition infer (p : program) : option anns :=
  match root_ok p with
  | Some f =>
      let n := length (code p) in
      propagate (4 * n + 8) p [(1, mkAnn 0 f None)] (zrepeat None n)
  | None => None
  end.

Definition ann_at (ann : anns) (pc : Z) : option annot :=
  match znth ann pc with Some (Some a) => Some a | _ => None end.

(* every annotated instruction is legal and each of its successors carries the prescribed annotation *)
Fixpoint check_from (p : program) (ann : anns) (pc : Z) (c : list instr) (l : anns) : bool :=
  match c, l with
  | i :: c', Some a :: l' =>
      instr_ok p a i &&
      forallb (fun s => (0 <? fst s) &&
                        match ann_at ann (fst s) with Some a' => annot_eqb (snd s) a' | None => false end)
              (successors pc a i) &&
      check_from p ann (pc + 1) c' l'
  | _ :: c', None :: l' => check_from p ann (pc + 1) c' l'
  | [], [] => true
  | _, _ => false
  end.

Definition check_local (p : program) (ann : anns) : bool :=
  match root_ok p with
  | Some f =>
      match ann_at ann 1, znth ann 0 with
      | Some a, Some None => annot_eqb a (mkAnn 0 f None) && check_from p ann 0 (code p) ann
      | _, _ => false
      end
  | None => false
  end.

Definition wf_program (p : program) : bool :=
  match infer p with
  | Some ann => check_local p ann
  | None => false
  end.

(* the program ends in HALT (the generator's last instruction) *)
Definition ends_in_halt (p : program) : bool :=
  match rev (code p) with i :: _ => opcode_eqb (iop i) HALT | [] => false end.

(* C16: inside routine e (entry address e > 0) every EXEC enters a routine with a smaller entry;
   the root (rid 0) may call any routine *)
Fixpoint acyclic_from (ann : anns) (c : list instr) (l : anns) : bool :=
  match c, l with
  | i :: c', Some a :: l' =>
      (match iop i with
       | EXEC => (a_rid a =? 0) || (ia i <? a_rid a)
       | _ => true
       end) && acyclic_from ann c' l'
  | _ :: c', None :: l' => acyclic_from ann c' l'
  | _, _ => true
  end.
Definition acyclic_calls (p : program) : bool :=
  match infer p with
  | Some ann => acyclic_from ann (code p) ann
  | None => false
  end.

(* number of routines = number of distinct EXEC targets *)
Definition exec_targets (p : program) : list Z :=
  fold_right (fun i acc => match iop i with EXEC => if zmem (ia i) acc then acc else ia i :: acc | _ => acc end) [] (code p).
