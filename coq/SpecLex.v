(* SpecLex.v — specification side of the scanner properties (C14, C15): what it means for a regular
   expression to match, maximal munch, the tokenisation of a string, the documented token table,
   and the splice of per-file token lists at include directives.  Meant to be read; no proofs. *)
From Theo Require Import Base Regex Tokens Lexer Errors Scan.
Local Open Scope nat_scope.

(* ---- what a pattern matches -------------------------------------------------------------------- *)
Inductive Matches : regex -> list N -> Prop :=
| M_Eps : Matches Eps []
| M_Chr : forall c, Matches (Chr c) [c]
| M_Rng : forall neg rs c, cmatch neg rs c = true -> Matches (Rng neg rs) [c]
| M_Cat : forall a b s t, Matches a s -> Matches b t -> Matches (Cat a b) (s ++ t)
| M_AltL : forall a b s, Matches a s -> Matches (Alt a b) s
| M_AltR : forall a b s, Matches b s -> Matches (Alt a b) s
| M_Star0 : forall a, Matches (Star a) []
| M_StarS : forall a s t, Matches a s -> Matches (Star a) t -> Matches (Star a) (s ++ t).

(* ---- maximal munch ------------------------------------------------------------------------------ *)
(* rule i matches the first len > 0 bytes of s; no rule matches a longer prefix; no earlier rule
   matches that prefix *)
Definition MaxMunch (rules : list rule) (s : list N) (len i : nat) : Prop :=
  0 < len <= length s /\
  (exists r a, nth_error rules i = Some (r, a) /\ Matches r (firstn len s)) /\
  (forall j r a len', nth_error rules j = Some (r, a) -> len' <= length s ->
                      Matches r (firstn len' s) -> len' <= len) /\
  (forall j r a, j < i -> nth_error rules j = Some (r, a) -> ~ Matches r (firstn len s)).

Definition NoMatch (rules : list rule) (s : list N) : Prop :=
  forall j r a len, nth_error rules j = Some (r, a) -> 0 < len <= length s -> ~ Matches r (firstn len s).

(* some rule matches every single byte (the `.|\n` rule of lexer.l) *)
Definition catch_all (rules : list rule) : Prop :=
  forall c, exists j r a, nth_error rules j = Some (r, a) /\ Matches r [c].

(* the tokenisation of s starting on line `line`: every lexeme is the maximal munch of the rest of
   the text; action-less lexemes emit nothing; an emitted token carries its text and the line on
   which it ends (line + newlines in everything consumed up to its end) *)
Inductive Tokenisation (rules : list rule) : list N -> Z -> list (tkind * list N * Z) -> Prop :=
| Tok_end : forall line, Tokenisation rules [] line []
| Tok_skip : forall s line len i r out,
    s <> [] -> MaxMunch rules s len i -> nth_error rules i = Some (r, None) ->
    Tokenisation rules (skipn len s) (line + count_nl (firstn len s))%Z out ->
    Tokenisation rules s line out
| Tok_emit : forall s line len i r k out,
    s <> [] -> MaxMunch rules s len i -> nth_error rules i = Some (r, Some k) ->
    Tokenisation rules (skipn len s) (line + count_nl (firstn len s))%Z out ->
    Tokenisation rules s line ((k, firstn len s, (line + count_nl (firstn len s))%Z) :: out).

(* ---- finite languages (keyword rules) ------------------------------------------------------------ *)
Fixpoint star_free (r : regex) : bool :=
  match r with
  | Star _ => false | Rng _ _ => false
  | Cat a b | Alt a b => star_free a && star_free b
  | _ => true
  end.
(* all words of a star-free, class-free pattern *)
Fixpoint lang (r : regex) : list (list N) :=
  match r with
  | Empty => [] | Eps => [[]] | Chr c => [[c]]
  | Cat a b => flat_map (fun s => map (fun t => s ++ t) (lang b)) (lang a)
  | Alt a b => lang a ++ lang b
  | _ => []
  end.

Fixpoint regex_eqb (a b : regex) : bool :=
  match a, b with
  | Empty, Empty | Eps, Eps => true
  | Chr c, Chr d => N.eqb c d
  | Rng n rs, Rng n' rs' =>
      Bool.eqb n n' && (Nat.eqb (length rs) (length rs')) &&
      forallb (fun p => N.eqb (fst (fst p)) (fst (snd p)) && N.eqb (snd (fst p)) (snd (snd p))) (combine rs rs')
  | Cat a1 a2, Cat b1 b2 | Alt a1 a2, Alt b1 b2 => regex_eqb a1 b1 && regex_eqb a2 b2
  | Star a1, Star b1 => regex_eqb a1 b1
  | _, _ => false
  end.

Definition word_in (w : list N) (l : list (list N)) : bool := existsb (str_eqb w) l.
Definition same_words (l1 l2 : list (list N)) : bool :=
  forallb (fun w => word_in w l2) l1 && forallb (fun w => word_in w l1) l2.

Definition action_eqb (a b : option tkind) : bool :=
  match a, b with
  | None, None => true
  | Some x, Some y => tk_eqb x y
  | _, _ => false
  end.

(* two rules agree: same action, and same language — structurally, or, for finite patterns, as word sets *)
Definition rule_agree (x y : rule) : bool :=
  action_eqb (snd x) (snd y) &&
  (regex_eqb (fst x) (fst y) ||
   (star_free (fst x) && star_free (fst y) && same_words (lang (fst x)) (lang (fst y)))).

Fixpoint rules_agree (l1 l2 : list rule) : bool :=
  match l1, l2 with
  | [], [] => true
  | x :: t1, y :: t2 => rule_agree x y && rules_agree t1 t2
  | _, _ => false
  end.

(* ---- the documented token table -------------------------------------------------------------------- *)
(* the vocabulary of the language, as documented by the scanner specification: per token kind the
   keyword spellings, or the shape of an open class.  Written by hand; the rule list translated
   from lexer.l on every run (Gen_Lexer.rules) must agree with it rule by rule, in this order. *)
Local Open Scope N_scope.
Definition s_ (l : list N) := l.
Fixpoint kw (spellings : list (list N)) : regex :=
  match spellings with
  | [] => Empty
  | [w] => Lit w
  | w :: t => Alt (Lit w) (kw t)
  end.

Definition letter : list (N * N) := [(97, 122); (65, 90); (95, 95)].                 (* a-z A-Z _ *)
Definition alnum : list (N * N) := [(97, 122); (65, 90); (48, 57); (95, 95)].       (* a-z A-Z 0-9 _ *)
Definition re_id : regex := Cat (Rng false letter) (Star (Rng false alnum)).
Definition re_int : regex := Alt (Chr 48) (Cat (Rng false [(49, 57)]) (Star (Rng false [(48, 57)]))).
Definition re_fname : regex := Cat (Chr 34) (Cat (Star (Rng true [(34, 34)])) (Chr 34)).
Definition re_ws : regex := Plus (Rng false [(32, 32); (9, 9); (10, 10)]).
Definition re_comment : regex := Cat (Chr 47) (Cat (Chr 47) (Star Any)).
Definition re_any : regex := Alt Any (Chr 10).

(* ASCII helpers for readability of the table *)
Definition A_ := 65. Definition B_ := 66. Definition C_ := 67. Definition D_ := 68. Definition E_ := 69.
Definition F_ := 70. Definition G_ := 71. Definition H_ := 72. Definition I_ := 73. Definition L_ := 76.
Definition M_ := 77. Definition N_ := 78. Definition O_ := 79. Definition P_ := 80. Definition R_ := 82.
Definition S_ := 83. Definition T_ := 84. Definition U_ := 85. Definition V_ := 86. Definition W_ := 87.
Definition Y_ := 89.
Definition a_ := 97. Definition b_ := 98. Definition c_ := 99. Definition d_ := 100. Definition e_ := 101.
Definition f_ := 102. Definition g_ := 103. Definition h_ := 104. Definition i_ := 105. Definition l_ := 108.
Definition m_ := 109. Definition n_ := 110. Definition o_ := 111. Definition p_ := 112. Definition r_ := 114.
Definition s__ := 115. Definition t_ := 116. Definition u_ := 117. Definition v_ := 118. Definition w_ := 119.
Definition y_ := 121.
Definition sp := 32. Definition lt := 60. Definition gt := 62.

Definition sp_program : list (list N) :=
  [[P_;R_;O_;G_;R_;A_;M_]; [P_;r_;o_;g_;r_;a_;m_]; [p_;r_;o_;g_;r_;a_;m_]; [P_;R_;O_;G_]; [P_;r_;o_;g_]; [p_;r_;o_;g_]].
Definition sp_value : list (list N) :=
  [[V_;A_;L_;U_;E_]; [V_;a_;l_;u_;e_]; [v_;a_;l_;u_;e_]; [V_;A_;L_]; [V_;a_;l_]; [v_;a_;l_]].
Definition bracket (w : list N) : list N := lt :: w ++ [gt].

Definition spec_rules : list rule := [
  (re_ws, None);
  (Chr 40, Some PAREN_OPEN);
  (Chr 41, Some PAREN_CLOSE);
  (Chr 44, Some ARGSEP);
  (Chr 59, Some PROGSEP);
  (Chr 58, Some LABELDEC);
  (Lit [58; 61], Some ASSIGN);
  (Lit [33; 61; 32; 48], Some NEQ_ZERO);
  (Chr 61, Some EQ);
  (kw [[R_;U_;N_]; [R_;u_;n_]; [r_;u_;n_]], Some RUN);
  (kw [[W_;I_;T_;H_]; [W_;i_;t_;h_]; [w_;i_;t_;h_]], Some WITH);
  (kw [[D_;O_]; [d_;o_]; [D_;o_]], Some DO);
  (kw [[L_;O_;O_;P_]; [L_;o_;o_;p_]; [l_;o_;o_;p_]], Some LOOP);
  (kw [[W_;H_;I_;L_;E_]; [W_;h_;i_;l_;e_]; [w_;h_;i_;l_;e_]], Some WHILE);
  (kw [[G_;O_;T_;O_]; [G_;o_;t_;o_]; [g_;o_;t_;o_]], Some GOTO);
  (kw [[I_;F_]; [I_;f_]; [i_;f_]], Some IF);
  (kw [[T_;H_;E_;N_]; [T_;h_;e_;n_]; [t_;h_;e_;n_]], Some THEN);
  (kw [[S_;T_;O_;P_]; [S_;t_;o_;p_]; [s__;t_;o_;p_]], Some STOP);
  (kw [[E_;N_;D_]; [E_;n_;d_]; [e_;n_;d_]], Some END);
  (kw sp_program, Some PROGRAM);
  (kw [[I_;N_]; [I_;n_]; [i_;n_]], Some IN);
  (kw [[O_;U_;T_]; [O_;u_;t_]; [o_;u_;t_]], Some OUT);
  (kw [[I_;N_;C_;L_;U_;D_;E_]; [I_;n_;c_;l_;u_;d_;e_]; [i_;n_;c_;l_;u_;d_;e_]], Some INCLUDE);
  (re_fname, Some FNAME);
  (kw [[D_;E_;F_;I_;N_;E_]; [D_;e_;f_;i_;n_;e_]; [D_;e_;f_]; [d_;e_;f_;i_;n_;e_]; [d_;e_;f_]], Some DEFINE);
  (kw [[A_;S_]; [A_;s__]; [a_;s__]], Some AS);
  (kw [[P_;R_;I_;O_;R_;I_;T_;Y_]; [P_;r_;i_;o_;r_;i_;t_;y_]; [p_;r_;i_;o_;r_;i_;t_;y_];
       [P_;R_;I_;O_]; [P_;r_;i_;o_]; [p_;r_;i_;o_]], Some PRIORITY);
  (kw [[E_;N_;D_;sp;D_;E_;F_;I_;N_;E_]; [E_;n_;d_;sp;D_;e_;f_;i_;n_;e_]; [e_;n_;d_;sp;d_;e_;f_;i_;n_;e_];
       [E_;N_;D_;D_;E_;F_]; [E_;n_;d_;d_;e_;f_]; [e_;n_;d_;d_;e_;f_]], Some END_DEFINE);
  (kw (map bracket sp_program ++ [[lt;P_;gt]; [lt;p_;gt]]), Some PROG_TEMP);
  (kw (map bracket sp_value ++ [[lt;V_;gt]; [lt;v_;gt]]), Some VALUE_TEMP);
  (kw [[lt;I_;D_;gt]; [lt;i_;d_;gt]], Some ID_TEMP);
  (kw [[lt;I_;N_;T_;gt]; [lt;I_;n_;t_;gt]; [lt;i_;n_;t_;gt]], Some INT_TEMP);
  (Cat (Chr 36) re_int, Some INSERTION);
  (Cat (Chr 35) re_int, Some TEMP_VAL);
  (re_id, Some ID);
  (re_int, Some INT);
  (kw [[lt;A_;R_;G_;S_;gt]; [lt;A_;r_;g_;s__;gt]; [lt;a_;r_;g_;s__;gt]; [lt;A_;gt]; [lt;a_;gt]], Some ARGS_TEMP);
  (re_comment, None);
  (re_any, Some NV_ID)
].

(* ---- include splice (C14 file/line labels, C15) ---------------------------------------------------- *)
Local Open Scope Z_scope.
Section Splice.
  Variable rules : list rule.
  Variable files : files_t.

  (* tokens of one file, lexed on its own *)
  Definition file_tokens (f : str) : list (tkind * list N * Z) :=
    match flookup files f with Some c => lex rules c | None => [] end.

  (* the spliced token stream and the error list of file f, given the files being included (active) *)
  Fixpoint splice (depth : nat) (active : list str) (f : str) : result (list token * list perr) :=
    match depth with
    | O => Fuel
    | S d =>
        (fix go (ts : list (tkind * list N * Z)) : result (list token * list perr) :=
           match ts with
           | [] => Ok ([], [])
           | (INCLUDE, _, l) :: [] => Ok ([], [mkPerr e_expected_filename f l []])
           | (INCLUDE, _, _) :: (FNAME, text, l2) :: rest =>
               let g := strip_quotes text in
               if negb (fcontains files g) then
                 do r <- go rest; Ok (fst r, mkPerr e_file_not_found f l2 g :: snd r)
               else if str_in g active then
                 do r <- go rest; Ok (fst r, mkPerr e_recursive_include f l2 [] :: snd r)
               else
                 do r1 <- splice d (g :: active) g;
                 do r2 <- go rest;
                 Ok (fst r1 ++ fst r2, snd r1 ++ snd r2)
           | (INCLUDE, _, _) :: (_, _, l2) :: rest =>
               do r <- go rest; Ok (fst r, mkPerr e_expected_filename f l2 [] :: snd r)
           | (k, text, l) :: rest =>
               do r <- go rest; Ok (mkTok k text f l :: fst r, snd r)
           end) (file_tokens f)
    end.
End Splice.
