(* Proofs_C01s4a.v — C01, stage 4 (definitions and calls), part 1: the VM with several frames.
   Explicit VM states with a given stack, the four call instructions (PREPARE_EXEC, ARG, EXEC, RET) one step at a
   time, vectors (firstn, zeros), stability of the store relation SR under changes outside the registers it
   constrains, the relation between a VM frame and a reference view, and the parameter store of a fresh activation. *)
From Coq Require Import List ZArith NArith Lia Bool.
From Theo Require Import Base Tokens Errors MacroExtract Parser VMModel VMSpec GenModel Compile RefSem RefSemChk C01Statements C01Stages Gen_Consts Proofs_VM_mem Proofs_VM_dbg Proofs_Gen0 Proofs_Gen Proofs_Sem Proofs_C01a Proofs_C01b Proofs_C01 Proofs_C01s2a Proofs_C01s2b Proofs_C01s3a.
Import ListNotations.
Local Open Scope Z_scope.

(* ================================================================================================ *)
(* 1. vectors                                                                                       *)
(* ================================================================================================ *)
Lemma nth_error_firstn_lt {A} (l : list A) : forall n m, (m < n)%nat -> nth_error (firstn n l) m = nth_error l m.
Proof.
  induction l as [|x l IH]; intros [|n] [|m] H; cbn [firstn nth_error]; try reflexivity; try lia.
  apply IH. lia.
Qed.

Lemma znth_firstn {A} (l : list A) n j : 0 <= n -> znth (firstn (Z.to_nat n) l) j = if j <? n then znth l j else None.
Proof.
  intros Hn. unfold znth. destruct (Z.ltb_spec j 0).
  - destruct (Z.ltb_spec j n); [reflexivity | lia].
  - destruct (Z.ltb_spec j n).
    + apply nth_error_firstn_lt. lia.
    + apply nth_error_None. rewrite firstn_length. lia.
Qed.

Lemma zlen_firstn {A} (l : list A) n : 0 <= n <= zlen l -> zlen (firstn (Z.to_nat n) l) = n.
Proof. intros H. unfold zlen in *. rewrite firstn_length. lia. Qed.

Lemma zlen_zrepeat {A} (x : A) n : zlen (zrepeat x n) = Z.of_nat n.
Proof. unfold zlen. rewrite zrepeat_length. reflexivity. Qed.

Lemma znth_app_zeros d n j : zlen d <= j < zlen d + Z.of_nat n -> znth (d ++ zrepeat 0 n) j = Some 0.
Proof.
  intros H. unfold znth, zlen in *. destruct (Z.ltb_spec j 0); [lia|].
  rewrite nth_error_app2 by lia.
  assert (Hk : (Z.to_nat j - length d < n)%nat) by lia. revert Hk. generalize (Z.to_nat j - length d)%nat. clear.
  induction n as [|n IH]; intros m Hm; [lia|]. destruct m; cbn; [reflexivity|]. apply IH. lia.
Qed.

(* ================================================================================================ *)
(* 2. VM states with an explicit stack, and the call instructions                                   *)
(* ================================================================================================ *)
Definition vm_st (s : vm) (q : Z) (d : list Z) (stk : list act) : vm := mkVM (stepping s) q (prog s) d stk (enabled s).

Lemma vm_at_st s q d : vm_at s q d = vm_st s q d (stack s).
Proof. reflexivity. Qed.

Lemma st_prepare s q d stk n mi tgt :
  znth (code (prog s)) q = Some (IPrepare n mi tgt) ->
  vm_run 1 (vm_st s q d stk) = Ok (vm_st s (q + 1) (d ++ zrepeat 0 (Z.to_nat n)) (mkAct (zlen d) n tgt (-1) mi :: stk)).
Proof.
  intros Hz. apply vm_run_1 with (b := false). unfold exec1, exec1_gen, vm_st. cbn [prog ip]. rewrite Hz.
  cbn [of_opt bind iop IPrepare ia ib ic data stepping stack enabled]. reflexivity.
Qed.

Lemma st_arg s q d tp sn rest t src x d' :
  znth (code (prog s)) q = Some (IArg t src) ->
  znth d (data_start sn + src) = Some x -> zupd d (data_start tp + t) x = Some d' ->
  vm_run 1 (vm_st s q d (tp :: sn :: rest)) = Ok (vm_st s (q + 1) d' (tp :: sn :: rest)).
Proof.
  intros Hz Hx Hu. apply vm_run_1 with (b := false). unfold exec1, exec1_gen, vm_st. cbn [prog ip]. rewrite Hz.
  cbn [of_opt bind iop IArg ia ib ic]. unfold second, top. cbn [stack hd_error of_opt bind data].
  unfold rd. rewrite Hx. cbn [of_opt bind]. unfold wr. rewrite Hu. reflexivity.
Qed.

Lemma st_exec s q d t rest e :
  znth (code (prog s)) q = Some (IExec e) ->
  vm_run 1 (vm_st s q d (t :: rest)) =
  Ok (vm_st s e d (mkAct (data_start t) (seg_size t) (ret_target t) (q + 1) (debug_info t) :: rest)).
Proof.
  intros Hz. apply vm_run_1 with (b := false). unfold exec1, exec1_gen, vm_st. cbn [prog ip]. rewrite Hz.
  cbn [of_opt bind iop IExec ia ib ic stack]. reflexivity.
Qed.

Lemma st_ret s q d t c rest src x d' :
  znth (code (prog s)) q = Some (IRet src) ->
  znth d (data_start t + src) = Some x -> zupd d (data_start c + ret_target t) x = Some d' ->
  0 <= data_start t <= zlen d ->
  vm_run 1 (vm_st s q d (t :: c :: rest)) = Ok (vm_st s (ret_addr t) (firstn (Z.to_nat (data_start t)) d') (c :: rest)).
Proof.
  intros Hz Hx Hu Hr. apply vm_run_1 with (b := false). unfold exec1, exec1_gen, vm_st. cbn [prog ip]. rewrite Hz.
  cbn [of_opt bind iop IRet ia ib ic stack data]. unfold rd. rewrite Hx. cbn [of_opt bind]. unfold wr. rewrite Hu.
  cbn [of_opt bind cfg_now legacy_ret]. unfold resize. pose proof (zupd_length _ _ _ _ Hu) as Hl.
  destruct (Z.ltb_spec (data_start t) 0); [lia|]. destruct (Z.leb_spec (data_start t) (zlen d')); [|lia].
  reflexivity.
Qed.

(* ================================================================================================ *)
(* 3. the store relation is stable under changes elsewhere                                          *)
(* ================================================================================================ *)
Lemma SR_stable rm base N a d d' : rm_ok rm N -> SR rm base N a d -> base + N <= zlen d' ->
  (forall i, 0 <= i < N -> ~ rm_tmp rm i -> znth d' (base + i) = znth d (base + i)) ->
  SR rm base N a d'.
Proof.
  intros OK [Hf Hv Hc Hvb Hcb] Hl Hsame. constructor; auto.
  - lia.
  - intros x i Hx. rewrite Hsame; [apply Hv; exact Hx | exact (rmo_var_rng _ _ OK _ _ Hx) |].
    intros Ht. exact (rmo_var_tmp _ _ OK _ _ Hx Ht).
  - intros c i Hx. rewrite Hsame; [apply Hc; exact Hx | exact (rmo_cnt_rng _ _ OK _ _ Hx) |].
    intros Ht. exact (rmo_cnt_tmp _ _ OK _ _ Hx Ht).
Qed.

(* ================================================================================================ *)
(* 4. the store of a fresh activation                                                               *)
(* ================================================================================================ *)
Definition bind_params (params : list str) (vals : list Z) : list (str * Z) :=
  fold_left (fun s pv => put s (fst pv) (snd pv)) (combine params vals) [].

Lemma get_fold_notin params : forall vals st x, ~ In x params ->
  get (fold_left (fun s pv => put s (fst pv) (snd pv)) (combine params vals) st) x = get st x.
Proof.
  induction params as [|p ps IH]; intros vals st x Hn; cbn [combine fold_left]; [reflexivity|].
  destruct vals as [|v vs]; cbn [combine fold_left]; [reflexivity|].
  rewrite IH by (intros H; apply Hn; right; exact H). cbn [fst snd].
  apply get_put_other. intros ->. apply Hn. left; reflexivity.
Qed.

Lemma get_fold_nth params : forall vals st i p v, NoDup params ->
  nth_error params i = Some p -> nth_error vals i = Some v ->
  get (fold_left (fun s pv => put s (fst pv) (snd pv)) (combine params vals) st) p = v.
Proof.
  induction params as [|p0 ps IH]; intros vals st i p v Hnd Hp Hv; [destruct i; discriminate|].
  inversion Hnd as [|? ? Hnin Hnd']; subst.
  destruct vals as [|v0 vs]; [destruct i; discriminate|]. cbn [combine fold_left fst snd].
  destruct i as [|i]; cbn [nth_error] in Hp, Hv.
  - inversion Hp; inversion Hv; subst. rewrite get_fold_notin by exact Hnin. apply get_put_same.
  - eapply IH; eauto.
Qed.

Lemma get_fold_bound params : forall vals st x, (forall y, 0 <= get st y < INT_MAX) -> Forall (fun v => 0 <= v < INT_MAX) vals ->
  0 <= get (fold_left (fun s pv => put s (fst pv) (snd pv)) (combine params vals) st) x < INT_MAX.
Proof.
  induction params as [|p ps IH]; intros vals st x Hst Hv; cbn [combine fold_left]; [apply Hst|].
  destruct vals as [|v vs]; cbn [combine fold_left]; [apply Hst|]. inversion Hv; subst.
  apply IH; [|assumption]. intros y. cbn [fst snd]. destruct (str_eqb y p) eqn:E.
  - apply str_eqb_eq in E. subst y. rewrite get_put_same. assumption.
  - rewrite get_put_other; [apply Hst|]. intros ->. rewrite str_eqb_refl in E. discriminate.
Qed.
