(* PipelineStatements.v — the macro properties stated for the whole pipeline (from a file map), as compositions of the
   stage theorems: on the streams the scanner produces the completeness theorems of C09 need no side condition; a
   successful compilation has a finished expansion (C11); a macro with a conflicting pattern makes the compilation
   fail with the non-linear error at its definition (C12). *)
From Coq Require Import Sorting.Sorted.
From Theo Require Import Base Regex Tokens Errors Lexer Scan MacroExtract Grammar LR MacroApply Parser VMModel GenModel Compile
                         Gen_Lexer Gen_Consts SpecMacro CompileStatements ApplyStatements MacroStatements
                         ApplyCompleteStatements LocErrStatements.
Local Open Scope Z_scope.

(* the front of the pipeline: the scanner's tokens, what extraction leaves of them, the macros, the usable detectors *)
Definition front (files : files_t) (main : str) (out : list token) (macros : list macrodef)
                 (bins : list (Z * list detector)) : Prop :=
  exists toks serrs xerrs errs,
    scan Gen_Lexer.rules (seen_files files main) main = Ok (toks, serrs) /\
    extract_macros toks = Ok (xerrs, out, macros) /\
    prepare macros = Ok (errs, bins).

(* C09 on pipeline streams: every stream reached by rewriting from the extraction output is free of UNKNOWN tokens, so
   the step taken from it beats every occurrence of every usable macro, and rewriting stops only when nothing occurs *)
Definition C09_pipeline_stmt : Prop :=
  forall files main out macros bins k mid,
    front files main out macros bins -> Steps bins out 0 k mid ->
    no_unknown mid /\
    (forall pass out', try_bins false bins mid pass = Ok (Some out') ->
       exists c, reported bins mid c /\ rewrite_with mid c pass out' /\
         forall p ds d' loc' parts', In (p, ds) bins -> In d' ds ->
           occurs_at (d_macro d') mid loc' parts' ->
           p < prio c \/
           (p = prio c /\ (loc c < Z.of_nat loc' \/ (loc c = Z.of_nat loc' /\ zlen (concat parts') <= len c)))) /\
    (forall pass, try_bins false bins mid pass = Ok None ->
       forall p ds d' loc' parts', In (p, ds) bins -> In d' ds -> ~ occurs_at (d_macro d') mid loc' parts').

(* C11 for the pipeline: a successful compilation went through a finished expansion of at most the budget's steps, and
   what was parsed is the stream on which no pattern of a usable macro occurs any more *)
Definition C11_compiled_stmt : Prop :=
  forall files main c out macros bins,
    compile files main = Ok c -> cr_ok c = true ->
    front files main out macros bins ->
    exists k final root,
      (k <= N.to_nat macro_passes)%nat /\ Steps bins out 0 k final /\
      (forall pass, try_bins false bins final pass = Ok None) /\
      parse_tokens final = Ok (root, []).

(* C12 for the pipeline: a macro whose pattern has a conflict is reported at the position of its definition (its first
   pattern token) and the compilation is marked incorrect *)
Definition C12_compiled_stmt : Prop :=
  forall files main c out macros bins m d t0 rest,
    compile files main = Ok c -> front files main out macros bins ->
    In m macros -> make_detector m = Ok d -> d_conflicts d <> [] -> m_rule m = t0 :: rest ->
    cr_ok c = false /\
    exists e, In e (cr_errors c) /\ ge_kind e = e_macro_non_lr /\ ge_file e = tfile t0 /\ ge_line e = tline t0.
