(* Proofs_C01s4c.v — C01, stage 4, part 3: the DYNAMIC part, preparations.
   Routine information (register map, frame size, entry, stack-map index), what makes a routine's compiled code
   good (routine_ok), the relation between the frames of the VM stack and the views of the reference machine
   (FrameView, LowOK), the ARG loop of a call, and the store relation of a freshly prepared frame. *)
From Coq Require Import List ZArith NArith Lia Bool.
From Theo Require Import Base Tokens Errors MacroExtract Parser VMModel VMSpec GenModel Compile RefSem RefSemChk C01Statements C01Stages Gen_Consts Proofs_VM_mem Proofs_VM_dbg Proofs_Gen0 Proofs_Gen Proofs_Sem Proofs_C01a Proofs_C01b Proofs_C01 Proofs_C01s2a Proofs_C01s2b Proofs_C01s2 Proofs_C01s3a Proofs_C01s4a Proofs_C01s4b.
Import ListNotations.
Local Open Scope Z_scope.

Record rinfo := mkRI { ri_rm : regmap; ri_N : Z; ri_P0 : Z; ri_mi : Z }.

Section Frames.
  Variable rs : list routine.
  Variable RI : nat -> rinfo.
  Variable C : list instr.
  Variable FT : ftab.

  Definition pm4 (k : nat) (r : routine) (pc : Z) : Z := pm_of4 (ri_P0 (RI k)) (r_code r) pc.

  Definition jpost4 (k : nat) (r : routine) : jrel3 := fun q f tg =>
    match tg with
    | JId e => exists t, znth (r_targets r) e = Some t /\ (0 <= t -> q + f = pm4 k r t)
    | JLab l => 0 <= label_pos (r_labels r) l -> q + f = pm4 k r (label_pos (r_labels r) l)
    end.

  Record routine_ok (k : nat) (r : routine) : Prop := mkROK {
    ro_rm : rm_ok (ri_rm (RI k)) (ri_N (RI k));
    ro_cm : forall pc i, znth (r_code r) pc = Some i ->
              imatch4 (ri_rm (RI k)) C FT (jpost4 k r) (pm4 k r pc) i;
    ro_params : forall i p, nth_error (r_params r) i = Some p -> rm_var (ri_rm (RI k)) p (Z.of_nat i);
    ro_nodup : NoDup (r_params r);
    ro_N : 0 <= ri_N (RI k) }.

  (* a VM frame shows a reference view *)
  Definition FrameView (d : list Z) (a : act) (v : str * list (str * Z)) : Prop :=
    exists k r ra, nth_error rs k = Some r /\ v = view_of r ra /\
      SR (ri_rm (RI k)) (data_start a) (ri_N (RI k)) ra d /\
      rm_ok (ri_rm (RI k)) (ri_N (RI k)) /\
      seg_size a = ri_N (RI k) /\ debug_info a = ri_mi (RI k).

  Lemma FrameView_stable d d' a v B :
    FrameView d a v -> data_start a + seg_size a <= B -> B <= zlen d' ->
    (forall j, j < B -> znth d' j = znth d j) -> FrameView d' a v.
  Proof.
    intros (k & r & ra & Hk & Hv & HS & OK & Hsz & Hdi) HB Hl Hsame.
    exists k, r, ra. split; [exact Hk|]. split; [exact Hv|]. split; [|auto].
    rewrite Hsz in HB. eapply SR_stable; eauto; [lia|]. intros i Hi _. apply Hsame. lia.
  Qed.

  (* the frames below the current one *)
  Definition LowOK (base : Z) (rest : list act) (ctx : rviews) (d : list Z) : Prop :=
    Forall2 (FrameView d) (rev rest) ctx /\ forall a, In a rest -> data_start a + seg_size a <= base.

  Lemma LowOK_stable base rest ctx d d' :
    LowOK base rest ctx d -> base <= zlen d' -> (forall j, j < base -> znth d' j = znth d j) -> LowOK base rest ctx d'.
  Proof.
    intros [HF HB] Hl Hsame. split; [|exact HB].
    assert (HB' : forall a, In a (rev rest) -> data_start a + seg_size a <= base) by (intros a Ha; apply HB; apply in_rev; exact Ha).
    clear HB. induction HF as [|a v l l' Hav HF IH]; constructor.
    - eapply FrameView_stable; eauto. apply HB'. left; reflexivity.
    - apply IH. intros a' Ha'. apply HB'. right; exact Ha'.
  Qed.

  (* ---- the ARG instructions of a call ---- *)
  Lemma run_args s stkt stks rest base' : forall ts vals q i0 d,
    code (prog s) = C ->
    data_start stkt = base' ->
    (forall i t, nth_error ts i = Some t -> znth C (q + Z.of_nat i) = Some (IArg (i0 + Z.of_nat i) t)) ->
    Forall2 (fun t z => znth d (data_start stks + t) = Some z /\ data_start stks + t < base') ts vals ->
    0 <= i0 -> 0 <= base' -> base' + i0 + zlen ts <= zlen d ->
    exists d', vm_run (length ts) (vm_st s q d (stkt :: stks :: rest)) = Ok (vm_st s (q + zlen ts) d' (stkt :: stks :: rest)) /\
      zlen d' = zlen d /\
      (forall i z, nth_error vals i = Some z -> znth d' (base' + i0 + Z.of_nat i) = Some z) /\
      (forall j, ~ (base' + i0 <= j < base' + i0 + zlen ts) -> znth d' j = znth d j).
  Proof.
    induction ts as [|t ts IH]; intros vals q i0 d HC Hb HA HV Hi0 Hb0 Hl.
    - destruct vals; [|inversion HV]. exists d. unfold zlen at 1. cbn [length vm_run]. rewrite Z.add_0_r.
      split; [reflexivity|]. split; [reflexivity|]. split; [intros i z H; destruct i; discriminate | auto].
    - destruct vals as [|z vs]; [inversion HV|].
      assert (Hh : (znth d (data_start stks + t) = Some z /\ data_start stks + t < base') /\
                   Forall2 (fun t z => znth d (data_start stks + t) = Some z /\ data_start stks + t < base') ts vs)
        by (inversion HV; auto).
      destruct Hh as [[Hz Hlt] HV']. rewrite zlen_cons in *. pose proof (zlen_nonneg ts) as Hts.
      destruct (zupd_ex d (data_start stkt + i0) z ltac:(lia)) as [d1 U1].
      pose proof (zupd_length _ _ _ _ U1) as L1.
      assert (Hstep : vm_run 1 (vm_st s q d (stkt :: stks :: rest)) = Ok (vm_st s (q + 1) d1 (stkt :: stks :: rest))).
      { eapply st_arg; [rewrite HC; specialize (HA 0%nat t eq_refl); cbn in HA; rewrite !Z.add_0_r in HA; exact HA | exact Hz | exact U1]. }
      destruct (IH vs (q + 1) (i0 + 1) d1 HC Hb) as (d' & Hrun & Ld' & Hv' & Hsame).
      + intros i t' Hi. specialize (HA (S i) t' Hi). rewrite Nat2Z.inj_succ in HA.
        replace (q + 1 + Z.of_nat i) with (q + Z.succ (Z.of_nat i)) by lia.
        replace (i0 + 1 + Z.of_nat i) with (i0 + Z.succ (Z.of_nat i)) by lia. exact HA.
      + clear - HV' U1 Hi0 Hb. induction HV' as [|t' z' l l' [A B] HV' IHV]; constructor; auto.
        split; [|exact B]. rewrite (znth_zupd _ _ _ _ U1). destruct (Z.eqb_spec (data_start stks + t') (data_start stkt + i0)); [lia | exact A].
      + lia.
      + lia.
      + lia.
      + exists d'. split.
        * change (length (t :: ts)) with (1 + length ts)%nat. eapply vm_run_trans; [exact Hstep|].
          replace (q + (zlen ts + 1)) with (q + 1 + zlen ts) by lia. exact Hrun.
        * split; [lia|]. split.
          -- intros i z' Hi. destruct i as [|i]; cbn [nth_error] in Hi.
             ++ inversion Hi; subst z'. replace (base' + i0 + Z.of_nat 0) with (data_start stkt + i0) by (cbn; lia).
                rewrite Hsame by lia. rewrite (znth_zupd _ _ _ _ U1), Z.eqb_refl. reflexivity.
             ++ rewrite Nat2Z.inj_succ. replace (base' + i0 + Z.succ (Z.of_nat i)) with (base' + (i0 + 1) + Z.of_nat i) by lia.
                apply Hv'. exact Hi.
          -- intros j Hj. rewrite Hsame by lia. rewrite (znth_zupd _ _ _ _ U1).
             destruct (Z.eqb_spec j (data_start stkt + i0)); [lia | reflexivity].
  Qed.

  (* ---- the store relation of a prepared frame ---- *)
  Lemma SR_fresh rm N base' params vals d :
    rm_ok rm N -> (forall i p, nth_error params i = Some p -> rm_var rm p (Z.of_nat i)) -> NoDup params ->
    length vals = length params -> Forall (fun v => 0 <= v < INT_MAX) vals ->
    0 <= base' -> base' + N <= zlen d ->
    (forall i z, nth_error vals i = Some z -> znth d (base' + Z.of_nat i) = Some z) ->
    (forall i, zlen vals <= i < N -> znth d (base' + i) = Some 0) ->
    SR rm base' N (mkRAct (bind_params params vals) []) d.
  Proof.
    intros OK Hpar Hnd Hlen Hvb Hb Hfit Hvals Hzero. constructor; cbn [ra_vars ra_cnt].
    - lia.
    - intros x i Hx. pose proof (rmo_var_rng _ _ OK _ _ Hx) as Ri.
      destruct (in_dec (list_eq_dec N.eq_dec) x params) as [Hin|Hnin].
      + apply In_nth_error in Hin. destruct Hin as [n Hn].
        pose proof (Hpar _ _ Hn) as Hxn. assert (i = Z.of_nat n) by (eapply rmo_var_fun; eauto). subst i.
        assert (Hnv : exists z, nth_error vals n = Some z).
        { destruct (nth_error vals n) eqn:E; [eauto|]. apply nth_error_None in E.
          assert (n < length params)%nat by (destruct (Nat.lt_ge_cases n (length params)) as [Hlt'|Hge']; [exact Hlt'|]; apply nth_error_None in Hge'; pose proof (eq_trans (eq_sym Hge') Hn) as X; discriminate X). lia. }
        destruct Hnv as [z Hz]. rewrite (Hvals _ _ Hz). f_equal. symmetry. unfold bind_params. eapply get_fold_nth; eauto.
      + unfold bind_params. rewrite get_fold_notin by exact Hnin. cbn [get]. apply Hzero. split; [|lia].
        destruct (Z.lt_ge_cases i (zlen vals)) as [Hlt|Hge]; [|lia]. exfalso.
        unfold zlen in Hlt. rewrite Hlen in Hlt.
        destruct (nth_error params (Z.to_nat i)) as [p|] eqn:Ep; [|apply nth_error_None in Ep; lia].
        pose proof (Hpar _ _ Ep) as Hp. rewrite Z2Nat.id in Hp by lia.
        assert (x = p) by (eapply rmo_var_inj; eauto). subst x. apply Hnin. eapply nth_error_In; eauto.
    - intros c i Hx. cbn [getc]. pose proof (rmo_cnt_rng _ _ OK _ _ Hx) as Ri. apply Hzero. split; [|lia].
      destruct (Z.lt_ge_cases i (zlen vals)) as [Hlt|Hge]; [|lia]. exfalso.
      unfold zlen in Hlt. rewrite Hlen in Hlt.
      destruct (nth_error params (Z.to_nat i)) as [p|] eqn:Ep; [|apply nth_error_None in Ep; lia].
      pose proof (Hpar _ _ Ep) as Hp. rewrite Z2Nat.id in Hp by lia. exact (rmo_var_cnt _ _ OK _ _ _ Hp Hx).
    - intros x. unfold bind_params. apply get_fold_bound; [|exact Hvb]. intros y. cbn. unfold INT_MAX. lia.
    - intros c. cbn. unfold INT_MAX. lia.
  Qed.
End Frames.
