(* Proofs_C01s2.v — C01, stage 2: main programs built from assignments of simple values, LOOP and WHILE, nested
   arbitrarily (C01Stages.v).  Assembly of
     - the dynamic part (Proofs_C01s2a.v): a reference machine running a flat routine is simulated by the VM running
       code related to it by a position map;
     - the static part (Proofs_C01s2b/c/d.v): the generator and the flattener, walking the same tree, produce such
       code, with label placeholders in the jumps;
   through the end of gen (pop_symbols, patching PREPARE, HALT, backpatch) and the views of the final states. *)
From Coq Require Import List ZArith NArith Lia Bool.
From Theo Require Import Base Tokens Errors MacroExtract Parser VMModel VMSpec GenModel Compile RefSem RefSemChk C01Statements C01Stages Gen_Consts Proofs_VM_mem Proofs_VM_dbg Proofs_Gen0 Proofs_Gen Proofs_Sem Proofs_C01a Proofs_C01b Proofs_C01.
From Theo Require Import Proofs_C01s2a Proofs_C01s2b Proofs_C01s2c Proofs_C01s2d.
Import ListNotations.
Local Open Scope Z_scope.

(* ================================================================================================ *)
(* 1. backpatching                                                                                  *)
(* ================================================================================================ *)
Definition is_jmp (o : opcode) : Prop := o = JMP \/ o = JMPC.

Lemma backpatch_list_patch todo : forall g g', backpatch_list g todo = Ok g' -> NoDup todo ->
  g_labels g' = g_labels g /\ g_maps g' = g_maps g /\ g_pb g' = g_pb g /\ g_li g' = g_li g /\
  (forall q ins, znth (g_code g) q = Some ins -> ~ In q todo \/ ~ is_jmp (iop ins) -> znth (g_code g') q = Some ins) /\
  (forall q ins, znth (g_code g) q = Some ins -> In q todo -> is_jmp (iop ins) ->
     exists tgt, znth (g_labels g) (ia ins) = Some tgt /\
                 znth (g_code g') q = Some (mkI (iop ins) (tgt - q) (ib ins) (ic ins))).
Proof.
  induction todo as [|loc rest IH]; intros g g' H Hnd; cbn [backpatch_list] in H.
  - inversion H; subst. repeat split; auto. intros q ins _ [].
  - inversion Hnd as [|? ? Hnin Hnd']; subst.
    binv H. rename a into ins0. rename H0 into Hz0.
    assert (Hnj : ~ is_jmp (iop ins0) -> backpatch_list (err g T_INTERNAL_ERROR e_backpatch_nonjmp) rest = Ok g' ->
      g_labels g' = g_labels g /\ g_maps g' = g_maps g /\ g_pb g' = g_pb g /\ g_li g' = g_li g /\
      (forall q ins, znth (g_code g) q = Some ins -> ~ In q (loc :: rest) \/ ~ is_jmp (iop ins) -> znth (g_code g') q = Some ins) /\
      (forall q ins, znth (g_code g) q = Some ins -> In q (loc :: rest) -> is_jmp (iop ins) ->
         exists tgt, znth (g_labels g) (ia ins) = Some tgt /\
                     znth (g_code g') q = Some (mkI (iop ins) (tgt - q) (ib ins) (ic ins)))).
    { intros Hn Hx. destruct (IH _ _ Hx Hnd') as (A1 & A2 & A3 & A4 & A5 & A6). cbn [err upd_errs g_labels g_maps g_pb g_li g_code] in *.
      split; [exact A1|]. split; [exact A2|]. split; [exact A3|]. split; [exact A4|]. split.
      - intros q ins Hq [Hn'|Hn']; apply A5; auto. left. intros Hin. apply Hn'. right; exact Hin.
      - intros q ins Hq [->|Hin] Hj; [|apply A6; auto]. exfalso. apply Hn. congruence. }
    assert (Hj : is_jmp (iop ins0) ->
      (do tgt <- of_opt ub_index (znth (g_labels g) (ia ins0));
       let g1 := if tgt =? -1 then err g T_UNKNOWN_MARK e_backpatch_failed else g in
       do c <- of_opt ub_index (zupd (g_code g1) loc (mkI (iop ins0) (tgt - loc) (ib ins0) (ic ins0)));
       backpatch_list (upd_code g1 c) rest) = Ok g' ->
      g_labels g' = g_labels g /\ g_maps g' = g_maps g /\ g_pb g' = g_pb g /\ g_li g' = g_li g /\
      (forall q ins, znth (g_code g) q = Some ins -> ~ In q (loc :: rest) \/ ~ is_jmp (iop ins) -> znth (g_code g') q = Some ins) /\
      (forall q ins, znth (g_code g) q = Some ins -> In q (loc :: rest) -> is_jmp (iop ins) ->
         exists tgt, znth (g_labels g) (ia ins) = Some tgt /\
                     znth (g_code g') q = Some (mkI (iop ins) (tgt - q) (ib ins) (ic ins)))).
    { intros Hjm Hx. cbv zeta in Hx. binv Hx. rename a into tgt. rename a0 into c. rename H0 into Hl. rename H1 into Hc.
      set (g1 := if tgt =? -1 then err g T_UNKNOWN_MARK e_backpatch_failed else g) in *.
      assert (E1 : g_code g1 = g_code g /\ g_labels g1 = g_labels g /\ g_maps g1 = g_maps g /\ g_pb g1 = g_pb g /\ g_li g1 = g_li g).
      { subst g1. destruct (tgt =? -1); repeat split. }
      destruct E1 as (Ec & El & Em & Ep & Ei). rewrite Ec in Hc.
      destruct (IH _ _ Hx Hnd') as (A1 & A2 & A3 & A4 & A5 & A6). cbn [upd_code g_labels g_maps g_pb g_li g_code] in *.
      pose proof (znth_zupd _ _ _ _ Hc) as Hzc.
      split; [congruence|]. split; [congruence|]. split; [congruence|]. split; [congruence|]. split.
      - intros q ins Hq Hor. apply A5.
        + rewrite Hzc. destruct (Z.eqb_spec q loc) as [->|]; [|exact Hq]. exfalso.
          assert (ins = ins0) by congruence. subst ins. destruct Hor as [Hn'|Hn']; [apply Hn'; left; reflexivity | contradiction].
        + destruct Hor as [Hn'|Hn']; [left; intros Hin; apply Hn'; right; exact Hin | right; exact Hn'].
      - intros q ins Hq Hin Hjq. destruct (Z.eq_dec q loc) as [->|Hne].
        + assert (ins = ins0) by congruence. subst ins. exists tgt. split; [exact Hl|].
          apply A5; [rewrite Hzc, Z.eqb_refl; reflexivity | left; exact Hnin].
        + destruct Hin as [E|Hin]; [congruence|]. rewrite <- El.
          apply A6; auto. rewrite Hzc. destruct (Z.eqb_spec q loc); [contradiction | exact Hq]. }
    destruct (iop ins0) eqn:Eop;
      first [ apply Hj; [unfold is_jmp; auto | exact H]
            | apply Hnj; [unfold is_jmp; intros [E|E]; discriminate E | exact H] ].
Qed.

(* jumps are re-targeted, everything else stays *)
Lemma vmatch_patch rm C C' v tgt q :
  (forall q' ins, q <= q' -> znth C q' = Some ins -> ~ is_jmp (iop ins) -> znth C' q' = Some ins) ->
  vmatch rm C v tgt q -> vmatch rm C' v tgt q.
Proof.
  intros HC. assert (NJ1 : forall a b c, ~ is_jmp (iop (IAdd a b c))) by (intros a b c [E|E]; discriminate E).
  assert (NJ2 : forall a b, ~ is_jmp (iop (IConst a b))) by (intros a b [E|E]; discriminate E).
  destruct v as [y|c|y c|y c|j args]; cbn [vmatch]; auto.
  - intros (ry & H1 & H2). exists ry. split; auto. apply HC; auto; lia.
  - intros (H1 & H2). split; auto. apply HC; auto; lia.
  - destruct y; auto. intros (ry & t1 & t2 & A1 & A2 & A3 & A4 & A5 & A6 & A7 & A8).
    exists ry, t1, t2. repeat split; auto; try lia; apply HC; auto; lia.
  - destruct y; auto. intros (ry & t1 & t2 & A1 & A2 & A3 & A4 & A5 & A6 & A7 & A8).
    exists ry, t1, t2. repeat split; auto; try lia; apply HC; auto; lia.
Qed.

Lemma imatch_patch rm C C' (J J' : jrel) q i :
  (forall q' ins, q <= q' -> znth C q' = Some ins -> ~ is_jmp (iop ins) -> znth C' q' = Some ins) ->
  (forall q' ins e, q <= q' -> znth C q' = Some ins -> is_jmp (iop ins) -> J q' (ia ins) e ->
     exists f', znth C' q' = Some (mkI (iop ins) f' (ib ins) (ic ins)) /\ J' q' f' e) ->
  imatch rm C J q i -> imatch rm C' J' q i.
Proof.
  intros HC HJ.
  assert (NJ1 : forall a b c, ~ is_jmp (iop (IAdd a b c))) by (intros a b c [E|E]; discriminate E).
  assert (NJ3 : ~ is_jmp (iop IPotentialBreak)) by (intros [E|E]; discriminate E).
  assert (NJ4 : ~ is_jmp (iop IHalt)) by (intros [E|E]; discriminate E).
  destruct i as [l|x v|id v|id ex|id back|v ex|target|l|x y l| |out|]; cbn [imatch]; auto.
  - intros H. apply HC; auto; lia.
  - intros (rx & H1 & H2). exists rx. split; auto. eapply vmatch_patch; eauto.
  - intros (rc & H1 & H2). exists rc. split; auto. eapply vmatch_patch; eauto.
  - intros (rc & f & H1 & H2 & H3).
    destruct (HJ q (IJmpC f rc) ex ltac:(lia) H2 ltac:(right; reflexivity) H3) as (f' & A & B).
    exists rc, f'. auto.
  - intros (rc & f & H1 & H2 & H3 & H4).
    destruct (HJ (q + 1) (IJmp f) back ltac:(lia) H3 ltac:(left; reflexivity) H4) as (f' & A & B).
    exists rc, f'. repeat split; auto. apply HC; auto; lia.
  - intros (t & f & H1 & H2 & H3 & H4). pose proof (vlen_nonneg v).
    destruct (HJ (q + vlen v) (IJmpC f t) ex ltac:(lia) H3 ltac:(right; reflexivity) H4) as (f' & A & B).
    exists t, f'. repeat split; auto. eapply vmatch_patch; eauto.
  - intros (f & H1 & H2).
    destruct (HJ q (IJmp f) target ltac:(lia) H1 ltac:(left; reflexivity) H2) as (f' & A & B).
    exists f'. auto.
  - intros H. apply HC; auto; lia.
Qed.

(* ================================================================================================ *)
(* 2. the views of the final state                                                                  *)
(* ================================================================================================ *)
Lemma alookup_filter {V} (p : str -> bool) (l : list (str * V)) x :
  alookup str_ltb (filter (fun e => p (fst e)) l) x = if p x then alookup str_ltb l x else None.
Proof.
  induction l as [|[k v] t IH]; cbn [filter alookup fst].
  - destruct (p x); reflexivity.
  - destruct (p k) eqn:Ek; cbn [alookup].
    + destruct (keqb str_ltb x k) eqn:E.
      * apply str_keqb_eq in E. subst k. rewrite Ek. reflexivity.
      * exact IH.
    + destruct (keqb str_ltb x k) eqn:E.
      * apply str_keqb_eq in E. subst k. rewrite Ek. rewrite Ek in IH. exact IH.
      * exact IH.
Qed.

Lemma smap_names_NoDup regs :
  (forall i j ri rj, znth regs i = Some ri -> znth regs j = Some rj -> is_temp ri = false -> is_temp rj = false ->
                     vname ri = vname rj -> i = j) ->
  NoDup (map snd (stack_map_of regs 0)).
Proof.
  induction regs as [|r regs IH] using rev_ind; intros H; [constructor|].
  rewrite smap_snoc, map_app.
  assert (Hpre : NoDup (map snd (stack_map_of regs 0))).
  { apply IH. intros i j ri rj Hi Hj. apply H; apply znth_app_some; assumption. }
  destruct (is_temp r) eqn:Et; cbn [map]; [rewrite app_nil_r; exact Hpre|].
  apply NoDup_snoc; [exact Hpre|]. cbn [snd]. intros Hin. apply in_map_iff in Hin. destruct Hin as ([i x] & Hx & Hin).
  cbn [snd] in Hx. subst x. apply smap_in in Hin. destruct Hin as (ri & Hi & Hti & Hni).
  pose proof (znth_some_range _ _ _ Hi) as Ri.
  assert (i = zlen regs); [|lia].
  apply (H i (zlen regs) ri r); auto; [apply znth_app_some; exact Hi | apply znth_app_last].
Qed.

Section Views.
  Variables (regs : list vreg) (L : Z) (vars : list str) (a : ract) (d : list Z).
  Hypothesis HRW : RW (map key regs) L.
  Hypothesis HJV : JV (map key regs) vars.
  Hypothesis HSR : SR (RMof (map key regs)) 0 (zlen regs) a d.

  Lemma nontemp_frk i r : znth regs i = Some r -> is_temp r = false -> frk (map key regs) (vname r) 0 = Some i.
  Proof.
    intros Hz Ht. destruct HRW as [H1 _].
    assert (Hk : znth (map key regs) i = Some (vname r, false)).
    { rewrite znth_map, Hz. cbn [option_map]. unfold key. rewrite Ht. reflexivity. }
    apply (H1 _ _ _ Hk).
  Qed.

  Lemma frk_lexable_nontemp x i : lexable x = true -> frk (map key regs) x 0 = Some i ->
    exists r, znth regs i = Some r /\ is_temp r = false /\ vname r = x.
  Proof.
    intros Hx Hf. apply frk_name0 in Hf. destruct Hf as [b Hf]. destruct HRW as [H1 _]. pose proof (H1 _ _ _ Hf) as Hb.
    rewrite znth_map in Hf. destruct (znth regs i) as [r|] eqn:Hz; [|discriminate]. cbn [option_map key] in Hf.
    inversion Hf; subst. exists r. split; [reflexivity|]. split; [|reflexivity].
    destruct (is_temp r); [|reflexivity]. rewrite Hb in Hx. rewrite temp_not_lexable in Hx. discriminate.
  Qed.

  Lemma final_views :
    exists vmvars, read_vars d 0 (stack_map_of regs 0) [] = Ok vmvars /\
      same_values (filter (fun e => user_name (fst e)) vmvars) (map (fun x => (x, get (ra_vars a) x)) vars).
  Proof.
    destruct (read_vars_spec d 0 (stack_map_of regs 0) []) as (res & E & Hres).
    - apply smap_names_NoDup. intros i j ri rj Hi Hj Hti Htj Hn.
      pose proof (nontemp_frk _ _ Hi Hti) as A. pose proof (nontemp_frk _ _ Hj Htj) as B. rewrite Hn in A. congruence.
    - intros; reflexivity.
    - intros r n Hin. apply smap_in in Hin. destruct Hin as (rg & Hz & _). apply znth_some_range in Hz.
      destruct (znth_in_range d (0 + r)) as [v Hv]; [destruct HSR as [[_ Hf] _]; lia | congruence].
    - exists res. split; [exact E|]. split.
      + intros x v Hin. apply in_map_iff in Hin. destruct Hin as (y & Hy & Hin). inversion Hy; subst y v; clear Hy.
        destruct HJV as (_ & H2 & _). destruct (H2 _ Hin) as (Hx & i & Hi).
        rewrite (alookup_filter user_name). unfold user_name. rewrite Hx. apply Hres. right.
        destruct (frk_lexable_nontemp _ _ Hx Hi) as (r & Hz & Ht & Hn).
        exists i. split; [apply smap_in; exists r; auto|].
        apply (sr_var _ _ _ _ _ HSR). split; [exact Hx | exact Hi].
      + intros x v H. rewrite (alookup_filter user_name) in H. unfold user_name in H.
        destruct (lexable x) eqn:Hx; [|discriminate]. apply Hres in H. destruct H as [H|(r & Hin & Hz)]; [discriminate|].
        apply smap_in in Hin. destruct Hin as (rg & Hzr & Ht & Hn). subst x.
        pose proof (nontemp_frk _ _ Hzr Ht) as Hf.
        rewrite (sr_var _ _ _ _ _ HSR (vname rg) r (conj Hx Hf)) in Hz. inversion Hz; subst v.
        apply in_map_iff. exists (vname rg). split; [reflexivity|].
        destruct HJV as (_ & _ & H3). eapply H3; eauto.
  Qed.
End Views.

(* ================================================================================================ *)
(* 3. assembly                                                                                      *)
(* ================================================================================================ *)
Lemma znth_app_r {A} (l l' : list A) i : zlen l <= i -> znth (l ++ l') i = znth l' (i - zlen l).
Proof.
  unfold znth, zlen. intros H. destruct (Z.ltb_spec i 0); [lia|].
  destruct (Z.ltb_spec (i - Z.of_nat (length l)) 0); [lia|].
  rewrite nth_error_app2 by lia. f_equal. lia.
Qed.

Definition s_init : fstate := mkF [] [] (mkB root_name [] [] [] [] []) (root_ctx_name, root_ctx_line) 0.

Lemma J_init : J 1 ginit s_init [] 0.
Proof.
  split; [discriminate|]. split; [|split; reflexivity].
  change (b_code (f_cur s_init)) with (@nil rinstr). change (b_targets (f_cur s_init)) with (@nil Z).
  change (b_vars (f_cur s_init)) with (@nil str). change (gks ginit) with (@nil (str * bool)).
  change (gmarks ginit) with (@nil (str * Z)). change (g_code ginit) with [IPrepare (-1) (-1) 0].
  change (g_labels ginit) with (@nil Z). change (g_todo ginit) with (@nil Z). change (g_loops ginit) with 0.
  apply JB_intro.
  - split; [reflexivity|]. intros pc i H. rewrite znth_nil in H. discriminate.
  - split; [reflexivity|]. split; [constructor|]. split; [intros nm l []|].
    intros e lab H. rewrite znth_nil in H. discriminate.
  - split; [constructor | intros q []].
  - apply RW_nil.
  - apply JV_nil.
  - cbn. lia.
  - lia.
Qed.

Lemma C01_structured_proof : C01_structured_stmt.
Proof.
  intros root r rs fuel rviews steps trace Hst Hlex Hgen _ Habs Hrun.
  (* ---- the generator, the flattener, and the walk over the tree ---- *)
  unfold gen in Hgen. apply gen_gen_inv in Hgen.
  destruct Hgen as (g3 & g4 & p & i0 & c0 & g6 & Hbody & Hpop & Hp & Hi0 & Hc0 & Hbp & Hr).
  unfold gen_body in Hbody. cbn [negb cg_neg cg_pb cg_args cfgen_now] in Hbody.
  unfold abstract_source in Habs. cbv zeta in Habs. fold s_init in Habs.
  destruct (flat_stmt root s_init) as [sF|] eqn:EF; [|discriminate].
  destruct (forallb labels_set (f_done sF ++ [finish_routine (bemit (f_cur sF) RHalt)])) eqn:Els; [|discriminate].
  inversion Habs; subst rs; clear Habs Els.
  destruct (joint_walk 1 root Hst Hlex ginit s_init [] g3 sF J_init Hbody EF) as (lmapF & HJ & HX & HF & _).
  destruct HF as (Fd & Fn & Fnm & Fpar). cbn [s_init f_done f_names f_cur b_name b_params] in Fd, Fn, Fnm, Fpar.
  destruct HX as (_ & [blk Hblk] & Hmaps & Hfuncs & f & f' & tls & Es0 & Es3 & Hfn & Hfa).
  change (g_syms ginit) with [mkFGS name_root [] 0 []] in Es0. inversion Es0; subst f tls; clear Es0.
  cbn [f_name f_argnum] in Hfn, Hfa.
  change (g_code ginit) with [IPrepare (-1) (-1) 0] in Hblk.
  change (g_maps ginit) with (@nil stackmap) in Hmaps. change (g_funcs ginit) with (@nil (str * progrec)) in Hfuncs.
  destruct HJ as (_ & HB & _ & _).
  unfold gks, gregs, gmarks in HB. rewrite Es3 in HB.
  set (regsF := f_regs f') in *. set (ksF := map key regsF) in *.
  set (rcode := b_code (f_cur sF)) in *. set (targets := b_targets (f_cur sF)) in *. set (vars := b_vars (f_cur sF)) in *.
  destruct HB as (HC & HL & HT & HR & HV & HL0 & _).
  set (N := zlen regsF).
  (* ---- the end of gen ---- *)
  unfold pop_symbols, get_symbols in Hpop. rewrite Es3 in Hpop. cbn [hd_error of_opt bind] in Hpop.
  destruct (check_marks g3 (f_marks f')) as [g1| |] eqn:Ecm; cbn [bind] in Hpop; try discriminate.
  destruct (check_marks_errs _ _ _ Ecm) as [e Eg1]. subst g1. inversion Hpop; subst g4; clear Hpop Ecm.
  cbn [upd_errs g_code g_maps g_pb g_li g_errs g_syms g_funcs g_labels g_todo g_loops g_fsname g_fsline] in *.
  rewrite Hmaps, Hfuncs, Hfn in *. cbn [app ainsert] in Hp. fold regsF in Hp. fold N in Hp.
  change (zlen [mkSM name_root (stack_map_of regsF 0)] - 1) with 0 in Hp.
  cbn [alookup] in Hp. rewrite (proj2 (str_keqb_eq name_root name_root) eq_refl) in Hp.
  inversion Hp; subst p; clear Hp. cbn [p_stack_size p_mi] in Hc0.
  rewrite Hblk in Hi0, Hc0. change (znth ([IPrepare (-1) (-1) 0] ++ blk) 0) with (Some (IPrepare (-1) (-1) 0)) in Hi0.
  inversion Hi0; subst i0; clear Hi0. cbn [iop ic IPrepare] in Hc0.
  assert (Ec0 : c0 = [IPrepare N 0 0] ++ blk).
  { apply Proofs_VM_mem.zupd_some in Hc0. exact Hc0. }
  subst c0. clear Hc0.
  unfold backpatch in Hbp. binv Hbp. rename a into g6'. rename H into Hbpl. inversion Hbp; subst g6; clear Hbp.
  cbn [emit upd_code g_code g_todo g_labels] in Hbpl.
  match type of Hbpl with backpatch_list ?g _ = _ => set (g5 := g) in * end.
  set (C5 := ([IPrepare N 0 0] ++ blk) ++ [IHalt]).
  assert (EC5 : g_code g5 = C5) by reflexivity.
  assert (ET5 : g_todo g5 = g_todo g3) by reflexivity.
  assert (EL5 : g_labels g5 = g_labels g3) by reflexivity.
  change (backpatch_list g5 (g_todo g3) = Ok g6') in Hbpl.
  destruct (backpatch_list_patch _ _ _ Hbpl (proj1 HT)) as (BL & BM & _ & _ & BA & BB).
  rewrite EC5 in BA, BB. rewrite EL5 in BB.
  set (C6 := g_code g6') in *.
  set (sm := mkSM name_root (stack_map_of regsF 0)).
  set (prg := gr_prog r).
  assert (Ecode : code prg = C6) by (unfold prg; rewrite Hr; reflexivity).
  assert (Emaps : stack_maps prg = [sm]).
  { unfold prg. rewrite Hr. cbn [gen_result gr_prog stack_maps upd_todo g_maps]. rewrite BM. reflexivity. }
  (* ---- the routine and its code ---- *)
  set (rt := finish_routine (bemit (f_cur sF) RHalt)) in *.
  assert (Ert : r_code rt = rcode ++ [RHalt]) by reflexivity.
  assert (Etg : r_targets rt = targets) by reflexivity.
  assert (Evs : r_vars rt = vars) by reflexivity.
  assert (Enm : r_name rt = root_name) by (cbn [rt finish_routine r_name bemit b_name]; exact Fnm).
  rewrite Fd in Hrun. cbn [app] in Hrun. unfold run_ref_chk in Hrun. cbn [length] in Hrun.
  destruct HC as [HClen HCm]. rewrite Hblk in HClen.
  assert (Hlen5 : zlen ([IPrepare N 0 0] ++ blk) = 1 + boff rcode (length rcode)).
  { rewrite zlen_app in *. change (zlen [IPrepare N 0 0]) with 1. change (zlen [IPrepare (-1) (-1) 0]) with 1 in HClen. lia. }
  assert (Hcopy : forall q ins, 1 <= q -> znth (g_code g3) q = Some ins -> znth C5 q = Some ins).
  { intros q ins Hq Hz. rewrite Hblk in Hz. unfold C5. apply znth_app_some.
    rewrite znth_app_r in Hz by (change (zlen [IPrepare (-1) (-1) 0]) with 1; lia).
    rewrite znth_app_r by (change (zlen [IPrepare N 0 0]) with 1; lia). exact Hz. }
  assert (Z0 : znth C6 0 = Some (IPrepare N 0 0)).
  { apply BA; [reflexivity|]. right. intros [E|E]; discriminate E. }
  assert (CM : forall pc i, znth (r_code rt) pc = Some i -> imatch (RMof ksF) C6 (jpost rt 1) (pm rt 1 pc) i).
  { intros pc i Hz. rewrite Ert in Hz. unfold pm. rewrite Ert. apply znth_snoc_inv in Hz. destruct Hz as [[Hlt Hz]|[-> ->]].
    - rewrite pm_of_app by lia.
      assert (Hq1 : 1 <= pm_of 1 rcode pc) by (unfold pm_of; pose proof (boff_nonneg rcode (Z.to_nat pc)); lia).
      eapply (imatch_patch _ C5 C6 (jpre lmapF (g_todo g3)) (jpost rt 1)); [| |eapply imatch_mono; [apply rm_le_refl | | | apply HCm; exact Hz]].
      + intros q' ins Hq' Hzq Hnj. apply BA; [exact Hzq | right; exact Hnj].
      + intros q' ins e' Hq' Hzq Hjm [Hin Hlm].
        destruct (BB _ _ Hzq Hin Hjm) as (tgt & Htg & Hz6). exists (tgt - q'). split; [exact Hz6|].
        destruct HL as (_ & _ & _ & HL4). destruct (HL4 _ _ Hlm) as (_ & _ & lv & t & A & B & Cc & D).
        rewrite A in Htg. inversion Htg; subst tgt. unfold jpost. rewrite Etg. exists t. split; [exact B|].
        intros Ht. unfold pm. rewrite Ert, pm_of_app by lia. rewrite (D Ht). lia.
      + intros q' ins Hq' Hzq. apply Hcopy; [lia | exact Hzq].
      + intros q' f0 e0 _ Hj. exact Hj.
    - cbn [imatch]. rewrite pm_of_app by lia. unfold pm_of, zlen. rewrite Nat2Z.id. rewrite <- Hlen5.
      apply BA; [unfold C5; apply znth_app_last|]. right. intros [E|E]; discriminate E. }
  (* ---- the two machines ---- *)
  assert (ROK : rm_ok (RMof ksF) N) by (unfold N; rewrite <- (zlen_map key regsF); eapply RW_rm_ok; exact HR).
  set (d0 := zrepeat 0 (Z.to_nat N)).
  assert (HN : 0 <= N) by apply zlen_nonneg.
  assert (Ld0 : zlen d0 = N) by (unfold d0, zlen; rewrite zrepeat_length; lia).
  set (act0 := mkAct 0 N 0 (-1) 0).
  set (s1 := mkVM false 1 prg d0 [act0] []).
  assert (E1 : exec1 (init prg) = Ok (s1, false)).
  { unfold exec1, exec1_gen, init. cbn [prog ip]. rewrite Ecode, Z0.
    cbn [of_opt bind iop IPrepare ia ib ic data stepping stack enabled app]. reflexivity. }
  assert (FR : frame_of 0 C6 s1) by (split; [exact Ecode | exists act0, []; split; reflexivity]).
  assert (SR0 : SR (RMof ksF) 0 N (mkRAct [] []) d0).
  { constructor.
    - lia.
    - intros x i Hx. rewrite Z.add_0_l. apply znth_zrepeat. pose proof (rmo_var_rng _ _ ROK _ _ Hx). lia.
    - intros c i Hx. rewrite Z.add_0_l. apply znth_zrepeat. pose proof (rmo_cnt_rng _ _ ROK _ _ Hx). lia.
    - intros x. cbn. unfold INT_MAX. lia.
    - intros c. cbn. unfold INT_MAX. lia. }
  destruct (sim_run [rt] 0%nat rt eq_refl (RMof ksF) 0 N C6 1 ROK CM fuel [] (mkRAct [] []) 0 0%nat [] s1 d0 rviews steps trace
                    FR SR0 Hrun) as (n & pcf & a' & d' & Hvm & Hh & HS' & Hch & Hv & Hs).
  change (pm rt 1 0) with 1 in Hvm. change (vm_at s1 1 d0) with s1 in Hvm.
  set (sE := vm_at s1 (pm rt 1 pcf) d') in *.
  (* ---- the views ---- *)
  assert (HVW : exists vmvars, views sE = Ok [(name_root, vmvars)] /\
            same_values (filter (fun e => user_name (fst e)) vmvars) (map (fun x => (x, get (ra_vars a') x)) vars)).
  { unfold views. change (stack sE) with [act0]. cbn [rev app views_of].
    change (debug_info act0) with 0. change (prog sE) with prg. rewrite Emaps.
    change (znth [sm] 0) with (Some sm). cbn [of_opt bind]. unfold getActivationVariables.
    change (debug_info act0) with 0. change (prog sE) with prg. rewrite Emaps.
    change (znth [sm] 0) with (Some sm). cbn [of_opt bind smap func_name sm].
    change (seg_size act0) with N. change (data_start act0) with 0. change (data sE) with d'.
    destruct (Z.leb_spec N 0) as [Hle|Hgt].
    - exists []. split; [reflexivity|].
      assert (Evars : vars = []).
      { destruct vars as [|x vs] eqn:Ev; [reflexivity|]. exfalso.
        destruct HV as (_ & H2 & _). destruct (H2 x (or_introl eq_refl)) as (_ & i & Hi).
        apply frk_range in Hi. unfold ksF in Hi. rewrite zlen_map in Hi. fold N in Hi. lia. }
      rewrite Evars. split; [intros x v []|intros x v H; discriminate H].
    - destruct (final_views regsF _ vars a' d' HR HV HS') as (vmvars & Erv & Hsame).
      exists vmvars. rewrite Erv. split; [reflexivity | exact Hsame]. }
  destruct HVW as (vmvars & Hviews & Hsame).
  unfold sim_conclusion. fold prg.
  exists (S n), sE, [(name_root, vmvars)].
  split; [rewrite vm_run_S, E1; cbn [bind fst]; exact Hvm|].
  split; [apply (halted_at C6); [exact Ecode | exact Hh]|].
  split; [exact Hviews|].
  split; [|lia].
  rewrite Hv. cbn [app]. constructor; [|constructor].
  unfold view_of. rewrite Enm, Evs. split; [reflexivity | exact Hsame].
Qed.

(* ================================================================================================ *)
(* 4. the hypotheses are satisfiable: a parsed source with nested loops                             *)
(* ================================================================================================ *)
(*   x := 3; LOOP x DO y := y + 2; LOOP y DO w := w + 1 END END; WHILE y != 0 DO y := y - 1; z := z + 1 END
     (one statement per line, END on its own line), as file "p.t" *)
Definition ex_src : str :=
  [120; 32; 58; 61; 32; 51; 59; 10; 76; 79; 79; 80; 32; 120; 32; 68; 79; 10; 32; 32; 121; 32; 58; 61; 32; 
   121; 32; 43; 32; 50; 59; 10; 32; 32; 76; 79; 79; 80; 32; 121; 32; 68; 79; 10; 32; 32; 32; 32; 119; 32; 58; 
   61; 32; 119; 32; 43; 32; 49; 10; 32; 32; 69; 78; 68; 10; 69; 78; 68; 59; 10; 87; 72; 73; 76; 69; 32; 121; 
   32; 33; 61; 32; 48; 32; 68; 79; 10; 32; 32; 121; 32; 58; 61; 32; 121; 32; 45; 32; 49; 59; 10; 32; 32; 122; 
   32; 58; 61; 32; 122; 32; 43; 32; 49; 10; 69; 78; 68; 10]%N.
Definition ex_name : str := [112; 46; 116]%N.

Lemma C01_structured_instance :
  match Compile.parse [(ex_name, ex_src)] ex_name with
  | Ok p =>
      match pr_root p with
      | Some root =>
          match gen true [] (Some root), abstract_source (Some root) with
          | Ok r, Some rs =>
              match run_ref_chk 200 rs with
              | OStop rviews steps trace =>
                  pr_ok p = true /\ structured root = true /\ lexable_names root = true /\ steps = 118%nat /\
                  sim_conclusion r rviews steps
              | _ => False
              end
          | _, _ => False
          end
      | None => False
      end
  | _ => False
  end.
Proof.
  destruct (Compile.parse [(ex_name, ex_src)] ex_name) as [p| |] eqn:Ep; vm_compute in Ep; try discriminate.
  inversion Ep; subst p; clear Ep. cbn [pr_root pr_ok].
  match goal with |- context [gen true [] (Some ?n)] => set (root := n) end.
  destruct (gen true [] (Some root)) as [r| |] eqn:Eg; [|vm_compute in Eg; discriminate..].
  destruct (abstract_source (Some root)) as [rs|] eqn:Ea; [|vm_compute in Ea; discriminate].
  assert (Hrun : exists rviews trace, run_ref_chk 200 rs = OStop rviews 118 trace).
  { vm_compute in Ea. inversion Ea; subst rs. vm_compute. eexists _, _. reflexivity. }
  destruct Hrun as (rviews & trace & Hrun). rewrite Hrun.
  split; [reflexivity|]. split; [vm_compute; reflexivity|]. split; [vm_compute; reflexivity|]. split; [reflexivity|].
  eapply C01_structured_proof; eauto; try (vm_compute; reflexivity).
  vm_compute in Eg. inversion Eg; subst r. reflexivity.
Qed.

Print Assumptions C01_chk_is_run_proof.
Print Assumptions C01_structured_proof.
Print Assumptions C01_structured_instance.
