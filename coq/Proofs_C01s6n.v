(* Proofs_C01s6n.v — C01, stage 6 (any layout), part 12: the STATIC part, the whole tree (Proofs_C01s4n.v over J6). *)
From Coq Require Import List ZArith NArith Lia Bool.
From Theo Require Import Base Tokens Errors MacroExtract Parser VMModel VMSpec GenModel Compile RefSem RefSemChk C01Statements C01Stages C01Stages3 C01Stages4 Gen_Consts Proofs_VM_mem Proofs_VM_dbg Proofs_Gen0 Proofs_Gen Proofs_Sem Proofs_C01a Proofs_C01b Proofs_C01 Proofs_C01s2a Proofs_C01s2b Proofs_C01s2c Proofs_C01s2d Proofs_C01s2 Proofs_C01s3a Proofs_C01s3b Proofs_C01s3c Proofs_C01s3d Proofs_C01s4a Proofs_C01s4b Proofs_C01s4g Proofs_C01s4h Proofs_C01s4i Proofs_C01s4j Proofs_C01s4k Proofs_C01s4l Proofs_C01s4m Proofs_C01s4n Proofs_C01s6a Proofs_C01s6g Proofs_C01s6h Proofs_C01s6i Proofs_C01s6j Proofs_C01s6k Proofs_C01s6l Proofs_C01s6m.
Import ListNotations.
Local Open Scope Z_scope.

Lemma PI6_init W s0 : f_done s0 = [] -> f_names s0 = [] -> f_cur s0 = mkB root_name [] [] [] [] [] ->
  f_pos s0 = gpos ginit -> f_loops s0 = 0 ->
  PI6 W (fun _ => None) [] [] ginit s0.
Proof.
  intros Hd Hn Hc Hp Hl. constructor.
  - reflexivity.
  - exact Hc.
  - exact Hp.
  - rewrite Hl. split; [reflexivity | change (g_loops ginit) with 0; lia].
  - split; [constructor | intros q []].
  - reflexivity.
  - rewrite Hd. split; reflexivity.
  - intros j r P0 regs lo hi H. rewrite Hd in H. destruct j; discriminate H.
  - reflexivity.
  - intros name j H. rewrite Hn in H. discriminate H.
  - split; [reflexivity | intros lab []].
  - change (g_code ginit) with [IPrepare (-1) (-1) 0]. cbn. lia.
  - reflexivity.
Qed.

(* ================================================================================================ *)
(* 3. all definitions, then the main program                                                        *)
(* ================================================================================================ *)
Lemma spine6 (W : rvalue -> Prop) ol :
  (forall f l v, ol f l v = true -> on_line f l v = true \/ (forall s s' rv, flat_value v s = Some (s', rv) -> W rv)) ->
  forall n, prog4 ol n = true -> headers4 n = true -> lexable_names n = true ->
  forall FT infos pre g s g' s', PI6 W FT infos pre g s ->
    dispatch_void false false false n g = Ok g' -> flat_stmt n s = Some s' ->
    exists FT' infos' pre' gm sm lmap,
      PI6 W FT' infos' pre' gm sm /\ J6 (zlen (g_code gm)) FT' (g_labels gm) W 0 g' s' lmap 0 /\
      Proofs_C01s2c.Ext gm g' /\ FExt sm s'.
Proof.
  intros Hol. induction n as [t line file tok l r IHl IHr] using node_ind'. intros Hp Hh Hlex FT infos pre g s g' s' HPI HD HF.
  assert (Hmain : forall FT infos pre g s n g' s', PI6 W FT infos pre g s -> body4 ol n = true -> lexable_names n = true ->
            dispatch_void false false false n g = Ok g' -> flat_stmt n s = Some s' ->
            exists FT' infos' pre' gm sm lmap,
              PI6 W FT' infos' pre' gm sm /\ J6 (zlen (g_code gm)) FT' (g_labels gm) W 0 g' s' lmap 0 /\
              Proofs_C01s2c.Ext gm g' /\ FExt sm s').
  { clear - ol Hol. intros FT infos pre g s n g' s' HPI Hb Hlex HD HF.
    assert (J0 : J6 (zlen (g_code g)) FT (g_labels g) W 0 g s [] 0).
    { destruct HPI as [Psyms Pcur Ppos [Ploops PL0] Pjt Plast _ _ _ _ _ _ _].
      apply J6_start; auto.
      - rewrite Psyms. discriminate.
      - unfold gmarks. rewrite Psyms. reflexivity.
      - rewrite Pcur. reflexivity.
      - rewrite Pcur. reflexivity.
      - rewrite Pcur. reflexivity.
      - unfold gks, gregs. rewrite Psyms. cbn [hd_error f_regs map]. apply RW_nil; try exact PL0.
      - unfold gks, gregs. rewrite Psyms, Pcur. cbn [hd_error f_regs map b_vars]. apply JV_nil. }
    destruct (joint_walk6 _ FT _ W ol Hol n Hb Hlex g s [] g' s' J0 (pi6_gf _ _ _ _ _ _ HPI) HD HF) as (lmap & J1 & X1 & F1 & _).
    exists FT, infos, pre, g, s, lmap. auto. }
  destruct (prog4_inv _ _ Hp) as [(sl & sf & st & pl & pf & ptok & hl & hf & htok & name & port & bl & bf & btok & body & ml & mf & mtok & e & more & En & Hn & Hpo & He & Hb & Hm)|Hb];
    [|exact (Hmain _ _ _ _ _ _ _ _ HPI Hb Hlex HD HF)].
  inversion En; subst t line file tok l r; clear En.
  destruct (leaf_name_inv _ Hn) as (nl & nf & nname & ->). destruct (leaf_name_inv _ He) as (el & ef & etok & ->).
  cbn [headers4] in Hh. apply andb_true_iff in Hh. destruct Hh as [Hon Hhm].
  cbn [lexable_names] in Hlex. rewrite !andb_true_iff in Hlex.
  destruct Hlex as [[_ [[_ [[_ _] Hlp]] [[_ Hlb] _]]] Hlm].
  rewrite dvoid_split in HD. cbn [dvo] in HD.
  rewrite flat_stmt_eq in HF. cbn [fs_body] in HF. unfold fs_split in HF. cbn [fsub] in HF.
  match type of HD with context [dispatch_void false false false ?pn ?g0] =>
    destruct (dispatch_void false false false pn g0) as [g1| |] eqn:E1; cbn [bind] in HD; try discriminate end.
  match type of HF with context [flat_stmt ?pn ?s0] =>
    destruct (flat_stmt pn s0) as [s1|] eqn:EF1; [|discriminate] end.
  destruct (def_step6 W ol _ _ _ _ _ _ _ _ _ _ _ _ _ _ _ _ _ _ _ _ _ _ _ _ _ _ _ _ _ Hol HPI Hon Hpo Hb Hlp Hlb E1 EF1)
    as (FT1 & info & q & lab & HPI1 & _).
  destruct more as [m|].
  - cbn [dvo] in HD. cbn [fsub] in HF. cbn [optP] in IHr.
    exact (IHr Hm Hhm Hlm _ _ _ _ _ _ _ HPI1 HD HF).
  - cbn [dvo] in HD. cbn [fsub] in HF. inversion HD; subst g'. inversion HF; subst s'.
    destruct HPI1 as [Psyms Pcur Ppos [Ploops PL0] Pjt Plast Q1 Q2 Q3 Q4 Q5 Q6 Q7].
    exists FT1, (infos ++ [info]), (pre ++ [(q, lab)]), g1, s1, [].
    split; [constructor; auto|]. split; [|split; [apply Ext_refl; rewrite Psyms; discriminate | apply FExt_refl]].
    apply J6_start; auto.
    + rewrite Psyms. discriminate.
    + unfold gmarks. rewrite Psyms. reflexivity.
    + rewrite Pcur. reflexivity.
    + rewrite Pcur. reflexivity.
    + rewrite Pcur. reflexivity.
    + unfold gks, gregs. rewrite Psyms. cbn [hd_error f_regs map]. apply RW_nil; try exact PL0.
    + unfold gks, gregs. rewrite Psyms, Pcur. cbn [hd_error f_regs map b_vars]. apply JV_nil.
Qed.
