(* MacroApply.v — model of the second half of Compiler/src/macro.cpp (278-546): MacroDetector
   (detector grammar + the macro's own rule, LR(1) tables in prefix mode, constraint check, detect),
   get_replacement, apply_macros (usable detectors, priority bins, leftmost-longest choice, one
   rewrite per pass, pass budget). *)
From Theo Require Import Base Tokens Errors MacroExtract Grammar LR Gen_MacroGrammar Gen_Consts.
Local Open Scope Z_scope.

(* Accumulation { total_sequence; split_sequence } *)
Definition accum := (list token * list (list token))%type.

Definition gsym_to_sym (s : gsym) : sym :=
  match s with T k => Tm (tk_num k) | NT n => Nt (N.of_nat n) end.

(* the fixed part of the detector grammar: detector_nonterminals non-terminals, detector_rules *)
Definition base_grammar : grammar :=
  let g0 := mkG (N.of_nat detector_nonterminals) [] [] 0 in
  fold_left (fun g r => add_rule g (Nt (N.of_nat (fst r))) (map gsym_to_sym (snd r))) detector_rules g0.

(* pattern token -> grammar symbol (the switch of macro.cpp:344-363) *)
Definition pattern_sym (t : token) : sym :=
  match slot_nonterminal (tk t) with
  | Some n => Nt (N.of_nat n)
  | None => Tm (tk_num (tk t))
  end.

Definition macro_sym : sym := Nt (N.of_nat nt_MACRO).
Definition detector_grammar (m : macrodef) : grammar :=
  add_rule base_grammar macro_sym (map pattern_sym (m_rule m)).

(* semantic actions: default_accumulator for the fixed rules, the splitting action for MACRO *)
Definition semantic (lhs : sym) (alt : N) (popped : list accum) : accum :=
  if sym_eqb lhs macro_sym then
    (concat (map fst popped), rev (map fst popped))
  else
    (concat (map fst (rev popped)), []).
Definition creator (t : token) : accum := ([t], [[t]]).
Definition translator (t : token) : N := tk_num (tk t).

Record detector := mkDet { d_macro : macrodef; d_tab : tables; d_conflicts : list conflict }.

Definition max_states : nat := 20000.

Definition make_detector (m : macrodef) : result detector :=
  do r <- generate_tables max_states (detector_grammar m) detector_prefix_mode
                          (Nt (N.of_nat detector_start)) (Tm (tk_num detector_eof));
  let '(_, tab, confs, _) := r in
  Ok (mkDet m tab confs).

(* getErrors: one MACRO_COMPILE_NON_LR at the first pattern token (md.rule.begin() of an empty rule is undefined) *)
Definition detector_errors (d : detector) : result (list perr) :=
  match d_conflicts d with
  | [] => Ok []
  | _ =>
      match m_rule (d_macro d) with
      | [] => UB ub_iter
      | t :: _ => Ok [mkPerr e_macro_non_lr (tfile t) (tline t) []]
      end
  end.

(* check_constraint *)
Fixpoint check_constraint (rule : list token) (matched : list (list token)) (cc : list Z) : result bool :=
  match cc with
  | [] => Ok true
  | c :: rest =>
      do req <- of_opt ub_index (znth rule c);
      do found <- of_opt ub_index (znth matched c);
      match found with
      | [f] => if str_eqb (ttext f) (ttext req) then check_constraint rule matched rest else Ok false
      | _ => Ok false
      end
  end.

Record response := mkResp { r_location : Z; r_length : Z; r_matched : list (list token) }.

Definition parse_fuel (input : list token) : nat := (40 * length input + 100)%nat.

(* detect: the first position at which the prefix parser accepts and the constraints hold *)
Fixpoint detect_from (d : detector) (input : list token) (i : Z) : result (option response) :=
  match input with
  | [] => Ok None
  | _ :: rest =>
      do p <- parse translator creator semantic (d_tab d) (parse_fuel input) input;
      match p with
      | Some (total, split) =>
          do ok <- check_constraint (m_rule (d_macro d)) split (m_cc (d_macro d));
          if ok then Ok (Some (mkResp i (zlen total) split)) else detect_from d rest (i + 1)
      | None => detect_from d rest (i + 1)
      end
  end.
Definition detect (d : detector) (input : list token) : result (option response) := detect_from d input 0.

(* strToIntSilent: (int) strtol *)
Definition strToIntSilent (s : str) : Z := wrap_int (strtol s).

(* the name a temporary gets: text ":" file ":" line-of-first-body-token "_(M" pass ")" *)
Definition temp_name (text file : str) (line pass : Z) : str :=
  text ++ temp_sep1 ++ file ++ temp_sep2 ++ dec_z line ++ temp_sep3 ++ dec_z pass ++ temp_sep4.

(* get_replacement *)
Fixpoint instantiate (m : macrodef) (first_line : Z) (matched : list (list token)) (pass : Z) (body : list token)
  : result (list token) :=
  match body with
  | [] => Ok []
  | cand :: rest =>
      do more <- instantiate m first_line matched pass rest;
      match tk cand with
      | INSERTION =>
          let ind := strToIntSilent (tl (ttext cand)) in
          do slot <- of_opt ub_index (znth (m_tt m) ind);
          do ins <- of_opt ub_index (znth matched slot);
          Ok (ins ++ more)
      | TEMP_VAL =>
          Ok (mkTok ID (temp_name (ttext cand) (tfile cand) first_line pass) (tfile cand) (tline cand) :: more)
      | _ => Ok (cand :: more)
      end
  end.

Definition get_replacement (m : macrodef) (r : response) (pass : Z) : result (list token) :=
  match m_repl m with
  | [] => Ok []
  | t0 :: _ => instantiate m (tline t0) (r_matched r) pass (m_repl m)
  end.

(* the comparator of std::min_element; [legacy] is the pinned, not-an-order version (defect D10) *)
Definition better (legacy : bool) (a b : response) : bool :=
  if r_location a <? r_location b then true
  else if r_location b <? r_location a then false
  else if r_length b <? r_length a then true
  else if legacy then r_length a <? r_length b else false.

(* std::min_element: the first element such that no other is smaller, scanning left to right *)
Fixpoint min_element (legacy : bool) (best : detector * response) (l : list (detector * response)) : detector * response :=
  match l with
  | [] => best
  | x :: rest => if better legacy (snd x) (snd best) then min_element legacy x rest else min_element legacy best rest
  end.

Fixpoint detect_all (ds : list detector) (input : list token) : result (list (detector * response)) :=
  match ds with
  | [] => Ok []
  | d :: rest =>
      do r <- detect d input;
      do more <- detect_all rest input;
      match r with Some x => Ok ((d, x) :: more) | None => Ok more end
  end.

(* one bin: Some new_input when a macro of this bin was applied *)
Definition try_bin (legacy : bool) (ds : list detector) (input : list token) (pass : Z) : result (option (list token)) :=
  do found <- detect_all ds input;
  match found with
  | [] => Ok None
  | x :: rest =>
      let '(d, r) := min_element legacy x rest in
      do repl <- get_replacement (d_macro d) r pass;
      let loc := Z.to_nat (r_location r) in
      let len := Z.to_nat (r_length r) in
      if (zlen input <? r_location r + r_length r) then UB ub_iter
      else Ok (Some (firstn loc input ++ repl ++ skipn (loc + len) input))
  end.

(* bins from the highest priority down; stop at the first bin that rewrites *)
Fixpoint try_bins (legacy : bool) (bins : list (Z * list detector)) (input : list token) (pass : Z)
  : result (option (list token)) :=
  match bins with
  | [] => Ok None
  | (_, ds) :: rest =>
      do r <- try_bin legacy ds input pass;
      match r with Some i => Ok (Some i) | None => try_bins legacy rest input pass end
  end.

(* the pass loop: passes is the budget, pass counts from 0 *)
Fixpoint pass_loop (legacy : bool) (n : nat) (bins : list (Z * list detector)) (input : list token) (pass : Z)
  : result (list token * bool) :=            (* result, changed-in-the-last-pass *)
  match n with
  | O => Ok (input, false)
  | S k =>
      do r <- try_bins legacy bins input pass;
      match r with
      | None => Ok (input, false)
      | Some input' =>
          match k with
          | O => Ok (input', true)
          | _ => pass_loop legacy k bins input' (pass + 1)
          end
      end
  end.

Fixpoint make_detectors (defs : list macrodef) : result (list detector) :=
  match defs with
  | [] => Ok []
  | m :: rest => do d <- make_detector m; do more <- make_detectors rest; Ok (d :: more)
  end.

Fixpoint split_usable (ds : list detector) : result (list perr * list detector) :=
  match ds with
  | [] => Ok ([], [])
  | d :: rest =>
      do e <- detector_errors d;
      do r <- split_usable rest;
      match e with
      | [] => Ok (fst r, d :: snd r)
      | _ => Ok (e ++ fst r, snd r)
      end
  end.

(* std::map<int, vector<MacroDetector>> in ascending key order; detectors keep definition order *)
Definition add_bin (bins : list (Z * list detector)) (d : detector) : list (Z * list detector) :=
  let p := m_priority (d_macro d) in
  match alookup Z.ltb bins p with
  | Some l => ainsert Z.ltb bins p (l ++ [d])
  | None => ainsert Z.ltb bins p [d]
  end.

Definition apply_macros_gen (legacy : bool) (input : list token) (defs : list macrodef) (passes : nat)
  : result (list perr * list token) :=
  do ds <- make_detectors defs;
  do su <- split_usable ds;
  let '(errs, usable) := su in
  let bins := rev (fold_left add_bin usable []) in
  do r <- pass_loop legacy passes bins input 0;
  let '(out, changed) := r in
  Ok (if changed then errs ++ [mkPerr e_macro_max_passes [45%N] (-1) []] else errs, out).

Definition apply_macros := apply_macros_gen false.
