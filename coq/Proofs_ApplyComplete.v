(* Proofs_ApplyComplete.v — completeness of macro detection (C09) and the unbounded rejection families (C12).
   Statements: ApplyCompleteStatements.v.  Helpers: Proofs_ApplyComplete0.v.

   Proved as stated:
     C12_not_prefix_free_rejected_proof : C12_not_prefix_free_rejected_stmt
     C12_open_ended_proof               : C12_open_ended_stmt
     C12_trailing_sep_proof             : C12_trailing_sep_stmt

   FALSE as stated (refuted below by a concrete macro and stream), proved with one extra hypothesis:
     C09_detect_complete_stmt_false, C09_best_stmt_false, C09_none_complete_stmt_false
     C09_detect_complete_partial, C09_best_partial, C09_none_complete_partial
   The tables of a detector have max_used_terminal + 1 columns; the fixed part of the detector grammar uses
   the token kinds up to WITH (37), so a token of kind UNKNOWN (38) has no column unless the pattern itself
   contains an UNKNOWN literal.  The driver answers "no match" as soon as the look-ahead has no column
   (lrparser.hpp: `if (a >= row.size()) return nullopt`), and the prefix parser needs the token AFTER an
   occurrence as look-ahead for its last reductions.  Hence an occurrence that is directly followed by an
   UNKNOWN token is not detected:  DEFINE <ID> AS ... on the stream  x ? EOF  (pattern [ID_TEMP], stream
   [ID; UNKNOWN; T_EOF]) reports nothing although `x` is an occurrence at position 0.
   What changed in the *_partial statements: `occurs_at` is replaced by `occurs_at_col`, which adds
   `has_column m tok` for the token after the occurrence (tk tok <> UNKNOWN, or the pattern has an UNKNOWN
   literal).  Corollaries *_noUNKNOWN: the original statements for streams without UNKNOWN tokens. *)
From Coq Require Import List ZArith NArith Lia Bool Sorting.Sorted.
From Theo Require Import Base Tokens Errors MacroExtract Grammar LR Gen_MacroGrammar Gen_Consts MacroApply SpecMacro SpecLR
                         CompileStatements ApplyStatements MacroStatements LRStatements LRCompleteStatements
                         ApplyCompleteStatements Proofs_LRSound0 Proofs_LRSound Proofs_LRComplete0 Proofs_LRComplete
                         Proofs_Macro Proofs_Apply0 Proofs_Apply.
From Theo Require Import Proofs_ApplyComplete0.
Import ListNotations.
Local Open Scope Z_scope.

(* ================================================================================================ *)
(* 1. detection is complete                                                                           *)
(* ================================================================================================ *)
Lemma detect_from_complete m g' tab states parts :
  macro_ok m -> gen_of m = Ok (g', tab, [], states) -> matches_parts m parts ->
  forall loc input i res tok rest,
    detect_from (mkDet m tab []) input i = Ok res ->
    skipn loc input = concat parts ++ tok :: rest -> has_column m tok ->
    exists r, res = Some r /\ r_location r <= i + Z.of_nat loc /\
      (r_location r = i + Z.of_nat loc -> r_matched r = parts /\ r_length r = zlen (concat parts)).
Proof.
  intros MO HG MP. pose proof (macro_ok_rule m MO) as R.
  induction loc as [|l IH]; intros input i res tok rest HD HS HC.
  - cbn [skipn] in HS. destruct input as [|x rest0]; [destruct (concat parts); discriminate|].
    rewrite detect_from_cons in HD. cbn [d_tab d_macro] in HD.
    apply bind_ok in HD. destruct HD as (p & Hp & HD).
    destruct (usable_parse m g' tab states parts tok rest MO HG MP
                (or_intror (has_column_col m _ _ _ _ tok R HG HC))) as (n & Hn).
    rewrite <- HS in Hn. pose proof (parse_ok_unique _ _ _ _ _ _ _ _ _ Hp Hn) as E. subst p.
    rewrite (occurrence_constraints m parts MO MP) in HD. cbn [bind] in HD. inversion HD; subst res.
    eexists. split; [reflexivity|]. cbn [r_location r_length r_matched]. split; [lia|]. intros _.
    split; [reflexivity|]. unfold zlen. rewrite length_concat_rev. reflexivity.
  - destruct input as [|x rest0]; [cbn [skipn] in HS; destruct (concat parts); discriminate|].
    cbn [skipn] in HS. rewrite detect_from_cons in HD. cbn [d_tab d_macro] in HD.
    apply bind_ok in HD. destruct HD as (p & Hp & HD).
    assert (REC : detect_from (mkDet m tab []) rest0 (i + 1) = Ok res ->
                  exists r, res = Some r /\ r_location r <= i + Z.of_nat (S l) /\
                    (r_location r = i + Z.of_nat (S l) ->
                     r_matched r = parts /\ r_length r = zlen (concat parts))).
    { intros H'. destruct (IH rest0 (i + 1) res tok rest H' HS HC) as (r & E & L & Q).
      exists r. split; [exact E|]. rewrite Nat2Z.inj_succ. split; [lia|]. intros K. apply Q. lia. }
    destruct p as [[total split]|]; [|apply REC; exact HD].
    apply bind_ok in HD. destruct HD as (ok & Hok & HD). destruct ok; [|apply REC; exact HD].
    inversion HD; subst res. eexists. split; [reflexivity|]. cbn [r_location r_length r_matched].
    rewrite Nat2Z.inj_succ. split; [lia|]. intros K. lia.
Qed.

(* an occurrence whose following token has a column in the detector's tables *)
Definition occurs_at_col (m : macrodef) (input : list token) (loc : nat) (parts : list (list token)) : Prop :=
  matches_parts m parts /\ (loc <= length input)%nat /\
  exists tok rest, skipn loc input = concat parts ++ tok :: rest /\ has_column m tok.

Lemma occurs_at_col_occurs m input loc parts : occurs_at_col m input loc parts -> occurs_at m input loc parts.
Proof. intros (A & B & tok & rest & C & _). split; [exact A|]. split; [exact B|]. eauto. Qed.

Lemma occurs_noUNKNOWN m input loc parts : Forall (fun t => tk t <> UNKNOWN) input ->
  occurs_at m input loc parts -> occurs_at_col m input loc parts.
Proof.
  intros F (A & B & tok & rest & C). split; [exact A|]. split; [exact B|]. exists tok, rest. split; [exact C|].
  left. rewrite Forall_forall in F. apply F. apply (In_skipn_l loc). rewrite C. apply in_or_app. right. left. reflexivity.
Qed.

Definition C09_detect_complete_partial_stmt : Prop :=
  forall m d input res loc parts,
    macro_ok m -> make_detector m = Ok d -> d_conflicts d = [] ->
    detect d input = Ok res ->
    occurs_at_col m input loc parts ->
    exists r, res = Some r /\ r_location r <= Z.of_nat loc /\
              (r_location r = Z.of_nat loc -> r_matched r = parts /\ r_length r = zlen (concat parts)).

Lemma C09_detect_complete_partial : C09_detect_complete_partial_stmt.
Proof.
  intros m d input res loc parts MO HM HC HD (MP & _ & tok & rest & HS & HCol).
  destruct (make_detector_inv _ _ HM) as (g' & tab & confs & states & HG & ->).
  cbn [d_conflicts] in HC. subst confs. unfold detect in HD.
  destruct (detect_from_complete m g' tab states parts MO HG MP loc input 0 res tok rest HD HS HCol)
    as (r & E & L & Q).
  exists r. split; [exact E|]. split; [lia|]. intros K. apply Q. lia.
Qed.

Definition C09_detect_complete_noUNKNOWN_stmt : Prop :=
  forall m d input res loc parts,
    macro_ok m -> make_detector m = Ok d -> d_conflicts d = [] ->
    Forall (fun t => tk t <> UNKNOWN) input ->
    detect d input = Ok res ->
    occurs_at m input loc parts ->
    exists r, res = Some r /\ r_location r <= Z.of_nat loc /\
              (r_location r = Z.of_nat loc -> r_matched r = parts /\ r_length r = zlen (concat parts)).

Lemma C09_detect_complete_noUNKNOWN : C09_detect_complete_noUNKNOWN_stmt.
Proof.
  intros m d input res loc parts MO HM HC F HD HO.
  apply (C09_detect_complete_partial m d input res loc parts MO HM HC HD). apply occurs_noUNKNOWN; assumption.
Qed.

(* ================================================================================================ *)
(* 2. the detectors in the bins; which detectors a step looked at                                      *)
(* ================================================================================================ *)
(* a usable detector of a well-formed macro *)
Definition udet (d : detector) : Prop :=
  macro_ok (d_macro d) /\ make_detector (d_macro d) = Ok d /\ d_conflicts d = [].

Lemma make_detectors_good : forall defs ds, Forall macro_ok defs -> make_detectors defs = Ok ds ->
  Forall (fun d => macro_ok (d_macro d) /\ make_detector (d_macro d) = Ok d) ds.
Proof.
  induction defs as [|m defs IH]; intros ds F H.
  - cbn [make_detectors] in H. inversion H. constructor.
  - inversion F as [|m' r' MO Fr]; subst. rewrite make_detectors_cons in H.
    apply bind_ok in H. destruct H as (d & Hd & H). apply bind_ok in H. destruct H as (more & Hm & H).
    inversion H; subst ds. constructor; [|apply IH; assumption].
    rewrite (gdet_macro d m Hd). split; assumption.
Qed.

Lemma add_bin_P (P : detector -> Prop) bins d :
  (forall p l x, In (p, l) bins -> In x l -> P x) -> P d ->
  forall p l x, In (p, l) (add_bin bins d) -> In x l -> P x.
Proof.
  intros HB HD p l x HI Hx. unfold add_bin in HI.
  destruct (alookup Z.ltb bins (m_priority (d_macro d))) as [l0|] eqn:EL;
    apply ainsert_in in HI; destruct HI as [HI|HI]; try (eapply HB; eassumption); inversion HI; subst.
  - apply in_app_or in Hx. destruct Hx as [Hx|[<-|[]]]; [|exact HD].
    apply alookup_in in EL. eapply HB; eassumption.
  - destruct Hx as [<-|[]]. exact HD.
Qed.

Lemma fold_add_bin_P (P : detector -> Prop) : forall us bins,
  (forall p l x, In (p, l) bins -> In x l -> P x) -> Forall P us ->
  forall p l x, In (p, l) (fold_left add_bin us bins) -> In x l -> P x.
Proof.
  induction us as [|u us IH]; intros bins HB F; cbn [fold_left]; [exact HB|].
  inversion F as [|u' r' Hu Fr]; subst. apply IH; [|exact Fr]. apply add_bin_P; assumption.
Qed.

Lemma bins_udet defs errs bins : Forall macro_ok defs -> prepare defs = Ok (errs, bins) ->
  forall p ds d, In (p, ds) bins -> In d ds -> udet d.
Proof.
  intros F H. apply prepare_inv in H. destruct H as (ds0 & us & HM & HS & ->).
  pose proof (make_detectors_good defs ds0 F HM) as G.
  destruct (C12_reported_proof ds0 errs us HS) as [EU _].
  assert (FU : Forall udet us).
  { rewrite EU. rewrite Forall_forall in *. intros d Hd. apply filter_In in Hd. destruct Hd as [Hd U].
    destruct (G d Hd) as [A B]. split; [exact A|]. split; [exact B|].
    unfold is_usable in U. destruct (d_conflicts d); [reflexivity|discriminate]. }
  intros p ds d HI Hd. apply in_rev in HI.
  eapply (fold_add_bin_P udet us []); [|exact FU|exact HI|exact Hd]. intros p0 l0 x0 [].
Qed.

Lemma detect_all_ok : forall ds input found, detect_all ds input = Ok found ->
  forall d, In d ds -> exists res, detect d input = Ok res.
Proof.
  induction ds as [|d0 ds IH]; intros input found H d Hd; [destruct Hd|].
  rewrite detect_all_cons in H. apply bind_ok in H. destruct H as (r0 & Hd0 & H).
  apply bind_ok in H. destruct H as (more & Hm & H).
  destruct Hd as [<-|Hd]; [eauto|]. eapply IH; eassumption.
Qed.

Lemma detect_all_nil : forall ds input, detect_all ds input = Ok [] ->
  forall d, In d ds -> detect d input = Ok None.
Proof.
  intros ds input H d Hd. destruct (detect_all_ok ds input [] H d Hd) as (res & E).
  destruct res as [r|]; [|exact E]. destruct (detect_all_complete ds input [] H d r Hd E).
Qed.

Lemma reported_prio bins input c : bins_ok bins -> reported bins input c ->
  exists ds, In (prio c, ds) bins /\ In (fst c) ds.
Proof.
  intros [_ HP] (p & ds & HI & Hd & _). exists ds. unfold prio. rewrite (HP p ds (fst c) HI Hd). auto.
Qed.

(* the bins of priority at least that of the step's candidate were all examined: their detectors returned *)
Lemma try_bins_looked : forall bins input pass out, bins_ok bins ->
  try_bins false bins input pass = Ok (Some out) ->
  forall c, reported bins input c -> (forall c', reported bins input c' -> at_least_as_good c c') ->
  forall p ds d, In (p, ds) bins -> In d ds -> prio c <= p -> exists res, detect d input = Ok res.
Proof.
  induction bins as [|[k ds0] bins IH]; intros input pass out Hok Htry c Hrep Hbest p ds d HI Hd Hp.
  - destruct HI.
  - rewrite try_bins_cons in Htry. apply bind_ok in Htry. destruct Htry as (r0 & Hbin & Hrest).
    pose proof (bins_ok_tail _ _ Hok) as Hok'. pose proof Hok as [Hsorted Hprio].
    apply StronglySorted_inv in Hsorted. destruct Hsorted as [_ Hall]. rewrite Forall_forall in Hall.
    destruct r0 as [o|].
    + apply try_bin_some in Hbin.
      destruct Hbin as (x & rest & d0 & r0 & repl & Hda & Hmin & _).
      destruct HI as [E|HI]; [inversion E; subst; eapply detect_all_ok; eassumption|].
      exfalso. destruct (min_element_spec x rest) as [Hin _]. rewrite Hmin in Hin.
      destruct (detect_all_sound _ _ _ Hda _ _ Hin) as [Hd0 Hdet0].
      assert (R0 : reported ((k, ds0) :: bins) input (d0, r0)).
      { exists k, ds0. cbn [fst snd]. split; [left; reflexivity|]. split; assumption. }
      pose proof (Hbest _ R0) as AG. unfold at_least_as_good in AG.
      assert (P0 : prio (d0, r0) = k) by (unfold prio; cbn [fst]; apply (Hprio k ds0); [left; reflexivity|exact Hd0]).
      rewrite P0 in AG.
      destruct (reported_prio _ _ _ Hok Hrep) as (dsc & HIc & _).
      assert (PC : prio c <= k).
      { destruct HIc as [E|HIc]; [inversion E; lia|]. specialize (Hall _ HIc). cbn [fst] in Hall. lia. }
      specialize (Hall _ HI). cbn [fst] in Hall. lia.
    + apply try_bin_none in Hbin.
      destruct HI as [E|HI]; [inversion E; subst; eapply detect_all_ok; eassumption|].
      assert (TL : forall c0, reported ((k, ds0) :: bins) input c0 -> reported bins input c0).
      { intros c0 (p0 & l0 & HI0 & Hd0 & Hdet0). destruct HI0 as [E|HI0].
        - inversion E; subst. destruct (detect_all_complete _ _ _ Hbin _ _ Hd0 Hdet0).
        - exists p0, l0. auto. }
      apply (IH input pass out Hok' Hrest c (TL c Hrep)) with (p := p) (ds := ds); auto.
      intros c' (p' & l' & HI' & Hd' & Hdet'). apply Hbest. exists p', l'. split; [right; exact HI'|]. split; assumption.
Qed.

Lemma try_bins_none_all : forall bins input pass, try_bins false bins input pass = Ok None ->
  forall p ds d, In (p, ds) bins -> In d ds -> detect d input = Ok None.
Proof.
  induction bins as [|[k ds0] bins IH]; intros input pass Htry p ds d HI Hd; [destruct HI|].
  rewrite try_bins_cons in Htry. apply bind_ok in Htry. destruct Htry as (r0 & Hbin & Hrest).
  destruct r0 as [o|]; [discriminate|]. apply try_bin_none in Hbin.
  destruct HI as [E|HI]; [inversion E; subst; eapply detect_all_nil; eassumption|].
  eapply IH; eassumption.
Qed.

(* ================================================================================================ *)
(* 3. C09_best, C09_none_complete                                                                      *)
(* ================================================================================================ *)
Definition C09_best_partial_stmt : Prop :=
  forall defs errs bins input pass out,
    Forall macro_ok defs -> prepare defs = Ok (errs, bins) ->
    try_bins false bins input pass = Ok (Some out) ->
    exists c, reported bins input c /\ rewrite_with input c pass out /\
      forall p ds d' loc' parts', In (p, ds) bins -> In d' ds ->
        occurs_at_col (d_macro d') input loc' parts' ->
        p < prio c \/
        (p = prio c /\ (loc c < Z.of_nat loc' \/ (loc c = Z.of_nat loc' /\ zlen (concat parts') <= len c))).

Lemma C09_best_partial : C09_best_partial_stmt.
Proof.
  intros defs errs bins input pass out F HP Htry.
  pose proof (C09_bins_ok_proof defs errs bins HP) as Hok.
  destruct (C09_choice_proof bins input pass out Hok Htry) as (c & Hrep & Hrw & Hbest).
  exists c. split; [exact Hrep|]. split; [exact Hrw|].
  intros p ds d' loc' parts' HI Hd' Hocc.
  destruct (Z.lt_ge_cases p (prio c)) as [LT|GE]; [left; exact LT|]. right.
  destruct (try_bins_looked bins input pass out Hok Htry c Hrep Hbest p ds d' HI Hd' GE) as (res & Hdet).
  destruct (bins_udet defs errs bins F HP p ds d' HI Hd') as (MO & HM & HC).
  destruct (C09_detect_complete_partial (d_macro d') d' input res loc' parts' MO HM HC Hdet Hocc)
    as (r' & -> & Hle & Heq).
  assert (R' : reported bins input (d', r')).
  { exists p, ds. cbn [fst snd]. split; [exact HI|]. split; assumption. }
  pose proof (Hbest _ R') as AG. unfold at_least_as_good in AG.
  assert (P' : prio (d', r') = p) by (unfold prio; cbn [fst]; apply (proj2 Hok p ds); assumption).
  rewrite P' in AG. unfold loc, len in *. cbn [fst snd] in AG.
  destruct AG as [A|[A [B|[B C]]]]; [lia| |].
  - split; [lia|]. left. lia.
  - split; [lia|]. destruct (Z.eq_dec (r_location r') (Z.of_nat loc')) as [E|NE].
    + right. split; [lia|]. destruct (Heq E) as [_ L]. lia.
    + left. lia.
Qed.

Definition C09_none_complete_partial_stmt : Prop :=
  forall defs errs bins input pass,
    Forall macro_ok defs -> prepare defs = Ok (errs, bins) ->
    try_bins false bins input pass = Ok None ->
    forall p ds d' loc' parts', In (p, ds) bins -> In d' ds -> ~ occurs_at_col (d_macro d') input loc' parts'.

Lemma C09_none_complete_partial : C09_none_complete_partial_stmt.
Proof.
  intros defs errs bins input pass F HP Htry p ds d' loc' parts' HI Hd' Hocc.
  pose proof (try_bins_none_all bins input pass Htry p ds d' HI Hd') as Hdet.
  destruct (bins_udet defs errs bins F HP p ds d' HI Hd') as (MO & HM & HC).
  destruct (C09_detect_complete_partial (d_macro d') d' input None loc' parts' MO HM HC Hdet Hocc)
    as (r' & E & _). discriminate.
Qed.

(* the original statements, for streams without UNKNOWN tokens *)
Definition C09_best_noUNKNOWN_stmt : Prop :=
  forall defs errs bins input pass out,
    Forall macro_ok defs -> prepare defs = Ok (errs, bins) ->
    Forall (fun t => tk t <> UNKNOWN) input ->
    try_bins false bins input pass = Ok (Some out) ->
    exists c, reported bins input c /\ rewrite_with input c pass out /\
      forall p ds d' loc' parts', In (p, ds) bins -> In d' ds ->
        occurs_at (d_macro d') input loc' parts' ->
        p < prio c \/
        (p = prio c /\ (loc c < Z.of_nat loc' \/ (loc c = Z.of_nat loc' /\ zlen (concat parts') <= len c))).

Lemma C09_best_noUNKNOWN : C09_best_noUNKNOWN_stmt.
Proof.
  intros defs errs bins input pass out F HP FU Htry.
  destruct (C09_best_partial defs errs bins input pass out F HP Htry) as (c & A & B & C).
  exists c. split; [exact A|]. split; [exact B|]. intros p ds d' loc' parts' HI Hd' HO.
  apply (C p ds d' loc' parts' HI Hd'). apply occurs_noUNKNOWN; assumption.
Qed.

Definition C09_none_complete_noUNKNOWN_stmt : Prop :=
  forall defs errs bins input pass,
    Forall macro_ok defs -> prepare defs = Ok (errs, bins) ->
    Forall (fun t => tk t <> UNKNOWN) input ->
    try_bins false bins input pass = Ok None ->
    forall p ds d' loc' parts', In (p, ds) bins -> In d' ds -> ~ occurs_at (d_macro d') input loc' parts'.

Lemma C09_none_complete_noUNKNOWN : C09_none_complete_noUNKNOWN_stmt.
Proof.
  intros defs errs bins input pass F HP FU Htry p ds d' loc' parts' HI Hd' HO.
  apply (C09_none_complete_partial defs errs bins input pass F HP Htry p ds d' loc' parts' HI Hd').
  apply occurs_noUNKNOWN; assumption.
Qed.

(* ================================================================================================ *)
(* 4. C12: a pattern with an occurrence that is a proper prefix of another has a conflict              *)
(* ================================================================================================ *)
Lemma not_prefix_free_core m g' tab confs states parts1 parts2 extra :
  macro_ok m -> gen_of m = Ok (g', tab, confs, states) ->
  matches_parts m parts1 -> matches_parts m parts2 ->
  concat parts2 = concat parts1 ++ extra -> extra <> [] -> confs <> [].
Proof.
  intros MO HG MP1 MP2 HC NE ->. pose proof (macro_ok_rule m MO) as R.
  destruct extra as [|e extra']; [congruence|]. clear NE.
  pose (eoft := mkTok T_EOF [] [] 0).
  (* the first token of the extension has a column: it is a terminal of a rule *)
  assert (COL : (translator e <= max_term g')%N).
  { destruct (occurrence_tree m parts2 R MP2) as (tr & V & RT & Y & _).
    pose proof (yield_in_rule _ tr V) as YR. destruct tr as [tok|lhs alt ch]; [discriminate RT|].
    apply (in_rule_col m _ _ _ _ _ R HG). apply YR. rewrite Y, HC. apply in_or_app. right. left. reflexivity. }
  destruct (usable_parse m g' tab states parts2 eoft [] MO HG MP2 (or_introl eq_refl)) as (n2 & H2).
  destruct (usable_parse m g' tab states parts1 e (extra' ++ [eoft]) MO HG MP1 (or_intror COL)) as (n1 & H1).
  specialize (H1 n2). specialize (H2 n1).
  replace (n2 + S n1)%nat with (n1 + S n2)%nat in H2 by lia.
  assert (EI : concat parts2 ++ [eoft] = concat parts1 ++ e :: extra' ++ [eoft]).
  { rewrite HC, <- app_assoc. reflexivity. }
  rewrite EI, H1 in H2. assert (EP : parts1 = parts2) by congruence. rewrite EP in HC.
  apply (f_equal (@length token)) in HC. rewrite app_length in HC. cbn [length] in HC. lia.
Qed.

Lemma C12_not_prefix_free_rejected_proof : C12_not_prefix_free_rejected_stmt.
Proof.
  intros m d parts1 parts2 extra MO HM MP1 MP2 HC NE.
  destruct (make_detector_inv _ _ HM) as (g' & tab & confs & states & HG & ->).
  pose proof (not_prefix_free_core m g' tab confs states parts1 parts2 extra MO HG MP1 MP2 HC NE) as K.
  unfold is_usable. cbn [d_conflicts]. destruct confs; [congruence|reflexivity].
Qed.

(* ================================================================================================ *)
(* 5. C12: the two families                                                                            *)
(* ================================================================================================ *)
(* ---- facts about the GENERATED detector grammar (Gen_MacroGrammar.v): one short sentence per slot
        non-terminal, and the two-element lists of <P> and <ARGS>.  Everything that depends on the
        concrete rules of Gen_MacroGrammar.v is in this section. ----------------------------------- *)
Section GeneratedGrammarFacts.
  Local Open Scope N_scope.

  Lemma DL_one g X w : Derives g X w -> DerivesL g [X] w.
  Proof. intros H. rewrite <- (app_nil_r w). constructor; [exact H|constructor]. Qed.

  Lemma D_unit g n alt X w : nth_error (rs_get g (Nt n)) alt = Some [X] -> Derives g X w -> Derives g (Nt n) w.
  Proof. intros Hr H. eapply D_nt; [exact Hr|]. apply DL_one. exact H. Qed.

  Lemma D_three g n alt X Y Z w1 w2 w3 : nth_error (rs_get g (Nt n)) alt = Some [X; Y; Z] ->
    Derives g X w1 -> Derives g Y w2 -> Derives g Z w3 -> Derives g (Nt n) (w1 ++ w2 ++ w3).
  Proof.
    intros Hr H1 H2 H3. eapply D_nt; [exact Hr|]. constructor; [exact H1|]. constructor; [exact H2|].
    apply DL_one. exact H3.
  Qed.

  (* ID -> T_ID ;  INT -> T_INT ;  VALUE -> ID ;  ARGS -> VALUE | ARGS , VALUE *)
  Lemma d_ID : Derives base_grammar (Nt 0) [1].
  Proof. apply (D_unit _ 0 0%nat (Tm 1)); [vm_compute; reflexivity|constructor]. Qed.
  Lemma d_INT : Derives base_grammar (Nt 1) [3].
  Proof. apply (D_unit _ 1 0%nat (Tm 3)); [vm_compute; reflexivity|constructor]. Qed.
  Lemma d_VALUE : Derives base_grammar (Nt 2) [1].
  Proof. apply (D_unit _ 2 0%nat (Nt 0)); [vm_compute; reflexivity|exact d_ID]. Qed.
  Lemma d_ARGS : Derives base_grammar (Nt 3) [1].
  Proof. apply (D_unit _ 3 0%nat (Nt 2)); [vm_compute; reflexivity|exact d_VALUE]. Qed.
  Lemma d_ARGS2 : Derives base_grammar (Nt 3) [1; 6; 1].
  Proof.
    apply (D_three _ 3 1%nat (Nt 3) (Tm 6) (Nt 2) [1] [6] [1]); [vm_compute; reflexivity|exact d_ARGS|constructor|exact d_VALUE].
  Qed.
  (* ATOMIC_P -> STOP ;  STATEMENT -> ATOMIC_P ;  P -> STATEMENT | P ; STATEMENT *)
  Lemma d_ATOMIC : Derives base_grammar (Nt 6) [18].
  Proof. apply (D_unit _ 6 5%nat (Tm 18)); [vm_compute; reflexivity|constructor]. Qed.
  Lemma d_STATEMENT : Derives base_grammar (Nt 5) [18].
  Proof. apply (D_unit _ 5 1%nat (Nt 6)); [vm_compute; reflexivity|exact d_ATOMIC]. Qed.
  Lemma d_P : Derives base_grammar (Nt 4) [18].
  Proof. apply (D_unit _ 4 1%nat (Nt 5)); [vm_compute; reflexivity|exact d_STATEMENT]. Qed.
  Lemma d_P2 : Derives base_grammar (Nt 4) [18; 7; 18].
  Proof.
    apply (D_three _ 4 0%nat (Nt 4) (Tm 7) (Nt 5) [18] [7] [18]); [vm_compute; reflexivity|exact d_P|constructor|exact d_STATEMENT].
  Qed.
End GeneratedGrammarFacts.

(* one occurrence of every pattern symbol *)
Definition sample (p : token) : list token :=
  match tk p with
  | ID_TEMP | VALUE_TEMP | ARGS_TEMP => [tokk ID]
  | INT_TEMP => [tokk INT]
  | PROG_TEMP => [tokk STOP]
  | _ => [p]
  end.

Lemma sample_ok p : part_ok p (sample p).
Proof.
  unfold part_ok, sample. destruct (tk p) eqn:E; cbn [slot_nonterminal];
    try (exists p; split; [reflexivity|exact E]).
  - exact d_P.
  - exact d_VALUE.
  - exact d_ID.
  - exact d_INT.
  - exact d_ARGS.
Qed.

Lemma samples_ok : forall pre, Forall2 part_ok pre (map sample pre).
Proof. induction pre as [|p pre IH]; cbn [map]; constructor; [apply sample_ok|exact IH]. Qed.

Lemma Forall2_len {A B} (P : A -> B -> Prop) l l' : Forall2 P l l' -> length l' = length l.
Proof. induction 1; cbn [length]; congruence. Qed.

Lemma Forall2_nth {A B} (P : A -> B -> Prop) l l' : Forall2 P l l' ->
  forall i a b, nth_error l i = Some a -> nth_error l' i = Some b -> P a b.
Proof.
  induction 1 as [|x y l l' Hxy F IH]; intros [|i] a b Ha Hb; cbn [nth_error] in *; try discriminate.
  - inversion Ha; inversion Hb; subst. exact Hxy.
  - eapply IH; eassumption.
Qed.

Lemma matches_parts_intro m parts : m_cc m = [] -> Forall2 part_ok (m_rule m) parts -> matches_parts m parts.
Proof.
  intros EC F. split; [eapply Forall2_len; exact F|]. split.
  - intros i p range Hp Hr. exact (Forall2_nth _ _ _ F i p range Hp Hr).
  - intros c p Hc. rewrite EC in Hc. destruct Hc.
Qed.

(* the text constraints do not matter for the tables *)
Definition no_cc (m : macrodef) : macrodef := mkMacro (m_priority m) (m_rule m) [] (m_tt m) (m_repl m).

Lemma no_cc_ok m : macro_ok m -> macro_ok (no_cc m).
Proof.
  intros (M1 & M2 & M3 & M4 & M5). unfold macro_ok, no_cc. cbn [m_rule m_repl m_cc m_tt].
  split; [exact M1|]. split; [exact M2|]. split; [constructor|]. split; [exact M4|exact M5].
Qed.

(* two occurrences, one a proper prefix of the other, reject the pattern *)
Lemma rejected_by_two m d parts1 parts2 extra : macro_ok m -> make_detector m = Ok d ->
  Forall2 part_ok (m_rule m) parts1 -> Forall2 part_ok (m_rule m) parts2 ->
  concat parts2 = concat parts1 ++ extra -> extra <> [] -> is_usable d = false.
Proof.
  intros MO HM F1 F2 HC NE.
  destruct (make_detector_inv _ _ HM) as (g' & tab & confs & states & HG & ->).
  rewrite (gen_of_rule m (no_cc m) eq_refl) in HG.
  pose proof (not_prefix_free_core (no_cc m) g' tab confs states parts1 parts2 extra (no_cc_ok m MO) HG
                (matches_parts_intro (no_cc m) parts1 eq_refl F1) (matches_parts_intro (no_cc m) parts2 eq_refl F2)
                HC NE) as K.
  unfold is_usable. cbn [d_conflicts]. destruct confs; [congruence|reflexivity].
Qed.

Lemma kinds_cons t l : kinds (t :: l) = tk_num (tk t) :: kinds l.
Proof. reflexivity. Qed.

Lemma C12_open_ended_proof : C12_open_ended_stmt.
Proof.
  intros m d pre p MO HM ER HK.
  pose (sep := tokk (match tk p with PROG_TEMP => PROGSEP | _ => ARGSEP end)).
  pose (s := match tk p with PROG_TEMP => tokk STOP | _ => tokk ID end).
  apply (rejected_by_two m d (map sample pre ++ [[s]]) (map sample pre ++ [[s; sep; s]]) [sep; s] MO HM).
  - rewrite ER. apply Forall2_app; [apply samples_ok|]. constructor; [|constructor].
    unfold part_ok. subst s. destruct HK as [K|K]; rewrite K; cbn [slot_nonterminal]; [exact d_P|exact d_ARGS].
  - rewrite ER. apply Forall2_app; [apply samples_ok|]. constructor; [|constructor].
    unfold part_ok. subst s sep. destruct HK as [K|K]; rewrite K; cbn [slot_nonterminal]; [exact d_P2|exact d_ARGS2].
  - rewrite !concat_app. cbn [concat]. rewrite !app_nil_r, <- app_assoc. reflexivity.
  - discriminate.
Qed.

Lemma C12_trailing_sep_proof : C12_trailing_sep_stmt.
Proof.
  intros m d pre p q MO HM ER HK.
  pose (s := match tk p with PROG_TEMP => tokk STOP | _ => tokk ID end).
  assert (Q : part_ok q [q]).
  { unfold part_ok. destruct HK as [[_ K]|[_ K]]; rewrite K; cbn [slot_nonterminal]; exists q; auto. }
  apply (rejected_by_two m d (map sample pre ++ [[s]; [q]]) (map sample pre ++ [[s; q; s]; [q]]) [s; q] MO HM).
  - rewrite ER. apply Forall2_app; [apply samples_ok|]. constructor; [|constructor; [exact Q|constructor]].
    unfold part_ok. subst s. destruct HK as [[K _]|[K _]]; rewrite K; cbn [slot_nonterminal]; [exact d_P|exact d_ARGS].
  - rewrite ER. apply Forall2_app; [apply samples_ok|]. constructor; [|constructor; [exact Q|constructor]].
    unfold part_ok. subst s. destruct HK as [[K Kq]|[K Kq]]; rewrite K; cbn [slot_nonterminal];
      rewrite !kinds_cons, Kq; [exact d_P2|exact d_ARGS2].
  - rewrite !concat_app. cbn [concat]. rewrite !app_nil_r, <- !app_assoc. reflexivity.
  - discriminate.
Qed.

(* ================================================================================================ *)
(* 6. the three C09 statements are false as written                                                    *)
(* ================================================================================================ *)
(* DEFINE <ID> AS (nothing): on  x ? EOF  the occurrence `x` is followed by an UNKNOWN token, which has no
   column in the detector's tables (38 columns, kinds 0..37) *)
Definition cex_m : macrodef := pat [ID_TEMP].
Definition cex_d : detector :=
  Eval vm_compute in match make_detector cex_m with Ok d => d | _ => mkDet cex_m (mkTab [] []) [] end.
Definition cex_input : list token := [tokk ID; tokk UNKNOWN; tokk T_EOF].
Definition cex_input2 : list token := [tokk ID; tokk UNKNOWN; tokk ID; tokk T_EOF].

Lemma cex_make : make_detector cex_m = Ok cex_d.
Proof. vm_compute. reflexivity. Qed.

Lemma cex_usable : d_conflicts cex_d = [].
Proof. vm_compute. reflexivity. Qed.

Lemma cex_macro_ok : macro_ok cex_m.
Proof.
  unfold macro_ok, cex_m, pat. cbn [m_rule m_repl m_cc m_tt map].
  split; [constructor; [discriminate|constructor]|]. repeat split; constructor.
Qed.

Lemma cex_detect : detect cex_d cex_input = Ok None.
Proof. vm_compute. reflexivity. Qed.

Lemma cex_detect2 : detect cex_d cex_input2 = Ok (Some (mkResp 2 1 [[tokk ID]])).
Proof. vm_compute. reflexivity. Qed.

Lemma cex_prepare : prepare [cex_m] = Ok ([], [(0, [cex_d])]).
Proof. vm_compute. reflexivity. Qed.

Lemma cex_try_none : try_bins false [(0, [cex_d])] cex_input 0 = Ok None.
Proof. vm_compute. reflexivity. Qed.

Lemma cex_try_some : try_bins false [(0, [cex_d])] cex_input2 0 = Ok (Some [tokk ID; tokk UNKNOWN; tokk T_EOF]).
Proof. vm_compute. reflexivity. Qed.

Lemma cex_matches : matches_parts cex_m [[tokk ID]].
Proof.
  apply matches_parts_intro; [reflexivity|]. constructor; [|constructor]. exact d_ID.
Qed.

Lemma cex_occurs : occurs_at cex_m cex_input 0 [[tokk ID]].
Proof.
  split; [exact cex_matches|]. split; [cbn; lia|]. exists (tokk UNKNOWN), [tokk T_EOF]. reflexivity.
Qed.

Lemma cex_occurs2 : occurs_at cex_m cex_input2 0 [[tokk ID]].
Proof.
  split; [exact cex_matches|]. split; [cbn; lia|]. exists (tokk UNKNOWN), [tokk ID; tokk T_EOF]. reflexivity.
Qed.

Lemma cex_d_macro : d_macro cex_d = cex_m.
Proof. exact (gdet_macro cex_d cex_m cex_make). Qed.

Lemma C09_detect_complete_stmt_false : ~ C09_detect_complete_unguarded_stmt.
Proof.
  intros H.
  destruct (H cex_m cex_d cex_input None 0%nat [[tokk ID]] cex_macro_ok cex_make cex_usable cex_detect cex_occurs)
    as (r & E & _). discriminate.
Qed.

Lemma C09_none_complete_stmt_false : ~ C09_none_complete_unguarded_stmt.
Proof.
  intros H.
  apply (H [cex_m] [] [(0, [cex_d])] cex_input 0 (Forall_cons _ cex_macro_ok (Forall_nil _)) cex_prepare cex_try_none
           0 [cex_d] cex_d 0%nat [[tokk ID]] (or_introl eq_refl) (or_introl eq_refl)).
  rewrite cex_d_macro. exact cex_occurs.
Qed.

Lemma C09_best_stmt_false : ~ C09_best_unguarded_stmt.
Proof.
  intros H.
  destruct (H [cex_m] [] [(0, [cex_d])] cex_input2 0 _ (Forall_cons _ cex_macro_ok (Forall_nil _)) cex_prepare cex_try_some)
    as ([dc rc] & Hrep & _ & Hbest).
  destruct Hrep as (p0 & ds0 & HI & Hd & Hdet). cbn [fst snd] in Hd, Hdet.
  destruct HI as [E|[]]. inversion E; subst p0 ds0. destruct Hd as [<-|[]].
  rewrite cex_detect2 in Hdet. inversion Hdet; subst rc.
  assert (O : occurs_at (d_macro cex_d) cex_input2 0 [[tokk ID]]) by (rewrite cex_d_macro; exact cex_occurs2).
  specialize (Hbest 0 [cex_d] cex_d 0%nat [[tokk ID]] (or_introl eq_refl) (or_introl eq_refl) O).
  unfold prio, loc, len in Hbest. cbn [fst snd r_location r_length] in Hbest. rewrite cex_d_macro in Hbest.
  cbn in Hbest. lia.
Qed.

(* ================================================================================================ *)
(* 7. the names asked for                                                                              *)
(* ================================================================================================ *)
Lemma C09_detect_complete_proof : C09_detect_complete_stmt.
Proof. exact C09_detect_complete_noUNKNOWN. Qed.
Lemma C09_best_proof : C09_best_stmt.
Proof. exact C09_best_noUNKNOWN. Qed.
Lemma C09_none_complete_proof : C09_none_complete_stmt.
Proof. exact C09_none_complete_noUNKNOWN. Qed.
Lemma C09_complete_needs_no_unknown_proof : C09_complete_needs_no_unknown_stmt.
Proof. split; [exact C09_detect_complete_stmt_false | split; [exact C09_best_stmt_false | exact C09_none_complete_stmt_false]]. Qed.

Print Assumptions C09_detect_complete_proof.
Print Assumptions C09_best_proof.
Print Assumptions C09_none_complete_proof.
Print Assumptions C09_complete_needs_no_unknown_proof.
Print Assumptions C12_not_prefix_free_rejected_proof.
Print Assumptions C12_open_ended_proof.
Print Assumptions C12_trailing_sep_proof.
