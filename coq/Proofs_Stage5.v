(* Proofs_Stage5.v — stage 5: the stepping trace for programs with definitions and calls, the same from source text,
   and halting of LOOP programs on the VM.
     C07_calls_proof          : C07_calls_stmt            (C07Statements.v)
     C07_pipeline_proof       : C07_pipeline_stmt         (Stage5Statements.v)
     C16_vm_loop_halts_proof  : C16_vm_loop_halts_stmt    (Stage5Statements.v)
     C07_calls_instance       the hypotheses are satisfiable (the source of stage 4: a STOP inside a callee; the last
                              stops record two live activations)
   Assembly: the static part with line_info (Proofs_C07s5a-g.v: the walk of stage 4 over J4 + JLI4, every RSite of
   every routine has its line_info entry in the final program), the dynamic part in stepping mode
   (Proofs_C07s5h-j.v: sim_all7), the start of the VM (PREPARE, the jumps over the definitions: quiet). *)
From Coq Require Import List ZArith NArith Lia Bool.
From Theo Require Import Base Tokens Errors MacroExtract Parser VMModel VMSpec GenModel Compile RefSem RefSemChk C01Statements C01Stages Gen_Consts Proofs_VM_mem Proofs_VM_dbg Proofs_Gen0 Proofs_Gen Proofs_Sem Proofs_C01a Proofs_C01b Proofs_C01.
From Theo Require Import C01Stages3 C01Stages4 C07Statements RefHaltStatements Stage5Statements
                         Proofs_C01s2a Proofs_C01s2b Proofs_C01s2c Proofs_C01s2 Proofs_C01s3a Proofs_C01s3
                         Proofs_C01s4a Proofs_C01s4b Proofs_C01s4c Proofs_C01s4e Proofs_C01s4f Proofs_C01s4n Proofs_C01s4o Proofs_C01s4p Proofs_C01s4q Proofs_C01s4
                         Proofs_C07a Proofs_C07b Proofs_C07s5g Proofs_C07s5h Proofs_C07s5i Proofs_C07s5j.
From Theo Require Proofs_Front Proofs_RefHalt.
Import ListNotations.
Local Open Scope Z_scope.

(* ================================================================================================ *)
(* 1. the stepping trace of a program with definitions and calls                                    *)
(* ================================================================================================ *)
Lemma C07_calls_proof : C07_calls_stmt.
Proof.
  intros root r rs fuel rviews steps trace Hst Hh Hlex Hgen _ Habs Hrun.
  change (headers_ok root) with (headers4 root) in Hh.
  destruct (calls_setup_x root r rs Hst Hh Hlex Hgen Habs)
    as (RI & FT & kroot & rt & pre & FT_ok & ROK & HM & Hlen & Hk & Z0 & _ & Hpre & LI).
  set (prg := gr_prog r) in *. set (C6 := code prg) in *.
  set (N := ri_N (RI kroot)) in *. set (mi := ri_mi (RI kroot)) in *.
  pose proof (ROK _ _ Hk) as [OKk _ _ _ HN]. fold N in OKk, HN.
  set (s0 := setSteppingMode (init prg) true).
  set (d0 := zrepeat 0 (Z.to_nat N)). set (act0 := mkAct 0 N 0 (-1) mi).
  set (s1 := vm_st s0 1 d0 [act0]).
  assert (E1 : qrun 1 s0 s1) by exact (q_prepare s0 0 [] [] N mi 0 Z0).
  pose proof (Hpre s1 d0 eq_refl) as E2. change (vm_at s1 1 d0) with s1 in E2.
  assert (HT : Top7 RI prg kroot s1 act0 []) by (repeat split).
  assert (HS : SR (ri_rm (RI kroot)) (data_start act0) N (mkRAct [] []) d0) by exact (SR_start _ _ OKk HN).
  assert (HL : LowOK rs RI (data_start act0) [] [] d0) by (split; [constructor | intros a []]).
  unfold run_ref_chk in Hrun. rewrite Hlen in Hrun.
  pose proof (sim_all7 rs RI C6 FT FT_ok ROK prg eq_refl HM LI fuel kroot rt [] (mkRAct [] []) 0 0%nat [] s1 d0 act0 [] Hk HT HS HL) as HR.
  rewrite Hrun in HR. cbn [Res7] in HR. destruct HR as (n & stops & s' & delta & Hrun7 & HFV & Htr & Hag).
  cbn [app] in Htr. subst delta.
  assert (Epm : pm4 RI kroot rt 0 = ri_P0 (RI kroot)) by (unfold pm4, pm_of4; cbn [Z.to_nat boff4]; apply Z.add_0_r).
  rewrite Epm in Hrun7.
  assert (Hall : step_trace (1 + (length pre + n)) s0 = Ok (stops, s', true)).
  { eapply qrun_st; [exact E1|]. eapply qrun_st; [exact E2 | exact Hrun7]. }
  destruct (st_keeps _ _ _ _ _ Hall) as [Hp' _].
  destruct (frames_views rs RI s' ltac:(rewrite Hp'; exact HM) _ _ HFV) as (vmv & Hviews & Hagree).
  exists (1 + (length pre + n))%nat, stops, s', vmv.
  split; [exact Hall|]. split; [exact Hag|]. split; [exact Hviews | exact Hagree].
Qed.

(* ================================================================================================ *)
(* 2. from source text                                                                              *)
(* ================================================================================================ *)
(* a successful compilation: the parse was error free and gen ran on its tree *)
Lemma compile_ok_inv files main c p root :
  compile files main = Ok c -> cr_ok c = true -> parse files main = Ok p -> pr_root p = Some root ->
  exists g toks, gen true [] (Some root) = Ok g /\ gr_ok g = true /\ cr_prog c = gr_prog g /\
                 parse_tokens toks = Ok (Some root, []).
Proof.
  intros Hc Hok Hp Hroot.
  unfold compile, compile_budget in Hc. unfold parse in Hp.
  apply Proofs_Front.pp_bind_inv in Hc. destruct Hc as (p' & Hp' & Hc). rewrite Hp in Hp'. inversion Hp'; subst p'; clear Hp'.
  apply Proofs_Front.pp_bind_inv in Hc. destruct Hc as (g & Hg & Hc). inversion Hc; subst c; clear Hc.
  cbn [cr_ok cr_prog] in *.
  destruct (C02_errors_forwarded_proof _ _ _ _ Hp) as [_ FW].
  assert (PO : pr_ok p = true).
  { destruct (pr_ok p) eqn:E; [reflexivity|]. destruct (FW g Hg eq_refl) as [Cc _]. congruence. }
  clear FW.
  pose proof (parse_budget_ok _ _ _ _ Hp) as PE. rewrite PO in PE, Hg.
  destruct (pr_errors p) as [|e es] eqn:EE; [|discriminate PE]. clear PE.
  rewrite Hroot in Hg.
  unfold parse_budget in Hp. cbv zeta in Hp.
  apply Proofs_Front.pp_bind_inv in Hp. destruct Hp as (sr & Hs & Hp). destruct sr as [toks serrs].
  apply Proofs_Front.pp_bind_inv in Hp. destruct Hp as (xr & Hx & Hp). destruct xr as [[xerrs out] macros].
  apply Proofs_Front.pp_bind_inv in Hp. destruct Hp as (ar & Ha & Hp). destruct ar as [aerrs toks2].
  apply Proofs_Front.pp_bind_inv in Hp. destruct Hp as (pr & Hpr & Hp). destruct pr as [root' perrs].
  inversion Hp; subst p; clear Hp. cbn [pr_root pr_errors pr_ok] in *. subst root'.
  apply app_eq_nil in EE. destruct EE as [-> _].
  exists g, toks2. auto.
Qed.

Lemma C07_pipeline_proof : C07_pipeline_stmt.
Proof.
  intros files main c p root rs fuel rviews steps trace Hc Hok Hp Hroot Hst Hlex Habs Hrun.
  destruct (compile_ok_inv files main c p root Hc Hok Hp Hroot) as (g & toks & Hg & Hgok & -> & Hpr).
  pose proof (parser_headers4 _ _ _ Hpr) as Hh.
  exact (C07_calls_proof root g rs fuel rviews steps trace Hst Hh Hlex Hg Hgok Habs Hrun).
Qed.

(* ================================================================================================ *)
(* 3. LOOP programs halt on the VM                                                                  *)
(* ================================================================================================ *)
Lemma C16_vm_loop_halts_proof : C16_vm_loop_halts_stmt.
Proof.
  intros files main c p root rs Hc Hok Hp Hroot Hst Hlex Hlo Habs Hnb.
  destruct (Proofs_RefHalt.C16_ref_loop_halts_proof root rs Hlo Habs) as (fuel & views & steps & trace & Href).
  assert (Hchk : run_ref_chk fuel rs = OStop views steps trace).
  { unfold run_ref in Href. pose proof (Hnb fuel) as Hne. unfold run_ref_chk in *.
    destruct (length rs) as [|k]; [discriminate Href|].
    pose proof (C01_chk_is_run_proof rs fuel [] k (mkRAct [] []) 0 0%nat [] _ eq_refl Hne) as E.
    rewrite Href in E. symmetry. exact E. }
  destruct (C01_pipeline_proof files main c p root rs Hc Hok Hp Hroot Hst Hlex Habs) as [Hfin _].
  destruct (Hfin fuel views steps trace Hchk) as (k & s & vmviews & Hvm & Hd & _).
  exists k, s. split; assumption.
Qed.

(* ================================================================================================ *)
(* 4. the hypotheses are satisfiable: the source of stage 4 (Proofs_C01s4.ex4_src)                  *)
(* ================================================================================================ *)
(* 2144 stops; the run ends with STOP inside the program `halt`, called from the main program: the last stop (line 11)
   records two live activations *)
Definition ex5_check : bool :=
  match Compile.parse [(ex_name, ex4_src)] ex_name with
  | Ok p =>
      match pr_root p with
      | Some root =>
          match gen true [] (Some root), abstract_source (Some root) with
          | Ok r, Some rs =>
              match run_ref_chk 5000 rs with
              | OStop rviews steps trace =>
                  pr_ok p && canonical4 root && headers_ok root && lexable_names root && gr_ok r &&
                  Nat.eqb (length trace) 2144 &&
                  Nat.eqb (length (snd (last trace (([], 0), [])))) 2 &&
                  (snd (fst (last trace (([], 0), []))) =? 11)
              | _ => false
              end
          | _, _ => false
          end
      | None => false
      end
  | _ => false
  end.

Lemma ex5_check_true : ex5_check = true.
Proof. vm_compute. reflexivity. Qed.

Lemma C07_calls_instance :
  match Compile.parse [(ex_name, ex4_src)] ex_name with
  | Ok p =>
      match pr_root p with
      | Some root =>
          match gen true [] (Some root), abstract_source (Some root) with
          | Ok r, Some rs =>
              match run_ref_chk 5000 rs with
              | OStop rviews steps trace =>
                  pr_ok p = true /\ canonical4 root = true /\ headers_ok root = true /\ lexable_names root = true /\
                  length trace = 2144%nat /\
                  length (snd (last trace (([], 0), []))) = 2%nat /\ snd (fst (last trace (([], 0), []))) = 11 /\
                  trace_conclusion r trace rviews
              | _ => False
              end
          | _, _ => False
          end
      | None => False
      end
  | _ => False
  end.
Proof.
  pose proof ex5_check_true as H. unfold ex5_check in H.
  destruct (Compile.parse [(ex_name, ex4_src)] ex_name) as [p| |]; [|exfalso; discriminate H..].
  destruct (pr_root p) as [root|]; [|exfalso; discriminate H].
  destruct (gen true [] (Some root)) as [r| |] eqn:Eg; [|exfalso; discriminate H..].
  destruct (abstract_source (Some root)) as [rs|] eqn:Ea; [|exfalso; discriminate H].
  destruct (run_ref_chk 5000 rs) as [? ? ?|rviews steps trace| |] eqn:Hrun; [exfalso; discriminate H| |exfalso; discriminate H..].
  apply andb_prop in H; destruct H as [H H8].
  apply andb_prop in H; destruct H as [H H7].
  apply andb_prop in H; destruct H as [H H6].
  apply andb_prop in H; destruct H as [H H5].
  apply andb_prop in H; destruct H as [H H4].
  apply andb_prop in H; destruct H as [H H3].
  apply andb_prop in H; destruct H as [H1 H2].
  apply Nat.eqb_eq in H6. apply Nat.eqb_eq in H7. apply Z.eqb_eq in H8.
  split; [exact H1|]. split; [exact H2|]. split; [exact H3|]. split; [exact H4|].
  split; [exact H6|]. split; [exact H7|]. split; [exact H8|].
  eapply C07_calls_proof; eauto.
Qed.

Print Assumptions C07_calls_proof.
Print Assumptions C07_pipeline_proof.
Print Assumptions C16_vm_loop_halts_proof.
Print Assumptions C07_calls_instance.
