(* Properties_C01.v — the theorems that decide property C01 on the model, each stated in full and closed by
   `exact <lemma>`; the lemmas live in the Proofs_*.v files.  Nothing else belongs in this file. *)
From Theo Require Import Base Tokens MacroExtract Parser VMModel VMSpec VMStatements RefSem SemStatements Proofs_Sem.
Local Open Scope Z_scope.


Theorem C01_ref_fuel_mono :
  forall rs fuel ctx k a pc steps trace,
    finished (run rs fuel ctx k a pc steps trace) ->
    forall fuel', (fuel <= fuel')%nat -> run rs fuel' ctx k a pc steps trace = run rs fuel ctx k a pc steps trace.
Proof. exact C01_ref_fuel_mono_proof. Qed.
Print Assumptions C01_ref_fuel_mono.

Theorem C01_ref_steps :
  forall rs fuel ctx k a pc steps trace,
    match run rs fuel ctx k a pc steps trace with
    | ODone _ st tr | OStop _ st tr => (steps <= st)%nat /\ (length trace <= length tr)%nat /\
                                       (length tr - length trace <= st - steps)%nat
    | _ => True
    end.
Proof. exact C01_ref_steps_proof. Qed.
Print Assumptions C01_ref_steps.

(* ---- compile correctness for the straight-line fragment (assignments x := y | c | y + c | y - c) ---- *)
From Theo Require Import Errors GenModel Compile C01Statements Proofs_C01a Proofs_C01b Proofs_C01.

Theorem C01_straightline_partial :
  forall root r rs,
    straight root = true -> name_free temp_name_str root = true -> literal_sum root < INT_MAX ->
    gen true [] (Some root) = Ok r -> gr_ok r = true ->
    abstract_source (Some root) = Some rs ->
    exists fuel steps trace rname rvars,
      run_ref fuel rs = OStop [(rname, rvars)] steps trace /\
      exists k s vmvars,
        vm_run k (init (gr_prog r)) = Ok s /\ isDone s = Ok true /\
        views s = Ok [(rname, vmvars)] /\ same_values vmvars rvars /\
        (steps <= k)%nat.
Proof. exact C01_straightline_partial_proof. Qed.
Print Assumptions C01_straightline_partial.

(* without the hypothesis that no variable is called "Temporary Variable" (a name the scanner cannot produce) the
   statement is false: such a variable shares a register with a temporary and is missing from the stack map *)
Theorem C01_straightline_needs_lexable_names : ~ C01_straightline_stmt.
Proof. exact C01_straightline_refuted. Qed.
Print Assumptions C01_straightline_needs_lexable_names.
