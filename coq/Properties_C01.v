(* Properties_C01.v — the theorems that decide property C01 on the model, each stated in full and closed by
   `exact <lemma>`; the lemmas live in the Proofs_*.v files.  Nothing else belongs in this file. *)
From Theo Require Import Base Tokens Errors MacroExtract Parser VMModel VMSpec VMStatements GenModel Compile RefSem SemStatements Proofs_Sem C01Statements C01Stages RefSemChk Proofs_C01s2a Proofs_C01s2 C01Stages3 Proofs_C01s3 C01Stages4 Regex Lexer Scan Grammar LR MacroApply Gen_Lexer Proofs_C01s4q Proofs_C01s4 Proofs_C01s4w NamesStatements Proofs_Names Proofs_C01source Stage6Statements Proofs_Stage6 Proofs_Stage6w.
Local Open Scope Z_scope.


Theorem C01_ref_fuel_mono :
  forall rs fuel ctx k a pc steps trace,
    finished (run rs fuel ctx k a pc steps trace) ->
    forall fuel', (fuel <= fuel')%nat -> run rs fuel' ctx k a pc steps trace = run rs fuel ctx k a pc steps trace.
Proof. exact C01_ref_fuel_mono_proof. Qed.
Print Assumptions C01_ref_fuel_mono.

Theorem C01_ref_steps :
  forall rs fuel ctx k a pc steps trace,
    match run rs fuel ctx k a pc steps trace with
    | ODone _ st tr | OStop _ st tr => (steps <= st)%nat /\ (length trace <= length tr)%nat /\
                                       (length tr - length trace <= st - steps)%nat
    | _ => True
    end.
Proof. exact C01_ref_steps_proof. Qed.
Print Assumptions C01_ref_steps.

(* ---- compile correctness for the straight-line fragment (assignments x := y | c | y + c | y - c) ---- *)
From Theo Require Import Errors GenModel Compile C01Statements Proofs_C01a Proofs_C01b Proofs_C01.

Theorem C01_straightline_partial :
  forall root r rs,
    straight root = true -> name_free temp_name_str root = true -> literal_sum root < INT_MAX ->
    gen true [] (Some root) = Ok r -> gr_ok r = true ->
    abstract_source (Some root) = Some rs ->
    exists fuel steps trace rname rvars,
      run_ref fuel rs = OStop [(rname, rvars)] steps trace /\
      exists k s vmvars,
        vm_run k (init (gr_prog r)) = Ok s /\ isDone s = Ok true /\
        views s = Ok [(rname, vmvars)] /\ same_values vmvars rvars /\
        (steps <= k)%nat.
Proof. exact C01_straightline_partial_proof. Qed.
Print Assumptions C01_straightline_partial.

(* without the hypothesis that no variable is called "Temporary Variable" (a name the scanner cannot produce) the
   statement is false: such a variable shares a register with a temporary and is missing from the stack map *)
Theorem C01_straightline_needs_lexable_names : ~ C01_straightline_stmt.
Proof. exact C01_straightline_refuted. Qed.
Print Assumptions C01_straightline_needs_lexable_names.

Theorem C01_chk_is_run :
  forall rs fuel ctx k a pc steps trace o,
    run_chk rs fuel ctx k a pc steps trace = o -> o <> OBad -> run rs fuel ctx k a pc steps trace = o.
Proof. exact C01_chk_is_run_proof. Qed.
Print Assumptions C01_chk_is_run.

Theorem C01_structured :
  forall root r rs fuel rviews steps trace,
    structured root = true -> lexable_names root = true ->
    gen true [] (Some root) = Ok r -> gr_ok r = true ->
    abstract_source (Some root) = Some rs ->
    run_ref_chk fuel rs = OStop rviews steps trace ->
    sim_conclusion r rviews steps.
Proof. exact C01_structured_proof. Qed.
Print Assumptions C01_structured.

Theorem C01_jumps :
  forall root r rs fuel rviews steps trace,
    jumps root = true -> lexable_names root = true ->
    gen true [] (Some root) = Ok r -> gr_ok r = true ->
    abstract_source (Some root) = Some rs ->
    run_ref_chk fuel rs = OStop rviews steps trace ->
    sim_conclusion r rviews steps.
Proof. exact C01_jumps_proof. Qed.
Print Assumptions C01_jumps.

Theorem C01_jumps_budget :
  forall root r rs n s,
    jumps root = true -> lexable_names root = true ->
    gen true [] (Some root) = Ok r -> gr_ok r = true ->
    abstract_source (Some root) = Some rs ->
    run_ref_chk n rs = OFuel ->
    vm_run n (init (gr_prog r)) = Ok s -> isDone s = Ok false.
Proof. exact C01_jumps_budget_proof. Qed.
Print Assumptions C01_jumps_budget.

Theorem C01_calls :
  forall root r rs fuel rviews steps trace,
    canonical4 root = true -> headers_ok root = true -> lexable_names root = true ->
    gen true [] (Some root) = Ok r -> gr_ok r = true ->
    abstract_source (Some root) = Some rs ->
    run_ref_chk fuel rs = OStop rviews steps trace ->
    sim_conclusion r rviews steps.
Proof. exact C01_calls_proof. Qed.
Print Assumptions C01_calls.

Theorem C01_calls_budget :
  forall root r rs n s,
    canonical4 root = true -> headers_ok root = true -> lexable_names root = true ->
    gen true [] (Some root) = Ok r -> gr_ok r = true ->
    abstract_source (Some root) = Some rs ->
    run_ref_chk n rs = OFuel ->
    vm_run n (init (gr_prog r)) = Ok s -> isDone s = Ok false.
Proof. exact C01_calls_budget_proof. Qed.
Print Assumptions C01_calls_budget.

Theorem C01_calls_budget_needs_headers :
  ~ C01_calls_budget_unguarded_stmt.
Proof. exact C01_calls_budget_needs_headers_proof. Qed.
Print Assumptions C01_calls_budget_needs_headers.

Theorem C01_parser_headers :
  forall toks root errs, parse_tokens toks = Ok (Some root, errs) -> headers_ok root = true.
Proof. exact C01_parser_headers_proof. Qed.
Print Assumptions C01_parser_headers.

Theorem C01_parser_shape4 :
  forall toks root, parse_tokens toks = Ok (Some root, []) -> shape4 root = true.
Proof. exact C01_parser_shape4_proof. Qed.
Print Assumptions C01_parser_shape4.

Theorem C01_pipeline :
  forall files main c p root rs,
    compile files main = Ok c -> cr_ok c = true ->
    parse files main = Ok p -> pr_root p = Some root ->
    canonical4 root = true -> lexable_names root = true ->
    abstract_source (Some root) = Some rs ->
    (forall fuel rviews steps trace, run_ref_chk fuel rs = OStop rviews steps trace ->
       exists k s vmviews,
         vm_run k (init (cr_prog c)) = Ok s /\ isDone s = Ok true /\
         views s = Ok vmviews /\ Forall2 view_agrees vmviews rviews /\ (steps <= k)%nat) /\
    (forall n s, run_ref_chk n rs = OFuel -> vm_run n (init (cr_prog c)) = Ok s -> isDone s = Ok false).
Proof. exact C01_pipeline_proof. Qed.
Print Assumptions C01_pipeline.

Theorem C01_lexable_safe :
  forall tok, lexable tok = true -> safe_name tok = true.
Proof. exact C01_lexable_safe_proof. Qed.
Print Assumptions C01_lexable_safe.

Theorem C01_pipeline_safe_names :
  forall files main p root, parse files main = Ok p -> pr_root p = Some root -> safe_names root = true.
Proof. exact C01_pipeline_safe_names_proof. Qed.
Print Assumptions C01_pipeline_safe_names.

Theorem C01_pipeline_lexable :
  forall files main p root,
    Forall (fun kv => lexable (fst kv) = true) files ->
    parse files main = Ok p -> pr_ok p = true -> pr_root p = Some root -> lexable_names root = true.
Proof. exact C01_pipeline_lexable_proof. Qed.
Print Assumptions C01_pipeline_lexable.

Theorem C01_pipeline_lexable_needs_ok :
  ~ C01_pipeline_lexable_unguarded_stmt.
Proof. exact C01_pipeline_lexable_needs_ok_proof. Qed.
Print Assumptions C01_pipeline_lexable_needs_ok.

Theorem C01_source :
  forall files main c p root rs,
    Forall (fun kv => lexable (fst kv) = true) files ->
    compile files main = Ok c -> cr_ok c = true ->
    parse files main = Ok p -> pr_root p = Some root ->
    canonical4 root = true ->
    abstract_source (Some root) = Some rs ->
    (forall fuel rviews steps trace, run_ref_chk fuel rs = OStop rviews steps trace ->
       exists k s vmviews,
         vm_run k (init (cr_prog c)) = Ok s /\ isDone s = Ok true /\
         views s = Ok vmviews /\ Forall2 view_agrees vmviews rviews /\ (steps <= k)%nat) /\
    (forall n s, run_ref_chk n rs = OFuel -> vm_run n (init (cr_prog c)) = Ok s -> isDone s = Ok false).
Proof. exact C01_source_proof. Qed.
Print Assumptions C01_source.

Theorem C01_anylayout :
  forall root r rs fuel rviews steps trace,
    shape4 root = true -> headers_ok root = true -> lexable_names root = true ->
    gen true [] (Some root) = Ok r -> gr_ok r = true ->
    abstract_source (Some root) = Some rs ->
    run_ref_chk fuel rs = OStop rviews steps trace ->
    sim_conclusion r rviews steps.
Proof. exact C01_anylayout_proof. Qed.
Print Assumptions C01_anylayout.

Theorem C01_anylayout_budget :
  forall root r rs n s,
    shape4 root = true -> headers_ok root = true -> lexable_names root = true ->
    runs_on_line root = true ->
    gen true [] (Some root) = Ok r -> gr_ok r = true ->
    abstract_source (Some root) = Some rs ->
    run_ref_chk n rs = OFuel ->
    vm_run n (init (gr_prog r)) = Ok s -> isDone s = Ok false.
Proof. exact C01_anylayout_budget_proof. Qed.
Print Assumptions C01_anylayout_budget.

Theorem C01_every_source :
  forall files main c p root rs,
    Forall (fun kv => lexable (fst kv) = true) files ->
    compile files main = Ok c -> cr_ok c = true ->
    parse files main = Ok p -> pr_root p = Some root ->
    abstract_source (Some root) = Some rs ->
    (forall fuel rviews steps trace, run_ref_chk fuel rs = OStop rviews steps trace ->
       exists k s vmviews,
         vm_run k (init (cr_prog c)) = Ok s /\ isDone s = Ok true /\
         views s = Ok vmviews /\ Forall2 view_agrees vmviews rviews /\ (steps <= k)%nat) /\
    (runs_on_line root = true ->
     forall n s, run_ref_chk n rs = OFuel -> vm_run n (init (cr_prog c)) = Ok s -> isDone s = Ok false).
Proof. exact C01_every_source_proof. Qed.
Print Assumptions C01_every_source.

Theorem C01_budget_needs_layout :
  ~ C01_anylayout_budget_unguarded_stmt /\ ~ C01_every_source_unguarded_stmt.
Proof. exact C01_budget_needs_layout_proof. Qed.
Print Assumptions C01_budget_needs_layout.
