(* Properties_C01.v — the theorems that decide property C01 on the model, each stated in full and closed by
   `exact <lemma>`; the lemmas live in the Proofs_*.v files.  Nothing else belongs in this file. *)
From Theo Require Import Base Tokens MacroExtract Parser VMModel VMSpec VMStatements RefSem SemStatements Proofs_Sem.
Local Open Scope Z_scope.


Theorem C01_ref_fuel_mono :
  forall rs fuel ctx k a pc steps trace,
    finished (run rs fuel ctx k a pc steps trace) ->
    forall fuel', (fuel <= fuel')%nat -> run rs fuel' ctx k a pc steps trace = run rs fuel ctx k a pc steps trace.
Proof. exact C01_ref_fuel_mono_proof. Qed.
Print Assumptions C01_ref_fuel_mono.

Theorem C01_ref_steps :
  forall rs fuel ctx k a pc steps trace,
    match run rs fuel ctx k a pc steps trace with
    | ODone _ st tr | OStop _ st tr => (steps <= st)%nat /\ (length trace <= length tr)%nat /\
                                       (length tr - length trace <= st - steps)%nat
    | _ => True
    end.
Proof. exact C01_ref_steps_proof. Qed.
Print Assumptions C01_ref_steps.
