(* Properties_C16.v — the theorems that decide property C16 on the model, each stated in full and closed by
   `exact <lemma>`; the lemmas live in the Proofs_*.v files.  Nothing else belongs in this file. *)
From Theo Require Import Base VMModel VMSpec VMStatements VMCheck VMCheckStatements Proofs_VMCheck.
Local Open Scope Z_scope.
Local Open Scope Z_scope.

Theorem C16_depth :
  forall p k s, wf_program p = true -> acyclic_calls p = true -> vm_run k (init p) = Ok s ->
    zlen (stack s) <= zlen (exec_targets p) + 1.
Proof. exact C16_depth_proof. Qed.
Print Assumptions C16_depth.
