(* Properties_C16.v — the theorems that decide property C16 on the model, each stated in full and closed by
   `exact <lemma>`; the lemmas live in the Proofs_*.v files.  Nothing else belongs in this file. *)
From Theo Require Import Base VMModel VMSpec VMStatements VMCheck VMCheckStatements Proofs_VMCheck GenWfStatements Tokens Errors MacroExtract Parser GenModel CompileStatements Proofs_GenWf RefHaltStatements RefSem SemStatements Proofs_RefHalt Stage5Statements Regex Lexer Scan Grammar LR MacroApply Compile RefSemChk C01Statements C01Stages C01Stages3 C01Stages4 C07Statements Gen_Lexer Gen_Consts Proofs_Stage5 Stage6Statements NamesStatements Proofs_C16any.
Local Open Scope Z_scope.
Local Open Scope Z_scope.

Theorem C16_depth :
  forall p k s, wf_program p = true -> acyclic_calls p = true -> vm_run k (init p) = Ok s ->
    zlen (stack s) <= zlen (exec_targets p) + 1.
Proof. exact C16_depth_proof. Qed.
Print Assumptions C16_depth.

(* ---- source level: callees are earlier definitions; the reference machine's depth is bounded ---- *)
From Theo Require Import Tokens MacroExtract Parser RefSem SemStatements Proofs_Sem.

Theorem C16_calls_earlier :
  forall root rs, abstract_source root = Some rs ->
    forall k r, nth_error rs k = Some r -> forallb (instr_calls_below k) (r_code r) = true.
Proof. exact C16_calls_earlier_proof. Qed.
Print Assumptions C16_calls_earlier.

Theorem C16_ref_depth :
  forall rs, (forall k r, nth_error rs k = Some r -> forallb (instr_calls_below k) (r_code r) = true) ->
    forall fuel ctx k a pc steps trace,
      (k < length rs)%nat ->
      match run rs fuel ctx k a pc steps trace with
      | ODone _ _ tr | OStop _ _ tr =>
          forall l vs, In (l, vs) tr -> In (l, vs) trace \/ (length vs <= length ctx + k + 1)%nat
      | _ => True
      end.
Proof. exact C16_ref_depth_proof. Qed.
Print Assumptions C16_ref_depth.

Theorem C16_gen_depth :
  forall toks root r, parse_tokens toks = Ok (Some root, []) ->
    gen true [] (Some root) = Ok r -> gr_ok r = true ->
    forall k, exists s, vm_run k (init (gr_prog r)) = Ok s /\
                        (exists b, isDone s = Ok b) /\ (exists v, views s = Ok v) /\
                        zlen (stack s) <= zlen (exec_targets (gr_prog r)) + 1.
Proof. exact C03_gen_safe_proof. Qed.
Print Assumptions C16_gen_depth.

Theorem C16_ref_loop_halts :
  forall root rs, loop_only root = true -> abstract_source (Some root) = Some rs ->
    exists fuel views steps trace, run_ref fuel rs = OStop views steps trace.
Proof. exact C16_ref_loop_halts_proof. Qed.
Print Assumptions C16_ref_loop_halts.

Theorem C16_vm_loop_halts :
  forall files main c p root rs,
    compile files main = Ok c -> cr_ok c = true ->
    parse files main = Ok p -> pr_root p = Some root ->
    canonical4 root = true -> lexable_names root = true -> loop_only root = true ->
    abstract_source (Some root) = Some rs ->
    (forall fuel, run_ref_chk fuel rs <> OBad) ->
    exists k s, vm_run k (init (cr_prog c)) = Ok s /\ isDone s = Ok true.
Proof. exact C16_vm_loop_halts_proof. Qed.
Print Assumptions C16_vm_loop_halts.

Theorem C16_vm_loop_halts_any :
  forall files main c p root rs,
    Forall (fun kv => lexable (fst kv) = true) files ->
    compile files main = Ok c -> cr_ok c = true ->
    parse files main = Ok p -> pr_root p = Some root ->
    RefHaltStatements.loop_only root = true ->
    abstract_source (Some root) = Some rs ->
    (forall fuel, run_ref_chk fuel rs <> OBad) ->
    exists k s, vm_run k (init (cr_prog c)) = Ok s /\ isDone s = Ok true.
Proof. exact C16_vm_loop_halts_any_proof. Qed.
Print Assumptions C16_vm_loop_halts_any.
