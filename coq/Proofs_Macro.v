(* Proofs_Macro.v — proofs of the macro statements C09, C10, C11, C12 (MacroStatements.v).  No axioms. *)
From Coq Require Import List ZArith NArith Lia Bool Sorting.Sorted.
From Theo Require Import Base Regex Tokens Errors MacroExtract Grammar LR Gen_MacroGrammar Gen_Consts MacroApply SpecLex SpecMacro MacroStatements.
Import ListNotations.

(* ================================================================================================ *)
(* 0. the result monad                                                                              *)
(* ================================================================================================ *)

Lemma bind_ok : forall {A B} (r : result A) (f : A -> result B) x,
  bind r f = Ok x -> exists a, r = Ok a /\ f a = Ok x.
Proof.
  intros A B r f x H. destruct r as [a | k | ]; cbn [bind] in H; try discriminate.
  exists a; split; [reflexivity | exact H].
Qed.

Lemma of_opt_ok : forall {A} k (o : option A) x, of_opt k o = Ok x -> o = Some x.
Proof.
  intros A k o x H. destruct o as [a |]; cbn [of_opt] in H; inversion H; reflexivity.
Qed.

(* ================================================================================================ *)
(* 1. C10 — decimal rendering and names of temporaries                                              *)
(* ================================================================================================ *)
Section Dec.
Local Open Scope N_scope.

Definition is_digit (c : N) : Prop := 48 <= c <= 57.
Definition valf (a : N) (s : str) : N := fold_left (fun a c => a * 10 + (c - 48)) s a.

Lemma valf_app : forall a s t, valf a (s ++ t) = valf (valf a s) t.
Proof. intros a s t. unfold valf. apply fold_left_app. Qed.

Lemma dec_pos_fuel_step : forall f n acc,
  dec_pos_fuel (S f) n acc =
  if N.eqb (n / 10) 0 then (48 + n mod 10) :: acc else dec_pos_fuel f (n / 10) ((48 + n mod 10) :: acc).
Proof. reflexivity. Qed.

Lemma dec_pos_fuel_spec : forall fuel n acc, n < 2 ^ N.of_nat fuel ->
  exists ds, dec_pos_fuel (S fuel) n acc = ds ++ acc /\ valf 0 ds = n /\ Forall is_digit ds /\ ds <> [].
Proof.
  induction fuel as [| fuel IH]; intros n acc Hn.
  - change (2 ^ N.of_nat 0) with 1 in Hn. assert (En : n = 0) by lia. subst n.
    exists [48]. split; [reflexivity |]. split; [reflexivity |]. split.
    + constructor; [unfold is_digit; lia | constructor].
    + discriminate.
  - rewrite Nat2N.inj_succ, N.pow_succ_r' in Hn.
    rewrite dec_pos_fuel_step.
    pose proof (N.div_mod' n 10) as Hdm.
    assert (Hml : n mod 10 < 10) by (apply N.mod_lt; discriminate).
    remember (n / 10) as q eqn:Eq. remember (n mod 10) as m eqn:Em.
    destruct (N.eqb_spec q 0) as [Hq | Hq].
    + exists [48 + m]. split; [reflexivity |]. split.
      * unfold valf; cbn [fold_left]. lia.
      * split; [| discriminate]. constructor; [unfold is_digit; lia | constructor].
    + assert (Hql : q < 2 ^ N.of_nat fuel) by lia.
      destruct (IH q ((48 + m) :: acc) Hql) as (ds & Hds & Hv & Hf & Hne).
      exists (ds ++ [48 + m]). split.
      * rewrite Hds. rewrite <- app_assoc. reflexivity.
      * split.
        -- rewrite valf_app, Hv. unfold valf; cbn [fold_left]. lia.
        -- split.
           ++ apply Forall_app. split; [exact Hf |]. constructor; [unfold is_digit; lia | constructor].
           ++ intro E. apply app_eq_nil in E. destruct E as [_ E]. discriminate.
Qed.

Lemma pos_size_nat_gt : forall p, N.pos p < 2 ^ N.of_nat (Pos.size_nat p).
Proof.
  induction p as [p IH | p IH |]; cbn [Pos.size_nat].
  - rewrite Nat2N.inj_succ, N.pow_succ_r'. change (N.pos p~1) with (2 * N.pos p + 1). lia.
  - rewrite Nat2N.inj_succ, N.pow_succ_r'. change (N.pos p~0) with (2 * N.pos p). lia.
  - reflexivity.
Qed.

Lemma size_nat_gt : forall n, n < 2 ^ N.of_nat (N.size_nat n).
Proof.
  intros [| p]; [reflexivity | apply pos_size_nat_gt].
Qed.

Lemma dec_spec : forall n, valf 0 (dec n) = n /\ Forall is_digit (dec n) /\ dec n <> [].
Proof.
  intros n. unfold dec.
  destruct (dec_pos_fuel_spec (N.size_nat n) n [] (size_nat_gt n)) as (ds & Hds & Hv & Hf & Hne).
  rewrite Hds, app_nil_r. auto.
Qed.

Lemma dec_inj : forall n m, dec n = dec m -> n = m.
Proof.
  intros n m H.
  destruct (dec_spec n) as [Hn _]. destruct (dec_spec m) as [Hm _].
  rewrite <- Hn, <- Hm, H. reflexivity.
Qed.

Lemma dec_digits : forall n, Forall is_digit (dec n).
Proof. intros n. apply dec_spec. Qed.

Lemma digits_prefix_eq : forall c, ~ is_digit c -> forall ds ds' a b,
  Forall is_digit ds -> Forall is_digit ds' -> ds ++ c :: a = ds' ++ c :: b -> ds = ds'.
Proof.
  intros c Hc. induction ds as [| d ds IH]; intros ds' a b H1 H2 E.
  - destruct ds' as [| d' ds']; [reflexivity |].
    cbn [app] in E. injection E as E1 E2. subst d'. inversion H2; subst. contradiction.
  - destruct ds' as [| d' ds'].
    + cbn [app] in E. injection E as E1 E2. subst d. inversion H1; subst. contradiction.
    + cbn [app] in E. injection E as E1 E2. subst d'.
      inversion H1; subst. inversion H2; subst. f_equal. eapply IH; eauto.
Qed.

Lemma Forall_rev' : forall {A} (P : A -> Prop) l, Forall P l -> Forall P (rev l).
Proof.
  intros A P l H. rewrite Forall_forall in *. intros x Hx. apply H. apply in_rev. exact Hx.
Qed.

Lemma digits_suffix_eq : forall c, ~ is_digit c -> forall ds ds' a b,
  Forall is_digit ds -> Forall is_digit ds' -> a ++ c :: ds = b ++ c :: ds' -> ds = ds'.
Proof.
  intros c Hc ds ds' a b H1 H2 E.
  apply (f_equal (@rev N)) in E. rewrite !rev_app_distr in E. cbn [rev] in E.
  rewrite <- !app_assoc in E. cbn [app] in E.
  apply digits_prefix_eq in E; auto using Forall_rev'.
  rewrite <- (rev_involutive ds), E, rev_involutive. reflexivity.
Qed.
End Dec.

Lemma dec_z_nonneg : forall z, (0 <= z)%Z -> dec_z z = dec (Z.to_N z).
Proof.
  intros z Hz. unfold dec_z. destruct (Z.ltb_spec z 0); [lia | reflexivity].
Qed.

Lemma C10_dec_inj_proof : C10_dec_inj_stmt.
Proof. unfold C10_dec_inj_stmt. exact dec_inj. Qed.

Lemma temp_name_shape : forall t f l p,
  temp_name t f l p = ((t ++ [58%N] ++ f ++ [58%N] ++ dec_z l ++ [95%N; 40%N]) ++ 77%N :: dec_z p) ++ [41%N].
Proof.
  intros t f l p. unfold temp_name, temp_sep1, temp_sep2, temp_sep3, temp_sep4.
  repeat rewrite <- app_assoc. cbn [app]. reflexivity.
Qed.

Lemma C10_pass_inj_proof : C10_pass_inj_stmt.
Proof.
  unfold C10_pass_inj_stmt. intros t f l p t' f' l' p' Hp Hp' Hne Heq.
  rewrite !temp_name_shape in Heq.
  apply app_inj_tail in Heq. destruct Heq as [Heq _].
  rewrite (dec_z_nonneg p Hp), (dec_z_nonneg p' Hp') in Heq.
  apply digits_suffix_eq in Heq.
  - apply dec_inj in Heq. apply Hne. lia.
  - unfold is_digit; lia.
  - apply dec_digits.
  - apply dec_digits.
Qed.

Lemma C10_index_inj_proof : C10_index_inj_stmt.
Proof.
  unfold C10_index_inj_stmt. intros n n' f l p Hne Heq.
  unfold temp_name, temp_sep1 in Heq. cbn [app] in Heq.
  injection Heq as Heq.
  apply digits_prefix_eq in Heq.
  - apply Hne. apply dec_inj. exact Heq.
  - unfold is_digit; lia.
  - apply dec_digits.
  - apply dec_digits.
Qed.

Lemma temp_name_head : forall rest f l p, exists tl_, temp_name (35%N :: rest) f l p = 35%N :: tl_.
Proof.
  intros rest f l p. unfold temp_name. cbn [app]. eexists; reflexivity.
Qed.

Lemma re_id_head : forall s, Matches re_id s -> exists c t, s = c :: t /\ in_rng c letter = true.
Proof.
  intros s H. unfold re_id in H. inversion H as [ | | | a b s1 s2 H1 H2 | | | | ]; subst.
  inversion H1 as [ | | neg rs c Hc | | | | | ]; subst.
  exists c, s2. split; [reflexivity |]. unfold cmatch in Hc. cbn [xorb] in Hc.
  destruct (in_rng c letter); [reflexivity | discriminate].
Qed.

Lemma C10_not_user_proof : C10_not_user_stmt.
Proof.
  unfold C10_not_user_stmt. intros rest f l p s.
  destruct (temp_name_head rest f l p) as [tl_ Ht]. rewrite Ht.
  split; [| split].
  - intros Hm E. apply re_id_head in Hm. destruct Hm as (c & t & Es & Hc).
    rewrite Es in E. injection E as E1 E2. subst c. vm_compute in Hc. discriminate.
  - intros x E. unfold loopvar_p1 in E. cbn [app] in E. discriminate.
  - discriminate.
Qed.

(* ================================================================================================ *)
(* 2. C09 — the choice of the step                                                                  *)
(* ================================================================================================ *)
Local Open Scope Z_scope.

Definition rle (a b : response) : Prop :=
  r_location a < r_location b \/ (r_location a = r_location b /\ r_length b <= r_length a).

Lemma better_false_spec : forall a b,
  better false a b = true <->
  (r_location a < r_location b \/ (r_location a = r_location b /\ r_length b < r_length a)).
Proof.
  intros a b. unfold better.
  destruct (Z.ltb_spec (r_location a) (r_location b));
  destruct (Z.ltb_spec (r_location b) (r_location a));
  destruct (Z.ltb_spec (r_length b) (r_length a));
  (split; [intros E; try discriminate; lia | intros E; try reflexivity; lia]).
Qed.

Lemma better_false_rle : forall a b, better false a b = false <-> rle b a.
Proof.
  intros a b. unfold rle. pose proof (better_false_spec a b) as S.
  destruct (better false a b).
  - split; [discriminate |]. intros H. assert (T : true = true) by reflexivity. apply S in T. lia.
  - split; [| reflexivity]. intros _.
    assert (N : ~ (r_location a < r_location b \/ (r_location a = r_location b /\ r_length b < r_length a))).
    { intro C. apply S in C. discriminate. }
    lia.
Qed.

Lemma min_element_le : forall l best,
  In (min_element false best l) (best :: l) /\
  rle (snd (min_element false best l)) (snd best) /\
  forall y, In y l -> rle (snd (min_element false best l)) (snd y).
Proof.
  induction l as [| x l IH]; intros best; cbn [min_element].
  - split; [left; reflexivity |]. split; [unfold rle; lia |]. intros y [].
  - destruct (better false (snd x) (snd best)) eqn:E.
    + destruct (IH x) as (Hin & Hle & Hall).
      split; [right; exact Hin |]. split.
      * apply better_false_spec in E. unfold rle in *. lia.
      * intros y [<- | Hy]; auto.
    + destruct (IH best) as (Hin & Hle & Hall).
      split; [destruct Hin as [<- | Hin]; [left; reflexivity | right; right; exact Hin] |].
      split; [exact Hle |].
      intros y [<- | Hy]; auto.
      apply better_false_rle in E. unfold rle in *. lia.
Qed.

Lemma min_element_spec : forall x rest,
  In (min_element false x rest) (x :: rest) /\
  forall y, In y (x :: rest) -> rle (snd (min_element false x rest)) (snd y).
Proof.
  intros x rest. destruct (min_element_le rest x) as (Hin & Hle & Hall).
  split; [exact Hin |]. intros y [<- | Hy]; auto.
Qed.

Lemma detect_all_cons : forall d rest input,
  detect_all (d :: rest) input =
  (do r <- detect d input; do more <- detect_all rest input;
   match r with Some x => Ok ((d, x) :: more) | None => Ok more end).
Proof. reflexivity. Qed.

Lemma detect_all_sound : forall ds input found, detect_all ds input = Ok found ->
  forall d r, In (d, r) found -> In d ds /\ detect d input = Ok (Some r).
Proof.
  induction ds as [| d0 ds IH]; intros input found H d r Hin.
  - cbn [detect_all] in H. inversion H; subst. destruct Hin.
  - rewrite detect_all_cons in H.
    apply bind_ok in H. destruct H as (r0 & Hd0 & H).
    apply bind_ok in H. destruct H as (more & Hmore & H).
    destruct r0 as [x |]; inversion H; subst.
    + destruct Hin as [E | Hin].
      * inversion E; subst. split; [left; reflexivity | exact Hd0].
      * destruct (IH _ _ Hmore _ _ Hin) as [Hi Hd]. split; [right; exact Hi | exact Hd].
    + destruct (IH _ _ Hmore _ _ Hin) as [Hi Hd]. split; [right; exact Hi | exact Hd].
Qed.

Lemma detect_all_complete : forall ds input found, detect_all ds input = Ok found ->
  forall d r, In d ds -> detect d input = Ok (Some r) -> In (d, r) found.
Proof.
  induction ds as [| d0 ds IH]; intros input found H d r Hin Hdet.
  - destruct Hin.
  - rewrite detect_all_cons in H.
    apply bind_ok in H. destruct H as (r0 & Hd0 & H).
    apply bind_ok in H. destruct H as (more & Hmore & H).
    destruct Hin as [E | Hin].
    + subst d0. rewrite Hdet in Hd0. inversion Hd0; subst. inversion H; subst. left; reflexivity.
    + pose proof (IH _ _ Hmore _ _ Hin Hdet) as Hi.
      destruct r0 as [x |]; inversion H; subst; [right; exact Hi | exact Hi].
Qed.

(* detect_from: one unfolding step, without touching parse *)
Lemma detect_from_cons : forall d x rest i,
  detect_from d (x :: rest) i =
  (do p <- parse translator creator semantic (d_tab d) (parse_fuel (x :: rest)) (x :: rest);
   match p with
   | Some (total, split) =>
       do ok <- check_constraint (m_rule (d_macro d)) split (m_cc (d_macro d));
       if ok then Ok (Some (mkResp i (zlen total) split)) else detect_from d rest (i + 1)
   | None => detect_from d rest (i + 1)
   end).
Proof. reflexivity. Qed.

Lemma detect_from_spec : forall d input i r, detect_from d input i = Ok (Some r) ->
  i <= r_location r < i + zlen input /\ 0 <= r_length r /\
  (forall j, 0 <= j < r_location r - i ->
     forall total split,
       parse translator creator semantic (d_tab d) (parse_fuel (skipn (Z.to_nat j) input)) (skipn (Z.to_nat j) input)
         = Ok (Some (total, split)) ->
       check_constraint (m_rule (d_macro d)) split (m_cc (d_macro d)) = Ok false).
Proof.
  intros d. induction input as [| x rest IH]; intros i r H.
  - cbn [detect_from] in H. discriminate.
  - rewrite detect_from_cons in H.
    apply bind_ok in H. destruct H as (p & Hp & H).
    assert (Hlen : zlen (x :: rest) = zlen rest + 1).
    { unfold zlen. cbn [length]. lia. }
    assert (Hz : 0 <= zlen rest) by (unfold zlen; lia).
    assert (Hrec : detect_from d rest (i + 1) = Ok (Some r) ->
              (forall total split, p = Some (total, split) ->
                 check_constraint (m_rule (d_macro d)) split (m_cc (d_macro d)) = Ok false) ->
              i <= r_location r < i + zlen (x :: rest) /\ 0 <= r_length r /\
              (forall j, 0 <= j < r_location r - i ->
                 forall total split,
                   parse translator creator semantic (d_tab d) (parse_fuel (skipn (Z.to_nat j) (x :: rest)))
                     (skipn (Z.to_nat j) (x :: rest)) = Ok (Some (total, split)) ->
                   check_constraint (m_rule (d_macro d)) split (m_cc (d_macro d)) = Ok false)).
    { intros Hr Hhere. destruct (IH _ _ Hr) as (Hb & Hl & Hj).
      split; [lia |]. split; [exact Hl |].
      intros j Hjr total split Hparse.
      destruct (Z.eq_dec j 0) as [-> | Hj0].
      - change (Z.to_nat 0) with O in Hparse. cbn [skipn] in Hparse.
        rewrite Hp in Hparse. inversion Hparse; subst. eapply Hhere; reflexivity.
      - assert (Ej : Z.to_nat j = S (Z.to_nat (j - 1))) by lia.
        rewrite Ej in Hparse. cbn [skipn] in Hparse.
        eapply (Hj (j - 1)); [lia | exact Hparse]. }
    destruct p as [[total split] |].
    + apply bind_ok in H. destruct H as (ok & Hck & H).
      destruct ok.
      * inversion H; subst r. cbn [r_location r_length].
        split; [lia |]. split; [unfold zlen; lia |]. intros j Hj; lia.
      * apply Hrec; [exact H |]. intros t s E. inversion E; subst. exact Hck.
    + apply Hrec; [exact H |]. intros t s E. discriminate.
Qed.

Lemma C09_leftmost_proof : C09_leftmost_stmt.
Proof.
  unfold C09_leftmost_stmt. intros d input r H. unfold detect in H.
  destruct (detect_from_spec _ _ _ _ H) as (Hb & Hl & Hj).
  split; [lia |]. intros i Hi total split Hparse.
  eapply Hj; [| exact Hparse]. lia.
Qed.

Lemma try_bin_none : forall ds input pass,
  try_bin false ds input pass = Ok None -> detect_all ds input = Ok [].
Proof.
  intros ds input pass H. unfold try_bin in H.
  apply bind_ok in H. destruct H as (found & Hf & H).
  destruct found as [| x rest]; [exact Hf |].
  destruct (min_element false x rest) as [d r].
  apply bind_ok in H. destruct H as (repl & Hr & H).
  destruct (zlen input <? r_location r + r_length r); discriminate.
Qed.

Lemma try_bin_some : forall ds input pass out,
  try_bin false ds input pass = Ok (Some out) ->
  exists x rest d r repl,
    detect_all ds input = Ok (x :: rest) /\ min_element false x rest = (d, r) /\
    get_replacement (d_macro d) r pass = Ok repl /\
    r_location r + r_length r <= zlen input /\
    out = firstn (Z.to_nat (r_location r)) input ++ repl ++
          skipn (Z.to_nat (r_location r) + Z.to_nat (r_length r)) input.
Proof.
  intros ds input pass out H. unfold try_bin in H.
  apply bind_ok in H. destruct H as (found & Hf & H).
  destruct found as [| x rest]; [discriminate |].
  destruct (min_element false x rest) as [d r] eqn:Hm.
  apply bind_ok in H. destruct H as (repl & Hr & H).
  destruct (Z.ltb_spec (zlen input) (r_location r + r_length r)) as [Hlt | Hge]; [discriminate |].
  inversion H; subst out.
  exists x, rest, d, r, repl. repeat split; auto.
Qed.

Lemma try_bins_cons : forall k ds rest input pass,
  try_bins false ((k, ds) :: rest) input pass =
  (do r <- try_bin false ds input pass;
   match r with Some i => Ok (Some i) | None => try_bins false rest input pass end).
Proof. reflexivity. Qed.

Lemma bins_ok_tail : forall b bins, bins_ok (b :: bins) -> bins_ok bins.
Proof.
  intros b bins [Hs Hp]. split.
  - apply StronglySorted_inv in Hs. apply Hs.
  - intros p ds d Hin Hd. eapply Hp; [right; exact Hin | exact Hd].
Qed.

Lemma C09_choice_proof : C09_choice_stmt.
Proof.
  unfold C09_choice_stmt. intros bins.
  induction bins as [| [k ds] bins IH]; intros input pass out Hok Htry.
  - cbn [try_bins] in Htry. discriminate.
  - rewrite try_bins_cons in Htry.
    apply bind_ok in Htry. destruct Htry as (r0 & Hbin & Hrest).
    pose proof (bins_ok_tail _ _ Hok) as Hok'.
    destruct Hok as [Hsorted Hprio].
    destruct r0 as [i |].
    + inversion Hrest; subst i.
      apply try_bin_some in Hbin.
      destruct Hbin as (x & rest & d & r & repl & Hda & Hmin & Hrepl & Hbound & Hout).
      destruct (min_element_spec x rest) as [Hin Hbest]. rewrite Hmin in Hin, Hbest.
      destruct (detect_all_sound _ _ _ Hda _ _ Hin) as [Hd Hdet].
      pose proof Hdet as Hdet'. unfold detect in Hdet'.
      destruct (detect_from_spec _ _ _ _ Hdet') as (Hb & Hl & _).
      exists (d, r). split; [| split].
      * exists k, ds. cbn [fst snd]. split; [left; reflexivity |]. split; assumption.
      * exists repl. unfold loc, len. cbn [fst snd].
        split; [exact Hrepl |]. split; [lia |]. split; [lia |]. split; [lia |].
        rewrite Hout. rewrite Z2Nat.inj_add by lia. reflexivity.
      * intros [d' r'] (p' & ds' & Hin' & Hd' & Hdet'').
        cbn [fst snd] in Hd', Hdet''.
        unfold at_least_as_good, prio, loc, len. cbn [fst snd].
        destruct Hin' as [E | Hin'].
        -- inversion E; subst p' ds'.
           pose proof (detect_all_complete _ _ _ Hda _ _ Hd' Hdet'') as Hf.
           pose proof (Hbest _ Hf) as Hle. cbn [snd] in Hle. unfold rle in Hle.
           right. split.
           ++ rewrite (Hprio k ds d), (Hprio k ds d'); auto; left; reflexivity.
           ++ lia.
        -- left.
           rewrite (Hprio k ds d) by (auto; left; reflexivity).
           rewrite (Hprio p' ds' d') by (auto; right; exact Hin').
           apply StronglySorted_inv in Hsorted. destruct Hsorted as [_ Hall].
           rewrite Forall_forall in Hall. apply (Hall (p', ds') Hin').
    + destruct (IH _ _ _ Hok' Hrest) as (c & Hrep & Hrw & Hbest).
      exists c. split; [| split].
      * destruct Hrep as (p & ds0 & Hin & Hd & Hdet).
        exists p, ds0. split; [right; exact Hin |]. split; assumption.
      * exact Hrw.
      * intros c' (p' & ds' & Hin' & Hd' & Hdet').
        destruct Hin' as [E | Hin'].
        -- inversion E; subst p' ds'. apply try_bin_none in Hbin.
           pose proof (detect_all_complete _ _ _ Hbin _ _ Hd' Hdet') as Hf. destruct Hf.
        -- apply Hbest. exists p', ds'. split; [exact Hin' |]. split; assumption.
Qed.

Lemma C09_none_proof : C09_none_stmt.
Proof.
  unfold C09_none_stmt. intros bins.
  induction bins as [| [k ds] bins IH]; intros input pass Htry c (p & ds' & Hin & Hd & Hdet).
  - destruct Hin.
  - rewrite try_bins_cons in Htry.
    apply bind_ok in Htry. destruct Htry as (r0 & Hbin & Hrest).
    destruct r0 as [i |]; [discriminate |].
    destruct Hin as [E | Hin].
    + inversion E; subst p ds'. apply try_bin_none in Hbin.
      pose proof (detect_all_complete _ _ _ Hbin _ _ Hd Hdet) as Hf. destruct Hf.
    + apply (IH _ _ Hrest c). exists p, ds'. split; [exact Hin |]. split; assumption.
Qed.

(* ---- bins --------------------------------------------------------------------------------------- *)
Section Bins.
Variable V : Type.
Definition asc (a b : Z * V) : Prop := fst a < fst b.

Lemma alookup_in : forall (m : list (Z * V)) k v, alookup Z.ltb m k = Some v -> In (k, v) m.
Proof.
  induction m as [| [k' v'] t IH]; intros k v H; cbn [alookup] in H.
  - discriminate.
  - unfold keqb in H.
    destruct (Z.ltb_spec k k') as [H1 | H1]; destruct (Z.ltb_spec k' k) as [H2 | H2];
      cbn [negb andb] in H; try (right; apply IH; exact H).
    inversion H; subst. assert (k = k') by lia. subst. left; reflexivity.
Qed.

Lemma ainsert_in : forall (m : list (Z * V)) k v x,
  In x (ainsert Z.ltb m k v) -> x = (k, v) \/ In x m.
Proof.
  induction m as [| [k' v'] t IH]; intros k v x H; cbn [ainsert] in H.
  - destruct H as [<- | []]. left; reflexivity.
  - destruct (k <? k').
    + destruct H as [<- | H]; [left; reflexivity | right; exact H].
    + destruct (k' <? k).
      * destruct H as [<- | H]; [right; left; reflexivity |].
        apply IH in H. destruct H as [-> | H]; [left; reflexivity | right; right; exact H].
      * destruct H as [<- | H]; [left; reflexivity | right; right; exact H].
Qed.

Lemma ainsert_sorted : forall (m : list (Z * V)) k v,
  StronglySorted asc m -> StronglySorted asc (ainsert Z.ltb m k v).
Proof.
  induction m as [| [k' v'] t IH]; intros k v Hs; cbn [ainsert].
  - constructor; constructor.
  - apply StronglySorted_inv in Hs. destruct Hs as [Hs Hf].
    destruct (Z.ltb_spec k k') as [H1 | H1].
    + constructor.
      * constructor; assumption.
      * constructor; [unfold asc; cbn [fst]; lia |].
        eapply Forall_impl; [| exact Hf]. intros a Ha. unfold asc in *. cbn [fst] in *. lia.
    + destruct (Z.ltb_spec k' k) as [H2 | H2].
      * constructor; [apply IH; exact Hs |].
        rewrite Forall_forall. intros x Hx. apply ainsert_in in Hx. destruct Hx as [-> | Hx].
        -- unfold asc; cbn [fst]; lia.
        -- rewrite Forall_forall in Hf. apply Hf; exact Hx.
      * assert (k = k') by lia. subst k'.
        constructor; [exact Hs |].
        eapply Forall_impl; [| exact Hf]. intros a Ha. unfold asc in *. cbn [fst] in *. exact Ha.
Qed.
End Bins.

Lemma sorted_app : forall {A} (R : A -> A -> Prop) l1 l2,
  StronglySorted R l1 -> StronglySorted R l2 -> (forall x y, In x l1 -> In y l2 -> R x y) ->
  StronglySorted R (l1 ++ l2).
Proof.
  intros A R. induction l1 as [| a l1 IH]; intros l2 H1 H2 H12; cbn [app].
  - exact H2.
  - apply StronglySorted_inv in H1. destruct H1 as [H1 Hf].
    constructor.
    + apply IH; auto. intros x y Hx Hy. apply H12; [right; exact Hx | exact Hy].
    + apply Forall_app. split; [exact Hf |].
      rewrite Forall_forall. intros y Hy. apply H12; [left; reflexivity | exact Hy].
Qed.

Lemma sorted_rev : forall {A} (R : A -> A -> Prop) l,
  StronglySorted R l -> StronglySorted (fun a b => R b a) (rev l).
Proof.
  intros A R. induction l as [| a l IH]; intros H; cbn [rev].
  - constructor.
  - apply StronglySorted_inv in H. destruct H as [H Hf].
    apply sorted_app.
    + apply IH; exact H.
    + constructor; constructor.
    + intros x y Hx [<- | []]. rewrite Forall_forall in Hf. apply Hf. apply in_rev. exact Hx.
Qed.

Definition binv (bins : list (Z * list detector)) : Prop :=
  StronglySorted (asc (list detector)) bins /\
  forall p ds d, In (p, ds) bins -> In d ds -> m_priority (d_macro d) = p.

Lemma add_bin_inv : forall bins d, binv bins -> binv (add_bin bins d).
Proof.
  intros bins d [Hs Hp]. unfold add_bin.
  destruct (alookup Z.ltb bins (m_priority (d_macro d))) as [l |] eqn:El.
  - split; [apply ainsert_sorted; exact Hs |].
    intros p ds d' Hin Hd'. apply ainsert_in in Hin. destruct Hin as [E | Hin].
    + inversion E; subst p ds. apply in_app_or in Hd'. destruct Hd' as [Hd' | [<- | []]].
      * apply alookup_in in El. eapply Hp; eauto.
      * reflexivity.
    + eapply Hp; eauto.
  - split; [apply ainsert_sorted; exact Hs |].
    intros p ds d' Hin Hd'. apply ainsert_in in Hin. destruct Hin as [E | Hin].
    + inversion E; subst p ds. destruct Hd' as [<- | []]. reflexivity.
    + eapply Hp; eauto.
Qed.

Lemma fold_add_bin_inv : forall us bins, binv bins -> binv (fold_left add_bin us bins).
Proof.
  induction us as [| u us IH]; intros bins H; cbn [fold_left].
  - exact H.
  - apply IH. apply add_bin_inv. exact H.
Qed.

Lemma bins_ok_built : forall us, bins_ok (rev (fold_left add_bin us [])).
Proof.
  intros us.
  assert (H : binv (fold_left add_bin us [])).
  { apply fold_add_bin_inv. split; [constructor |]. intros p ds d []. }
  destruct H as [Hs Hp]. split.
  - apply sorted_rev in Hs. exact Hs.
  - intros p ds d Hin Hd. apply in_rev in Hin. eapply Hp; eauto.
Qed.

Lemma prepare_inv : forall defs errs bins, prepare defs = Ok (errs, bins) ->
  exists ds us, make_detectors defs = Ok ds /\ split_usable ds = Ok (errs, us) /\
                bins = rev (fold_left add_bin us []).
Proof.
  intros defs errs bins H. unfold prepare in H.
  apply bind_ok in H. destruct H as (ds & Hds & H).
  apply bind_ok in H. destruct H as ([e us] & Hsu & H).
  cbn [fst snd] in H. inversion H; subst.
  exists ds, us. auto.
Qed.

Lemma C09_bins_ok_proof : C09_bins_ok_stmt.
Proof.
  unfold C09_bins_ok_stmt. intros defs errs bins H.
  apply prepare_inv in H. destruct H as (ds & us & _ & _ & ->).
  apply bins_ok_built.
Qed.

(* ---- the replacement ---------------------------------------------------------------------------- *)
Lemma instantiate_cons : forall m fl matched pass cand rest,
  instantiate m fl matched pass (cand :: rest) =
  (do more <- instantiate m fl matched pass rest;
   match tk cand with
   | INSERTION =>
       do slot <- of_opt ub_index (znth (m_tt m) (strToIntSilent (tl (ttext cand))));
       do ins <- of_opt ub_index (znth matched slot);
       Ok (ins ++ more)
   | TEMP_VAL =>
       Ok (mkTok ID (temp_name (ttext cand) (tfile cand) fl pass) (tfile cand) (tline cand) :: more)
   | _ => Ok (cand :: more)
   end).
Proof. reflexivity. Qed.

Lemma instantiate_body_spec : forall m fl matched pass body repl,
  instantiate m fl matched pass body = Ok repl -> body_spec m fl matched pass body = Some repl.
Proof.
  intros m fl matched pass. induction body as [| c rest IH]; intros repl H.
  - cbn [instantiate] in H. inversion H; reflexivity.
  - rewrite instantiate_cons in H.
    apply bind_ok in H. destruct H as (more & Hm & H).
    cbn [body_spec]. rewrite (IH _ Hm).
    destruct (tk c); try (inversion H; reflexivity).
    apply bind_ok in H. destruct H as (slot & Hs & H).
    apply bind_ok in H. destruct H as (ins & Hi & H).
    apply of_opt_ok in Hs. apply of_opt_ok in Hi. rewrite Hs, Hi. inversion H; reflexivity.
Qed.

Lemma C09_body_proof : C09_body_stmt.
Proof.
  unfold C09_body_stmt. intros m r pass repl H. unfold get_replacement in H.
  destruct (m_repl m) as [| t0 rest] eqn:E.
  - inversion H; reflexivity.
  - apply instantiate_body_spec. exact H.
Qed.

Lemma C09_refuted_at_pinned_proof : C09_refuted_at_pinned_stmt.
Proof.
  unfold C09_refuted_at_pinned_stmt.
  pose (d0 := mkDet (mkMacro 0 [] [] [] []) (mkTab [] []) []).
  exists (d0, mkResp 0 5 []), [(d0, mkResp 0 2 [])].
  cbv zeta.
  exists (d0, mkResp 0 5 []).
  split; [left; reflexivity |]. split; [reflexivity |].
  unfold at_least_as_good, prio, loc, len. cbn. lia.
Qed.

(* ================================================================================================ *)
(* 3. C11 — the pass loop                                                                           *)
(* ================================================================================================ *)

Lemma pass_loop_S : forall k bins input pass,
  pass_loop false (S k) bins input pass =
  (do r <- try_bins false bins input pass;
   match r with
   | None => Ok (input, false)
   | Some input' => match k with O => Ok (input', true) | _ => pass_loop false k bins input' (pass + 1) end
   end).
Proof. reflexivity. Qed.

Lemma C11_steps_proof : C11_steps_stmt.
Proof.
  unfold C11_steps_stmt. induction n as [| n IH]; intros bins input p out ch H.
  - cbn [pass_loop] in H. inversion H; subst.
    exists O. split; [lia |]. split; [constructor |]. split; [discriminate | lia].
  - rewrite pass_loop_S in H.
    apply bind_ok in H. destruct H as (r & Hr & H).
    destruct r as [mid |].
    + destruct n as [| n'].
      * inversion H; subst.
        exists 1%nat. split; [lia |]. split.
        -- eapply Steps_S; [exact Hr | constructor].
        -- split; [intros _; split; lia | discriminate].
      * destruct (IH _ _ _ _ _ H) as (k & Hk & Hst & Ht & Hf).
        exists (S k). split; [lia |]. split.
        -- eapply Steps_S; [exact Hr | exact Hst].
        -- split.
           ++ intros E. destruct (Ht E) as [-> _]. split; lia.
           ++ intros E _. replace (p + Z.of_nat (S k)) with (p + 1 + Z.of_nat k) by lia.
              apply Hf; [exact E | lia].
    + inversion H; subst.
      exists O. split; [lia |]. split; [constructor |]. split; [discriminate |].
      intros _ _. replace (p + Z.of_nat 0) with p by lia. exact Hr.
Qed.

Lemma instantiate_pass : forall m fl matched p p' body repl,
  instantiate m fl matched p body = Ok repl -> exists repl', instantiate m fl matched p' body = Ok repl'.
Proof.
  intros m fl matched p p'. induction body as [| c rest IH]; intros repl H.
  - exists []. reflexivity.
  - rewrite instantiate_cons in H. rewrite instantiate_cons.
    apply bind_ok in H. destruct H as (more & Hm & H).
    destruct (IH _ Hm) as [more' Hm']. rewrite Hm'. cbn [bind].
    destruct (tk c); try (eexists; reflexivity).
    apply bind_ok in H. destruct H as (slot & Hs & H).
    apply bind_ok in H. destruct H as (ins & Hi & H).
    rewrite Hs. cbn [bind]. rewrite Hi. cbn [bind]. eexists; reflexivity.
Qed.

Lemma get_replacement_pass : forall m r p p' repl,
  get_replacement m r p = Ok repl -> exists repl', get_replacement m r p' = Ok repl'.
Proof.
  intros m r p p' repl H. unfold get_replacement in *.
  destruct (m_repl m) as [| t0 rest].
  - exists []. reflexivity.
  - eapply instantiate_pass. exact H.
Qed.

Lemma try_bin_pass : forall ds input p p' r,
  try_bin false ds input p = Ok r ->
  exists r', try_bin false ds input p' = Ok r' /\
             (r = None -> r' = None) /\ (r <> None -> r' <> None).
Proof.
  intros ds input p p' r H. unfold try_bin in *.
  apply bind_ok in H. destruct H as (found & Hf & H). rewrite Hf. cbn [bind].
  destruct found as [| x rest].
  - inversion H; subst. exists None. auto.
  - destruct (min_element false x rest) as [d rr].
    apply bind_ok in H. destruct H as (repl & Hr & H).
    destruct (get_replacement_pass _ _ _ p' _ Hr) as [repl' Hr']. rewrite Hr'. cbn [bind].
    destruct (zlen input <? r_location rr + r_length rr); [discriminate |].
    inversion H; subst. eexists. split; [reflexivity |]. split; [discriminate |].
    intros _; discriminate.
Qed.

Lemma C11_pass_irrelevant_proof : C11_pass_irrelevant_stmt.
Proof.
  unfold C11_pass_irrelevant_stmt. intros bins.
  induction bins as [| [k ds] bins IH]; intros input p p' [o H].
  - cbn [try_bins] in H. discriminate.
  - rewrite try_bins_cons in H. rewrite try_bins_cons.
    apply bind_ok in H. destruct H as (r & Hr & H).
    destruct (try_bin_pass _ _ _ p' _ Hr) as (r' & Hr' & Hn & Hs). rewrite Hr'. cbn [bind].
    destruct r as [i |].
    + destruct r' as [i' |]; [exists i'; reflexivity |]. exfalso. apply Hs; [discriminate | reflexivity].
    + rewrite (Hn eq_refl). apply (IH input p p'). exists o. exact H.
Qed.

Lemma apply_macros_inv : forall input defs n errs out, apply_macros input defs n = Ok (errs, out) ->
  exists ds errs0 us changed,
    make_detectors defs = Ok ds /\ split_usable ds = Ok (errs0, us) /\
    pass_loop false n (rev (fold_left add_bin us [])) input 0 = Ok (out, changed) /\
    errs = (if changed then errs0 ++ [max_passes_err] else errs0).
Proof.
  intros input defs n errs out H. unfold apply_macros, apply_macros_gen in H.
  apply bind_ok in H. destruct H as (ds & Hds & H).
  apply bind_ok in H. destruct H as ([errs0 us] & Hsu & H).
  apply bind_ok in H. destruct H as ([out' changed] & Hpl & H).
  inversion H; subst.
  exists ds, errs0, us, changed. repeat split; auto.
Qed.

Lemma C11_error_proof : C11_error_stmt.
Proof.
  unfold C11_error_stmt. intros input defs n errs out e0 bins Hn Happ Hprep p mid Htry.
  apply apply_macros_inv in Happ. destruct Happ as (ds & errs0 & us & changed & Hds & Hsu & Hpl & ->).
  apply prepare_inv in Hprep. destruct Hprep as (ds' & us' & Hds' & Hsu' & ->).
  rewrite Hds in Hds'. inversion Hds'; subst ds'.
  rewrite Hsu in Hsu'. inversion Hsu'; subst e0 us'.
  destruct changed.
  - apply in_or_app. right. left. reflexivity.
  - exfalso.
    destruct (C11_steps_proof _ _ _ _ _ _ Hpl) as (k & _ & _ & _ & Hf).
    pose proof (Hf eq_refl Hn) as Hnone.
    destruct (C11_pass_irrelevant_proof _ _ p (0 + Z.of_nat k) (ex_intro _ mid Htry)) as [o' Ho'].
    rewrite Hnone in Ho'. discriminate.
Qed.

(* ---- growth ------------------------------------------------------------------------------------- *)
Lemma list_max_in : forall (l : list (list token)) x, In x l -> (length x <= list_max (map (@length token) l))%nat.
Proof.
  induction l as [| a l IH]; intros x Hx.
  - destruct Hx.
  - cbn [map list_max fold_right]. destruct Hx as [<- | Hx].
    + apply Nat.le_max_l.
    + etransitivity; [apply IH; exact Hx | apply Nat.le_max_r].
Qed.

Lemma znth_in : forall {A} (l : list A) i x, znth l i = Some x -> In x l.
Proof.
  intros A l i x H. unfold znth in H. destruct (i <? 0); [discriminate |].
  eapply nth_error_In. exact H.
Qed.

Lemma instantiate_length : forall m fl matched pass body repl,
  instantiate m fl matched pass body = Ok repl ->
  (length repl <= length body * Nat.max 1 (list_max (map (@length token) matched)))%nat.
Proof.
  intros m fl matched pass. induction body as [| c rest IH]; intros repl H.
  - cbn [instantiate] in H. inversion H; subst. cbn [length]. lia.
  - rewrite instantiate_cons in H.
    apply bind_ok in H. destruct H as (more & Hm & H).
    pose proof (IH _ Hm) as Hl.
    cbn [length]. rewrite Nat.mul_succ_l.
    remember (Nat.max 1 (list_max (map (@length token) matched))) as K eqn:EK.
    assert (HK1 : (1 <= K)%nat) by (subst K; apply Nat.le_max_l).
    destruct (tk c); try (inversion H; subst; cbn [length]; lia).
    apply bind_ok in H. destruct H as (slot & Hs & H).
    apply bind_ok in H. destruct H as (ins & Hi & H).
    apply of_opt_ok in Hi. apply znth_in in Hi. apply list_max_in in Hi.
    inversion H; subst repl. rewrite app_length.
    assert (HK2 : (list_max (map (@length token) matched) <= K)%nat) by (subst K; apply Nat.le_max_r).
    lia.
Qed.

Lemma C11_growth_step_proof : C11_growth_step_stmt.
Proof.
  unfold C11_growth_step_stmt. intros input c pass out (repl & Hr & Hl0 & Hn0 & Hb & ->).
  unfold loc, len in *. destruct c as [d r]. cbn [fst snd] in *.
  assert (Hrepl : (length repl <= length (m_repl (d_macro d)) *
                     Nat.max 1 (list_max (map (@length token) (r_matched r))))%nat).
  { unfold get_replacement in Hr. destruct (m_repl (d_macro d)) as [| t0 rest] eqn:E.
    - inversion Hr; subst. cbn [length]. lia.
    - rewrite <- E in Hr. rewrite <- E. eapply instantiate_length. exact Hr. }
  rewrite !app_length, firstn_length, skipn_length.
  unfold zlen in Hb. lia.
Qed.

(* ================================================================================================ *)
(* 4. C12 — rejected macros                                                                         *)
(* ================================================================================================ *)

Lemma split_usable_cons : forall d rest,
  split_usable (d :: rest) =
  (do e <- detector_errors d; do r <- split_usable rest;
   match e with [] => Ok (fst r, d :: snd r) | _ => Ok (e ++ fst r, snd r) end).
Proof. reflexivity. Qed.

Lemma detector_errors_usable : forall d, is_usable d = true -> detector_errors d = Ok [].
Proof.
  intros d H. unfold is_usable in H. unfold detector_errors.
  destruct (d_conflicts d); [reflexivity | discriminate].
Qed.

Lemma detector_errors_unusable : forall d e, is_usable d = false -> detector_errors d = Ok e ->
  exists t rest, m_rule (d_macro d) = t :: rest /\ e = [mkPerr e_macro_non_lr (tfile t) (tline t) []].
Proof.
  intros d e H He. unfold is_usable in H. unfold detector_errors in He.
  destruct (d_conflicts d); [discriminate |].
  destruct (m_rule (d_macro d)) as [| t rest]; [discriminate |].
  inversion He; subst. exists t, rest. auto.
Qed.

Lemma C12_reported_proof : C12_reported_stmt.
Proof.
  unfold C12_reported_stmt. induction ds as [| d ds IH]; intros errs us H.
  - cbn [split_usable] in H. inversion H; subst. split; reflexivity.
  - rewrite split_usable_cons in H.
    apply bind_ok in H. destruct H as (e & He & H).
    apply bind_ok in H. destruct H as ([errs1 us1] & Hr & H).
    destruct (IH _ _ Hr) as [Hus Herrs].
    cbn [fst snd] in H. cbn [filter flat_map].
    destruct (is_usable d) eqn:Eu.
    + rewrite (detector_errors_usable _ Eu) in He. inversion He; subst e.
      inversion H; subst. split; reflexivity.
    + destruct (detector_errors_unusable _ _ Eu He) as (t & rest & Erule & ->).
      rewrite Erule. inversion H; subst. split; reflexivity.
Qed.

Lemma make_detectors_cons : forall m rest,
  make_detectors (m :: rest) = (do d <- make_detector m; do more <- make_detectors rest; Ok (d :: more)).
Proof. reflexivity. Qed.

Lemma make_detectors_filter : forall defs ds, make_detectors defs = Ok ds ->
  make_detectors (filter usable_def defs) = Ok (filter is_usable ds).
Proof.
  induction defs as [| m defs IH]; intros ds H.
  - cbn [make_detectors] in H. inversion H; subst. reflexivity.
  - rewrite make_detectors_cons in H.
    apply bind_ok in H. destruct H as (d & Hd & H).
    apply bind_ok in H. destruct H as (more & Hmore & H).
    inversion H; subst ds. cbn [filter].
    assert (Eu : usable_def m = is_usable d) by (unfold usable_def; rewrite Hd; reflexivity).
    rewrite Eu. destruct (is_usable d).
    + rewrite make_detectors_cons, Hd. cbn [bind]. rewrite (IH _ Hmore). reflexivity.
    + apply IH. exact Hmore.
Qed.

Lemma split_usable_filter : forall ds errs us, split_usable ds = Ok (errs, us) ->
  split_usable (filter is_usable ds) = Ok ([], us).
Proof.
  induction ds as [| d ds IH]; intros errs us H.
  - cbn [split_usable] in H. inversion H; subst. reflexivity.
  - rewrite split_usable_cons in H.
    apply bind_ok in H. destruct H as (e & He & H).
    apply bind_ok in H. destruct H as ([errs1 us1] & Hr & H).
    cbn [fst snd] in H. cbn [filter].
    destruct (is_usable d) eqn:Eu.
    + rewrite (detector_errors_usable _ Eu) in He. inversion He; subst e.
      inversion H; subst.
      rewrite split_usable_cons, (detector_errors_usable _ Eu). cbn [bind].
      rewrite (IH _ _ Hr). reflexivity.
    + destruct (detector_errors_unusable _ _ Eu He) as (t & rest & Erule & ->).
      inversion H; subst. eapply IH. exact Hr.
Qed.

Lemma C12_others_unaffected_proof : C12_others_unaffected_stmt.
Proof.
  unfold C12_others_unaffected_stmt. intros input defs n errs out H.
  apply apply_macros_inv in H. destruct H as (ds & errs0 & us & changed & Hds & Hsu & Hpl & ->).
  exists (if changed then [] ++ [max_passes_err] else []).
  split; [| split].
  - unfold apply_macros, apply_macros_gen.
    rewrite (make_detectors_filter _ _ Hds). cbn [bind].
    rewrite (split_usable_filter _ _ _ Hsu). cbn [bind].
    rewrite Hpl. cbn [bind]. reflexivity.
  - intros e He. destruct changed.
    + destruct He as [<- | []]. cbn. discriminate.
    + destruct He.
  - intros e He Hk.
    destruct (C12_reported_proof _ _ _ Hsu) as [_ Herrs].
    assert (Hnot : ~ In e errs0).
    { intros Hin. rewrite Herrs in Hin. apply in_flat_map in Hin.
      destruct Hin as (d & _ & Hin). destruct (is_usable d); [destruct Hin |].
      destruct (m_rule (d_macro d)) as [| t rest]; [destruct Hin |].
      destruct Hin as [<- | []]. apply Hk. reflexivity. }
    destruct changed.
    + apply in_app_or in He. destruct He as [He | He]; [contradiction |].
      cbn [app]. exact He.
    + contradiction.
Qed.

(* ---- finite sweeps ------------------------------------------------------------------------------ *)
Lemma C12_open_ended_bounded_proof : C12_open_ended_bounded_stmt.
Proof. unfold C12_open_ended_bounded_stmt. vm_compute. reflexivity. Qed.

Lemma C12_trailing_sep_bounded_proof : C12_trailing_sep_bounded_stmt.
Proof. unfold C12_trailing_sep_bounded_stmt. vm_compute. reflexivity. Qed.

Lemma C12_accepted_examples_proof : C12_accepted_examples_stmt.
Proof. unfold C12_accepted_examples_stmt. vm_compute. repeat split; reflexivity. Qed.

(* ================================================================================================ *)
Print Assumptions C09_choice_proof.
Print Assumptions C09_none_proof.
Print Assumptions C09_bins_ok_proof.
Print Assumptions C09_body_proof.
Print Assumptions C09_leftmost_proof.
Print Assumptions C09_refuted_at_pinned_proof.
Print Assumptions C10_dec_inj_proof.
Print Assumptions C10_pass_inj_proof.
Print Assumptions C10_index_inj_proof.
Print Assumptions C10_not_user_proof.
Print Assumptions C11_steps_proof.
Print Assumptions C11_pass_irrelevant_proof.
Print Assumptions C11_error_proof.
Print Assumptions C11_growth_step_proof.
Print Assumptions C12_reported_proof.
Print Assumptions C12_others_unaffected_proof.
Print Assumptions C12_open_ended_bounded_proof.
Print Assumptions C12_trailing_sep_bounded_proof.
Print Assumptions C12_accepted_examples_proof.
