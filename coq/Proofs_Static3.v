(* Proofs_Static3.v — helper lemmas for Proofs_Static.v (C04_static), part 4: values.  The generator records an
   error while emitting code for a value exactly when the flattener of the reference semantics is undefined on it. *)
From Coq Require Import List ZArith NArith Lia Bool.
From Theo Require Import Base Tokens Errors MacroExtract Parser VMModel GenModel RefSem SpecGrammar CompileStatements AcceptStatements Proofs_VM_dbg Proofs_Front Proofs_Gen0 Proofs_Gen Proofs_Sem Proofs_Static0 Proofs_Static1 Proofs_Static2.
Import ListNotations.
Local Open Scope Z_scope.

(* callable names: the generator's table and the flattener's list agree, with the same number of parameters *)
Definition FRel (funcs : list (str * progrec)) (names : list (str * nat)) (done : list routine) : Prop :=
  forall name,
    match alookup str_ltb funcs name, lookup_name names name with
    | Some p, Some j => exists callee, nth_error done j = Some callee /\ p_argnum p = zlen (r_params callee)
    | None, None => True
    | _, _ => False
    end.

Definition FRel' (g : gstate) (s : fstate) : Prop := FRel (g_funcs g) (f_names s) (f_done s).

Lemma FRel_ext g g' s s' : g_funcs g' = g_funcs g -> ssame s s' -> FRel' g s -> FRel' g' s'.
Proof. intros E [A1 A2 _ _] H. unfold FRel'. rewrite E, A1, A2. exact H. Qed.

Lemma fargs_ssame a acc acc' : fargs a acc = Some acc' -> ssame (fst acc) (fst acc').
Proof.
  apply (fargs_same (S (nsize a)) (fun n _ => fv_same n) a). lia.
Qed.

Lemma call_const_builtin l r arglocs vs rco :
  call_const l r arglocs = Ok rco -> length arglocs = length vs ->
  match rco, builtin_of r vs with
  | Some _, Some _ => True
  | None, None => True
  | _, _ => False
  end.
Proof.
  unfold call_const. intros H L.
  destruct (Nat.eqb (length arglocs) 2) eqn:E2.
  - apply Nat.eqb_eq in E2. rewrite E2 in L.
    destruct vs as [|v1 [|v2 [|v3 vs']]]; try discriminate L.
    binv H. Show. destruct r as [rn|]; [|discriminate]. inversion H0; subst a; clear H0.
    destruct rn as [t0 a0 b0 c0 ol or]. cbn [n_left n_right] in *. subst ol.
    destruct (n_type a0) eqn:Et; try (inversion H; subst rco;
      unfold builtin_of; destruct or as [[? ? ? ? [?|] ?]|]; rewrite ?Et; reflexivity).
    binv H. subst or. destruct a as [t1 a1' b1 c1 ol1 or1]. cbn [n_left] in *. subst ol1.
    inversion H; subst rco; clear H. unfold builtin_of. rewrite Et.
    destruct (n_type a1); reflexivity.
  - inversion H; subst rco.
    assert (Hv : forall v1 v2, vs <> [v1; v2]).
    { intros v1 v2 ->. cbn in L. rewrite L in E2. discriminate. }
    unfold builtin_of.
    destruct r as [[? ? ? ? [?|] [[? ? ? ? [?|] ?]|]]|]; try reflexivity.
    destruct vs as [|v1 [|v2 [|v3 vs']]]; try reflexivity. exfalso. apply (Hv v1 v2). reflexivity.
Qed.

Lemma plain_sim g1 arglocs fn tgt g' s1 vs :
  FRel' g1 s1 -> g_errs g1 = [] -> length arglocs = length vs ->
  call_plain g1 arglocs fn tgt = Ok g' ->
  match resolve_call s1 fn vs with Some _ => g_errs g' = [] | None => g_errs g' <> [] end.
Proof.
  intros HF He L H. unfold call_plain in H. unfold resolve_call. specialize (HF fn).
  destruct (alookup str_ltb (g_funcs g1) fn) as [p|]; destruct (lookup_name (f_names s1) fn) as [j|]; try contradiction.
  - destruct HF as (callee & Hn & Ha). rewrite Hn.
    assert (Hz : zlen arglocs = Z.of_nat (length vs)) by (unfold zlen; rewrite L; reflexivity).
    unfold zlen in Ha.
    destruct (Nat.eqb_spec (length vs) (length (r_params callee))) as [Heq|Hne];
      destruct (Z.eqb_spec (p_argnum p) (zlen arglocs)) as [Hq|Hq]; cbn [negb] in H; try lia.
    + binv H. inversion H; subst. cbn. apply q_emit_args in H0. rewrite (qu_errs _ _ H0). cbn. exact He.
    + inversion H; subst. apply err_ne.
  - inversion H; subst. apply err_ne.
Qed.

Definition VS (n : node) : Prop := forall tgt g g' s,
  FRel' g s -> g_errs g = [] -> dispatch_value false n tgt g = Ok g' ->
  match flat_value n s with Some _ => g_errs g' = [] | None => g_errs g' <> [] end.

Definition ArgS (a : node) : Prop := forall acc acc' facc,
  FRel' (fst acc) (fst facc) -> g_errs (fst acc) = [] -> length (snd acc) = length (snd facc) ->
  call_args (dispatch_value false) a acc = Ok acc' ->
  match fargs a facc with
  | Some facc' => g_errs (fst acc') = [] /\ length (snd acc') = length (snd facc')
  | None => g_errs (fst acc') <> []
  end.

Lemma args_sim : forall a, all_sub VS a -> ArgS a.
Proof.
  induction a as [t line file tok l r IHl IHr] using Proofs_Gen0.node_ind'. intros HS acc acc' facc HF He HL H.
  cbn [all_sub] in HS. destruct HS as [Hh [HSl HSr]].
  destruct (ntype_eq_dec_split t) as [->|Hn].
  - rewrite call_args_split in H. binv H. rewrite fargs_eq.
    assert (S1 : match fargs_opt l facc with
                 | Some facc1 => g_errs (fst a) = [] /\ length (snd a) = length (snd facc1) /\ FRel' (fst a) (fst facc1)
                 | None => g_errs (fst a) <> []
                 end).
    { destruct l as [x|]; cbn [call_args_o fargs_opt] in *.
      - specialize (IHl HSl _ _ _ HF He HL H0).
        destruct (fargs x facc) as [facc1|] eqn:Ef; auto. destruct IHl as [I1 I2]. split; auto. split; auto.
        eapply FRel_ext; [|eapply fargs_ssame; eauto|exact HF].
        apply (ca_funcs _ _ (call_args_calm x HSl' _ _ H0)).
      - inversion H0; subst. auto. }
    destruct (fargs_opt l facc) as [facc1|].
    + destruct S1 as (He1 & HL1 & HF1).
      destruct r as [x|]; cbn [call_args_o fargs_opt] in *.
      * exact (IHr HSr _ _ _ HF1 He1 HL1 H).
      * inversion H; subst. auto.
    + intros Hx. apply S1.
      destruct r as [x|]; cbn [call_args_o] in H.
      * apply (ca_errs _ _ (call_args_calm x HSr' _ _ H) Hx).
      * inversion H; subst. exact Hx.
  - rewrite call_args_leaf in H by (cbn; auto). binv H. inversion H; subst acc'; clear H. cbn [fst snd].
    rewrite fargs_eq.
    assert (Hleaf : match match flat_value (Node t line file tok l r) (fst facc) with
                          | Some (s', v) => Some (s', snd facc ++ [v])
                          | None => None
                          end with
                    | Some facc' => g_errs a = [] /\ length (snd acc ++ [z]) = length (snd facc')
                    | None => g_errs a <> []
                    end).
    { apply q_fetch_temporary in H0.
      assert (HF1 : FRel' g (fst facc)) by (eapply FRel_ext; [apply (qu_funcs _ _ H0) | apply ssame_refl | exact HF]).
      assert (He1 : g_errs g = []) by (rewrite (qu_errs _ _ H0); exact He).
      specialize (Hh z g a (fst facc) HF1 He1 H1).
      destruct (flat_value (Node t line file tok l r) (fst facc)) as [[s' v]|]; auto.
      split; auto. cbn [snd]. rewrite !app_length. cbn. lia. }
    destruct t; try exact Hleaf. congruence.
Qed.
