(* Proofs_Static3.v — helper lemmas for Proofs_Static.v (C04_static), part 4: values.  The generator records an
   error while emitting code for a value exactly when the flattener of the reference semantics is undefined on it. *)
From Coq Require Import List ZArith NArith Lia Bool.
From Theo Require Import Base Tokens Errors MacroExtract Parser VMModel GenModel RefSem SpecGrammar CompileStatements AcceptStatements Proofs_VM_dbg Proofs_Front Proofs_Gen0 Proofs_Gen Proofs_Sem Proofs_Static0 Proofs_Static1 Proofs_Static2.
Import ListNotations.
Local Open Scope Z_scope.

(* callable names: the generator's table and the flattener's list agree, with the same number of parameters *)
Definition FRel (funcs : list (str * progrec)) (names : list (str * nat)) (done : list routine) : Prop :=
  forall name,
    match alookup str_ltb funcs name, lookup_name names name with
    | Some p, Some j => exists callee, nth_error done j = Some callee /\ p_argnum p = zlen (r_params callee)
    | None, None => True
    | _, _ => False
    end.

Definition FRel' (g : gstate) (s : fstate) : Prop := FRel (g_funcs g) (f_names s) (f_done s).

Lemma FRel_ext g g' s s' : g_funcs g' = g_funcs g -> ssame s s' -> FRel' g s -> FRel' g' s'.
Proof. intros E [A1 A2 _ _] H. unfold FRel'. rewrite E, A1, A2. exact H. Qed.

Lemma fargs_ssame a acc acc' : fargs a acc = Some acc' -> ssame (fst acc) (fst acc').
Proof.
  apply (fargs_same (S (nsize a)) (fun n _ => fv_same n) a). lia.
Qed.

Lemma call_const_builtin l r arglocs vs rco :
  call_const l r arglocs = Ok rco -> length arglocs = length vs ->
  match rco, builtin_of r vs with
  | Some _, Some _ => True
  | None, None => True
  | _, _ => False
  end.
Proof.
  unfold call_const. intros H L.
  destruct (Nat.eqb (length arglocs) 2) eqn:E2.
  - apply Nat.eqb_eq in E2. rewrite E2 in L.
    destruct vs as [|v1 [|v2 [|v3 vs']]]; try discriminate L.
    binv H. subst r. destruct a as [t0 x0 y0 z0 ol or]. cbn [n_left n_right] in *. subst ol.
    destruct (n_type a0) eqn:Et; try (inversion H; subst rco;
      unfold builtin_of; destruct or as [[? ? ? ? [?|] ?]|]; rewrite ?Et; reflexivity).
    binv H. subst or. destruct a as [t1 x1 y1 z1 ol1 or1]. cbn [n_left] in *. subst ol1.
    inversion H; subst rco; clear H. unfold builtin_of. rewrite Et.
    destruct (n_type a1); reflexivity.
  - inversion H; subst rco.
    assert (Hv : forall v1 v2, vs <> [v1; v2]).
    { intros v1 v2 ->. cbn in L. rewrite L in E2. discriminate. }
    unfold builtin_of.
    destruct r as [[? ? ? ? [?|] [[? ? ? ? [?|] ?]|]]|]; try reflexivity.
    destruct vs as [|v1 [|v2 [|v3 vs']]]; try reflexivity. exfalso. apply (Hv v1 v2). reflexivity.
Qed.

Lemma plain_sim g1 arglocs fn tgt g' s1 vs :
  FRel' g1 s1 -> g_errs g1 = [] -> length arglocs = length vs ->
  call_plain g1 arglocs fn tgt = Ok g' ->
  match resolve_call s1 fn vs with Some _ => g_errs g' = [] | None => g_errs g' <> [] end.
Proof.
  intros HF He L H. unfold call_plain in H. unfold resolve_call. specialize (HF fn).
  destruct (alookup str_ltb (g_funcs g1) fn) as [p|]; destruct (lookup_name (f_names s1) fn) as [j|]; try contradiction.
  - destruct HF as (callee & Hn & Ha). rewrite Hn.
    assert (Hz : zlen arglocs = Z.of_nat (length vs)) by (unfold zlen; rewrite L; reflexivity).
    unfold zlen in Ha.
    destruct (Nat.eqb_spec (length vs) (length (r_params callee))) as [Heq|Hne];
      destruct (Z.eqb_spec (p_argnum p) (zlen arglocs)) as [Hq|Hq]; cbn [negb] in H; try lia.
    + binv H. inversion H; subst. cbn. apply q_emit_args in H0. rewrite (qu_errs _ _ H0). cbn. exact He.
    + inversion H; subst. apply err_ne.
  - inversion H; subst. apply err_ne.
Qed.

Definition VS (n : node) : Prop := forall tgt g g' s,
  FRel' g s -> g_errs g = [] -> dispatch_value false n tgt g = Ok g' ->
  match flat_value n s with Some _ => g_errs g' = [] | None => g_errs g' <> [] end.

Definition ArgS (a : node) : Prop := forall acc acc' facc,
  FRel' (fst acc) (fst facc) -> g_errs (fst acc) = [] -> length (snd acc) = length (snd facc) ->
  call_args (dispatch_value false) a acc = Ok acc' ->
  match fargs a facc with
  | Some facc' => g_errs (fst acc') = [] /\ length (snd acc') = length (snd facc')
  | None => g_errs (fst acc') <> []
  end.

Lemma args_sim : forall a, all_sub VS a -> ArgS a.
Proof.
  induction a as [t line file tok l r IHl IHr] using Proofs_Gen0.node_ind'. intros HS acc acc' facc HF He HL H.
  cbn [all_sub] in HS. destruct HS as [Hh [HSl HSr]].
  destruct (ntype_eq_dec_split t) as [->|Hn].
  - rewrite call_args_split in H. binv H. rewrite fargs_eq.
    assert (S1 : match fargs_opt l facc with
                 | Some facc1 => g_errs (fst a) = [] /\ length (snd a) = length (snd facc1) /\ FRel' (fst a) (fst facc1)
                 | None => g_errs (fst a) <> []
                 end).
    { destruct l as [x|]; cbn [call_args_o fargs_opt] in *.
      - specialize (IHl HSl _ _ _ HF He HL H0).
        destruct (fargs x facc) as [facc1|] eqn:Ef; auto. destruct IHl as [I1 I2]. split; auto. split; auto.
        eapply FRel_ext; [|eapply fargs_ssame; eauto|exact HF].
        apply (ca_funcs _ _ (call_args_calm x (dv_calm_all x) _ _ H0)).
      - inversion H0; subst. auto. }
    destruct (fargs_opt l facc) as [facc1|].
    + destruct S1 as (He1 & HL1 & HF1).
      destruct r as [x|]; cbn [call_args_o fargs_opt] in *.
      * exact (IHr HSr _ _ _ HF1 He1 HL1 H).
      * inversion H; subst. auto.
    + intros Hx. apply S1.
      destruct r as [x|]; cbn [call_args_o] in H.
      * apply (ca_errs _ _ (call_args_calm x (dv_calm_all x) _ _ H) Hx).
      * inversion H; subst. exact Hx.
  - rewrite call_args_leaf in H by (cbn; auto). binv H. inversion H; subst acc'; clear H. cbn [fst snd].
    rewrite fargs_eq.
    assert (Hleaf : match match flat_value (Node t line file tok l r) (fst facc) with
                          | Some (s', v) => Some (s', snd facc ++ [v])
                          | None => None
                          end with
                    | Some facc' => g_errs a = [] /\ length (snd acc ++ [z]) = length (snd facc')
                    | None => g_errs a <> []
                    end).
    { apply q_fetch_temporary in H0.
      assert (HF1 : FRel' g (fst facc)) by (eapply FRel_ext; [apply (qu_funcs _ _ H0) | apply ssame_refl | exact HF]).
      assert (He1 : g_errs g = []) by (rewrite (qu_errs _ _ H0); exact He).
      specialize (Hh z g a (fst facc) HF1 He1 H1).
      destruct (flat_value (Node t line file tok l r) (fst facc)) as [[s' v]|]; auto.
      split; auto. cbn [snd]. rewrite !app_length. cbn. lia. }
    destruct t; try exact Hleaf. congruence.
Qed.

Lemma value_sim_all : forall n, all_sub VS n.
Proof.
  apply all_sub_intro. intros t line file tok l r Hl Hr tgt g g' s HF He H.
  pose proof (q_adv g line file) as Qa. pose proof (ss_move_to s file line) as Sa.
  assert (HFa : FRel' (advance_line g line file) (move_to s file line))
    by (eapply FRel_ext; [apply (qu_funcs _ _ Qa) | exact Sa | exact HF]).
  assert (Hea : g_errs (advance_line g line file) = []) by (rewrite (qu_errs _ _ Qa); exact He).
  destruct (value_type t) eqn:Et.
  - destruct t; try discriminate.
    + (* NAME *) rewrite dv_name in H. binv H. inversion H; subst. rewrite flat_value_name. cbv zeta. cbn.
      apply q_fetch_variable in H0. rewrite (qu_errs _ _ H0). exact Hea.
    + (* NUMBER *) rewrite dv_number in H. inversion H; subst. rewrite flat_value_number. cbv zeta.
      unfold gen_str_to_int. cbn [fst snd]. destruct (INT_MAX <=? strtol tok).
      * apply err_ne.
      * cbn. exact Hea.
    + (* CALL *) rewrite dv_call in H. binv H. destruct a as [g1 arglocs].
      pose proof H as Htail. unfold call_tail in H. binv H. subst l.
      rewrite flat_value_call. cbv zeta.
      set (s0 := move_to s file line) in *.
      assert (SA : match (match r with None => Some (s0, []) | Some rn0 => fargs rn0 (s0, []) end) with
                   | Some (s1, vs) => g_errs g1 = [] /\ length arglocs = length vs /\ FRel' g1 s1
                   | None => g_errs g1 <> []
                   end).
      { destruct r as [rn0|]; cbn [call_args_o] in H0.
        - cbn in Hr. pose proof (args_sim rn0 Hr (advance_line g line file, []) (g1, arglocs) (s0, []) HFa Hea eq_refl H0) as HA.
          cbn [fst snd] in HA.
          destruct (fargs rn0 (s0, [])) as [[s1 vs]|] eqn:Ef; auto. destruct HA as [A1 A2]. split; auto. split; auto.
          eapply FRel_ext; [|apply (fargs_ssame _ _ _ Ef)|exact HFa].
          apply (ca_funcs _ _ (call_args_calm rn0 (dv_calm_all rn0) _ _ H0)).
        - inversion H0; subst. auto. }
      destruct (match r with None => Some (s0, []) | Some rn0 => fargs rn0 (s0, []) end) as [[s1 vs]|].
      2:{ intros Hx. apply SA. apply (ca_errs _ _ (c_call_tail _ _ _ _ _ _ Htail) Hx). }
      destruct SA as (He1 & HL1 & HF1).
      pose proof (call_const_builtin _ _ _ vs _ H2 HL1) as HB.
      pose proof (fun Hp => plain_sim g1 arglocs (n_tok a) tgt g' s1 vs HF1 He1 HL1 Hp) as HP.
      destruct a0 as [ctok|]; destruct (builtin_of r vs) as [[v1 c]|]; try contradiction; [|apply HP; exact H].
      change [95; 95; 73; 78; 67; 95; 95]%N with name_INC. change [95; 95; 68; 69; 67; 95; 95]%N with name_DEC.
      destruct (str_eqb (n_tok a) name_INC) eqn:EI; cbn [orb] in H.
      * binv H. inversion H; subst. cbn. exact He1.
      * destruct (str_eqb (n_tok a) name_DEC) eqn:ED; [|apply HP; exact H].
        binv H. cbn [andb] in H. inversion H; subst. cbn. exact He1.
  - rewrite dv_other in H by auto. inversion H; subst.
    rewrite flat_value_other by (destruct t; discriminate || congruence). apply err_ne.
Qed.

Lemma value_sim n tgt g g' s :
  FRel' g s -> g_errs g = [] -> dispatch_value false n tgt g = Ok g' ->
  match flat_value n s with Some _ => g_errs g' = [] | None => g_errs g' <> [] end.
Proof. apply (all_sub_here _ _ (value_sim_all n)). Qed.

(* ================================================================================================ *)
(* parameters                                                                                        *)
(* ================================================================================================ *)
Lemma existsb_str_in x l : existsb (str_eqb x) l = true <-> In x l.
Proof.
  rewrite existsb_exists. split.
  - intros (y & Hy & E). apply str_eqb_eq in E. subst; auto.
  - intros H. exists x. split; auto. apply str_eqb_eq. reflexivity.
Qed.

Lemma no_dup_spec l : no_dup l = true <-> NoDup l.
Proof.
  induction l as [|x t IH]; cbn [no_dup].
  - split; [constructor | reflexivity].
  - rewrite andb_true_iff, negb_true_iff, IH. split.
    + intros [H1 H2]. constructor; auto. intros Hi. apply existsb_str_in in Hi. congruence.
    + intros H. inversion H; subst. split; auto.
      destruct (existsb (str_eqb x) t) eqn:E; auto. apply existsb_str_in in E. contradiction.
Qed.

Lemma NoDup_app_l {A} (a b : list A) : NoDup (a ++ b) -> NoDup a.
Proof.
  induction a as [|x a IH]; cbn; intros H; [constructor|]. inversion H; subst. constructor; auto.
  intros Hi. apply H2. apply in_or_app. auto.
Qed.

Lemma NoDup_snoc_inv {A} (a : list A) x : NoDup (a ++ [x]) -> NoDup a /\ ~ In x a.
Proof.
  intros H. split; [eapply NoDup_app_l; eauto|].
  apply NoDup_remove_2 in H. rewrite app_nil_r in H. exact H.
Qed.

Lemma find_reg_none regs tok : forall k, find_reg regs tok k = None <-> ~ In tok (map vname regs).
Proof.
  induction regs as [|r t IH]; intros k; cbn [find_reg map In]; [tauto|].
  destruct (str_eqb (vname r) tok) eqn:E.
  - apply str_eqb_eq in E. split; [discriminate | intros H; exfalso; apply H; auto].
  - rewrite IH. split; [|tauto]. intros H [H1|H1]; auto. subst. rewrite (proj2 (str_eqb_eq _ _) eq_refl) in E. discriminate.
Qed.

Lemma param_names_leaf t line file tok l r : t <> N_SPLIT -> param_names (Node t line file tok l r) = [tok].
Proof. destruct t; intros H; try reflexivity. congruence. Qed.

Definition oparams (o : option node) : list str := match o with Some x => param_names x | None => [] end.

Definition DAS (n : node) : Prop := forall g g' f tl,
  g_syms g = f :: tl -> g_errs g = [] -> NoDup (map vname (f_regs f)) ->
  dispatch_args_n false n g = Ok g' ->
  (NoDup (map vname (f_regs f) ++ param_names n) ->
     g_errs g' = [] /\ exists f', g_syms g' = f' :: tl /\
       map vname (f_regs f') = map vname (f_regs f) ++ param_names n /\
       f_argnum f' = f_argnum f + zlen (param_names n)) /\
  (~ NoDup (map vname (f_regs f) ++ param_names n) -> g_errs g' <> []).

Lemma da_sim : forall n, DAS n.
Proof.
  induction n as [t line file tok l r IHl IHr] using Proofs_Gen0.node_ind'. intros g g' f tl Es He Hnd H.
  destruct (ntype_eq_dec_split t) as [->|Hn].
  - rewrite da_split in H. binv H.
    change (param_names (Node N_SPLIT line file tok l r)) with (oparams l ++ oparams r).
    set (names := map vname (f_regs f)) in *.
    assert (L : (NoDup (names ++ oparams l) ->
                   g_errs a = [] /\ exists f1, g_syms a = f1 :: tl /\ map vname (f_regs f1) = names ++ oparams l /\
                     f_argnum f1 = f_argnum f + zlen (oparams l)) /\
                (~ NoDup (names ++ oparams l) -> g_errs a <> [])).
    { destruct l as [x|]; cbn [dispatch_args oparams] in *.
      - exact (IHl g a f tl Es He Hnd H0).
      - inversion H0; subst a. rewrite app_nil_r. split; [|tauto]. intros _. split; auto.
        exists f. repeat split; auto. cbn. lia. }
    assert (Hsa : g_syms a <> []).
    { destruct l as [x|]; cbn [dispatch_args] in H0.
      - eapply calm_args_syms. eapply da_calm; [|exact H0]. rewrite Es; discriminate.
      - inversion H0; subst. rewrite Es; discriminate. }
    assert (Rm : g_errs g' = [] -> g_errs a = []).
    { destruct r as [x|]; cbn [dispatch_args] in H.
      - apply (cg_errs _ _ (da_calm x a g' Hsa H)).
      - inversion H; subst. auto. }
    destruct L as [L1 L2].
    destruct (no_dup (names ++ oparams l)) eqn:El.
    + apply no_dup_spec in El. destruct (L1 El) as (He1 & f1 & Es1 & Hn1 & Ha1).
      assert (R : (NoDup ((names ++ oparams l) ++ oparams r) ->
                   g_errs g' = [] /\ exists f2, g_syms g' = f2 :: tl /\
                     map vname (f_regs f2) = (names ++ oparams l) ++ oparams r /\
                     f_argnum f2 = f_argnum f1 + zlen (oparams r)) /\
                  (~ NoDup ((names ++ oparams l) ++ oparams r) -> g_errs g' <> [])).
      { destruct r as [x|]; cbn [dispatch_args oparams] in *.
        - rewrite <- Hn1. apply (IHr a g' f1 tl Es1 He1); auto. rewrite Hn1. exact El.
        - inversion H; subst g'. rewrite app_nil_r. split; [|tauto]. intros _. split; auto.
          exists f1. repeat split; auto. cbn. lia. }
      rewrite app_assoc. destruct R as [R1 R2]. split; [|exact R2].
      intros Hx. destruct (R1 Hx) as (He2 & f2 & Es2 & Hn2 & Ha2). split; auto.
      exists f2. repeat split; auto. rewrite Ha2, Ha1, zlen_app. lia.
    + assert (Hnn : ~ NoDup (names ++ oparams l)).
      { intros Hx. apply no_dup_spec in Hx. congruence. }
      split.
      * intros Hx. exfalso. apply Hnn. rewrite app_assoc in Hx. eapply NoDup_app_l; eauto.
      * intros _ Hx. apply (L2 Hnn). auto.
  - rewrite da_leaf in H by auto. rewrite param_names_leaf by auto.
    unfold get_symbols in H. rewrite Es in H. cbn [hd_error of_opt bind] in H.
    destruct (find_reg (f_regs f) tok 0) eqn:Ef.
    + inversion H; subst g'. assert (Hin : In tok (map vname (f_regs f))).
      { destruct (in_dec (list_eq_dec N.eq_dec) tok (map vname (f_regs f))) as [Hi|Hi]; auto.
        apply (find_reg_none _ _ 0) in Hi. congruence. }
      split.
      * intros Hx. apply NoDup_snoc_inv in Hx. tauto.
      * intros _. cbn. destruct (g_errs g); discriminate.
    + apply find_reg_none in Ef.
      unfold fetch_variable, get_symbols, set_symbols in H. cbn [g_syms upd_syms hd_error of_opt bind f_regs] in H.
      assert (Ef' : find_reg (f_regs f) tok 0 = None) by (apply find_reg_none; auto).
      rewrite Ef' in H. cbn [bind fst] in H. inversion H; subst g'; clear H. cbn.
      split.
      * intros _. split; auto. rewrite Es. cbn [List.tl]. eexists. split; [reflexivity|]. cbn. rewrite map_app. cbn. split; auto.
      * intros Hx. exfalso. apply Hx. apply NoDup_snoc; auto.
Qed.
