(* VMSpec.v — the vocabulary in which the VM-level properties (C05, C06, C17, C19, C20 and the VM
   half of C03/C16) are stated: executable checkers on programs and predicates on machine states.
   Definitions only. *)
From Coq Require Import Sorting.Sorted.
From Theo Require Import Base VMModel.
Local Open Scope Z_scope.

(* ---- checkers on programs -------------------------------------------------------------------- *)
Definition is_break_op (o : opcode) : bool :=
  match o with POTENTIAL_BREAK | BREAK => true | _ => false end.

Definition zmem (i : Z) (l : list Z) : bool := existsb (Z.eqb i) l.

(* sites of a location, as the VM looks them up *)
Definition sites (p : program) (b : bp) : list Z :=
  match alookup bp_ltb (potential_breaks p) b with Some l => l | None => [] end.

(* tables_ok: the two tables are inverse of each other; listed <-> break opcode *)
Definition pb_entry_ok (p : program) (b : bp) : bool :=
  forallb (fun i =>
      match alookup z_ltb (line_info p) i with
      | Some b' => bp_eqb b b'
      | None => false
      end &&
      match znth (code p) i with
      | Some ins => is_break_op (iop ins)
      | None => false
      end) (sites p b).

Definition li_entry_ok (p : program) (e : Z * bp) : bool :=
  zmem (fst e) (sites p (snd e)).

Fixpoint code_listed (p : program) (c : list instr) (i : Z) : bool :=
  match c with
  | [] => true
  | ins :: rest =>
      (if is_break_op (iop ins)
       then match alookup z_ltb (line_info p) i with Some _ => true | None => false end
       else true) && code_listed p rest (i + 1)
  end.

Definition tables_ok (p : program) : bool :=
  forallb (fun e => pb_entry_ok p (fst e)) (potential_breaks p) &&
  forallb (li_entry_ok p) (line_info p) &&
  code_listed p (code p) 0.

Definition no_break (p : program) : bool :=
  forallb (fun ins => negb (opcode_eqb (iop ins) BREAK)) (code p).

(* every PREPARE_EXEC creates a frame of non-negative size *)
Definition counts_ok (p : program) : bool :=
  forallb (fun ins => if opcode_eqb (iop ins) PREPARE_EXEC then 0 <=? ia ins else true) (code p).

(* every constant a CONST instruction loads is a natural number of the word range *)
Definition consts_in_range (p : program) : bool :=
  forallb (fun ins => if opcode_eqb (iop ins) CONST then (0 <=? ib ins) && (ib ins <=? INT_MAX) else true) (code p).

Definition max_frame (p : program) : Z :=
  fold_right (fun ins m => if opcode_eqb (iop ins) PREPARE_EXEC then Z.max (ia ins) m else m) 0 (code p).

(* ---- predicates on states ---------------------------------------------------------------------- *)
(* C19: the frames of the live activations, oldest at the bottom, partition data exactly.
   [tiled st n]: the stack st (newest first) tiles the first n words. *)
Inductive tiled : list act -> Z -> Prop :=
| tiled_nil : tiled [] 0
| tiled_cons : forall a rest n,
    tiled rest n -> data_start a = n -> 0 <= seg_size a -> tiled (a :: rest) (n + seg_size a).

Definition sum_sizes (st : list act) : Z := fold_right (fun a acc => seg_size a + acc) 0 st.

Definition word_ok (v : Z) : Prop := 0 <= v <= INT_MAX.

(* C05: what debugging must not influence.  passive: BREAK is the enabled form of POTENTIAL_BREAK *)
Definition passive (i : instr) : instr :=
  if opcode_eqb (iop i) BREAK then set_op i POTENTIAL_BREAK else i.
Definition passive_prog (p : program) : program := set_code p (map passive (code p)).
(* the machine stripped of everything the debugger controls *)
Definition strip (s : vm) : vm :=
  mkVM false (ip s) (passive_prog (prog s)) (data s) (stack s) [].

(* C06 vocabulary *)
Definition op_at (s : vm) (i : Z) : option opcode := option_map iop (znth (code (prog s)) i).
Definition listed (p : program) (i : Z) : Prop := exists b, alookup z_ltb (line_info p) i = Some b.
Definition enabled_site (s : vm) (i : Z) : Prop :=
  exists b, alookup z_ltb (line_info (prog s)) i = Some b /\ smem bp_ltb (enabled s) b = true.
(* a position at which a resumed machine must stop *)
Definition stop_site (s : vm) (i : Z) : Prop :=
  enabled_site s i \/ (stepping s = true /\ listed (prog s) i).
Definition halt_at (s : vm) (i : Z) : Prop := op_at s i = Some HALT.

(* the relation between a running machine and the program it was created from *)
Record rel (p : program) (s : vm) : Prop := mkRel {
  rel_maps : stack_maps (prog s) = stack_maps p;
  rel_pb : potential_breaks (prog s) = potential_breaks p;
  rel_li : line_info (prog s) = line_info p;
  rel_code : map passive (code (prog s)) = code p;
  (* BREAK <-> site of an enabled line *)
  rel_brk : forall i, op_at s i = Some BREAK <-> enabled_site s i;
  rel_sorted : StronglySorted (fun x y => bp_ltb x y = true) (enabled s);
  rel_avail : forall b, In b (enabled s) -> alookup bp_ltb (potential_breaks p) b <> None
}.

(* abstract bookkeeping of requests (C06_enabled): the enabled set as a membership function *)
Definition req_step (p : program) (en : bp -> bool) (c : api) : bp -> bool :=
  match c with
  | ASetBP f l v =>
      let b := mkBP f l in
      match alookup bp_ltb (potential_breaks p) b with
      | None => en
      | Some _ => fun x => if bp_eqb x b then v else en x
      end
  | AClear | AReset => fun _ => false
  | _ => en
  end.
Definition req_fold (p : program) (h : list api) : bp -> bool :=
  fold_left (req_step p) h (fun _ => false).
