(* Proofs_Front.v — C02 / C08 for the front end: the macro-definition extractor is total and keeps the
   stream end-of-file terminated; the recursive-descent parser is total within its recursion budget,
   delivers trees of the shape the generator relies on, and places every node at a token position. *)
From Coq Require Import List ZArith NArith Lia Bool.
From Theo Require Import Base Regex Tokens Errors Lexer Scan MacroExtract Grammar LR MacroApply Parser VMModel VMSpec VMCheck GenModel Compile Gen_Lexer Gen_Consts CompileStatements.
Import ListNotations.

(* ======================================================================================== *)
(* Part 1: extraction                                                                       *)
(* ======================================================================================== *)
Local Open Scope Z_scope.

(* ---- generic helpers ------------------------------------------------------------------- *)
Lemma xe_tk_eqb_eq : forall a b, tk_eqb a b = true -> a = b.
Proof.
  intros a b H. unfold tk_eqb in H. apply N.eqb_eq in H.
  destruct a; destruct b; try reflexivity; discriminate H.
Qed.

Lemma xe_tk_eqb_refl : forall a, tk_eqb a a = true.
Proof. intros a. unfold tk_eqb. apply N.eqb_refl. Qed.

Lemma xe_znth_some {A} (l : list A) i : 0 <= i < zlen l -> exists t, znth l i = Some t /\ In t l.
Proof.
  intros H. unfold znth. destruct (i <? 0) eqn:E; [lia|].
  destruct (nth_error l (Z.to_nat i)) eqn:N.
  - eexists; split; eauto using nth_error_In.
  - apply nth_error_None in N. unfold zlen in H. lia.
Qed.

Lemma xe_znth_last {A} (l : list A) e : znth (l ++ [e]) (zlen (l ++ [e]) - 1) = Some e.
Proof.
  unfold znth, zlen. rewrite app_length. simpl length.
  destruct (Z.of_nat (length l + 1) - 1 <? 0) eqn:E; [apply Z.ltb_lt in E; lia|].
  replace (Z.to_nat (Z.of_nat (length l + 1) - 1)) with (length l) by lia.
  rewrite nth_error_app2 by lia. rewrite Nat.sub_diag. reflexivity.
Qed.

Lemma xe_znth_app1 {A} (l : list A) e i t : znth (l ++ [e]) i = Some t -> i < zlen l -> In t l.
Proof.
  unfold znth, zlen. destruct (i <? 0) eqn:E; [discriminate|].
  intros H L. rewrite nth_error_app1 in H by lia. eauto using nth_error_In.
Qed.

(* ---- the extractor ----------------------------------------------------------------------- *)
Section X.
  Variable tokens : list token.
  Hypothesis NE : tokens <> [].
  Notation sz := (MacroExtract.size tokens).

  Lemma sz_pos : 1 <= sz.
  Proof. unfold MacroExtract.size, zlen. destruct tokens; [congruence|]. simpl. lia. Qed.

  Lemma clamped_ok : forall p, 0 <= p -> exists t, clamped tokens p = Ok t /\ In t tokens.
  Proof.
    intros p Hp. unfold clamped. pose proof sz_pos.
    destruct (xe_znth_some tokens (Z.min p (sz - 1))) as (t & E & I).
    { unfold MacroExtract.size in *. lia. }
    exists t. rewrite E. auto.
  Qed.

  (* the two situations of the lookahead *)
  Lemma la_cases : forall p, 0 <= p ->
    (sz <= p /\ lookahead tokens p = Ok T_EOF) \/
    (p < sz /\ exists t, znth tokens p = Some t /\ lookahead tokens p = Ok (tk t) /\ clamped tokens p = Ok t).
  Proof.
    intros p Hp. unfold lookahead, clamped. destruct (sz <=? p) eqn:E.
    - left. split; [lia|reflexivity].
    - right. split; [lia|]. destruct (xe_znth_some tokens p) as (t & Et & _).
      { unfold MacroExtract.size in *. lia. }
      exists t. rewrite Z.min_l by lia. rewrite Et. auto.
  Qed.

  Lemma la_ok : forall p, 0 <= p -> exists k, lookahead tokens p = Ok k.
  Proof.
    intros p Hp. destruct (la_cases p Hp) as [(_ & E)|(_ & t & _ & E & _)]; eauto.
  Qed.

  Lemma la_noneof : forall p k, 0 <= p -> lookahead tokens p = Ok k -> k <> T_EOF ->
    exists t, znth tokens p = Some t.
  Proof.
    intros p k Hp E K. destruct (la_cases p Hp) as [(_ & E')|(_ & t & Z & _)]; eauto.
    congruence.
  Qed.

  (* field-preservation relation *)
  Definition keep (x x' : xstate) : Prop :=
    x_out x' = x_out x /\ x_macros x' = x_macros x.

  Lemma err_here_ok : forall x k, 0 <= x_pos x ->
    exists x', err_here tokens x k = Ok x' /\ x_pos x' = x_pos x /\ keep x x'.
  Proof.
    intros x k Hp. unfold err_here. destruct (clamped_ok _ Hp) as (t & E & _). rewrite E.
    cbn [bind]. eexists; split; [reflexivity|]. unfold keep; simpl; auto.
  Qed.

  Lemma xmatch_ok : forall x k, 0 <= x_pos x ->
    exists x' b, xmatch tokens x k = Ok (x', b) /\ x_pos x' = x_pos x + 1 /\ keep x x' /\
                 (b = true -> lookahead tokens (x_pos x) = Ok k).
  Proof.
    intros x k Hp. unfold xmatch. destruct (la_ok _ Hp) as (k0 & E). rewrite E. cbn [bind].
    destruct (tk_eqb k0 k) eqn:T.
    - apply xe_tk_eqb_eq in T. subst. do 2 eexists; split; [reflexivity|].
      unfold keep; simpl; auto.
    - destruct (err_here_ok x e_macro_expect Hp) as (x1 & E1 & P1 & K1 & K2). rewrite E1. cbn [bind].
      do 2 eexists; split; [reflexivity|]. unfold keep; simpl. repeat split; auto; discriminate.
  Qed.

  Lemma advance_ok : forall x, 0 <= x_pos x ->
    exists x', advance tokens x = Ok x' /\ x_pos x' = x_pos x + 1 /\ keep x x'.
  Proof.
    intros x Hp. unfold advance. destruct (la_ok _ Hp) as (k0 & E). rewrite E. cbn [bind].
    destruct (xmatch_ok x k0 Hp) as (x' & b & E' & P & K & _). rewrite E'. cbn [bind].
    exists x'. simpl. auto.
  Qed.

  Lemma upd_back_ok : forall x f, x_macros x <> [] ->
    exists x', upd_back x f = Ok x' /\ x_pos x' = x_pos x /\ x_out x' = x_out x /\ x_macros x' <> [].
  Proof.
    intros x f H. unfold upd_back. destruct (rev (x_macros x)) eqn:R.
    - exfalso. apply H. rewrite <- (rev_involutive (x_macros x)), R. reflexivity.
    - eexists; split; [reflexivity|]. simpl. repeat split; auto.
      intro C. apply app_eq_nil in C. destruct C; discriminate.
  Qed.

  Lemma pop_macro_ok : forall x, x_macros x <> [] ->
    exists x', pop_macro x = Ok x' /\ x_pos x' = x_pos x /\ x_out x' = x_out x.
  Proof.
    intros x H. unfold pop_macro. destruct (rev (x_macros x)) eqn:R.
    - exfalso. apply H. rewrite <- (rev_involutive (x_macros x)), R. reflexivity.
    - eexists; split; [reflexivity|]. simpl. auto.
  Qed.

  Lemma strToInt_ok : forall x s, 0 <= x_pos x ->
    exists x' v, strToInt tokens x s = Ok (x', v) /\ x_pos x' = x_pos x /\ keep x x'.
  Proof.
    intros x s Hp. unfold strToInt. destruct (clamped_ok _ Hp) as (t & E & _). rewrite E. cbn [bind].
    do 2 eexists; split; [reflexivity|]. unfold keep. destruct (INT_MAX <=? strtol s); simpl; auto.
  Qed.

  Lemma push_rule_ok : forall x t, znth tokens (x_pos x) = Some t -> x_macros x <> [] ->
    exists x', push_rule tokens x = Ok x' /\ x_pos x' = x_pos x /\ x_out x' = x_out x /\ x_macros x' <> [].
  Proof.
    intros x t Z M. unfold push_rule. rewrite Z. cbn [of_opt bind]. apply upd_back_ok; auto.
  Qed.

  Lemma push_repl_ok : forall x t, znth tokens (x_pos x) = Some t -> x_macros x <> [] ->
    exists x', push_replacement tokens x = Ok x' /\ x_pos x' = x_pos x /\ x_out x' = x_out x /\ x_macros x' <> [].
  Proof.
    intros x t Z M. unfold push_replacement. rewrite Z. cbn [of_opt bind]. apply upd_back_ok; auto.
  Qed.

  (* ---- one step ------------------------------------------------------------------------ *)
  Definition xrank (m : xmode) : nat :=
    match m with mDone => 0 | mS => 1 | mA _ => 2 | mD | mMD => 3 end%nat.

  Definition minv (m : xmode) (x : xstate) : Prop :=
    0 <= x_pos x /\ match m with mD | mMD | mA _ => x_macros x <> [] | _ => True end.

  Definition noeof (l : list token) : Prop := Forall (fun t => tk t <> T_EOF) l.

  Definition oinv (m : xmode) (out : list token) : Prop :=
    match m with mDone => eof_terminated out | _ => noeof out end.

  Definition step_post (m : xmode) (x : xstate) (m' : xmode) (x' : xstate) : Prop :=
    minv m' x' /\ x_pos x + 1 <= x_pos x' /\
    (sz <= x_pos x -> (xrank m' < xrank m)%nat) /\
    (eof_terminated tokens -> oinv m (x_out x) -> oinv m' (x_out x')).

  (* under eof_terminated, a T_EOF lookahead means the clamped token is the EOF token *)
  Lemma clamped_eof : forall p t, eof_terminated tokens -> 0 <= p ->
    lookahead tokens p = Ok T_EOF -> clamped tokens p = Ok t -> tk t = T_EOF.
  Proof.
    intros p t (body & e & EQ & Ke & Fb) Hp L C.
    destruct (la_cases p Hp) as [(S1 & _)|(S1 & t' & Z & L' & C')].
    - unfold clamped in C. rewrite Z.min_r in C by lia. unfold MacroExtract.size in C.
      rewrite EQ in C. rewrite xe_znth_last in C. cbn in C. congruence.
    - congruence.
  Qed.

  Lemma noeof_snoc : forall l t, noeof l -> tk t <> T_EOF -> noeof (l ++ [t]).
  Proof. intros l t H K. apply Forall_app. split; auto. Qed.

  Lemma eofterm_snoc : forall l t, noeof l -> tk t = T_EOF -> eof_terminated (l ++ [t]).
  Proof. intros l t H K. exists l, t. auto. Qed.

  Ltac use L :=
    let x' := fresh "x" in let E := fresh "E" in let P := fresh "P" in
    destruct L as (x' & E & P); [try assumption; try lia ..|]; rewrite E; cbn [bind fst snd].

  Ltac adv := match goal with |- context [advance tokens ?y] =>
    let x' := fresh "x" in let E := fresh "E" in let P := fresh "P" in let O := fresh "O" in let M := fresh "M" in
    destruct (advance_ok y) as (x' & E & P & O & M); [cbn [x_pos] in *; lia|]; rewrite E; cbn [bind] end.

  Ltac errh k := match goal with |- context [err_here tokens ?y k] =>
    let x' := fresh "x" in let E := fresh "E" in let P := fresh "P" in let O := fresh "O" in let M := fresh "M" in
    destruct (err_here_ok y k) as (x' & E & P & O & M); [cbn [x_pos] in *; lia|]; rewrite E; cbn [bind] end.

  Ltac fin :=
    do 2 eexists; split; [reflexivity|];
    unfold step_post, minv; cbn [x_pos x_macros] in *;
    split; [split; [lia|try exact I; try congruence]|];
    split; [lia|]; split; [solve [auto]|]; cbn [oinv].

  Lemma xmode_eq_done : forall m : xmode, m = mDone \/ m <> mDone.
  Proof. destruct m; auto; right; discriminate. Qed.

  Lemma xstep_ok : forall m x, m <> mDone -> minv m x ->
    exists m' x', xstep tokens m x = Ok (m', x') /\ step_post m x m' x'.
  Proof.
    intros m x ND (Hp & HM). unfold xstep.
    destruct (la_cases _ Hp) as [(SZ & LA)|(SZ & t & ZN & LA & CL)]; rewrite LA; cbn [bind].
    - (* beyond the end: lookahead is T_EOF *)
      destruct m as [| | |pop|]; [| | | |congruence].
      + destruct (clamped_ok _ Hp) as (t & CL & _).
        unfold copy. rewrite CL. cbn [bind].
        match goal with |- context [advance tokens ?y] => destruct (advance_ok y) as (x2 & E2 & P2 & K2 & K2') end.
        { simpl. lia. }
        rewrite E2. cbn [bind]. do 2 eexists. split; [reflexivity|].
        simpl in *. unfold step_post, minv. simpl. repeat split; try lia.
        intros ET OI. rewrite K2. apply eofterm_snoc; auto.
        eapply clamped_eof; eauto.
      + destruct (xmatch_ok x AS Hp) as (x2 & b & E2 & P2 & (K2 & K2') & _). rewrite E2. cbn [bind fst].
        do 2 eexists. split; [reflexivity|].
        unfold step_post, minv. simpl. repeat split; try lia; try congruence.
      + destruct (xmatch_ok x AS Hp) as (x2 & b & E2 & P2 & (K2 & K2') & _). rewrite E2. cbn [bind fst].
        do 2 eexists. split; [reflexivity|].
        unfold step_post, minv. simpl. repeat split; try lia; try congruence.
      + destruct (xmatch_ok x END_DEFINE Hp) as (x2 & b & E2 & P2 & (K2 & K2') & _). rewrite E2. cbn [bind fst].
        destruct pop.
        * destruct (pop_macro_ok x2) as (x3 & E3 & P3 & O3); [congruence|]. rewrite E3. cbn [bind].
          do 2 eexists. split; [reflexivity|].
          unfold step_post, minv. simpl. repeat split; try lia; try congruence.
        * cbn [bind]. do 2 eexists. split; [reflexivity|].
          unfold step_post, minv. simpl. repeat split; try lia; try congruence.
    - (* a real token t *)
      assert (RK : forall m', sz <= x_pos x -> (xrank m' < xrank m)%nat) by (intros; lia).
      destruct m as [| | |pop|]; [| | | |congruence].
      + (* S *)
        destruct (tk t) eqn:K; cbv beta iota;
          try (unfold copy; rewrite CL; cbn [bind]; adv; fin;
               intros ET OI; rewrite O; cbn [x_out];
               first [ apply noeof_snoc; [exact OI | congruence]
                     | apply eofterm_snoc; [exact OI | congruence] ]).
        (* DEFINE *)
        destruct (advance_ok x Hp) as (x1 & E1 & P1 & O1 & M1). rewrite E1. cbn [bind].
        assert (NM : x_macros (push_macro x1) <> []).
        { unfold push_macro. cbn [x_macros]. intro C. apply app_eq_nil in C. destruct C; discriminate. }
        assert (P2 : x_pos (push_macro x1) = x_pos x1) by reflexivity.
        assert (O2 : x_out (push_macro x1) = x_out x1) by reflexivity.
        remember (push_macro x1) as x2 eqn:EQ2. clear EQ2.
        destruct (la_ok (x_pos x2)) as (k2 & L2); [lia|].
        rewrite L2. cbn [bind].
        destruct k2; cbv beta iota; try (fin; intros; congruence).
        (* PRIORITY *)
        destruct (advance_ok x2) as (x3 & E3 & P3 & O3 & M3); [lia|]. rewrite E3. cbn [bind].
        destruct (xmatch_ok x3 INT) as (x4 & ok & E4 & P4 & (O4 & M4) & B4); [lia|].
        rewrite E4. cbn [bind]. cbv beta iota.
        destruct ok; [|fin; intros; congruence].
        destruct (la_noneof (x_pos x3) INT) as (t3 & Z3); [lia|auto|discriminate|].
        replace (x_pos x4 - 1) with (x_pos x3) by lia. rewrite Z3. cbn [of_opt bind].
        destruct (strToInt_ok x4 (ttext t3)) as (x5 & v & E5 & P5 & (O5 & M5)); [lia|].
        rewrite E5. cbn [bind]. cbv beta iota.
        match goal with |- context [upd_back x5 ?f] => destruct (upd_back_ok x5 f) as (x6 & E6 & P6 & O6 & M6) end.
        { congruence. }
        rewrite E6. cbn [bind]. fin. intros; congruence.
      + (* D *)
        destruct (tk t) eqn:K; cbv beta iota;
          try (destruct (push_rule_ok x t ZN HM) as (x1 & E1 & P1 & O1 & M1); rewrite E1; cbn [bind];
               adv; fin; intros; congruence).
        * destruct (xmatch_ok x AS Hp) as (x2 & b & E2 & P2 & (O2 & M2) & _). rewrite E2. cbn [bind fst].
          fin. intros; congruence.
        * errh e_macro_nested_define. adv. fin. intros; congruence.
        * errh e_macro_empty. adv. fin. intros; congruence.
      + (* MD *)
        destruct (tk t) eqn:K; cbv beta iota;
          try (destruct (push_rule_ok x t ZN HM) as (x1 & E1 & P1 & O1 & M1); rewrite E1; cbn [bind];
               adv; fin; intros; congruence).
        * destruct (xmatch_ok x AS Hp) as (x2 & b & E2 & P2 & (O2 & M2) & _). rewrite E2. cbn [bind fst].
          fin. intros; congruence.
        * errh e_macro_nested_define. adv. fin. intros; congruence.
        * adv. fin. intros; congruence.
      + (* A *)
        destruct (tk t) eqn:K; cbv beta iota;
          try (destruct (push_repl_ok x t ZN HM) as (x1 & E1 & P1 & O1 & M1); rewrite E1; cbn [bind];
               adv; fin; intros; congruence).
        * destruct (xmatch_ok x END_DEFINE Hp) as (x2 & b & E2 & P2 & (O2 & M2) & _). rewrite E2. cbn [bind fst].
          destruct pop.
          -- destruct (pop_macro_ok x2) as (x3 & E3 & P3 & O3); [congruence|]. rewrite E3. cbn [bind].
             fin. intros; congruence.
          -- cbn [bind]. fin. intros; congruence.
        * errh e_macro_nested_define. adv. fin. intros; congruence.
        * errh e_macro_nested_as. adv. fin. intros; congruence.
        * adv. destruct pop.
          -- destruct (pop_macro_ok x0) as (x3 & E3 & P3 & O3); [congruence|]. rewrite E3. cbn [bind].
             fin. intros; congruence.
          -- cbn [bind]. fin. intros; congruence.
  Qed.

  (* ---- the run ---------------------------------------------------------------------------- *)
  Definition xneed (m : xmode) (x : xstate) : nat :=
    Nat.add (Z.to_nat (sz - x_pos x)) (if x_pos x <? sz then 3%nat else xrank m).

  Lemma xrank_le3 : forall m, (xrank m <= 3)%nat.
  Proof. destruct m; simpl; lia. Qed.

  Lemma xrun_ok : forall fuel m x, minv m x -> (xneed m x <= fuel)%nat ->
    exists x', xrun tokens fuel m x = Ok x' /\ 0 <= x_pos x' /\ (eof_terminated tokens -> oinv m (x_out x) -> eof_terminated (x_out x')).
  Proof.
    induction fuel as [|f IH]; intros m x MI NF.
    - destruct m; try (exfalso; unfold xneed in NF; simpl xrank in NF;
                       destruct (x_pos x <? sz); lia).
      exists x. split; [reflexivity|]. split; [apply MI|]. auto.
    - destruct (xmode_eq_done m) as [->|ND].
      { exists x. split; [reflexivity|]. split; [apply MI|]. auto. }
      destruct (xstep_ok m x ND MI) as (m' & x' & E & MI' & PP & RK & OI).
      assert (NF' : (xneed m' x' <= f)%nat).
      { unfold xneed in *. pose proof (xrank_le3 m'). pose proof (xrank_le3 m).
        destruct (x_pos x <? sz) eqn:C1; destruct (x_pos x' <? sz) eqn:C2;
          try apply Z.ltb_lt in C1; try apply Z.ltb_lt in C2;
          try apply Z.ltb_ge in C1; try apply Z.ltb_ge in C2; lia. }
      destruct (IH m' x' MI' NF') as (x'' & E' & P'' & O'').
      exists x''. split.
      + destruct m; try congruence; cbn [xrun]; rewrite E; cbn [bind fst snd]; exact E'.
      + split; auto.
  Qed.

  Lemma validate_repl_ok : forall repl x ntt, 0 <= x_pos x ->
    exists x' r, validate_repl tokens x ntt repl = Ok (x', r) /\ x_pos x' = x_pos x.
  Proof.
    induction repl as [|t rest IH]; intros x ntt Hp.
    - do 2 eexists. split; reflexivity.
    - cbn [validate_repl].
      assert (DEF : exists x' r, (do r2 <- validate_repl tokens x ntt rest; Ok (fst r2, t :: snd r2)) = Ok (x', r)
                                 /\ x_pos x' = x_pos x).
      { destruct (IH x ntt Hp) as (x' & r & E & P). rewrite E. cbn [bind fst snd]. eauto. }
      destruct (tk t); try exact DEF.
      destruct (strToInt_ok x (tl (ttext t)) Hp) as (x1 & v & E1 & P1 & _). rewrite E1. cbn [bind].
      cbv beta iota.
      destruct ((v <? 0) || (ntt <=? v)).
      + match goal with |- context [validate_repl tokens ?y ntt rest] =>
          destruct (IH y ntt) as (x' & r & E & P) end.
        { cbn [add_err x_pos]. lia. }
        rewrite E. cbn [bind fst snd]. do 2 eexists. split; [reflexivity|].
        cbn [add_err x_pos] in P. lia.
      + destruct (IH x1 ntt) as (x' & r & E & P); [lia|].
        rewrite E. cbn [bind fst snd]. do 2 eexists. split; [reflexivity|]. lia.
  Qed.

  Lemma validate_macros_ok : forall ms x, 0 <= x_pos x ->
    exists x' r, validate_macros tokens x ms = Ok (x', r) /\ x_pos x' = x_pos x.
  Proof.
    induction ms as [|m rest IH]; intros x Hp.
    - do 2 eexists. split; reflexivity.
    - cbn [validate_macros].
      destruct (validate_repl_ok (m_repl m) x (zlen (m_tt m)) Hp) as (x1 & r1 & E1 & P1).
      rewrite E1. cbn [bind]. cbv beta iota.
      destruct (IH x1) as (x2 & r2 & E2 & P2); [lia|].
      rewrite E2. cbn [bind fst snd]. do 2 eexists. split; [reflexivity|]. lia.
  Qed.

  Lemma extract_run : exists x, xrun tokens (4 + length tokens) mS (mkX [] [] 0 []) = Ok x /\ 0 <= x_pos x /\ (eof_terminated tokens -> eof_terminated (x_out x)).
  Proof.
    destruct (xrun_ok (4 + length tokens) mS (mkX [] [] 0 [])) as (x & E & P & O).
    - split; simpl; [lia|exact I].
    - unfold xneed. cbn [x_pos xrank]. unfold MacroExtract.size, zlen.
      destruct (0 <? Z.of_nat (length tokens)); lia.
    - exists x. repeat split; auto. intro ET. apply O; auto. constructor.
  Qed.
End X.

Lemma C02_extract_total_proof : C02_extract_total_stmt.
Proof.
  intros toks NE. unfold extract_macros.
  destruct (extract_run toks NE) as (x & E & P & _). rewrite E. cbn [bind].
  destruct (validate_macros_ok toks NE (x_macros x) x P) as (x' & r & E' & _). rewrite E'. cbn [bind].
  eauto.
Qed.

Lemma C02_extract_eof_proof : C02_extract_eof_stmt.
Proof.
  intros toks errs out macros ET H.
  assert (NE : toks <> []).
  { destruct ET as (b & e & -> & _). intro C. apply app_eq_nil in C. destruct C; discriminate. }
  unfold extract_macros in H.
  destruct (extract_run toks NE) as (x & E & P & O). rewrite E in H. cbn [bind] in H.
  destruct (validate_macros_ok toks NE (x_macros x) x P) as (x' & r & E' & _). rewrite E' in H. cbn [bind] in H.
  inversion H; subst. auto.
Qed.

Local Close Scope Z_scope.

(* ======================================================================================== *)
(* Part 2: parser                                                                           *)
(* ======================================================================================== *)

(* ---- the result monad --------------------------------------------------------------------- *)
Lemma pp_bind_inv {A B} (e : result A) (f : A -> result B) (v : B) :
  bind e f = Ok v -> exists a, e = Ok a /\ f a = Ok v.
Proof. destruct e; simpl; intros H; try discriminate. eauto. Qed.

Lemma pp_bind_assoc {A B C} (e : result A) (f : A -> result B) (g : B -> result C) :
  bind (bind e f) g = bind e (fun x => bind (f x) g).
Proof. destruct e; reflexivity. Qed.

Lemma pp_of_opt_inv {A} k (o : option A) a : of_opt k o = Ok a -> o = Some a.
Proof. destruct o; simpl; intros H; inversion H; reflexivity. Qed.

(* ---- unfolding of pcall, one equation per grammar function ----------------------------------- *)
Lemma pcall_fS fu s : pcall (S fu) fS s = ltac:(let t := eval cbn [pcall] in (pcall (S fu) fS s) in exact t).
Proof. reflexivity. Qed.
Lemma pcall_fPORTS fu s : pcall (S fu) fPORTS s = ltac:(let t := eval cbn [pcall] in (pcall (S fu) fPORTS s) in exact t).
Proof. reflexivity. Qed.
Lemma pcall_fOPORTS fu s : pcall (S fu) fOPORTS s = ltac:(let t := eval cbn [pcall] in (pcall (S fu) fOPORTS s) in exact t).
Proof. reflexivity. Qed.
Lemma pcall_fARGS fu s : pcall (S fu) fARGS s = ltac:(let t := eval cbn [pcall] in (pcall (S fu) fARGS s) in exact t).
Proof. reflexivity. Qed.
Lemma pcall_fMARGS fu s : pcall (S fu) fMARGS s = ltac:(let t := eval cbn [pcall] in (pcall (S fu) fMARGS s) in exact t).
Proof. reflexivity. Qed.
Lemma pcall_fP fu s : pcall (S fu) fP s = ltac:(let t := eval cbn [pcall] in (pcall (S fu) fP s) in exact t).
Proof. reflexivity. Qed.
Lemma pcall_fMOREP fu s : pcall (S fu) fMOREP s = ltac:(let t := eval cbn [pcall] in (pcall (S fu) fMOREP s) in exact t).
Proof. reflexivity. Qed.
Lemma pcall_fVALUE fu s : pcall (S fu) fVALUE s = ltac:(let t := eval cbn [pcall] in (pcall (S fu) fVALUE s) in exact t).
Proof. reflexivity. Qed.
Lemma pcall_fVARGS fu s : pcall (S fu) fVARGS s = ltac:(let t := eval cbn [pcall] in (pcall (S fu) fVARGS s) in exact t).
Proof. reflexivity. Qed.
Lemma pcall_fMVARGS fu s : pcall (S fu) fMVARGS s = ltac:(let t := eval cbn [pcall] in (pcall (S fu) fMVARGS s) in exact t).
Proof. reflexivity. Qed.
Lemma pcall_fEEOS fu s : pcall (S fu) fEEOS s = ltac:(let t := eval cbn [pcall] in (pcall (S fu) fEEOS s) in exact t).
Proof. reflexivity. Qed.

(* ---- well-formed remaining input --------------------------------------------------------------- *)
Fixpoint good (l : list token) : Prop :=
  match l with
  | [] => False
  | t :: r => (tk t = T_EOF /\ r = []) \/ (tk t <> T_EOF /\ good r)
  end.

Definition hdk (l : list token) : tkind := match l with t :: _ => tk t | [] => T_EOF end.

Lemma eofterm_good : forall l, eof_terminated l -> good l.
Proof.
  intros l (body & e & -> & K & F). induction body as [|b body IH]; simpl.
  - left; auto.
  - right. inversion F; subst. split; auto.
Qed.

Lemma good_len : forall l, good l -> 1 <= length l.
Proof. destruct l; simpl; intros H; [contradiction|lia]. Qed.

Lemma good_tl : forall l, good l -> hdk l <> T_EOF -> good (tl l) /\ length (tl l) < length l.
Proof.
  destruct l as [|t r]; simpl; intros G K; [contradiction|].
  destruct G as [(K' & _)|(_ & G)]; [congruence|]. split; auto.
Qed.

Lemma cur_good : forall s, good (p_rest s) -> exists t, cur s = Ok t /\ tk t = hdk (p_rest s) /\ In t (p_rest s).
Proof.
  intros s G. unfold cur. destruct (p_rest s) as [|t r]; [contradiction|].
  exists t. simpl. auto.
Qed.

Lemma la_good : forall s, good (p_rest s) -> la s = Ok (hdk (p_rest s)).
Proof.
  intros s G. unfold la. destruct (cur_good s G) as (t & E & K & _). rewrite E. simpl. congruence.
Qed.

Lemma perror_ok : forall s k, good (p_rest s) -> exists e, perror s k = Ok (mkP (p_rest s) (p_errs s ++ [e])).
Proof.
  intros s k G. unfold perror. destruct (cur_good s G) as (t & E & _). rewrite E. simpl. eauto.
Qed.

Lemma sync_spec : forall l, good l ->
  good (sync l) /\ length (sync l) <= length l /\ is_sync (hdk (sync l)) = true /\
  (hdk l <> hdk (sync l) -> length (sync l) < length l).
Proof.
  induction l as [|t r IH]; intros G; [contradiction|].
  cbn [sync]. destruct (is_sync (tk t)) eqn:S.
  - repeat split; auto. intros X. exfalso. apply X. reflexivity.
  - destruct G as [(K & _)|(K & G)]; [rewrite K in S; discriminate|].
    destruct (IH G) as (G1 & L1 & S1 & _). repeat split; auto; simpl; lia.
Qed.

Lemma pmatch_ok : forall s k, good (p_rest s) ->
  exists s', pmatch s k = Ok s' /\ good (p_rest s') /\ length (p_rest s') <= length (p_rest s) /\
             (hdk (p_rest s) <> T_EOF -> length (p_rest s') < length (p_rest s)).
Proof.
  intros s k G. unfold pmatch. rewrite (la_good s G). cbn [bind].
  destruct (tk_eqb (hdk (p_rest s)) k).
  - cbn [bind]. rewrite (la_good s G). cbn [bind].
    destruct (hdk (p_rest s)) eqn:HK;
      try (eexists; split; [reflexivity|]; cbn [p_rest];
           destruct (good_tl (p_rest s) G) as (G1 & L1); [congruence|];
           repeat split; auto; lia).
    exists s. repeat split; auto. intros X. exfalso. apply X. reflexivity.
  - destruct (perror_ok s e_expected_token G) as (e & E). rewrite E. cbn [bind p_rest p_errs].
    destruct (sync_spec (p_rest s) G) as (G1 & L1 & S1 & T1).
    match goal with |- context [la ?s1] => rewrite (la_good s1) by exact G1 end.
    cbn [bind p_rest].
    destruct (hdk (sync (p_rest s))) eqn:HS; try discriminate S1.
    + eexists; split; [reflexivity|]. cbn [p_rest]. repeat split; auto.
    + eexists; split; [reflexivity|]. cbn [p_rest].
      destruct (good_tl (sync (p_rest s)) G1) as (G2 & L2); [congruence|].
      repeat split; auto; lia.
Qed.

Lemma matchmk_ok : forall s k ty, good (p_rest s) ->
  exists n s', matchmk s k ty = Ok (n, s') /\ good (p_rest s') /\ length (p_rest s') <= length (p_rest s) /\
             (hdk (p_rest s) <> T_EOF -> length (p_rest s') < length (p_rest s)).
Proof.
  intros s k ty G. unfold matchmk. destruct (cur_good s G) as (t & E & _). rewrite E. cbn [bind].
  destruct (pmatch_ok s k G) as (s' & E' & R). rewrite E'. cbn [bind]. eauto.
Qed.

(* ---- the recursion budget ------------------------------------------------------------------------ *)
Definition is_stmt_start (k : tkind) : bool :=
  match k with ID | LOOP | WHILE | GOTO | IF | STOP => true | _ => false end.

Definition rank (f : pfn) (k : tkind) : nat :=
  match f with
  | fS => match k with PROGRAM => 0 | _ => 3 end
  | fP => if is_stmt_start k then 0 else 2
  | fEEOS | fVARGS | fARGS => 1
  | _ => 0
  end.

Definition need (f : pfn) (l : list token) : nat := 4 * length l + rank f (hdk l) + 1.

Definition consumes (f : pfn) (k : tkind) : bool :=
  match f with
  | fS => match k with PROGRAM => true | _ => false end
  | fP => is_stmt_start k
  | fMOREP => match k with PROGSEP => true | _ => false end
  | _ => false
  end.

Lemma rank_le3 : forall f k, rank f k <= 3.
Proof. intros f k. destruct f; simpl; try lia; destruct k; simpl; lia. Qed.

Definition post (f : pfn) (s : pst) (res : result (option node * pst)) : Prop :=
  exists r s', res = Ok (r, s') /\ good (p_rest s') /\ length (p_rest s') <= length (p_rest s) /\
    (consumes f (hdk (p_rest s)) = true -> length (p_rest s') < length (p_rest s)) /\
    (f = fARGS -> r <> None) /\
    (f = fVALUE -> is_value_start (hdk (p_rest s)) = true -> r <> None).

Ltac crank_in H :=
  match type of H with context [rank ?g ?k] =>
    let v := eval compute in (rank g k) in change (rank g k) with v in H end.

Ltac need_solve HK :=
  unfold need; cbn [p_rest]; rewrite ?HK;
  try match goal with |- context [rank ?g ?k] =>
        pose proof (rank_le3 g k);
        let v := eval compute in (rank g k) in try change (rank g k) with v in * end;
  lia.

Ltac fin HK :=
  unfold post; do 2 eexists; split; [reflexivity|]; cbn [p_rest];
  split; [assumption|]; split; [lia|];
  split; [rewrite ?HK; let CC := fresh "CC" in intro CC; first [discriminate CC | lia]|];
  split; [let Q := fresh "Q" in intro Q; first [discriminate Q | discriminate]
         | let Q := fresh "Q" in let V := fresh "V" in intros Q V;
           first [discriminate Q | rewrite ?HK in V; discriminate V | discriminate]].

Ltac step IH HK :=
  lazymatch goal with
  | |- post _ _ (bind (bind _ _) _) => rewrite pp_bind_assoc; cbv beta
  | |- post _ _ (bind (Ok _) _) => cbn [bind]; cbv beta iota
  | |- post _ _ (bind (pmatch ?s ?k) _) =>
      let s1 := fresh "s" in let E := fresh "E" in let G := fresh "G" in let L := fresh "L" in let C := fresh "C" in
      destruct (pmatch_ok s k) as (s1 & E & G & L & C); [cbn [p_rest]; assumption|];
      rewrite E; cbn [bind]; cbn [p_rest] in *;
      try (assert (length (p_rest s1) < length (p_rest s)) by (apply C; cbn [p_rest]; congruence));
      clear C; cbn [p_rest] in *
  | |- post _ _ (bind (matchmk ?s ?k ?ty) _) =>
      let n1 := fresh "n" in
      let s1 := fresh "s" in let E := fresh "E" in let G := fresh "G" in let L := fresh "L" in let C := fresh "C" in
      destruct (matchmk_ok s k ty) as (n1 & s1 & E & G & L & C); [cbn [p_rest]; assumption|];
      rewrite E; cbn [bind fst snd]; cbv beta iota; cbn [p_rest] in *;
      try (assert (length (p_rest s1) < length (p_rest s)) by (apply C; cbn [p_rest]; congruence));
      clear C; cbn [p_rest] in *
  | |- post _ _ (bind (perror ?s ?k) _) =>
      let e := fresh "e" in let E := fresh "E" in
      destruct (perror_ok s k) as (e & E); [cbn [p_rest]; assumption|];
      rewrite E; cbn [bind]; cbn [p_rest] in *
  | |- post _ _ (bind (la ?s) _) =>
      rewrite (la_good s) by (cbn [p_rest]; assumption); cbn [bind]; cbn [p_rest] in *;
      let HK1 := fresh "HK" in destruct (hdk (p_rest s)) eqn:HK1
  | |- post _ _ (bind (pcall ?fu ?g ?s) _) =>
      let r1 := fresh "r" in let s1 := fresh "s" in let E := fresh "E" in let G := fresh "G" in
      let L := fresh "L" in let C := fresh "C" in let A := fresh "A" in let V := fresh "V" in
      destruct (IH g s) as (r1 & s1 & E & G & L & C & A & V);
      [cbn [p_rest]; assumption | need_solve HK |];
      rewrite E; cbn [bind fst snd]; cbv beta iota; cbn [p_rest] in *;
      try (assert (length (p_rest s1) < length (p_rest s)) by (apply C; cbn [p_rest]; rewrite ?HK; reflexivity));
      clear C; cbn [p_rest] in *
  | |- post _ _ (pcall ?fu ?g ?s) =>
      let r1 := fresh "r" in let s1 := fresh "s" in let E := fresh "E" in let G := fresh "G" in
      let L := fresh "L" in let C := fresh "C" in let A := fresh "A" in let V := fresh "V" in
      destruct (IH g s) as (r1 & s1 & E & G & L & C & A & V);
      [cbn [p_rest]; assumption | need_solve HK |];
      rewrite E; cbn [p_rest] in *;
      try (assert (length (p_rest s1) < length (p_rest s)) by (apply C; cbn [p_rest]; rewrite ?HK; reflexivity));
      clear C; fin HK
  | |- post _ _ (Ok _) => fin HK
  end.

Ltac start lem s G HK NF :=
  rewrite lem; rewrite (la_good s G); cbn [bind];
  unfold need in NF; destruct (hdk (p_rest s)) eqn:HK; crank_in NF; cbv beta iota.

Lemma pcall_ok : forall fuel f s, good (p_rest s) -> need f (p_rest s) <= fuel -> post f s (pcall fuel f s).
Proof.
  induction fuel as [|fu IH]; intros f s G NF.
  { unfold need in NF. lia. }
  pose proof (good_len _ G) as GL.
  destruct f.
  - (* S *) start pcall_fS s G HK NF; repeat step IH HK.
  - (* PORTS *) start pcall_fPORTS s G HK NF; repeat step IH HK.
    match goal with A : fARGS = fARGS -> ?r <> None |- _ =>
      destruct r; [|exfalso; apply A; reflexivity] end.
    cbn [of_opt bind]. fin HK.
  - (* OPORTS *) start pcall_fOPORTS s G HK NF; repeat step IH HK.
  - (* ARGS *) start pcall_fARGS s G HK NF; repeat step IH HK.
  - (* MARGS *) start pcall_fMARGS s G HK NF; repeat step IH HK.
  - (* P *) start pcall_fP s G HK NF; repeat step IH HK.
  - (* MOREP *) start pcall_fMOREP s G HK NF; repeat step IH HK.
  - (* VALUE *) start pcall_fVALUE s G HK NF; repeat step IH HK.
  - (* VARGS *) start pcall_fVARGS s G HK NF; cbn [is_value_start]; repeat step IH HK.
    all: match goal with V : fVALUE = fVALUE -> _ -> ?r <> None |- _ =>
      destruct r; [|exfalso; refine (V eq_refl _ eq_refl); rewrite HK; reflexivity] end.
    all: cbn [of_opt bind]; fin HK.
  - (* MVARGS *) start pcall_fMVARGS s G HK NF; repeat step IH HK.
    all: match goal with |- post _ _ (match ?v with _ => _ end) => destruct v end; fin HK.
  - (* EEOS *) start pcall_fEEOS s G HK NF; repeat step IH HK.
Qed.

(* ---- the driver loop ----------------------------------------------------------------------------- *)
Lemma excess_ok : forall fuel n s, good (p_rest s) -> length (p_rest s) <= n -> 4 * n + 4 <= fuel ->
  exists s', excess_loop n fuel s = Ok s'.
Proof.
  intros fuel. induction n as [|n IH]; intros s G L F.
  - pose proof (good_len _ G). lia.
  - cbn [excess_loop].
    destruct (perror_ok s e_excess_input G) as (e & PE).
    remember (mkP (p_rest s) (p_errs s ++ [e])) as s1 eqn:ES1.
    assert (G1 : good (p_rest s1)) by (subst s1; exact G).
    assert (R1 : p_rest s1 = p_rest s) by (subst s1; reflexivity).
    clear ES1.
    assert (HT : forall k, hdk (p_rest s) = k -> k <> T_EOF ->
              exists s', (do s1 <- perror s e_excess_input;
                          do s2 <- pmatch s1 k;
                          do k2 <- la s2;
                          match k2 with
                          | T_EOF => Ok s2
                          | _ => do r <- pcall fuel fS s2; excess_loop n fuel (snd r)
                          end) = Ok s').
    { intros k HK NE. rewrite PE. cbn [bind].
      destruct (pmatch_ok s1 k G1) as (s2 & E2 & G2 & L2 & C2). rewrite E2. cbn [bind].
      rewrite (la_good s2 G2). cbn [bind].
      assert (LT : length (p_rest s2) < length (p_rest s)).
      { rewrite <- R1. apply C2. rewrite R1. congruence. }
      assert (TAIL : exists s', (do r <- pcall fuel fS s2; excess_loop n fuel (snd r)) = Ok s').
      { destruct (pcall_ok fuel fS s2 G2) as (r & s3 & E3 & G3 & L3 & _).
        { unfold need. pose proof (rank_le3 fS (hdk (p_rest s2))). lia. }
        rewrite E3. cbn [bind snd]. apply IH; auto; lia. }
      destruct (hdk (p_rest s2)); [eexists; reflexivity | exact TAIL ..]. }
    destruct (p_rest s) as [|t r] eqn:R; [eauto|].
    cbn [hdk] in HT.
    destruct (tk t) eqn:K; [eexists; reflexivity | apply (HT _ eq_refl); discriminate ..].
Qed.

Lemma C02_parse_total_proof : C02_parse_total_stmt.
Proof.
  intros toks ET. apply eofterm_good in ET. unfold parse_tokens.
  destruct (pcall_ok (parse_fuel toks) fS (mkP toks [])) as (r & s1 & E & G1 & L1 & _).
  - exact ET.
  - unfold need, parse_fuel. cbn [p_rest]. pose proof (rank_le3 fS (hdk toks)). lia.
  - rewrite E. cbn [bind snd fst]. cbn [p_rest] in L1.
    destruct (excess_ok (parse_fuel toks) (S (length toks)) s1) as (s2 & E2); auto.
    + unfold parse_fuel. lia.
    + rewrite E2. cbn [bind]. eauto.
Qed.

(* ---- shape and positions of the delivered tree ----------------------------------------------------- *)
Definition osh (o : option node) : bool := match o with None => true | Some x => shape_ok x end.
Definition mvshape (o : option node) : bool :=
  match o with
  | None => true
  | Some (Node N_SPLIT _ _ _ (Some _) _) => true
  | _ => false
  end.
Definition vashape (o : option node) : bool :=
  match o with
  | None => true
  | Some (Node N_SPLIT _ _ _ (Some _) re) => mvshape re
  | _ => false
  end.
Definition leafty (t : ntype) : bool := match t with N_NAME | N_NUMBER | N_STOP => true | _ => false end.

Definition tokpos (L : list token) (p : str * Z) : Prop :=
  exists t, In t L /\ tfile t = fst p /\ tline t = snd p.
Definition npos (L : list token) (n : node) : Prop := forall p, In p (positions n) -> tokpos L p.
Definition opin (L : list token) (o : option node) : Prop :=
  match o with Some n => npos L n | None => True end.

Lemma npos_mono : forall L L' n, incl L L' -> npos L n -> npos L' n.
Proof.
  intros L L' n I N p IN. destruct (N p IN) as (t & T & F). exists t. split; auto.
Qed.

Lemma opin_mono : forall L L' o, incl L L' -> opin L o -> opin L' o.
Proof. intros L L' [n|] I N; simpl in *; eauto using npos_mono. Qed.

Lemma npos_mk : forall L ty like l r, npos L like -> opin L l -> opin L r -> npos L (mk ty like l r).
Proof.
  intros L ty like l r NL OL OR p IN. unfold mk in IN. cbn [positions] in IN.
  destruct IN as [<-|IN].
  - apply NL. destruct like; simpl. left; reflexivity.
  - apply in_app_or in IN. destruct IN as [IN|IN].
    + destruct l; [apply OL; exact IN|contradiction].
    + destruct r; [apply OR; exact IN|contradiction].
Qed.

Lemma sh_split : forall like l r, shape_ok (mk N_SPLIT like l r) = osh l && osh r.
Proof. reflexivity. Qed.
Lemma sh_loop : forall like l r, shape_ok (mk N_LOOP like l r) = osh l && osh r.
Proof. reflexivity. Qed.
Lemma sh_while : forall like l r, shape_ok (mk N_WHILE like l r) = osh l && osh r.
Proof. reflexivity. Qed.
Lemma sh_mark : forall like e r, shape_ok (mk N_MARK like (Some e) r) = true.
Proof. reflexivity. Qed.
Lemma sh_goto : forall like e r, shape_ok (mk N_GOTO like (Some e) r) = true.
Proof. reflexivity. Qed.
Lemma sh_assign : forall like e r, shape_ok (mk N_ASSIGN like (Some e) r) = osh r.
Proof. reflexivity. Qed.
Lemma sh_program : forall like ty like2 nm ports body,
  shape_ok (mk N_PROGRAM like (Some (mk ty like2 (Some nm) ports)) body) = osh ports && osh body.
Proof. reflexivity. Qed.
Lemma sh_if : forall like ty1 l1 a b ty2 l2 g c,
  shape_ok (mk N_IF like (Some (mk ty1 l1 a b)) (Some (mk ty2 l2 (Some g) c))) = osh a && osh b.
Proof. reflexivity. Qed.
Lemma sh_call : forall like e args, osh args = true -> vashape args = true ->
  shape_ok (mk N_CALL like (Some e) args) = true.
Proof.
  intros like e args O V. unfold mk. cbn [shape_ok]. fold (osh args). rewrite O. cbn [andb].
  destruct args as [[[] ? ? ? [?|] [[[] ? ? ? [?|] ?]|]]|]; simpl in V; try discriminate V; reflexivity.
Qed.

Lemma sync_incl : forall l, incl (sync l) l.
Proof.
  induction l as [|t r IH]; cbn [sync]; [apply incl_refl|].
  destruct (is_sync (tk t)); [apply incl_refl|]. apply incl_tl. exact IH.
Qed.

Lemma tl_incl : forall (l : list token), incl (tl l) l.
Proof. destruct l; simpl; [apply incl_refl|apply incl_tl, incl_refl]. Qed.

Lemma perror_inv : forall s k s', perror s k = Ok s' -> p_rest s' = p_rest s.
Proof.
  intros s k s' H. unfold perror in H. apply pp_bind_inv in H. destruct H as (t & _ & H).
  inversion H; subst. reflexivity.
Qed.

Lemma pmatch_inv : forall s k s', pmatch s k = Ok s' -> incl (p_rest s') (p_rest s).
Proof.
  intros s k s' H. unfold pmatch in H.
  apply pp_bind_inv in H. destruct H as (k0 & _ & H).
  apply pp_bind_inv in H. destruct H as (s1 & E1 & H).
  apply pp_bind_inv in H. destruct H as (k1 & _ & H).
  assert (I1 : incl (p_rest s1) (p_rest s)).
  { destruct (tk_eqb k0 k).
    - inversion E1; subst. apply incl_refl.
    - apply pp_bind_inv in E1. destruct E1 as (s2 & E2 & E1). inversion E1; subst. cbn [p_rest].
      apply perror_inv in E2. rewrite E2. apply sync_incl. }
  destruct k1; inversion H; subst; cbn [p_rest]; auto;
    (eapply incl_tran; [apply tl_incl | exact I1]).
Qed.

Lemma matchmk_inv : forall s k ty n s', matchmk s k ty = Ok (n, s') ->
  incl (p_rest s') (p_rest s) /\ npos (p_rest s) n /\ (leafty ty = true -> shape_ok n = true).
Proof.
  intros s k ty n s' H. unfold matchmk in H.
  apply pp_bind_inv in H. destruct H as (t & E & H).
  apply pp_bind_inv in H. destruct H as (s1 & E1 & H).
  inversion H; subst. split; [eapply pmatch_inv; eauto|]. split.
  - intros p IN. simpl in IN. destruct IN as [<-|[]]. exists t. split; auto.
    unfold cur in E. destruct (p_rest s); simpl in E; inversion E; subst. left; reflexivity.
  - intros LT. destruct ty; try discriminate LT; reflexivity.
Qed.

Definition ipost (f : pfn) (L : list token) (r : option node) (s' : pst) : Prop :=
  incl (p_rest s') L /\ opin L r /\ osh r = true /\
  (f = fMVARGS -> mvshape r = true) /\ (f = fVARGS -> vashape r = true).

Ltac chain E s0 :=
  match type of E with incl _ (p_rest ?si) =>
    match goal with I : incl (p_rest si) (p_rest s0) |- _ =>
      apply (fun e => incl_tran e I) in E end end.

Ltac shsolve :=
  cbn [osh];
  repeat (first [rewrite sh_split | rewrite sh_loop | rewrite sh_while | rewrite sh_mark | rewrite sh_goto
                | rewrite sh_assign | rewrite sh_program | rewrite sh_if
                | rewrite sh_call by assumption]; cbn [osh]);
  repeat match goal with
         | H : shape_ok _ = true |- _ => rewrite ?H; clear H
         | H : osh _ = true |- _ => rewrite ?H; clear H
         end;
  reflexivity.

Ltac possolve :=
  repeat (cbn [opin]; first [exact I | assumption | apply npos_mk]).

Ltac ifin s0 :=
  unfold ipost; split; [assumption|]; split; [possolve|]; split; [shsolve|];
  split; (let Q := fresh "Q" in intro Q; first [discriminate Q | assumption | reflexivity]).

Ltac istep IH s0 :=
  match goal with
  | H : bind (bind _ _) _ = Ok _ |- _ => rewrite pp_bind_assoc in H; cbv beta in H
  | H : bind (Ok _) _ = Ok _ |- _ => cbn [bind] in H; cbv beta iota in H
  | H : bind (la _) _ = Ok _ |- _ =>
      let k := fresh "k" in
      apply pp_bind_inv in H; destruct H as (k & _ & H); destruct k; cbv beta iota in H
  | H : bind (perror ?si _) _ = Ok _ |- _ =>
      let s1 := fresh "s" in let E := fresh "E" in
      apply pp_bind_inv in H; destruct H as (s1 & E & H); apply perror_inv in E;
      assert (incl (p_rest s1) (p_rest s0))
        by (rewrite E; match goal with I : incl (p_rest si) (p_rest s0) |- _ => exact I end);
      clear E
  | H : bind (pmatch ?si _) _ = Ok _ |- _ =>
      let s1 := fresh "s" in let E := fresh "E" in
      apply pp_bind_inv in H; destruct H as (s1 & E & H); apply pmatch_inv in E; chain E s0
  | H : bind (matchmk ?si _ _) _ = Ok _ |- _ =>
      let n1 := fresh "n" in let s1 := fresh "s" in let E := fresh "E" in
      let N := fresh "N" in let SH := fresh "SH" in
      apply pp_bind_inv in H; destruct H as ((n1 & s1) & E & H); apply matchmk_inv in E;
      destruct E as (E & N & SH); specialize (SH eq_refl);
      match goal with I : incl (p_rest si) (p_rest s0) |- _ => apply (npos_mono _ _ _ I) in N end;
      chain E s0; cbn [fst snd] in H; cbv beta iota in H
  | H : bind (pcall _ ?g ?si) _ = Ok _ |- _ =>
      let r1 := fresh "r" in let s1 := fresh "s" in let E := fresh "E" in
      let OP := fresh "OP" in let SH := fresh "SH" in let MV := fresh "MV" in let VA := fresh "VA" in
      apply pp_bind_inv in H; destruct H as ((r1 & s1) & E & H); apply IH in E;
      destruct E as (E & OP & SH & MV & VA);
      match goal with I : incl (p_rest si) (p_rest s0) |- _ => apply (opin_mono _ _ _ I) in OP end;
      chain E s0;
      first [specialize (MV eq_refl) | clear MV];
      first [specialize (VA eq_refl) | clear VA];
      cbn [fst snd] in H; cbv beta iota in H
  | H : (if is_value_start _ then _ else _) = Ok _ |- _ => cbn [is_value_start] in H
  | H : match ?v with _ => _ end = Ok _ |- _ => is_var v; destruct v; cbn [osh opin] in *
  | H : bind (of_opt _ ?o) _ = Ok _ |- _ =>
      let a := fresh "a" in let E := fresh "E" in
      apply pp_bind_inv in H; destruct H as (a & E & H); apply pp_of_opt_inv in E; subst o; cbn [osh opin] in *
  | H : pcall _ ?g ?si = Ok (_, _) |- _ =>
      let OP := fresh "OP" in let SH := fresh "SH" in let MV := fresh "MV" in let VA := fresh "VA" in
      apply IH in H; destruct H as (H & OP & SH & MV & VA);
      match goal with I : incl (p_rest si) (p_rest s0) |- _ => apply (opin_mono _ _ _ I) in OP end;
      chain H s0;
      first [specialize (MV eq_refl) | clear MV];
      first [specialize (VA eq_refl) | clear VA];
      ifin s0
  | H : Ok _ = Ok (_, _) |- _ => inversion H; subst; clear H; ifin s0
  end.

Ltac istart lem H :=
  rewrite lem in H.

Lemma pcall_inv : forall fuel f s r s', pcall fuel f s = Ok (r, s') -> ipost f (p_rest s) r s'.
Proof.
  induction fuel as [|fu IH]; intros f s r s' H; [discriminate H|].
  pose proof (incl_refl (p_rest s)) as INC0.
  destruct f.
  - rewrite pcall_fS in H. repeat istep IH s.
  - rewrite pcall_fPORTS in H. repeat istep IH s.
  - rewrite pcall_fOPORTS in H. repeat istep IH s.
  - rewrite pcall_fARGS in H. repeat istep IH s.
  - rewrite pcall_fMARGS in H. repeat istep IH s.
  - rewrite pcall_fP in H. repeat istep IH s.
  - rewrite pcall_fMOREP in H. repeat istep IH s.
  - rewrite pcall_fVALUE in H. repeat istep IH s.
  - rewrite pcall_fVARGS in H. repeat istep IH s.
  - rewrite pcall_fMVARGS in H. repeat istep IH s.
  - rewrite pcall_fEEOS in H. repeat istep IH s.
Qed.

Lemma C02_parser_shape_proof : C02_parser_shape_stmt.
Proof.
  intros toks root H. unfold parse_tokens in H.
  apply pp_bind_inv in H. destruct H as ((r & s1) & E & H).
  apply pp_bind_inv in H. destruct H as (s2 & _ & H).
  cbn [fst snd] in H. inversion H; subst.
  apply pcall_inv in E. destruct E as (_ & _ & SH & _). exact SH.
Qed.

Lemma C08_parser_positions_proof : C08_parser_positions_stmt.
Proof.
  intros toks root errs H f l IN. unfold parse_tokens in H.
  apply pp_bind_inv in H. destruct H as ((r & s1) & E & H).
  apply pp_bind_inv in H. destruct H as (s2 & _ & H).
  cbn [fst snd] in H. inversion H; subst.
  apply pcall_inv in E. destruct E as (_ & OP & _). cbn [opin p_rest] in OP.
  destruct (OP (f, l) IN) as (t & T & F1 & F2). exists t. auto.
Qed.

Print Assumptions C02_extract_total_proof.
Print Assumptions C02_extract_eof_proof.
Print Assumptions C02_parse_total_proof.
Print Assumptions C02_parser_shape_proof.
Print Assumptions C08_parser_positions_proof.
