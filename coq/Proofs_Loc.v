(* Proofs_Loc.v — C08_locations: every available breakpoint location of a correct compilation is the position of a
   token of the scanned text, outside the hidden file.  Extraction only keeps/collects scanner tokens; macro
   application only rearranges tokens of the stream and of macro bodies; the parser places nodes at tokens. *)
From Coq Require Import List ZArith NArith Lia Bool.
From Theo Require Import Base Regex Tokens Errors Lexer Scan MacroExtract Grammar LR MacroApply Parser VMModel VMSpec GenModel Compile Gen_Lexer Gen_Consts CompileStatements LocStatements Proofs_Front Proofs_Gen0 Proofs_Gen Proofs_Macro Proofs_Apply0 Proofs_Apply.
Import ListNotations.
Local Open Scope Z_scope.

Ltac bi H x Hx := apply bind_ok in H; destruct H as (x & Hx & H).

(* ================================================================================================ *)
(* 1. extraction                                                                                     *)
(* ================================================================================================ *)
Section XLoc.
  Variable tokens : list token.

  Definition mloc (m : macrodef) : Prop := incl (m_rule m) tokens /\ incl (m_repl m) tokens.
  Definition linv (x : xstate) : Prop := incl (x_out x) tokens /\ Forall mloc (x_macros x).

  Lemma clamped_in p : rpost (clamped tokens p) (fun t => In t tokens).
  Proof. unfold clamped. intros t E. apply of_opt_ok in E. eapply znth_in; exact E. Qed.

  Lemma err_here_linv x k : linv x -> rpost (err_here tokens x k) linv.
  Proof. intros H. unfold err_here. apply rpost_bind_any. intros t. apply rpost_ok. exact H. Qed.

  Lemma xmatch_linv x k : linv x -> rpost (xmatch tokens x k) (fun r => linv (fst r)).
  Proof.
    intros H. unfold xmatch. apply rpost_bind_any. intros la. destruct (tk_eqb la k).
    - apply rpost_ok. exact H.
    - eapply rpost_bind; [apply err_here_linv; exact H|]. intros x1 H1. apply rpost_ok. exact H1.
  Qed.

  Lemma advance_linv x : linv x -> rpost (MacroExtract.advance tokens x) linv.
  Proof.
    intros H. unfold MacroExtract.advance. apply rpost_bind_any. intros la.
    eapply rpost_bind; [apply xmatch_linv; exact H|]. intros r Hr. apply rpost_ok. exact Hr.
  Qed.

  Lemma copy_linv x : linv x -> rpost (copy tokens x) linv.
  Proof.
    intros [H1 H2]. unfold copy. eapply rpost_bind; [apply clamped_in|]. intros t Ht. apply rpost_ok.
    split; [|exact H2]. cbn [x_out]. apply incl_app; [exact H1|]. intros y [<-|[]]. exact Ht.
  Qed.

  Lemma strToInt_linv x s : linv x -> rpost (strToInt tokens x s) (fun r => linv (fst r)).
  Proof.
    intros H. unfold strToInt. apply rpost_bind_any. intros t. apply rpost_ok. cbn [fst].
    destruct (INT_MAX <=? strtol s); exact H.
  Qed.

  Lemma push_macro_linv x : linv x -> linv (push_macro x).
  Proof.
    intros [H1 H2]. split; [exact H1|]. unfold push_macro. cbn [x_macros]. apply Forall_app. split; [exact H2|].
    constructor; [|constructor]. split; cbn [m_rule m_repl]; intros y [].
  Qed.

  Lemma pop_macro_linv x : linv x -> rpost (pop_macro x) linv.
  Proof.
    intros [H1 H2]. unfold pop_macro. rewrite <- Forall_rev_iff in H2.
    destruct (rev (x_macros x)) as [|m r]; [intros a E; discriminate|].
    apply rpost_ok. split; [exact H1|]. cbn [x_macros]. apply Forall_rev_iff. inversion H2; assumption.
  Qed.

  Lemma upd_back_linv x f : linv x -> (forall m, mloc m -> mloc (f m)) -> rpost (upd_back x f) linv.
  Proof.
    intros [H1 H2] Hf. unfold upd_back. rewrite <- Forall_rev_iff in H2.
    destruct (rev (x_macros x)) as [|m r]; [intros a E; discriminate|].
    apply rpost_ok. split; [exact H1|]. cbn [x_macros]. apply Forall_rev_iff. inversion H2; subst.
    constructor; auto.
  Qed.

  Lemma incl_snoc (l : list token) t : incl l tokens -> In t tokens -> incl (l ++ [t]) tokens.
  Proof. intros H Ht. apply incl_app; [exact H|]. intros y [<-|[]]. exact Ht. Qed.

  Lemma push_rule_linv x : linv x -> rpost (push_rule tokens x) linv.
  Proof.
    intros H. unfold push_rule. eapply rpost_bind; [apply rpost_self|]. intros l Hl.
    apply of_opt_ok in Hl. apply znth_in in Hl.
    apply upd_back_linv; [exact H|]. intros m [M1 M2].
    destruct (tk l); split; cbn [m_rule m_repl]; try exact M2; apply incl_snoc; assumption.
  Qed.

  Lemma push_replacement_linv x : linv x -> rpost (push_replacement tokens x) linv.
  Proof.
    intros H. unfold push_replacement. eapply rpost_bind; [apply rpost_self|]. intros l Hl.
    apply of_opt_ok in Hl. apply znth_in in Hl.
    apply upd_back_linv; [exact H|]. intros m [M1 M2].
    split; cbn [m_rule m_repl]; [exact M1|]. apply incl_snoc; assumption.
  Qed.

  Ltac lp_side := cbn [fst snd] in *; assumption.

  Ltac lp1 :=
    match goal with
    | |- rpost (Ok _) _ => apply rpost_ok; cbn [fst snd]; try assumption
    | |- rpost (bind (MacroExtract.advance _ _) _) _ => eapply rpost_bind; [apply advance_linv; lp_side|intros ? ?]
    | |- rpost (bind (err_here _ _ _) _) _ => eapply rpost_bind; [apply err_here_linv; lp_side|intros ? ?]
    | |- rpost (bind (copy _ _) _) _ => eapply rpost_bind; [apply copy_linv; lp_side|intros ? ?]
    | |- rpost (bind (xmatch _ _ _) _) _ => eapply rpost_bind; [apply xmatch_linv; lp_side|intros [? ?] ?]
    | |- rpost (bind (pop_macro _) _) _ => eapply rpost_bind; [apply pop_macro_linv; lp_side|intros ? ?]
    | |- rpost (bind (push_rule _ _) _) _ => eapply rpost_bind; [apply push_rule_linv; lp_side|intros ? ?]
    | |- rpost (bind (push_replacement _ _) _) _ =>
        eapply rpost_bind; [apply push_replacement_linv; lp_side|intros ? ?]
    | |- rpost (bind (if ?p then _ else _) _) _ => destruct p
    | |- rpost (bind (Ok _) _) _ => cbn [bind]
    end.

  Lemma xstep_linv mode x : linv x -> rpost (xstep tokens mode x) (fun r => linv (snd r)).
  Proof.
    intros H. unfold xstep. apply rpost_bind_any. intros la.
    destruct mode as [| | |pop|].
    - (* S *)
      destruct la; cbv beta iota; try solve [repeat lp1].
      (* DEFINE *)
      eapply rpost_bind; [apply advance_linv; exact H|]. intros x1 H1.
      pose proof (push_macro_linv x1 H1) as H2. cbv zeta.
      apply rpost_bind_any. intros la2.
      destruct la2; cbv beta iota; try (apply rpost_ok; exact H2).
      eapply rpost_bind; [apply advance_linv; exact H2|]. intros x3 H3.
      eapply rpost_bind; [apply xmatch_linv; exact H3|]. intros [x4 ok] H4. cbn [fst] in H4.
      destruct ok; [|apply rpost_ok; exact H4].
      apply rpost_bind_any. intros t.
      eapply rpost_bind; [apply strToInt_linv; exact H4|]. intros [x5 v] H5. cbn [fst] in H5.
      eapply rpost_bind; [apply upd_back_linv; [exact H5|]|].
      { intros m M. exact M. }
      intros x6 H6. apply rpost_ok. exact H6.
    - destruct la; cbv beta iota; repeat lp1.
    - destruct la; cbv beta iota; repeat lp1.
    - destruct la; cbv beta iota; repeat lp1.
    - apply rpost_ok. exact H.
  Qed.

  Lemma xrun_linv : forall fuel mode x, linv x -> rpost (xrun tokens fuel mode x) linv.
  Proof.
    induction fuel as [|f IH]; intros mode x H.
    - destruct mode; cbn [xrun]; try (intros a E; discriminate). apply rpost_ok; exact H.
    - destruct mode; cbn [xrun]; try (apply rpost_ok; exact H);
        (eapply rpost_bind; [apply xstep_linv; exact H|]; intros r Hr; apply IH; exact Hr).
  Qed.

  Lemma validate_repl_pos ntt : forall repl x,
    rpost (validate_repl tokens x ntt repl) (fun r => map pos_of (snd r) = map pos_of repl).
  Proof.
    induction repl as [|t rest IH]; intros x.
    - cbn [validate_repl]. apply rpost_ok. reflexivity.
    - cbn [validate_repl].
      assert (DEF : forall y, rpost (do r2 <- validate_repl tokens y ntt rest; Ok (fst r2, t :: snd r2))
                      (fun r => map pos_of (snd r) = map pos_of (t :: rest))).
      { intros y. eapply rpost_bind; [apply IH|]. intros r2 A. apply rpost_ok. cbn [snd map]. rewrite A. reflexivity. }
      destruct (tk t) eqn:K; try apply DEF.
      apply rpost_bind_any. intros [x1 ind]. cbv beta iota.
      destruct ((ind <? 0) || (ntt <=? ind)); [|apply DEF].
      eapply rpost_bind; [apply IH|]. intros r2 A. apply rpost_ok. cbn [snd map]. rewrite A. reflexivity.
  Qed.

  Definition mloc' (m : macrodef) : Prop :=
    incl (m_rule m) tokens /\ incl (map pos_of (m_repl m)) (map pos_of tokens).

  Lemma validate_macros_pos : forall ms x, Forall mloc ms ->
    rpost (validate_macros tokens x ms) (fun r => Forall mloc' (snd r)).
  Proof.
    induction ms as [|m rest IH]; intros x F.
    - cbn [validate_macros]. apply rpost_ok. constructor.
    - inversion F as [|m' r' [M1 M2] Fr]; subst. cbn [validate_macros].
      eapply rpost_bind; [apply validate_repl_pos|]. intros [x1 repl'] A. cbn [snd] in A.
      eapply rpost_bind; [apply IH; exact Fr|]. intros r2 Hr2. apply rpost_ok. cbn [snd].
      constructor; [|exact Hr2]. split; cbn [m_rule m_repl]; [exact M1|].
      rewrite A. apply incl_map. exact M2.
  Qed.
End XLoc.

Lemma C08_extract_positions_proof : C08_extract_positions_stmt.
Proof.
  intros toks errs out macros H. unfold extract_macros in H.
  bi H x Hx. bi H r Hr. inversion H; subst.
  assert (L : linv toks x).
  { apply (xrun_linv toks (4 + length toks)%nat mS (mkX [] [] 0 [])); [|exact Hx].
    split; [intros y []|constructor]. }
  destruct L as [L1 L2]. split.
  - intros t Ht. apply L1. exact Ht.
  - intros m t Hm Ht.
    pose proof (validate_macros_pos toks (x_macros x) x L2 r Hr) as F.
    rewrite Forall_forall in F. destruct (F m Hm) as [F1 F2].
    destruct Ht as [Ht|Ht].
    + apply in_map. apply F1. exact Ht.
    + apply F2. apply in_map. exact Ht.
Qed.

(* ================================================================================================ *)
(* 2. macro application                                                                              *)
(* ================================================================================================ *)

(* ---- the LR driver with the accumulating actions only hands back tokens of its input -------------- *)
Section Driver.
  Variable whole : list token.
  Variable tab : tables.

  Definition vok (v : accum) : Prop := incl (fst v) whole /\ Forall (fun l => incl l whole) (snd v).

  Lemma incl_concat (ls : list (list token)) : Forall (fun l => incl l whole) ls -> incl (concat ls) whole.
  Proof.
    induction 1 as [|l ls Hl F IH]; cbn [concat]; [intros y []|]. apply incl_app; assumption.
  Qed.

  Lemma vok_fsts (vs : list accum) : Forall vok vs -> Forall (fun l => incl l whole) (map fst vs).
  Proof. induction 1 as [|v vs [Hv _] F IH]; cbn [map]; constructor; assumption. Qed.

  Lemma semantic_vok lhs alt popped : Forall vok popped -> vok (semantic lhs alt popped).
  Proof.
    intros F. unfold semantic. destruct (sym_eqb lhs macro_sym); split; cbn [fst snd].
    - apply incl_concat, vok_fsts, F.
    - apply Forall_rev', vok_fsts, F.
    - apply incl_concat, vok_fsts, Forall_rev', F.
    - constructor.
  Qed.

  Lemma pop_n_vok : forall n (sts : list Z) (vs acc : list accum) sts' vs' acc',
    pop_n n sts vs acc = Ok (sts', vs', acc') -> Forall vok vs -> Forall vok acc ->
    Forall vok vs' /\ Forall vok acc'.
  Proof.
    induction n as [|n IH]; intros sts vs acc sts' vs' acc' H F1 F2; cbn [pop_n] in H.
    - inversion H; subst. split; assumption.
    - destruct vs as [|v vs]; [discriminate|]. destruct sts as [|s sts]; [discriminate|].
      inversion F1; subst. eapply IH; [exact H|assumption|].
      apply Forall_app. split; [exact F2|]. constructor; [assumption|constructor].
  Qed.

  Lemma lr_parse_S fuel (input : list token) states (values : list accum) :
    lr_parse translator creator semantic tab (S fuel) input states values =
    (do s <- of_opt ub_back (hd_error states);
     do tok <- of_opt ub_iter (hd_error input);
     let a := Z.of_N (translator tok) in
     do row <- of_opt ub_index (znth (t_action tab) s);
     if (zlen row <=? a)%Z then Ok None
     else
       do act <- of_opt ub_index (znth row a);
       match act with
       | AShift s' => lr_parse translator creator semantic tab fuel (tl input) (s' :: states) (creator tok :: values)
       | AReduce lft beta lhs alt =>
           do p <- pop_n (N.to_nat beta) states values [];
           let '(states', values', popped) := p in
           do s' <- of_opt ub_back (hd_error states');
           do jrow <- of_opt ub_index (znth (t_jump tab) s');
           do target <- of_opt ub_index (znth jrow (Z.of_N lft));
           lr_parse translator creator semantic tab fuel input (target :: states') (semantic lhs alt popped :: values')
       | AAccept => do v <- of_opt ub_back (hd_error values); Ok (Some v)
       | AErr => Ok None
       end).
  Proof. reflexivity. Qed.

  Lemma hd_error_in {A} (l : list A) x : hd_error l = Some x -> In x l.
  Proof. destruct l; cbn; intros H; inversion H; subst; left; reflexivity. Qed.

  Lemma lr_parse_vok : forall fuel input states values v,
    incl input whole -> Forall vok values ->
    lr_parse translator creator semantic tab fuel input states values = Ok (Some v) -> vok v.
  Proof.
    induction fuel as [|f IH]; intros input states values v HI HV H; [discriminate H|].
    rewrite lr_parse_S in H.
    bi H s Hs. bi H tok Htok. cbv zeta in H. bi H row Hrow.
    destruct (zlen row <=? Z.of_N (translator tok)); [discriminate|].
    bi H ac Hact. destruct ac as [s'|lft beta lhs alt| |].
    - eapply IH; [| |exact H].
      + intros y Hy. apply HI. destruct input; [destruct Hy|right; exact Hy].
      + constructor; [|exact HV]. apply of_opt_ok in Htok. apply hd_error_in in Htok. apply HI in Htok.
        unfold creator. split; cbn [fst snd].
        * intros y [<-|[]]. exact Htok.
        * constructor; [|constructor]. intros y [<-|[]]. exact Htok.
    - bi H p Hp. destruct p as [[states' values'] popped].
      bi H s' Hs'. bi H jrow Hjrow. bi H target Htarget.
      destruct (pop_n_vok _ _ _ _ _ _ _ Hp HV (Forall_nil _)) as [V1 V2].
      eapply IH; [exact HI| |exact H]. constructor; [|exact V1]. apply semantic_vok. exact V2.
    - bi H v0 Hv0. inversion H; subst v0. apply of_opt_ok in Hv0. apply hd_error_in in Hv0.
      rewrite Forall_forall in HV. apply HV. exact Hv0.
    - discriminate.
  Qed.
End Driver.

Lemma parse_tokens_of_input tab fuel input total split :
  LR.parse translator creator semantic tab fuel input = Ok (Some (total, split)) ->
  incl total input /\ Forall (fun l => incl l input) split.
Proof.
  intros H. unfold LR.parse in H.
  apply (lr_parse_vok input tab fuel input [0] [] (total, split) (incl_refl _) (Forall_nil _) H).
Qed.

Lemma detect_from_in : forall d input i r, detect_from d input i = Ok (Some r) ->
  Forall (fun l => incl l input) (r_matched r).
Proof.
  intros d. induction input as [|x rest IH]; intros i r H.
  - cbn [detect_from] in H. discriminate.
  - rewrite detect_from_cons in H. bi H p Hp.
    assert (W : forall j, detect_from d rest j = Ok (Some r) -> Forall (fun l => incl l (x :: rest)) (r_matched r)).
    { intros j Hj. apply IH in Hj. eapply Forall_impl; [|exact Hj]. intros l Hl. apply incl_tl. exact Hl. }
    destruct p as [[total split]|]; [|eapply W; exact H].
    bi H ok Hok. destruct ok; [|eapply W; exact H].
    inversion H; subst r. cbn [r_matched].
    apply parse_tokens_of_input in Hp. apply Hp.
Qed.

(* ---- instantiation of a body ----------------------------------------------------------------------- *)
Lemma instantiate_pos m fl matched pass : forall body repl, instantiate m fl matched pass body = Ok repl ->
  forall t, In t repl -> (exists l, In l matched /\ In t l) \/ (exists b, In b body /\ pos_of t = pos_of b).
Proof.
  induction body as [|c rest IH]; intros repl H t Ht.
  - cbn [instantiate] in H. inversion H; subst. destruct Ht.
  - rewrite instantiate_cons in H. bi H more Hmore.
    assert (M : In t more -> (exists l, In l matched /\ In t l) \/ (exists b, In b (c :: rest) /\ pos_of t = pos_of b)).
    { intros Hi. destruct (IH _ Hmore t Hi) as [L|(b & Hb & E)]; [left; exact L|].
      right. exists b. split; [right; exact Hb|exact E]. }
    assert (DEF : Ok (c :: more) = Ok repl ->
                  (exists l, In l matched /\ In t l) \/ (exists b, In b (c :: rest) /\ pos_of t = pos_of b)).
    { intros E. inversion E; subst repl. destruct Ht as [<-|Ht]; [|apply M; exact Ht].
      right. exists c. split; [left; reflexivity|reflexivity]. }
    destruct (tk c); try (apply DEF; exact H).
    + bi H slot Hslot. bi H ins Hins. inversion H; subst repl.
      apply in_app_or in Ht. destruct Ht as [Ht|Ht]; [|apply M; exact Ht].
      left. exists ins. split; [|exact Ht]. apply of_opt_ok in Hins. eapply znth_in; exact Hins.
    + inversion H; subst repl. destruct Ht as [<-|Ht]; [|apply M; exact Ht].
      right. exists c. split; [left; reflexivity|reflexivity].
Qed.

Lemma get_replacement_pos m r pass repl : get_replacement m r pass = Ok repl ->
  forall t, In t repl ->
    (exists l, In l (r_matched r) /\ In t l) \/ (exists b, In b (m_repl m) /\ pos_of t = pos_of b).
Proof.
  unfold get_replacement. intros H t Ht. destruct (m_repl m) as [|t0 body] eqn:E.
  - inversion H; subst. destruct Ht.
  - eapply instantiate_pos; [exact H|exact Ht].
Qed.

(* ---- the rewriting loop ------------------------------------------------------------------------------ *)
Lemma in_firstn {A} (l : list A) n x : In x (firstn n l) -> In x l.
Proof. intros H. rewrite <- (firstn_skipn n l). apply in_or_app. left; exact H. Qed.

Lemma in_skipn {A} (l : list A) n x : In x (skipn n l) -> In x l.
Proof. intros H. rewrite <- (firstn_skipn n l). apply in_or_app. right; exact H. Qed.

Section Rewrite.
  Variable input0 : list token.
  Variable defs : list macrodef.

  Definition aok (t : token) : Prop :=
    In (pos_of t) (map pos_of input0) \/ exists m b, In m defs /\ In b (m_repl m) /\ pos_of t = pos_of b.
  Definition ainv (cur : list token) : Prop := forall t, In t cur -> aok t.
  Definition dok (d : detector) : Prop := In (d_macro d) defs.

  Lemma try_bin_ainv ds cur pass out : Forall dok ds -> ainv cur ->
    try_bin false ds cur pass = Ok (Some out) -> ainv out.
  Proof.
    intros FD AI H. apply try_bin_some in H.
    destruct H as (x & rest & d & r & repl & HA & HM & HR & HL & ->).
    destruct (min_element_spec x rest) as [HI _]. rewrite HM in HI.
    destruct (detect_all_sound _ _ _ HA d r HI) as [Hd HD].
    rewrite Forall_forall in FD. pose proof (FD d Hd) as DK. unfold dok in DK.
    unfold detect in HD. apply detect_from_in in HD. rewrite Forall_forall in HD.
    intros t Ht. apply in_app_or in Ht. destruct Ht as [Ht|Ht].
    { apply AI. eapply in_firstn; exact Ht. }
    apply in_app_or in Ht. destruct Ht as [Ht|Ht]; [|apply AI; eapply in_skipn; exact Ht].
    destruct (get_replacement_pos _ _ _ _ HR t Ht) as [(l & Hl & Htl)|(b & Hb & E)].
    - apply AI. apply (HD l Hl). exact Htl.
    - right. exists (d_macro d), b. repeat split; assumption.
  Qed.

  Definition bins_dok (bins : list (Z * list detector)) : Prop := forall p l, In (p, l) bins -> Forall dok l.

  Lemma try_bins_ainv : forall bins cur pass out, bins_dok bins -> ainv cur ->
    try_bins false bins cur pass = Ok (Some out) -> ainv out.
  Proof.
    induction bins as [|[k ds] bins IH]; intros cur pass out GB AI H.
    - cbn [try_bins] in H. discriminate.
    - rewrite try_bins_cons in H. bi H r Hr. destruct r as [i|].
      + inversion H; subst i. eapply try_bin_ainv; [|exact AI|exact Hr]. apply (GB k ds). left; reflexivity.
      + eapply IH; [|exact AI|exact H]. intros p l Hp. apply (GB p l). right; exact Hp.
  Qed.

  Lemma pass_loop_ainv bins : bins_dok bins -> forall n cur pass out ch, ainv cur ->
    pass_loop false n bins cur pass = Ok (out, ch) -> ainv out.
  Proof.
    intros GB. induction n as [|k IH]; intros cur pass out ch AI H.
    - cbn [pass_loop] in H. inversion H; subst. exact AI.
    - rewrite pass_loop_S in H. bi H r Hr. destruct r as [cur'|].
      + pose proof (try_bins_ainv _ _ _ _ GB AI Hr) as AI'.
        destruct k as [|k'].
        * inversion H; subst. exact AI'.
        * eapply IH; [exact AI'|exact H].
      + inversion H; subst. exact AI.
  Qed.

  Lemma add_bin_dok bins d : bins_dok bins -> dok d -> bins_dok (add_bin bins d).
  Proof.
    intros GB GD. unfold add_bin.
    destruct (alookup Z.ltb bins (m_priority (d_macro d))) as [l|] eqn:EL; intros p l' HI;
      apply ainsert_in in HI; destruct HI as [HI|HI]; try (eapply GB; exact HI); inversion HI; subst.
    - apply alookup_in in EL. apply Forall_app. split; [eapply GB; exact EL|constructor; [exact GD|constructor]].
    - constructor; [exact GD|constructor].
  Qed.

  Lemma fold_add_bin_dok us : Forall dok us -> forall bins, bins_dok bins -> bins_dok (fold_left add_bin us bins).
  Proof.
    induction 1 as [|u us GU F IH]; intros bins GB; cbn [fold_left]; [exact GB|].
    apply IH. apply add_bin_dok; assumption.
  Qed.

  Lemma split_usable_dok : forall ds errs us, split_usable ds = Ok (errs, us) -> Forall dok ds -> Forall dok us.
  Proof.
    induction ds as [|d ds IH]; intros errs us H F.
    - cbn [split_usable] in H. inversion H; subst. constructor.
    - rewrite split_usable_cons in H. bi H e He. bi H r Hr. destruct r as [errs' us']. cbn [fst snd] in H.
      inversion F as [|d' ds' Fd Fr]; subst. pose proof (IH _ _ Hr Fr) as U.
      destruct e; inversion H; subst; [constructor; assumption|exact U].
  Qed.
End Rewrite.

Lemma make_detectors_dok : forall defs ds, make_detectors defs = Ok ds -> Forall (dok defs) ds.
Proof.
  induction defs as [|m defs IH]; intros ds H.
  - cbn [make_detectors] in H. inversion H; subst. constructor.
  - rewrite make_detectors_cons in H. bi H d Hd. bi H more Hmore. inversion H; subst ds.
    constructor.
    + unfold dok. rewrite (gdet_macro d m Hd). left; reflexivity.
    + eapply Forall_impl; [|apply IH; exact Hmore]. intros d' Hd'. unfold dok in *. right; exact Hd'.
Qed.

Lemma C08_apply_positions_proof : C08_apply_positions_stmt.
Proof.
  intros input defs passes errs out H t Ht.
  apply apply_macros_inv in H. destruct H as (ds & errs0 & us & changed & Hds & Hsu & Hpl & _).
  pose proof (make_detectors_dok _ _ Hds) as D1.
  pose proof (split_usable_dok defs _ _ _ Hsu D1) as D2.
  assert (GB : bins_dok defs (rev (fold_left add_bin us []))).
  { intros p l HI. apply in_rev in HI. revert p l HI. apply fold_add_bin_dok; [exact D2|]. intros p l []. }
  assert (A0 : ainv input defs input).
  { intros y Hy. left. apply in_map. exact Hy. }
  pose proof (pass_loop_ainv input defs _ GB passes input 0 out changed A0 Hpl) as AO.
  apply AO. exact Ht.
Qed.

(* ================================================================================================ *)
(* 3. the pipeline                                                                                   *)
(* ================================================================================================ *)

(* without a tree nothing is dispatched: no breakpoint location at all *)
Lemma gen_none_no_locations r b : gen true [] None = Ok r -> In b (available (gr_prog r)) -> False.
Proof.
  intros H Hb. pose (dummy := Node N_PROGRAM 0 hidden_file [] None None).
  unfold gen in H. apply gen_gen_inv in H.
  destruct H as (g3 & g4 & p & i0 & c0 & g6 & H1 & H2 & H3 & H4 & H5 & H6 & ->).
  apply (gen_body_steps (PosH dummy)) in H1; [|exact I].
  assert (I4 : inv4 dummy g4).
  { eapply (steps_preserve _ (inv4 dummy) (step_inv4 dummy)); [eapply ss_pop; eauto|].
    intros b0 Hb0. destruct Hb0. }
  apply backpatch_spec in H6. destruct H6 as (_ & J2 & _).
  unfold gen_result, available in Hb. cbn in Hb. rewrite J2 in Hb. cbn in Hb.
  apply I4 in Hb. destruct Hb as [NH [E|[]]]. inversion E. congruence.
Qed.

Lemma C08_locations_proof : C08_locations_stmt.
Proof.
  intros files main r b H OK Hb. unfold compile, compile_budget in H.
  bi H p Hp. bi H g Hg. inversion H; subst r; clear H. cbn [cr_ok cr_prog] in *.
  destruct (C02_errors_forwarded_proof _ _ _ _ Hp) as [_ FW].
  assert (PO : pr_ok p = true).
  { destruct (pr_ok p) eqn:E; [reflexivity|]. destruct (FW g Hg eq_refl) as [C _]. congruence. }
  clear FW.
  pose proof (parse_budget_ok _ _ _ _ Hp) as PE. rewrite PO in PE, Hg.
  destruct (pr_errors p) as [|e es] eqn:EE; [|discriminate PE]. clear PE.
  unfold parse_budget in Hp. cbv zeta in Hp.
  bi Hp sr Hs. destruct sr as [toks serrs].
  bi Hp xr Hx. destruct xr as [[xerrs out] macros].
  bi Hp ar Ha. destruct ar as [aerrs toks2].
  bi Hp pr Hpr. destruct pr as [root perrs].
  inversion Hp; subst p; clear Hp. cbn [pr_root pr_errors pr_ok] in *.
  apply app_eq_nil in EE. destruct EE as [-> _].
  destruct root as [n|]; [|exfalso; eapply gen_none_no_locations; [exact Hg|exact Hb]].
  destruct (C08_locations_ast_proof n g b Hg Hb) as [NH IN]. split; [exact NH|].
  destruct (C08_parser_positions_proof toks2 n [] Hpr _ _ IN) as (t & Ht & Ef & El).
  destruct (C08_extract_positions_proof _ _ _ _ Hx) as [X1 X2].
  assert (P : In (pos_of t) (map pos_of toks)).
  { destruct (C08_apply_positions_proof _ _ _ _ _ Ha t Ht) as [P|(m & bb & Hm & Hbb & E)].
    - apply in_map_iff in P. destruct P as (t' & E' & Ht'). rewrite <- E'. apply in_map. apply X1. exact Ht'.
    - rewrite E. apply (X2 m bb Hm). right. exact Hbb. }
  apply in_map_iff in P. destruct P as (t' & E' & Ht'). unfold pos_of in E'. inversion E' as [[E1 E2]].
  exists toks, serrs, t'. split; [exact Hs|]. split; [exact Ht'|]. split; congruence.
Qed.

Print Assumptions C08_extract_positions_proof.
Print Assumptions C08_apply_positions_proof.
Print Assumptions C08_locations_proof.
