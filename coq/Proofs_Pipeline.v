(* Proofs_Pipeline.v — the macro properties for the whole pipeline (statements: PipelineStatements.v), as compositions
   of the stage theorems.

   Proved as stated:
     C09_pipeline_proof : C09_pipeline_stmt
     C11_compiled_proof : C11_compiled_stmt
     C12_compiled_proof : C12_compiled_stmt *)
From Coq Require Import List ZArith NArith Lia Bool Sorting.Sorted.
From Theo Require Import Base Regex Tokens Errors Lexer Scan MacroExtract Grammar LR MacroApply Parser VMModel GenModel Compile Gen_Lexer Gen_Consts SpecMacro CompileStatements ApplyStatements MacroStatements ApplyCompleteStatements LocErrStatements SugarStatements PipelineStatements Proofs_Macro Proofs_Apply0 Proofs_Apply Proofs_ApplyComplete Proofs_Sugar0 Proofs_Sugar Proofs_Gen Proofs_Loc.
From Theo Require Import Proofs_Gen0.
Import ListNotations.
Local Open Scope Z_scope.

Ltac pbi H x Hx := apply Proofs_Macro.bind_ok in H; destruct H as (x & Hx & H).

(* ================================================================================================ *)
(* 1. with parsed_ok = false the generator's error list is the image of the parse errors             *)
(* ================================================================================================ *)
Definition fwd (e : serr) : gerr := mkGErr T_PARSE_ERROR (se_kind e) (se_file e) (se_line e).

Lemma gen_false_errors perrs root g : gen false perrs root = Ok g ->
  gr_errors g = map fwd perrs.
Proof.
  intros Hg. unfold gen in Hg. apply gen_gen_inv in Hg.
  destruct Hg as (g3 & g4 & p0 & i0 & c0 & g6 & H1 & H2 & H3 & H4 & H5 & H6 & ->).
  unfold gen_body in H1. cbn [negb] in H1. rewrite fold_verr in H1. inversion H1; subst g3; clear H1.
  unfold pop_symbols in H2. cbn in H2. inversion H2; subst g4; clear H2.
  cbn in H4. inversion H4; subst i0; clear H4.
  cbn in H5. inversion H5; subst c0; clear H5.
  unfold backpatch in H6. cbn in H6. inversion H6; subst g6; clear H6.
  unfold gen_result; cbn. reflexivity.
Qed.

(* ================================================================================================ *)
(* 2. the stages of a compilation                                                                     *)
(* ================================================================================================ *)
Lemma compile_inv files main c : compile files main = Ok c ->
  exists toks serrs xerrs out macros aerrs toks2 root perrs g,
    scan Gen_Lexer.rules (seen_files files main) main = Ok (toks, serrs) /\
    extract_macros toks = Ok (xerrs, out, macros) /\
    apply_macros out macros (N.to_nat macro_passes) = Ok (aerrs, toks2) /\
    parse_tokens toks2 = Ok (root, perrs) /\
    gen (match perrs ++ map to_serr (serrs ++ xerrs ++ aerrs) with [] => true | _ => false end)
        (perrs ++ map to_serr (serrs ++ xerrs ++ aerrs)) root = Ok g /\
    cr_ok c = gr_ok g /\ cr_errors c = gr_errors g.
Proof.
  intros HC. unfold compile, compile_budget in HC. pbi HC p Hp. pbi HC g Hg. inversion HC; subst c; clear HC.
  cbn [cr_ok cr_errors].
  unfold parse_budget in Hp. cbv zeta in Hp.
  pbi Hp sr Hs. destruct sr as [toks serrs].
  pbi Hp xr Hx. destruct xr as [[xerrs out] macros].
  pbi Hp ar Ha. destruct ar as [aerrs toks2]. pbi Hp pr Hpr. destruct pr as [root perrs].
  inversion Hp; subst p; clear Hp. cbn [pr_ok pr_root pr_errors] in Hg.
  exists toks, serrs, xerrs, out, macros, aerrs, toks2, root, perrs, g.
  split; [exact Hs|]. split; [exact Hx|]. split; [exact Ha|]. split; [exact Hpr|].
  split; [exact Hg|]. split; reflexivity.
Qed.

(* the front of the statement is the front of the compilation *)
Lemma front_same files main out macros bins toks serrs xerrs out' macros' :
  front files main out macros bins ->
  scan Gen_Lexer.rules (seen_files files main) main = Ok (toks, serrs) ->
  extract_macros toks = Ok (xerrs, out', macros') ->
  out' = out /\ macros' = macros /\ exists errs, prepare macros = Ok (errs, bins).
Proof.
  intros (toks0 & serrs0 & xerrs0 & errs & HS & HX & HP) HS' HX'.
  assert (E1 : Ok (toks0, serrs0) = Ok (toks, serrs)) by (rewrite <- HS; exact HS').
  inversion E1; subst toks0 serrs0; clear E1.
  assert (E2 : Ok (xerrs0, out, macros) = Ok (xerrs, out', macros')) by (rewrite <- HX; exact HX').
  inversion E2; subst xerrs0 out' macros'; clear E2.
  split; [reflexivity|]. split; [reflexivity|]. exists errs. exact HP.
Qed.

(* the result of the generator when some earlier stage reported an error *)
Lemma gen_errs_forward errors root g :
  gen (match errors with [] => true | _ => false end) errors root = Ok g ->
  (errors = [] \/ (gr_ok g = false /\ gr_errors g = map fwd errors)).
Proof.
  intros Hg. destruct errors as [|e es]; [left; reflexivity|right].
  pose proof (gen_false_errors _ _ _ Hg) as E. split; [|exact E].
  unfold gen in Hg. apply gen_gen_inv in Hg.
  destruct Hg as (g3 & g4 & p0 & i0 & c0 & g6 & _ & _ & _ & _ & _ & _ & ->).
  unfold gen_result in *. cbn [gr_ok gr_errors] in *. rewrite E. reflexivity.
Qed.

(* ================================================================================================ *)
(* 3. C09 on pipeline streams                                                                         *)
(* ================================================================================================ *)
Lemma prepare_bins_dok defs errs bins : prepare defs = Ok (errs, bins) -> bins_dok defs bins.
Proof.
  intros HP. apply prepare_inv in HP. destruct HP as (ds & us & Hds & Hsu & ->).
  pose proof (make_detectors_dok _ _ Hds) as D1.
  pose proof (split_usable_dok defs _ _ _ Hsu D1) as D2.
  intros p l HI. apply in_rev in HI. revert p l HI. apply fold_add_bin_dok; [exact D2|]. intros p l [].
Qed.

Lemma steps_nu defs bins : Forall (fun m => no_unknown (m_repl m)) defs -> bins_dok defs bins ->
  forall input p k mid, Steps bins input p k mid -> no_unknown input -> no_unknown mid.
Proof.
  intros ND GB input p k mid HS. induction HS as [input p|input p mid out k HT HS IH]; intros NI.
  - exact NI.
  - apply IH. exact (try_bins_nu defs ND bins input p mid GB NI HT).
Qed.

Lemma C09_pipeline_proof : C09_pipeline_stmt.
Proof.
  intros files main out macros bins k mid (toks & serrs & xerrs & errs & HS & HX & HP) HSt.
  pose proof (C14_no_unknown_scan_proof _ _ _ _ HS) as N0.
  destruct (C09_no_unknown_extract_proof _ _ _ _ N0 HX) as [NO NM].
  pose proof (C02_extract_macros_ok_proof _ _ _ _ HX) as MO.
  assert (ND : Forall (fun m => no_unknown (m_repl m)) macros).
  { eapply Forall_impl; [|exact NM]. intros m [_ Hm]. exact Hm. }
  pose proof (steps_nu macros bins ND (prepare_bins_dok _ _ _ HP) _ _ _ _ HSt NO) as NMid.
  split; [exact NMid|]. split.
  - intros pass out' HT. exact (C09_best_proof macros errs bins mid pass out' MO HP NMid HT).
  - intros pass HT. exact (C09_none_complete_proof macros errs bins mid pass MO HP NMid HT).
Qed.

(* ================================================================================================ *)
(* 4. C11 for the pipeline                                                                            *)
(* ================================================================================================ *)
Lemma try_bins_none_pass : forall bins input p p',
  try_bins false bins input p = Ok None -> try_bins false bins input p' = Ok None.
Proof.
  induction bins as [|[k ds] bins IH]; intros input p p' H.
  - reflexivity.
  - rewrite try_bins_cons in H. rewrite try_bins_cons.
    pbi H r Hr. destruct (try_bin_pass _ _ _ p' _ Hr) as (r' & Hr' & Hn & _). rewrite Hr'. cbn [bind].
    destruct r as [i|]; [discriminate|]. rewrite (Hn eq_refl). exact (IH input p p' H).
Qed.

Lemma passes_pos : (0 < N.to_nat macro_passes)%nat.
Proof. vm_compute. apply Nat.leb_le. reflexivity. Qed.

Lemma C11_compiled_proof : C11_compiled_stmt.
Proof.
  intros files main c out macros bins HC OK HF.
  destruct (compile_inv _ _ _ HC) as (toks & serrs & xerrs & out' & macros' & aerrs & toks2 & root & perrs & g
                                      & HS & HX & HA & HPr & HG & EOK & _).
  destruct (front_same _ _ _ _ _ _ _ _ _ _ HF HS HX) as (-> & -> & errs & HP).
  rewrite EOK in OK.
  destruct (gen_errs_forward _ _ _ HG) as [EE|[F _]]; [|congruence].
  apply app_eq_nil in EE. destruct EE as [-> EM]. apply map_eq_nil in EM.
  apply app_eq_nil in EM. destruct EM as [_ EM]. apply app_eq_nil in EM. destruct EM as [_ ->].
  apply apply_macros_inv in HA. destruct HA as (ds & errs0 & us & changed & Hds & Hsu & Hpl & EA).
  apply prepare_inv in HP. destruct HP as (ds' & us' & Hds' & Hsu' & ->).
  rewrite Hds in Hds'. inversion Hds'; subst ds'; clear Hds'.
  rewrite Hsu in Hsu'. inversion Hsu'; subst errs us'; clear Hsu'.
  destruct changed.
  { symmetry in EA. apply app_eq_nil in EA. destruct EA as [_ EA]. discriminate. }
  destruct (C11_steps_proof _ _ _ _ _ _ Hpl) as (k & Hk & Hst & _ & Hf).
  pose proof (Hf eq_refl passes_pos) as Hnone.
  exists k, toks2, root. split; [exact Hk|]. split; [exact Hst|]. split; [|exact HPr].
  intros pass. exact (try_bins_none_pass _ _ _ pass Hnone).
Qed.

(* ================================================================================================ *)
(* 5. C12 for the pipeline                                                                            *)
(* ================================================================================================ *)
Lemma make_detectors_in : forall defs ds m d, make_detectors defs = Ok ds -> In m defs ->
  make_detector m = Ok d -> In d ds.
Proof.
  induction defs as [|m0 defs IH]; intros ds m d H HI HM.
  - destruct HI.
  - rewrite make_detectors_cons in H. pbi H d0 Hd0. pbi H more Hmore. inversion H; subst ds; clear H.
    destruct HI as [->|HI].
    + rewrite HM in Hd0. inversion Hd0; subst d0. left; reflexivity.
    + right. exact (IH _ _ _ Hmore HI HM).
Qed.

Lemma C12_compiled_proof : C12_compiled_stmt.
Proof.
  intros files main c out macros bins m d t0 rest HC HF HI HM HCf HR.
  destruct (compile_inv _ _ _ HC) as (toks & serrs & xerrs & out' & macros' & aerrs & toks2 & root & perrs & g
                                      & HS & HX & HA & HPr & HG & EOK & EER).
  destruct (front_same _ _ _ _ _ _ _ _ _ _ HF HS HX) as (-> & -> & errs & HP).
  rewrite EOK, EER.
  apply apply_macros_inv in HA. destruct HA as (ds & errs0 & us & changed & Hds & Hsu & _ & EA).
  pose proof (make_detectors_in _ _ _ _ Hds HI HM) as Hd.
  destruct (C12_reported_proof _ _ _ Hsu) as [_ EE].
  set (e := mkPerr e_macro_non_lr (tfile t0) (tline t0) []).
  assert (I0 : In e errs0).
  { rewrite EE. apply in_flat_map. exists d. split; [exact Hd|].
    assert (U : is_usable d = false).
    { unfold is_usable. destruct (d_conflicts d); [congruence|reflexivity]. }
    rewrite U. rewrite (gdet_macro d m HM). rewrite HR. left; reflexivity. }
  assert (I1 : In e aerrs).
  { rewrite EA. destruct changed; [apply in_or_app; left|]; exact I0. }
  assert (I2 : In (to_serr e) (perrs ++ map to_serr (serrs ++ xerrs ++ aerrs))).
  { apply in_or_app. right. apply in_map. apply in_or_app. right. apply in_or_app. right. exact I1. }
  destruct (gen_errs_forward _ _ _ HG) as [EN|[F EG]].
  { rewrite EN in I2. destruct I2. }
  split; [exact F|]. exists (fwd (to_serr e)). split.
  - rewrite EG. apply in_map. exact I2.
  - split; [reflexivity|]. split; reflexivity.
Qed.

Print Assumptions C09_pipeline_proof.
Print Assumptions C11_compiled_proof.
Print Assumptions C12_compiled_proof.
