(* Proofs_C07s5g.v — C07 with calls, part 7: the whole tree and the end of gen, with line_info.
   spine4 (Proofs_C01s4n.v) and calls_setup (Proofs_C01s4p.v) once more, over J4x / LIx: in addition to what
   calls_setup delivers, every RSite of every routine has its entry in the line_info of the final program, at the
   position of its block (the hypothesis LI of the stepping simulation). *)
From Coq Require Import List ZArith NArith Lia Bool.
From Theo Require Import Base Tokens Errors MacroExtract Parser VMModel VMSpec GenModel Compile RefSem RefSemChk C01Statements C01Stages C01Stages3 C01Stages4 Gen_Consts Proofs_VM_mem Proofs_VM_dbg Proofs_Gen0 Proofs_Gen Proofs_Sem Proofs_C01a Proofs_C01b Proofs_C01 Proofs_C01s2a Proofs_C01s2b Proofs_C01s2c Proofs_C01s2d Proofs_C01s2 Proofs_C01s3a Proofs_C01s3b Proofs_C01s3c Proofs_C01s3d Proofs_C01s3 Proofs_C01s4a Proofs_C01s4b Proofs_C01s4c Proofs_C01s4g Proofs_C01s4h Proofs_C01s4i Proofs_C01s4j Proofs_C01s4k Proofs_C01s4l Proofs_C01s4m Proofs_C01s4n Proofs_C01s4o Proofs_C01s4r Proofs_C01s4p Proofs_C07b Proofs_C07s5a Proofs_C07s5b Proofs_C07s5c Proofs_C07s5d Proofs_C07s5e Proofs_C07s5f.
From Theo Require Import C07Statements Proofs_C07a.
Import ListNotations.
Local Open Scope Z_scope.

Lemma spine_x : forall n, prog4 on_line n = true -> headers4 n = true -> lexable_names n = true ->
  forall FT infos pre g s g' s', PI FT infos pre g s -> LIx infos g s ->
    dispatch_void false false false n g = Ok g' -> flat_stmt n s = Some s' ->
    exists FT' infos' pre' gm sm lmap,
      PI FT' infos' pre' gm sm /\ LIx infos' gm sm /\ J4x (zlen (g_code gm)) FT' (g_labels gm) g' s' lmap 0 /\
      Proofs_C01s2c.Ext gm g' /\ FExt sm s' /\ LiI (zlen (g_code gm)) gm g'.
Proof.
  induction n as [t line file tok l r IHl IHr] using node_ind'. intros Hp Hh Hlex FT infos pre g s g' s' HPI HLI HD HF.
  assert (Hmain : forall FT infos pre g s n g' s', PI FT infos pre g s -> LIx infos g s -> body4 on_line n = true -> lexable_names n = true ->
            dispatch_void false false false n g = Ok g' -> flat_stmt n s = Some s' ->
            exists FT' infos' pre' gm sm lmap,
              PI FT' infos' pre' gm sm /\ LIx infos' gm sm /\ J4x (zlen (g_code gm)) FT' (g_labels gm) g' s' lmap 0 /\
              Proofs_C01s2c.Ext gm g' /\ FExt sm s' /\ LiI (zlen (g_code gm)) gm g').
  { clear. intros FT infos pre g s n g' s' HPI HLI Hb Hlex HD HF.
    assert (J0 : J4x (zlen (g_code g)) FT (g_labels g) g s [] 0).
    { destruct HPI as [Psyms Pcur Ppos [Ploops PL0] Pjt Plast _ _ _ _ _ _ _].
      apply J4x_start; auto.
      - rewrite Psyms. discriminate.
      - unfold gmarks. rewrite Psyms. reflexivity.
      - rewrite Pcur. reflexivity.
      - rewrite Pcur. reflexivity.
      - rewrite Pcur. reflexivity.
      - unfold gks, gregs. rewrite Psyms. cbn [hd_error f_regs map]. apply RW_nil; try exact PL0.
      - unfold gks, gregs. rewrite Psyms, Pcur. cbn [hd_error f_regs map b_vars]. apply JV_nil. }
    destruct (joint_walkx _ FT _ n Hb Hlex g s [] g' s' J0 (pi_gf _ _ _ _ _ HPI) HD HF) as (lmap & J1 & X1 & F1 & _).
    exists FT, infos, pre, g, s, lmap. split; [exact HPI|]. split; [exact HLI|]. split; [exact J1|]. split; [exact X1|]. split; [exact F1|].
    exact (dvoid_LiI n g g' (pi_last _ _ _ _ _ HPI) (pi_code1 _ _ _ _ _ HPI) (proj1 HLI) HD). }
  destruct (prog4_inv _ _ Hp) as [(sl & sf & st & pl & pf & ptok & hl & hf & htok & name & port & bl & bf & btok & body & ml & mf & mtok & e & more & En & Hn & Hpo & He & Hb & Hm)|Hb];
    [|exact (Hmain _ _ _ _ _ _ _ _ HPI HLI Hb Hlex HD HF)].
  inversion En; subst t line file tok l r; clear En.
  destruct (leaf_name_inv _ Hn) as (nl & nf & nname & ->). destruct (leaf_name_inv _ He) as (el & ef & etok & ->).
  cbn [headers4] in Hh. apply andb_true_iff in Hh. destruct Hh as [Hon Hhm].
  cbn [lexable_names] in Hlex. rewrite !andb_true_iff in Hlex.
  destruct Hlex as [[_ [[_ [[_ _] Hlp]] [[_ Hlb] _]]] Hlm].
  rewrite dvoid_split in HD. cbn [dvo] in HD.
  rewrite flat_stmt_eq in HF. cbn [fs_body] in HF. unfold fs_split in HF. cbn [fsub] in HF.
  match type of HD with context [dispatch_void false false false ?pn ?g0] =>
    destruct (dispatch_void false false false pn g0) as [g1| |] eqn:E1; cbn [bind] in HD; try discriminate end.
  match type of HF with context [flat_stmt ?pn ?s0] =>
    destruct (flat_stmt pn s0) as [s1|] eqn:EF1; [|discriminate] end.
  destruct (def_step_x _ _ _ _ _ _ _ _ _ _ _ _ _ _ _ _ _ _ _ _ _ _ _ _ _ _ _ _ _ HPI HLI Hon Hpo Hb Hlp Hlb E1 EF1)
    as (FT1 & info & q & lab & HPI1 & _ & HLI1).
  destruct more as [m|].
  - cbn [dvo] in HD. cbn [fsub] in HF. cbn [optP] in IHr.
    exact (IHr Hm Hhm Hlm _ _ _ _ _ _ _ HPI1 HLI1 HD HF).
  - cbn [dvo] in HD. cbn [fsub] in HF. inversion HD; subst g'. inversion HF; subst s'.
    destruct HPI1 as [Psyms Pcur Ppos [Ploops PL0] Pjt Plast Q1 Q2 Q3 Q4 Q5 Q6 Q7].
    exists FT1, (infos ++ [info]), (pre ++ [(q, lab)]), g1, s1, [].
    split; [constructor; auto|]. split; [exact HLI1|]. split; [|split; [apply Ext_refl; rewrite Psyms; discriminate | split; [apply FExt_refl | apply LiI_refl; exact (proj1 HLI1)]]].
    apply J4x_start; auto.
    + rewrite Psyms. discriminate.
    + unfold gmarks. rewrite Psyms. reflexivity.
    + rewrite Pcur. reflexivity.
    + rewrite Pcur. reflexivity.
    + rewrite Pcur. reflexivity.
    + unfold gks, gregs. rewrite Psyms. cbn [hd_error f_regs map]. apply RW_nil; try exact PL0.
    + unfold gks, gregs. rewrite Psyms, Pcur. cbn [hd_error f_regs map b_vars]. apply JV_nil.
Qed.

(* the jumps over the definitions, in stepping mode: a quiet run *)
Lemma prelude_qrun cd0 labels C6 s d : code (prog s) = C6 ->
  (forall q ins, 1 <= q -> znth cd0 q = Some ins -> is_jmp (iop ins) ->
     exists tgt, znth labels (ia ins) = Some tgt /\ znth C6 q = Some (mkI (iop ins) (tgt - q) (ib ins) (ic ins))) ->
  forall i0, znth cd0 0 = Some i0 -> ~ is_jmp (iop i0) ->
  forall pre q qend, PreOK cd0 labels q pre qend ->
    qrun (length pre) (vm_at s q d) (vm_at s qend d).
Proof.
  intros HC BB i0 Hi0 Hnj. induction pre as [|[q0 lab] rest IH]; intros q qend HP; cbn [PreOK] in HP.
  - subst qend. reflexivity.
  - destruct HP as (-> & Hz & tgt & Hlab & Hrest).
    assert (Hq : 1 <= q).
    { pose proof (znth_some_range _ _ _ Hz) as R. destruct (Z.eq_dec q 0) as [->|Hne]; [|lia].
      rewrite Hi0 in Hz. inversion Hz; subst i0. exfalso. apply Hnj. left; reflexivity. }
    destruct (BB q (IJmp lab) Hq Hz ltac:(left; reflexivity)) as (tgt' & Htg & Hz6).
    cbn [ia IJmp] in Htg. rewrite Hlab in Htg. inversion Htg; subst tgt'.
    pose proof (IH tgt qend Hrest) as Hrun.
    change (length ((q, lab) :: rest)) with (1 + length rest)%nat.
    eapply qrun_trans; [|exact Hrun].
    replace tgt with (q + (tgt - q)) at 1 by lia. apply q_jmp. rewrite HC. exact Hz6.
Qed.

Lemma calls_setup_x root r rs :
  canonical4 root = true -> headers4 root = true -> lexable_names root = true ->
  gen true [] (Some root) = Ok r -> abstract_source (Some root) = Some rs ->
  exists RI FT kroot rt (pre : list (Z * Z)),
    (forall j e sz mi, FT j = Some (e, sz, mi) -> e = ri_P0 (RI j) /\ sz = ri_N (RI j) /\ mi = ri_mi (RI j)) /\
    (forall k r', nth_error rs k = Some r' -> routine_ok RI (code (gr_prog r)) FT k r') /\
    MapsOK rs RI (stack_maps (gr_prog r)) /\
    length rs = S kroot /\ nth_error rs kroot = Some rt /\
    znth (code (gr_prog r)) 0 = Some (IPrepare (ri_N (RI kroot)) (ri_mi (RI kroot)) 0) /\
    (forall s d, code (prog s) = code (gr_prog r) ->
       vm_run (length pre) (vm_at s 1 d) = Ok (vm_at s (ri_P0 (RI kroot)) d)) /\
    (forall s d, code (prog s) = code (gr_prog r) ->
       qrun (length pre) (vm_at s 1 d) (vm_at s (ri_P0 (RI kroot)) d)) /\
    (forall k r' pc l, nth_error rs k = Some r' -> znth (r_code r') pc = Some (RSite l) ->
       alookup z_ltb (line_info (gr_prog r)) (pm4 RI k r' pc) = Some (bp_of l)).
Proof.
  intros Hst Hh Hlex Hgen Habs.
  unfold gen in Hgen. apply gen_gen_inv in Hgen.
  destruct Hgen as (g3 & g4 & p & i0 & c0 & g6 & Hbody & Hpop & Hp & Hi0 & Hc0 & Hbp & Hr).
  unfold gen_body in Hbody. cbn [negb cg_neg cg_pb cg_args cfgen_now] in Hbody.
  unfold abstract_source in Habs. cbv zeta in Habs.
  match type of Habs with context [flat_stmt root ?s] => set (s0 := s) in * end.
  destruct (flat_stmt root s0) as [sF|] eqn:EF; [|discriminate].
  destruct (forallb labels_set (f_done sF ++ [finish_routine (bemit (f_cur sF) RHalt)])) eqn:Els; [|discriminate].
  inversion Habs; subst rs; clear Habs Els.
  pose proof (all_jumps_todo4 on_line root g3 Hst Hbody) as AllJ.
  assert (HLI0 : LIx [] ginit s0) by (split; [exact inv1_ginit | intros j r0 P0 regs lo hi _ Hj; destruct j; discriminate Hj]).
  destruct (spine_x root Hst Hh Hlex _ [] [] ginit s0 g3 sF (PI_init s0 eq_refl eq_refl eq_refl eq_refl eq_refl) HLI0 Hbody EF)
    as (FT & infos & pre & gm & sm & lmapF & HPI & HLIx & HJ & HX & HFx & HLiI).
  destruct HPI as [Psyms Pcur Ppos [Ploops PL0] Pjt Plast [Plen Pmaps] Pfr Pftn Pgf [Ppre Pprel] Pc1 Pc0].
  destruct HFx as (Fd & Fn & Fnm & Fpar). rewrite Pcur in Fnm, Fpar. cbn [b_name b_params] in Fnm, Fpar.
  pose proof HX as (_ & [blk Hblk] & Hmaps & Hfuncs & f & f3 & tls & Es0 & Es3 & Hfn & Hfa).
  rewrite Psyms in Es0. inversion Es0; subst f tls; clear Es0. cbn [f_name f_argnum] in Hfn, Hfa.
  set (P0r := zlen (g_code gm)) in *. set (LSr := g_labels gm) in *.
  set (regs3 := f_regs f3).
  assert (Eregs : gregs g3 = regs3) by (unfold gregs; rewrite Es3; reflexivity).
  set (kroot := length (f_done sm)).
  set (rt := finish_routine (bemit (f_cur sF) RHalt)) in *.
  (* ---- HALT / RHalt as one more block ---- *)
  destruct (Lx_emit P0r FT LSr g3 sF lmapF 0 IHalt HJ) as [J1 X1].
  set (gX := emit g3 IHalt) in *.
  assert (ECx : g_code gX = g_code g3 ++ [IHalt]) by reflexivity.
  destruct (Lx_bemit P0r FT LSr gX sF lmapF (0 + 1) RHalt J1 eq_refl) as [J2 F2].
  { cbn [imatch4 imatch3 imatch]. rewrite ECx, zlen_snoc. replace (zlen (g_code g3) + 1 - (0 + 1)) with (zlen (g_code g3)) by lia.
    apply znth_app_last. }
  set (sX := with_cur sF (bemit (f_cur sF) RHalt)) in *.
  assert (FRroot : FRok (g_code gX) (g_labels gX) FT rt P0r regs3 (zlen LSr) (zlen (g_labels gX))).
  { replace regs3 with (gregs gX) by exact Eregs.
    apply (FRok_of_J4 P0r FT LSr gX sX lmapF rt (proj1 J2) Pc1); try reflexivity.
    - intros i q Hi. change (r_params rt) with (b_params (f_cur sF)) in Hi. rewrite Fpar in Hi. destruct i; discriminate Hi.
    - change (r_params rt) with (b_params (f_cur sF)). rewrite Fpar. constructor. }
  (* ---- the end of gen ---- *)
  unfold pop_symbols, get_symbols in Hpop. rewrite Es3 in Hpop. cbn [hd_error of_opt bind] in Hpop.
  destruct (check_marks g3 (f_marks f3)) as [g1| |] eqn:Ecm; cbn [bind] in Hpop; try discriminate.
  destruct (check_marks_errs _ _ _ Ecm) as [e Eg1]. subst g1. inversion Hpop; subst g4; clear Hpop Ecm.
  cbn [upd_errs g_code g_maps g_pb g_li g_errs g_syms g_funcs g_labels g_todo g_loops g_fsname g_fsline] in *.
  rewrite Hfn in Hp. rewrite str_lookup_insert in Hp. rewrite (proj2 (str_keqb_eq name_root name_root) eq_refl) in Hp.
  inversion Hp; subst p; clear Hp. cbn [p_stack_size p_mi] in Hc0. fold regs3 in Hc0.
  set (N := zlen regs3) in *.
  assert (Emi : zlen (g_maps g3 ++ [mkSM name_root (stack_map_of regs3 0)]) - 1 = Z.of_nat kroot).
  { rewrite zlen_snoc, Hmaps, Pmaps. unfold kroot, zlen. rewrite Plen. lia. }
  rewrite ?Hfn in Hc0. fold regs3 in Hc0. rewrite Emi in Hc0.
  assert (Hz0 : znth (g_code g3) 0 = Some (IPrepare (-1) (-1) 0)) by (rewrite Hblk; apply znth_app_some; exact Pc0).
  rewrite Hz0 in Hi0. inversion Hi0; subst i0; clear Hi0. cbn [iop ic IPrepare] in Hc0.
  pose proof (znth_zupd _ _ _ _ Hc0) as Zc0. pose proof (zupd_length _ _ _ _ Hc0) as Lc0.
  unfold backpatch in Hbp. binv Hbp. rename a into g6'. rename H into Hbpl. inversion Hbp; subst g6; clear Hbp.
  cbn [emit upd_code g_code g_todo g_labels] in Hbpl.
  match type of Hbpl with backpatch_list ?g _ = _ => set (g5 := g) in * end.
  set (C5 := c0 ++ [IHalt]).
  assert (EC5 : g_code g5 = C5) by reflexivity.
  assert (EL5 : g_labels g5 = g_labels g3) by reflexivity.
  pose proof (proj1 J2) as (_ & HB2 & _ & _). destruct HB2 as (_ & _ & HT2 & _).
  change (g_todo gX) with (g_todo g3) in HT2.
  destruct (backpatch_list_patch _ _ _ Hbpl (proj1 HT2)) as (BL & BM & _ & BLI & BA & BB).
  rewrite EC5 in BA, BB. rewrite EL5 in BB.
  set (C6 := g_code g6') in *.
  set (prg := gr_prog r).
  assert (Ecode : code prg = C6) by (unfold prg; rewrite Hr; reflexivity).
  assert (Emaps : stack_maps prg = g_maps g3 ++ [mkSM name_root (stack_map_of regs3 0)]).
  { unfold prg. rewrite Hr. cbn [gen_result gr_prog stack_maps upd_todo g_maps]. rewrite BM.
    change (g_maps g5) with (g_maps g3 ++ [mkSM (f_name f3) (stack_map_of regs3 0)]). rewrite Hfn. reflexivity. }
  assert (Hcopy : forall q ins, 1 <= q -> znth (g_code gX) q = Some ins -> znth C5 q = Some ins).
  { intros q ins Hq Hz. rewrite ECx in Hz. unfold C5. apply znth_snoc_inv in Hz. destruct Hz as [[Hlt Hz]|[-> ->]].
    - apply znth_app_some. rewrite Zc0. destruct (Z.eqb_spec q 0); [lia | exact Hz].
    - rewrite <- Lc0. apply znth_app_last. }
  assert (BAx : forall q ins, 1 <= q -> znth (g_code gX) q = Some ins -> ~ is_jmp (iop ins) -> znth C6 q = Some ins).
  { intros q ins Hq Hz Hnj. apply BA; [apply Hcopy; assumption | right; exact Hnj]. }
  assert (BBx : forall q ins, 1 <= q -> znth (g_code gX) q = Some ins -> is_jmp (iop ins) ->
            exists tgt, znth (g_labels gX) (ia ins) = Some tgt /\ znth C6 q = Some (mkI (iop ins) (tgt - q) (ib ins) (ic ins))).
  { intros q ins Hq Hz Hj. change (g_labels gX) with (g_labels g3). apply BB; [apply Hcopy; assumption | | exact Hj].
    rewrite ECx in Hz. apply znth_snoc_inv in Hz. destruct Hz as [[Hlt Hz]|[_ ->]].
    - exact (AllJ q ins Hq Hz Hj).
    - destruct Hj as [E|E]; discriminate E. }
  assert (Z0 : znth C6 0 = Some (IPrepare N (Z.of_nat kroot) 0)).
  { apply BA; [|right; intros [E|E]; discriminate E]. unfold C5. apply znth_app_some. rewrite Zc0. reflexivity. }
  (* ---- routine information ---- *)
  set (infosAll := infos ++ [(P0r, regs3, 0, 0)]).
  set (RI := RIof infosAll).
  assert (Hkr : kroot = length infos) by (unfold kroot; symmetry; exact Plen).
  assert (RIroot : RI kroot = mkRI (RMof (map key regs3)) N P0r (Z.of_nat kroot)).
  { unfold RI. apply (RIof_nth _ _ _ _ 0 0). unfold infosAll. rewrite nth_error_app2 by lia.
    replace (kroot - length infos)%nat with 0%nat by lia. reflexivity. }
  assert (RIold : forall j P0 regs lo hi, nth_error infos j = Some (P0, regs, lo, hi) ->
            RI j = mkRI (RMof (map key regs)) (zlen regs) P0 (Z.of_nat j)).
  { intros j P0 regs lo hi Hj. unfold RI. apply (RIof_nth _ _ _ _ lo hi). unfold infosAll.
    rewrite nth_error_app1; [exact Hj|]. apply nth_error_Some. rewrite Hj. discriminate. }
  (* the finished routines, on the final tables *)
  assert (Hsnap : forall lab, lab < zlen LSr -> znth (g_labels gX) lab = znth LSr lab).
  { pose proof (proj1 J2) as (_ & HB2 & _ & _). destruct HB2 as (_ & HL2 & _). exact (proj2 (jl4_snap _ _ _ _ _ _ _ _ HL2)). }
  assert (Hold : forall j r' P0 regs lo hi, nth_error (f_done sm) j = Some r' -> nth_error infos j = Some (P0, regs, lo, hi) ->
            FRok (g_code gX) (g_labels gX) FT r' P0 regs lo hi /\ FT j = Some (P0, zlen regs, Z.of_nat j) /\
            znth (g_maps g3) (Z.of_nat j) = Some (mkSM (r_name r') (stack_map_of regs 0))).
  { intros j r' P0 regs lo hi Hr' Hi. destruct (Pfr _ _ _ _ _ _ Hr' Hi) as (A & B & Cc & D).
    split; [|split; [exact Cc | rewrite Hmaps; exact D]].
    eapply FRok_stable; [exact A | | | intros jj x H; exact H].
    - exists (blk ++ [IHalt]). rewrite ECx, Hblk, app_assoc. reflexivity.
    - intros lab Hl. apply Hsnap. fold LSr in B. lia. }
  exists RI, FT, kroot, rt, pre.
  assert (Hlen : length (f_done sF ++ [rt]) = S kroot) by (rewrite app_length, Fd; cbn [length]; unfold kroot; lia).
  assert (Hnroot : nth_error (f_done sF ++ [rt]) kroot = Some rt).
  { rewrite nth_error_app2 by (rewrite Fd; unfold kroot; lia). rewrite Fd. unfold kroot. rewrite Nat.sub_diag. reflexivity. }
  assert (Hcases : forall k r', nth_error (f_done sF ++ [rt]) k = Some r' ->
            (exists P0 regs lo hi, nth_error (f_done sm) k = Some r' /\ nth_error infos k = Some (P0, regs, lo, hi)) \/
            (k = kroot /\ r' = rt)).
  { intros k r' Hk. destruct (Nat.lt_ge_cases k kroot) as [Hlt|Hge].
    - left. rewrite nth_error_app1 in Hk by (rewrite Fd; exact Hlt). rewrite Fd in Hk.
      destruct (nth_error infos k) as [[[[P0 regs] lo] hi]|] eqn:Ei; [eauto 8|].
      apply nth_error_None in Ei. lia.
    - right. assert (k = kroot).
      { assert (k < length (f_done sF ++ [rt]))%nat by (apply nth_error_Some; rewrite Hk; discriminate). lia. }
      subst k. rewrite Hnroot in Hk. inversion Hk. auto. }
  split; [|split; [|split; [|split; [exact Hlen | split; [exact Hnroot | split; [|split; [|split]]]]]]].
  - (* the table of callable programs *)
    intros j e0 sz mi Hj.
    destruct (Nat.lt_ge_cases j (length infos)) as [Hlt|Hge]; [|rewrite (Pftn j Hge) in Hj; discriminate].
    destruct (nth_error infos j) as [[[[P0 regs] lo] hi]|] eqn:Ei; [|apply nth_error_None in Ei; lia].
    destruct (nth_error (f_done sm) j) as [r'|] eqn:Er; [|apply nth_error_None in Er; lia].
    destruct (Hold _ _ _ _ _ _ Er Ei) as (_ & A & _). rewrite A in Hj. inversion Hj; subst e0 sz mi.
    rewrite (RIold _ _ _ _ _ Ei). cbn [ri_P0 ri_N ri_mi]. auto.
  - (* all routines *)
    fold prg. rewrite Ecode. intros k r' Hk. destruct (Hcases _ _ Hk) as [(P0 & regs & lo & hi & Er & Ei)|[-> ->]].
    + destruct (Hold _ _ _ _ _ _ Er Ei) as (A & _ & _).
      apply (FRok_ROK (g_code gX) (g_labels gX) FT r' P0 regs lo hi C6 RI k A); try (rewrite (RIold _ _ _ _ _ Ei); reflexivity); [exact BAx | exact BBx].
    + apply (FRok_ROK (g_code gX) (g_labels gX) FT rt P0r regs3 _ _ C6 RI kroot FRroot); try (rewrite RIroot; reflexivity); [exact BAx | exact BBx].
  - (* stack maps *)
    fold prg. rewrite Emaps. intros k r' Hk. destruct (Hcases _ _ Hk) as [(P0 & regs & lo & hi & Er & Ei)|[-> ->]].
    + destruct (Hold _ _ _ _ _ _ Er Ei) as ((lm & mk & L & FRf) & _ & D).
      exists regs, L. rewrite (RIold _ _ _ _ _ Ei). cbn [ri_rm ri_N ri_mi].
      split; [reflexivity|]. split; [reflexivity|]. split; [exact (frf_rw _ _ _ _ _ _ _ _ _ _ _ FRf)|].
      split; [exact (frf_jv _ _ _ _ _ _ _ _ _ _ _ FRf)|]. apply znth_app_some. exact D.
    + destruct FRroot as (lm & mk & L & FRf). exists regs3, L. rewrite RIroot. cbn [ri_rm ri_N ri_mi].
      split; [reflexivity|]. split; [reflexivity|]. split; [exact (frf_rw _ _ _ _ _ _ _ _ _ _ _ FRf)|].
      split; [exact (frf_jv _ _ _ _ _ _ _ _ _ _ _ FRf)|].
      replace (Z.of_nat kroot) with (zlen (g_maps g3)) by (rewrite zlen_snoc in Emi; lia).
      assert (En : r_name rt = name_root) by (change (r_name rt) with (b_name (f_cur sF)); rewrite Fnm; reflexivity).
      rewrite En. apply znth_app_last.
  - fold prg. rewrite Ecode, RIroot. cbn [ri_N ri_mi]. exact Z0.
  - (* the jumps over the definitions *)
    fold prg. rewrite Ecode, RIroot. cbn [ri_P0]. intros s d HC.
    assert (PX : PreOK (g_code gX) (g_labels gX) 1 pre P0r).
    { eapply PreOK_stable; [exact Ppre | | ].
      - exists (blk ++ [IHalt]). rewrite ECx, Hblk, app_assoc. reflexivity.
      - intros lab Hin. apply Hsnap. apply Pprel in Hin. fold LSr in Hin. lia. }
    apply (prelude_run (g_code gX) (g_labels gX) C6 s d HC BBx) with (i0 := IPrepare (-1) (-1) 0); [|intros [E|E]; discriminate E|exact PX].
    rewrite ECx. apply znth_app_some. exact Hz0.
  - (* the jumps over the definitions, quietly *)
    fold prg. rewrite Ecode, RIroot. cbn [ri_P0]. intros s d HC.
    assert (PX : PreOK (g_code gX) (g_labels gX) 1 pre P0r).
    { eapply PreOK_stable; [exact Ppre | | ].
      - exists (blk ++ [IHalt]). rewrite ECx, Hblk, app_assoc. reflexivity.
      - intros lab Hin. apply Hsnap. apply Pprel in Hin. fold LSr in Hin. lia. }
    apply (prelude_qrun (g_code gX) (g_labels gX) C6 s d HC BBx) with (i0 := IPrepare (-1) (-1) 0); [|intros [E|E]; discriminate E|exact PX].
    rewrite ECx. apply znth_app_some. exact Hz0.
  - (* line_info *)
    assert (Eli : line_info prg = g_li g3).
    { unfold prg. rewrite Hr. cbn [gen_result gr_prog line_info upd_todo g_li]. rewrite BLI. reflexivity. }
    fold prg. rewrite Eli. intros k r' pc l Hk Hz. destruct (Hcases _ _ Hk) as [(P0 & regs & lo & hi & Er & Ei)|[-> ->]].
    + unfold pm4. rewrite (RIold _ _ _ _ _ Ei). cbn [ri_P0]. destruct HLIx as [_ HLo].
      destruct (HLo _ _ _ _ _ _ Er Ei) as [A B]. destruct HLiI as (_ & _ & _ & Hl').
      exact (JLI4_stable P0 (g_li gm) (g_li g3) (r_code r') (zlen (g_code gm)) A B Hl' pc l Hz).
    + unfold pm4. rewrite RIroot. cbn [ri_P0]. destruct J2 as [_ HL2]. exact (HL2 pc l Hz).
Qed.
