(* GenModel.v — model of Compiler/src/gen.cpp: FunctionGenState, GenState and its helpers, the
   dispatch functions over the AST and Theo::gen.  Undefined operations of the C++ (NULL child
   dereference, back() of an empty vector, unchecked indices) are explicit UB outcomes. *)
From Theo Require Import Base Tokens Errors VMModel MacroExtract Parser Gen_Consts.
Local Open Scope Z_scope.

Record vreg := mkVReg { in_use : bool; is_temp : bool; vname : str }.

Record fgs := mkFGS {
  f_name : str;
  f_regs : list vreg;
  f_argnum : Z;
  f_marks : list (str * Z)          (* std::map<std::string,int>, in key order *)
}.

Record progrec := mkProgRec { p_ind : Z; p_mi : Z; p_argnum : Z; p_stack_size : Z }.

(* CodegenResult::Error : Type number (gen.hpp), message kind, location *)
Record gerr := mkGErr { ge_type : Z; ge_kind : ekind; ge_file : str; ge_line : Z }.
Definition T_MALFORMED_AST := 0. Definition T_PARSE_ERROR := 2. Definition T_UNKNOWN_PROGRAM_NAME := 3.
Definition T_ARGSIZE_MISMATCH := 4. Definition T_INTERNAL_ERROR := 5. Definition T_UNKNOWN_MARK := 6.

Record gstate := mkGS {
  g_code : list instr;
  g_maps : list stackmap;
  g_pb : list (bp * list Z);
  g_li : list (Z * bp);
  g_errs : list gerr;
  g_syms : list fgs;                (* symbols, back() FIRST *)
  g_funcs : list (str * progrec);   (* funcAddrs, in key order *)
  g_labels : list Z;
  g_todo : list Z;
  g_loops : Z;
  g_fsname : str;
  g_fsline : Z
}.

Definition upd_code (g : gstate) c := mkGS c (g_maps g) (g_pb g) (g_li g) (g_errs g) (g_syms g) (g_funcs g) (g_labels g) (g_todo g) (g_loops g) (g_fsname g) (g_fsline g).
Definition upd_tables (g : gstate) pb li := mkGS (g_code g) (g_maps g) pb li (g_errs g) (g_syms g) (g_funcs g) (g_labels g) (g_todo g) (g_loops g) (g_fsname g) (g_fsline g).
Definition upd_errs (g : gstate) e := mkGS (g_code g) (g_maps g) (g_pb g) (g_li g) e (g_syms g) (g_funcs g) (g_labels g) (g_todo g) (g_loops g) (g_fsname g) (g_fsline g).
Definition upd_syms (g : gstate) s := mkGS (g_code g) (g_maps g) (g_pb g) (g_li g) (g_errs g) s (g_funcs g) (g_labels g) (g_todo g) (g_loops g) (g_fsname g) (g_fsline g).
Definition upd_labels (g : gstate) l := mkGS (g_code g) (g_maps g) (g_pb g) (g_li g) (g_errs g) (g_syms g) (g_funcs g) l (g_todo g) (g_loops g) (g_fsname g) (g_fsline g).
Definition upd_todo (g : gstate) t := mkGS (g_code g) (g_maps g) (g_pb g) (g_li g) (g_errs g) (g_syms g) (g_funcs g) (g_labels g) t (g_loops g) (g_fsname g) (g_fsline g).
Definition upd_fs (g : gstate) n l := mkGS (g_code g) (g_maps g) (g_pb g) (g_li g) (g_errs g) (g_syms g) (g_funcs g) (g_labels g) (g_todo g) (g_loops g) n l.

(* ---- Instruction constructors (instr.cpp) ---- *)
Definition IPotentialBreak := mkI POTENTIAL_BREAK 0 0 0.
Definition IHalt := mkI HALT 0 0 0.
Definition ITest t a b := mkI TEST t a b.
Definition IAdd t s c := mkI ADD_CONST t s c.
Definition IJmp o := mkI JMP o 0 0.
Definition IJmpC o s := mkI JMPC o s 0.
Definition IPrepare count index target := mkI PREPARE_EXEC count index target.
Definition IArg t s := mkI ARG t s 0.
Definition IExec e := mkI EXEC e 0 0.
Definition IRet s := mkI RET s 0 0.
Definition IConst t c := mkI CONST t c 0.

(* ---- GenState helpers ---- *)
Definition err (g : gstate) (t : Z) (k : ekind) : gstate :=
  upd_errs g (g_errs g ++ [mkGErr t k (g_fsname g) (g_fsline g)]).
Definition verr (g : gstate) (t : Z) (k : ekind) (file : str) (line : Z) : gstate :=
  upd_errs g (g_errs g ++ [mkGErr t k file line]).

Definition next_pos (g : gstate) : Z := zlen (g_code g).
Definition code_back (g : gstate) : result instr := of_opt ub_back (hd_error (rev (g_code g))).

Definition get_mark_pos (g : gstate) : result Z :=
  do i <- code_back g;
  Ok (if opcode_eqb (iop i) POTENTIAL_BREAK then next_pos g - 1 else next_pos g).

Definition emit (g : gstate) (i : instr) : gstate := upd_code g (g_code g ++ [i]).

(* repaired (D6): only the removed site leaves potential_breaks[bp]; the key goes when its vector is empty.
   [legacy] = pinned behaviour: the whole entry of bp is erased. *)
Definition remove_top_pot_break (legacy : bool) (g : gstate) : result gstate :=
  do i <- code_back g;
  if opcode_eqb (iop i) POTENTIAL_BREAK then
    let pos := next_pos g - 1 in
    do b <- of_opt ub_iter (alookup z_ltb (g_li g) pos);
    let li' := aremove z_ltb (g_li g) pos in
    do sites <- of_opt ub_iter (alookup bp_ltb (g_pb g) b);
    do pb' <-
      (if legacy then Ok (aremove bp_ltb (g_pb g) b)
       else match rev sites with
            | [] => UB ub_back
            | _ :: r => Ok (match r with
                            | [] => aremove bp_ltb (g_pb g) b
                            | _ => ainsert bp_ltb (g_pb g) b (rev r)
                            end)
            end);
    Ok (upd_code (upd_tables g pb' li') (removelast (g_code g)))
  else Ok g.

Definition breakpoint (g : gstate) : gstate :=
  let b := mkBP (g_fsname g) (g_fsline g) in
  let pos := next_pos g in
  let li' := ainsert z_ltb (g_li g) pos b in
  let old := match alookup bp_ltb (g_pb g) b with Some l => l | None => [] end in
  let pb' := ainsert bp_ltb (g_pb g) b (old ++ [pos]) in
  emit (upd_tables g pb' li') IPotentialBreak.

Definition push_symbols (g : gstate) (name : str) : gstate :=
  upd_syms g (mkFGS name [] 0 [] :: g_syms g).

Definition get_symbols (g : gstate) : result fgs := of_opt ub_back (hd_error (g_syms g)).
Definition set_symbols (g : gstate) (f : fgs) : gstate := upd_syms g (f :: tl (g_syms g)).

Fixpoint check_marks (g : gstate) (marks : list (str * Z)) : result gstate :=
  match marks with
  | [] => Ok g
  | (_, l) :: rest =>
      do pos <- of_opt ub_index (znth (g_labels g) l);
      check_marks (if pos =? -1 then err g T_UNKNOWN_MARK e_unknown_mark else g) rest
  end.

Fixpoint stack_map_of (regs : list vreg) (i : Z) : list (Z * str) :=
  match regs with
  | [] => []
  | r :: rest => if is_temp r then stack_map_of rest (i + 1) else (i, vname r) :: stack_map_of rest (i + 1)
  end.

Definition pop_symbols (g : gstate) (addr : Z) : result gstate :=
  do f <- get_symbols g;
  do g1 <- check_marks g (f_marks f);
  let sm := mkSM (f_name f) (stack_map_of (f_regs f) 0) in
  let maps' := g_maps g1 ++ [sm] in
  let p := mkProgRec addr (zlen maps' - 1) (f_argnum f) (zlen (f_regs f)) in
  Ok (mkGS (g_code g1) maps' (g_pb g1) (g_li g1) (g_errs g1) (tl (g_syms g1))
           (ainsert str_ltb (g_funcs g1) (f_name f) p) (g_labels g1) (g_todo g1) (g_loops g1)
           (g_fsname g1) (g_fsline g1)).

Definition advance_line (g : gstate) (line : Z) (file : str) : gstate :=
  if str_eqb file hidden_file then g
  else if str_eqb (g_fsname g) file then
    (if line =? g_fsline g then g else breakpoint (upd_fs g (g_fsname g) line))
  else breakpoint (upd_fs g file line).

Definition create_label (g : gstate) : gstate * Z :=
  (upd_labels g (g_labels g ++ [-1]), zlen (g_labels g)).
Definition set_label (g : gstate) (l : Z) (i : Z) : result gstate :=
  do ls <- of_opt ub_index (zupd (g_labels g) l i); Ok (upd_labels g ls).
Definition emit_backpatched (g : gstate) (i : instr) : gstate :=
  let g1 := emit g i in upd_todo g1 (g_todo g1 ++ [next_pos g1 - 1]).

Fixpoint backpatch_list (g : gstate) (todo : list Z) : result gstate :=
  match todo with
  | [] => Ok g
  | loc :: rest =>
      do ins <- of_opt ub_index (znth (g_code g) loc);
      match iop ins with
      | JMP | JMPC =>
          do tgt <- of_opt ub_index (znth (g_labels g) (ia ins));
          let g1 := if tgt =? -1 then err g T_UNKNOWN_MARK e_backpatch_failed else g in
          do c <- of_opt ub_index (zupd (g_code g1) loc (mkI (iop ins) (tgt - loc) (ib ins) (ic ins)));
          backpatch_list (upd_code g1 c) rest
      | _ => backpatch_list (err g T_INTERNAL_ERROR e_backpatch_nonjmp) rest
      end
  end.
Definition backpatch (g : gstate) : result gstate :=
  do g1 <- backpatch_list g (g_todo g); Ok (upd_todo g1 []).

(* ---- FunctionGenState methods, acting on the top symbol table ---- *)
Fixpoint find_free_temp (regs : list vreg) (i : Z) : option Z :=
  match regs with
  | [] => None
  | r :: rest => if is_temp r && negb (in_use r) then Some i else find_free_temp rest (i + 1)
  end.

Definition temp_name_str : str :=
  [84; 101; 109; 112; 111; 114; 97; 114; 121; 32; 86; 97; 114; 105; 97; 98; 108; 101]%N.   (* "Temporary Variable" *)

Definition fetch_temporary (g : gstate) : result (gstate * Z) :=
  do f <- get_symbols g;
  match find_free_temp (f_regs f) 0 with
  | Some i =>
      do r <- of_opt ub_index (znth (f_regs f) i);
      do regs <- of_opt ub_index (zupd (f_regs f) i (mkVReg true (is_temp r) (vname r)));
      Ok (set_symbols g (mkFGS (f_name f) regs (f_argnum f) (f_marks f)), i)
  | None =>
      Ok (set_symbols g (mkFGS (f_name f) (f_regs f ++ [mkVReg true true temp_name_str]) (f_argnum f) (f_marks f)),
          zlen (f_regs f))
  end.

Definition release_temporary (g : gstate) (i : Z) : result gstate :=
  do f <- get_symbols g;
  do r <- of_opt ub_index (znth (f_regs f) i);
  if is_temp r then
    do regs <- of_opt ub_index (zupd (f_regs f) i (mkVReg false true (vname r)));
    Ok (set_symbols g (mkFGS (f_name f) regs (f_argnum f) (f_marks f)))
  else Ok g.

Fixpoint find_reg (regs : list vreg) (name : str) (i : Z) : option Z :=
  match regs with
  | [] => None
  | r :: rest => if str_eqb (vname r) name then Some i else find_reg rest name (i + 1)
  end.

Definition fetch_variable (g : gstate) (name : str) : result (gstate * Z) :=
  do f <- get_symbols g;
  match find_reg (f_regs f) name 0 with
  | Some i => Ok (g, i)
  | None =>
      Ok (set_symbols g (mkFGS (f_name f) (f_regs f ++ [mkVReg true false name]) (f_argnum f) (f_marks f)),
          zlen (f_regs f))
  end.

(* marks[name], creating a label on first mention *)
Definition ensure_mark (g : gstate) (name : str) : result (gstate * Z) :=
  do f <- get_symbols g;
  match alookup str_ltb (f_marks f) name with
  | Some l => Ok (g, l)
  | None =>
      let '(g1, l) := create_label g in
      do f1 <- get_symbols g1;
      Ok (set_symbols g1 (mkFGS (f_name f1) (f_regs f1) (f_argnum f1) (ainsert str_ltb (f_marks f1) name l)), l)
  end.

Definition child (o : option node) : result node := of_opt ub_null o.

(* strToInt(gs, c) : INTERNAL_ERROR "value ... is out of range" when >= INT_MAX; returns (int) of the long *)
Definition gen_str_to_int (g : gstate) (tok : str) : gstate * Z :=
  let v := strtol tok in
  (if INT_MAX <=? v then err g T_INTERNAL_ERROR e_range else g, wrap_int v).

Definition loop_counter_name (g : gstate) : str :=
  loopvar_p1 ++ g_fsname g ++ loopvar_p2 ++ dec_z (g_fsline g) ++ loopvar_p3 ++ dec_z (g_loops g) ++ loopvar_p4.

Definition name_INC : str := [95; 95; 73; 78; 67; 95; 95]%N.
Definition name_DEC : str := [95; 95; 68; 69; 67; 95; 95]%N.
Definition name_x0 : str := [120; 48]%N.
Definition name_root : str := [35; 114; 111; 111; 116]%N.
(* the generator's initial file state (gen.cpp, `.fs = {...}`), translated into Gen_Consts.v *)
Definition root_ctx : str := gen_root_file.
Definition root_line : Z := gen_root_line.

(* strToIntSilent(c) *)
Definition strToIntSilent_gen (tok : str) : Z := wrap_int (strtol tok).

(* emit ARG i <- arglocs[i], releasing each temporary *)
Fixpoint emit_args (g : gstate) (arglocs : list Z) (i : Z) : result gstate :=
  match arglocs with
  | [] => Ok g
  | a :: rest => do g1 <- release_temporary (emit g (IArg i a)) a; emit_args g1 rest (i + 1)
  end.

(* [legacy_neg] = pinned behaviour: -cs computed in int (undefined for INT_MIN) *)
Section Dispatch.
  Variable legacy_neg : bool.
  Variable legacy_pb : bool.

  (* dispatchValue; dispatchCallArgs is the local fix *)
  Fixpoint dispatch_value (c : node) (tgt : Z) (g : gstate) {struct c} : result gstate :=
    let g := advance_line g (n_line c) (n_file c) in
    match c with
    | Node N_NAME _ _ tok _ _ =>
        do r <- fetch_variable g tok; let '(g1, src) := r in
        Ok (emit g1 (IAdd tgt src 0))
    | Node N_NUMBER _ _ tok _ _ =>
        let '(g1, cs) := gen_str_to_int g tok in
        Ok (emit g1 (IConst tgt cs))
    | Node N_CALL _ _ _ l r =>
        do ra <-
          match r with
          | None => Ok (g, [])
          | Some rn0 =>
              (fix call_args (a : node) (acc : gstate * list Z) {struct a} : result (gstate * list Z) :=
                 match a with
                 | Node N_SPLIT _ _ _ al ar =>
                     do acc1 <- match al with None => Ok acc | Some x => call_args x acc end;
                     match ar with None => Ok acc1 | Some x => call_args x acc1 end
                 | leaf =>
                     do rt <- fetch_temporary (fst acc); let '(g1, tmp) := rt in
                     do g2 <- dispatch_value leaf tmp g1;
                     Ok (g2, snd acc ++ [tmp])
                 end) rn0 (g, [])
          end;
        let '(g1, arglocs) := ra in
        do ln <- child l;
        let funcname := n_tok ln in
        do rco <-
          (if Nat.eqb (length arglocs) 2 then
             do rn <- child r;
             do rl <- child (n_left rn);
             match n_type rl with
             | N_NAME =>
                 do rr <- child (n_right rn);
                 do rrl <- child (n_left rr);
                 Ok (match n_type rrl with N_NUMBER => Some (n_tok rrl) | _ => None end)
             | _ => Ok None
             end
           else Ok None);
        match rco, str_eqb funcname name_INC || str_eqb funcname name_DEC with
        | Some ctok, true =>
            let cs := strToIntSilent_gen ctok in
            do a0 <- of_opt ub_index (znth arglocs 0);
            if str_eqb funcname name_INC then Ok (emit g1 (IAdd tgt a0 cs))
            else
              if legacy_neg && (cs =? INT_MIN) then UB ub_overflow
              else Ok (emit g1 (IAdd tgt a0 (wrap_int (- cs))))
        | _, _ =>
            match alookup str_ltb (g_funcs g1) funcname with
            | None => Ok (err g1 T_UNKNOWN_PROGRAM_NAME e_unknown_name)
            | Some p =>
                if negb (p_argnum p =? zlen arglocs) then Ok (err g1 T_ARGSIZE_MISMATCH e_argsize)
                else
                  let g2 := emit g1 (IPrepare (p_stack_size p) (p_mi p) tgt) in
                  do g3 <- emit_args g2 arglocs 0;
                  Ok (emit g3 (IExec (p_ind p)))
            end
        end
    | _ => Ok (err g T_MALFORMED_AST e_malformed_ast)
    end.

  Definition dispatch_value_opt (c : option node) (tgt : Z) (g : gstate) : result gstate :=
    match c with None => Ok g | Some n => dispatch_value n tgt g end.

  (* dispatchArgs (repaired, D5: a repeated parameter is an error; [legacy_args] = pinned) *)
  Variable legacy_args : bool.
  Fixpoint dispatch_args_n (c : node) (g : gstate) {struct c} : result gstate :=
    match c with
    | Node N_SPLIT _ _ _ l r =>
        do g1 <- match l with None => Ok g | Some x => dispatch_args_n x g end;
        match r with None => Ok g1 | Some x => dispatch_args_n x g1 end
    | Node _ line file tok _ _ =>
        do f <- get_symbols g;
        match find_reg (f_regs f) tok 0, legacy_args with
        | Some _, false => Ok (verr g T_PARSE_ERROR e_param_twice file line)
        | _, _ =>
            let g1 := set_symbols g (mkFGS (f_name f) (f_regs f) (f_argnum f + 1) (f_marks f)) in
            do r <- fetch_variable g1 tok; Ok (fst r)
        end
    end.
  Definition dispatch_args (c : option node) (g : gstate) : result gstate :=
    match c with None => Ok g | Some n => dispatch_args_n n g end.

  Fixpoint dispatch_void (c : node) (g : gstate) {struct c} : result gstate :=
    let g := advance_line g (n_line c) (n_file c) in
    let dv := fun (o : option node) (g : gstate) => match o with None => Ok g | Some n => dispatch_void n g end in
    match c with
    | Node N_SPLIT _ _ _ l r =>
        do g1 <- match l with None => Ok g | Some n => dispatch_void n g end;
        match r with None => Ok g1 | Some n => dispatch_void n g1 end
    | Node N_PROGRAM _ _ _ l r =>
        do g0 <- remove_top_pot_break legacy_pb g;
        (* dispatchProgram *)
        let '(g1, after_label) := create_label g0 in
        let g2 := emit_backpatched g1 (IJmp after_label) in
        do ln <- child l;
        do name_node <- child (n_left ln);
        let ports := n_right ln in
        let args_node := match ports with Some p => n_left p | None => None end in
        let out_node := match ports with Some p => n_right p | None => None end in
        let g3 := push_symbols g2 (n_tok name_node) in
        do g4 <- dispatch_args args_node g3;
        let out_name := match out_node with Some o => n_tok o | None => name_x0 end in
        let entry := next_pos g4 in
        do g5 <- match r with None => Ok g4 | Some n => dispatch_void n g4 end;
        do rv <- fetch_variable g5 out_name; let '(g6, ret_val) := rv in
        let g7 := emit g6 (IRet ret_val) in
        do g8 <- pop_symbols g7 entry;
        set_label g8 after_label (next_pos g8)
    | Node N_ASSIGN _ _ _ l r =>
        do ln <- child l;
        do rv <- fetch_variable g (n_tok ln); let '(g1, tind) := rv in
        dispatch_value_opt r tind g1
    | Node N_LOOP _ _ _ l r =>
        let g0 := mkGS (g_code g) (g_maps g) (g_pb g) (g_li g) (g_errs g) (g_syms g) (g_funcs g) (g_labels g)
                       (g_todo g) (g_loops g + 1) (g_fsname g) (g_fsline g) in
        do rv <- fetch_variable g0 (loop_counter_name g0); let '(g1, counter) := rv in
        do g2 <- dispatch_value_opt l counter g1;
        let '(g3, start_label) := create_label g2 in
        let '(g4, end_label) := create_label g3 in
        do g5 <- set_label g4 start_label (next_pos g4);
        let g6 := emit_backpatched g5 (IJmpC end_label counter) in
        do g7 <- match r with None => Ok g6 | Some n => dispatch_void n g6 end;
        let g8 := emit g7 (IAdd counter counter (-1)) in
        let g9 := emit_backpatched g8 (IJmp start_label) in
        set_label g9 end_label (next_pos g9)
    | Node N_WHILE _ _ _ l r =>
        let '(g1, start_label) := create_label g in
        let '(g2, end_label) := create_label g1 in
        do rt <- fetch_temporary g2; let '(g3, cond) := rt in
        do g4 <- set_label g3 start_label (next_pos g3);
        do g5 <- dispatch_value_opt l cond g4;
        let g6 := emit_backpatched g5 (IJmpC end_label cond) in
        do g7 <- match r with None => Ok g6 | Some n => dispatch_void n g6 end;
        let g8 := emit_backpatched g7 (IJmp start_label) in
        do g9 <- set_label g8 end_label (next_pos g8);
        release_temporary g9 cond
    | Node N_MARK _ _ _ l _ =>
        do ln <- child l;
        do rm <- ensure_mark g (n_tok ln); let '(g1, lab) := rm in
        do pos <- get_mark_pos g1;
        set_label g1 lab pos
    | Node N_GOTO _ _ _ l _ =>
        do ln <- child l;
        do rm <- ensure_mark g (n_tok ln); let '(g1, lab) := rm in
        Ok (emit_backpatched g1 (IJmp lab))
    | Node N_IF _ _ _ l r =>
        do rt <- fetch_temporary g; let '(g1, cond) := rt in
        do rt <- fetch_temporary g1; let '(g2, op1) := rt in
        do rt <- fetch_temporary g2; let '(g3, op2) := rt in
        do eqn <- child l;
        do g4 <- dispatch_value_opt (n_left eqn) op1 g3;
        do g5 <- dispatch_value_opt (n_right eqn) op2 g4;
        let g6 := emit g5 (ITest cond op1 op2) in
        do gon <- child r;
        do nm <- child (n_left gon);
        do rm <- ensure_mark g6 (n_tok nm); let '(g7, lab) := rm in
        let g8 := emit_backpatched g7 (IJmpC lab cond) in
        do g9 <- release_temporary g8 cond;
        do g10 <- release_temporary g9 op1;
        release_temporary g10 op2
    | Node N_STOP _ _ _ _ _ => Ok (emit g IHalt)
    | _ => Ok (err g T_MALFORMED_AST e_malformed_ast)
    end.
End Dispatch.

Record cfgen := mkCfGen { cg_neg : bool; cg_pb : bool; cg_args : bool }.
Definition cfgen_now := mkCfGen false false false.

Record genresult := mkGenRes {
  gr_ok : bool;
  gr_errors : list gerr;
  gr_prog : program
}.

(* Theo::gen on the parse result: (parsed_correctly, errors, root) *)
Definition gen_gen (cfg : cfgen) (parsed_ok : bool) (perrs : list serr) (root : option node) : result genresult :=
  let g0 := mkGS [] [] [] [] [] [] [] [] [] 0 root_ctx root_line in
  let g1 := emit g0 (IPrepare (-1) (-1) 0) in
  let g2 := push_symbols g1 name_root in
  do g3 <-
    (if negb parsed_ok then
       Ok (fold_left (fun g e => verr g T_PARSE_ERROR (se_kind e) (se_file e) (se_line e)) perrs g2)
     else match root with
          | None => Ok g2
          | Some n => dispatch_void (cg_neg cfg) (cg_pb cfg) (cg_args cfg) n g2
          end);
  do g4 <- pop_symbols g3 0;
  do p <- of_opt ub_index (alookup str_ltb (g_funcs g4) name_root);
  do i0 <- of_opt ub_index (znth (g_code g4) 0);
  do c0 <- of_opt ub_index (zupd (g_code g4) 0 (mkI (iop i0) (p_stack_size p) (p_mi p) (ic i0)));
  let g5 := emit (upd_code g4 c0) IHalt in
  do g6 <- backpatch g5;
  Ok (mkGenRes (match g_errs g6 with [] => true | _ => false end) (g_errs g6)
               (mkProg (g_code g6) (g_maps g6) (g_pb g6) (g_li g6))).

Definition gen := gen_gen cfgen_now.
