(* Proofs_C01s4x.v — C01, stage 4: a counterexample to C01_calls_budget_unguarded_stmt as written (trees that no parse
   delivers). *)
From Coq Require Import List ZArith NArith Lia Bool.
From Theo Require Import Base Tokens Errors MacroExtract Parser VMModel VMSpec GenModel Compile RefSem RefSemChk C01Statements C01Stages Gen_Consts Proofs_VM_mem Proofs_VM_dbg Proofs_Gen0 Proofs_Gen Proofs_Sem Proofs_C01a Proofs_C01b Proofs_C01.
From Theo Require Import C01Stages3 C01Stages4 Proofs_C01s2a Proofs_C01s2b Proofs_C01s2c Proofs_C01s2d Proofs_C01s2 Proofs_C01s3a Proofs_C01s3b Proofs_C01s3c Proofs_C01s3d Proofs_C01s3
                         Proofs_C01s4a Proofs_C01s4b Proofs_C01s4c Proofs_C01s4d Proofs_C01s4e Proofs_C01s4f Proofs_C01s4g Proofs_C01s4h Proofs_C01s4i Proofs_C01s4j Proofs_C01s4k Proofs_C01s4l Proofs_C01s4m Proofs_C01s4n Proofs_C01s4o Proofs_C01s4p Proofs_C01s4q Proofs_C01s4.
From Theo Require Proofs_Front.
Import ListNotations.
Local Open Scope Z_scope.

(* ================================================================================================ *)
(* 5. without the condition on headers, C01_calls_budget_unguarded_stmt is false                              *)
(* ================================================================================================ *)
(* A tree that no parse delivers: the sequence node above the definition stands on line 1, the definition and all
   the rest on line 2.  Both traversals leave a stop for line 1 in front of the jump over the definition; the label
   l1, the first thing of the main program, is bound to that stop by the flattener and to the entry of the main
   program by the generator.  Every GOTO l1 then costs the reference machine one step more than the VM, and the
   three loops are left by GOTO before their (two-instruction) decrement is ever executed: the reference run takes 35
   steps, the VM halts after 33 instructions.
     PROGRAM p DO x0 := 1 END
     l1: LOOP a DO GOTO e1 END; a := 1; GOTO l1;
     e1: LOOP b DO GOTO e2 END; b := 1; GOTO l1;
     e2: LOOP c DO GOTO e3 END; c := 1; GOTO l1;
     e3: STOP *)
Section Counterexample.
  Let f : str := ex_name.
  Let nm (x : str) := Node N_NAME 2 f x None None.
  Let sq st rest := Node N_SPLIT 2 f [] (Some st) rest.
  Let lab l inner := Node N_SPLIT 2 f [] (Some (Node N_MARK 2 f [] (Some (nm l)) None)) (Some inner).
  Let sEND : str := [69; 78; 68]%N.
  Let loop b body := Node N_SPLIT 2 f [] (Some (Node N_LOOP 2 f [] (Some (nm b)) (Some body))) (Some (Node N_MARK 2 f [] (Some (nm sEND)) None)).
  Let goto l := Node N_GOTO 2 f [] (Some (nm l)) None.
  Let asg x c := Node N_ASSIGN 2 f [] (Some (nm x)) (Some (Node N_NUMBER 2 f c None None)).
  Let stop := Node N_STOP 2 f [] None None.
  Let sa : str := [97]%N.  Let sb : str := [98]%N.  Let sc : str := [99]%N.
  Let l1 : str := [108; 49]%N.  Let e1 : str := [101; 49]%N.  Let e2 : str := [101; 50]%N.  Let e3 : str := [101; 51]%N.
  Let one : str := [49]%N.  Let sp : str := [112]%N.  Let sx0 : str := [120; 48]%N.
  Let R3 := sq (loop sc (sq (goto e3) None)) (Some (sq (asg sc one) (Some (sq (goto l1) (Some (sq (lab e3 (sq stop None)) None)))))).
  Let R2 := sq (loop sb (sq (goto e2) None)) (Some (sq (asg sb one) (Some (sq (goto l1) (Some (sq (lab e2 R3) None)))))).
  Let R1 := sq (loop sa (sq (goto e1) None)) (Some (sq (asg sa one) (Some (sq (goto l1) (Some (sq (lab e1 R2) None)))))).
  Let defp :=
    Node N_PROGRAM 2 f [] (Some (Node N_SPLIT 2 f [] (Some (nm sp)) None))
      (Some (Node N_SPLIT 2 f [] (Some (sq (asg sx0 one) None)) (Some (Node N_MARK 2 f [] (Some (nm sEND)) None)))).

  Definition cx_root : node := Node N_SPLIT 1 f [] (Some defp) (Some (sq (lab l1 R1) None)).
End Counterexample.

Definition cx_check : bool :=
  match gen true [] (Some cx_root), abstract_source (Some cx_root) with
  | Ok r, Some rs =>
      canonical4 cx_root && lexable_names cx_root && negb (headers4 cx_root) && gr_ok r &&
      (match run_ref_chk 33 rs with OFuel => true | _ => false end) &&
      (match run_ref_chk 35 rs with OStop _ _ _ => true | _ => false end) &&
      (match vm_run 33 (init (gr_prog r)) with
       | Ok s => match isDone s with Ok true => true | _ => false end
       | _ => false
       end)
  | _, _ => false
  end.

Lemma cx_check_true : cx_check = true.
Proof. vm_compute. reflexivity. Qed.

Lemma C01_calls_budget_counterexample : ~ C01_calls_budget_unguarded_stmt.
Proof.
  intros H. pose proof cx_check_true as Cx. unfold cx_check in Cx.
  destruct (gen true [] (Some cx_root)) as [r| |] eqn:Eg; [|exfalso; cbv iota in Cx; discriminate Cx..].
  destruct (abstract_source (Some cx_root)) as [rs|] eqn:Ea; [|exfalso; cbv iota in Cx; discriminate Cx].
  apply andb_prop in Cx; destruct Cx as [Cx C7].
  apply andb_prop in Cx; destruct Cx as [Cx _].
  apply andb_prop in Cx; destruct Cx as [Cx C5].
  apply andb_prop in Cx; destruct Cx as [Cx C4].
  apply andb_prop in Cx; destruct Cx as [Cx _].
  apply andb_prop in Cx; destruct Cx as [C1 C2].
  destruct (run_ref_chk 33 rs) eqn:Er; [exfalso; discriminate C5..| |exfalso; discriminate C5].
  destruct (vm_run 33 (init (gr_prog r))) as [s| |] eqn:Ev; [|exfalso; discriminate C7..].
  destruct (isDone s) as [[|]| |] eqn:Ed; [|exfalso; discriminate C7..].
  pose proof (H cx_root r rs 33%nat s C1 C2 Eg C4 Ea Er Ev) as X. rewrite Ed in X. discriminate X.
Qed.

(* the tree of the counterexample violates exactly the extra hypothesis of C01_calls_budget_partial *)
Lemma cx_root_headers : canonical4 cx_root = true /\ lexable_names cx_root = true /\ headers4 cx_root = false.
Proof. vm_compute. auto. Qed.


Print Assumptions C01_calls_budget_counterexample.
