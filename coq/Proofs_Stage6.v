(* Proofs_Stage6.v — stage 6: C01 without the layout condition.
     C01_anylayout_proof            : C01_anylayout_stmt                       (finished runs, any layout)
     C01_every_source_finished      : the first clause of C01_every_source_unguarded_stmt (every accepted source)
     C01_anylayout_budget_partial   : C01_anylayout_budget_partial_stmt  (Proofs_C01s6q.v): the budget clause with the
                                      one extra hypothesis calls_on_line root = true
     C01_every_source_partial       : C01_every_source_partial_stmt      (Proofs_C01s6q.v): C01_every_source_unguarded_stmt with
                                      its second clause under calls_on_line root = true
   C01_anylayout_budget_unguarded_stmt and C01_every_source_unguarded_stmt themselves are FALSE: Proofs_C01s6x.v. *)
From Coq Require Import List ZArith NArith Lia Bool.
From Theo Require Import Base Tokens Errors MacroExtract Parser VMModel VMSpec GenModel Compile RefSem RefSemChk C01Statements C01Stages Gen_Consts Proofs_VM_mem Proofs_VM_dbg Proofs_Gen0 Proofs_Gen Proofs_Sem Proofs_C01a Proofs_C01b Proofs_C01.
From Theo Require Import C01Stages3 C01Stages4 NamesStatements Stage6Statements
                         Proofs_C01s2a Proofs_C01s2b Proofs_C01s2c Proofs_C01s2 Proofs_C01s3a Proofs_C01s3
                         Proofs_C01s4a Proofs_C01s4b Proofs_C01s4c Proofs_C01s4e Proofs_C01s4f Proofs_C01s4n Proofs_C01s4o Proofs_C01s4q
                         Proofs_C01s6a Proofs_C01s6c Proofs_C01s6d Proofs_C01s6e Proofs_C01s6f Proofs_C01s6o Proofs_C01s6p
                         Proofs_C01s6r Proofs_C01s6q.
From Theo Require Proofs_Stage5 Proofs_C01source Proofs_Names.
Import ListNotations.
Local Open Scope Z_scope.

(* a halted VM stays where it is *)
Lemma halted_stays s : isDone s = Ok true -> forall m, vm_run m s = Ok s.
Proof.
  intros Hd. induction m as [|m IH]; [reflexivity|]. rewrite vm_run_S.
  assert (E : exec1 s = Ok (s, true)).
  { unfold isDone in Hd. unfold exec1, exec1_gen. destruct (znth (code (prog s)) (ip s)) as [i|]; cbn [of_opt bind] in *; [|discriminate].
    destruct (iop i); try discriminate Hd. reflexivity. }
  rewrite E. cbn [bind fst]. exact IH.
Qed.

Lemma C01_anylayout_proof : C01_anylayout_stmt.
Proof.
  intros root r rs fuel rviews steps trace Hst Hh Hlex Hgen _ Habs Hrun.
  change (headers_ok root) with (headers4 root) in Hh.
  destruct (calls_setup6 (fun _ => True) (fun _ _ _ => true) root r rs
              (fun f l v _ => or_intror (fun _ _ _ _ => I)) Hst Hh Hlex Hgen Habs)
    as (RI & GB & FT & kroot & rt & pre & FT_ok & ROK & _ & HM & Hlen & Hk & Z0 & Hpre).
  set (prg := gr_prog r) in *. set (C6 := code prg) in *.
  set (N := ri_N (RI kroot)) in *. set (mi := ri_mi (RI kroot)) in *.
  pose proof (ROK _ _ Hk) as [OKk Gb0 _ _ _ _ HN]. fold N in OKk, HN.
  set (d0 := zrepeat 0 (Z.to_nat N)). set (act0 := mkAct 0 N 0 (-1) mi).
  set (s1 := vm_st (init prg) 1 d0 [act0]).
  assert (E1 : vm_run 1 (init prg) = Ok s1) by exact (st_prepare (init prg) 0 [] [] N mi 0 Z0).
  pose proof (Hpre s1 d0 eq_refl) as E2. change (vm_at s1 1 d0) with s1 in E2.
  assert (HT : Top RI C6 kroot s1 act0 []) by (repeat split).
  assert (HS : SR (ri_rm (RI kroot)) (data_start act0) N (mkRAct [] []) d0) by exact (SR_start _ _ OKk HN).
  assert (HL : LowOK rs RI (data_start act0) [] [] d0) by (split; [constructor | intros a []]).
  unfold run_ref_chk in Hrun. rewrite Hlen in Hrun.
  pose proof (sim_all6 rs RI GB C6 FT FT_ok ROK fuel kroot rt [] (mkRAct [] []) 0 0%nat [] s1 d0 act0 [] Hk HT HS HL) as HR.
  rewrite Hrun in HR. cbn [Res6] in HR. destruct HR as (n & s' & Hvm & Hdone & HFV).
  assert (Evp : vp RI GB kroot rt 0 = ri_P0 (RI kroot)).
  { unfold vp. rewrite Gb0, Z.sub_0_r. unfold pm4, pm_of4. cbn [Z.to_nat boff4]. apply Z.add_0_r. }
  rewrite Evp in Hvm.
  assert (Hall : vm_run (1 + (length pre + n)) (init prg) = Ok s').
  { eapply vm_run_trans; [exact E1|]. eapply vm_run_trans; [exact E2 | exact Hvm]. }
  assert (Hp' : prog s' = prg) by (destruct (vm_run_prog_en _ _ _ Hall) as [A _]; exact A).
  destruct (frames_views rs RI s' ltac:(rewrite Hp'; exact HM) _ _ HFV) as (vmv & Hviews & Hagree).
  exists (1 + (length pre + n) + steps)%nat, s', vmv.
  split; [eapply vm_run_trans; [exact Hall | apply halted_stays; exact Hdone]|].
  split; [exact Hdone|]. split; [exact Hviews|]. split; [exact Hagree | lia].
Qed.

(* ================================================================================================ *)
(* 2. from source text: the finished runs of every accepted source                                  *)
(* ================================================================================================ *)
Lemma C01_every_source_finished files main c p root rs :
  Forall (fun kv => lexable (fst kv) = true) files ->
  compile files main = Ok c -> cr_ok c = true ->
  parse files main = Ok p -> pr_root p = Some root ->
  abstract_source (Some root) = Some rs ->
  forall fuel rviews steps trace, run_ref_chk fuel rs = OStop rviews steps trace ->
    exists k s vmviews,
      vm_run k (init (cr_prog c)) = Ok s /\ isDone s = Ok true /\
      views s = Ok vmviews /\ Forall2 view_agrees vmviews rviews /\ (steps <= k)%nat.
Proof.
  intros Hf Hc Hok Hp Hroot Habs fuel rviews steps trace Hrun.
  destruct (Proofs_Stage5.compile_ok_inv files main c p root Hc Hok Hp Hroot) as (g & toks & Hg & Hgok & -> & Hpr).
  pose proof (Proofs_C01source.compile_ok_parse_ok files main _ p Hc Hok Hp) as PO.
  pose proof (Proofs_C01source.C01_pipeline_lexable_proof files main p root Hf Hp PO Hroot) as Hlex.
  pose proof (C01_parser_shape4_proof toks root Hpr) as Hsh.
  pose proof (parser_headers4 _ _ _ Hpr) as Hh.
  exact (C01_anylayout_proof root g rs fuel rviews steps trace Hsh Hh Hlex Hg Hgok Habs Hrun).
Qed.

(* ================================================================================================ *)
(* 3. the budget clause, for trees whose values with calls stand on the line of their assignment    *)
(* ================================================================================================ *)
Lemma C01_anylayout_budget_partial : C01_anylayout_budget_partial_stmt.
Proof.
  intros root r rs n s _ Hh Hlex Hcol Hgen _ Habs Hrun Hvm.
  change (headers_ok root) with (headers4 root) in Hh.
  destruct (calls_setup6 nocall call_on_line root r rs call_on_line_ok Hcol Hh Hlex Hgen Habs)
    as (RI & GB & FT & kroot & rt & pre & FT_ok & ROK & HW & HM & Hlen & Hk & Z0 & Hpre).
  set (prg := gr_prog r) in *. set (C6 := code prg) in *.
  set (N := ri_N (RI kroot)) in *. set (mi := ri_mi (RI kroot)) in *.
  pose proof (ROK _ _ Hk) as [OKk Gb0 _ _ _ _ HN]. fold N in OKk, HN.
  set (d0 := zrepeat 0 (Z.to_nat N)). set (act0 := mkAct 0 N 0 (-1) mi).
  set (s1 := vm_st (init prg) 1 d0 [act0]).
  assert (E1 : vm_run 1 (init prg) = Ok s1) by exact (st_prepare (init prg) 0 [] [] N mi 0 Z0).
  pose proof (Hpre s1 d0 eq_refl) as E2. change (vm_at s1 1 d0) with s1 in E2.
  assert (HT : Top RI C6 kroot s1 act0 []) by (repeat split).
  assert (HS : SR (ri_rm (RI kroot)) (data_start act0) N (mkRAct [] []) d0) by exact (SR_start _ _ OKk HN).
  assert (HL : LowOK rs RI (data_start act0) [] [] d0) by (split; [constructor | intros a []]).
  unfold run_ref_chk in Hrun. rewrite Hlen in Hrun.
  destruct n as [|f].
  - inversion Hvm; subst s. unfold isDone, init. cbn [prog ip]. fold prg. fold C6. rewrite Z0. reflexivity.
  - pose proof (sim_all6b rs RI GB C6 FT FT_ok ROK HW (S f) kroot rt [] (mkRAct [] []) 0 0%nat [] s1 d0 act0 [] Hk HT HS HL) as HR.
    rewrite Hrun in HR. cbn [Res6b] in HR. rewrite Gb0 in HR.
    destruct (HR ltac:(lia)) as (m & s' & Hm & Hvm' & Hd).
    assert (Evp : vp RI GB kroot rt 0 = ri_P0 (RI kroot)).
    { unfold vp. rewrite Gb0, Z.sub_0_r. unfold pm4, pm_of4. cbn [Z.to_nat boff4]. apply Z.add_0_r. }
    rewrite Evp in Hvm'.
    assert (Hall : vm_run (1 + (length pre + m)) (init prg) = Ok s').
    { eapply vm_run_trans; [exact E1|]. eapply vm_run_trans; [exact E2 | exact Hvm']. }
    exact (not_done_earlier (S f) (1 + (length pre + m)) _ s s' ltac:(lia) Hvm Hall Hd).
Qed.

(* ================================================================================================ *)
(* 4. from source text                                                                              *)
(* ================================================================================================ *)
Lemma C01_every_source_partial : C01_every_source_partial_stmt.
Proof.
  intros files main c p root rs Hf Hc Hok Hp Hroot Habs. split.
  - exact (C01_every_source_finished files main c p root rs Hf Hc Hok Hp Hroot Habs).
  - intros Hcol n s Hrun.
    destruct (Proofs_Stage5.compile_ok_inv files main c p root Hc Hok Hp Hroot) as (g & toks & Hg & Hgok & -> & Hpr).
    intros Hvm.
    pose proof (Proofs_C01source.compile_ok_parse_ok files main _ p Hc Hok Hp) as PO.
    pose proof (Proofs_C01source.C01_pipeline_lexable_proof files main p root Hf Hp PO Hroot) as Hlex.
    pose proof (C01_parser_shape4_proof toks root Hpr) as Hsh.
    pose proof (parser_headers4 _ _ _ Hpr) as Hh.
    exact (C01_anylayout_budget_partial root g rs n s Hsh Hh Hlex Hcol Hg Hgok Habs Hrun Hvm).
Qed.

Print Assumptions C01_anylayout_proof.
Print Assumptions C01_every_source_finished.
Print Assumptions C01_anylayout_budget_partial.
Print Assumptions C01_every_source_partial.
