(* ApplyCompleteStatements.v — completeness of macro detection (C09) and the unbounded rejection families (C12),
   consequences of the completeness of the generated LR(1) parsers (C13_complete_full, C13_complete_prefix). *)
From Coq Require Import Sorting.Sorted.
From Theo Require Import Base Tokens Errors MacroExtract Grammar LR Gen_MacroGrammar Gen_Consts MacroApply SpecMacro
                         CompileStatements ApplyStatements MacroStatements.
Local Open Scope Z_scope.

(* the declarative meaning of "this list of sub-ranges is an occurrence of the macro's pattern" (the conclusion of
   C09_detect_sound, as a definition): one sub-range per pattern symbol; a literal is one token of its kind, a slot a
   range that derives from the slot's non-terminal; constrained literals also agree in text *)
Definition matches_parts (m : macrodef) (parts : list (list token)) : Prop :=
  length parts = length (m_rule m) /\
  (forall i p range, nth_error (m_rule m) i = Some p -> nth_error parts i = Some range ->
      match slot_nonterminal (tk p) with
      | Some n => Derives base_grammar (Nt (N.of_nat n)) (kinds range)
      | None => exists t, range = [t] /\ tk t = tk p
      end) /\
  (forall c p, In c (m_cc m) -> znth (m_rule m) c = Some p ->
      exists t, znth parts c = Some [t] /\ ttext t = ttext p).

(* an occurrence at position loc of the stream, followed by at least one more token (the stream ends in T_EOF) *)
Definition occurs_at (m : macrodef) (input : list token) (loc : nat) (parts : list (list token)) : Prop :=
  matches_parts m parts /\ (loc <= length input)%nat /\
  exists tok rest, skipn loc input = concat parts ++ tok :: rest.

(* a usable detector finds every occurrence: it reports one at or before any occurrence, and at that position the
   occurrence is unique (so "longest" is decided by uniqueness) *)
Definition C09_detect_complete_unguarded_stmt : Prop :=
  forall m d input res loc parts,
    macro_ok m -> make_detector m = Ok d -> d_conflicts d = [] ->
    detect d input = Ok res ->
    occurs_at m input loc parts ->
    exists r, res = Some r /\ r_location r <= Z.of_nat loc /\
              (r_location r = Z.of_nat loc -> r_matched r = parts /\ r_length r = zlen (concat parts)).

(* the step taken beats every occurrence of every usable macro: higher priority, then further left, then longer *)
Definition C09_best_unguarded_stmt : Prop :=
  forall defs errs bins input pass out,
    Forall macro_ok defs -> prepare defs = Ok (errs, bins) ->
    try_bins false bins input pass = Ok (Some out) ->
    exists c, reported bins input c /\ rewrite_with input c pass out /\
      forall p ds d' loc' parts', In (p, ds) bins -> In d' ds ->
        occurs_at (d_macro d') input loc' parts' ->
        p < prio c \/
        (p = prio c /\ (loc c < Z.of_nat loc' \/ (loc c = Z.of_nat loc' /\ zlen (concat parts') <= len c))).

(* rewriting stops only when no pattern of a usable macro occurs anywhere *)
Definition C09_none_complete_unguarded_stmt : Prop :=
  forall defs errs bins input pass,
    Forall macro_ok defs -> prepare defs = Ok (errs, bins) ->
    try_bins false bins input pass = Ok None ->
    forall p ds d' loc' parts', In (p, ds) bins -> In d' ds -> ~ occurs_at (d_macro d') input loc' parts'.


(* ---- the statements that hold: streams without tokens of kind UNKNOWN ------------------------------------ *)
(* The three statements above are FALSE as written (refuted in Proofs_ApplyComplete.v): the detector tables have no
   column for the token kind UNKNOWN unless the pattern mentions it, so an occurrence directly followed by an
   UNKNOWN token is not seen.  The scanner never produces that kind (every rule of lexer.l names another kind, and
   the unknown-character rule yields NV_ID), so for every stream of the pipeline the statements hold as follows. *)
Definition no_unknown (input : list token) : Prop := Forall (fun t => tk t <> UNKNOWN) input.

Definition C09_detect_complete_stmt : Prop :=
  forall m d input res loc parts,
    macro_ok m -> make_detector m = Ok d -> d_conflicts d = [] ->
    no_unknown input ->
    detect d input = Ok res ->
    occurs_at m input loc parts ->
    exists r, res = Some r /\ r_location r <= Z.of_nat loc /\
              (r_location r = Z.of_nat loc -> r_matched r = parts /\ r_length r = zlen (concat parts)).

Definition C09_best_stmt : Prop :=
  forall defs errs bins input pass out,
    Forall macro_ok defs -> prepare defs = Ok (errs, bins) ->
    no_unknown input ->
    try_bins false bins input pass = Ok (Some out) ->
    exists c, reported bins input c /\ rewrite_with input c pass out /\
      forall p ds d' loc' parts', In (p, ds) bins -> In d' ds ->
        occurs_at (d_macro d') input loc' parts' ->
        p < prio c \/
        (p = prio c /\ (loc c < Z.of_nat loc' \/ (loc c = Z.of_nat loc' /\ zlen (concat parts') <= len c))).

Definition C09_none_complete_stmt : Prop :=
  forall defs errs bins input pass,
    Forall macro_ok defs -> prepare defs = Ok (errs, bins) ->
    no_unknown input ->
    try_bins false bins input pass = Ok None ->
    forall p ds d' loc' parts', In (p, ds) bins -> In d' ds -> ~ occurs_at (d_macro d') input loc' parts'.

Definition C09_complete_needs_no_unknown_stmt : Prop :=
  ~ C09_detect_complete_unguarded_stmt /\ ~ C09_best_unguarded_stmt /\ ~ C09_none_complete_unguarded_stmt.

(* ===== C12: patterns that are not prefix-deterministic are rejected, for ALL patterns =============== *)
(* if one occurrence of the pattern is a proper prefix of another, the detector has a conflict *)
Definition C12_not_prefix_free_rejected_stmt : Prop :=
  forall m d parts1 parts2 extra,
    macro_ok m -> make_detector m = Ok d ->
    matches_parts m parts1 -> matches_parts m parts2 ->
    concat parts2 = concat parts1 ++ extra -> extra <> [] ->
    is_usable d = false.

(* every pattern that ends in a statement-sequence or argument-list slot is rejected *)
Definition C12_open_ended_stmt : Prop :=
  forall m d pre p,
    macro_ok m -> make_detector m = Ok d -> m_rule m = pre ++ [p] ->
    (tk p = PROG_TEMP \/ tk p = ARGS_TEMP) ->
    is_usable d = false.

(* ... and every pattern that ends in `<P> ;` or `<ARGS> ,` *)
Definition C12_trailing_sep_stmt : Prop :=
  forall m d pre p q,
    macro_ok m -> make_detector m = Ok d -> m_rule m = pre ++ [p; q] ->
    ((tk p = PROG_TEMP /\ tk q = PROGSEP) \/ (tk p = ARGS_TEMP /\ tk q = ARGSEP)) ->
    is_usable d = false.
