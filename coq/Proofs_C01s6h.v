(* Proofs_C01s6h.v — C01, stage 6 (any layout), part 3: the STATIC part, primitive steps inside one routine.
   The joint invariant J6: J4 of Proofs_C01s4h.v over the components of Proofs_C01s6g.v, with the number gh of sites
   that have been placed inside the code of the value under construction.  The primitive steps that do not touch gh
   are those of Proofs_C01s4h.v, word for word; new are the site inside a value (L6_ghost) and the closing of a
   block with its sites (L6_bemit). *)
From Coq Require Import List ZArith NArith Lia Bool.
From Theo Require Import Base Tokens Errors MacroExtract Parser VMModel VMSpec GenModel Compile RefSem RefSemChk C01Statements C01Stages Gen_Consts Proofs_VM_mem Proofs_VM_dbg Proofs_Gen0 Proofs_Gen Proofs_Sem Proofs_C01a Proofs_C01b Proofs_C01 Proofs_C01s2a Proofs_C01s2b Proofs_C01s2c Proofs_C01s2 Proofs_C01s3a Proofs_C01s3b Proofs_C01s3c Proofs_C01s4a Proofs_C01s4b Proofs_C01s4g Proofs_C01s6a Proofs_C01s6g.
Import ListNotations.
Local Open Scope Z_scope.

Section Joint6.
  Variable P0 : Z.
  Variable FT : ftab.
  Variable LS : list Z.
  Variable W : rvalue -> Prop.

  Definition J6 (gh : Z) (g : gstate) (s : fstate) (lmap : list Z) (p : Z) : Prop :=
    g_syms g <> [] /\
    JB6 P0 FT LS W (g_code g) (gks g) (gmarks g) (g_labels g) (g_todo g) (g_loops g)
          (b_code (f_cur s)) (b_labels (f_cur s)) (b_targets (f_cur s)) (b_vars (f_cur s)) lmap p gh /\
    f_pos s = gpos g /\ f_loops s = g_loops g.

  Lemma JB6_intro code ks marks labels todo L rcode blabels targets vars lmap p gh :
    (exists gbl, JC6 P0 FT W code ks marks todo lmap rcode gbl p gh /\ JG gbl targets blabels) ->
    JL4 P0 LS labels marks blabels targets lmap rcode -> JT todo code ->
    RW ks L -> JV ks vars -> 0 <= L -> 0 <= p ->
    JB6 P0 FT LS W code ks marks labels todo L rcode blabels targets vars lmap p gh.
  Proof. unfold JB6. tauto. Qed.

  (* ---- the steps that leave the sites of the value under construction alone ---- *)
  Section SameGh.
  Variable gh : Z.
  Notation J4 := (J6 gh).
  Notation JB6_ks := (JB6_ks P0 FT LS W).
  Notation JB6_emit := (JB6_emit P0 FT LS W).
  Notation JB6_emit_bp := (JB6_emit_bp P0 FT LS W).
  Notation JB6_newlab := (JB6_newlab P0 FT LS W).
  Notation JB6_labels := (JB6_labels P0 FT LS W).
  Notation JL4_blabels := (JL4_blabels P0 LS).
  Notation JL4_mark_new := (JL4_mark_new P0 LS).

  (* a change of the register table only *)
  Lemma J6_regs g s lmap p g1 s1 :
    J4 g s lmap p -> Same g g1 -> g_syms g1 <> [] -> kext (gks g) (gks g1) ->
    RW (gks g1) (g_loops g) -> JV (gks g1) (b_vars (f_cur s1)) ->
    b_code (f_cur s1) = b_code (f_cur s) -> b_labels (f_cur s1) = b_labels (f_cur s) ->
    b_targets (f_cur s1) = b_targets (f_cur s) ->
    f_pos s1 = f_pos s -> f_loops s1 = f_loops s ->
    J4 g1 s1 lmap p.
  Proof.
    intros (H0 & HB & Hp & Hl) [S1 S2 S3 S4 S5 S6] Hs Hk HR HV E1 E1b E2 E3 E4.
    split; [exact Hs|]. split; [|split; congruence].
    rewrite S1, S2, S3, S4, S6, E1, E1b, E2. eapply JB6_ks; eauto. apply HB.
  Qed.

  (* ---- fetch_variable on a user variable, mention on the other side ---- *)
  Lemma L6_var g s lmap p x : lexable x = true -> J4 g s lmap p ->
    exists g1, fetch_variable g x = Ok (g1, ks_ix (gks g) x) /\
      J4 g1 (with_cur s (mention (f_cur s) x)) lmap p /\ Ext g g1 /\ Same g g1 /\
      FExt s (with_cur s (mention (f_cur s) x)) /\ RV g1 x (ks_ix (gks g) x) /\
      (forall t r, znth (gregs g) t = Some r -> znth (gregs g1) t = Some r).
  Proof.
    intros Hx HJ. pose proof HJ as (H0 & HB & Hp & Hl).
    destruct (g_syms g) as [|f tl] eqn:Es; [contradiction|].
    rewrite (fetch_variable_eq g f tl x Es). eexists; split; [reflexivity|].
    assert (HF : FExt s (with_cur s (mention (f_cur s) x))).
    { split; [reflexivity|]. split; [reflexivity|]. cbn [with_cur f_cur]. rewrite b_name_mention, b_params_mention. auto. }
    destruct HB as (HC & HL & HT & HR & HV & HL0 & Hp0).
    pose proof (JV_add_user _ _ x Hx HV) as HV'. pose proof (RW_add_user _ _ x Hx HR) as HR'.
    pose proof (frk_ks_add (gks g) x) as Hfx.
    unfold ks_add in HV', HR', Hfx. destruct (frk (gks g) x 0) as [i|] eqn:E.
    - split; [|split; [apply Ext_refl; rewrite Es; discriminate|split; [apply Same_refl|split; [exact HF|split; [split; auto|auto]]]]].
      eapply J6_regs; [exact HJ | apply Same_refl | rewrite Es; discriminate | apply kext_refl | exact HR' | | | | | |];
        cbn [with_cur f_cur f_pos f_loops]; try reflexivity.
      + rewrite b_vars_mention. exact HV'.
      + apply b_code_mention.
      + apply b_labels_mention.
      + apply b_targets_mention.
    - destruct (upd_regs_facts g f tl (f_regs f ++ [mkVReg true false x]) Es) as (HS & HG & HE).
      set (g1 := upd_syms g _) in *.
      assert (Hk0 : map key (f_regs f ++ [mkVReg true false x]) = gks g ++ [(x, false)]).
      { rewrite map_app. unfold gks, gregs. rewrite Es. reflexivity. }
      assert (Hks : gks g1 = gks g ++ [(x, false)]).
      { unfold gks at 1. rewrite HG. exact Hk0. }
      split; [|split; [apply HE; rewrite Hk0; apply kext_app
                      |split; [exact HS|split; [exact HF|split]]]].
      + eapply J6_regs; [exact HJ | exact HS | discriminate | rewrite Hks; apply kext_app | rewrite Hks; exact HR' | | | | | |];
          cbn [with_cur f_cur f_pos f_loops]; try reflexivity.
        * rewrite Hks, b_vars_mention. exact HV'.
        * apply b_code_mention.
        * apply b_labels_mention.
        * apply b_targets_mention.
      + unfold RV. rewrite Hks. split; [exact Hx | exact Hfx].
      + intros t r Hz. rewrite HG. unfold gregs in Hz. rewrite Es in Hz. apply znth_app_some; exact Hz.
  Qed.

  (* ---- the hidden counter of a LOOP ---- *)
  Lemma L6_cnt g s lmap p : J4 g s lmap p ->
    exists g1 c, fetch_variable (loops_incr g) (loop_counter_name (loops_incr g)) = Ok (g1, c) /\
      J4 g1 (mkF (f_done s) (f_names s) (f_cur s) (f_pos s) (f_loops s + 1)) lmap p /\ Ext g g1 /\
      RC g1 (g_loops g + 1) c /\
      g_code g1 = g_code g /\ gpos g1 = gpos g /\ g_loops g1 = g_loops g + 1.
  Proof.
    intros HJ. pose proof HJ as (H0 & HB & Hp & Hl).
    destruct (g_syms g) as [|f tls] eqn:Es; [contradiction|].
    assert (Es0 : g_syms (loops_incr g) = f :: tls) by exact Es.
    rewrite (fetch_variable_eq _ f tls _ Es0). rewrite loop_counter_name_eq.
    change (g_fsname (loops_incr g)) with (g_fsname g). change (g_fsline (loops_incr g)) with (g_fsline g).
    change (g_loops (loops_incr g)) with (g_loops g + 1). change (gks (loops_incr g)) with (gks g).
    destruct HB as (HC & HL & HT & HR & HV & HL0 & Hp0).
    set (nm := cname (g_fsname g) (g_fsline g) (g_loops g + 1)).
    pose proof (RW_cnt_fresh _ _ (g_fsname g) (g_fsline g) HR) as Hfr. fold nm in Hfr.
    unfold ks_ix. rewrite Hfr.
    set (g1 := upd_syms (loops_incr g) _).
    assert (Hks : gks g1 = gks g ++ [(nm, false)]).
    { unfold gks, gregs, g1. cbn [g_syms upd_syms f_regs]. rewrite map_app. rewrite Es. reflexivity. }
    exists g1, (zlen (gks g)). split; [reflexivity|].
    assert (HR' : RW (gks g1) (g_loops g + 1)) by (rewrite Hks; apply RW_add_cnt; assumption).
    assert (HV' : JV (gks g1) (b_vars (f_cur s))) by (rewrite Hks; apply JV_add_nonlex; [apply cname_not_lexable | assumption]).
    split; [|split; [|split]].
    - split; [discriminate|]. split; [|split; [exact Hp | cbn [f_loops g1 upd_syms loops_incr g_loops]; lia]].
      assert (Em : gmarks g1 = gmarks g) by (unfold gmarks, g1; cbn [g_syms upd_syms f_marks]; rewrite Es; reflexivity).
      rewrite Em. cbn [f_cur].
      change (g_code g1) with (g_code g). change (g_labels g1) with (g_labels g). change (g_todo g1) with (g_todo g).
      change (g_loops g1) with (g_loops g + 1).
      eapply JB6_ks; [apply JB6_intro; eassumption | rewrite Hks; apply kext_app | exact HR' | exact HV' | lia].
    - split; [rewrite Hks; apply kext_app|]. split; [apply nil_ex|]. split; [reflexivity|]. split; [reflexivity|].
      exists f, (mkFGS (f_name f) (f_regs f ++ [mkVReg true false nm]) (f_argnum f) (f_marks f)), tls. auto.
    - unfold RC. rewrite Hks. cbn [RMof rm_cnt]. split; [lia|]. exists (g_fsname g), (g_fsline g).
      fold nm. rewrite frk_snoc, Hfr, str_eqb_refl. reflexivity.
    - auto.
  Qed.

  (* ---- temporaries ---- *)
  Lemma L6_tmp g s lmap p : J4 g s lmap p ->
    exists g1 t, fetch_temporary g = Ok (g1, t) /\ J4 g1 s lmap p /\ Ext g g1 /\ Same g g1 /\ RT g1 t /\
      (exists r, znth (gregs g1) t = Some r /\ in_use r = true) /\
      (forall t' r', znth (gregs g) t' = Some r' -> in_use r' = true ->
                     t' <> t /\ exists r'', znth (gregs g1) t' = Some r'' /\ in_use r'' = true).
  Proof.
    intros HJ. pose proof HJ as (H0 & HB & Hp & Hl).
    destruct (g_syms g) as [|f tls] eqn:Es; [contradiction|].
    destruct HB as (HC & HL & HT & HR & HV & HL0 & Hp0).
    unfold fetch_temporary, get_symbols. rewrite Es. cbn [hd_error of_opt bind].
    assert (Eg : gregs g = f_regs f) by (unfold gregs; rewrite Es; reflexivity).
    destruct (find_free_temp (f_regs f) 0) as [i|] eqn:Ef.
    - destruct (fft_spec _ _ _ Ef) as (r & Hz & Ht & Hu). rewrite Z.sub_0_r in Hz.
      rewrite Hz. cbn [of_opt bind].
      destruct (zupd_ex (f_regs f) i (mkVReg true (is_temp r) (vname r)) (znth_some_range _ _ _ Hz)) as [regs' Hup].
      rewrite Hup. cbn [of_opt bind]. unfold set_symbols. rewrite Es. cbn [tl].
      destruct (upd_regs_facts g f tls regs' Es) as (HS & HG & HE).
      set (g1 := upd_syms g _) in *.
      assert (Hks : gks g1 = gks g).
      { unfold gks. rewrite HG, Eg. exact (map_key_upd _ _ r (mkVReg true (is_temp r) (vname r)) _ Hz eq_refl Hup). }
      exists g1, i. split; [reflexivity|].
      split; [eapply J6_regs; [exact HJ | exact HS | discriminate | rewrite Hks; apply kext_refl | rewrite Hks; exact HR
                             | rewrite Hks; exact HV | | | | |]; reflexivity|].
      split; [apply HE; fold (gks g); rewrite <- Hks; unfold gks; rewrite HG; apply kext_refl|].
      split; [exact HS|]. split; [|split].
      + unfold RT. rewrite Hks. cbn [RMof rm_tmp]. exists (vname r). unfold gks. rewrite Eg, znth_map, Hz. cbn.
        unfold key. rewrite Ht. reflexivity.
      + rewrite HG. eexists. rewrite (znth_zupd _ _ _ _ Hup), Z.eqb_refl. split; reflexivity.
      + intros t' r' Hz' Hu'. rewrite Eg in Hz'. assert (t' <> i) by (intros ->; congruence). split; [assumption|].
        exists r'. rewrite HG, (znth_zupd _ _ _ _ Hup). destruct (Z.eqb_spec t' i); [contradiction|]. auto.
    - unfold set_symbols. rewrite Es. cbn [tl].
      destruct (upd_regs_facts g f tls (f_regs f ++ [mkVReg true true temp_name_str]) Es) as (HS & HG & HE).
      set (g1 := upd_syms g _) in *.
      assert (Hk0 : map key (f_regs f ++ [mkVReg true true temp_name_str]) = gks g ++ [(temp_name_str, true)]).
      { rewrite map_app. unfold gks. rewrite Eg. reflexivity. }
      assert (Hks : gks g1 = gks g ++ [(temp_name_str, true)]) by (unfold gks at 1; rewrite HG; exact Hk0).
      exists g1, (zlen (f_regs f)). split; [reflexivity|].
      split; [eapply J6_regs; [exact HJ | exact HS | discriminate | rewrite Hks; apply kext_app
                             | rewrite Hks; apply RW_add_tmp; exact HR
                             | rewrite Hks; apply JV_add_nonlex; [apply temp_not_lexable | exact HV] | | | | |]; reflexivity|].
      split; [apply HE; rewrite Hk0; apply kext_app|].
      split; [exact HS|]. split; [|split].
      + unfold RT. rewrite Hks. cbn [RMof rm_tmp]. exists temp_name_str.
        replace (zlen (f_regs f)) with (zlen (gks g)) by (unfold gks; rewrite Eg; apply zlen_map).
        apply znth_app_last.
      + rewrite HG. eexists. rewrite znth_app_last. split; reflexivity.
      + intros t' r' Hz' Hu'. rewrite Eg in Hz'. pose proof (znth_some_range _ _ _ Hz'). split; [lia|].
        exists r'. rewrite HG. split; [apply znth_app_some; exact Hz' | exact Hu'].
  Qed.

  Lemma L6_rel g s lmap p t : J4 g s lmap p -> RT g t ->
    exists g1, release_temporary g t = Ok g1 /\ J4 g1 s lmap p /\ Ext g g1 /\ Same g g1.
  Proof.
    intros HJ (n & Hn). pose proof HJ as (H0 & HB & Hp & Hl).
    destruct (g_syms g) as [|f tls] eqn:Es; [contradiction|].
    destruct HB as (HC & HL & HT & HR & HV & HL0 & Hp0).
    assert (Eg : gregs g = f_regs f) by (unfold gregs; rewrite Es; reflexivity).
    unfold gks in Hn. rewrite Eg, znth_map in Hn.
    destruct (znth (f_regs f) t) as [r|] eqn:Hz; [|discriminate]. cbn in Hn. inversion Hn as [[E1 E2]].
    unfold release_temporary, get_symbols. rewrite Es. cbn [hd_error of_opt bind]. rewrite Hz. cbn [of_opt bind].
    rewrite E2.
    destruct (zupd_ex (f_regs f) t (mkVReg false true (vname r)) (znth_some_range _ _ _ Hz)) as [regs' Hup].
    rewrite Hup. cbn [of_opt bind]. unfold set_symbols. rewrite Es. cbn [tl].
    destruct (upd_regs_facts g f tls regs' Es) as (HS & HG & HE).
    set (g1 := upd_syms g _) in *.
    assert (Hks : gks g1 = gks g).
    { unfold gks. rewrite HG, Eg. refine (map_key_upd _ _ r _ _ Hz _ Hup). unfold key; cbn; rewrite E2; reflexivity. }
    exists g1. split; [reflexivity|].
    split; [eapply J6_regs; [exact HJ | exact HS | discriminate | rewrite Hks; apply kext_refl | rewrite Hks; exact HR
                           | rewrite Hks; exact HV | | | | |]; reflexivity|].
    split; [apply HE; fold (gks g); rewrite <- Hks; unfold gks; rewrite HG; apply kext_refl | exact HS].
  Qed.

  (* ---- emitting ---- *)
  Lemma L6_emit g s lmap p ins : J4 g s lmap p -> J4 (emit g ins) s lmap (p + 1) /\ Ext g (emit g ins).
  Proof.
    intros (H0 & HB & Hp & Hl). split; [|apply Ext_emit; exact H0].
    split; [exact H0|]. split; [|split; assumption]. apply JB6_emit. exact HB.
  Qed.

  Lemma L6_emit_bp g s lmap p ins : J4 g s lmap p ->
    J4 (emit_backpatched g ins) s lmap (p + 1) /\ Ext g (emit_backpatched g ins) /\
    In (zlen (g_code g)) (g_todo (emit_backpatched g ins)).
  Proof.
    intros (H0 & HB & Hp & Hl).
    assert (Et : g_todo (emit_backpatched g ins) = g_todo g ++ [zlen (g_code g)]).
    { unfold emit_backpatched, next_pos. cbn [upd_todo g_todo emit upd_code g_code]. rewrite zlen_snoc. f_equal. f_equal. lia. }
    split; [|split].
    - split; [exact H0|]. split; [|split; assumption]. rewrite Et.
      change (g_code (emit_backpatched g ins)) with (g_code g ++ [ins]). apply JB6_emit_bp. exact HB.
    - split; [apply kext_refl|]. split; [eexists; reflexivity|]. split; [reflexivity|]. split; [reflexivity|].
      change (g_syms (emit_backpatched g ins)) with (g_syms g).
      destruct (g_syms g) as [|f tls]; [contradiction|]. exists f, f, tls. auto.
    - rewrite Et. apply in_or_app. right. left. reflexivity.
  Qed.

  (* ---- labels and targets ---- *)
  Lemma L6_newlab g s lmap p : J4 g s lmap p ->
    J4 (fst (create_label g)) (with_cur s (fst (new_target (f_cur s)))) (lmap ++ [zlen (g_labels g)]) p /\
    Ext g (fst (create_label g)) /\ FExt s (with_cur s (fst (new_target (f_cur s)))) /\
    znth (lmap ++ [zlen (g_labels g)]) (zlen (b_targets (f_cur s))) = Some (zlen (g_labels g)).
  Proof.
    intros (H0 & HB & Hp & Hl). split; [|split; [|split; [repeat split|]]].
    - split; [exact H0|]. split; [|split; assumption].
      cbn [create_label fst with_cur f_cur new_target b_code b_labels b_targets b_vars].
      apply JB6_newlab. exact HB.
    - split; [apply kext_refl|]. split; [apply nil_ex|]. split; [reflexivity|]. split; [reflexivity|].
      cbn [create_label fst upd_labels g_syms]. destruct (g_syms g) as [|f tls]; [contradiction|]. exists f, f, tls. auto.
    - destruct HB as (_ & [E _ _ _ _ _ _] & _). rewrite <- E. apply znth_app_last.
  Qed.

  (* ---- source labels ---- *)
  (* a jump mentions a label: ensure_mark on one side, touch_label on the other *)
  Lemma L6_ensure g s lmap p nm : J4 g s lmap p ->
    exists g1 lab, ensure_mark g nm = Ok (g1, lab) /\
      J4 g1 (with_cur s (touch_label (f_cur s) nm)) lmap p /\ Ext g g1 /\
      FExt s (with_cur s (touch_label (f_cur s) nm)) /\
      alookup str_ltb (gmarks g1) nm = Some lab /\
      g_code g1 = g_code g /\ g_todo g1 = g_todo g /\ gpos g1 = gpos g /\ gks g1 = gks g.
  Proof.
    intros (H0 & HB & Hp & Hl).
    destruct (g_syms g) as [|f tls] eqn:Es; [contradiction|].
    assert (Egm : gmarks g = f_marks f) by (unfold gmarks; rewrite Es; reflexivity).
    destruct (touch_label_fields (f_cur s) nm) as (T1 & T2 & T3 & T4 & T5).
    assert (HF : FExt s (with_cur s (touch_label (f_cur s) nm))).
    { split; [reflexivity|]. split; [reflexivity|]. cbn [with_cur f_cur]. auto. }
    unfold ensure_mark, get_symbols. rewrite Es. cbn [hd_error of_opt bind].
    destruct (alookup str_ltb (f_marks f) nm) as [l|] eqn:El.
    - exists g, l. split; [reflexivity|]. split; [|split; [apply Ext_refl; rewrite Es; discriminate|split; [exact HF|]]].
      + split; [rewrite Es; discriminate|]. split; [|split; assumption]. cbn [with_cur f_cur]. rewrite T1, T2, T3.
        eapply JB6_labels; [exact HB | | apply mle_refl | intros k; apply label_pos_touch].
        eapply JL4_blabels; [apply HB|]. intros k. apply label_pos_touch.
      + rewrite Egm. auto.
    - cbn [create_label]. cbn [upd_labels g_syms hd_error of_opt bind]. rewrite Es.
      cbn [hd_error of_opt bind f_name f_regs f_argnum f_marks]. unfold set_symbols. cbn [upd_labels g_syms]. rewrite Es. cbn [tl].
      eexists _, _. split; [reflexivity|].
      set (g1 := upd_syms (upd_labels g (g_labels g ++ [-1])) _).
      assert (Ek : gks g1 = gks g) by (unfold gks, gregs, g1; cbn [upd_labels upd_syms g_syms f_regs]; rewrite Es; reflexivity).
      assert (Em : gmarks g1 = ainsert str_ltb (gmarks g) nm (zlen (g_labels g))).
      { unfold gmarks at 1, g1. cbn [upd_labels upd_syms g_syms f_marks]. rewrite Egm. reflexivity. }
      rewrite <- Egm in El.
      split; [|split; [|split; [exact HF|]]].
      + split; [discriminate|]. split; [|split; assumption]. cbn [with_cur f_cur]. rewrite T1, T2, T3, Ek, Em.
        change (g_code g1) with (g_code g). change (g_labels g1) with (g_labels g ++ [-1]).
        change (g_todo g1) with (g_todo g). change (g_loops g1) with (g_loops g).
        eapply JB6_labels; [exact HB | | apply mle_insert; exact El | intros k; apply label_pos_touch].
        eapply JL4_blabels; [apply JL4_mark_new; [apply HB | exact El]|]. intros k. apply label_pos_touch.
      + split; [rewrite Ek; apply kext_refl|]. split; [apply nil_ex|]. split; [reflexivity|]. split; [reflexivity|].
        unfold g1. cbn [upd_labels upd_syms g_syms]. rewrite Es. eexists f, _, tls. repeat split; reflexivity.
      + rewrite Em, str_lookup_insert, (proj2 (str_keqb_eq nm nm) eq_refl). auto.
  Qed.

  End SameGh.

  Notation JB6_bemit := (JB6_bemit P0 FT LS W).
  Notation JB6_emit := (JB6_emit P0 FT LS W).
  Notation JB6_ghost := (JB6_ghost P0 FT LS W).
  Notation JB6_setlab := (JB6_setlab P0 FT LS W).
  Notation JB6_mark := (JB6_mark P0 FT LS W).
  Notation JL4_mark_set := (JL4_mark_set P0 LS).
  Notation mark_sync6 := (mark_sync6 P0 FT LS W).

  (* ---- closing a block: the instruction of a statement, with the gh sites of its values inside ---- *)
  Lemma L6_bemit gh g s lmap p i : J6 gh g s lmap p -> blen4 i = p -> side6 W gh i ->
    imatch6 (RMof (gks g)) (g_code g) FT (jpre3 lmap (gmarks g) (g_todo g)) (zlen (g_code g) - p - gh) gh i ->
    J6 0 g (with_cur s (bemit (f_cur s) i)) lmap 0 /\ FExt s (with_cur s (bemit (f_cur s) i)).
  Proof.
    intros (H0 & HB & Hp & Hl) Hb Hside Hi. split; [|repeat split].
    split; [exact H0|]. split; [|split; assumption]. cbn [with_cur f_cur bemit b_code b_labels b_targets b_vars].
    eapply JB6_bemit; eauto.
  Qed.

  (* ---- a site inside a value: the POTENTIAL_BREAK goes into the block, the RSite in front of the instruction ---- *)
  Lemma L6_ghost gh g s lmap p line file : J6 gh g s lmap p ->
    exists dl, (dl = 0 \/ dl = 1) /\
      J6 (gh + dl) (advance_line g line file) (move_to s file line) lmap p /\
      Ext g (advance_line g line file) /\ FExt s (move_to s file line) /\
      g_syms (advance_line g line file) = g_syms g /\
      g_code (advance_line g line file) = g_code g ++ (if dl =? 1 then [IPotentialBreak] else []).
  Proof.
    intros HJ. pose proof HJ as (H0 & HB & Hp & Hl).
    assert (Hmoved : forall F, F = file ->
      J6 (gh + 1) (breakpoint (upd_fs g F line))
        (mkF (f_done s) (f_names s) (bemit (f_cur s) (RSite (file, line))) (file, line) (f_loops s)) lmap p /\
      Ext g (breakpoint (upd_fs g F line)) /\
      FExt s (mkF (f_done s) (f_names s) (bemit (f_cur s) (RSite (file, line))) (file, line) (f_loops s))).
    { intros F ->. split; [|split; [|repeat split]].
      - split; [exact H0|]. split; [|split; [reflexivity | exact Hl]].
        cbn [f_cur bemit b_code b_labels b_targets b_vars].
        change (g_code (breakpoint (upd_fs g file line))) with (g_code g ++ [IPotentialBreak]).
        apply JB6_ghost. exact HB.
      - split; [apply kext_refl|]. split; [eexists; reflexivity|]. split; [reflexivity|]. split; [reflexivity|].
        change (g_syms (breakpoint (upd_fs g file line))) with (g_syms g).
        destruct (g_syms g) as [|f tls]; [contradiction|]. exists f, f, tls. auto. }
    assert (Hsame : J6 (gh + 0) g s lmap p /\ Ext g g /\ FExt s s).
    { rewrite Z.add_0_r. split; [exact HJ|split; [apply Ext_refl; exact H0 | apply FExt_refl]]. }
    unfold advance_line, move_to. rewrite Hp. unfold gpos. cbn [fst snd].
    destruct (str_eqb file hidden_file) eqn:E1.
    { exists 0. destruct Hsame as (A & B & Cc). cbn [Z.eqb]. rewrite app_nil_r. auto 10. }
    destruct (str_eqb (g_fsname g) file) eqn:E2.
    - apply str_eqb_eq in E2. rewrite (Z.eqb_sym line). destruct (g_fsline g =? line) eqn:E3; cbn [andb].
      + exists 0. destruct Hsame as (A & B & Cc). cbn [Z.eqb]. rewrite app_nil_r. auto 10.
      + exists 1. destruct (Hmoved _ E2) as (A & B & Cc). cbn [Z.eqb Pos.eqb]. auto 10.
    - cbn [andb]. exists 1. destruct (Hmoved _ eq_refl) as (A & B & Cc). cbn [Z.eqb Pos.eqb]. auto 10.
  Qed.

  (* ---- sites ---- *)
  Lemma L6_site g s lmap line file : (J6 0) g s lmap 0 ->
    (J6 0) (advance_line g line file) (move_to s file line) lmap 0 /\ Ext g (advance_line g line file) /\
    FExt s (move_to s file line) /\ at_loc (gpos (advance_line g line file)) file line.
  Proof.
    intros HJ. pose proof HJ as (H0 & HB & Hp & Hl).
    assert (Hmoved : forall F, F = file ->
      (J6 0) (breakpoint (upd_fs g F line))
        (mkF (f_done s) (f_names s) (bemit (f_cur s) (RSite (file, line))) (file, line) (f_loops s)) lmap 0 /\
      Ext g (breakpoint (upd_fs g F line)) /\
      FExt s (mkF (f_done s) (f_names s) (bemit (f_cur s) (RSite (file, line))) (file, line) (f_loops s)) /\
      at_loc (gpos (breakpoint (upd_fs g F line))) file line).
    { intros F ->. split; [|split; [|split; [repeat split | right; reflexivity]]].
      - split; [exact H0|]. split; [|split; [reflexivity | exact Hl]].
        cbn [f_cur bemit b_code b_labels b_targets b_vars].
        change (g_code (breakpoint (upd_fs g file line))) with (g_code g ++ [IPotentialBreak]).
        eapply JB6_bemit with (p := 0 + 1) (gh := 0); [apply JB6_emit; exact HB | reflexivity | | exact I].
        cbn [imatch6 imatch4 imatch3 imatch]. split; [reflexivity|]. rewrite zlen_snoc. replace (zlen (g_code g) + 1 - (0 + 1) - 0) with (zlen (g_code g)) by lia.
        apply znth_app_last.
      - split; [apply kext_refl|]. split; [eexists; reflexivity|]. split; [reflexivity|]. split; [reflexivity|].
        change (g_syms (breakpoint (upd_fs g file line))) with (g_syms g).
        destruct (g_syms g) as [|f tls]; [contradiction|]. exists f, f, tls. auto. }
    assert (Hsame : (J6 0) g s lmap 0 /\ Ext g g /\ FExt s s) by (split; [exact HJ|split; [apply Ext_refl; exact H0 | apply FExt_refl]]).
    unfold advance_line, move_to. rewrite Hp. unfold gpos at 1 2 3 4. cbn [fst snd].
    destruct (str_eqb file hidden_file) eqn:E1.
    { destruct Hsame as (A & B & Cc). split; [exact A|]. split; [exact B|]. split; [exact Cc|]. left. exact E1. }
    destruct (str_eqb (g_fsname g) file) eqn:E2.
    - apply str_eqb_eq in E2. rewrite (Z.eqb_sym line). destruct (g_fsline g =? line) eqn:E3; cbn [andb].
      + apply Z.eqb_eq in E3. destruct Hsame as (A & B & Cc). split; [exact A|]. split; [exact B|]. split; [exact Cc|].
        right. unfold gpos. congruence.
      + apply Hmoved. exact E2.
    - cbn [andb]. apply Hmoved. reflexivity.
  Qed.


  Lemma L6_setlab g s lmap e lab : (J6 0) g s lmap 0 -> znth lmap e = Some lab ->
    exists ls, GenModel.set_label g lab (next_pos g) = Ok (upd_labels g ls) /\
      (J6 0) (upd_labels g ls) (with_cur s (set_target (f_cur s) e (bnext (f_cur s)))) lmap 0 /\
      Ext g (upd_labels g ls) /\ FExt s (with_cur s (set_target (f_cur s) e (bnext (f_cur s)))).
  Proof.
    intros (H0 & HB & Hp & Hl) He. pose proof HB as (HC & HL & _). destruct HL as [L1 L2 L3 L3b L4 L5 L6].
    destruct (L4 _ _ He) as (A & _). pose proof (znth_some_range _ _ _ He) as Re.
    destruct (zupd_ex (g_labels g) lab (next_pos g) A) as [ls Hls].
    destruct (zupd_ex (b_targets (f_cur s)) e (bnext (f_cur s)) ltac:(lia)) as [ts Hts].
    exists ls. unfold GenModel.set_label. rewrite Hls. cbn [of_opt bind]. split; [reflexivity|].
    assert (Est : set_target (f_cur s) e (bnext (f_cur s)) =
                  mkB (b_name (f_cur s)) (b_params (f_cur s)) (b_code (f_cur s)) (b_labels (f_cur s)) ts (b_vars (f_cur s))).
    { unfold set_target. rewrite Hts. reflexivity. }
    split; [|split; [|rewrite Est; repeat split]].
    - split; [exact H0|]. split; [|split; assumption]. rewrite Est.
      cbn [with_cur f_cur b_code b_labels b_targets b_vars upd_labels g_code g_labels g_todo g_loops].
      change (gks (upd_labels g ls)) with (gks g). change (gmarks (upd_labels g ls)) with (gmarks g).
      eapply JB6_setlab; eauto.
    - split; [apply kext_refl|]. split; [apply nil_ex|]. split; [reflexivity|]. split; [reflexivity|].
      cbn [upd_labels g_syms]. destruct (g_syms g) as [|f tls]; [contradiction|]. exists f, f, tls. auto.
  Qed.


  (* a mark: the label is set on both sides, to the same place *)
  Lemma L6_mark g s lmap nm g' : (J6 0) g s lmap 0 ->
    (do rm <- ensure_mark g nm; let '(g1, lab) := rm in
     do pos <- get_mark_pos g1; GenModel.set_label g1 lab pos) = Ok g' ->
    (J6 0) g' (with_cur s (RefSem.set_label (f_cur s) nm (mark_pos (f_cur s)))) lmap 0 /\ Ext g g' /\
    FExt s (with_cur s (RefSem.set_label (f_cur s) nm (mark_pos (f_cur s)))) /\ gpos g' = gpos g.
  Proof.
    intros HJ H.
    destruct (L6_ensure 0 g s lmap 0 nm HJ) as (g1 & lab & E1 & J1 & X1 & F1 & M1 & C1 & _ & P1 & _).
    rewrite E1 in H. cbn [bind] in H. cbv beta iota in H.
    binv H. rename a into pos. rename H0 into Hgp.
    unfold GenModel.set_label in H. binv H. rename a into ls. rename H0 into Hls. inversion H; subst g'; clear H.
    unfold get_mark_pos in Hgp. binv Hgp. rename a into i. rename H into Hi. inversion Hgp; subst pos; clear Hgp.
    assert (Hi' : hd_error (rev (g_code g1)) = Some i) by (unfold code_back in Hi; first [exact Hi | apply of_opt_inv in Hi; exact Hi]).
    unfold next_pos in Hls.
    destruct J1 as (H0 & HB & Hp & Hl). cbn [with_cur f_cur] in HB.
    destruct (touch_label_fields (f_cur s) nm) as (T1 & T2 & T3 & T4 & T5). rewrite T1, T2, T3 in HB.
    destruct (mark_sync6 _ _ _ _ _ _ _ _ _ _ _ _ HB Hi') as (Ht & Hpos).
    assert (HF : FExt s (with_cur s (RefSem.set_label (f_cur s) nm (mark_pos (f_cur s))))) by (repeat split).
    split; [|split; [|split; [exact HF | exact P1]]].
    - split; [exact H0|]. split; [|split; assumption].
      cbn [with_cur f_cur RefSem.set_label b_code b_labels b_targets b_vars upd_labels g_code g_labels g_todo g_loops].
      change (gks (upd_labels g1 ls)) with (gks g1). change (gmarks (upd_labels g1 ls)) with (gmarks g1).
      eapply JB6_mark with (nm := nm); [exact HB | | | ].
      + eapply JL4_mark_set with (t := mark_t (b_code (f_cur s))); [apply HB | exact M1 | exact Ht | | | ].
        * rewrite <- Hpos. exact Hls.
        * rewrite mark_pos_t. apply label_pos_put_same.
        * intros nm' Hne. rewrite label_pos_put_other by exact Hne. symmetry. apply label_pos_touch.
      + rewrite mark_pos_t. apply label_pos_put_same.
      + intros nm' Hne. rewrite label_pos_put_other by exact Hne. symmetry. apply label_pos_touch.
    - eapply Ext_trans; [exact X1|]. split; [apply kext_refl|]. split; [apply nil_ex|]. split; [reflexivity|]. split; [reflexivity|].
      cbn [upd_labels g_syms]. destruct (g_syms g1) as [|f tls]; [contradiction|]. exists f, f, tls. auto.
  Qed.
End Joint6.

Arguments L6_var P0 FT LS W {gh}.
Arguments L6_cnt P0 FT LS W {gh}.
Arguments L6_tmp P0 FT LS W {gh}.
Arguments L6_rel P0 FT LS W {gh}.
Arguments L6_emit P0 FT LS W {gh}.
Arguments L6_emit_bp P0 FT LS W {gh}.
Arguments L6_newlab P0 FT LS W {gh}.
Arguments L6_ensure P0 FT LS W {gh}.
Arguments L6_bemit P0 FT LS W {gh}.
Arguments L6_ghost P0 FT LS W {gh}.
