(* Compile.v — model of Theo::parse (parse.cpp:328-388) and Theo::compile (compiler.cpp): the pipeline. *)
From Theo Require Import Base Regex Tokens Errors Lexer Scan MacroExtract Grammar LR MacroApply Parser VMModel GenModel Gen_Lexer Gen_Consts.
Local Open Scope Z_scope.

Fixpoint prepend_to (files : files_t) (name : str) (pre : str) : files_t :=
  match files with
  | [] => []
  | (k, v) :: t => if str_eqb k name then (k, pre ++ v) :: t else (k, v) :: prepend_to t name pre
  end.

(* files["__standards__"] = text (repaired, D9) or files.insert (pinned): who wins when the user supplies that name *)
Definition with_standards (files : files_t) : files_t :=
  if standards_replace then (standards_name, standard_macros) :: files
  else files ++ [(standards_name, standard_macros)].

Definition is_request (e : perr) : bool :=
  match pe_kind e with e_file_not_found | e_main_not_found => true | _ => false end.

Definition to_serr (e : perr) : serr := mkSerr (pe_line e) (pe_file e) (pe_kind e).

Record parse_result := mkPR {
  pr_ok : bool;
  pr_root : option node;
  pr_errors : list serr;
  pr_requests : list str
}.

(* Theo::parse with an explicit pass budget *)
Definition parse_budget (passes : nat) (files : files_t) (main : str) : result parse_result :=
  let files1 := with_standards files in
  let files2 := if fcontains files1 main then prepend_to files1 main incl_phrase else files1 in
  do sr <- scan Gen_Lexer.rules files2 main;
  let '(toks, serrs) := sr in
  let requests := map pe_request (filter is_request serrs) in
  do xr <- extract_macros toks;
  let '(xerrs, out, macros) := xr in
  do ar <- apply_macros out macros passes;
  let '(aerrs, toks2) := ar in
  do pr <- parse_tokens toks2;
  let '(root, perrs) := pr in
  let errors := perrs ++ map to_serr (serrs ++ xerrs ++ aerrs) in
  Ok (mkPR (match errors with [] => true | _ => false end) root errors requests).

Definition parse := parse_budget (N.to_nat macro_passes).

Record compile_result := mkCR {
  cr_ok : bool;
  cr_errors : list gerr;
  cr_prog : program;
  cr_requests : list str
}.

Definition compile_budget (passes : nat) (files : files_t) (main : str) : result compile_result :=
  do p <- parse_budget passes files main;
  do g <- gen (pr_ok p) (pr_errors p) (pr_root p);
  Ok (mkCR (gr_ok g) (gr_errors g) (gr_prog g) (pr_requests p)).

Definition compile := compile_budget (N.to_nat macro_passes).
