(* Properties_C08.v — the theorems that decide property C08 on the model, each stated in full and closed by
   `exact <lemma>`; the lemmas live in the Proofs_*.v files.  Nothing else belongs in this file. *)
From Theo Require Import Base Regex Tokens Errors Lexer Scan MacroExtract Grammar LR MacroApply Parser VMModel VMSpec VMCheck GenModel Compile Gen_Lexer Gen_Consts CompileStatements Proofs_Front Proofs_Gen LocStatements Proofs_Loc.
Local Open Scope Z_scope.


Theorem C08_tables_ok_meaning :
  forall p, tables_ok p = true ->
    (forall b i, In i (sites p b) -> alookup z_ltb (line_info p) i = Some b /\
                                     exists ins, znth (code p) i = Some ins /\ is_break_op (iop ins) = true) /\
    (forall i b, alookup z_ltb (line_info p) i = Some b -> In i (sites p b)) /\
    (forall i ins, znth (code p) i = Some ins -> is_break_op (iop ins) = true ->
                   exists b, alookup z_ltb (line_info p) i = Some b).
Proof. exact C08_tables_ok_meaning_proof. Qed.
Print Assumptions C08_tables_ok_meaning.

Theorem C08_gen_tables :
  forall parsed_ok perrs root r, gen parsed_ok perrs root = Ok r ->
    tables_ok (gr_prog r) = true /\ no_break (gr_prog r) = true.
Proof. exact C08_gen_tables_proof. Qed.
Print Assumptions C08_gen_tables.

Theorem C08_locations_ast :
  forall root r b, gen true [] (Some root) = Ok r -> In b (available (gr_prog r)) ->
    bfile b <> hidden_file /\ In (bfile b, bline b) (positions root).
Proof. exact C08_locations_ast_proof. Qed.
Print Assumptions C08_locations_ast.

Theorem C08_parser_positions :
  forall toks root errs, parse_tokens toks = Ok (Some root, errs) ->
    forall f l, In (f, l) (positions root) -> exists t, In t toks /\ tfile t = f /\ tline t = l.
Proof. exact C08_parser_positions_proof. Qed.
Print Assumptions C08_parser_positions.

Theorem C08_extract_positions :
  forall toks errs out macros, extract_macros toks = Ok (errs, out, macros) ->
    (forall t, In t out -> In t toks) /\
    (forall m t, In m macros -> In t (m_rule m) \/ In t (m_repl m) -> In (pos_of t) (map pos_of toks)).
Proof. exact C08_extract_positions_proof. Qed.
Print Assumptions C08_extract_positions.

Theorem C08_apply_positions :
  forall input defs passes errs out, apply_macros input defs passes = Ok (errs, out) ->
    forall t, In t out ->
      In (pos_of t) (map pos_of input) \/ exists m b, In m defs /\ In b (m_repl m) /\ pos_of t = pos_of b.
Proof. exact C08_apply_positions_proof. Qed.
Print Assumptions C08_apply_positions.

Theorem C08_locations :
  forall files main r b, compile files main = Ok r -> cr_ok r = true -> In b (available (cr_prog r)) ->
    bfile b <> hidden_file /\
    exists toks serrs t,
      scan Gen_Lexer.rules (let f1 := with_standards files in
                            if fcontains f1 main then prepend_to f1 main incl_phrase else f1) main = Ok (toks, serrs) /\
      In t toks /\ tfile t = bfile b /\ tline t = bline b.
Proof. exact C08_locations_proof. Qed.
Print Assumptions C08_locations.
