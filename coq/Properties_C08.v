(* Properties_C08.v — the theorems that decide property C08 on the model, each stated in full and closed by
   `exact <lemma>`; the lemmas live in the Proofs_*.v files.  Nothing else belongs in this file. *)
From Theo Require Import Base Regex Tokens Errors Lexer Scan MacroExtract Grammar LR MacroApply Parser VMModel VMSpec VMCheck GenModel Compile Gen_Lexer Gen_Consts CompileStatements Proofs_Front Proofs_Gen.
Local Open Scope Z_scope.


Theorem C08_tables_ok_meaning :
  forall p, tables_ok p = true ->
    (forall b i, In i (sites p b) -> alookup z_ltb (line_info p) i = Some b /\
                                     exists ins, znth (code p) i = Some ins /\ is_break_op (iop ins) = true) /\
    (forall i b, alookup z_ltb (line_info p) i = Some b -> In i (sites p b)) /\
    (forall i ins, znth (code p) i = Some ins -> is_break_op (iop ins) = true ->
                   exists b, alookup z_ltb (line_info p) i = Some b).
Proof. exact C08_tables_ok_meaning_proof. Qed.
Print Assumptions C08_tables_ok_meaning.

Theorem C08_gen_tables :
  forall parsed_ok perrs root r, gen parsed_ok perrs root = Ok r ->
    tables_ok (gr_prog r) = true /\ no_break (gr_prog r) = true.
Proof. exact C08_gen_tables_proof. Qed.
Print Assumptions C08_gen_tables.

Theorem C08_locations_ast :
  forall root r b, gen true [] (Some root) = Ok r -> In b (available (gr_prog r)) ->
    bfile b <> hidden_file /\ In (bfile b, bline b) (positions root).
Proof. exact C08_locations_ast_proof. Qed.
Print Assumptions C08_locations_ast.

Theorem C08_parser_positions :
  forall toks root errs, parse_tokens toks = Ok (Some root, errs) ->
    forall f l, In (f, l) (positions root) -> exists t, In t toks /\ tfile t = f /\ tline t = l.
Proof. exact C08_parser_positions_proof. Qed.
Print Assumptions C08_parser_positions.
