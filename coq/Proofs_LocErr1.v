(* Proofs_LocErr1.v — helpers for C02 error locations, part 1: for a predicate Q on positions that holds at every
   scanner token, every error of macro extraction, of macro application and of the parser is at a Q position. *)
From Coq Require Import List ZArith NArith Lia Bool.
From Theo Require Import Base Regex Tokens Errors Lexer Scan MacroExtract Grammar LR MacroApply Parser VMModel GenModel Compile
                         Gen_Lexer Gen_Consts CompileStatements MacroStatements LocStatements LocErrStatements
                         Proofs_Lexer Proofs_Scan Proofs_Front Proofs_Macro Proofs_Apply0 Proofs_Apply Proofs_Loc.
Import ListNotations.
Local Open Scope Z_scope.

Ltac bi H x Hx := apply bind_ok in H; destruct H as (x & Hx & H).

Section Q.
  Variable Q : str -> Z -> Prop.
  Definition tokQ (t : token) : Prop := Q (tfile t) (tline t).
  Definition perrQ (e : perr) : Prop := Q (pe_file e) (pe_line e).
  Definition serrQ (e : serr) : Prop := Q (se_file e) (se_line e).

  Lemma tokQ_pos t t' : pos_of t = pos_of t' -> tokQ t' -> tokQ t.
  Proof. unfold pos_of, tokQ. intros E H. inversion E as [[E1 E2]]. rewrite E1, E2. exact H. Qed.

  Lemma tokQ_in_pos (L : list token) t : Forall tokQ L -> In (pos_of t) (map pos_of L) -> tokQ t.
  Proof.
    intros F H. apply in_map_iff in H. destruct H as (t' & E & Ht'). rewrite Forall_forall in F.
    apply (tokQ_pos t t'); [symmetry; exact E|apply F; exact Ht'].
  Qed.

  (* ============================================================================================== *)
  (* 1. extraction                                                                                   *)
  (* ============================================================================================== *)
  Section XErr.
    Variable tokens : list token.
    Hypothesis HT : Forall tokQ tokens.

    Definition einv (x : xstate) : Prop := Forall perrQ (x_errs x).

    Lemma in_tokQ t : In t tokens -> tokQ t.
    Proof. rewrite Forall_forall in HT. apply HT. Qed.

    Lemma add_err_einv x k t rq : einv x -> In t tokens -> einv (add_err x (mkPerr k (tfile t) (tline t) rq)).
    Proof.
      intros H Ht. unfold einv, add_err. cbn [x_errs]. apply Forall_app. split; [exact H|].
      constructor; [|constructor]. apply (in_tokQ t Ht).
    Qed.

    Lemma err_here_einv x k : einv x -> rpost (err_here tokens x k) einv.
    Proof.
      intros H. unfold err_here. eapply rpost_bind; [apply clamped_in|]. intros t Ht. apply rpost_ok.
      apply add_err_einv; assumption.
    Qed.

    Lemma xmatch_einv x k : einv x -> rpost (xmatch tokens x k) (fun r => einv (fst r)).
    Proof.
      intros H. unfold xmatch. apply rpost_bind_any. intros la. destruct (tk_eqb la k).
      - apply rpost_ok. exact H.
      - eapply rpost_bind; [apply err_here_einv; exact H|]. intros x1 H1. apply rpost_ok. exact H1.
    Qed.

    Lemma advance_einv x : einv x -> rpost (MacroExtract.advance tokens x) einv.
    Proof.
      intros H. unfold MacroExtract.advance. apply rpost_bind_any. intros la.
      eapply rpost_bind; [apply xmatch_einv; exact H|]. intros r Hr. apply rpost_ok. exact Hr.
    Qed.

    Lemma copy_einv x : einv x -> rpost (copy tokens x) einv.
    Proof. intros H. unfold copy. apply rpost_bind_any. intros t. apply rpost_ok. exact H. Qed.

    Lemma strToInt_einv x s : einv x -> rpost (strToInt tokens x s) (fun r => einv (fst r)).
    Proof.
      intros H. unfold strToInt. eapply rpost_bind; [apply clamped_in|]. intros t Ht. apply rpost_ok. cbn [fst].
      destruct (INT_MAX <=? strtol s); [|exact H]. apply add_err_einv; assumption.
    Qed.

    Lemma push_macro_einv x : einv x -> einv (push_macro x).
    Proof. intros H. exact H. Qed.

    Lemma pop_macro_einv x : einv x -> rpost (pop_macro x) einv.
    Proof.
      intros H. unfold pop_macro. destruct (rev (x_macros x)) as [|m r]; [intros a E; discriminate|].
      apply rpost_ok. exact H.
    Qed.

    Lemma upd_back_einv x f : einv x -> rpost (upd_back x f) einv.
    Proof.
      intros H. unfold upd_back. destruct (rev (x_macros x)) as [|m r]; [intros a E; discriminate|].
      apply rpost_ok. exact H.
    Qed.

    Lemma push_rule_einv x : einv x -> rpost (push_rule tokens x) einv.
    Proof. intros H. unfold push_rule. apply rpost_bind_any. intros l. apply upd_back_einv. exact H. Qed.

    Lemma push_replacement_einv x : einv x -> rpost (push_replacement tokens x) einv.
    Proof. intros H. unfold push_replacement. apply rpost_bind_any. intros l. apply upd_back_einv. exact H. Qed.

    Ltac ep_side := cbn [fst snd] in *; assumption.

    Ltac ep1 :=
      match goal with
      | |- rpost (Ok _) _ => apply rpost_ok; cbn [fst snd]; try assumption
      | |- rpost (bind (MacroExtract.advance _ _) _) _ => eapply rpost_bind; [apply advance_einv; ep_side|intros ? ?]
      | |- rpost (bind (err_here _ _ _) _) _ => eapply rpost_bind; [apply err_here_einv; ep_side|intros ? ?]
      | |- rpost (bind (copy _ _) _) _ => eapply rpost_bind; [apply copy_einv; ep_side|intros ? ?]
      | |- rpost (bind (xmatch _ _ _) _) _ => eapply rpost_bind; [apply xmatch_einv; ep_side|intros [? ?] ?]
      | |- rpost (bind (pop_macro _) _) _ => eapply rpost_bind; [apply pop_macro_einv; ep_side|intros ? ?]
      | |- rpost (bind (push_rule _ _) _) _ => eapply rpost_bind; [apply push_rule_einv; ep_side|intros ? ?]
      | |- rpost (bind (push_replacement _ _) _) _ =>
          eapply rpost_bind; [apply push_replacement_einv; ep_side|intros ? ?]
      | |- rpost (bind (if ?p then _ else _) _) _ => destruct p
      | |- rpost (bind (Ok _) _) _ => cbn [bind]
      end.

    Lemma xstep_einv mode x : einv x -> rpost (xstep tokens mode x) (fun r => einv (snd r)).
    Proof.
      intros H. unfold xstep. apply rpost_bind_any. intros la.
      destruct mode as [| | |pop|].
      - destruct la; cbv beta iota; try solve [repeat ep1].
        eapply rpost_bind; [apply advance_einv; exact H|]. intros x1 H1.
        pose proof (push_macro_einv x1 H1) as H2. cbv zeta.
        apply rpost_bind_any. intros la2.
        destruct la2; cbv beta iota; try (apply rpost_ok; exact H2).
        eapply rpost_bind; [apply advance_einv; exact H2|]. intros x3 H3.
        eapply rpost_bind; [apply xmatch_einv; exact H3|]. intros [x4 ok] H4. cbn [fst] in H4.
        destruct ok; [|apply rpost_ok; exact H4].
        apply rpost_bind_any. intros t.
        eapply rpost_bind; [apply strToInt_einv; exact H4|]. intros [x5 v] H5. cbn [fst] in H5.
        eapply rpost_bind; [apply upd_back_einv; exact H5|].
        intros x6 H6. apply rpost_ok. exact H6.
      - destruct la; cbv beta iota; repeat ep1.
      - destruct la; cbv beta iota; repeat ep1.
      - destruct la; cbv beta iota; repeat ep1.
      - apply rpost_ok. exact H.
    Qed.

    Lemma xrun_einv : forall fuel mode x, einv x -> rpost (xrun tokens fuel mode x) einv.
    Proof.
      induction fuel as [|f IH]; intros mode x H.
      - destruct mode; cbn [xrun]; try (intros a E; discriminate). apply rpost_ok; exact H.
      - destruct mode; cbn [xrun]; try (apply rpost_ok; exact H);
          (eapply rpost_bind; [apply xstep_einv; exact H|]; intros r Hr; apply IH; exact Hr).
    Qed.

    Lemma validate_repl_einv ntt : forall repl x, incl repl tokens -> einv x ->
      rpost (validate_repl tokens x ntt repl) (fun r => einv (fst r)).
    Proof.
      induction repl as [|t rest IH]; intros x HI H.
      - cbn [validate_repl]. apply rpost_ok. exact H.
      - assert (Ht : In t tokens) by (apply HI; left; reflexivity).
        assert (HR : incl rest tokens) by (intros y Hy; apply HI; right; exact Hy).
        cbn [validate_repl].
        assert (DEF : forall y, einv y -> rpost (do r2 <- validate_repl tokens y ntt rest; Ok (fst r2, t :: snd r2))
                        (fun r => einv (fst r))).
        { intros y Hy. eapply rpost_bind; [apply IH; [exact HR|exact Hy]|]. intros r2 A. apply rpost_ok. exact A. }
        destruct (tk t) eqn:K; try (apply DEF; exact H).
        eapply rpost_bind; [apply strToInt_einv; exact H|]. intros [x1 ind] H1. cbn [fst] in H1. cbv beta iota.
        destruct ((ind <? 0) || (ntt <=? ind)); [|apply DEF; exact H1].
        cbv zeta.
        eapply rpost_bind; [apply IH; [exact HR|apply add_err_einv; assumption]|].
        intros r2 A. apply rpost_ok. exact A.
    Qed.

    Lemma validate_macros_einv : forall ms x, Forall (mloc tokens) ms -> einv x ->
      rpost (validate_macros tokens x ms) (fun r => einv (fst r)).
    Proof.
      induction ms as [|m rest IH]; intros x F H.
      - cbn [validate_macros]. apply rpost_ok. exact H.
      - inversion F as [|m' r' [M1 M2] Fr]; subst. cbn [validate_macros].
        eapply rpost_bind; [apply validate_repl_einv; [exact M2|exact H]|]. intros [x1 repl'] A. cbn [fst] in A.
        cbv beta iota.
        eapply rpost_bind; [apply IH; [exact Fr|exact A]|]. intros r2 Hr2. apply rpost_ok. exact Hr2.
    Qed.
  End XErr.

  Lemma extract_errors toks errs out macros : Forall tokQ toks ->
    extract_macros toks = Ok (errs, out, macros) -> Forall perrQ errs.
  Proof.
    intros HT H. unfold extract_macros in H. bi H x Hx. bi H r Hr. inversion H; subst.
    assert (L : linv toks x).
    { apply (xrun_linv toks (4 + length toks)%nat mS (mkX [] [] 0 [])); [|exact Hx].
      split; [intros y []|constructor]. }
    assert (E : einv x).
    { apply (xrun_einv toks HT (4 + length toks)%nat mS (mkX [] [] 0 [])); [|exact Hx]. constructor. }
    destruct L as [_ L2].
    apply (validate_macros_einv toks HT (x_macros x) x L2 E r Hr).
  Qed.

  Lemma extract_tokens toks errs out macros : Forall tokQ toks ->
    extract_macros toks = Ok (errs, out, macros) ->
    Forall tokQ out /\ (forall m t, In m macros -> In t (m_rule m) \/ In t (m_repl m) -> tokQ t).
  Proof.
    intros HT H. destruct (C08_extract_positions_proof _ _ _ _ H) as [X1 X2]. split.
    - apply Forall_forall. intros t Ht. rewrite Forall_forall in HT. apply HT. apply X1. exact Ht.
    - intros m t Hm Ht. apply (tokQ_in_pos toks t HT). apply (X2 m t Hm Ht).
  Qed.

  (* ============================================================================================== *)
  (* 2. macro application                                                                            *)
  (* ============================================================================================== *)
  Hypothesis Qdash : Q dash (-1).

  Lemma split_usable_errors defs : (forall m t, In m defs -> In t (m_rule m) -> tokQ t) ->
    forall ds errs us, split_usable ds = Ok (errs, us) -> Forall (dok defs) ds -> Forall perrQ errs.
  Proof.
    intros HD. induction ds as [|d ds IH]; intros errs us H F.
    - cbn [split_usable] in H. inversion H; subst. constructor.
    - rewrite split_usable_cons in H. bi H e He. bi H r Hr. destruct r as [errs' us']. cbn [fst snd] in H.
      inversion F as [|d' ds' Fd Fr]; subst. pose proof (IH _ _ Hr Fr) as U.
      destruct e as [|e0 e1].
      + inversion H; subst. exact U.
      + inversion H; subst errs us; clear H. change (Forall perrQ ((e0 :: e1) ++ errs')).
        apply Forall_app. split; [|exact U].
        unfold detector_errors in He. destruct (d_conflicts d); [discriminate|].
        destruct (m_rule (d_macro d)) as [|t rest] eqn:ER; [discriminate|].
        inversion He; subst. constructor; [|constructor].
        unfold perrQ. cbn [pe_file pe_line]. apply (HD (d_macro d) t Fd). rewrite ER. left. reflexivity.
  Qed.

  Lemma apply_errors input defs passes errs out :
    (forall m t, In m defs -> In t (m_rule m) -> tokQ t) ->
    apply_macros input defs passes = Ok (errs, out) -> Forall perrQ errs.
  Proof.
    intros HD H. apply apply_macros_inv in H.
    destruct H as (ds & errs0 & us & changed & Hds & Hsu & _ & ->).
    pose proof (make_detectors_dok _ _ Hds) as D1.
    pose proof (split_usable_errors defs HD _ _ _ Hsu D1) as E0.
    destruct changed; [|exact E0]. apply Forall_app. split; [exact E0|].
    constructor; [|constructor]. exact Qdash.
  Qed.

  Lemma apply_tokens input defs passes errs out : Forall tokQ input ->
    (forall m t, In m defs -> In t (m_repl m) -> tokQ t) ->
    apply_macros input defs passes = Ok (errs, out) -> Forall tokQ out.
  Proof.
    intros HI HD H. apply Forall_forall. intros t Ht.
    destruct (C08_apply_positions_proof _ _ _ _ _ H t Ht) as [P|(m & b & Hm & Hb & E)].
    - apply (tokQ_in_pos input t HI P).
    - apply (tokQ_pos t b E). apply (HD m b Hm Hb).
  Qed.

  (* ============================================================================================== *)
  (* 3. the parser                                                                                   *)
  (* ============================================================================================== *)
  Section PErr.
    Variable L : list token.
    Hypothesis HL : Forall tokQ L.

    Definition pinv (s : pst) : Prop := incl (p_rest s) L /\ Forall serrQ (p_errs s).

    Lemma cur_in s : rpost (cur s) (fun t => In t (p_rest s)).
    Proof.
      unfold cur. intros t E. destruct (p_rest s) as [|t0 r]; cbn in E; inversion E; subst. left. reflexivity.
    Qed.

    Lemma perror_pinv s k : pinv s -> rpost (perror s k) pinv.
    Proof.
      intros [H1 H2]. unfold perror. eapply rpost_bind; [apply cur_in|]. intros t Ht. apply rpost_ok.
      split; cbn [p_rest p_errs]; [exact H1|]. apply Forall_app. split; [exact H2|].
      constructor; [|constructor]. unfold serrQ. cbn [se_file se_line].
      rewrite Forall_forall in HL. apply (HL t). apply H1. exact Ht.
    Qed.

    Lemma pmatch_pinv s k : pinv s -> rpost (pmatch s k) pinv.
    Proof.
      intros H. unfold pmatch. apply rpost_bind_any. intros k0.
      eapply rpost_bind with (P := pinv).
      - destruct (tk_eqb k0 k); [apply rpost_ok; exact H|].
        eapply rpost_bind; [apply perror_pinv; exact H|]. intros s' [A1 A2]. apply rpost_ok.
        split; cbn [p_rest p_errs]; [|exact A2]. eapply incl_tran; [apply sync_incl|exact A1].
      - intros s1 [A1 A2]. apply rpost_bind_any. intros k1.
        assert (TL : pinv (mkP (tl (p_rest s1)) (p_errs s1))).
        { split; cbn [p_rest p_errs]; [|exact A2]. eapply incl_tran; [apply tl_incl|exact A1]. }
        destruct k1; apply rpost_ok; first [exact TL | split; assumption].
    Qed.

    Lemma matchmk_pinv s k n : pinv s -> rpost (matchmk s k n) (fun r => pinv (snd r)).
    Proof.
      intros H. unfold matchmk. apply rpost_bind_any. intros t.
      eapply rpost_bind; [apply pmatch_pinv; exact H|]. intros s' H'. apply rpost_ok. exact H'.
    Qed.

    Definition ppost (r : option node * pst) : Prop := pinv (snd r).

    Ltac pp_side := cbn [fst snd] in *; assumption.

    Ltac pp1 IH :=
      match goal with
      | |- rpost (Ok _) _ => apply rpost_ok; unfold ppost; cbn [fst snd]; assumption
      | |- rpost (bind (bind _ _) _) _ => rewrite pp_bind_assoc; cbv beta
      | |- rpost (bind (Ok _) _) _ => cbn [bind]; cbv beta iota
      | |- rpost (bind (la _) _) _ =>
          let k := fresh "k" in apply rpost_bind_any; intros k; destruct k; cbv beta iota
      | |- rpost (bind (perror _ _) _) _ =>
          eapply rpost_bind; [apply perror_pinv; pp_side|intros ? ?; cbv beta iota]
      | |- rpost (bind (pmatch _ _) _) _ =>
          eapply rpost_bind; [apply pmatch_pinv; pp_side|intros ? ?; cbv beta iota]
      | |- rpost (bind (matchmk _ _ _) _) _ =>
          eapply rpost_bind; [apply matchmk_pinv; pp_side|intros [? ?] ?; cbv beta iota]
      | |- rpost (bind (pcall _ _ _) _) _ =>
          eapply rpost_bind; [apply IH; pp_side|intros [? ?] ?; unfold ppost in *; cbv beta iota]
      | |- rpost (bind (of_opt _ _) _) _ => apply rpost_bind_any; intros ?; cbv beta iota
      | |- rpost (pcall _ _ _) _ => apply IH; pp_side
      | |- rpost (if is_value_start _ then _ else _) _ => cbn [is_value_start]
      | |- rpost (match ?v with _ => _ end) _ => is_var v; destruct v
      end.

    Lemma pcall_pinv : forall fuel f s, pinv s -> rpost (pcall fuel f s) ppost.
    Proof.
      induction fuel as [|fu IH]; intros f s H; [intros a E; discriminate E|].
      destruct f.
      - rewrite pcall_fS. repeat pp1 IH.
      - rewrite pcall_fPORTS. repeat pp1 IH.
      - rewrite pcall_fOPORTS. repeat pp1 IH.
      - rewrite pcall_fARGS. repeat pp1 IH.
      - rewrite pcall_fMARGS. repeat pp1 IH.
      - rewrite pcall_fP. repeat pp1 IH.
      - rewrite pcall_fMOREP. repeat pp1 IH.
      - rewrite pcall_fVALUE. repeat pp1 IH.
      - rewrite pcall_fVARGS. repeat pp1 IH.
      - rewrite pcall_fMVARGS. repeat pp1 IH.
      - rewrite pcall_fEEOS. repeat pp1 IH.
    Qed.

    Lemma excess_pinv fuel : forall n s, pinv s -> rpost (excess_loop n fuel s) pinv.
    Proof.
      induction n as [|n IH]; intros s H; cbn [excess_loop]; [intros a E; discriminate E|].
      destruct (p_rest s) as [|t r] eqn:ER; [apply rpost_ok; exact H|].
      assert (STEP : forall k, rpost (do s1 <- perror s e_excess_input; do s2 <- pmatch s1 k; do k2 <- la s2;
                                      match k2 with
                                      | T_EOF => Ok s2
                                      | _ => do r0 <- pcall fuel fS s2; excess_loop n fuel (snd r0)
                                      end) pinv).
      { intros k. eapply rpost_bind; [apply perror_pinv; exact H|]. intros s1 H1.
        eapply rpost_bind; [apply pmatch_pinv; exact H1|]. intros s2 H2.
        apply rpost_bind_any. intros k2.
        assert (GO : rpost (do r0 <- pcall fuel fS s2; excess_loop n fuel (snd r0)) pinv).
        { eapply rpost_bind; [apply pcall_pinv; exact H2|]. intros r0 H0. apply IH. exact H0. }
        destruct k2; first [apply rpost_ok; exact H2 | exact GO]. }
      destruct (tk t); first [apply rpost_ok; exact H | apply STEP].
    Qed.
  End PErr.

  Lemma parse_errors toks root errs : Forall tokQ toks ->
    parse_tokens toks = Ok (root, errs) ->
    Forall serrQ errs /\
    (forall n, root = Some n -> forall f l, In (f, l) (positions n) -> Q f l).
  Proof.
    intros HT H. split.
    - unfold parse_tokens in H. cbv zeta in H. bi H r Hr. bi H s Hs. inversion H; subst.
      assert (P0 : pinv toks (mkP toks [])) by (split; cbn [p_rest p_errs]; [apply incl_refl|constructor]).
      pose proof (pcall_pinv toks HT _ fS _ P0 r Hr) as P1. unfold ppost in P1.
      pose proof (excess_pinv toks HT _ _ _ P1 s Hs) as [_ P2]. exact P2.
    - intros n -> f l Hi. destruct (C08_parser_positions_proof toks n errs H f l Hi) as (t & Ht & <- & <-).
      rewrite Forall_forall in HT. apply (HT t Ht).
  Qed.
End Q.
