(* Proofs_LocErr0.v — helpers for C02 error locations, part 0: line counting, the scanner (every token and every error
   of scan stands on a line of the file it names), and the file map the scanner is run on (seen_files). *)
From Coq Require Import List ZArith NArith Lia Bool.
From Theo Require Import Base Regex Tokens Errors Lexer Scan MacroExtract Grammar LR MacroApply Parser VMModel GenModel Compile
                         Gen_Lexer Gen_Consts CompileStatements LocErrStatements Proofs_Lexer Proofs_Scan.
Import ListNotations.
Local Open Scope Z_scope.

(* ================================================================================================ *)
(* 1. count_nl                                                                                       *)
(* ================================================================================================ *)
Lemma count_nl_app a b : count_nl (a ++ b) = count_nl a + count_nl b.
Proof. unfold count_nl. rewrite filter_app, app_length. lia. Qed.

Lemma count_nl_nonneg s : 0 <= count_nl s.
Proof. unfold count_nl. lia. Qed.

Lemma count_nl_cons c t : count_nl t <= count_nl (c :: t).
Proof.
  change (c :: t) with ([c] ++ t). rewrite count_nl_app. pose proof (count_nl_nonneg [c]). lia.
Qed.

Lemma count_nl_split n s : count_nl (firstn n s) + count_nl (skipn n s) = count_nl s.
Proof. rewrite <- count_nl_app, firstn_skipn. reflexivity. Qed.

(* one yylex() call: the line counter never decreases and never counts more newlines than were consumed *)
Lemma next_token_lines : forall f rules s line k text line' rest,
  next_token f rules s line = Some (k, text, line', rest) ->
  line <= line' /\ line' + count_nl rest <= line + count_nl s.
Proof.
  induction f as [|f IH]; intros rules s line k text line' rest H; [discriminate|].
  destruct s as [|c t]; [discriminate|].
  rewrite next_token_cons in H.
  destruct (max_munch rules (c :: t)) as [[len i]|] eqn:Emm.
  - pose proof (count_nl_split len (c :: t)) as SP.
    pose proof (count_nl_nonneg (firstn len (c :: t))) as NN.
    destruct (nth_error rules i) as [[r [k0|]]|].
    + inversion H; subst. lia.
    + apply IH in H. lia.
    + apply IH in H. lia.
  - apply IH in H. pose proof (count_nl_cons c t). lia.
Qed.

(* ================================================================================================ *)
(* 2. the scanner                                                                                    *)
(* ================================================================================================ *)
Section ScanLoc.
  Variable rules : list rule.
  Variable files : files_t.

  Definition tok_ok (t : token) : Prop := loc_ok files (tfile t) (tline t).
  Definition err_ok (e : perr) : Prop := loc_ok files (pe_file e) (pe_line e).
  Definition res_ok (r : list token * list perr) : Prop := Forall tok_ok (fst r) /\ Forall err_ok (snd r).

  Section OneFile.
    Variable recur : list str -> str -> list N -> result (list token * list perr).
    Variable active : list str.
    Variable fn : str.
    Variable content : list N.
    Hypothesis Hfn : flookup files fn = Some content.
    Hypothesis Hrec : forall g c r, flookup files g = Some c -> recur (g :: active) g c = Ok r -> res_ok r.

    Lemma here_ok l : 1 <= l <= count_nl content + 1 -> loc_ok files fn l.
    Proof. intros B. right. exists content. split; [exact Hfn|exact B]. Qed.

    Lemma sloop_loc : forall fu s line r,
      1 <= line -> line + count_nl s <= count_nl content + 1 ->
      sloop rules files recur active fn fu s line = Ok r -> res_ok r.
    Proof.
      induction fu as [|fu IH]; intros s line r L1 L2 H; [rewrite sloop_O in H; discriminate|].
      rewrite sloop_S in H. unfold sstep in H.
      destruct (next_token (S (length s)) rules s line) as [[[[k text] line1] rest]|] eqn:E1.
      2:{ inversion H; subst r. split; constructor. }
      destruct (next_token_lines _ _ _ _ _ _ _ _ E1) as [A1 A2].
      pose proof (count_nl_nonneg rest) as NR.
      assert (B1 : 1 <= line1 <= count_nl content + 1) by lia.
      destruct (tk_eqb k INCLUDE).
      - destruct (next_token (S (length rest)) rules rest line1) as [[[[k2 text2] line2] rest2]|] eqn:E2.
        + destruct (next_token_lines _ _ _ _ _ _ _ _ E2) as [A3 A4].
          pose proof (count_nl_nonneg rest2) as NR2.
          assert (B2 : 1 <= line2 <= count_nl content + 1) by lia.
          assert (IH2 : forall r', sloop rules files recur active fn fu rest2 line2 = Ok r' -> res_ok r').
          { intros r' Hr'. eapply IH; [| |exact Hr']; lia. }
          assert (ONE : forall k0 rq, (do r' <- sloop rules files recur active fn fu rest2 line2;
                                        Ok (fst r', mkPerr k0 fn line2 rq :: snd r')) = Ok r -> res_ok r).
          { intros k0 rq Hb. apply bind_Ok_inv in Hb. destruct Hb as [r' [Hr' Hb]]. inversion Hb; subst r.
            destruct (IH2 _ Hr') as [T E]. split; cbn [fst snd]; [exact T|].
            constructor; [|exact E]. apply here_ok. exact B2. }
          destruct (tk_eqb k2 FNAME); [|eapply ONE; exact H].
          destruct (flookup files (strip_quotes text2)) as [c|] eqn:Ef; [|eapply ONE; exact H].
          destruct (str_in (strip_quotes text2) active); [eapply ONE; exact H|].
          apply bind_Ok_inv in H. destruct H as [r1 [Hr1 H]].
          apply bind_Ok_inv in H. destruct H as [r2 [Hr2 H]]. inversion H; subst r.
          destruct (Hrec _ _ _ Ef Hr1) as [T1 Er1]. destruct (IH2 _ Hr2) as [T2 Er2].
          split; cbn [fst snd]; apply Forall_app; split; assumption.
        + apply bind_Ok_inv in H. destruct H as [r' [Hr' H]]. inversion H; subst r.
          assert (R' : res_ok r').
          { eapply IH; [| |exact Hr']; [lia|]. change (count_nl []) with 0. lia. }
          destruct R' as [T E]. split; cbn [fst snd]; [exact T|].
          constructor; [|exact E]. apply here_ok. exact B1.
      - apply bind_Ok_inv in H. destruct H as [r' [Hr' H]]. inversion H; subst r.
        assert (R' : res_ok r') by (eapply IH; [| |exact Hr']; lia).
        destruct R' as [T E]. split; cbn [fst snd].
        + constructor; [|exact T]. apply here_ok. exact B1.
        + destruct (tk_eqb k UNKNOWN); cbn [app]; [|exact E].
          constructor; [|exact E]. apply here_ok. exact B1.
    Qed.
  End OneFile.

  Lemma scan_file_loc : forall d active fn c r, flookup files fn = Some c ->
    scan_file rules d files active fn c = Ok r -> res_ok r.
  Proof.
    induction d as [|d IH]; intros active fn c r Hf H.
    - rewrite scan_file_O in H. discriminate.
    - rewrite scan_file_S in H.
      eapply (sloop_loc (scan_file rules d files) active fn c Hf); [| | |exact H].
      + intros g c' r' Hg Hr'. eapply IH; [exact Hg|exact Hr'].
      + lia.
      + lia.
  Qed.

  Lemma placeholder_ok : loc_ok files dash (-1).
  Proof. left. split; reflexivity. Qed.

  Lemma eof_token_loc main toks : Forall tok_ok toks -> tok_ok (eof_token files main toks).
  Proof.
    intros F. unfold eof_token. destruct (rev toks) as [|last tl] eqn:E.
    - unfold fcontains. destruct (flookup files main) as [c|] eqn:Ef.
      + unfold tok_ok. cbn [tfile tline]. right. exists c. split; [exact Ef|].
        pose proof (count_nl_nonneg c). lia.
      + exact placeholder_ok.
    - unfold tok_ok. cbn [tfile tline]. rewrite Forall_forall in F. apply (F last).
      apply in_rev. rewrite E. left. reflexivity.
  Qed.
End ScanLoc.

Lemma scan_positions rules files main toks errs : scan rules files main = Ok (toks, errs) ->
  Forall (fun t => loc_ok files (tfile t) (tline t)) toks /\
  Forall (fun e => loc_ok files (pe_file e) (pe_line e)) errs.
Proof.
  unfold scan, scan_fuel. intros H.
  destruct (flookup files main) as [c|] eqn:Ef.
  - apply bind_Ok_inv in H. destruct H as [r [Hr H]]. inversion H; subst toks errs.
    destruct (scan_file_loc rules files _ _ _ _ _ Ef Hr) as [T E]. split; [|exact E].
    apply Forall_app. split; [exact T|]. constructor; [|constructor].
    apply (eof_token_loc files main (fst r) T).
  - inversion H; subst toks errs. split.
    + constructor; [|constructor]. apply (eof_token_loc files main [] (Forall_nil _)).
    + constructor; [|constructor]. apply placeholder_ok.
Qed.

(* ================================================================================================ *)
(* 3. the file map the scanner is run on                                                             *)
(* ================================================================================================ *)
Lemma str_eqb_refl a : str_eqb a a = true.
Proof. apply str_eqb_eq. reflexivity. Qed.

Lemma str_eqb_false a b : a <> b -> str_eqb a b = false.
Proof. intros H. destruct (str_eqb a b) eqn:E; [|reflexivity]. apply str_eqb_eq in E. contradiction. Qed.

Lemma count_nl_incl v : count_nl (incl_phrase ++ v) = count_nl v.
Proof. rewrite count_nl_app. change (count_nl incl_phrase) with 0. lia. Qed.

(* prepend_to changes at most the text found under [name], and only by the prefix *)
Lemma flookup_prepend pre : forall files name f,
  flookup (prepend_to files name pre) f = flookup files f \/
  exists v, flookup files f = Some v /\ flookup (prepend_to files name pre) f = Some (pre ++ v).
Proof.
  induction files as [|[k v] t IH]; intros name f; cbn [prepend_to].
  - left. reflexivity.
  - destruct (str_eqb k name) eqn:Ek; cbn [flookup].
    + destruct (str_eqb k f) eqn:Ekf; [|left; reflexivity].
      right. exists v. split; reflexivity.
    + destruct (str_eqb k f); [left; reflexivity|]. apply IH.
Qed.

Lemma in_file_prepend files name f l :
  in_file (prepend_to files name incl_phrase) f l -> in_file files f l.
Proof.
  intros (text & Hf & B). destruct (flookup_prepend incl_phrase files name f) as [E|(v & E1 & E2)].
  - exists text. rewrite <- E. split; assumption.
  - assert (ET : text = incl_phrase ++ v) by congruence. rewrite ET, count_nl_incl in B. exists v. split; assumption.
Qed.

Lemma seen_files_in_file files main f l :
  standards_replace = true -> in_file (seen_files files main) f l ->
  in_file ((standards_name, standard_macros) :: files) f l.
Proof.
  intros SR H. unfold seen_files, with_standards in H. cbv zeta in H. rewrite SR in H.
  destruct (fcontains ((standards_name, standard_macros) :: files) main); [|exact H].
  apply in_file_prepend in H. exact H.
Qed.
