(* Proofs_C01source.v — C01 from source text with the name condition discharged from the input (blank-free file
   names): C01_pipeline + C01_pipeline_lexable; and the wrappers for the guarded names statements. *)
From Coq Require Import List ZArith NArith Lia Bool.
From Theo Require Import Base Regex Tokens Errors Lexer Scan MacroExtract Grammar LR MacroApply Parser VMModel VMSpec GenModel Compile
                         RefSem RefSemChk C01Statements C01Stages C01Stages3 C01Stages4 Gen_Lexer Gen_Consts CompileStatements
                         NamesStatements Proofs_Front Proofs_Gen Proofs_C01s4 Proofs_Names.
Local Open Scope Z_scope.

Lemma C01_pipeline_lexable_proof : C01_pipeline_lexable_stmt.
Proof. exact C01_pipeline_lexable_partial. Qed.

Lemma C01_pipeline_lexable_needs_ok_proof : C01_pipeline_lexable_needs_ok_stmt.
Proof. exact C01_pipeline_lexable_false. Qed.

(* a successful compilation comes from an error-free parse *)
Lemma compile_ok_parse_ok files main c p :
  compile files main = Ok c -> cr_ok c = true -> parse files main = Ok p -> pr_ok p = true.
Proof.
  intros Hc Hok Hp.
  unfold compile, compile_budget in Hc. unfold parse in Hp.
  apply Proofs_Front.pp_bind_inv in Hc. destruct Hc as (p' & Hp' & Hc). rewrite Hp in Hp'. inversion Hp'; subst p'; clear Hp'.
  apply Proofs_Front.pp_bind_inv in Hc. destruct Hc as (g & Hg & Hc). inversion Hc; subst c; clear Hc.
  cbn [cr_ok] in Hok.
  destruct (C02_errors_forwarded_proof _ _ _ _ Hp) as [_ FW].
  destruct (pr_ok p) eqn:E; [reflexivity|]. destruct (FW g Hg eq_refl) as [Cc _]. congruence.
Qed.

Lemma C01_source_proof : C01_source_stmt.
Proof.
  intros files main c p root rs Hf Hc Hok Hp Hroot Hcan Habs.
  pose proof (compile_ok_parse_ok files main c p Hc Hok Hp) as PO.
  pose proof (C01_pipeline_lexable_proof files main p root Hf Hp PO Hroot) as Hlex.
  exact (C01_pipeline_proof files main c p root rs Hc Hok Hp Hroot Hcan Hlex Habs).
Qed.

Print Assumptions C01_pipeline_lexable_proof.
Print Assumptions C01_pipeline_lexable_needs_ok_proof.
Print Assumptions C01_source_proof.
