(* Proofs_Names.v — NamesStatements.v: no name of a parsed tree is one of the generator's internal register names; and,
   for a parse without errors and blank-free file names, no name contains a blank.
   C01_pipeline_lexable_unguarded_stmt is FALSE as written (the parser builds a NAME node from whatever token stands where an
   identifier is expected, e.g. the NEQ_ZERO token "!= 0" after GOTO; the error is recorded but the tree is delivered):
   see C01_pipeline_lexable_counterexample.  It is proved with the extra hypothesis pr_ok p = true. *)
From Coq Require Import List ZArith NArith Lia Bool.
From Theo Require Import Base Regex Tokens Errors Lexer Scan MacroExtract Grammar LR MacroApply Parser VMModel GenModel Compile
                         RefSem C01Statements C01Stages Gen_Lexer Gen_Consts NamesStatements LocErrStatements
                         Proofs_Lexer Proofs_LexRules Proofs_Scan Proofs_Front Proofs_Loc Proofs_LocErr0 Proofs_LocErr1
                         Proofs_Sugar0 Proofs_Names0 Proofs_Names1 Proofs_Names2.
Import ListNotations.
Local Open Scope Z_scope.

Lemma C01_lexable_safe_proof : C01_lexable_safe_stmt.
Proof. intros tok. apply lexable_safe. Qed.

(* ================================================================================================ *)
(* 1. the stages of the pipeline                                                                     *)
(* ================================================================================================ *)
Lemma parse_stages files main p : parse files main = Ok p ->
  exists toks serrs xerrs out macros aerrs toks2 perrs,
    scan Gen_Lexer.rules (seen_files files main) main = Ok (toks, serrs) /\
    extract_macros toks = Ok (xerrs, out, macros) /\
    apply_macros out macros (N.to_nat macro_passes) = Ok (aerrs, toks2) /\
    parse_tokens toks2 = Ok (pr_root p, perrs) /\
    (pr_ok p = true -> perrs = []).
Proof.
  intros Hp. unfold parse, parse_budget in Hp. cbv zeta in Hp.
  nbi Hp sr Hs. destruct sr as [toks serrs].
  nbi Hp xr Hx. destruct xr as [[xerrs out] macros].
  nbi Hp ar Ha. destruct ar as [aerrs toks2].
  nbi Hp pr Hpr. destruct pr as [root perrs].
  inversion Hp; subst p; clear Hp. cbn [pr_root pr_ok].
  exists toks, serrs, xerrs, out, macros, aerrs, toks2, perrs.
  split; [exact Hs|]. split; [exact Hx|]. split; [exact Ha|]. split; [exact Hpr|].
  intros OK. destruct perrs as [|e es]; [reflexivity|]. cbn [app] in OK. discriminate OK.
Qed.

(* a token predicate that holds for scanner tokens, for the error identifier, and is kept by renaming, holds for
   every token the parser sees *)
Lemma pipeline_tokens (G : token -> Prop) files main p :
  (forall t, scanned files t -> G t) ->
  (forall f l, G (mkTok ID [101; 114; 114; 111; 114]%N f l)) ->
  (forall t l q, G t -> tk t = TEMP_VAL -> G (mkTok ID (temp_name (ttext t) (tfile t) l q) (tfile t) (tline t))) ->
  parse files main = Ok p ->
  exists toks2 perrs, Forall G toks2 /\ parse_tokens toks2 = Ok (pr_root p, perrs) /\ (pr_ok p = true -> perrs = []).
Proof.
  intros GS GE GT Hp. apply parse_stages in Hp.
  destruct Hp as (toks & serrs & xerrs & out & macros & aerrs & toks2 & perrs & Hs & Hx & Ha & Hpr & OK).
  exists toks2, perrs. split; [|split; assumption].
  apply scan_scanned in Hs.
  assert (A0 : allG G toks). { eapply Forall_impl; [|exact Hs]. exact GS. }
  destruct (extract_G G GE toks xerrs out macros A0 Hx) as [A1 A2].
  exact (apply_G G GT out macros _ aerrs toks2 A1 A2 Ha).
Qed.

(* ================================================================================================ *)
(* 2. never one of the generator's names                                                             *)
(* ================================================================================================ *)
Definition G_safe (t : token) : Prop :=
  safe_name (ttext t) = true /\ (tk t = TEMP_VAL -> exists rest, ttext t = 35%N :: rest).

Lemma C01_pipeline_safe_names_proof : C01_pipeline_safe_names_stmt.
Proof.
  intros files main p root Hp Hroot.
  destruct (pipeline_tokens G_safe files main p) as (toks2 & perrs & A & Hpr & _); [| | |exact Hp|].
  - intros t [[S [_ T]] _]. split; assumption.
  - intros f l. split; [reflexivity|]. cbn [tk]. discriminate.
  - intros t l q [_ T] K. destruct (T K) as [rest E]. split; [|cbn [tk]; discriminate].
    cbn [ttext]. rewrite E. apply safe_temp_name.
  - rewrite Hroot in Hpr. apply parse_tokens_names in Hpr. destruct Hpr as [W _]. cbn [oall] in W.
    apply (tall_names safe_name safe_names (fun t line file tok l r => eq_refl) (Qw toks2)); [|exact W].
    intros tok [E|(t & Ht & E)]; [subst tok; reflexivity|].
    rewrite Forall_forall in A. rewrite <- E. apply (A t Ht).
Qed.

(* ================================================================================================ *)
(* 3. no blank                                                                                       *)
(* ================================================================================================ *)
Definition G_lex (t : token) : Prop :=
  (tk t = ID \/ tk t = END -> lexable (ttext t) = true) /\
  (tk t = TEMP_VAL -> lexable (ttext t) = true /\ lexable (tfile t) = true).

(* what changed with respect to C01_pipeline_lexable_unguarded_stmt: the hypothesis pr_ok p = true *)
Lemma C01_pipeline_lexable_partial : C01_pipeline_lexable_stmt.
Proof.
  intros files main p root HF Hp POK Hroot.
  destruct (pipeline_tokens G_lex files main p) as (toks2 & perrs & A & Hpr & OK); [| | |exact Hp|].
  - intros t [(_ & L & _) FL]. split.
    + intros [K|K]; apply L; [left|right; left]; exact K.
    + intros K. split; [apply L; right; right; exact K|].
      destruct FL as [E|[E|E]]; [rewrite E; reflexivity|rewrite E; reflexivity|].
      apply in_map_iff in E. destruct E as (kv & E & Hkv). rewrite Forall_forall in HF. rewrite <- E. apply HF. exact Hkv.
  - intros f l. split; [intros _; reflexivity|]. cbn [tk]. discriminate.
  - intros t l q [_ T] K. destruct (T K) as [T1 T2]. split; [|cbn [tk]; discriminate].
    intros _. cbn [ttext]. apply lexable_temp_name; assumption.
  - rewrite Hroot in Hpr. apply parse_tokens_names in Hpr. destruct Hpr as [_ S]. specialize (S (OK POK)).
    cbn [oall] in S.
    apply (tall_names lexable lexable_names (fun t line file tok l r => eq_refl) (Qs toks2)); [|exact S].
    intros tok [E|(t & Ht & E & K)]; [subst tok; reflexivity|].
    rewrite Forall_forall in A. rewrite <- E. apply (proj1 (A t Ht)). apply K. reflexivity.
Qed.

(* the statement without that hypothesis fails: main file "m" with the text  GOTO != 0  *)
Definition cex_files : files_t := [([109%N], [71; 79; 84; 79; 32; 33; 61; 32; 48]%N)].
Definition cex_main : str := [109%N].

Lemma C01_pipeline_lexable_counterexample :
  Forall (fun kv => lexable (fst kv) = true) cex_files /\
  exists p root, parse cex_files cex_main = Ok p /\ pr_root p = Some root /\ pr_ok p = false /\
                 lexable_names root = false.
Proof.
  split; [constructor; [reflexivity|constructor]|].
  vm_compute. eexists. eexists. split; [reflexivity|]. split; [reflexivity|]. split; reflexivity.
Qed.

Lemma C01_pipeline_lexable_false : ~ C01_pipeline_lexable_unguarded_stmt.
Proof.
  intros H. destruct C01_pipeline_lexable_counterexample as [F (p & root & E1 & E2 & _ & E3)].
  rewrite (H _ _ _ _ F E1 E2) in E3. discriminate.
Qed.

Print Assumptions C01_lexable_safe_proof.
Print Assumptions C01_pipeline_safe_names_proof.
Print Assumptions C01_pipeline_lexable_partial.
Print Assumptions C01_pipeline_lexable_counterexample.
Print Assumptions C01_pipeline_lexable_false.
