(* Properties_C03.v — the theorems that decide property C03 on the model, each stated in full and closed by
   `exact <lemma>`; the lemmas live in the Proofs_*.v files.  Nothing else belongs in this file. *)
From Theo Require Import Base VMModel VMSpec VMStatements VMCheck VMCheckStatements Proofs_VMCheck GenWfStatements Tokens Errors MacroExtract Parser GenModel CompileStatements Proofs_GenWf CompiledStatements Regex Lexer Scan Grammar LR MacroApply Compile Gen_Lexer Gen_Consts Proofs_Compiled.
Local Open Scope Z_scope.
Local Open Scope Z_scope.

Theorem C03_wf_meaning :
  forall p, wf_program p = true ->
    exists f ann, root_ok p = Some f /\ infer p = Some ann /\ check_local p ann = true /\
      ann_at ann 1 = Some (mkAnn 0 f None) /\
      (forall pc a i, ann_at ann pc = Some a -> znth (code p) pc = Some i ->
          instr_ok p a i = true /\
          forall pc' a', In (pc', a') (successors pc a i) -> ann_at ann pc' = Some a').
Proof. exact C03_wf_meaning_proof. Qed.
Print Assumptions C03_wf_meaning.

Theorem C03_wf_safe :
  forall p, wf_program p = true -> forall k, exists s, vm_run k (init p) = Ok s.
Proof. exact C03_wf_safe_proof. Qed.
Print Assumptions C03_wf_safe.

Theorem C03_wf_observe :
  forall p k s, wf_program p = true -> vm_run k (init p) = Ok s ->
    (exists b, isDone s = Ok b) /\ (exists v, views s = Ok v).
Proof. exact C03_wf_observe_proof. Qed.
Print Assumptions C03_wf_observe.

Theorem C03_wf_safe_hist :
  forall p h fuel, wf_program p = true -> tables_ok p = true -> no_break p = true ->
    run_hist fuel h (init p) = Fuel \/
    exists s, run_hist fuel h (init p) = Ok s /\ (exists b, isDone s = Ok b) /\ (exists v, views s = Ok v).
Proof. exact C03_wf_safe_hist_proof. Qed.
Print Assumptions C03_wf_safe_hist.

Theorem C03_gen_wf :
  forall toks root r, parse_tokens toks = Ok (Some root, []) ->
    gen true [] (Some root) = Ok r -> gr_ok r = true ->
    exists ann f, sound (gr_prog r) ann (Ecall (gr_prog r)) f.
Proof. exact C03_gen_wf_proof. Qed.
Print Assumptions C03_gen_wf.

Theorem C03_gen_safe :
  forall toks root r, parse_tokens toks = Ok (Some root, []) ->
    gen true [] (Some root) = Ok r -> gr_ok r = true ->
    forall k, exists s, vm_run k (init (gr_prog r)) = Ok s /\
                        (exists b, isDone s = Ok b) /\ (exists v, views s = Ok v) /\
                        zlen (stack s) <= zlen (exec_targets (gr_prog r)) + 1.
Proof. exact C03_gen_safe_proof. Qed.
Print Assumptions C03_gen_safe.

Theorem C03_compiled :
  forall files main c,
    compile files main = Ok c -> cr_ok c = true ->
    (forall h fuel,
       run_hist fuel h (init (cr_prog c)) = Fuel \/
       exists s, run_hist fuel h (init (cr_prog c)) = Ok s /\ (exists b, isDone s = Ok b) /\ (exists v, views s = Ok v)) /\
    (forall k, exists s, vm_run k (init (cr_prog c)) = Ok s /\
                         zlen (stack s) <= zlen (exec_targets (cr_prog c)) + 1).
Proof. exact C03_compiled_proof. Qed.
Print Assumptions C03_compiled.
