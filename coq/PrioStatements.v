(* PrioStatements.v — C20, last sentence, for macro priorities: a priority that does not fit the word is rejected with a
   range error (the C++ locates it at the token that follows the numeral) (integer literals of the program text are covered by C04_static / C04_accepts: a literal
   >= 2^31-1 makes the reference flattening undefined, hence a generator error). *)
From Theo Require Import Base Tokens Errors MacroExtract CompileStatements.
Local Open Scope Z_scope.

(* every priority numeral that is out of range is reported *)
Definition C20_priority_range_unguarded_stmt : Prop :=
  forall toks errs out macros, extract_macros toks = Ok (errs, out, macros) ->
    forall i d p n,
      znth toks i = Some d -> znth toks (i + 1) = Some p -> znth toks (i + 2) = Some n ->
      tk d = DEFINE -> tk p = PRIORITY -> tk n = INT -> INT_MAX <= strtol (ttext n) ->
      (forall e, In e errs -> pe_kind e <> e_macro_nested_define /\ pe_kind e <> e_macro_nested_as) ->
      exists e, In e errs /\ pe_kind e = e_range.

(* and the priorities of the macros that are delivered are words *)
Definition C20_priority_word_stmt : Prop :=
  forall toks errs out macros, extract_macros toks = Ok (errs, out, macros) ->
    Forall (fun m => - INT_MAX - 1 <= m_priority m <= INT_MAX) macros.

(* The statement above is false in two corner cases (refuted in Proofs_Prio.v): a stream with a T_EOF token before its end
   (the machine stops there silently: impossible for scanner output), and `DEFINE PRIORITY DEFINE PRIORITY n …`, where the
   second DEFINE is consumed by the failed match of the first definition (reported as "expected", not as nested).  For
   end-of-file terminated streams whose extraction reports no syntax error of those kinds it holds: *)
Definition C20_priority_range_stmt : Prop :=
  forall toks errs out macros, eof_terminated toks -> extract_macros toks = Ok (errs, out, macros) ->
    forall i d p n,
      znth toks i = Some d -> znth toks (i + 1) = Some p -> znth toks (i + 2) = Some n ->
      tk d = DEFINE -> tk p = PRIORITY -> tk n = INT -> INT_MAX <= strtol (ttext n) ->
      (forall e, In e errs -> pe_kind e <> e_macro_nested_define /\ pe_kind e <> e_macro_nested_as /\
                              pe_kind e <> e_macro_expect) ->
      exists e, In e errs /\ pe_kind e = e_range.

Definition C20_priority_range_needs_guards_stmt : Prop := ~ C20_priority_range_unguarded_stmt.
