(* Proofs_C01.v — C01 on the straight-line fragment.
   C01_straightline_stmt is false as written: a variable whose name is the name the generator gives to its
   temporaries ("Temporary Variable", which no lexer token can be, but an arbitrary tree can carry) shares
   a register with a temporary and is left out of the stack map (C01_straightline_refuted).
   C01_straightline_partial adds the hypothesis that no NAME node carries that name, and is proved. *)
From Coq Require Import List ZArith NArith Lia Bool.
From Theo Require Import Base Tokens Errors MacroExtract Parser VMModel VMSpec GenModel Compile RefSem C01Statements Proofs_VM_mem Proofs_VM_dbg Proofs_Gen0 Proofs_Gen Proofs_Sem.
From Theo Require Import Proofs_C01a Proofs_C01b.
Import ListNotations.
Local Open Scope Z_scope.

(* the statement of C01Statements.v with one more hypothesis: name_free temp_name_str root *)
Definition C01_straightline_partial : Prop :=
  forall root r rs,
    straight root = true -> name_free temp_name_str root = true -> literal_sum root < INT_MAX ->
    gen true [] (Some root) = Ok r -> gr_ok r = true ->
    abstract_source (Some root) = Some rs ->
    exists fuel steps trace rname rvars,
      run_ref fuel rs = OStop [(rname, rvars)] steps trace /\
      exists k s vmvars,
        vm_run k (init (gr_prog r)) = Ok s /\ isDone s = Ok true /\
        views s = Ok [(rname, vmvars)] /\ same_values vmvars rvars /\
        (steps <= k)%nat.

(* ---- the end of gen ---------------------------------------------------------------------------- *)
Lemma pop_spec g nm regs an t addr g4 : g_syms g = mkFGS nm regs an [] :: t -> pop_symbols g addr = Ok g4 ->
  g_code g4 = g_code g /\ g_maps g4 = g_maps g ++ [mkSM nm (stack_map_of regs 0)] /\
  g_funcs g4 = ainsert str_ltb (g_funcs g) nm (mkProgRec addr (zlen (g_maps g ++ [mkSM nm (stack_map_of regs 0)]) - 1) an (zlen regs)) /\
  g_todo g4 = g_todo g.
Proof.
  intros Hs H. unfold pop_symbols, get_symbols in H. rewrite Hs in H.
  cbn [hd_error of_opt bind f_marks check_marks f_name f_regs f_argnum] in H.
  inversion H; subst g4. cbn. auto.
Qed.

Lemma chain_lits_ok l : chain_lit l < INT_MAX -> lits_ok l.
Proof.
  induction l as [|s l IH]; intros H s' Hin; [destruct Hin|].
  cbn [chain_lit] in H.
  assert (Hcl : 0 <= chain_lit l).
  { clear. induction l as [|s'' l' IH']; cbn [chain_lit]; [lia|]. pose proof (val_lit_nonneg (as_v s'')). lia. }
  pose proof (val_lit_nonneg (as_v s)).
  destruct Hin as [<-|Hin]; [lia|]. apply IH; [lia | exact Hin].
Qed.

Lemma znth_zrepeat n i : 0 <= i < Z.of_nat n -> znth (zrepeat 0 n) i = Some 0.
Proof.
  intros H. unfold znth. destruct (Z.ltb_spec i 0); [lia|].
  assert (Hn : (Z.to_nat i < n)%nat) by lia. revert Hn. generalize (Z.to_nat i). clear.
  induction n as [|n IH]; intros m Hm; [lia|]. destruct m; cbn; [reflexivity|]. apply IH. lia.
Qed.

Lemma Sim_init n : Sim [] [] (zrepeat 0 n).
Proof.
  constructor.
  - intros i Hi. apply znth_zrepeat. unfold zlen in Hi. rewrite zrepeat_length in Hi. cbn in Hi. lia.
  - intros x i _ H. discriminate.
  - reflexivity.
Qed.

Lemma chain_regs_pos s l regs : 1 <= zlen (chain_regs (s :: l) regs).
Proof.
  cbn [chain_regs]. pose proof (chain_regs_le l (stmt_regs s regs)).
  pose proof (val_regs_le (as_v s) (add_var regs (as_x s))). fold (stmt_regs s regs) in H0.
  pose proof (find_reg_range _ _ _ _ (find_reg_add_var regs (as_x s))). lia.
Qed.

Lemma IsChain_nonempty n l : IsChain n l -> exists s l', l = s :: l'.
Proof. destruct 1; eauto. Qed.

Lemma C01_straightline_partial_proof : C01_straightline_partial.
Proof.
  intros root r rs Hst Hnf Hlit Hgen _ Habs.
  destruct (straight_IsChain root Hst Hnf) as (l & HC & Hok & Hcl).
  assert (Hlits : lits_ok l) by (apply chain_lits_ok; lia).
  set (pos0 := (root_ctx, root_line) : loc).
  set (code := chain_code l [] pos0).
  set (regsF := chain_regs l []).
  set (rcode := chain_rcode l pos0).
  set (varsF := chain_vars l []).
  set (N := zlen regsF).
  (* --- the generator --- *)
  unfold gen in Hgen. apply gen_gen_inv in Hgen.
  destruct Hgen as (g3 & g4 & p & i0 & c0 & g6 & Hbody & Hpop & Hp & Hi0 & Hc0 & Hbp & Hr).
  assert (Hpre : GPre ginit [] pos0) by (split; [exists name_root, 0, [], []; reflexivity | reflexivity]).
  destruct (G_chain root l HC ginit [] pos0 Hpre wf_nil Hok) as (g3' & E3 & X3).
  unfold gen_body in Hbody. cbn [negb cg_neg cg_pb cg_args cfgen_now] in Hbody.
  rewrite E3 in Hbody. inversion Hbody; subst g3'; clear Hbody.
  destruct X3 as [Xc Xm Xf Xt (nm & an & mk & t & Xs & Xs') _].
  fold code in Xc. fold regsF in Xs'.
  change (g_syms ginit) with [mkFGS name_root [] 0 []] in Xs. inversion Xs; subst nm an mk t; clear Xs.
  change (g_code ginit) with [IPrepare (-1) (-1) 0] in Xc.
  change (g_maps ginit) with (@nil stackmap) in Xm.
  change (g_funcs ginit) with (@nil (str * progrec)) in Xf.
  change (g_todo ginit) with (@nil Z) in Xt.
  destruct (pop_spec _ _ _ _ _ _ _ Xs' Hpop) as (Pc & Pm & Pf & Pt).
  rewrite Xm in Pm. rewrite Xf, Xm in Pf. rewrite Xt in Pt. rewrite Xc in Pc. cbn [app] in Pm, Pf, Pc.
  change (zlen [mkSM name_root (stack_map_of regsF 0)] - 1) with 0 in Pf. cbn [ainsert] in Pf.
  rewrite Pf in Hp. cbn [alookup] in Hp. rewrite (proj2 (str_keqb_eq name_root name_root) eq_refl) in Hp.
  inversion Hp; subst p; clear Hp. cbn [p_stack_size p_mi] in Hc0. fold N in Hc0.
  rewrite Pc in Hi0, Hc0. change (znth (IPrepare (-1) (-1) 0 :: code) 0) with (Some (IPrepare (-1) (-1) 0)) in Hi0.
  inversion Hi0; subst i0; clear Hi0. cbn [iop ic IPrepare] in Hc0.
  assert (Ec0 : c0 = IPrepare N 0 0 :: code).
  { apply Proofs_VM_mem.zupd_some in Hc0. exact Hc0. }
  unfold backpatch in Hbp. cbn [emit upd_code g_todo] in Hbp. rewrite Pt in Hbp.
  cbn [backpatch_list bind] in Hbp. inversion Hbp; subst g6; clear Hbp.
  set (prg := gr_prog r).
  assert (Ecode : VMModel.code prg = [IPrepare N 0 0] ++ code ++ [IHalt]).
  { unfold prg. rewrite Hr. cbn. rewrite Ec0. reflexivity. }
  assert (Emaps : stack_maps prg = [mkSM name_root (stack_map_of regsF 0)]).
  { unfold prg. rewrite Hr. cbn. exact Pm. }
  (* --- the flattener --- *)
  unfold abstract_source in Habs. rewrite (F_chain root l HC Hlits) in Habs.
  cbn [f_pos f_cur b_vars] in Habs. fold pos0 in Habs. change root_ctx_name with root_ctx in Habs. change root_ctx_line with root_line in Habs.
  fold pos0 in Habs. fold rcode varsF in Habs.
  cbn [fapp f_done f_cur b_name b_params b_code b_labels b_targets b_vars bemit finish_routine app forallb
       labels_set r_labels andb] in Habs.
  inversion Habs; subst rs; clear Habs.
  set (rt := mkRoutine root_name [] (rcode ++ [RHalt]) [] [] varsF).
  change (finish_routine (bemit (mkB root_name [] rcode [] [] varsF) RHalt)) with rt.
  (* --- the two runs --- *)
  destruct (IsChain_nonempty _ _ HC) as (s1 & l1 & El).
  assert (HN : 1 <= N) by (unfold N, regsF; rewrite El; apply chain_regs_pos).
  assert (WF : wf regsF) by (apply wf_chain_regs; [exact Hok | exact wf_nil]).
  assert (HVR : VR regsF varsF) by (apply VR_chain; [exact wf_nil | exact Hok | reflexivity]).
  assert (HND : NoDup varsF) by (apply chain_vars_NoDup; constructor).
  set (d0 := zrepeat 0 (Z.to_nat N)).
  assert (Ld0 : zlen d0 = N) by (unfold d0, zlen; rewrite zrepeat_length; lia).
  destruct (core_chain l [] pos0 [] d0 0 (Sim_init _) Hok ltac:(fold regsF; fold N; lia)
              ltac:(intros y; cbn; lia) ltac:(lia)) as (d' & Ex & Ld' & HS).
  fold code in Ex. fold regsF rcode in HS.
  set (stF := rexec rcode []) in *.
  destruct (views_agree regsF varsF stF d' WF HVR HND HS ltac:(fold N; lia)) as (vmvars & Erv & Hsame).
  (* reference run *)
  destruct (run_seg [rt] 0 rt [] eq_refl rcode [] [RHalt] (mkRAct [] []) 0%nat [] 1%nat eq_refl (simple_chain l pos0))
    as (tr' & Erun).
  exists (length rcode + 1)%nat, (S (length rcode)), tr', root_name, (map (fun x => (x, get stF x)) varsF).
  split.
  { unfold run_ref. cbn [length]. change (zlen (@nil rinstr)) with 0 in Erun. rewrite Erun.
    rewrite run_S. unfold body. cbn [nth_error rt r_code]. rewrite Z.add_0_l.
    change (rcode ++ [RHalt]) with (rcode ++ RHalt :: []). rewrite znth_mid. cbn [exec_instr].
    cbn [app ra_vars Nat.add]. reflexivity. }
  (* VM run *)
  set (act0 := mkAct 0 N 0 (-1) 0).
  set (s1' := mkVM false 1 prg d0 [act0] []).
  assert (E1 : exec1 (init prg) = Ok (s1', false)).
  { unfold exec1, exec1_gen, init. cbn [prog ip]. rewrite Ecode.
    change (znth ([IPrepare N 0 0] ++ code ++ [IHalt]) 0) with (Some (IPrepare N 0 0)).
    cbn [of_opt bind iop IPrepare ia ib ic data stepping stack enabled app]. reflexivity. }
  pose proof (vm_run_seg code [IPrepare N 0 0] [IHalt] s1' act0 d' Ecode eq_refl eq_refl eq_refl Ex) as E2.
  cbn [stepping prog stack enabled s1'] in E2.
  set (s2 := mkVM false (zlen [IPrepare N 0 0] + zlen code) prg d' [act0] []) in *.
  exists (S (length code)), s2, vmvars.
  split; [cbn [vm_run]; rewrite E1; cbn [bind fst]; exact E2|].
  split.
  { unfold isDone. cbn [prog ip s2]. rewrite Ecode. rewrite app_assoc. rewrite <- zlen_app.
    rewrite znth_mid. reflexivity. }
  split.
  { unfold views. change (stack s2) with [act0]. cbn [rev app views_of].
    change (debug_info act0) with 0. change (prog s2) with prg. rewrite Emaps.
    change (znth [mkSM name_root (stack_map_of regsF 0)] 0) with (Some (mkSM name_root (stack_map_of regsF 0))).
    cbn [of_opt bind]. unfold getActivationVariables.
    change (debug_info act0) with 0. change (prog s2) with prg. rewrite Emaps.
    change (znth [mkSM name_root (stack_map_of regsF 0)] 0) with (Some (mkSM name_root (stack_map_of regsF 0))).
    cbn [of_opt bind smap func_name].
    change (seg_size act0) with N. change (data_start act0) with 0. change (data s2) with d'.
    destruct (Z.leb_spec N 0); [lia|]. rewrite Erv. reflexivity. }
  split; [exact Hsame|].
  pose proof (len_chain l [] pos0). fold rcode code in H. lia.
Qed.


(* ---- the statement of C01Statements.v is false ----------------------------------------------------- *)
(*   a := a + 1 ; "Temporary Variable" := 5     (both on their own line of file "f") *)
Definition cex_file : str := [102%N].
Definition cex_name (l : Z) (s : str) : node := Node N_NAME l cex_file s None None.
Definition cex_num (l : Z) (s : str) : node := Node N_NUMBER l cex_file s None None.
Definition cex_a : str := [97%N].
Definition cex_inc : node :=
  Node N_CALL 1 cex_file [] (Some (cex_name 1 name_INC))
    (Some (Node N_SPLIT 1 cex_file [] (Some (cex_name 1 cex_a))
             (Some (Node N_SPLIT 1 cex_file [] (Some (cex_num 1 [49%N])) None)))).
Definition cex : node :=
  Node N_SPLIT 1 cex_file [] (Some (Node N_ASSIGN 1 cex_file [] (Some (cex_name 1 cex_a)) (Some cex_inc)))
    (Some (Node N_SPLIT 2 cex_file []
             (Some (Node N_ASSIGN 2 cex_file [] (Some (cex_name 2 temp_name_str)) (Some (cex_num 2 [53%N])))) None)).

Lemma halted_exec1 s : isDone s = Ok true -> exec1 s = Ok (s, true).
Proof.
  unfold isDone, exec1, exec1_gen. destruct (of_opt ub_index (znth (code (prog s)) (ip s))) as [i| |]; cbn [bind]; try discriminate.
  destruct (iop i); cbn [opcode_eqb]; intros H; try discriminate. reflexivity.
Qed.

Lemma halted_run s : isDone s = Ok true -> forall k, vm_run k s = Ok s.
Proof.
  intros H. induction k as [|k IH]; cbn [vm_run]; [reflexivity|]. rewrite (halted_exec1 s H). cbn [bind fst]. exact IH.
Qed.

Lemma vm_run_add n : forall m s, vm_run (n + m) s = do s' <- vm_run n s; vm_run m s'.
Proof.
  induction n as [|n IH]; intros m s; cbn [Nat.add vm_run bind]; [reflexivity|].
  destruct (exec1 s) as [[s' b]| |]; cbn [bind fst]; [apply IH | reflexivity | reflexivity].
Qed.

Lemma C01_straightline_refuted : ~ C01_straightline_stmt.
Proof.
  intros H. specialize (H cex).
  destruct (gen true [] (Some cex)) as [r| |] eqn:Eg; [|vm_compute in Eg; discriminate..].
  destruct (abstract_source (Some cex)) as [rs|] eqn:Ea; [|vm_compute in Ea; discriminate].
  specialize (H r rs eq_refl ltac:(vm_compute; reflexivity) eq_refl).
  vm_compute in Eg. inversion Eg; subst r; clear Eg.
  vm_compute in Ea. inversion Ea; subst rs; clear Ea.
  specialize (H eq_refl eq_refl).
  destruct H as (fuel & steps & trace & rname & rvars & Hrun & k & s & vmvars & Hvm & Hdone & Hviews & [Hsame _] & _).
  (* the reference view contains the variable with the reserved name *)
  assert (Hin : In (temp_name_str, 5) rvars).
  { unfold run_ref in Hrun. cbn [length] in Hrun.
    match type of Hrun with run ?rs fuel ?c ?kk ?a ?pc ?st ?tr = _ =>
      assert (E5 : run rs fuel c kk a pc st tr = run rs 5 c kk a pc st tr) end.
    { destruct (Nat.le_ge_cases fuel 5) as [Hle|Hge].
      - symmetry. apply C01_ref_fuel_mono_proof; [rewrite Hrun; exact I | exact Hle].
      - apply C01_ref_fuel_mono_proof; [vm_compute; exact I | exact Hge]. }
    rewrite E5 in Hrun. vm_compute in Hrun. inversion Hrun; subst. right; left; reflexivity. }
  specialize (Hsame _ _ Hin).
  (* the VM view does not *)
  assert (Hk : (k < 7)%nat \/ exists j, k = (7 + j)%nat).
  { destruct (Nat.lt_ge_cases k 7); [left; assumption | right; exists (k - 7)%nat; lia]. }
  destruct Hk as [Hk|[j ->]].
  - do 7 (destruct k as [|k]; [vm_compute in Hvm; inversion Hvm; subst s; vm_compute in Hdone; discriminate|]). lia.
  - rewrite vm_run_add in Hvm.
    match type of Hvm with bind ?x _ = _ => destruct x as [s7| |] eqn:E7; [|vm_compute in E7; discriminate..] end.
    vm_compute in E7. inversion E7; subst s7; clear E7. cbn [bind] in Hvm.
    rewrite halted_run in Hvm by (vm_compute; reflexivity).
    inversion Hvm; subst s; clear Hvm.
    vm_compute in Hviews. inversion Hviews; subst. vm_compute in Hsame. discriminate.
Qed.

Print Assumptions C01_straightline_partial_proof.
Print Assumptions C01_straightline_refuted.
