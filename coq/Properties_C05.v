(* Properties_C05.v — the theorems that decide property C05 on the model, each stated in full and closed by
   `exact <lemma>`; the lemmas live in the Proofs_*.v files.  Nothing else belongs in this file. *)
From Theo Require Import Base VMModel VMSpec VMStatements Proofs_VM_mem Proofs_VM_dbg CompiledStatements Regex Tokens Errors Lexer Scan MacroExtract Grammar LR MacroApply Parser VMCheck VMCheckStatements GenModel Compile Gen_Lexer Gen_Consts CompileStatements Proofs_Compiled.
Local Open Scope Z_scope.

Theorem C05_exec_core :
  forall s s' b, exec1 s = Ok (s', b) -> exists b', exec1 (strip s) = Ok (strip s', b').
Proof. exact C05_exec_core_proof. Qed.
Print Assumptions C05_exec_core.

Theorem C05_ops_core :
  forall p s c fuel s' r, tables_ok p = true -> rel p s -> is_debug_op c = true ->
    api_step fuel s c = Ok (s', r) -> strip s' = strip s.
Proof. exact C05_ops_core_proof. Qed.
Print Assumptions C05_ops_core.

Theorem C05_transparent :
  forall p h fuel s, tables_ok p = true -> no_break p = true ->
    run_hist fuel h (init p) = Ok s -> exists n, vm_run n (init p) = Ok (strip s).
Proof. exact C05_transparent_proof. Qed.
Print Assumptions C05_transparent.

Theorem C05_same_result :
  forall p h fuel s, tables_ok p = true -> no_break p = true ->
    run_hist fuel h (init p) = Ok s -> isDone s = Ok true ->
    forall m s0, vm_run m (init p) = Ok s0 -> isDone s0 = Ok true ->
      views s0 = views s /\ data s0 = data s /\ stack s0 = stack s /\ ip s0 = ip s.
Proof. exact C05_same_result_proof. Qed.
Print Assumptions C05_same_result.

Theorem C05_compiled :
  forall files main c h fuel s,
    compile files main = Ok c -> run_hist fuel h (init (cr_prog c)) = Ok s ->
    (exists n, vm_run n (init (cr_prog c)) = Ok (strip s)) /\
    (isDone s = Ok true ->
       forall m s0, vm_run m (init (cr_prog c)) = Ok s0 -> isDone s0 = Ok true ->
         views s0 = views s /\ data s0 = data s /\ stack s0 = stack s /\ ip s0 = ip s).
Proof. exact C05_compiled_proof. Qed.
Print Assumptions C05_compiled.
