(* LRCompleteStatements.v — completeness and unambiguity of the generated LR(1) parsers (C13), stated for grammars
   built through createNonTerminal/add (rhs_closed) that do not mention the end marker (eof_fresh). *)
From Coq Require Import Sorting.Sorted.
From Theo Require Import Base Grammar LR SpecMacro SpecLR LRStatements Proofs_First Proofs_LRSound0 Proofs_LRSound.
Local Open Scope N_scope.

(* full mode: without conflicts every sentence followed by the end marker is accepted, with the fold of its tree *)
Definition C13_complete_full_stmt : Prop :=
  forall (T V : Type) (translator : T -> N) (creator : T -> V) (semantic : sym -> N -> list V -> V)
         max_states g S eof g' tab states (tr : tree) tok rest,
    wf_grammar g -> start_ok g S eof -> rhs_closed g -> eof_fresh g eof ->
    generate_tables max_states g false S eof = Ok (g', tab, [], states) ->
    valid translator g tr -> root translator tr = S -> Tm (translator tok) = eof ->
    exists fuel, parse translator creator semantic tab fuel (yield tr ++ tok :: rest) = Ok (Some (value creator semantic tr)).

(* prefix mode: without conflicts an input that starts with a sentence, followed by at least one more token the tables
   have a column for, is accepted *)
Definition C13_complete_prefix_stmt : Prop :=
  forall (T V : Type) (translator : T -> N) (creator : T -> V) (semantic : sym -> N -> list V -> V)
         max_states g S eof g' tab states (tr : tree) tok rest,
    wf_grammar g -> start_ok g S eof -> rhs_closed g -> eof_fresh g eof ->
    generate_tables max_states g true S eof = Ok (g', tab, [], states) ->
    valid translator g tr -> root translator tr = S -> translator tok <= max_term g' ->
    exists fuel v, parse translator creator semantic tab fuel (yield tr ++ tok :: rest) = Ok (Some v).

(* hence a conflict-free grammar is unambiguous: two derivation trees of the start symbol with the same yield are equal
   (contrapositive: an ambiguous grammar has a conflict) *)
Definition C13_unambiguous_stmt : Prop :=
  forall max_states g S eof g' tab states (tr1 tr2 : @tree N),
    wf_grammar g -> start_ok g S eof -> rhs_closed g -> eof_fresh g eof ->
    generate_tables max_states g false S eof = Ok (g', tab, [], states) ->
    valid (fun t => t) g tr1 -> valid (fun t => t) g tr2 ->
    root (fun t => t) tr1 = S -> root (fun t => t) tr2 = S ->
    yield tr1 = yield tr2 -> tr1 = tr2.
