(* Proofs_C07s5c.v — C07 with calls, part 3: the walk of Proofs_C01s4j.v (values with calls) over the invariant J4x.
   The proofs are those of Proofs_C01s4j.v, with the primitive steps of Proofs_C07s5a.v. *)
From Coq Require Import List ZArith NArith Lia Bool.
From Theo Require Import Base Tokens Errors MacroExtract Parser VMModel VMSpec GenModel Compile RefSem RefSemChk C01Statements C01Stages C01Stages3 C01Stages4 Gen_Consts Proofs_VM_mem Proofs_VM_dbg Proofs_Gen0 Proofs_Gen Proofs_Sem Proofs_C01a Proofs_C01b Proofs_C01 Proofs_C01s2a Proofs_C01s2b Proofs_C01s2c Proofs_C01s2d Proofs_C01s2 Proofs_C01s3a Proofs_C01s3b Proofs_C01s3c Proofs_C01s3d Proofs_C01s4a Proofs_C01s4b Proofs_C01s4g Proofs_C01s4h Proofs_C01s4i Proofs_C01s4j Proofs_C07b Proofs_C07s5a Proofs_C07s5b.
Import ListNotations.
Local Open Scope Z_scope.

Section Values4.
  Variable P0 : Z.
  Variable FT : ftab.
  Variable LS : list Z.
  Notation J4x := (J4x P0 FT LS).
  Notation VResx := (VResx P0 FT LS).
  Notation PVx := (PVx P0 FT LS).

  (* ---- ARG i <- t_i, releasing each temporary ---- *)
  Lemma Nx_emit_args : forall ts g s lmap p i0 g', J4x g s lmap p -> (forall t, In t ts -> RT g t) ->
    emit_args g ts i0 = Ok g' ->
    J4x g' s lmap (p + zlen ts) /\ Ext g g' /\ gpos g' = gpos g /\
    (exists blk, g_code g' = g_code g ++ blk /\ zlen blk = zlen ts /\
       forall i t, nth_error ts i = Some t -> znth blk (Z.of_nat i) = Some (IArg (i0 + Z.of_nat i) t)) /\
    (forall t, InUse g t -> ~ In t ts -> InUse g' t).
  Proof.
    induction ts as [|a ts IH]; intros g s lmap p i0 g' HJ HT HD; cbn [emit_args] in HD.
    - inversion HD; subst g'. unfold zlen at 1. cbn [length]. rewrite Z.add_0_r.
      split; [exact HJ|]. split; [apply Ext_refl; apply HJ|]. split; [reflexivity|]. split; [|auto].
      exists []. rewrite app_nil_r. split; [reflexivity|]. split; [reflexivity|]. intros i t H; destruct i; discriminate.
    - destruct (Lx_emit P0 FT LS g s lmap p (IArg i0 a) HJ) as [J1 X1].
      destruct (Lx_rel P0 FT LS (emit g (IArg i0 a)) s lmap (p + 1) a J1 (RT_ext _ _ _ X1 (HT a (or_introl eq_refl))))
        as (g1 & E1 & J2 & X2 & S2).
      rewrite E1 in HD. cbn [bind] in HD.
      destruct (IH g1 s lmap (p + 1) (i0 + 1) g' J2) as (JF & XF & PF & (blk & EC & LB & HB) & UF); [|exact HD|].
      { intros t Ht. apply (RT_ext _ _ _ X2). apply (RT_ext _ _ _ X1). apply HT. right; exact Ht. }
      rewrite zlen_cons. split; [replace (p + (zlen ts + 1)) with (p + 1 + zlen ts) by lia; exact JF|].
      split; [eapply Ext_trans; [exact X1|]; eapply Ext_trans; eauto|].
      split; [rewrite PF, (sm_pos _ _ S2); reflexivity|]. split.
      + exists (IArg i0 a :: blk). rewrite EC, (sm_code _ _ S2). cbn [emit upd_code g_code]. rewrite <- app_assoc. cbn [app].
        split; [reflexivity|]. split; [rewrite zlen_cons; lia|].
        intros i t Hi. destruct i as [|i]; cbn [nth_error] in Hi.
        * inversion Hi; subst. cbn. rewrite Z.add_0_r. reflexivity.
        * specialize (HB i t Hi). rewrite Nat2Z.inj_succ. unfold znth in *.
          destruct (Z.ltb_spec (Z.of_nat i) 0); [lia|]. destruct (Z.ltb_spec (Z.succ (Z.of_nat i)) 0); [lia|].
          replace (Z.to_nat (Z.succ (Z.of_nat i))) with (S (Z.to_nat (Z.of_nat i))) by lia. cbn [nth_error].
          rewrite HB. f_equal. f_equal. lia.
      + intros t Hu Hn. apply UF; [|intros Hin; apply Hn; right; exact Hin].
        eapply release_inuse; [exact E1 | intros ->; apply Hn; left; reflexivity |].
        destruct Hu as (r0 & Hz & Hu). exists r0. auto.
  Qed.

  (* ---- a call of a user program, after its arguments ---- *)
  Lemma Nx_plain g2 s2 lmap p ts rvs name tgt g' s' rv :
    J4x g2 s2 lmap p -> GF FT g2 s2 -> (forall t, In t ts -> RT g2 t) -> length ts = length rvs ->
    call_plain g2 ts name tgt = Ok g' -> resolve_call s2 name rvs = Some (s', rv) ->
    exists j entry size mi blk,
      rv = RCall j rvs /\ s' = s2 /\ FT j = Some (entry, size, mi) /\
      J4x g' s2 lmap (p + zlen ts + 2) /\ Ext g2 g' /\ gpos g' = gpos g2 /\
      g_code g' = (g_code g2 ++ [IPrepare size mi tgt]) ++ blk ++ [IExec entry] /\ zlen blk = zlen ts /\
      (forall i t, nth_error ts i = Some t -> znth blk (Z.of_nat i) = Some (IArg (Z.of_nat i) t)) /\
      (forall t, InUse g2 t -> ~ In t ts -> InUse g' t).
  Proof.
    intros HJ HG HT Hlen HD HF.
    unfold resolve_call in HF. destruct (lookup_name (f_names s2) name) as [j|] eqn:El; [|discriminate].
    destruct (nth_error (f_done s2) j) as [callee|] eqn:Ej; [|discriminate].
    destruct (Nat.eqb (length rvs) (length (r_params callee))) eqn:Ea; [|discriminate]. apply Nat.eqb_eq in Ea.
    inversion HF; subst s' rv; clear HF.
    destruct (HG _ _ El) as (callee' & pr & Ej' & Ef & EFT & Earg). rewrite Ej in Ej'. inversion Ej'; subst callee'.
    unfold call_plain in HD. rewrite Ef in HD.
    assert (Earg' : p_argnum pr =? zlen ts = true) by (apply Z.eqb_eq; rewrite Earg; unfold zlen; rewrite Hlen, Ea; reflexivity).
    rewrite Earg' in HD. cbn [negb] in HD. cbv zeta in HD.
    destruct (Lx_emit P0 FT LS g2 s2 lmap p (IPrepare (p_stack_size pr) (p_mi pr) tgt) HJ) as [J1 X1].
    set (g3 := emit g2 (IPrepare (p_stack_size pr) (p_mi pr) tgt)) in *.
    destruct (emit_args g3 ts 0) as [g4| |] eqn:EA; cbn [bind] in HD; try discriminate. inversion HD; subst g'; clear HD.
    destruct (Nx_emit_args ts g3 s2 lmap (p + 1) 0 g4 J1) as (J2 & X2 & P2 & (blk & EC & LB & HB) & U2); [|exact EA|].
    { intros t Ht. apply (RT_ext _ _ _ X1). apply HT; exact Ht. }
    destruct (Lx_emit P0 FT LS g4 s2 lmap _ (IExec (p_ind pr)) J2) as [J3 X3].
    exists j, (p_ind pr), (p_stack_size pr), (p_mi pr), blk.
    split; [reflexivity|]. split; [reflexivity|]. split; [exact EFT|].
    split; [replace (p + zlen ts + 2) with (p + 1 + zlen ts + 1) by lia; exact J3|].
    split; [eapply Ext_trans; [exact X1|]; eapply Ext_trans; eauto|].
    split; [transitivity (gpos g4); [reflexivity | exact P2]|].
    split; [cbn [emit upd_code g_code]; rewrite EC; cbn [g3 emit upd_code g_code]; rewrite <- !app_assoc; reflexivity|].
    split; [exact LB|]. split; [intros i t Hi; specialize (HB i t Hi); rewrite Z.add_0_l in HB; exact HB|].
    intros t Hu Hn. destruct (U2 t) as (r0 & Hz & Hu0); [destruct Hu as (r0 & Hz & Hu0); exists r0; auto | exact Hn|]. exists r0. auto.
  Qed.

  (* ---- all values ---- *)
  Theorem Nx_value_all : forall v, all_sub PVx v.
  Proof.
    apply all_sub_intro. intros t line file tok l r Hl Hr.
    intros Hv4 Hlex f0 l0 Hon g s lmap p tgt g' s' rv HJ Ha HG HD HF.
    pose proof (Jx_pos _ _ _ _ _ _ _ HJ) as Hpos.
    assert (Has : at_loc (f_pos s) f0 l0) by (rewrite Hpos; exact Ha).
    pose proof (on_line_node _ _ _ _ _ _ _ _ Hon) as Hn.
    destruct t; try discriminate Hv4.
    - (* a variable *)
      assert (Hx : lexable tok = true).
      { cbn [lexable_names] in Hlex. rewrite !andb_true_iff in Hlex. apply Hlex. }
      rewrite (flat_name_eq _ _ _ _ _ _ _ _ Has Hn) in HF. inversion HF; subst s' rv; clear HF.
      destruct (Nx_name P0 FT LS g s lmap p f0 l0 line file tok l r tgt Hx Hn HJ Ha) as (g1 & E1 & J1 & X1 & F1 & P1 & C1 & V1 & U1).
      rewrite E1 in HD. inversion HD; subst g1; clear HD. cbn [vlen4 vlen].
      constructor; auto.
      + rewrite C1, zlen_snoc. reflexivity.
      + eapply VM4_var; [exact V1|]. rewrite C1. apply znth_app_last.
      + intros t0 (r0 & Hz & Hu). exists r0. auto.
    - (* a literal *)
      rewrite (flat_number_eq _ _ _ _ _ _ _ _ Has Hn) in HF.
      destruct (Z.leb_spec INT_MAX (strtol tok)) as [|Hlt]; [discriminate|]. inversion HF; subst s' rv; clear HF.
      rewrite (N_number g f0 l0 line file tok l r tgt Hlt Hn Ha) in HD. inversion HD; subst g'; clear HD.
      destruct (Lx_emit P0 FT LS g s lmap p (IConst tgt (strtol tok)) HJ) as [J2 X2]. cbn [vlen4 vlen].
      constructor; auto.
      + apply FExt_refl.
      + cbn [emit upd_code g_code]. rewrite zlen_snoc. reflexivity.
      + pose proof (strtol_nonneg tok). eapply VM4_num; [lia|]. cbn [emit upd_code g_code]. apply znth_app_last.
    - (* a call *)
      destruct l as [f|]; [|discriminate Hv4]. rewrite value4_call in Hv4. apply andb_true_iff in Hv4. destruct Hv4 as [Hf Hsh].
      rewrite dv_call in HD. rewrite (adv_noop _ _ _ _ _ Ha Hn) in HD.
      rewrite flat_value_call' in HF. rewrite (mv_noop _ _ _ _ _ Has Hn) in HF.
      assert (Hlr : match r with Some a => lexable_names a = true | None => True end).
      { cbn [lexable_names] in Hlex. rewrite !andb_true_iff in Hlex. destruct r; [apply Hlex | exact I]. }
      assert (Honr : match r with Some a => on_line f0 l0 a = true | None => True end).
      { cbn [on_line] in Hon. rewrite !andb_true_iff in Hon. destruct r; [apply Hon | exact I]. }
      (* the arguments *)
      assert (HA : exists g2 ts s2 rvs,
                call_args_o (dispatch_value false) r (g, []) = Ok (g2, ts) /\
                match r with None => Some (s, []) | Some rn0 => fargs rn0 (s, []) end = Some (s2, rvs) /\
                length rvs = nargs_o r /\ length ts = length rvs /\
                J4x g2 s2 lmap (p + alen4 rvs) /\ Ext g g2 /\ FExt s s2 /\ gpos g2 = gpos g /\
                zlen (g_code g2) = zlen (g_code g) + alen4 rvs /\
                (forall t, InUse g t -> InUse g2 t) /\ (forall t, In t ts -> InUse g2 t /\ RT g2 t /\ Sfree g t) /\
                amatch4 (RMof (gks g2)) (g_code g2) FT rvs ts (zlen (g_code g)) (Sfree g) []).
      { destruct r as [a|].
        - cbn [call_args_o] in HD |- *. cbn [optP] in Hr.
          destruct (call_args (dispatch_value false) a (g, [])) as [[g2 ts]| |] eqn:EA; cbn [bind] in HD; try discriminate.
          destruct (fargs a (s, [])) as [[s2 rvs]|] eqn:EFa; [|discriminate].
          destruct (Nx_args P0 FT LS a Hr Hsh Hlr f0 l0 Honr g s lmap p [] [] g2 ts s2 rvs HJ Ha HG EA EFa)
            as (ts' & rvs' & E1 & E2 & Hlen & JF & XF & FF & PF & LF & UF & TF & AF).
          cbn [app] in E1, E2. subst ts' rvs'.
          exists g2, ts, s2, rvs. split; [reflexivity|]. split; [reflexivity|]. split; [exact Hlen|].
          assert (AM := AF (Sfree g) [] (fun t H => H) (fun t (H : In t []) => match H with end)).
          split; [exact (amatch4_length _ _ _ _ _ _ _ _ AM)|]. repeat (split; [assumption|]). exact AM.
        - exists g, [], s, []. cbn [call_args_o alen4 nargs_o length]. rewrite Z.add_0_r.
          split; [reflexivity|]. split; [reflexivity|]. split; [reflexivity|]. split; [reflexivity|].
          split; [exact HJ|]. split; [apply Ext_refl; apply HJ|]. split; [apply FExt_refl|]. split; [reflexivity|].
          split; [lia|]. split; [auto|]. split; [intros t []|]. constructor. }
      destruct HA as (g2 & ts & s2 & rvs & EA & EFa & Hnr & Hlts & J2 & X2 & F2 & P2 & L2 & U2 & T2 & AM).
      rewrite EA in HD. cbn [bind] in HD. rewrite EFa in HF.
      assert (HG2 : GF FT g2 s2) by (eapply GF_ext; eauto).
      assert (Hshr : rshape r) by (destruct r; [exact Hsh | exact I]).
      (* which kind of call *)
      destruct (is_b2 r && (str_eqb (n_tok f) name_INC || str_eqb (n_tok f) name_DEC)) eqn:Ekind.
      + (* the +/- sugar *)
        apply andb_true_iff in Ekind. destruct Ekind as [Eb Eop].
        destruct (is_b2_inv _ Eb) as (l1 & f1 & k1 & l3 & f3 & y & c1 & c2 & l2 & f2 & k2 & l4 & f4 & ctok & c3 & c4 & ->).
        assert (Hn12 : node_on f0 l0 f3 l3 = true /\ node_on f0 l0 f4 l4 = true).
        { cbn [on_line] in Honr. rewrite !andb_true_iff in Honr. tauto. }
        destruct Hn12 as [Hn1 Hn2].
        (* the flattener's arguments *)
        rewrite fargs_eq in EFa. cbn [fargs_opt] in EFa. rewrite fargs_eq in EFa. cbn [fst snd] in EFa.
        rewrite (flat_name_eq _ _ _ _ _ _ _ _ Has Hn1) in EFa. cbn [app] in EFa.
        rewrite fargs_eq in EFa. cbn [fargs_opt] in EFa. rewrite fargs_eq in EFa. cbn [fst snd] in EFa.
        assert (Has1 : at_loc (f_pos (with_cur s (mention (f_cur s) y))) f0 l0) by exact Has.
        rewrite (flat_number_eq _ _ _ _ _ _ _ _ Has1 Hn2) in EFa.
        destruct (Z.leb_spec INT_MAX (strtol ctok)) as [|Hlt]; [discriminate|]. cbn [app] in EFa.
        inversion EFa; subst s2 rvs; clear EFa.
        pose proof (strtol_nonneg ctok) as Hc0.
        assert (Hlit : lit_of ctok = strtol ctok) by (apply lit_of_small; exact Hlt).
        destruct ts as [|t1 [|t2 [|t3 ts]]]; try discriminate Hlts.
        inversion AM as [|v0 vs0 t0 ts0 q0 S0 S1 prot0 Tt1 St1 Hn1' HS1 Hvm1 AM2]; subst.
        inversion AM2 as [|v0 vs0 t0 ts0 q0 S0 S2 prot0 Tt2 St2 Hn2' HS2 Hvm2 AM3]; subst.
        inversion Hvm1 as [y0 tgt0 q0 S0 ry Hy Z0| | | |]; subst.
        inversion Hvm2 as [|c0 tgt0 q0 S0 Hcb Z1| | |]; subst. cbn [vlen4 vlen] in Z1.
        (* the generator's last instruction *)
        rewrite call_tail_op in HD by exact Eop. rewrite Hlit in HD. inversion HD; subst g'; clear HD.
        unfold builtin_of in HF. cbn [n_type] in HF. unfold lit in HF. cbn [n_tok] in HF. fold (lit_of ctok) in HF. rewrite Hlit in HF.
        set (cc := if str_eqb (n_tok f) name_INC then strtol ctok else wrap_int (- strtol ctok)) in *.
        destruct (Lx_emit P0 FT LS g2 _ lmap _ (IAdd tgt t1 cc) J2) as [J3 X3].
        set (gF := emit g2 (IAdd tgt t1 cc)) in *.
        assert (Ecode : g_code gF = g_code g2 ++ [IAdd tgt t1 cc]) by reflexivity.
        assert (Hne : t1 <> t2) by (intros ->; apply Hn2'; left; reflexivity).
        assert (Hres : exists rv0 cc0, rv = rv0 /\ s' = with_cur s (mention (f_cur s) y) /\ vlen4 rv0 = 3 /\ cc = cc0 /\
                  (rv0 = RInc (RVar y) (strtol ctok) /\ cc0 = strtol ctok \/ rv0 = RDec (RVar y) (strtol ctok) /\ cc0 = - strtol ctok)).
        { unfold cc. unfold name_INC, name_DEC in *. destruct (str_eqb (n_tok f) _) eqn:Ei.
          - inversion HF; subst. eexists _, _. split; [reflexivity|]. split; [reflexivity|]. split; [reflexivity|].
            split; [reflexivity|]. left. split; reflexivity.
          - cbn [orb] in Eop. rewrite Eop in HF. inversion HF; subst.
            eexists _, _. split; [reflexivity|]. split; [reflexivity|]. split; [reflexivity|].
            split; [apply wrap_int_neg; lia|]. right. split; reflexivity. }
        destruct Hres as (rv0 & cc0 & -> & -> & Hvl & Ecc & Hcase).
        cbn [alen4 vlen4 vlen] in J2, L2. 
        destruct (T2 t1 (or_introl eq_refl)) as (_ & RT1 & SF1). destruct (T2 t2 (or_intror (or_introl eq_refl))) as (_ & RT2 & SF2).
        constructor.
        * rewrite Hvl. replace (p + 3) with (p + (1 + (1 + 0)) + 1) by lia. exact J3.
        * eapply Ext_trans; eauto.
        * exact F2.
        * transitivity (gpos g2); [reflexivity | exact P2].
        * rewrite Ecode, zlen_snoc, L2, Hvl. lia.
        * assert (Z0' : znth (g_code gF) (zlen (g_code g)) = Some (IAdd t1 ry 0)) by (rewrite Ecode; apply znth_app_some; exact Z0).
          assert (Z1' : znth (g_code gF) (zlen (g_code g) + 1) = Some (IConst t2 (strtol ctok))) by (rewrite Ecode; apply znth_app_some; exact Z1).
          assert (Z2' : znth (g_code gF) (zlen (g_code g) + 2) = Some (IAdd tgt t1 cc)).
          { rewrite Ecode. replace (zlen (g_code g) + 2) with (zlen (g_code g2)) by lia. apply znth_app_last. }
          rewrite Ecc in Z2'.
          destruct Hcase as [[-> ->]|[-> ->]];
            [eapply VM4_inc with (t1 := t1) (t2 := t2) | eapply VM4_dec with (t1 := t1) (t2 := t2)]; eauto; lia.
        * intros t0 H0. destruct (U2 t0 H0) as (r0 & Hz & Hu). exists r0. auto.
      + (* a call of a user program *)
        unfold call_tail in HD. cbn [child of_opt bind] in HD.
        destruct (call_const_b2 (Some f) r ts Hshr ltac:(congruence)) as (x & Ex & Hx).
        rewrite Ex in HD. cbn [bind] in HD.
        assert (HDp : call_plain g2 ts (n_tok f) tgt = Ok g').
        { apply andb_false_iff in Ekind. destruct Ekind as [Eb|Eop].
          - rewrite (Hx Eb) in HD. exact HD.
          - rewrite Eop in HD. destruct x; exact HD. }
        assert (HFp : resolve_call s2 (n_tok f) rvs = Some (s', rv)).
        { apply andb_false_iff in Ekind. destruct Ekind as [Eb|Eop].
          - rewrite (builtin_b2 r rvs Hnr Hshr Eb) in HF. exact HF.
          - apply orb_false_iff in Eop. destruct Eop as [E1 E2]. unfold name_INC, name_DEC in *.
            destruct (builtin_of r rvs) as [[v1 c]|]; [rewrite E1, E2 in HF|]; exact HF. }
        destruct (Nx_plain g2 s2 lmap _ ts rvs (n_tok f) tgt g' s' rv J2 HG2 (fun t Ht => proj1 (proj2 (T2 t Ht))) Hlts HDp HFp)
          as (j & entry & size & mi & blk & -> & -> & EFT & J3 & X3 & P3 & EC & LB & HB & U3).
        assert (Lz : zlen ts = zlen rvs) by (unfold zlen; rewrite Hlts; reflexivity).
        constructor; rewrite ?vlen4_call.
        * replace (p + (alen4 rvs + zlen rvs + 2)) with (p + alen4 rvs + zlen ts + 2) by lia. exact J3.
        * eapply Ext_trans; eauto.
        * exact F2.
        * rewrite P3. exact P2.
        * rewrite EC, !zlen_app. change (zlen [IPrepare size mi tgt]) with 1. change (zlen [IExec entry]) with 1. lia.
        * eapply VM4_call with (ts := ts) (entry := entry) (size := size) (mi := mi).
          -- exact EFT.
          -- destruct (vmatch4_move (RMof (gks g2)) (RMof (gks g')) (g_code g2) (g_code g') FT FT (Ext_rm _ _ X3) (fun j0 x0 H => H)) as [_ Ma].
             eapply Ma; [exact AM | auto |]. rewrite EC. intros q' ins _ Hz _. rewrite <- app_assoc. apply znth_app_some; exact Hz.
          -- rewrite EC. apply znth_app_some. replace (zlen (g_code g) + alen4 rvs) with (zlen (g_code g2)) by lia. apply znth_app_last.
          -- intros i t Hi. rewrite EC. rewrite znth_app_r by (rewrite zlen_snoc; lia).
             rewrite zlen_snoc. replace (zlen (g_code g) + alen4 rvs + 1 + Z.of_nat i - (zlen (g_code g2) + 1)) with (Z.of_nat i) by lia.
             apply znth_app_some. apply HB; exact Hi.
          -- rewrite EC. rewrite app_assoc. replace (zlen (g_code g) + alen4 rvs + 1 + zlen rvs) with (zlen ((g_code g2 ++ [IPrepare size mi tgt]) ++ blk))
               by (rewrite zlen_app, zlen_snoc; lia). apply znth_app_last.
        * intros t0 H0. apply U3; [apply U2; exact H0|]. intros Hin. destruct (T2 _ Hin) as (_ & _ & SF). exact (SF H0).
  Qed.
End Values4.
