(* Proofs_Static4.v — helper lemmas for Proofs_Static.v (C04_static), part 5: the relation between the state of the
   generator and the state of the flattener, and how the label operations of both sides keep it. *)
From Coq Require Import List ZArith NArith Lia Bool Sorting.Sorted.
From Theo Require Import Base Tokens Errors MacroExtract Parser VMModel GenModel RefSem SpecGrammar CompileStatements AcceptStatements Proofs_VM_dbg Proofs_Front Proofs_Gen0 Proofs_Gen Proofs_Sem Proofs_Static0 Proofs_Static1 Proofs_Static2 Proofs_Static3.
Import ListNotations.
Local Open Scope Z_scope.

(* ---- label lists of the flattener ---------------------------------------------------------------- *)
Fixpoint lab_find (l : list (str * Z)) (n : str) : option Z :=
  match l with [] => None | (k, v) :: t => if str_eqb k n then Some v else lab_find t n end.

Lemma str_eqb_refl a : str_eqb a a = true.
Proof. apply str_eqb_eq. reflexivity. Qed.

Lemma str_eqb_false a b : a <> b -> str_eqb a b = false.
Proof. intros H. destruct (str_eqb a b) eqn:E; auto. apply str_eqb_eq in E. contradiction. Qed.

Lemma lab_find_put l x v n : lab_find (put l x v) n = if str_eqb x n then Some v else lab_find l n.
Proof.
  induction l as [|[k w] t IH]; cbn [put lab_find]; [reflexivity|].
  destruct (str_eqb k x) eqn:E1; cbn [lab_find].
  - apply str_eqb_eq in E1. subst k. destruct (str_eqb x n); reflexivity.
  - rewrite IH. destruct (str_eqb k n) eqn:E2; destruct (str_eqb x n) eqn:E3; auto.
    apply str_eqb_eq in E2, E3. subst. rewrite str_eqb_refl in E1. discriminate.
Qed.

Lemma lab_find_exists l n : existsb (fun e => str_eqb (fst e) n) l = match lab_find l n with Some _ => true | None => false end.
Proof.
  induction l as [|[k w] t IH]; cbn [existsb lab_find fst]; [reflexivity|].
  destruct (str_eqb k n); cbn; auto.
Qed.

Lemma lab_find_snoc l x v n : lab_find (l ++ [(x, v)]) n =
  match lab_find l n with Some q => Some q | None => if str_eqb x n then Some v else None end.
Proof.
  induction l as [|[k w] t IH]; cbn [app lab_find]; [reflexivity|].
  destruct (str_eqb k n); auto.
Qed.

Lemma lab_find_in l n q : lab_find l n = Some q -> In (n, q) l.
Proof.
  induction l as [|[k w] t IH]; cbn [lab_find]; [discriminate|].
  destruct (str_eqb k n) eqn:E; intros H.
  - apply str_eqb_eq in E. inversion H; subst. left; reflexivity.
  - right; auto.
Qed.

Lemma lab_find_none l n : lab_find l n = None -> ~ In n (map fst l).
Proof.
  induction l as [|[k w] t IH]; cbn [lab_find map In fst]; [tauto|].
  destruct (str_eqb k n) eqn:E; [discriminate|]. intros H [H1|H1]; [|apply IH; auto].
  subst. rewrite str_eqb_refl in E. discriminate.
Qed.

Lemma in_lab_find l n q : NoDup (map fst l) -> In (n, q) l -> lab_find l n = Some q.
Proof.
  induction l as [|[k w] t IH]; cbn [lab_find map In fst]; [tauto|].
  intros Hnd [H|H].
  - inversion H; subst. rewrite str_eqb_refl. reflexivity.
  - inversion Hnd; subst. destruct (str_eqb k n) eqn:E; [|auto].
    apply str_eqb_eq in E. subst k. exfalso. apply H2. apply in_map_iff. exists (n, q). auto.
Qed.

Lemma keys_put l x v : map fst (put l x v) =
  match lab_find l x with Some _ => map fst l | None => map fst l ++ [x] end.
Proof.
  induction l as [|[k w] t IH]; cbn [put lab_find map fst app]; [reflexivity|].
  destruct (str_eqb k x) eqn:E; cbn [map fst]; [reflexivity|].
  rewrite IH. destruct (lab_find t x); reflexivity.
Qed.

Lemma nodup_put l x v : NoDup (map fst l) -> NoDup (map fst (put l x v)).
Proof.
  intros H. rewrite keys_put. destruct (lab_find l x) eqn:E; auto.
  apply NoDup_snoc; auto. apply lab_find_none; auto.
Qed.

Lemma mark_pos_nonneg b : 0 <= mark_pos b.
Proof.
  unfold mark_pos, last_is_site, bnext, zlen.
  destruct (rev (b_code b)) as [|i t] eqn:E; [lia|].
  assert (L : (1 <= length (b_code b))%nat).
  { rewrite <- rev_length, E. cbn. lia. }
  destruct i; lia.
Qed.

(* ---- the relation ---------------------------------------------------------------------------------- *)
Definition mrel1 (labels : list Z) (a b : option Z) : Prop :=
  match a, b with
  | Some id, Some q => exists p, znth labels id = Some p /\ (p = -1 <-> q < 0)
  | None, None => True
  | _, _ => False
  end.

Record MRel (g : gstate) (s : fstate) : Prop := mkMRel {
  mr_rel : forall n, mrel1 (g_labels g) (alookup str_ltb (marks_of g) n) (lab_find (b_labels (f_cur s)) n);
  mr_inj : forall n1 n2 id, alookup str_ltb (marks_of g) n1 = Some id -> alookup str_ltb (marks_of g) n2 = Some id -> n1 = n2;
  mr_sorted : ksorted str_ltb (marks_of g);
  mr_nodup : NoDup (map fst (b_labels (f_cur s)))
}.

Definition sok (s : fstate) : bool := forallb labels_set (f_done s).

Record Rel (g : gstate) (s : fstate) : Prop := mkRel {
  rel_f : FRel' g s;
  rel_m : MRel g s;
  rel_top : exists f tl, g_syms g = f :: tl /\ f_argnum f = zlen (b_params (f_cur s))
}.

Lemma Rel_syms g s : Rel g s -> g_syms g <> [].
Proof. intros [_ _ (f & tl & E & _)]. rewrite E. discriminate. Qed.

Lemma mark_in_range g s n id : MRel g s -> alookup str_ltb (marks_of g) n = Some id -> 0 <= id < zlen (g_labels g).
Proof.
  intros M H. pose proof (mr_rel _ _ M n) as R. rewrite H in R. unfold mrel1 in R.
  destruct (lab_find _ _); [|contradiction]. destruct R as (p & Hz & _). apply znth_some_range in Hz. exact Hz.
Qed.

(* transport along steps that keep the labels of all marks *)
Lemma Rel_step g g' s s' : Rel g s ->
  g_funcs g' = g_funcs g -> tops g' = tops g ->
  (forall n id p, alookup str_ltb (marks_of g) n = Some id -> znth (g_labels g) id = Some p -> znth (g_labels g') id = Some p) ->
  ssame s s' -> Rel g' s'.
Proof.
  intros [RF [M1 M2 M3 M4] (f & tl & Es & Ha)] Ef Et Hl [S1 S2 S3 S4].
  pose proof (tops_marks _ _ Et) as Hm.
  constructor.
  - unfold FRel' in *. rewrite Ef, S1, S2. exact RF.
  - constructor; rewrite ?Hm, ?S3; auto.
    intros n. specialize (M1 n). unfold mrel1 in *.
    destruct (alookup str_ltb (marks_of g) n) as [id|] eqn:El; destruct (lab_find (b_labels (f_cur s)) n) as [q|]; auto.
    destruct M1 as (p & Hz & Hp). exists p. split; auto. eapply Hl; eauto.
  - unfold tops in Et. rewrite Es in Et. destruct (g_syms g') as [|f' tl']; [discriminate|].
    inversion Et; subst. exists f', tl. split; auto. rewrite S4. congruence.
Qed.

Lemma Rel_calm g g' s s' : Rel g s -> calm g g' -> ssame s s' -> Rel g' s'.
Proof.
  intros R [_ C2 C3 C4] S. eapply Rel_step; eauto. intros n id p _ Hz. rewrite C3. exact Hz.
Qed.

Lemma Rel_quiet g g' s s' : Rel g s -> quiet g g' -> ssame s s' -> Rel g' s'.
Proof. intros R Q S. eapply Rel_calm; eauto. apply quiet_calm; auto. Qed.

Lemma Rel_create g g1 l s : Rel g s -> create_label g = (g1, l) -> Rel g1 s.
Proof.
  intros R E. apply create_label_eq in E. destruct E as [-> ->].
  eapply Rel_step; [exact R | reflexivity | reflexivity | | apply ssame_refl].
  intros n id p _ Hz. cbn. rewrite znth_app_l; auto. apply znth_some_range in Hz. lia.
Qed.

Lemma Rel_set_other g l p g' s : Rel g s -> GenModel.set_label g l p = Ok g' ->
  (forall n, alookup str_ltb (marks_of g) n <> Some l) -> Rel g' s.
Proof.
  intros R E Hn. apply set_label_eq in E. destruct E as (ls & Hu & ->).
  eapply Rel_step; [exact R | reflexivity | reflexivity | | apply ssame_refl].
  intros n id q Hid Hz. cbn. rewrite (znth_zupd _ _ _ _ Hu).
  destruct (Z.eqb_spec id l) as [->|Hne]; auto. exfalso. apply (Hn n). exact Hid.
Qed.

Lemma keqb_str_eqb a b : keqb str_ltb a b = str_eqb b a.
Proof.
  destruct (keqb str_ltb a b) eqn:E1; destruct (str_eqb b a) eqn:E2; auto.
  - apply str_keqb_eq in E1. subst. rewrite str_eqb_refl in E2. discriminate.
  - apply str_eqb_eq in E2. subst. rewrite (proj2 (str_keqb_eq a a) eq_refl) in E1. discriminate.
Qed.

(* GOTO / IF: mention of a mark *)
Lemma Rel_ensure_touch g n g' l s : Rel g s -> ensure_mark g n = Ok (g', l) ->
  Rel g' (with_cur s (touch_label (f_cur s) n)) /\ g_errs g' = g_errs g.
Proof.
  intros R E. pose proof R as [RF [M1 M2 M3 M4] (f & tl & Es & Ha)].
  destruct (F_ensure _ _ _ _ E) as (F & Hl & Hcase).
  pose proof (M1 n) as Mn. unfold mrel1 in Mn.
  destruct Hcase as [->|(Hnone & -> & Hls & Hm & He & Hf)].
  - split; auto. rewrite Hl in Mn.
    destruct (lab_find (b_labels (f_cur s)) n) as [q|] eqn:Eq; [|contradiction].
    assert (Ht : touch_label (f_cur s) n = f_cur s).
    { unfold touch_label. rewrite lab_find_exists, Eq. reflexivity. }
    rewrite Ht. eapply Rel_quiet; [exact R | apply quiet_refl | apply ss_with_cur; reflexivity].
  - split; auto. rewrite Hnone in Mn.
    destruct (lab_find (b_labels (f_cur s)) n) as [q|] eqn:Eq; [contradiction|].
    assert (Ht : touch_label (f_cur s) n =
                 mkB (b_name (f_cur s)) (b_params (f_cur s)) (b_code (f_cur s)) (b_labels (f_cur s) ++ [(n, -1)])
                     (b_targets (f_cur s)) (b_vars (f_cur s))).
    { unfold touch_label. rewrite lab_find_exists, Eq. reflexivity. }
    rewrite Ht.
    destruct (fr_top _ _ F) as (f0 & f1 & tl0 & Es0 & Es1 & Hn1 & Ha1).
    rewrite Es in Es0. inversion Es0; subst f0 tl0; clear Es0.
    constructor.
    + unfold FRel' in *. rewrite Hf. exact RF.
    + constructor; cbn [f_cur with_cur b_labels]; rewrite ?Hm, ?Hls.
      * intros m. rewrite str_lookup_insert, lab_find_snoc, keqb_str_eqb.
        specialize (M1 m). unfold mrel1 in *.
        destruct (alookup str_ltb (marks_of g) m) as [id|] eqn:El;
          destruct (lab_find (b_labels (f_cur s)) m) as [q|] eqn:Eq'; try contradiction.
        -- destruct (str_eqb n m) eqn:Enm.
           ++ apply str_eqb_eq in Enm. subst m. congruence.
           ++ destruct M1 as (p & Hz & Hp). exists p. split; auto. rewrite znth_app_l; auto.
              apply znth_some_range in Hz. lia.
        -- destruct (str_eqb n m); auto. exists (-1). split; [apply znth_app_last|]. split; intros; [lia|reflexivity].
      * intros n1 n2 id. rewrite !str_lookup_insert.
        destruct (keqb str_ltb n1 n) eqn:E1; destruct (keqb str_ltb n2 n) eqn:E2.
        -- apply str_keqb_eq in E1, E2. congruence.
        -- intros H1 H2. inversion H1; subst id. apply (mark_in_range g s) in H2; [lia | constructor; auto].
        -- intros H1 H2. inversion H2; subst id. apply (mark_in_range g s) in H1; [lia | constructor; auto].
        -- apply M2.
      * apply sorted_ainsert; auto. apply str_keqb_eq. intros a b c. apply str_ltb_trans.
      * rewrite map_app. cbn. apply NoDup_snoc; auto. apply lab_find_none; auto.
    + exists f1, tl. split; auto. cbn. congruence.
Qed.

(* MARK: the mark is placed *)
Lemma Rel_mark g n g1 l p g' s q : Rel g s -> ensure_mark g n = Ok (g1, l) ->
  GenModel.set_label g1 l p = Ok g' -> p <> -1 -> 0 <= q ->
  Rel g' (with_cur s (RefSem.set_label (f_cur s) n q)) /\ g_errs g' = g_errs g.
Proof.
  intros R E ES Hp Hq.
  destruct (Rel_ensure_touch _ _ _ _ _ R E) as [R1 He1].
  destruct (F_ensure _ _ _ _ E) as (_ & Hl & _).
  pose proof R1 as [RF [M1 M2 M3 M4] (f & tl & Es & Ha)].
  apply set_label_eq in ES. destruct ES as (ls & Hu & ->). split; [|exact He1].
  pose proof (znth_zupd _ _ _ _ Hu) as Hz.
  assert (Hkeys : forall m, (lab_find (b_labels (touch_label (f_cur s) n)) m = None <-> lab_find (put (b_labels (f_cur s)) n q) m = None)
                            /\ (m <> n -> lab_find (put (b_labels (f_cur s)) n q) m = lab_find (b_labels (touch_label (f_cur s) n)) m)).
  { intros m. rewrite lab_find_put. unfold touch_label. rewrite lab_find_exists.
    destruct (lab_find (b_labels (f_cur s)) n) as [q0|] eqn:Eq; cbn [b_labels].
    - destruct (str_eqb n m) eqn:Enm.
      + apply str_eqb_eq in Enm. subst m. rewrite Eq. split; [split; discriminate | congruence].
      + split; [tauto | reflexivity].
    - rewrite lab_find_snoc. destruct (str_eqb n m) eqn:Enm.
      + apply str_eqb_eq in Enm. subst m. rewrite Eq. split; [split; discriminate | congruence].
      + destruct (lab_find (b_labels (f_cur s)) m); split; tauto || reflexivity. }
  constructor.
  - exact RF.
  - cbn [f_cur with_cur] in *. constructor; cbn [upd_labels g_labels RefSem.set_label b_labels f_cur with_cur]; auto.
    + intros m. specialize (M1 m). unfold mrel1 in *. change (marks_of (upd_labels g1 ls)) with (marks_of g1).
      destruct (str_eqb_eq m n) as [_ Hmn].
      destruct (list_eq_dec N.eq_dec m n) as [->|Hne].
      * rewrite Hl in *. rewrite lab_find_put, str_eqb_refl.
        exists p. split; [rewrite Hz, Z.eqb_refl; reflexivity|]. split; intros; lia.
      * rewrite (proj2 (Hkeys m) Hne).
        destruct (alookup str_ltb (marks_of g1) m) as [id|] eqn:El;
          destruct (lab_find (b_labels (touch_label (f_cur s) n)) m) as [q'|]; auto.
        destruct M1 as (p' & Hz' & Hp'). exists p'. split; auto. rewrite Hz.
        destruct (Z.eqb_spec id l) as [->|Hne2]; auto. exfalso. apply Hne. apply (M2 m n l); auto.
    + apply nodup_put. 
      assert (Hk : map fst (b_labels (touch_label (f_cur s) n)) =
                   match lab_find (b_labels (f_cur s)) n with Some _ => map fst (b_labels (f_cur s)) | None => map fst (b_labels (f_cur s)) ++ [n] end).
      { unfold touch_label. rewrite lab_find_exists. destruct (lab_find (b_labels (f_cur s)) n); cbn [b_labels]; auto.
        rewrite map_app. reflexivity. }
      rewrite Hk in M4. destruct (lab_find (b_labels (f_cur s)) n) eqn:Eq; auto. eapply NoDup_app_l; eauto.
  - exists f, tl. split; auto. cbn in Ha |- *. rewrite b_params_touch_label in Ha. exact Ha.
Qed.

(* at the end of a routine: all marks placed <-> all labels set *)
Lemma marks_set_iff g s : MRel g s ->
  ((forall n l q, In (n, l) (marks_of g) -> znth (g_labels g) l = Some q -> q <> -1) <->
   forallb (fun e => 0 <=? snd e) (b_labels (f_cur s)) = true).
Proof.
  intros [M1 M2 M3 M4]. rewrite forallb_forall. split.
  - intros H [n q] Hi. cbn [snd]. apply Z.leb_le.
    apply in_lab_find in Hi; auto. specialize (M1 n). rewrite Hi in M1. unfold mrel1 in M1.
    destruct (alookup str_ltb (marks_of g) n) as [id|] eqn:El; [|contradiction].
    destruct M1 as (p & Hz & Hp). apply str_alookup_in in El. specialize (H n id p El Hz). lia.
  - intros H n l q Hi Hz.
    apply (in_sorted_alookup str_ltb str_keqb_eq) in Hi; auto.
    specialize (M1 n). rewrite Hi in M1. unfold mrel1 in M1.
    destruct (lab_find (b_labels (f_cur s)) n) as [q'|] eqn:Eq; [|contradiction].
    destruct M1 as (p & Hz' & Hp). rewrite Hz in Hz'. inversion Hz'; subst p.
    apply lab_find_in in Eq. specialize (H _ Eq). cbn [snd] in H. apply Z.leb_le in H. lia.
Qed.

Lemma sok_mono s s' : sframe s s' -> sok s' = true -> sok s = true.
Proof.
  intros [[l D] _]. unfold sok. rewrite D, forallb_app, andb_true_iff. tauto.
Qed.

Lemma sok_ssame s s' : ssame s s' -> sok s' = sok s.
Proof. intros [_ D _ _]. unfold sok. rewrite D. reflexivity. Qed.
