(* C01Statements.v — compile correctness for the straight-line fragment (C01_straightline_partial):
   main programs that are sequences of assignments x := y | c | y + c | y - c (after the sugar), no definitions,
   loops, jumps or calls.  The full statement C01_full (all sources) is kept below as a Definition. *)
From Theo Require Import Base Tokens Errors MacroExtract Parser VMModel VMSpec GenModel Compile RefSem.
Local Open Scope Z_scope.

Definition is_name (n : node) : bool := match n_type n with N_NAME => true | _ => false end.
Definition is_number (n : node) : bool := match n_type n with N_NUMBER => true | _ => false end.

(* NAME, NUMBER, or the desugared forms RUN __INC__/__DEC__ WITH name, number END *)
Definition simple_value (n : node) : bool :=
  match n with
  | Node N_NAME _ _ _ _ _ => true
  | Node N_NUMBER _ _ _ _ _ => true
  | Node N_CALL _ _ _ (Some f) (Some (Node N_SPLIT _ _ _ (Some a1) (Some (Node N_SPLIT _ _ _ (Some a2) None)))) =>
      (str_eqb (n_tok f) name_INC || str_eqb (n_tok f) name_DEC) && is_name a1 && is_number a2
  | _ => false
  end.

(* SPLIT (ASSIGN name value) rest *)
Fixpoint straight (n : node) : bool :=
  match n with
  | Node N_SPLIT _ _ _ (Some (Node N_ASSIGN _ _ _ (Some tgt) (Some v))) rest =>
      is_name tgt && simple_value v && match rest with None => true | Some r => straight r end
  | _ => false
  end.

(* a static bound on every value the program can compute: the sum of all its literals *)
Fixpoint literal_sum (n : node) : Z :=
  match n with
  | Node N_NUMBER _ _ tok _ _ => strtol tok
  | Node _ _ _ _ l r =>
      (match l with Some x => literal_sum x | None => 0 end) + (match r with Some x => literal_sum x | None => 0 end)
  end.

(* the VM's view of the (single) root activation agrees with the reference store on every variable *)
Definition same_values (vm_view : list (str * Z)) (ref_view : list (str * Z)) : Prop :=
  (forall x v, In (x, v) ref_view -> alookup str_ltb vm_view x = Some v) /\
  (forall x v, alookup str_ltb vm_view x = Some v -> In (x, v) ref_view).

Definition C01_straightline_stmt : Prop :=
  forall root r rs,
    straight root = true -> literal_sum root < INT_MAX ->
    gen true [] (Some root) = Ok r -> gr_ok r = true ->
    abstract_source (Some root) = Some rs ->
    exists fuel steps trace rname rvars,
      run_ref fuel rs = OStop [(rname, rvars)] steps trace /\
      exists k s vmvars,
        vm_run k (init (gr_prog r)) = Ok s /\ isDone s = Ok true /\
        views s = Ok [(rname, vmvars)] /\ same_values vmvars rvars /\
        (steps <= k)%nat.

(* the full property, not proved: for every accepted source, the finished reference run and the VM agree on the
   views of all live activations (user variables), within a proportional instruction budget *)
Definition user_var (x : str) : bool := negb (match x with 76%N :: 111%N :: 111%N :: 112%N :: 32%N :: _ => true | _ => false end).
Definition C01_full : Prop :=
  forall files main c rs fuel views steps trace,
    compile files main = Ok c -> cr_ok c = true ->
    (exists p, parse files main = Ok p /\ abstract_source (pr_root p) = Some rs) ->
    run_ref fuel rs = OStop views steps trace ->
    (forall l vs name vars x v, In (l, vs) trace -> In (name, vars) vs -> In (x, v) vars -> v < INT_MAX) ->
    exists k s vmviews,
      vm_run k (init (cr_prog c)) = Ok s /\ isDone s = Ok true /\ VMModel.views s = Ok vmviews /\
      (steps <= k)%nat /\
      map fst vmviews = map fst views /\
      Forall2 (fun vv rv => same_values (filter (fun e => user_var (fst e)) (snd vv)) (snd rv)) vmviews views.
