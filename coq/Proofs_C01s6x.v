(* Proofs_C01s6x.v — stage 6: the budget clause of C01 is false in some layouts (a parsed source). *)
From Coq Require Import List ZArith NArith Lia Bool.
From Theo Require Import Base Tokens Errors MacroExtract Parser VMModel VMSpec GenModel Compile RefSem RefSemChk C01Statements C01Stages Gen_Consts Proofs_VM_mem Proofs_VM_dbg Proofs_Gen0 Proofs_Gen Proofs_Sem Proofs_C01a Proofs_C01b Proofs_C01.
From Theo Require Import C01Stages3 C01Stages4 NamesStatements Stage6Statements
                         Proofs_C01s2a Proofs_C01s2b Proofs_C01s2c Proofs_C01s2 Proofs_C01s3a Proofs_C01s3
                         Proofs_C01s4a Proofs_C01s4b Proofs_C01s4c Proofs_C01s4e Proofs_C01s4f Proofs_C01s4n Proofs_C01s4o Proofs_C01s4q
                         Proofs_C01s6a Proofs_C01s6c Proofs_C01s6d Proofs_C01s6e Proofs_C01s6o Proofs_C01s6p.
From Theo Require Proofs_Stage5 Proofs_C01source Proofs_Names.
From Theo Require Import Proofs_Stage6.
Import ListNotations.
Local Open Scope Z_scope.

(* ================================================================================================ *)
(* 3. the budget clause is false in some layouts                                                    *)
(* ================================================================================================ *)
(* PROGRAM f IN a, b, c, d, e, g, h, i, j OUT r DO r := a END    PROGRAM halt DO STOP END
   x := RUN f WITH RUN halt WITH END,      -- the first argument stops the machine inside `halt`
    1,                                     -- eight more arguments, each on a line of its own:
    ...                                    -- the reference machine executes their eight sites BEFORE it
    8 END                                  -- evaluates the value, the VM would execute them after the call of `halt`
   The VM is at HALT after 7 instructions; the reference run needs 12 steps.  With a budget of 8 the reference run is
   out of fuel while the VM is done. *)
Definition cx6_src : str :=
  [80; 82; 79; 71; 82; 65; 77; 32; 102; 32; 73; 78; 32; 97; 44; 32; 98; 44; 32; 99; 44; 32; 100; 44; 32; 101;
   44; 32; 103; 44; 32; 104; 44; 32; 105; 44; 32; 106; 32; 79; 85; 84; 32; 114; 32; 68; 79; 10; 32; 32; 114;
   32; 58; 61; 32; 97; 10; 69; 78; 68; 10; 80; 82; 79; 71; 82; 65; 77; 32; 104; 97; 108; 116; 32; 68; 79; 10;
   32; 32; 83; 84; 79; 80; 10; 69; 78; 68; 10; 120; 32; 58; 61; 32; 82; 85; 78; 32; 102; 32; 87; 73; 84; 72;
   32; 82; 85; 78; 32; 104; 97; 108; 116; 32; 87; 73; 84; 72; 32; 69; 78; 68; 44; 10; 32; 49; 44; 10; 32; 50;
   44; 10; 32; 51; 44; 10; 32; 52; 44; 10; 32; 53; 44; 10; 32; 54; 44; 10; 32; 55; 44; 10; 32; 56; 32; 69; 78;
   68]%N.

Definition cxa_fun (pr : result parse_result) : bool :=
  match pr with
  | Ok p =>
      match pr_root p with
      | Some root =>
          match gen true [] (Some root), abstract_source (Some root) with
          | Ok r, Some rs =>
              shape4 root && headers_ok root && lexable_names root && gr_ok r &&
              negb (canonical4 root) &&
              (match run_ref_chk 8 rs with OFuel => true | _ => false end) &&
              (match run_ref_chk 12 rs with OStop _ _ _ => true | _ => false end) &&
              (match vm_run 8 (init (gr_prog r)) with Ok s => match isDone s with Ok true => true | _ => false end | _ => false end)
          | _, _ => false
          end
      | None => false
      end
  | _ => false
  end.

Lemma cxa_generic pr : cxa_fun pr = true -> ~ C01_anylayout_budget_unguarded_stmt.
Proof.
  intros Cx H. unfold cxa_fun in Cx.
  destruct pr as [p| |]; [|exfalso; discriminate Cx..].
  destruct (pr_root p) as [root|]; [|exfalso; discriminate Cx].
  destruct (gen true [] (Some root)) as [r| |] eqn:Eg; [|exfalso; discriminate Cx..].
  destruct (abstract_source (Some root)) as [rs|] eqn:Ea; [|exfalso; discriminate Cx].
  apply andb_prop in Cx; destruct Cx as [Cx C9].
  apply andb_prop in Cx; destruct Cx as [Cx _].
  apply andb_prop in Cx; destruct Cx as [Cx C7].
  apply andb_prop in Cx; destruct Cx as [Cx _].
  apply andb_prop in Cx; destruct Cx as [Cx C5].
  apply andb_prop in Cx; destruct Cx as [Cx C4].
  apply andb_prop in Cx; destruct Cx as [C2 C3].
  destruct (run_ref_chk 8 rs) eqn:Er; [exfalso; discriminate C7..| |exfalso; discriminate C7].
  destruct (vm_run 8 (init (gr_prog r))) as [s| |] eqn:Ev; [|exfalso; discriminate C9..].
  destruct (isDone s) as [[|]| |] eqn:Ed; [|exfalso; discriminate C9..].
  pose proof (H root r rs 8%nat s C2 C3 C4 Eg C5 Ea Er Ev) as X. rewrite Ed in X. discriminate X.
Qed.

Lemma cx6a_check_true : cxa_fun (Compile.parse [(ex_name, cx6_src)] ex_name) = true.
Proof. vm_compute. reflexivity. Qed.

Lemma C01_anylayout_budget_counterexample : ~ C01_anylayout_budget_unguarded_stmt.
Proof. exact (cxa_generic (Compile.parse [(ex_name, cx6_src)] ex_name) cx6a_check_true). Qed.

(* the same source through the whole pipeline *)
Definition cxb_fun (cr : result compile_result) (pr : result parse_result) : bool :=
  match cr with
  | Ok c =>
      cr_ok c &&
      match pr with
      | Ok p =>
          match pr_root p with
          | Some root =>
              match abstract_source (Some root) with
              | Some rs =>
                  (match run_ref_chk 8 rs with OFuel => true | _ => false end) &&
                  (match vm_run 8 (init (cr_prog c)) with Ok s => match isDone s with Ok true => true | _ => false end | _ => false end)
              | None => false
              end
          | None => false
          end
      | _ => false
      end
  | _ => false
  end.

Lemma cxb_generic files main :
  Forall (fun kv : str * str => lexable (fst kv) = true) files ->
  cxb_fun (compile files main) (Compile.parse files main) = true -> ~ C01_every_source_unguarded_stmt.
Proof.
  intros Hf Cx H. unfold cxb_fun in Cx.
  destruct (compile files main) as [c| |] eqn:Ec; [|exfalso; discriminate Cx..].
  apply andb_prop in Cx; destruct Cx as [C0 Cr].
  destruct (Compile.parse files main) as [p| |] eqn:Ep; [|exfalso; discriminate Cr..].
  destruct (pr_root p) as [root|] eqn:Eroot; [|exfalso; discriminate Cr].
  destruct (abstract_source (Some root)) as [rs|] eqn:Ea; [|exfalso; discriminate Cr].
  apply andb_prop in Cr; destruct Cr as [C7 C10].
  destruct (run_ref_chk 8 rs) eqn:Er; [exfalso; discriminate C7..| |exfalso; discriminate C7].
  destruct (vm_run 8 (init (cr_prog c))) as [s| |] eqn:Ev; [|exfalso; discriminate C10..].
  destruct (isDone s) as [[|]| |] eqn:Ed; [|exfalso; discriminate C10..].
  destruct (H files main c p root rs Hf Ec C0 Ep Eroot Ea) as [_ Hb].
  pose proof (Hb 8%nat s Er Ev) as X. rewrite Ed in X. discriminate X.
Qed.

Lemma cx6b_check_true : cxb_fun (compile [(ex_name, cx6_src)] ex_name) (Compile.parse [(ex_name, cx6_src)] ex_name) = true.
Proof. vm_compute. reflexivity. Qed.

Lemma C01_every_source_counterexample : ~ C01_every_source_unguarded_stmt.
Proof.
  apply (cxb_generic [(ex_name, cx6_src)] ex_name); [|exact cx6b_check_true].
  constructor; [vm_compute; reflexivity | constructor].
Qed.

(* the counterexample does not satisfy the layout condition of the partial results (Proofs_C01s6q.v): its call is
   spread over nine lines *)
Definition cxc_fun (pr : result parse_result) : bool :=
  match pr with
  | Ok p => match pr_root p with Some root => negb (Proofs_C01s6q.calls_on_line root) | None => false end
  | _ => false
  end.
Lemma cx6_not_calls_on_line : cxc_fun (Compile.parse [(ex_name, cx6_src)] ex_name) = true.
Proof. vm_compute. reflexivity. Qed.

Print Assumptions C01_anylayout_budget_counterexample.
Print Assumptions C01_every_source_counterexample.
