(* Proofs_C07s5i.v — C07 with calls, part 9: the DYNAMIC part, values with calls, in stepping mode.
   Proofs_C01s4e.v once more for a VM in stepping mode, carrying the stops: under the induction hypothesis for runs
   with fuel f (SimAt7 f), the code of a value computes what the checked evaluator computes, and the stops reported
   on the way (all of them inside callees) are those the reference semantics records. *)
From Coq Require Import List ZArith NArith Lia Bool.
From Theo Require Import Base Tokens Errors MacroExtract Parser VMModel VMSpec GenModel Compile RefSem RefSemChk C01Statements C01Stages Gen_Consts Proofs_VM_mem Proofs_VM_dbg Proofs_Gen0 Proofs_Gen Proofs_Sem Proofs_C01a Proofs_C01b Proofs_C01 Proofs_C01s2a Proofs_C01s2b Proofs_C01s2 Proofs_C01s3a Proofs_C01s4a Proofs_C01s4b Proofs_C01s4c Proofs_C01s4d Proofs_C01s4e Proofs_C01s4o.
From Theo Require Import C07Statements Proofs_C07a Proofs_C07b Proofs_C07s5h.
Import ListNotations.
Local Open Scope Z_scope.

Section Sim7x.
  Variable rs : list routine.
  Variable RI : nat -> rinfo.
  Variable C : list instr.
  Variable FT : ftab.
  Hypothesis FT_ok : forall j e sz mi, FT j = Some (e, sz, mi) ->
    e = ri_P0 (RI j) /\ sz = ri_N (RI j) /\ mi = ri_mi (RI j).
  Hypothesis ROK : forall k r, nth_error rs k = Some r -> routine_ok RI C FT k r.
  Variable prg : program.
  Hypothesis HprgC : code prg = C.

  Notation FV := (FrameView rs RI).
  Notation LOK := (LowOK rs RI).

  Definition Top7 (k : nat) (s : vm) (act : VMModel.act) (rest : list VMModel.act) : Prop :=
    prog s = prg /\ stepping s = true /\ stack s = act :: rest /\
    seg_size act = ri_N (RI k) /\ debug_info act = ri_mi (RI k).

  Lemma Top7_Top k s act rest : Top7 k s act rest -> Top RI C k s act rest.
  Proof. intros (Hp & _ & Hst & Hsz & Hdi). split; [rewrite Hp; exact HprgC|]. auto. Qed.

  (* what the VM does, in stepping mode, along a run of routine k from the block at q *)
  Definition Res7 (k : nat) (s : vm) (base : Z) (d : list Z) (trace : rtrace) (q : Z) (o : outcome) : Prop :=
    match o with
    | OStop views _ trace' =>
        exists n stops s' delta, step_trace n (vm_at s q d) = Ok (stops, s', true) /\
          Forall2 (FV (data s')) (rev (stack s')) views /\
          trace' = trace ++ delta /\ Forall2 stop_agrees stops delta
    | ODone ret _ trace' =>
        exists n stops d' q' ro delta, step_trace n (vm_at s q d) = Ok (stops, vm_at s q' d', false) /\
          znth C q' = Some (IRet ro) /\
          0 <= ro < ri_N (RI k) /\ znth d' (base + ro) = Some ret /\ 0 <= ret < INT_MAX /\
          base + ri_N (RI k) <= zlen d' /\ (forall j, j < base -> znth d' j = znth d j) /\
          trace' = trace ++ delta /\ Forall2 stop_agrees stops delta
    | OFuel => True
    | OBad => True
    end.

  Definition SimAt7 (fuel : nat) : Prop :=
    forall k r ctx a pc steps trace s d act rest,
      nth_error rs k = Some r -> Top7 k s act rest ->
      SR (ri_rm (RI k)) (data_start act) (ri_N (RI k)) a d -> LOK (data_start act) rest ctx d ->
      Res7 k s (data_start act) d trace (pm4 RI k r pc) (run_chk rs fuel ctx k a pc steps trace).

  Section Values7.
    Variable f : nat.
    Hypothesis IHf : SimAt7 f.
    Variables (k : nat) (r : routine) (ctx : rviews) (a : ract) (s : vm) (act : VMModel.act) (rest : list VMModel.act).
    Hypothesis Hk : nth_error rs k = Some r.
    Hypothesis HT : Top7 k s act rest.

    Let rm := ri_rm (RI k).
    Let N := ri_N (RI k).
    Let base := data_start act.
    Let here := ctx ++ [view_of r a].

    Let OKk : rm_ok rm N := ro_rm _ _ _ _ _ (ROK _ _ Hk).

    Definition VRes7 (tgt : Z) (S : Z -> Prop) (q : Z) (v : rvalue) (d : list Z) (tr : rtrace) (e : evres_c) : Prop :=
      match e with
      | EValc z _ tr' =>
          exists n stops d' delta, step_trace n (vm_at s q d) = Ok (stops, vm_at s (q + vlen4 v) d', false) /\ zlen d' = zlen d /\
            znth d' (base + tgt) = Some z /\ 0 <= z < INT_MAX /\
            (forall j, j <> base + tgt -> (forall t, S t -> rm_tmp rm t -> j <> base + t) -> znth d' j = znth d j) /\
            tr' = tr ++ delta /\ Forall2 stop_agrees stops delta
      | EStopc views _ tr' =>
          exists n stops s' delta, step_trace n (vm_at s q d) = Ok (stops, s', true) /\
            Forall2 (FV (data s')) (rev (stack s')) views /\
            tr' = tr ++ delta /\ Forall2 stop_agrees stops delta
      | EFuelc => True
      | EBadc => True
      end.

    Definition ARes7 (ts : list Z) (S : Z -> Prop) (prot : list Z) (q : Z) (args : list rvalue) (d : list Z) (tr : rtrace)
               (x : option (list Z * nat * rtrace) + evres_c) : Prop :=
      match x with
      | inl (Some (vals, _, tr')) =>
          exists n stops d' delta, step_trace n (vm_at s q d) = Ok (stops, vm_at s (q + alen4 args) d', false) /\ zlen d' = zlen d /\
            Forall2 (fun t z => znth d' (base + t) = Some z) (prot ++ ts) vals /\
            Forall (fun z => 0 <= z < INT_MAX) vals /\
            (forall j, (forall t, S t -> rm_tmp rm t -> j <> base + t) -> znth d' j = znth d j) /\
            tr' = tr ++ delta /\ Forall2 stop_agrees stops delta
      | inl None => True
      | inr (EValc _ _ _) => False
      | inr (EStopc views _ tr') =>
          exists n stops s' delta, step_trace n (vm_at s q d) = Ok (stops, s', true) /\
            Forall2 (FV (data s')) (rev (stack s')) views /\
            tr' = tr ++ delta /\ Forall2 stop_agrees stops delta
      | inr EFuelc => True
      | inr EBadc => True
      end.

    (* writes to temporaries keep the store relation and the frames below *)
    Lemma SR_keep d d' : SR rm base N a d -> zlen d' = zlen d ->
      (forall j, (forall t, rm_tmp rm t -> j <> base + t) -> znth d' j = znth d j) -> SR rm base N a d'.
    Proof.
      intros HS Hl Hsame. pose proof (sr_fit _ _ _ _ _ HS) as Hf. eapply SR_stable; eauto; [lia|].
      intros i Hi Hnt. apply Hsame. intros t Ht E. assert (i = t) by lia. subst t. contradiction.
    Qed.

    Lemma LOK_keep d d' : SR rm base N a d -> LOK base rest ctx d -> zlen d' = zlen d ->
      (forall j, (forall t, rm_tmp rm t -> j <> base + t) -> znth d' j = znth d j) -> LOK base rest ctx d'.
    Proof.
      intros HS HL Hl Hsame. pose proof (sr_fit _ _ _ _ _ HS) as Hf. pose proof (ro_N _ _ _ _ _ (ROK _ _ Hk)) as HN. fold N in HN.
      eapply LowOK_stable; eauto; [lia|]. intros j Hj. apply Hsame. intros t Ht E.
      pose proof (rmo_tmp_rng _ _ OKk _ Ht). lia.
    Qed.

    Definition VGoal7 (v : rvalue) : Prop :=
      forall tgt q S st tr d, vmatch4 rm C FT v tgt q S -> 0 <= tgt < N ->
        SR rm base N a d -> LOK base rest ctx d ->
        VRes7 tgt S q v d tr (eval_c rs (run_chk rs f) a here v st tr).

    Lemma evargs7 args : Forall VGoal7 args ->
      forall ts q S prot acc st tr d, amatch4 rm C FT args ts q S prot ->
        SR rm base N a d -> LOK base rest ctx d ->
        Forall2 (fun t z => znth d (base + t) = Some z) prot acc -> Forall (fun z => 0 <= z < INT_MAX) acc ->
        ARes7 ts S prot q args d tr (evargs_of_c (eval_c rs (run_chk rs f) a here) args acc st tr).
    Proof.
      induction 1 as [|v vs Hv Hvs IH]; intros ts q S prot acc st tr d HA HS HL Hacc Hb.
      - inversion HA; subst. cbn [evargs_of_c ARes7 alen4]. exists 0%nat, [], d, []. rewrite Z.add_0_r, !app_nil_r.
        split; [reflexivity|]. split; [reflexivity|]. split; [exact Hacc|]. split; [exact Hb|]. split; [auto|]. split; [reflexivity | constructor].
      - inversion HA as [|v0 vs0 t ts0 q0 S0 S1 prot0 Tt St Hn HS1 Hvm Ham]; subst. rewrite evargs_c_cons.
        pose proof (rmo_tmp_rng _ _ OKk _ Tt) as Rt.
        pose proof (Hv t q S1 st tr d Hvm Rt HS HL) as HV.
        destruct (eval_c rs (run_chk rs f) a here v st tr) as [z st1 tr1|vw st1 tr1| |] eqn:Ev; cbn [VRes7 ARes7] in *.
        + destruct HV as (n1 & sp1 & d1 & dl1 & R1 & L1 & Z1 & B1 & U1 & T1 & A1). subst tr1.
          assert (Hsame1 : forall j, (forall t0, rm_tmp rm t0 -> j <> base + t0) -> znth d1 j = znth d j).
          { intros j Hj. apply U1; [apply Hj; exact Tt|]. intros t0 _ T0. apply Hj; exact T0. }
          assert (HS1' : SR rm base N a d1) by exact (SR_keep d d1 HS L1 Hsame1).
          assert (HL1 : LOK base rest ctx d1) by exact (LOK_keep d d1 HS HL L1 Hsame1).
          assert (Hacc1 : Forall2 (fun t z => znth d1 (base + t) = Some z) (prot ++ [t]) (acc ++ [z])).
          { apply Forall2_snoc; [|exact Z1].
            apply (Forall2_keep_reads d d1 base prot acc Hacc). intros t' Hin'. apply U1.
            - intros E. assert (t' = t) by lia. subst t'. contradiction.
            - intros t0 S0 _ E. assert (t' = t0) by lia. subst t0. destruct (HS1 _ S0) as [_ Hnp]. contradiction. }
          assert (Hb1 : Forall (fun z => 0 <= z < INT_MAX) (acc ++ [z])) by (apply Forall_app; split; [exact Hb | constructor; [exact B1 | constructor]]).
          pose proof (IH ts0 (q + vlen4 v) S (prot ++ [t]) (acc ++ [z]) st1 (tr ++ dl1) d1 Ham HS1' HL1 Hacc1 Hb1) as HR.
          destruct (evargs_of_c (eval_c rs (run_chk rs f) a here) vs (acc ++ [z]) st1 (tr ++ dl1)) as [[[[vals st2] tr2]|]|e]; cbn [ARes7] in *.
          * destruct HR as (n2 & sp2 & d2 & dl2 & R2 & L2 & V2 & B2 & U2 & T2 & A2).
            exists (n1 + n2)%nat, (sp1 ++ sp2), d2, (dl1 ++ dl2). cbn [alen4]. replace (q + (vlen4 v + alen4 vs)) with (q + vlen4 v + alen4 vs) by lia.
            split; [exact (st_trans _ _ _ _ _ _ _ _ R1 R2)|]. split; [lia|]. split; [rewrite <- app_assoc in V2; exact V2|]. split; [exact B2|].
            split; [|split; [rewrite T2, app_assoc; reflexivity | apply Forall2_app; assumption]]. intros j Hj. rewrite U2 by exact Hj. apply U1.
            -- apply Hj; [exact St | exact Tt].
            -- intros t0 S0 T0. apply Hj; [apply HS1; exact S0 | exact T0].
          * exact I.
          * destruct e as [z2 st2 tr2|vw st2 tr2| |]; cbn [ARes7] in *; auto.
            destruct HR as (n2 & sp2 & s' & dl2 & R2 & F2 & T2 & A2). exists (n1 + n2)%nat, (sp1 ++ sp2), s', (dl1 ++ dl2).
            split; [exact (st_trans _ _ _ _ _ _ _ _ R1 R2)|]. split; [exact F2|].
            split; [rewrite T2, app_assoc; reflexivity | apply Forall2_app; assumption].
        + exact HV.
        + exact HV.
        + exact I.
    Qed.

    Lemma amatch4_tmps args ts q S prot : amatch4 rm C FT args ts q S prot -> Forall (rm_tmp rm) ts.
    Proof. induction 1; constructor; auto. Qed.

    Lemma eval7 : forall v, VGoal7 v.
    Proof.
      destruct HT as (Hprg & Hstp & Hst & Hsz & Hdi).
      assert (HC : code (prog s) = C) by (rewrite Hprg; exact HprgC).
      induction v as [y|c|y c IH|y c IH|j args IH] using rvalue_ind'; intros tgt q S st tr d HM Ht HS HL;
        pose proof HS as [Hf Hvar Hcnt Hvb Hcb].
      - (* a variable *)
        inversion HM as [y0 tgt0 q0 S0 ry Hy Hz| | | |]; subst. cbn [eval_c VRes7 vlen4 vlen].
        destruct (zupd_ex d (base + tgt) (clampz (get (ra_vars a) y + 0)) ltac:(lia)) as [d' Hu].
        assert (Ec : clampz (get (ra_vars a) y + 0) = get (ra_vars a) y) by (specialize (Hvb y); unfold clampz; lia).
        exists 1%nat, [], d', []. split; [eapply q_add; [rewrite HC; exact Hz | exact Hst | apply Hvar; exact Hy | exact Hu]|].
        split; [apply (zupd_length _ _ _ _ Hu)|]. split; [rewrite (znth_zupd _ _ _ _ Hu), Z.eqb_refl, Ec; reflexivity|].
        split; [apply Hvb|]. split; [|split; [rewrite app_nil_r; reflexivity | constructor]].
        intros j Hj _. rewrite (znth_zupd _ _ _ _ Hu). destruct (Z.eqb_spec j (base + tgt)); [contradiction | reflexivity].
      - (* a literal *)
        inversion HM as [|c0 tgt0 q0 S0 Hc Hz| | |]; subst. cbn [eval_c VRes7 vlen4 vlen].
        destruct (zupd_ex d (base + tgt) c ltac:(lia)) as [d' Hu].
        exists 1%nat, [], d', []. split; [eapply q_const; [rewrite HC; exact Hz | exact Hst | exact Hu]|].
        split; [apply (zupd_length _ _ _ _ Hu)|]. split; [rewrite (znth_zupd _ _ _ _ Hu), Z.eqb_refl; reflexivity|].
        split; [exact Hc|]. split; [|split; [rewrite app_nil_r; reflexivity | constructor]].
        intros j Hj _. rewrite (znth_zupd _ _ _ _ Hu). destruct (Z.eqb_spec j (base + tgt)); [contradiction | reflexivity].
      - (* y + c *)
        inversion HM as [| |y0 c0 tgt0 q0 S0 ry t1 t2 Hy T1 T2 S1 S2 Hne Hc Z0 Z1 Z2| |]; subst. cbn [eval_c].
        destruct (Z.leb_spec INT_MAX (get (ra_vars a) y0 + c)) as [|Hlt]; [exact I|]. cbn [VRes7 vlen4 vlen].
        pose proof (rmo_tmp_rng _ _ OKk _ T1) as R1. pose proof (rmo_tmp_rng _ _ OKk _ T2) as R2.
        pose proof (Hvb y0) as By. set (x := get (ra_vars a) y0) in *.
        destruct (zupd_ex d (base + t1) (clampz (x + 0)) ltac:(lia)) as [d1 U1].
        assert (E1 : clampz (x + 0) = x) by (unfold clampz; lia).
        pose proof (zupd_length _ _ _ _ U1) as L1.
        destruct (zupd_ex d1 (base + t2) c ltac:(lia)) as [d2 U2].
        pose proof (zupd_length _ _ _ _ U2) as L2.
        destruct (zupd_ex d2 (base + tgt) (clampz (x + c)) ltac:(lia)) as [d3 U3].
        assert (E3 : clampz (x + c) = x + c) by (unfold clampz; lia).
        assert (Rd : znth d2 (base + t1) = Some x).
        { rewrite (znth_zupd _ _ _ _ U2). destruct (Z.eqb_spec (base + t1) (base + t2)); [lia|].
          rewrite (znth_zupd _ _ _ _ U1), Z.eqb_refl, E1. reflexivity. }
        exists (1 + (1 + 1))%nat, [], d3, []. split.
        { replace (q + 3) with (q + 1 + 1 + 1) by lia.
          eapply qrun_trans; [eapply q_add; [rewrite HC; exact Z0 | exact Hst | apply Hvar; exact Hy | exact U1]|].
          eapply qrun_trans; [eapply q_const; [rewrite HC; exact Z1 | exact Hst | exact U2]|].
          eapply q_add; [rewrite HC; replace (q + 1 + 1) with (q + 2) by lia; exact Z2 | exact Hst | exact Rd | exact U3]. }
        split; [pose proof (zupd_length _ _ _ _ U3); lia|].
        split; [rewrite (znth_zupd _ _ _ _ U3), Z.eqb_refl, E3; reflexivity|]. split; [lia|]. split; [|split; [rewrite app_nil_r; reflexivity | constructor]].
        intros j Hj Hs. rewrite (znth_zupd _ _ _ _ U3). destruct (Z.eqb_spec j (base + tgt)); [contradiction|].
        rewrite (znth_zupd _ _ _ _ U2). destruct (Z.eqb_spec j (base + t2)) as [E|]; [exfalso; exact (Hs t2 S2 T2 E)|].
        rewrite (znth_zupd _ _ _ _ U1). destruct (Z.eqb_spec j (base + t1)) as [E|]; [exfalso; exact (Hs t1 S1 T1 E) | reflexivity].
      - (* y - c *)
        inversion HM as [| | |y0 c0 tgt0 q0 S0 ry t1 t2 Hy T1 T2 S1 S2 Hne Hc Z0 Z1 Z2|]; subst. cbn [eval_c VRes7 vlen4 vlen].
        pose proof (rmo_tmp_rng _ _ OKk _ T1) as R1. pose proof (rmo_tmp_rng _ _ OKk _ T2) as R2.
        pose proof (Hvb y0) as By. set (x := get (ra_vars a) y0) in *.
        destruct (zupd_ex d (base + t1) (clampz (x + 0)) ltac:(lia)) as [d1 U1].
        assert (E1 : clampz (x + 0) = x) by (unfold clampz; lia).
        pose proof (zupd_length _ _ _ _ U1) as L1.
        destruct (zupd_ex d1 (base + t2) c ltac:(lia)) as [d2 U2].
        pose proof (zupd_length _ _ _ _ U2) as L2.
        destruct (zupd_ex d2 (base + tgt) (clampz (x + - c)) ltac:(lia)) as [d3 U3].
        assert (E3 : clampz (x + - c) = Z.max (x - c) 0) by (unfold clampz; lia).
        assert (Rd : znth d2 (base + t1) = Some x).
        { rewrite (znth_zupd _ _ _ _ U2). destruct (Z.eqb_spec (base + t1) (base + t2)); [lia|].
          rewrite (znth_zupd _ _ _ _ U1), Z.eqb_refl, E1. reflexivity. }
        exists (1 + (1 + 1))%nat, [], d3, []. split.
        { replace (q + 3) with (q + 1 + 1 + 1) by lia.
          eapply qrun_trans; [eapply q_add; [rewrite HC; exact Z0 | exact Hst | apply Hvar; exact Hy | exact U1]|].
          eapply qrun_trans; [eapply q_const; [rewrite HC; exact Z1 | exact Hst | exact U2]|].
          eapply q_add; [rewrite HC; replace (q + 1 + 1) with (q + 2) by lia; exact Z2 | exact Hst | exact Rd | exact U3]. }
        split; [pose proof (zupd_length _ _ _ _ U3); lia|].
        split; [rewrite (znth_zupd _ _ _ _ U3), Z.eqb_refl, E3; reflexivity|]. split; [lia|]. split; [|split; [rewrite app_nil_r; reflexivity | constructor]].
        intros j Hj Hs. rewrite (znth_zupd _ _ _ _ U3). destruct (Z.eqb_spec j (base + tgt)); [contradiction|].
        rewrite (znth_zupd _ _ _ _ U2). destruct (Z.eqb_spec j (base + t2)) as [E|]; [exfalso; exact (Hs t2 S2 T2 E)|].
        rewrite (znth_zupd _ _ _ _ U1). destruct (Z.eqb_spec j (base + t1)) as [E|]; [exfalso; exact (Hs t1 S1 T1 E) | reflexivity].
      - (* a call *)
        inversion HM as [| | | |j0 args0 tgt0 q0 S0 ts entry size mi HFj Ham Zp Za Ze]; subst.
        rewrite eval_c_call.
        pose proof (evargs7 args IH ts q S [] [] st tr d Ham HS HL (Forall2_nil _) (Forall_nil _)) as HA.
        destruct (evargs_of_c (eval_c rs (run_chk rs f) a here) args [] st tr) as [[[[vals st1] tr1]|]|e] eqn:EA;
          cbn [ARes7 call_of_c] in *; [| exact I | destruct e; cbn [VRes7]; auto; contradiction].
        destruct HA as (n1 & sp1 & d1 & dl1 & R1 & L1 & V1 & B1 & U1 & T1 & A1). cbn [app] in V1. subst tr1.
        destruct (nth_error rs j) as [callee|] eqn:Ej; [|exact I].
        destruct (Nat.eqb (length vals) (length (r_params callee))) eqn:El; cbn [negb]; [|exact I].
        apply Nat.eqb_eq in El. cbv zeta.
        destruct (FT_ok _ _ _ _ HFj) as (-> & -> & ->).
        pose proof (ROK _ _ Ej) as [OKj CMj Parj NDj HNj].
        set (Nj := ri_N (RI j)) in *. set (rmj := ri_rm (RI j)) in *.
        pose proof (amatch4_length _ _ _ _ _ _ _ _ Ham) as Lts. pose proof (Forall2_len _ _ _ V1) as Lv.
        pose proof (amatch4_tmps _ _ _ _ _ Ham) as Tts.
        assert (HS1 : SR rm base N a d1).
        { eapply SR_keep; [exact HS | exact L1 |]. intros j0 Hj0. apply U1. intros t0 _ T0. apply Hj0; exact T0. }
        assert (HL1 : LOK base rest ctx d1).
        { eapply LOK_keep; [exact HS | exact HL | exact L1 |]. intros j0 Hj0. apply U1. intros t0 _ T0. apply Hj0; exact T0. }
        pose proof (sr_fit _ _ _ _ _ HS1) as Hf1.
        set (qa := q + alen4 args) in *.
        set (base' := zlen d1).
        set (a' := mkRAct (fold_left (fun s0 pv => put s0 (fst pv) (snd pv)) (combine (r_params callee) vals) []) []).
        (* PREPARE *)
        set (dP := d1 ++ zrepeat 0 (Z.to_nat Nj)).
        set (actj0 := mkAct base' Nj tgt (-1) (ri_mi (RI j))).
        assert (RP : qrun 1 (vm_at s qa d1) (vm_st s (qa + 1) dP (actj0 :: act :: rest))).
        { rewrite vm_at_st, Hst. apply q_prepare. rewrite HC. exact Zp. }
        assert (LP : zlen dP = base' + Nj) by (unfold dP; rewrite zlen_app, zlen_zrepeat; unfold base'; lia).
        (* ARG *)
        assert (Hnp : zlen ts <= Nj).
        { unfold zlen. rewrite Lts. destruct args as [|a0 args']; [cbn; lia|].
          assert (Hlast : exists p, nth_error (r_params callee) (length (a0 :: args') - 1) = Some p).
          { destruct (nth_error (r_params callee) (length (a0 :: args') - 1)) eqn:E; [eauto|]. apply nth_error_None in E.
            cbn [length] in *. lia. }
          destruct Hlast as [p Hp]. pose proof (rmo_var_rng _ _ OKj _ _ (Parj _ _ Hp)). cbn [length] in *. lia. }
        destruct (q_args C s actj0 act rest base' ts vals (qa + 1) 0 dP HC eq_refl) as (dA & RA & LA & VA & UA).
        { intros i t Hi. replace (qa + 1 + Z.of_nat i) with (q + alen4 args + 1 + Z.of_nat i) by (unfold qa; lia). rewrite Z.add_0_l. apply Za. exact Hi. }
        { clear - V1 Tts OKk Hf1. fold base. revert Tts. induction V1 as [|t z l l' A V1 IHV]; intros Tts; constructor.
          - inversion Tts as [|? ? Tt Tts']; subst. pose proof (rmo_tmp_rng _ _ OKk _ Tt). split; [|unfold base'; lia].
            unfold dP. apply znth_app_some. exact A.
          - inversion Tts; subst. apply IHV; assumption. }
        { lia. }
        { unfold base'. apply zlen_nonneg. }
        { lia. }
        rewrite Z.add_0_r in *.
        (* EXEC *)
        set (actj := mkAct base' Nj tgt (qa + 1 + zlen ts + 1) (ri_mi (RI j))).
        assert (RE : qrun 1 (vm_st s (qa + 1 + zlen ts) dA (actj0 :: act :: rest))
                     (vm_st s (ri_P0 (RI j)) dA (actj :: act :: rest))).
        { apply q_exec. rewrite HC. replace (qa + 1 + zlen ts) with (q + alen4 args + 1 + zlen args) by (unfold qa, zlen; rewrite Lts; lia). exact Ze. }
        set (sc := vm_st s (ri_P0 (RI j)) dA (actj :: act :: rest)).
        assert (Rcall : step_trace (n1 + (1 + (length ts + 1))) (vm_at s q d) = Ok (sp1 ++ [], sc, false)).
        { eapply st_trans; [exact R1|]. eapply qrun_trans; [exact RP|]. eapply qrun_trans; [exact RA | exact RE]. }
        rewrite app_nil_r in Rcall.
        assert (Epm : pm4 RI j callee 0 = ri_P0 (RI j)).
        { unfold pm4, pm_of4. cbn [Z.to_nat boff4]. apply Z.add_0_r. }
        (* the callee's frame *)
        assert (HTj : Top7 j sc actj (act :: rest)) by (split; [exact Hprg|]; split; [exact Hstp|]; split; [reflexivity|]; split; reflexivity).
        assert (HSj : SR rmj (data_start actj) Nj a' dA).
        { apply SR_fresh with (params := r_params callee) (vals := vals);
            [exact OKj | exact Parj | exact NDj | exact El | exact B1 | | | |].
          - unfold base'. apply zlen_nonneg.
          - cbn [data_start actj]. lia.
          - intros i z Hi. cbn [data_start actj]. exact (VA i z Hi).
          - intros i Hi. cbn [data_start actj]. rewrite UA by (unfold zlen in *; lia).
            unfold dP. apply znth_app_zeros. fold base'. unfold zlen in *. lia. }
        assert (HLj : LOK (data_start actj) (act :: rest) here dA).
        { assert (Hpre : forall j0, j0 < base' -> znth dA j0 = znth d1 j0).
          { intros j0 Hj0. rewrite UA by lia. unfold dP. rewrite znth_app_l by (fold base'; lia). reflexivity. }
          split.
          - cbn [rev]. apply Forall2_app.
            + assert (HLA : LOK base rest ctx dA).
              { eapply LowOK_stable; [exact HL1 | unfold base' in *; lia |]. intros j0 Hj0. apply Hpre. unfold base'. lia. }
              exact (proj1 HLA).
            + constructor; [|constructor]. exists k, r, a. split; [exact Hk|]. split; [reflexivity|].
              split; [|split; [exact OKk | split; [exact Hsz | exact Hdi]]].
              eapply SR_stable; [exact OKk | exact HS1 | lia |]. intros i Hi _. apply Hpre. unfold base'. lia.
          - intros a0 [<-|Ha0]; cbn [data_start actj].
            + rewrite Hsz. fold N. unfold base'. lia.
            + destruct HL1 as [_ HLb]. specialize (HLb _ Ha0). unfold base'. lia. }
        pose proof (IHf j callee here a' 0 st1 (tr ++ dl1) sc dA actj (act :: rest) Ej HTj HSj HLj) as HR.
        rewrite Epm in HR.
        destruct (run_chk rs f here j a' 0 st1 (tr ++ dl1)) as [ret st2 tr2|vw st2 tr2| |] eqn:Erun; cbn [Res7 VRes7] in *.
        + (* the callee returns *)
          destruct HR as (n2 & sp2 & d2 & q2 & ro & dl2 & R2 & Zr & Rro & Zret & Bret & F2 & P2 & T2 & A2).
          cbn [data_start actj] in *.
          destruct (zupd_ex d2 (base + tgt) ret ltac:(lia)) as [d3 U3]. pose proof (zupd_length _ _ _ _ U3) as L3.
          assert (RR : qrun 1 (vm_st s q2 d2 (actj :: act :: rest))
                       (vm_st s (qa + 1 + zlen ts + 1) (firstn (Z.to_nat base') d3) (act :: rest))).
          { apply (q_ret s q2 d2 actj act rest ro ret d3); [rewrite HC; exact Zr | exact Zret | exact U3 |].
            cbn [data_start actj]. unfold base'. pose proof (zlen_nonneg d1). lia. }
          assert (Efin : vm_st s (qa + 1 + zlen ts + 1) (firstn (Z.to_nat base') d3) (act :: rest) =
                         vm_at s (q + vlen4 (RCall j args)) (firstn (Z.to_nat base') d3)).
          { unfold vm_st, vm_at. rewrite Hst, vlen4_call.
            replace (qa + 1 + zlen ts + 1) with (q + (alen4 args + zlen args + 2)) by (unfold qa, zlen; rewrite Lts; lia). reflexivity. }
          rewrite Efin in RR.
          exists (n1 + (1 + (length ts + 1)) + (n2 + 1))%nat, (sp1 ++ (sp2 ++ [])), (firstn (Z.to_nat base') d3), (dl1 ++ dl2).
          split; [eapply st_trans; [exact Rcall|]; eapply st_trans; [exact R2 | exact RR]|].
          assert (Hb0 : 0 <= base') by (unfold base'; apply zlen_nonneg).
          split; [rewrite zlen_firstn by lia; unfold base'; lia|].
          split; [rewrite znth_firstn by lia; destruct (Z.ltb_spec (base + tgt) base'); [|unfold base' in *; lia];
                  rewrite (znth_zupd _ _ _ _ U3), Z.eqb_refl; reflexivity|].
          split; [exact Bret|]. split; [|split; [rewrite T2, app_assoc; reflexivity | rewrite app_nil_r; apply Forall2_app; assumption]].
          intros j0 Hj0 Hs0. rewrite znth_firstn by lia. destruct (Z.ltb_spec j0 base') as [Hlt|Hge].
          * rewrite (znth_zupd _ _ _ _ U3). destruct (Z.eqb_spec j0 (base + tgt)); [contradiction|].
            rewrite P2 by exact Hlt. rewrite UA by lia. unfold dP. rewrite znth_app_l by (fold base'; lia).
            apply U1. exact Hs0.
          * symmetry. apply znth_none_ge. unfold base' in Hge. lia.
        + (* the machine ends inside the callee *)
          destruct HR as (n2 & sp2 & s' & dl2 & R2 & F2 & T2 & A2).
          exists (n1 + (1 + (length ts + 1)) + n2)%nat, (sp1 ++ sp2), s', (dl1 ++ dl2).
          split; [exact (st_trans _ _ _ _ _ _ _ _ Rcall R2)|]. split; [exact F2|].
          split; [rewrite T2, app_assoc; reflexivity | apply Forall2_app; assumption].
        + exact I.
        + exact I.
    Qed.
  End Values7.
End Sim7x.
