(* Properties_C07.v — the theorems that decide property C07 on the model, each stated in full and closed by
   `exact <lemma>`; the lemmas live in the Proofs_*.v files.  Nothing else belongs in this file. *)
From Theo Require Import Base Tokens MacroExtract Parser VMModel VMSpec VMStatements RefSem SemStatements Proofs_Sem C07Statements Regex Errors Lexer Scan Grammar LR MacroApply GenModel Compile RefSemChk C01Statements C01Stages C01Stages3 C01Stages4 Gen_Lexer Gen_Consts Proofs_C07 Proofs_Stage5 Stage5Statements RefHaltStatements.
Local Open Scope Z_scope.


Theorem C07_stops_are_sites :
  forall p s s' b, tables_ok p = true -> rel p s -> stepping s = true -> exec1 s = Ok (s', b) ->
    (b = true <-> ((exists o, op_at s (ip s) = Some o /\ is_break_op o = true) \/ halt_at s (ip s))) /\
    (b = true -> ~ halt_at s (ip s) ->
       exists l, alookup z_ltb (line_info p) (ip s) = Some l /\ getCurrentBreak s' = Some l /\ In l (available p)).
Proof. exact C07_stops_are_sites_proof. Qed.
Print Assumptions C07_stops_are_sites.

Theorem C07_jumps :
  forall root r rs fuel rviews steps trace,
    jumps root = true -> lexable_names root = true ->
    gen true [] (Some root) = Ok r -> gr_ok r = true ->
    abstract_source (Some root) = Some rs ->
    run_ref_chk fuel rs = OStop rviews steps trace ->
    trace_conclusion r trace rviews.
Proof. exact C07_jumps_proof. Qed.
Print Assumptions C07_jumps.

Theorem C07_no_hidden_stops :
  forall root rs fuel rviews steps trace l vs,
    abstract_source (Some root) = Some rs ->
    run_ref_chk fuel rs = OStop rviews steps trace ->
    In (l, vs) trace -> fst l <> hidden_file.
Proof. exact C07_no_hidden_stops_proof. Qed.
Print Assumptions C07_no_hidden_stops.

Theorem C07_calls :
  forall root r rs fuel rviews steps trace,
    canonical4 root = true -> headers_ok root = true -> lexable_names root = true ->
    gen true [] (Some root) = Ok r -> gr_ok r = true ->
    abstract_source (Some root) = Some rs ->
    run_ref_chk fuel rs = OStop rviews steps trace ->
    trace_conclusion r trace rviews.
Proof. exact C07_calls_proof. Qed.
Print Assumptions C07_calls.

Theorem C07_pipeline :
  forall files main c p root rs fuel rviews steps trace,
    compile files main = Ok c -> cr_ok c = true ->
    parse files main = Ok p -> pr_root p = Some root ->
    canonical4 root = true -> lexable_names root = true ->
    abstract_source (Some root) = Some rs ->
    run_ref_chk fuel rs = OStop rviews steps trace ->
    exists n tr s vmviews,
      step_trace n (setSteppingMode (init (cr_prog c)) true) = Ok (tr, s, true) /\
      Forall2 stop_agrees tr trace /\
      views s = Ok vmviews /\ Forall2 view_agrees vmviews rviews.
Proof. exact C07_pipeline_proof. Qed.
Print Assumptions C07_pipeline.
