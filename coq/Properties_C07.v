(* Properties_C07.v — the theorems that decide property C07 on the model, each stated in full and closed by
   `exact <lemma>`; the lemmas live in the Proofs_*.v files.  Nothing else belongs in this file. *)
From Theo Require Import Base Tokens MacroExtract Parser VMModel VMSpec VMStatements RefSem SemStatements Proofs_Sem.
Local Open Scope Z_scope.


Theorem C07_stops_are_sites :
  forall p s s' b, tables_ok p = true -> rel p s -> stepping s = true -> exec1 s = Ok (s', b) ->
    (b = true <-> ((exists o, op_at s (ip s) = Some o /\ is_break_op o = true) \/ halt_at s (ip s))) /\
    (b = true -> ~ halt_at s (ip s) ->
       exists l, alookup z_ltb (line_info p) (ip s) = Some l /\ getCurrentBreak s' = Some l /\ In l (available p)).
Proof. exact C07_stops_are_sites_proof. Qed.
Print Assumptions C07_stops_are_sites.
