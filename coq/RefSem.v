(* RefSem.v — the reference semantics of the LOOP/WHILE/GOTO language (DESIGN.md Appendix A), against
   which C01, C07 and C16 are stated.  Natural-number semantics on a flattened form of each routine:
   zero-initialised variables, one hidden counter per LOOP, jumps by label, call-by-value RUN of an
   earlier-defined program with fresh locals, STOP ending the whole machine.  `RSite` pseudo-instructions
   mark where the program text moves to a new line; they are no-ops for C01/C16 and the stops of C07.
   Written to be read; it does not mention registers, frames, temporaries or bytecode. *)
From Theo Require Import Base Tokens MacroExtract Parser Gen_Consts.
Local Open Scope Z_scope.

Definition loc := (str * Z)%type.       (* file, line *)

Inductive rvalue :=
| RVar (y : str)
| RNum (c : Z)
| RInc (y : rvalue) (c : Z)            (* y + c ; y is a value so that the sugar on any operand shape is covered *)
| RDec (y : rvalue) (c : Z)            (* y - c, truncated at 0 *)
| RCall (callee : nat) (args : list rvalue).   (* index into the routine list, resolved where the call stands *)

Inductive rinstr :=
| RSite (l : loc)
| RAssign (x : str) (v : rvalue)
| RLoopInit (id : Z) (v : rvalue)       (* hidden counter := bound *)
| RLoopTest (id : Z) (exit : Z)         (* label ids; resolved through r_targets *)
| RLoopDec (id : Z) (back : Z)
| RWhileTest (v : rvalue) (exit : Z)
| RJump (target : Z)
| RGoto (label : str)
| RIfGoto (a b : rvalue) (label : str)  (* IF a = b THEN GOTO label *)
| RStop
| RReturn (out : str)
| RHalt.

Record routine := mkRoutine {
  r_name : str;
  r_params : list str;
  r_code : list rinstr;
  r_labels : list (str * Z);            (* source label -> instruction index (-1: never set) *)
  r_targets : list Z;                   (* structural label id -> instruction index *)
  r_vars : list str                     (* every variable the routine mentions, in order of first mention *)
}.

(* ---- stores ---- *)
Fixpoint get (s : list (str * Z)) (x : str) : Z :=
  match s with [] => 0 | (k, v) :: t => if str_eqb k x then v else get t x end.
Fixpoint put (s : list (str * Z)) (x : str) (v : Z) : list (str * Z) :=
  match s with
  | [] => [(x, v)]
  | (k, w) :: t => if str_eqb k x then (k, v) :: t else (k, w) :: put t x v
  end.
Fixpoint getc (s : list (Z * Z)) (i : Z) : Z :=
  match s with [] => 0 | (k, v) :: t => if k =? i then v else getc t i end.
Fixpoint putc (s : list (Z * Z)) (i : Z) (v : Z) : list (Z * Z) :=
  match s with
  | [] => [(i, v)]
  | (k, w) :: t => if k =? i then (k, v) :: t else (k, w) :: putc t i v
  end.

Record ract := mkRAct { ra_vars : list (str * Z); ra_cnt : list (Z * Z) }.

(* what a debugger sees of one activation: the routine's name and the value of each of its variables *)
Definition view_of (r : routine) (a : ract) : str * list (str * Z) :=
  (r_name r, map (fun x => (x, get (ra_vars a) x)) (r_vars r)).

Definition rviews := list (str * list (str * Z)).      (* oldest activation first *)
Definition rtrace := list (loc * rviews).              (* the stops of a stepping run, in order *)

Inductive outcome :=
| ODone (ret : Z) (steps : nat) (trace : rtrace)              (* the routine returned this value *)
| OStop (views : rviews) (steps : nat) (trace : rtrace)       (* the machine ended (STOP, or the end of the main program) *)
| OFuel
| OBad.                                                        (* malformed routine table: cannot happen for flattened sources *)

Fixpoint label_pos (labels : list (str * Z)) (l : str) : Z :=
  match labels with [] => -1 | (k, v) :: t => if str_eqb k l then v else label_pos t l end.

Section Run.
  Variable rs : list routine.

  (* the result of evaluating something that may call: a value, or the end of the machine *)
  Inductive evres :=
  | EVal (v : Z) (steps : nat) (trace : rtrace)
  | EStop (views : rviews) (steps : nat) (trace : rtrace)
  | EFuel
  | EBad.

  (* run routine k from instruction pc; ctx = views of the callers, oldest first *)
  Fixpoint run (fuel : nat) (ctx : rviews) (k : nat) (a : ract) (pc : Z) (steps : nat) (trace : rtrace) {struct fuel} : outcome :=
    match fuel with
    | O => OFuel
    | S f =>
        match nth_error rs k with
        | None => OBad
        | Some r =>
            let here := ctx ++ [view_of r a] in
            (* values: structural in the value, calls go through run with less fuel *)
            let eval :=
              fix eval (v : rvalue) (steps : nat) (trace : rtrace) {struct v} : evres :=
                match v with
                | RVar y => EVal (get (ra_vars a) y) steps trace
                | RNum c => EVal c steps trace
                | RInc y c =>
                    match eval y steps trace with
                    | EVal x st tr => EVal (x + c) st tr
                    | other => other
                    end
                | RDec y c =>
                    match eval y steps trace with
                    | EVal x st tr => EVal (Z.max (x - c) 0) st tr
                    | other => other
                    end
                | RCall j args =>
                    let evargs :=
                      fix evargs (l : list rvalue) (acc : list Z) (steps : nat) (trace : rtrace) {struct l}
                        : option (list Z * nat * rtrace) + evres :=
                        match l with
                        | [] => inl (Some (acc, steps, trace))
                        | x :: rest =>
                            match eval x steps trace with
                            | EVal z st tr => evargs rest (acc ++ [z]) st tr
                            | other => inr other
                            end
                        end in
                    match evargs args [] steps trace with
                    | inr other => other
                    | inl None => EBad
                    | inl (Some (vals, st, tr)) =>
                        match nth_error rs j with
                        | None => EBad
                        | Some callee =>
                            if negb (Nat.eqb (length vals) (length (r_params callee))) then EBad
                            else
                              let a' := mkRAct (fold_left (fun s pv => put s (fst pv) (snd pv))
                                                          (combine (r_params callee) vals) []) [] in
                              match run f here j a' 0 st tr with
                              | ODone ret st' tr' => EVal ret st' tr'
                              | OStop vs st' tr' => EStop vs st' tr'
                              | OFuel => EFuel
                              | OBad => EBad
                              end
                        end
                    end
                end in
            let goto := fun (target : Z) (a' : ract) (steps' : nat) (trace' : rtrace) =>
                          if target <? 0 then OBad else run f ctx k a' target steps' trace' in
            match znth (r_code r) pc with
            | None => OBad
            | Some i =>
                let steps1 := S steps in
                match i with
                | RSite l => run f ctx k a (pc + 1) steps1 (trace ++ [(l, here)])
                | RAssign x v =>
                    match eval v steps1 trace with
                    | EVal z st tr => run f ctx k (mkRAct (put (ra_vars a) x z) (ra_cnt a)) (pc + 1) st tr
                    | EStop vs st tr => OStop vs st tr
                    | EFuel => OFuel
                    | EBad => OBad
                    end
                | RLoopInit id v =>
                    match eval v steps1 trace with
                    | EVal z st tr => run f ctx k (mkRAct (ra_vars a) (putc (ra_cnt a) id z)) (pc + 1) st tr
                    | EStop vs st tr => OStop vs st tr
                    | EFuel => OFuel
                    | EBad => OBad
                    end
                | RLoopTest id exit =>
                    if getc (ra_cnt a) id =? 0
                    then match znth (r_targets r) exit with Some t => goto t a steps1 trace | None => OBad end
                    else run f ctx k a (pc + 1) steps1 trace
                | RLoopDec id back =>
                    let a' := mkRAct (ra_vars a) (putc (ra_cnt a) id (Z.max (getc (ra_cnt a) id - 1) 0)) in
                    match znth (r_targets r) back with Some t => goto t a' steps1 trace | None => OBad end
                | RWhileTest v exit =>
                    match eval v steps1 trace with
                    | EVal z st tr =>
                        if z =? 0
                        then match znth (r_targets r) exit with Some t => goto t a st tr | None => OBad end
                        else run f ctx k a (pc + 1) st tr
                    | EStop vs st tr => OStop vs st tr
                    | EFuel => OFuel
                    | EBad => OBad
                    end
                | RJump target =>
                    match znth (r_targets r) target with Some t => goto t a steps1 trace | None => OBad end
                | RGoto l => goto (label_pos (r_labels r) l) a steps1 trace
                | RIfGoto x y l =>
                    match eval x steps1 trace with
                    | EVal zx st tr =>
                        match eval y st tr with
                        | EVal zy st' tr' =>
                            if zx =? zy then goto (label_pos (r_labels r) l) a st' tr'
                            else run f ctx k a (pc + 1) st' tr'
                        | EStop vs st' tr' => OStop vs st' tr'
                        | EFuel => OFuel
                        | EBad => OBad
                        end
                    | EStop vs st tr => OStop vs st tr
                    | EFuel => OFuel
                    | EBad => OBad
                    end
                | RStop => OStop here steps1 trace
                | RHalt => OStop here steps1 trace
                | RReturn out => ODone (get (ra_vars a) out) steps1 trace
                end
            end
        end
    end.
End Run.

(* the whole program: the main routine is the last one of the table *)
Definition run_ref (fuel : nat) (rs : list routine) : outcome :=
  match length rs with
  | O => OBad
  | S k => run rs fuel [] k (mkRAct [] []) 0 0 []
  end.

(* ================================================================================================ *)
(* From the syntax tree to routines: flattening.                                                      *)
(* ================================================================================================ *)
Record builder := mkB {
  b_name : str;
  b_params : list str;
  b_code : list rinstr;          (* in order *)
  b_labels : list (str * Z);
  b_targets : list Z;
  b_vars : list str
}.

Record fstate := mkF {
  f_done : list routine;         (* finished definitions, in order *)
  f_names : list (str * nat);    (* callable name -> index in f_done (the latest finished definition wins) *)
  f_cur : builder;
  f_pos : loc;                   (* the line the text is on *)
  f_loops : Z
}.

Definition mention (b : builder) (x : str) : builder :=
  if existsb (str_eqb x) (b_vars b) then b
  else mkB (b_name b) (b_params b) (b_code b) (b_labels b) (b_targets b) (b_vars b ++ [x]).

Definition bemit (b : builder) (i : rinstr) : builder :=
  mkB (b_name b) (b_params b) (b_code b ++ [i]) (b_labels b) (b_targets b) (b_vars b).
Definition bnext (b : builder) : Z := zlen (b_code b).
Definition new_target (b : builder) : builder * Z :=
  (mkB (b_name b) (b_params b) (b_code b) (b_labels b) (b_targets b ++ [-1]) (b_vars b), zlen (b_targets b)).
Definition set_target (b : builder) (id pos : Z) : builder :=
  match zupd (b_targets b) id pos with
  | Some t => mkB (b_name b) (b_params b) (b_code b) (b_labels b) t (b_vars b)
  | None => b
  end.
Definition last_is_site (b : builder) : bool :=
  match rev (b_code b) with RSite _ :: _ => true | _ => false end.
(* a label names the site that starts its statement when that site was just emitted, else the next instruction *)
Definition mark_pos (b : builder) : Z := if last_is_site b then bnext b - 1 else bnext b.
Definition set_label (b : builder) (l : str) (pos : Z) : builder :=
  mkB (b_name b) (b_params b) (b_code b) (put (b_labels b) l pos) (b_targets b) (b_vars b).
Definition touch_label (b : builder) (l : str) : builder :=
  if existsb (fun e => str_eqb (fst e) l) (b_labels b) then b
  else mkB (b_name b) (b_params b) (b_code b) (b_labels b ++ [(l, -1)]) (b_targets b) (b_vars b).

Definition with_cur (s : fstate) (b : builder) : fstate := mkF (f_done s) (f_names s) b (f_pos s) (f_loops s).

(* the text moves to (file, line): a site, unless it is the hidden standard-macro file or the same line *)
Definition move_to (s : fstate) (file : str) (line : Z) : fstate :=
  if str_eqb file hidden_file then s
  else if str_eqb (fst (f_pos s)) file && (snd (f_pos s) =? line) then s
  else mkF (f_done s) (f_names s) (bemit (f_cur s) (RSite (file, line))) (file, line) (f_loops s).

Fixpoint lookup_name (names : list (str * nat)) (n : str) : option nat :=
  match names with [] => None | (k, v) :: t => if str_eqb k n then Some v else lookup_name t n end.

Definition lit (n : node) : Z := wrap_int (strtol (n_tok n)).

(* RUN names the latest definition completed so far and passes as many arguments as it has parameters *)
Definition resolve_call (s : fstate) (fname : str) (vs : list rvalue) : option (fstate * rvalue) :=
  match lookup_name (f_names s) fname with
  | Some j =>
      match nth_error (f_done s) j with
      | Some callee => if Nat.eqb (length vs) (length (r_params callee)) then Some (s, RCall j vs) else None
      | None => None
      end
  | None => None
  end.

Fixpoint no_dup (l : list str) : bool :=
  match l with [] => true | x :: t => negb (existsb (str_eqb x) t) && no_dup t end.

(* values; visiting a value node moves the text position like visiting a statement does *)
Fixpoint flat_value (n : node) (s : fstate) {struct n} : option (fstate * rvalue) :=
  let s := move_to s (n_file n) (n_line n) in
  match n with
  | Node N_NAME _ _ tok _ _ => Some (with_cur s (mention (f_cur s) tok), RVar tok)
  | Node N_NUMBER _ _ tok _ _ =>
      if INT_MAX <=? strtol tok then None          (* literals must be below 2^31-1 *)
      else Some (s, RNum (strtol tok))
  | Node N_CALL _ _ _ (Some ln) r =>
      let res :=
        match r with
        | None => Some (s, [])
        | Some rn0 =>
            (fix args (a : node) (acc : fstate * list rvalue) {struct a} : option (fstate * list rvalue) :=
               match a with
               | Node N_SPLIT _ _ _ al ar =>
                   match (match al with None => Some acc | Some x => args x acc end) with
                   | None => None
                   | Some acc1 => match ar with None => Some acc1 | Some x => args x acc1 end
                   end
               | leaf =>
                   match flat_value leaf (fst acc) with
                   | Some (s', v) => Some (s', snd acc ++ [v])
                   | None => None
                   end
               end) rn0 (s, [])
        end in
      match res with
      | None => None
      | Some (s1, vs) =>
          let fname := n_tok ln in
          let builtin :=
            match r, vs with
            | Some (Node _ _ _ _ (Some a1) (Some (Node _ _ _ _ (Some a2) _))), [v1; v2] =>
                match n_type a1, n_type a2 with
                | N_NAME, N_NUMBER => Some (v1, lit a2)
                | _, _ => None
                end
            | _, _ => None
            end in
          match builtin with
          | Some (v1, c) =>
              if str_eqb fname [95; 95; 73; 78; 67; 95; 95]%N then Some (s1, RInc v1 c)
              else if str_eqb fname [95; 95; 68; 69; 67; 95; 95]%N then Some (s1, RDec v1 c)
              else resolve_call s1 fname vs
          | None => resolve_call s1 fname vs
          end
      end
  | _ => None
  end.

Definition opt_value (o : option node) (s : fstate) : option (fstate * rvalue) :=
  match o with Some n => flat_value n s | None => None end.

Fixpoint param_names (n : node) : list str :=
  match n with
  | Node N_SPLIT _ _ _ l r =>
      (match l with Some x => param_names x | None => [] end) ++ (match r with Some x => param_names x | None => [] end)
  | Node _ _ _ tok _ _ => [tok]
  end.

Definition finish_routine (b : builder) : routine :=
  mkRoutine (b_name b) (b_params b) (b_code b) (b_labels b) (b_targets b) (b_vars b).

Fixpoint flat_stmt (n : node) (s : fstate) {struct n} : option fstate :=
  let s := move_to s (n_file n) (n_line n) in
  let sub := fun (o : option node) (s : fstate) => match o with None => Some s | Some x => flat_stmt x s end in
  match n with
  | Node N_SPLIT _ _ _ l r =>
      match (match l with None => Some s | Some x => flat_stmt x s end) with
      | None => None
      | Some s1 => match r with None => Some s1 | Some x => flat_stmt x s1 end
      end
  | Node N_PROGRAM _ _ _ (Some (Node _ _ _ _ (Some name) ports)) body =>
      (* the header line is not a stop of its own: drop the site just placed for it *)
      let outer := f_cur s in
      let outer := if last_is_site outer
                   then mkB (b_name outer) (b_params outer) (removelast (b_code outer)) (b_labels outer) (b_targets outer) (b_vars outer)
                   else outer in
      let params := match ports with Some (Node _ _ _ _ (Some a) _) => param_names a | _ => [] end in
      let out := match ports with Some (Node _ _ _ _ _ (Some o)) => n_tok o | _ => [120; 48]%N end in
      let b0 := fold_left mention params (mkB (n_tok name) params [] [] [] []) in
      let s1 := mkF (f_done s) (f_names s) b0 (f_pos s) (f_loops s) in
      if negb (no_dup params) then None else
      match (match body with None => Some s1 | Some x => flat_stmt x s1 end) with
      | None => None
      | Some s2 =>
          let b := bemit (mention (f_cur s2) out) (RReturn out) in
          let idx := length (f_done s2) in
          Some (mkF (f_done s2 ++ [finish_routine b]) ((n_tok name, idx) :: f_names s2) outer (f_pos s2) (f_loops s2))
      end
  | Node N_ASSIGN _ _ _ (Some ln) r =>
      let s0 := with_cur s (mention (f_cur s) (n_tok ln)) in
      match opt_value r s0 with
      | Some (s1, v) => Some (with_cur s1 (bemit (f_cur s1) (RAssign (n_tok ln) v)))
      | None => None
      end
  | Node N_LOOP _ _ _ l r =>
      let id := f_loops s + 1 in
      let s0 := mkF (f_done s) (f_names s) (f_cur s) (f_pos s) id in
      match opt_value l s0 with
      | None => None
      | Some (s1, v) =>
          let b1 := bemit (f_cur s1) (RLoopInit id v) in
          let '(b2, t_start) := new_target b1 in
          let '(b3, t_end) := new_target b2 in
          let b4 := set_target b3 t_start (bnext b3) in
          let b5 := bemit b4 (RLoopTest id t_end) in
          match (match r with None => Some (with_cur s1 b5) | Some x => flat_stmt x (with_cur s1 b5) end) with
          | None => None
          | Some s2 =>
              let b6 := bemit (f_cur s2) (RLoopDec id t_start) in
              Some (with_cur s2 (set_target b6 t_end (bnext b6)))
          end
      end
  | Node N_WHILE _ _ _ l r =>
      let '(b1, t_start) := new_target (f_cur s) in
      let '(b2, t_end) := new_target b1 in
      let b3 := set_target b2 t_start (bnext b2) in
      match opt_value l (with_cur s b3) with
      | None => None
      | Some (s1, v) =>
          let b4 := bemit (f_cur s1) (RWhileTest v t_end) in
          match (match r with None => Some (with_cur s1 b4) | Some x => flat_stmt x (with_cur s1 b4) end) with
          | None => None
          | Some s2 =>
              let b5 := bemit (f_cur s2) (RJump t_start) in
              Some (with_cur s2 (set_target b5 t_end (bnext b5)))
          end
      end
  | Node N_MARK _ _ _ (Some ln) _ =>
      Some (with_cur s (set_label (f_cur s) (n_tok ln) (mark_pos (f_cur s))))
  | Node N_GOTO _ _ _ (Some ln) _ =>
      Some (with_cur s (bemit (touch_label (f_cur s) (n_tok ln)) (RGoto (n_tok ln))))
  | Node N_IF _ _ _ (Some (Node _ _ _ _ a b)) (Some (Node _ _ _ _ (Some target) _)) =>
      match opt_value a s with
      | None => None
      | Some (s1, va) =>
          match opt_value b s1 with
          | None => None
          | Some (s2, vb) =>
              Some (with_cur s2 (bemit (touch_label (f_cur s2) (n_tok target)) (RIfGoto va vb (n_tok target))))
          end
      end
  | Node N_STOP _ _ _ _ _ => Some (with_cur s (bemit (f_cur s) RStop))
  | _ => None
  end.

Definition labels_set (r : routine) : bool := forallb (fun e => 0 <=? snd e) (r_labels r).

Definition root_name : str := [35; 114; 111; 111; 116]%N.
(* before the first token the text is on no line: the placeholder position ("-", -1), which no token has *)
Definition root_ctx_name : str := [45]%N.
Definition root_ctx_line : Z := -1.

(* the routine table of a parsed source: the definitions in order, then the main program.
   None: the tree is not a well-formed program (unknown callee, malformed node). *)
Definition abstract_source (root : option node) : option (list routine) :=
  let s0 := mkF [] [] (mkB root_name [] [] [] [] []) (root_ctx_name, root_ctx_line) 0 in
  match (match root with None => Some s0 | Some n => flat_stmt n s0 end) with
  | None => None
  | Some s =>
      let rs := f_done s ++ [finish_routine (bemit (f_cur s) RHalt)] in
      if forallb labels_set rs then Some rs else None      (* every jump target is a label of the same body *)
  end.
