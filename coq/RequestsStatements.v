(* RequestsStatements.v — C15, last sentence, at the level of a compilation: the file requests a compilation returns
   are exactly the names of the absent included files and of an absent main file, in the order the scanner met them —
   and a name is requested only if it is absent from what the scanner was given. *)
From Theo Require Import Base Regex Tokens Errors Lexer Scan MacroExtract Grammar LR MacroApply Parser VMModel GenModel Compile
                         Gen_Lexer Gen_Consts LocErrStatements.
Local Open Scope Z_scope.

Definition C15_compiled_requests_stmt : Prop :=
  forall files main c, compile files main = Ok c ->
    exists toks serrs,
      scan Gen_Lexer.rules (seen_files files main) main = Ok (toks, serrs) /\
      cr_requests c = map pe_request (filter is_request serrs) /\
      (forall n, In n (cr_requests c) -> fcontains (seen_files files main) n = false).
