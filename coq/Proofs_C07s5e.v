(* Proofs_C07s5e.v — C07 with calls, part 5: line_info is stable below the code that exists.
   Later code generation never changes line_info at positions of instructions that are already there (LiI, by the
   primitive steps of Proofs_Gen0.v: breakpoint inserts at the next position; remove_top_pot_break removes the entry
   of the last instruction, which is a POTENTIAL_BREAK emitted later); hence the line_info entries of the sites of a
   finished routine stay (JLI4_stable).  The start of the walk over a routine body, with line_info. *)
From Coq Require Import List ZArith NArith Lia Bool.
From Theo Require Import Base Tokens Errors MacroExtract Parser VMModel VMSpec GenModel Compile RefSem RefSemChk C01Statements C01Stages C01Stages3 C01Stages4 Gen_Consts Proofs_VM_mem Proofs_VM_dbg Proofs_Gen0 Proofs_Gen Proofs_Sem Proofs_C01a Proofs_C01b Proofs_C01 Proofs_C01s2a Proofs_C01s2b Proofs_C01s2c Proofs_C01s2d Proofs_C01s2 Proofs_C01s3a Proofs_C01s3b Proofs_C01s3c Proofs_C01s3d Proofs_C01s4a Proofs_C01s4b Proofs_C01s4g Proofs_C01s4h Proofs_C01s4i Proofs_C01s4j Proofs_C01s4k Proofs_C01s4l Proofs_C01s4m Proofs_C07b Proofs_C07s5a.
Import ListNotations.
Local Open Scope Z_scope.

Notation PosT := (fun (_ : str) (_ : Z) => True).

(* ================================================================================================ *)
(* 1. line_info below a bound                                                                       *)
(* ================================================================================================ *)
Definition LiI (B : Z) (g0 g : gstate) : Prop :=
  inv1 g /\ B <= zlen (g_code g) /\
  (forall q, q < B -> znth (g_code g) q = znth (g_code g0) q) /\
  (forall q, q < B -> alookup z_ltb (g_li g) q = alookup z_ltb (g_li g0) q).

Lemma LiI_refl g : inv1 g -> LiI (zlen (g_code g)) g g.
Proof. intros H. split; [exact H|]. split; [lia|]. split; auto. Qed.

Lemma LiI_same B g0 g g' : g_code g' = g_code g -> g_pb g' = g_pb g -> g_li g' = g_li g -> LiI B g0 g -> LiI B g0 g'.
Proof.
  intros Ec Ep El (I & HB & Hc & Hl). split; [eapply inv1_ext; eauto|]. rewrite Ec, El. auto.
Qed.

Lemma LiI_emit B g0 g i : iop i <> BREAK -> iop i <> POTENTIAL_BREAK -> LiI B g0 g -> LiI B g0 (emit g i).
Proof.
  intros H1 H2 (I & HB & Hc & Hl). split; [apply inv1_emit; assumption|].
  cbn [emit upd_code g_code g_li]. rewrite zlen_snoc. split; [lia|]. split; [|exact Hl].
  intros q Hq. rewrite znth_app_l by lia. apply Hc; exact Hq.
Qed.

Lemma LiI_breakpoint B g0 g : LiI B g0 g -> LiI B g0 (breakpoint g).
Proof.
  intros (I & HB & Hc & Hl). split; [apply inv1_breakpoint; exact I|].
  unfold breakpoint, emit, next_pos. cbn [upd_code upd_tables g_code g_li]. rewrite zlen_snoc. split; [lia|]. split.
  - intros q Hq. rewrite znth_app_l by lia. apply Hc; exact Hq.
  - intros q Hq. rewrite z_lookup_insert.
    destruct (keqb_z_dec (zlen (g_code g)) q) as [[_ E]|[-> _]]; [lia | apply Hl; exact Hq].
Qed.

Lemma LiI_advance B g0 g line file : LiI B g0 g -> LiI B g0 (advance_line g line file).
Proof.
  intros H. unfold advance_line. destruct (str_eqb file hidden_file); [exact H|].
  destruct (str_eqb (g_fsname g) file).
  - destruct (line =? g_fsline g); [exact H|]. apply LiI_breakpoint. eapply LiI_same; [| | |exact H]; reflexivity.
  - apply LiI_breakpoint. eapply LiI_same; [| | |exact H]; reflexivity.
Qed.

Lemma znth_removelast {A} (l : list A) q : q < zlen l - 1 -> znth (removelast l) q = znth l q.
Proof.
  intros Hq. destruct (rev l) as [|x r] eqn:E.
  - apply (f_equal (@rev A)) in E. rewrite rev_involutive in E. subst l. reflexivity.
  - apply rev_cons_inv in E. rewrite E in *. rewrite removelast_last. rewrite zlen_snoc in Hq.
    symmetry. apply znth_app_l. lia.
Qed.

Lemma LiI_remove g0 g g' : code_last_pb (g_code g0) = false -> 1 <= zlen (g_code g0) ->
  remove_top_pot_break false g = Ok g' -> LiI (zlen (g_code g0)) g0 g -> LiI (zlen (g_code g0)) g0 g'.
Proof.
  intros Hlast H1 H HI. pose proof HI as (I & HB & Hc & Hl).
  pose proof (inv1_remove _ _ H I) as I'.
  unfold remove_top_pot_break in H. binv H. rename a into i. rename H0 into Hi.
  pose proof (hd_rev_inv _ _ Hi) as Ecode.
  destruct (opcode_eqb (iop i) POTENTIAL_BREAK) eqn:Eo; [|inversion H; subst; exact HI].
  binv H. inversion H; subst g'; clear H.
  assert (Hlen : zlen (g_code g) = zlen (removelast (g_code g)) + 1) by (rewrite Ecode at 1; apply zlen_snoc).
  assert (Hgt : zlen (g_code g0) < zlen (g_code g)).
  { destruct (Z.eq_dec (zlen (g_code g0)) (zlen (g_code g))) as [E|]; [|lia]. exfalso.
    assert (Hz : znth (g_code g0) (zlen (g_code g0) - 1) = Some i).
    { rewrite <- Hc by lia. rewrite E, Ecode at 1. rewrite Hlen. replace (zlen (removelast (g_code g)) + 1 - 1) with (zlen (removelast (g_code g))) by lia.
      apply znth_app_last. }
    rewrite (code_last_pb_znth _ _ Hz) in Hlast. congruence. }
  split; [exact I'|]. cbn [upd_code upd_tables g_code g_li]. split; [lia|]. split.
  - intros q Hq. rewrite znth_removelast by lia. apply Hc; exact Hq.
  - intros q Hq. rewrite z_lookup_remove by (destruct I as [_ S _ _ _]; exact S).
    unfold next_pos. destruct (keqb_z_dec (zlen (g_code g) - 1) q) as [[_ E]|[-> _]]; [lia | apply Hl; exact Hq].
Qed.

Lemma step_LiI g0 g g' : code_last_pb (g_code g0) = false -> 1 <= zlen (g_code g0) ->
  step PosT g g' -> LiI (zlen (g_code g0)) g0 g -> LiI (zlen (g_code g0)) g0 g'.
Proof.
  intros Hlast H1 S HI. destruct S; try (eapply LiI_same; [| | |exact HI]; reflexivity).
  - apply LiI_emit; auto; destruct i as [o ? ? ?]; cbn in *; destruct o; discriminate.
  - apply LiI_emit; try discriminate. eapply LiI_same; [| | |exact HI]; unfold gen_str_to_int; cbn [fst];
      destruct (INT_MAX <=? strtol tok); reflexivity.
  - apply LiI_emit; try discriminate. exact HI.
  - apply LiI_advance. exact HI.
  - eapply LiI_remove; eauto.
Qed.

Lemma steps_LiI g0 g g' : code_last_pb (g_code g0) = false -> 1 <= zlen (g_code g0) ->
  steps PosT g g' -> LiI (zlen (g_code g0)) g0 g -> LiI (zlen (g_code g0)) g0 g'.
Proof.
  intros Hlast H1 S. apply (steps_preserve PosT (LiI (zlen (g_code g0)) g0)); [|exact S].
  intros x y Sx. apply step_LiI; assumption.
Qed.

(* the generation of any tree *)
Lemma dvoid_LiI n g g' : code_last_pb (g_code g) = false -> 1 <= zlen (g_code g) -> inv1 g ->
  dispatch_void false false false n g = Ok g' -> LiI (zlen (g_code g)) g g'.
Proof.
  intros Hlast H1 I H.
  pose proof (dvoid_steps PosT false false n g g g' (allpos_true (Some n)) H (steps_refl _ g)) as S.
  exact (steps_LiI g g g' Hlast H1 S (LiI_refl g I)).
Qed.

(* ================================================================================================ *)
(* 2. the sites of a finished routine                                                               *)
(* ================================================================================================ *)
Lemma JLI4_stable P0 li li' rc B : JLI4 P0 li rc -> P0 + boff4 rc (length rc) <= B ->
  (forall q, q < B -> alookup z_ltb li' q = alookup z_ltb li q) -> JLI4 P0 li' rc.
Proof.
  intros H HB Hl pc l Hz. rewrite Hl; [apply H; exact Hz|].
  pose proof (znth_some_range _ _ _ Hz) as Rg.
  pose proof (boff4_S _ _ _ (znth_nth_error _ _ _ Hz)) as HS. cbn [blen4 blen3 blen] in HS.
  pose proof (boff4_mono rc (S (Z.to_nat pc)) (length rc)) as Hm.
  unfold zlen in Rg. specialize (Hm ltac:(lia)). unfold pm_of4. lia.
Qed.

(* the walk over the body of a routine starts here *)
Lemma J4x_start P0 FT g s : g_syms g <> [] -> P0 = zlen (g_code g) ->
  code_last_pb (g_code g) = false -> gmarks g = [] -> JT (g_todo g) (g_code g) ->
  b_code (f_cur s) = [] -> b_labels (f_cur s) = [] -> b_targets (f_cur s) = [] ->
  RW (gks g) (g_loops g) -> JV (gks g) (b_vars (f_cur s)) -> 0 <= g_loops g ->
  f_pos s = gpos g -> f_loops s = g_loops g ->
  J4x P0 FT (g_labels g) g s [] 0.
Proof.
  intros Hs HP Hl Hm HT Hc Hlb Ht HR HV HL Hp Hlo. split; [apply J4_start; assumption|].
  rewrite Hc. intros pc l Hz. rewrite znth_nil in Hz. discriminate.
Qed.
