(* Proofs_ApplyComplete0.v — helper lemmas for Proofs_ApplyComplete.v:
     1. an Ok answer of the LR driver does not change with more fuel;
     2. from a derivation (SpecMacro.Derives) to a derivation tree (SpecLR.tree) with a prescribed token yield;
     3. from an occurrence of a macro's pattern (matches_parts) to the tree of MACRO -> pattern in the detector
        grammar, its yield and its value;
     4. the text constraints of an occurrence hold;
     5. which tokens have a column in a detector's tables;
     6. the prefix parser of a usable detector answers every occurrence with its split. *)
From Coq Require Import List ZArith NArith Lia Bool Sorting.Sorted.
From Theo Require Import Base Tokens Errors MacroExtract Grammar LR Gen_MacroGrammar Gen_Consts MacroApply SpecMacro SpecLR
                         CompileStatements ApplyStatements MacroStatements LRStatements LRCompleteStatements
                         ApplyCompleteStatements Proofs_First Proofs_Front Proofs_LRSound0 Proofs_LRSound
                         Proofs_LRComplete0 Proofs_LRComplete Proofs_Macro Proofs_Apply0 Proofs_Apply.
Import ListNotations.

Notation ttree := (@tree token).
Notation rootT := (root translator).
Notation validT := (valid translator).
Notation valueT := (value creator semantic).

(* ================================================================================================ *)
(* 1. fuel                                                                                            *)
(* ================================================================================================ *)
Section Mono.
  Context {T V : Type}.
  Variables (translator : T -> N) (creator : T -> V) (semantic : sym -> N -> list V -> V) (tab : tables).

  Lemma lr_parse_mono : forall f input sts vals a,
    lr_parse translator creator semantic tab f input sts vals = Ok a ->
    forall k, lr_parse translator creator semantic tab (f + k) input sts vals = Ok a.
  Proof.
    induction f as [|f IH]; intros input sts vals a H k; [discriminate|].
    cbn [Nat.add]. cbn [lr_parse] in H |- *.
    destruct (of_opt ub_back (hd_error sts)) as [s| |]; cbn [bind] in H |- *; try discriminate.
    destruct (of_opt ub_iter (hd_error input)) as [tok| |]; cbn [bind] in H |- *; try discriminate.
    destruct (of_opt ub_index (znth (t_action tab) s)) as [row| |]; cbn [bind] in H |- *; try discriminate.
    destruct (zlen row <=? Z.of_N (translator tok))%Z; [exact H|].
    destruct (of_opt ub_index (znth row (Z.of_N (translator tok)))) as [act| |]; cbn [bind] in H |- *; try discriminate.
    destruct act as [s'|lft beta lhs alt| |].
    - apply IH. exact H.
    - destruct (pop_n (N.to_nat beta) sts vals []) as [[[st' v'] popped]| |]; cbn [bind] in H |- *; try discriminate.
      destruct (of_opt ub_back (hd_error st')) as [s'| |]; cbn [bind] in H |- *; try discriminate.
      destruct (of_opt ub_index (znth (t_jump tab) s')) as [jrow| |]; cbn [bind] in H |- *; try discriminate.
      destruct (of_opt ub_index (znth jrow (Z.of_N lft))) as [target| |]; cbn [bind] in H |- *; try discriminate.
      apply IH. exact H.
    - exact H.
    - exact H.
  Qed.

  Lemma parse_mono f input a : parse translator creator semantic tab f input = Ok a ->
    forall k, parse translator creator semantic tab (f + k) input = Ok a.
  Proof. unfold parse. apply lr_parse_mono. Qed.

  (* an Ok answer is the answer of every larger fuel: two Ok answers agree *)
  Lemma parse_ok_unique f input a n b :
    parse translator creator semantic tab f input = Ok a ->
    (forall k, parse translator creator semantic tab (n + S k) input = Ok b) -> a = b.
  Proof.
    intros H1 H2. pose proof (parse_mono f input a H1 (n + 1)) as E1. specialize (H2 f).
    replace (n + S f)%nat with (f + (n + 1))%nat in H2 by lia. rewrite E1 in H2. inversion H2. reflexivity.
  Qed.
End Mono.

(* ================================================================================================ *)
(* 2. derivations and trees                                                                           *)
(* ================================================================================================ *)
Lemma derives_tree g :
  (forall X w, Derives g X w -> forall toks, kinds toks = w ->
     exists tr : ttree, validT g tr /\ rootT tr = X /\ yield tr = toks) /\
  (forall rhs w, DerivesL g rhs w -> forall toks, kinds toks = w ->
     exists ch : list ttree, Forall (validT g) ch /\ map rootT ch = rhs /\ concat (map yield ch) = toks).
Proof.
  apply Derives_DerivesL_mut.
  - intros i toks H. destruct toks as [|t [|t2 r]]; try discriminate. inversion H.
    exists (Leaf t). split; [constructor|]. split; reflexivity.
  - intros n alt rhs w Hn _ IH toks H. destruct (IH toks H) as (ch & V & R & Y).
    exists (Inner (Nt n) (N.of_nat alt) ch). split.
    + econstructor; [rewrite Nat2N.id; exact Hn|exact R|exact V].
    + split; [reflexivity|]. rewrite Proofs_Apply0.yield_inner. exact Y.
  - intros toks H. destruct toks; [|discriminate]. exists []. split; [constructor|]. split; reflexivity.
  - intros X rest w1 w2 _ IH1 _ IH2 toks H. unfold kinds in H.
    apply map_eq_app in H. destruct H as (t1 & t2 & -> & E1 & E2).
    destruct (IH1 t1 E1) as (tr & V & R & Y). destruct (IH2 t2 E2) as (ch & Vs & Rs & Ys).
    exists (tr :: ch). split; [constructor; assumption|]. cbn [map concat]. rewrite R, Rs, Y, Ys.
    split; reflexivity.
Qed.

Lemma base_no_macro_rule : rs_get base_grammar (Nt 7%N) = [].
Proof. vm_compute. reflexivity. Qed.

Lemma valid_base_dg m : forall t : ttree, validT base_grammar t -> validT (detector_grammar m) t.
Proof.
  induction t as [tok|lhs alt ch IH] using Proofs_Apply0.tree_ind2; intros HV; [constructor|].
  apply valid_inner_inv in HV. destruct HV as (rhs & Hr & Hroots & Hch).
  destruct (sym_eq_dec lhs (Nt 7%N)) as [->|NE].
  - rewrite base_no_macro_rule in Hr. destruct (N.to_nat alt); discriminate.
  - econstructor; [rewrite dg_rs_get_other by exact NE; exact Hr|exact Hroots|].
    rewrite Forall_forall in *. intros c Hc. apply IH; auto.
Qed.

(* ================================================================================================ *)
(* 3. from an occurrence to the tree of MACRO -> pattern                                              *)
(* ================================================================================================ *)
Definition part_ok (p : token) (range : list token) : Prop :=
  match slot_nonterminal (tk p) with
  | Some n => Derives base_grammar (Nt (N.of_nat n)) (kinds range)
  | None => exists t, range = [t] /\ tk t = tk p
  end.

Lemma nth_Forall2 {A B} (P : A -> B -> Prop) : forall (l : list A) (l' : list B),
  length l' = length l ->
  (forall i a b, nth_error l i = Some a -> nth_error l' i = Some b -> P a b) -> Forall2 P l l'.
Proof.
  induction l as [|a l IH]; intros [|b l'] L H; try discriminate; constructor.
  - apply (H O); reflexivity.
  - apply IH; [cbn [length] in L; lia|]. intros i x y Hx Hy. apply (H (S i)); assumption.
Qed.

Lemma matches_parts_F2 m parts : matches_parts m parts -> Forall2 part_ok (m_rule m) parts.
Proof. intros (L & H & _). apply nth_Forall2; [exact L|exact H]. Qed.

Lemma part_tree m p range : tk p <> T_EOF -> part_ok p range ->
  exists c : ttree, yield c = range /\ rootT c = pattern_sym p /\ validT (detector_grammar m) c /\ lowQ c.
Proof.
  intros NE H. unfold part_ok in H. unfold pattern_sym.
  pose proof (pattern_okb p NE) as OK. unfold pattern_sym in OK.
  destruct (slot_nonterminal (tk p)) as [n|].
  - destruct (proj1 (derives_tree base_grammar) _ _ H range eq_refl) as (tr & V & R & Y).
    pose proof (valid_base_dg m tr V) as V'.
    exists tr. split; [exact Y|]. split; [exact R|]. split; [exact V'|].
    apply (low_tree m); [exact V'|]. rewrite R. exact OK.
  - destruct H as (t & -> & K). exists (Leaf t).
    assert (R : rootT (Leaf t) = Tm (tk_num (tk p))) by (cbn [root]; unfold translator; rewrite K; reflexivity).
    split; [reflexivity|]. split; [exact R|]. split; [constructor|].
    apply (low_tree m); [constructor|]. rewrite R. exact OK.
Qed.

Lemma parts_children m : forall rule parts, Forall (fun t => tk t <> T_EOF) rule -> Forall2 part_ok rule parts ->
  exists ch : list ttree, map yield ch = parts /\ map rootT ch = map pattern_sym rule /\
                          Forall (fun c => validT (detector_grammar m) c /\ lowQ c) ch.
Proof.
  intros rule parts NE F. induction F as [|p range rule parts Hp F IH].
  - exists []. split; [reflexivity|]. split; [reflexivity|constructor].
  - inversion NE as [|p' r' Np Nr]; subst. destruct (IH Nr) as (ch & Y & R & Q).
    destruct (part_tree m p range Np Hp) as (c & Yc & Rc & Vc & Qc).
    exists (c :: ch). cbn [map]. rewrite Yc, Y, Rc, R. split; [reflexivity|]. split; [reflexivity|].
    constructor; [split; assumption|exact Q].
Qed.

Lemma macro_value (ch : list ttree) alt : Forall lowQ ch ->
  valueT (Inner (Nt 7%N) alt ch) = (concat (rev (map yield ch)), map yield ch).
Proof.
  intros HQ. rewrite Proofs_Apply0.value_inner. rewrite (semantic_macro alt).
  destruct (lowQ_children ch HQ) as (A & _ & _).
  rewrite map_rev, rev_involutive. f_equal; [f_equal; f_equal|]; exact A.
Qed.

Lemma occurrence_tree m parts : rule_ok m -> matches_parts m parts ->
  exists tr : ttree, validT (detector_grammar m) tr /\ rootT tr = Nt 7%N /\
                     yield tr = concat parts /\ valueT tr = (concat (rev parts), parts).
Proof.
  intros R MP. destruct (parts_children m _ _ R (matches_parts_F2 m parts MP)) as (ch & Y & RT & Q).
  exists (Inner (Nt 7%N) 0 ch). split.
  - econstructor; [rewrite dg_rs_get_macro; reflexivity|exact RT|].
    eapply Forall_impl; [|exact Q]. intros c [Vc _]. exact Vc.
  - split; [reflexivity|]. rewrite Proofs_Apply0.yield_inner, Y. split; [reflexivity|].
    rewrite macro_value, Y; [reflexivity|]. eapply Forall_impl; [|exact Q]. intros c [_ Qc]. exact Qc.
Qed.

(* ================================================================================================ *)
(* 4. the text constraints of an occurrence                                                           *)
(* ================================================================================================ *)
Lemma ac_str_eqb_refl : forall s, str_eqb s s = true.
Proof. induction s as [|x s IH]; cbn [str_eqb]; [reflexivity|]. rewrite N.eqb_refl, IH. reflexivity. Qed.

Local Open Scope Z_scope.

Lemma check_constraint_ok rule (parts : list (list token)) : forall cc,
  Forall (fun i => 0 <= i < zlen rule) cc ->
  (forall c p, In c cc -> znth rule c = Some p -> exists t, znth parts c = Some [t] /\ ttext t = ttext p) ->
  check_constraint rule parts cc = Ok true.
Proof.
  induction cc as [|c cc IH]; intros F H; [reflexivity|].
  inversion F as [|c' cc' Hc Hcc]; subst. cbn [check_constraint].
  destruct (xe_znth_some rule c Hc) as (req & E1 & _). rewrite E1. cbn [of_opt bind].
  destruct (H c req (or_introl eq_refl) E1) as (t & E2 & E3). rewrite E2. cbn [of_opt bind].
  rewrite E3, ac_str_eqb_refl. apply IH; [exact Hcc|]. intros c0 p Hi. apply H. right; exact Hi.
Qed.

Lemma occurrence_constraints m parts : macro_ok m -> matches_parts m parts ->
  check_constraint (m_rule m) parts (m_cc m) = Ok true.
Proof.
  intros (_ & _ & M3 & _) (_ & _ & H). apply check_constraint_ok; assumption.
Qed.

Local Close Scope Z_scope.

(* ================================================================================================ *)
(* 5. columns                                                                                         *)
(* ================================================================================================ *)
Lemma gen_of_eq m : gen_of m = generate_tables max_states (detector_grammar m) detector_prefix_mode
                                 (Nt (N.of_nat detector_start)) (Tm (tk_num detector_eof)).
Proof. reflexivity. Qed.

(* the terminal i occurs in a rule of g *)
Definition in_rule (g : grammar) (i : N) : Prop :=
  exists lhs k rhs, nth_error (rs_get g lhs) k = Some rhs /\ In (Tm i) rhs.

Lemma in_rule_col m g' tab confs states i : rule_ok m -> gen_of m = Ok (g', tab, confs, states) ->
  in_rule (detector_grammar m) i -> (i <= max_term g')%N.
Proof.
  intros R HG (lhs & k & rhs & Hr & Hi). rewrite gen_of_eq in HG.
  destruct (generate_inv _ _ _ _ _ _ _ _ _ (dg_wf m R) (dg_start_ok m R) (dg_rhs_closed m R) HG) as (H5 & _).
  destruct (lhs_nt _ _ _ (dg_wf m R) (dg_start_ok m R) _ H5 _ _ _ Hr) as (n & _ & _ & _ & _ & HM).
  apply (mentioned4_bound _ _ _ (dg_wf m R) (dg_start_ok m R) _ H5). apply HM. exact Hi.
Qed.

(* every token kind except UNKNOWN is at most WITH, which the fixed part of the detector grammar uses *)
Lemma with_in_rule m : in_rule (detector_grammar m) 37%N.
Proof.
  exists (Nt 2%N), 2%nat, [Tm 36; Nt 0; Tm 37; Nt 3; Tm 19]%N. split.
  - rewrite dg_rs_get_other by discriminate. vm_compute. reflexivity.
  - right; right; left; reflexivity.
Qed.

Lemma kind_le_with k : k <> UNKNOWN -> (tk_num k <= 37)%N.
Proof. destruct k; intros H; try (cbn [tk_num]; lia). contradiction. Qed.

Lemma pattern_in_rule m p : In p (m_rule m) -> slot_nonterminal (tk p) = None ->
  in_rule (detector_grammar m) (tk_num (tk p)).
Proof.
  intros Hp Hs. exists (Nt 7%N), 0%nat, (pat_rhs m). split; [rewrite dg_rs_get_macro; reflexivity|].
  unfold pat_rhs. apply in_map_iff. exists p. split; [|exact Hp]. unfold pattern_sym. rewrite Hs. reflexivity.
Qed.

(* the token has a column in the tables of the detector of m: any kind but UNKNOWN, and UNKNOWN too when the
   pattern has an UNKNOWN literal *)
Definition has_column (m : macrodef) (tok : token) : Prop :=
  tk tok <> UNKNOWN \/ exists p, In p (m_rule m) /\ tk p = UNKNOWN.

Lemma has_column_col m g' tab confs states tok : rule_ok m -> gen_of m = Ok (g', tab, confs, states) ->
  has_column m tok -> (translator tok <= max_term g')%N.
Proof.
  intros R HG [H|(p & Hp & K)].
  - pose proof (in_rule_col m _ _ _ _ _ R HG (with_in_rule m)) as B.
    pose proof (kind_le_with _ H) as L. unfold translator. lia.
  - destruct (N.le_gt_cases (translator tok) 37) as [L|L].
    + pose proof (in_rule_col m _ _ _ _ _ R HG (with_in_rule m)) as B. lia.
    + assert (E : translator tok = 38%N).
      { unfold translator in *. destruct (tk tok); cbn [tk_num] in *; try lia. }
      rewrite E. change 38%N with (tk_num UNKNOWN). rewrite <- K.
      apply (in_rule_col m _ _ _ _ _ R HG). apply pattern_in_rule; [exact Hp|]. rewrite K. reflexivity.
Qed.

(* tokens below an inner node of a valid tree are terminals of rules *)
Lemma yield_in_rule g : forall t : ttree, validT g t ->
  match t with Leaf _ => True | Inner _ _ _ => forall tok, In tok (yield t) -> in_rule g (translator tok) end.
Proof.
  induction t as [tok|lhs alt ch IH] using Proofs_Apply0.tree_ind2; intros HV; [exact I|].
  apply valid_inner_inv in HV. destruct HV as (rhs & Hr & Hroots & Hch).
  intros tok Hin. rewrite Proofs_Apply0.yield_inner in Hin. apply in_concat in Hin.
  destruct Hin as (y & Hy & Hin). apply in_map_iff in Hy. destruct Hy as (c & <- & Hc).
  rewrite Forall_forall in IH, Hch. specialize (IH c Hc (Hch c Hc)).
  destruct c as [tok'|lhs' alt' ch'].
  - cbn [yield] in Hin. destruct Hin as [<-|[]].
    exists lhs, (N.to_nat alt), rhs. split; [exact Hr|]. rewrite <- Hroots.
    apply in_map_iff. exists (Leaf tok'). split; [reflexivity|exact Hc].
  - apply IH. exact Hin.
Qed.

(* ================================================================================================ *)
(* 6. the parser of a usable detector answers an occurrence with its split                            *)
(* ================================================================================================ *)
Lemma usable_parse m g' tab states parts tok rest :
  macro_ok m -> gen_of m = Ok (g', tab, [], states) -> matches_parts m parts ->
  (tk tok = T_EOF \/ (translator tok <= max_term g')%N) ->
  exists n, forall k, parse translator creator semantic tab (n + S k) (concat parts ++ tok :: rest)
                      = Ok (Some (concat (rev parts), parts)).
Proof.
  intros MO HG MP HT. pose proof (macro_ok_rule m MO) as R.
  destruct (occurrence_tree m parts R MP) as (tr & V & RT & Y & VAL).
  rewrite gen_of_eq in HG. rewrite <- Y, <- VAL.
  apply (C13_complete_gen token accum translator creator semantic max_states (detector_grammar m)
           detector_prefix_mode (Nt (N.of_nat detector_start)) (Tm (tk_num detector_eof)) g' tab states tr tok rest
           (dg_wf m R) (dg_start_ok m R) (dg_rhs_closed m R) HG V RT).
  destruct HT as [K|L].
  - left. unfold translator. rewrite K. reflexivity.
  - right. split; [reflexivity|exact L].
Qed.
