(* Proofs_LRSound0.v — helper lemmas for Proofs_LRSound.v: the LR(1) automaton built by `elements`
   (origin of items, recorded transitions, completeness of the transition map) and the parse
   tables filled from it (every non-error cell is justified by the automaton). *)
From Coq Require Import List ZArith NArith Lia Bool Sorting.Sorted.
From Theo Require Import Base Grammar LR SpecMacro SpecLR LRStatements Proofs_First.
Import ListNotations.

(* ================================================================================================ *)
(* 0. the two hypotheses the statements of LRStatements.v lack (see Proofs_LRSound.v)                 *)
(* ================================================================================================ *)
(* every non-terminal occurring in a right-hand side is one of g's own (index < total_nt g):
   `elements` takes the next two indices for S' and E *)
Definition rhs_closed (g : grammar) : Prop :=
  forall X alts alt n, In (X, alts) (right_sides g) -> In alt alts -> In (Nt n) alt -> (n < total_nt g)%N.

(* the end marker occurs in no rule of g *)
Definition eof_fresh (g : grammar) (eof : sym) : Prop := ~ mentioned g eof.

(* ================================================================================================ *)
(* 1. the result monad                                                                               *)
(* ================================================================================================ *)
Lemma bind_Ok {A B} (r : result A) (f : A -> result B) b :
  bind r f = Ok b -> exists a, r = Ok a /\ f a = Ok b.
Proof. destruct r; cbn [bind]; intros H; try discriminate; eauto. Qed.

Lemma of_opt_Ok {A} k (o : option A) a : of_opt k o = Ok a -> o = Some a.
Proof. destruct o; cbn [of_opt]; intros H; inversion H; auto. Qed.

Ltac bind_inv H x Hx :=
  apply bind_Ok in H; destruct H as (x & Hx & H).

(* ================================================================================================ *)
(* 2. lists, znth, zupd                                                                              *)
(* ================================================================================================ *)
Lemma znth_Some {A} (l : list A) i x :
  znth l i = Some x -> (0 <= i)%Z /\ nth_error l (Z.to_nat i) = Some x.
Proof.
  unfold znth. destruct (Z.ltb_spec i 0); [discriminate|]. auto.
Qed.

Lemma znth_of_nth {A} (l : list A) i x :
  (0 <= i)%Z -> nth_error l (Z.to_nat i) = Some x -> znth l i = Some x.
Proof.
  intros H1 H2. unfold znth. destruct (Z.ltb_spec i 0); [lia|]. auto.
Qed.

Lemma znth_neg {A} (l : list A) : znth l (-1)%Z = None.
Proof. reflexivity. Qed.

Lemma nth_error_upd_nat_same {A} (l : list A) : forall n x,
  (n < length l)%nat -> nth_error (upd_nat l n x) n = Some x.
Proof.
  induction l as [|h t IH]; intros n x Hn; cbn [length] in Hn; [lia|].
  destruct n; cbn [upd_nat nth_error]; auto. apply IH. lia.
Qed.

Lemma nth_error_upd_nat_other {A} (l : list A) : forall n x k,
  k <> n -> nth_error (upd_nat l n x) k = nth_error l k.
Proof.
  induction l as [|h t IH]; intros n x k Hk.
  - destruct n; reflexivity.
  - destruct n, k; cbn [upd_nat nth_error]; auto; try congruence.
Qed.

Lemma length_upd_nat {A} (l : list A) : forall n x, length (upd_nat l n x) = length l.
Proof.
  induction l as [|h t IH]; intros n x; destruct n; cbn [upd_nat length]; auto.
Qed.

Lemma zupd_Some {A} (l : list A) i x l' :
  zupd l i x = Some l' ->
  (0 <= i < Z.of_nat (length l))%Z /\ l' = upd_nat l (Z.to_nat i) x.
Proof.
  unfold zupd. destruct (Z.leb_spec 0 i) as [L1|L1]; cbn [andb]; [|discriminate].
  destruct (Z.ltb_spec i (Z.of_nat (length l))) as [L2|L2]; [|discriminate].
  intros HH; inversion HH. auto.
Qed.

Lemma zupd_ok {A} (l : list A) i x :
  (0 <= i < Z.of_nat (length l))%Z -> zupd l i x = Some (upd_nat l (Z.to_nat i) x).
Proof.
  intros HH. unfold zupd. destruct (Z.leb_spec 0 i) as [L1|L1]; [|lia].
  destruct (Z.ltb_spec i (Z.of_nat (length l))) as [L2|L2]; [|lia]. reflexivity.
Qed.

Lemma znth_zupd {A} (l : list A) i x l' k y :
  zupd l i x = Some l' -> znth l' k = Some y -> (k = i /\ y = x) \/ znth l k = Some y.
Proof.
  intros HU HK. apply zupd_Some in HU. destruct HU as [Hi ->].
  apply znth_Some in HK. destruct HK as [Hk HK].
  destruct (Z.eq_dec k i) as [->|Hne].
  - rewrite nth_error_upd_nat_same in HK by lia. inversion HK. auto.
  - right. rewrite nth_error_upd_nat_other in HK by lia. apply znth_of_nth; auto.
Qed.

Lemma znth_zupd_same {A} (l : list A) i x l' :
  zupd l i x = Some l' -> znth l' i = Some x.
Proof.
  intros HU. apply zupd_Some in HU. destruct HU as [Hi ->].
  apply znth_of_nth; [lia|]. apply nth_error_upd_nat_same. lia.
Qed.

Lemma znth_zupd_other {A} (l : list A) i x l' k :
  zupd l i x = Some l' -> k <> i -> znth l' k = znth l k.
Proof.
  intros HU Hne. apply zupd_Some in HU. destruct HU as [Hi ->].
  unfold znth. destruct (Z.ltb_spec k 0); auto.
  apply nth_error_upd_nat_other. lia.
Qed.

Lemma zupd_length {A} (l : list A) i x l' : zupd l i x = Some l' -> length l' = length l.
Proof.
  intros HU. apply zupd_Some in HU. destruct HU as [Hi ->]. apply length_upd_nat.
Qed.

Lemma zrepeat_length {A} (x : A) n : length (zrepeat x n) = n.
Proof. induction n; cbn [zrepeat length]; auto. Qed.

Lemma nth_error_zrepeat {A} (x : A) n : forall k y, nth_error (zrepeat x n) k = Some y -> y = x.
Proof.
  induction n; intros k y; cbn [zrepeat].
  - destruct k; discriminate.
  - destruct k; cbn [nth_error]; [intros H; inversion H; auto|apply IHn].
Qed.

Lemma znth_zrepeat {A} (x : A) n k y : znth (zrepeat x n) k = Some y -> y = x.
Proof. intros H. apply znth_Some in H. destruct H as [_ H]. eapply nth_error_zrepeat; eauto. Qed.

Lemma firstn_S_nth {A} (l : list A) : forall d x,
  nth_error l d = Some x -> firstn (S d) l = firstn d l ++ [x].
Proof.
  induction l as [|h t IH]; intros d x H.
  - destruct d; discriminate.
  - destruct d; cbn [nth_error] in H.
    + inversion H. reflexivity.
    + cbn [firstn app]. f_equal. change (firstn (S d) t = firstn d t ++ [x]). apply IH; auto.
Qed.

(* ================================================================================================ *)
(* 3. symbols, items                                                                                  *)
(* ================================================================================================ *)
Lemma sym_eqb_eq a b : sym_eqb a b = true -> a = b.
Proof.
  unfold sym_eqb. rewrite andb_true_iff, !N.eqb_eq. intros [H1 H2]. apply sym_eq_of; auto.
Qed.

Lemma sym_eqb_refl a : sym_eqb a a = true.
Proof. unfold sym_eqb. rewrite !N.eqb_refl. reflexivity. Qed.

Lemma item_eqb_eq a b : item_eqb a b = true -> a = b.
Proof.
  destruct a as [l1 a1 d1 f1], b as [l2 a2 d2 f2]. unfold item_eqb.
  cbn [i_left i_alt i_dot i_follow].
  rewrite !andb_true_iff, !N.eqb_eq. intros [[[H1 H2] H3] H4].
  apply sym_eqb_eq in H1. apply sym_eqb_eq in H4. congruence.
Qed.

Lemma items_eqb_eq a : forall b, items_eqb a b = true -> a = b.
Proof.
  induction a as [|x a IH]; intros [|y b]; cbn [items_eqb]; try discriminate; auto.
  rewrite andb_true_iff. intros [H1 H2]. apply item_eqb_eq in H1. f_equal; auto.
Qed.

Lemma In_isinsert s y x : In x (sinsert item_ltb s y) -> x = y \/ In x s.
Proof.
  induction s as [|a t IH]; cbn [sinsert].
  - intros [H|[]]; auto.
  - destruct (item_ltb y a).
    + intros [H|H]; auto.
    + destruct (item_ltb a y).
      * intros [H|H]; [right; left; auto|]. destruct (IH H); auto. right; right; auto.
      * auto.
Qed.

Lemma isinsert_mono s y x : In x s -> In x (sinsert item_ltb s y).
Proof.
  induction s as [|a t IH]; cbn [sinsert]; [intros []|].
  destruct (item_ltb y a).
  - intros H; right; auto.
  - destruct (item_ltb a y); auto.
    intros [H|H]; [left; auto|right; auto].
Qed.

Lemma In_fold_isinsert new : forall acc x,
  In x (fold_left (sinsert item_ltb) new acc) -> In x new \/ In x acc.
Proof.
  induction new as [|y new IH]; intros acc x; cbn [fold_left]; auto.
  intros H. apply IH in H. destruct H as [H|H]; [left; right; auto|].
  apply In_isinsert in H. destruct H as [->|H]; [left; left; auto|auto].
Qed.

Lemma fold_isinsert_mono new : forall acc x,
  In x acc -> In x (fold_left (sinsert item_ltb) new acc).
Proof.
  induction new as [|y new IH]; intros acc x H; cbn [fold_left]; auto.
  apply IH. apply isinsert_mono; auto.
Qed.

Lemma In_count_up n : forall from x, In x (count_up n from) -> (from <= x /\ x < from + N.of_nat n)%N.
Proof.
  induction n as [|n IH]; intros from x; cbn [count_up]; [intros []|].
  intros [<-|H]; [lia|]. apply IH in H. lia.
Qed.

Lemma count_up_In n : forall from x, (from <= x /\ x < from + N.of_nat n)%N -> In x (count_up n from).
Proof.
  induction n as [|n IH]; intros from x H; cbn [count_up]; [lia|].
  destruct (N.eq_dec from x) as [->|Hne]; [left; auto|right]. apply IH. lia.
Qed.

Definition adv (e : item) : item := mkItem (i_left e) (i_alt e) (i_dot e + 1) (i_follow e).

Lemma fetch_right_adv g e : fetch_right g (adv e) = fetch_right g e.
Proof. reflexivity. Qed.

Lemma expecting_nth a e X : expecting a e = X -> X <> Eps -> nth_error a (N.to_nat (i_dot e)) = Some X.
Proof.
  unfold expecting, nth_N. destruct (nth_error a (N.to_nat (i_dot e))); intros H1 H2; congruence.
Qed.

(* ================================================================================================ *)
(* 4. closure, hull, jump, befores                                                                    *)
(* ================================================================================================ *)
Lemma closure_of_spec g e new x :
  closure_of g e = Ok new -> In x new ->
  exists a n, fetch_right g e = Ok a /\ expecting a e = Nt n /\ i_left x = Nt n /\ i_dot x = 0%N /\
    (N.to_nat (i_alt x) < length (rs_get g (Nt n)))%nat /\
    In (i_follow x) (first g (follow_string a e)).
Proof.
  unfold closure_of. intros H Hx. bind_inv H a Ha.
  destruct (expecting a e) as [| |n] eqn:E; inversion H; subst new; try contradiction.
  apply in_flat_map in Hx. destruct Hx as (ri & Hri & Hx).
  apply in_map_iff in Hx. destruct Hx as (la & <- & Hla).
  apply In_count_up in Hri. exists a, n. cbn [i_left i_dot i_alt i_follow].
  repeat split; auto. lia.
Qed.

Lemma closure_of_fetch g e new : closure_of g e = Ok new -> exists a, fetch_right g e = Ok a.
Proof. unfold closure_of. intros H. bind_inv H a Ha. eauto. Qed.

Lemma closure_round_spec g : forall todo acc r, closure_round g todo acc = Ok r ->
  (forall x, In x acc -> In x r) /\
  (forall x, In x r -> In x acc \/ exists e new, In e todo /\ closure_of g e = Ok new /\ In x new) /\
  (forall e, In e todo -> exists new, closure_of g e = Ok new).
Proof.
  induction todo as [|e rest IH]; intros acc r H; cbn [closure_round] in H.
  - inversion H; subst. split; [auto|split; [auto|intros e []]].
  - bind_inv H new Hn. apply IH in H. destruct H as (M1 & M2 & M3). split; [|split].
    + intros x Hx. apply M1. apply fold_isinsert_mono; auto.
    + intros x Hx. apply M2 in Hx. destruct Hx as [Hx|(e' & new' & A & B & C)].
      * apply In_fold_isinsert in Hx. destruct Hx as [Hx|Hx]; auto.
        right. exists e, new. split; [left; auto|auto].
      * right. exists e', new'. split; [right; auto|auto].
    + intros e' [<-|He']; eauto.
Qed.

Lemma hull_fuel_spec g : forall fuel I H, hull_fuel fuel g I = Ok H ->
  (forall x, In x I -> In x H) /\
  (forall x, In x H -> In x I \/ exists e new, In e H /\ closure_of g e = Ok new /\ In x new) /\
  (forall e, In e H -> exists new, closure_of g e = Ok new).
Proof.
  induction fuel as [|f IH]; intros I H HH; cbn [hull_fuel] in HH; [discriminate|].
  bind_inv HH I' HI'. apply closure_round_spec in HI'. destruct HI' as (M1 & M2 & M3).
  destruct (Nat.eqb (length I') (length I)).
  - inversion HH; subst H. split; [auto|split; [auto|auto]].
  - apply IH in HH. destruct HH as (N1 & N2 & N3). split; [|split]; auto.
    intros x Hx. destruct (N2 x Hx) as [Hx'|Hx']; auto.
    destruct (M2 x Hx') as [Hx''|(e & new & A & B & C)]; auto.
    right. exists e, new. split; auto.
Qed.

Lemma hull_fuel_inv g (P : item -> Prop) :
  (forall e new x, P e -> closure_of g e = Ok new -> In x new -> P x) ->
  forall fuel I H, (forall e, In e I -> P e) -> hull_fuel fuel g I = Ok H -> forall x, In x H -> P x.
Proof.
  intros HP. induction fuel as [|f IH]; intros I H HI HH; cbn [hull_fuel] in HH; [discriminate|].
  bind_inv HH I' HI'. apply closure_round_spec in HI'. destruct HI' as (M1 & M2 & M3).
  destruct (Nat.eqb (length I') (length I)).
  - inversion HH; subst H. auto.
  - eapply IH; [|exact HH]. intros x Hx. destruct (M2 x Hx) as [Hx'|(e & new & A & B & C)]; auto.
    eapply HP; eauto.
Qed.

Lemma hull_spec g I H : hull g I = Ok H ->
  (forall x, In x I -> In x H) /\
  (forall x, In x H -> In x I \/ exists e new, In e H /\ closure_of g e = Ok new /\ In x new) /\
  (forall e, In e H -> exists new, closure_of g e = Ok new).
Proof. apply hull_fuel_spec. Qed.

Lemma hull_inv g (P : item -> Prop) :
  (forall e new x, P e -> closure_of g e = Ok new -> In x new -> P x) ->
  forall I H, (forall e, In e I -> P e) -> hull g I = Ok H -> forall x, In x H -> P x.
Proof. intros HP I H. apply hull_fuel_inv; auto. Qed.

Lemma advance_items_spec g X : forall I acc J, advance_items g I X acc = Ok J ->
  forall x, In x J ->
    In x acc \/ exists e a, In e I /\ fetch_right g e = Ok a /\ expecting a e = X /\ x = adv e.
Proof.
  induction I as [|e rest IH]; intros acc J H x Hx; cbn [advance_items] in H.
  - inversion H; subst; auto.
  - bind_inv H a Ha. destruct (sym_eqb (expecting a e) X) eqn:E.
    + apply sym_eqb_eq in E. destruct (IH _ _ H x Hx) as [Hx'|(e' & a' & A & B & C & D)].
      * apply In_isinsert in Hx'. destruct Hx' as [->|Hx']; auto.
        right. exists e, a. split; [left; auto|auto].
      * right. exists e', a'. split; [right; auto|auto].
    + destruct (IH _ _ H x Hx) as [Hx'|(e' & a' & A & B & C & D)]; auto.
      right. exists e', a'. split; [right; auto|auto].
Qed.

Lemma befores_spec g : forall I acc ts, befores g I acc = Ok ts ->
  forall t, In t ts <->
    In t acc \/ exists e a, In e I /\ fetch_right g e = Ok a /\ expecting a e = t /\ t <> Eps.
Proof.
  induction I as [|e rest IH]; intros acc ts H t; cbn [befores] in H.
  - inversion H; subst. split; auto. intros [H1|(e & a & [] & _)]; auto.
  - bind_inv H a Ha.
    assert (HX : forall acc', befores g rest acc' = Ok ts ->
              (In t acc' <-> In t acc \/ (expecting a e = t /\ t <> Eps)) ->
              (In t ts <-> In t acc \/ exists e0 a0, In e0 (e :: rest) /\ fetch_right g e0 = Ok a0 /\
                                                     expecting a0 e0 = t /\ t <> Eps)).
    { intros acc' H' Hacc. rewrite (IH _ _ H' t). rewrite Hacc. split.
      - intros [[H1|[H1 H2]]|(e0 & a0 & A & B & C & D)]; auto.
        + right. exists e, a. split; [left; auto|auto].
        + right. exists e0, a0. split; [right; auto|auto].
      - intros [H1|(e0 & a0 & [<-|A] & B & C & D)]; auto.
        + rewrite Ha in B. inversion B; subst a0. auto.
        + right. exists e0, a0. auto. }
    destruct (expecting a e) as [|i|i] eqn:E.
    + apply (HX _ H). split; auto. intros [H1|[H1 H2]]; auto. congruence.
    + apply (HX _ H). rewrite In_sinsert. split.
      * intros [->|H1]; auto. right. split; auto. discriminate.
      * intros [H1|[H1 H2]]; auto.
    + apply (HX _ H). rewrite In_sinsert. split.
      * intros [->|H1]; auto. right. split; auto. discriminate.
      * intros [H1|[H1 H2]]; auto.
Qed.

(* ================================================================================================ *)
(* 5. association lists: membership after ainsert                                                     *)
(* ================================================================================================ *)
Lemma In_ainsert {V} (m : list (sym * V)) k v x : In x (ainsert sym_ltb m k v) -> x = (k, v) \/ In x m.
Proof.
  induction m as [|[k0 v0] t IH]; cbn [ainsert].
  - intros [H|[]]; auto.
  - destruct (sym_ltb k k0).
    + intros [H|H]; auto.
    + destruct (sym_ltb k0 k).
      * intros [H|H]; [right; left; auto|]. destruct (IH H); auto. right; right; auto.
      * intros [H|H]; auto. right; right; auto.
Qed.

Lemma ainsert_In_new {V} (m : list (sym * V)) k v : In (k, v) (ainsert sym_ltb m k v).
Proof.
  induction m as [|[k0 v0] t IH]; cbn [ainsert]; [left; auto|].
  destruct (sym_ltb k k0); [left; auto|].
  destruct (sym_ltb k0 k); [right; auto|left; auto].
Qed.

Lemma ainsert_incl {V} (m : list (sym * V)) k v :
  alookup sym_ltb m k = None -> incl m (ainsert sym_ltb m k v).
Proof.
  induction m as [|[k0 v0] t IH]; cbn [ainsert alookup]; intros HN x Hx; [destruct Hx|].
  destruct (keqb sym_ltb k k0) eqn:EK; [discriminate|].
  destruct (sym_ltb k k0) eqn:E1; [right; auto|].
  destruct (sym_ltb k0 k) eqn:E2.
  - destruct Hx as [Hx|Hx]; [left; auto|right; apply IH; auto].
  - unfold keqb in EK. rewrite E1, E2 in EK. discriminate.
Qed.

Lemma alookup_None_notin {V} (m : list (sym * V)) k :
  (forall v, ~ In (k, v) m) -> alookup sym_ltb m k = None.
Proof.
  intros H. destruct (alookup sym_ltb m k) eqn:E; auto.
  apply alookup_In in E. exfalso. eapply H; eauto.
Qed.

(* ================================================================================================ *)
(* 6. the extended grammar                                                                            *)
(* ================================================================================================ *)
Definition ext_grammar (g : grammar) (S eof : sym) : grammar :=
  let g1 := fst (create_nt g) in
  let g2 := push_alt g1 (Nt (total_nt g)) [S] in
  let g3 := fst (create_nt g2) in
  push_alt g3 (Nt (total_nt g + 1)) [eof].

Lemma elements_unfold ms S eof g :
  elements ms S eof g =
  (do g5 <- calculate_first_sets (ext_grammar g S eof);
   do h <- hull g5 [mkItem (Nt (total_nt g)) 0 0 eof];
   do states <- elements_loop ms g5 [mkSt h []] 0;
   Ok (g5, states)).
Proof. reflexivity. Qed.

Lemma calc_keeps g g' : calculate_first_sets g = Ok g' ->
  right_sides g' = right_sides g /\ total_nt g' = total_nt g.
Proof.
  rewrite calc_unfold. intros H. bind_inv H st Hst. inversion H; subst. auto.
Qed.

Lemma rule_in g0 X a k :
  nth_error (rs_get g0 X) k = Some a -> In (X, rs_get g0 X) (right_sides g0) /\ In a (rs_get g0 X).
Proof.
  intros H. split; [|eapply nth_error_In; eauto].
  unfold rs_get in *. destruct (alookup sym_ltb (right_sides g0) X) eqn:E.
  - apply alookup_In; auto.
  - destruct k; discriminate.
Qed.

Lemma DerivesS_mentioned g0 X l : DerivesS g0 X l -> forall Y, In Y l -> Y = X \/ mentioned g0 Y.
Proof.
  induction 1 as [|pre n k rhs post HD IH Hn]; intros Y HY.
  - destruct HY as [<-|[]]. auto.
  - apply in_app_or in HY. destruct HY as [HY|HY].
    + apply IH. apply in_or_app. auto.
    + apply in_app_or in HY. destruct HY as [HY|HY].
      * right. right. destruct (rule_in _ _ _ _ Hn) as [R1 R2]. eauto 6.
      * apply IH. apply in_or_app. right. right. auto.
Qed.

Lemma fo_spec_cases F str y :
  fo_spec F str y -> y = Eps \/ (is_tm y = true /\ exists s, In s str /\ In y (F s)).
Proof.
  induction str as [|s rest IH]; cbn [fo_spec]; auto.
  intros [[H1 H2]|[H1 H2]].
  - right. split; auto. exists s. split; [left; auto|auto].
  - destruct (IH H2) as [->|(A & s' & B & C)]; auto.
    right. split; auto. exists s'. split; [right; auto|auto].
Qed.

Lemma In_skipn_l {A} n (l : list A) x : In x (skipn n l) -> In x l.
Proof. intros H. rewrite <- (firstn_skipn n l). apply in_or_app. auto. Qed.

Section Ext.
  Variables (g : grammar) (S eof : sym).
  Hypothesis WF : wf_grammar g.
  Hypothesis SOK : start_ok g S eof.
  Hypothesis RC : rhs_closed g.
  Variable g5 : grammar.
  Hypothesis H5 : calculate_first_sets (ext_grammar g S eof) = Ok g5.

  Local Open Scope N_scope.
  Let Sp : sym := Nt (total_nt g).
  Let En : sym := Nt (total_nt g + 1).

  Lemma rs5 X : rs_get g5 X = rs_get (ext_grammar g S eof) X.
  Proof. unfold rs_get. destruct (calc_keeps _ _ H5) as [-> _]. reflexivity. Qed.

  Lemma tn5 : total_nt g5 = total_nt g + 2.
  Proof.
    destruct (calc_keeps _ _ H5) as [_ ->]. unfold ext_grammar, push_alt, create_nt.
    cbn [fst total_nt]. lia.
  Qed.

  Lemma rs_get_fresh n : total_nt g <= n -> rs_get g (Nt n) = [].
  Proof.
    intros Hn. unfold rs_get. destruct (alookup sym_ltb (right_sides g) (Nt n)) eqn:E; auto.
    apply alookup_In in E. destruct SOK as (_ & _ & HK).
    destruct (HK _ _ E) as (m & Hm & Hlt). inversion Hm; subst. lia.
  Qed.

  Lemma rs_ext_other X : X <> Sp -> X <> En -> rs_get (ext_grammar g S eof) X = rs_get g X.
  Proof.
    intros H1 H2. unfold ext_grammar, push_alt, create_nt, rs_get. cbn [fst right_sides total_nt].
    rewrite alookup_ainsert_other by (subst En; congruence).
    rewrite alookup_ainsert_other by (subst Sp; congruence).
    reflexivity.
  Qed.

  Lemma rs_ext_Sp : rs_get (ext_grammar g S eof) Sp = [[S]].
  Proof.
    unfold ext_grammar, push_alt, create_nt, rs_get. cbn [fst right_sides total_nt].
    rewrite alookup_ainsert_other by (intros H; inversion H; lia).
    subst Sp. rewrite alookup_ainsert_same.
    fold (rs_get g (Nt (total_nt g))). rewrite rs_get_fresh by lia. reflexivity.
  Qed.

  Lemma rs_ext_En : rs_get (ext_grammar g S eof) En = [[eof]].
  Proof.
    unfold ext_grammar, push_alt, create_nt, rs_get. cbn [fst right_sides total_nt].
    subst En. rewrite alookup_ainsert_same.
    rewrite alookup_ainsert_other by (intros H; inversion H; lia).
    fold (rs_get g (Nt (total_nt g + 1))). rewrite rs_get_fresh by lia. reflexivity.
  Qed.

  Let g4 : grammar := ext_grammar g S eof.

  Lemma rs4_eq :
    right_sides g4 = ainsert sym_ltb (ainsert sym_ltb (right_sides g) Sp [[S]]) En [[eof]].
  Proof.
    assert (N1 : alookup sym_ltb (right_sides g) (Nt (total_nt g)) = None).
    { apply alookup_None_notin. intros v Hv. destruct SOK as (_ & _ & HK).
      destruct (HK _ _ Hv) as (m & Hm & Hlt). inversion Hm; subst. lia. }
    assert (N2 : alookup sym_ltb (right_sides g) (Nt (total_nt g + 1)) = None).
    { apply alookup_None_notin. intros v Hv. destruct SOK as (_ & _ & HK).
      destruct (HK _ _ Hv) as (m & Hm & Hlt). inversion Hm; subst. lia. }
    subst g4. unfold ext_grammar, push_alt, create_nt, rs_get. cbn [fst right_sides total_nt].
    rewrite alookup_ainsert_other by (intros H; inversion H; lia).
    rewrite N1, N2. reflexivity.
  Qed.

  Lemma wf4 : wf_grammar g4.
  Proof.
    constructor.
    - rewrite rs4_eq. apply (sorted_ainsert (V := list alternative)).
      apply (sorted_ainsert (V := list alternative)). exact (wf_sorted g WF).
    - intros X alts HX. rewrite rs4_eq in HX.
      apply In_ainsert in HX. destruct HX as [HX|HX]; [inversion HX; subst En; eauto|].
      apply In_ainsert in HX. destruct HX as [HX|HX]; [inversion HX; subst Sp; eauto|].
      eapply wf_keys_nt; eauto.
    - intros X alts alt HX Halt. rewrite rs4_eq in HX.
      apply In_ainsert in HX. destruct HX as [HX|HX].
      { inversion HX; subst. destruct Halt as [<-|[]]. intros [H|[]].
        destruct SOK as (_ & (e & He) & _). congruence. }
      apply In_ainsert in HX. destruct HX as [HX|HX].
      { inversion HX; subst. destruct Halt as [<-|[]]. intros [H|[]].
        destruct SOK as ((s & Hs & _) & _). congruence. }
      eapply wf_no_eps; eauto.
    - subst g4. unfold ext_grammar, push_alt, create_nt. cbn [fst first_sets]. exact (wf_fresh g WF).
  Qed.

  Lemma rule_mentioned4 e a X : fetch_right g5 e = Ok a -> In X a -> mentioned g4 X.
  Proof.
    intros HF HX. unfold fetch_right in HF. apply of_opt_Ok in HF. rewrite rs5 in HF.
    destruct (rule_in _ _ _ _ HF) as [R1 R2]. right. eauto 6.
  Qed.

  Lemma eof_mentioned4 : mentioned g4 eof.
  Proof.
    right. exists En, [[eof]], [eof]. split; [|split; left; auto].
    rewrite rs4_eq. apply ainsert_In_new.
  Qed.

  Lemma mentioned4_bound i : mentioned g4 (Tm i) -> i <= max_term g5.
  Proof. intros H. destruct (C13_maxterm_proof g4 g5 wf4 H5) as [A _]. auto. Qed.

  Lemma first_set_bound X i :
    In (Tm i) (fs_get (first_sets g5) X) -> X = Tm i \/ mentioned g4 (Tm i).
  Proof.
    intros H. destruct (C13_first_sound_sentential g4 g5 wf4 H5 X) as (A & _).
    destruct (A i H) as [beta Hb].
    destruct (DerivesS_mentioned _ _ _ Hb (Tm i) (or_introl eq_refl)); auto.
  Qed.

  Definition good (e : item) : Prop :=
    exists n a, i_left e = Nt n /\ (n < total_nt g \/ (n = total_nt g /\ i_follow e = eof)) /\
                fetch_right g5 e = Ok a /\ sym_index (i_follow e) <= max_term g5.

  Lemma fetch_orig e n a :
    i_left e = Nt n -> n < total_nt g -> fetch_right g5 e = Ok a ->
    nth_error (rs_get g (Nt n)) (N.to_nat (i_alt e)) = Some a.
  Proof.
    intros HL Hn HF. unfold fetch_right in HF. apply of_opt_Ok in HF.
    rewrite HL, rs5, rs_ext_other in HF; [exact HF| |]; subst Sp En; intros H; inversion H; lia.
  Qed.

  Lemma fetch_Sp e a : i_left e = Sp -> fetch_right g5 e = Ok a -> a = [S] /\ i_alt e = 0.
  Proof.
    intros HL HF. unfold fetch_right in HF. apply of_opt_Ok in HF.
    rewrite HL, rs5, rs_ext_Sp in HF. unfold nth_N in HF.
    destruct (N.to_nat (i_alt e)) as [|k] eqn:E; cbn [nth_error] in HF.
    - inversion HF. split; auto. lia.
    - destruct k; discriminate.
  Qed.

  Lemma rule_in_g n a k :
    nth_error (rs_get g (Nt n)) k = Some a -> In (Nt n, rs_get g (Nt n)) (right_sides g) /\ In a (rs_get g (Nt n)).
  Proof.
    intros H. split; [|eapply nth_error_In; eauto].
    unfold rs_get in *. destruct (alookup sym_ltb (right_sides g) (Nt n)) eqn:E.
    - apply alookup_In; auto.
    - destruct k; discriminate.
  Qed.

  Lemma good_rhs_nt e a m : good e -> fetch_right g5 e = Ok a -> In (Nt m) a -> m < total_nt g.
  Proof.
    intros (n & a' & HL & Hn & HF') HF Hin.
    destruct Hn as [Hn|[Hn _]].
    - pose proof (fetch_orig e n a HL Hn HF) as HR. apply rule_in_g in HR. destruct HR as [R1 R2].
      eapply RC; eauto.
    - assert (HL' : i_left e = Sp) by (subst Sp; congruence).
      destruct (fetch_Sp e a HL' HF) as [-> _]. destruct Hin as [Hin|[]].
      destruct SOK as ((s & Hs & Hlt) & _). rewrite Hs in Hin. inversion Hin; subst; auto.
  Qed.

  Lemma good_adv e : good e -> good (adv e).
  Proof. intros (n & a & H1 & H2 & H3 & H4). exists n, a. exact (conj H1 (conj H2 (conj H3 H4))). Qed.

  Lemma good_closure e new x :
    good e -> closure_of g5 e = Ok new -> In x new ->
    good x /\ i_dot x = 0 /\ (exists m, i_left x = Nt m /\ m < total_nt g) /\
    exists a, fetch_right g5 e = Ok a /\ expecting a e = i_left x.
  Proof.
    intros Hg HC Hx.
    destruct (closure_of_spec _ _ _ _ HC Hx) as (a & n & HF & HE & HL & HD & HA & HFo).
    assert (Hn : n < total_nt g).
    { eapply good_rhs_nt; eauto. apply expecting_nth in HE; [|discriminate].
      eapply nth_error_In; eauto. }
    assert (HFx : exists ax, fetch_right g5 x = Ok ax).
    { unfold fetch_right, nth_N. rewrite HL.
      destruct (nth_error (rs_get g5 (Nt n)) (N.to_nat (i_alt x))) as [ax|] eqn:E; [eexists; reflexivity|].
      apply nth_error_None in E. lia. }
    destruct HFx as [ax HFx].
    split; [|split; [auto|split]].
    - exists n, ax. split; auto. split; auto. split; auto.
      (* the lookahead is the empty symbol or a terminal of the extended grammar *)
      apply first_In in HFo. apply fo_spec_cases in HFo.
      destruct HFo as [->|(Htm & s & Hs & HFs)]; [apply N.le_0_l|].
      apply is_tm_true in Htm. destruct Htm as [i Hi]. rewrite Hi in *. cbn [sym_index].
      unfold follow_string in Hs. apply in_app_or in Hs. destruct Hs as [Hs|[<-|[]]].
      + apply In_skipn_l in Hs. apply mentioned4_bound.
        destruct (first_set_bound _ _ HFs) as [->|Hm]; auto. apply (rule_mentioned4 e a); auto.
      + destruct (first_set_bound _ _ HFs) as [Hm|Hm]; [|apply mentioned4_bound; auto].
        destruct Hg as (_ & _ & _ & _ & _ & Hb). rewrite Hm in Hb. exact Hb.
    - eauto.
    - exists a. split; auto. congruence.
  Qed.

  Definition IInv (I : list item) : Prop :=
    forall x, In x I -> good x /\
      (i_dot x = 0 -> i_left x = Sp \/
                      exists e a, In e I /\ fetch_right g5 e = Ok a /\ expecting a e = i_left x).

  Definition origin (I : list item) (X : sym) (J : list item) : Prop :=
    forall x, In x J ->
      (i_dot x = 0 /\ i_left x <> Sp) \/
      exists e a, In e I /\ fetch_right g5 e = Ok a /\ expecting a e = X /\ x = adv e.

  Lemma good_init : good (mkItem Sp 0 0 eof).
  Proof.
    exists (total_nt g), [S]. cbn [i_left i_follow]. split; [reflexivity|split; [right; auto|split]].
    - unfold fetch_right. cbn [i_left i_alt]. rewrite rs5, rs_ext_Sp. reflexivity.
    - pose proof SOK as (_ & (e & He) & _). pose proof eof_mentioned4 as Hm. rewrite He in Hm |- *.
      cbn [sym_index]. apply mentioned4_bound; auto.
  Qed.

  Lemma hull0 H : hull g5 [mkItem Sp 0 0 eof] = Ok H -> IInv H /\ forall x, In x H -> i_dot x = 0.
  Proof.
    intros HH.
    assert (HP : forall x, In x H -> good x /\ i_dot x = 0).
    { eapply (hull_inv g5 (fun x => good x /\ i_dot x = 0)); [| |exact HH].
      - intros e new x [Hg _] HC Hx. destruct (good_closure _ _ _ Hg HC Hx) as (A & B & _). auto.
      - intros e [<-|[]]. split; [apply good_init|reflexivity]. }
    split; [|intros x Hx; apply HP; auto].
    intros x Hx. split; [apply HP; auto|]. intros _.
    destruct (hull_spec _ _ _ HH) as (_ & M2 & _).
    destruct (M2 x Hx) as [[<-|[]]|(e & new & A & B & C)]; [left; reflexivity|].
    right. destruct (good_closure e new x (proj1 (HP e A)) B C) as (_ & _ & _ & a & Ha & He).
    exists e, a. auto.
  Qed.

  Lemma jump_good I X J :
    (forall e, In e I -> good e) -> jump g5 I X = Ok J -> IInv J /\ origin I X J.
  Proof.
    intros HI HJ. unfold jump in HJ. bind_inv HJ J0 HJ0.
    assert (H0 : forall x, In x J0 ->
                 exists e a, In e I /\ fetch_right g5 e = Ok a /\ expecting a e = X /\ x = adv e).
    { intros x Hx. destruct (advance_items_spec _ _ _ _ _ HJ0 x Hx) as [[]|H]; auto. }
    assert (HP : forall x, In x J -> good x /\
              ((i_dot x = 0 /\ i_left x <> Sp) \/
               exists e a, In e I /\ fetch_right g5 e = Ok a /\ expecting a e = X /\ x = adv e)).
    { eapply (hull_inv g5 (fun x => good x /\
              ((i_dot x = 0 /\ i_left x <> Sp) \/
               exists e a, In e I /\ fetch_right g5 e = Ok a /\ expecting a e = X /\ x = adv e)));
        [| |exact HJ].
      - intros e new x [Hg _] HC Hx.
        destruct (good_closure _ _ _ Hg HC Hx) as (A & B & (m & Hm & Hlt) & _).
        split; auto. left. split; auto. rewrite Hm. subst Sp. intros E; inversion E; lia.
      - intros x Hx. destruct (H0 x Hx) as (e & a & A & B & C & D). split.
        + subst x. apply good_adv. auto.
        + right. eauto 6. }
    split.
    - intros x Hx. split; [apply HP; auto|]. intros Hd.
      destruct (hull_spec _ _ _ HJ) as (_ & M2 & _).
      destruct (M2 x Hx) as [Hx0|(e & new & A & B & C)].
      + destruct (H0 x Hx0) as (e & a & _ & _ & _ & ->). cbn [adv i_dot] in Hd. lia.
      + right. destruct (good_closure e new x (proj1 (HP e A)) B C) as (_ & _ & _ & a & Ha & He).
        exists e, a. auto.
    - intros x Hx. apply HP; auto.
  Qed.

  (* ---- the automaton ------------------------------------------------------------------------- *)
  Definition trans_ok (states : list lrstate) (si : lrstate) (X : sym) (j : Z) : Prop :=
    X <> Eps /\ (0 <= j)%Z /\
    (exists sj, nth_error states (Z.to_nat j) = Some sj /\ origin (st_items si) X (st_items sj)) /\
    (exists e a, In e (st_items si) /\ fetch_right g5 e = Ok a /\ expecting a e = X).

  Record SInv (states : list lrstate) : Prop := mkSInv {
    si_zero : exists s0, nth_error states 0 = Some s0 /\ forall e, In e (st_items s0) -> i_dot e = 0;
    si_items : forall i si, nth_error states i = Some si -> IInv (st_items si);
    si_trans : forall i si X j, nth_error states i = Some si -> In (X, j) (st_jump si) ->
                                trans_ok states si X j }.

  Definition ext (s1 s2 : list lrstate) : Prop :=
    forall i s, nth_error s1 i = Some s ->
      exists s', nth_error s2 i = Some s' /\ st_items s' = st_items s /\ incl (st_jump s) (st_jump s').

  Lemma ext_refl s : ext s s.
  Proof. intros i x H. exists x. split; auto. split; auto. apply incl_refl. Qed.

  Lemma ext_trans a b c : ext a b -> ext b c -> ext a c.
  Proof.
    intros H1 H2 i x H. destruct (H1 i x H) as (y & A & B & C).
    destruct (H2 i y A) as (z & A' & B' & C'). exists z. split; auto. split; [congruence|].
    eapply incl_tran; eauto.
  Qed.

  Lemma ext_app s l : ext s (s ++ l).
  Proof.
    intros i x H. exists x. split; [|split; [auto|apply incl_refl]].
    rewrite nth_error_app1; auto. apply nth_error_Some. congruence.
  Qed.

  Lemma ext_upd s i c c' :
    nth_error s i = Some c -> st_items c' = st_items c -> incl (st_jump c) (st_jump c') ->
    ext s (upd_nat s i c').
  Proof.
    intros H1 H2 H3 k x Hk. destruct (Nat.eq_dec k i) as [->|Hne].
    - exists c'. rewrite nth_error_upd_nat_same by (apply nth_error_Some; congruence).
      assert (x = c) by congruence. subst x. auto.
    - exists x. rewrite nth_error_upd_nat_other by auto. split; auto. split; auto. apply incl_refl.
  Qed.

  Lemma trans_ok_ext s1 s2 si si' X j :
    ext s1 s2 -> st_items si' = st_items si -> trans_ok s1 si X j -> trans_ok s2 si' X j.
  Proof.
    intros HE HI (A & B & (sj & C1 & C2) & D). split; auto. split; auto. rewrite HI. split; auto.
    destruct (HE _ _ C1) as (sj' & E1 & E2 & _). exists sj'. split; auto. rewrite E2. auto.
  Qed.

  Lemma find_state_spec its : forall states i k, find_state states its i = Some k ->
    (i <= k)%Z /\ exists s, nth_error states (Z.to_nat (k - i)) = Some s /\ st_items s = its.
  Proof.
    induction states as [|s rest IH]; intros i k; cbn [find_state]; [discriminate|].
    destruct (items_eqb (st_items s) its) eqn:E.
    - intros H; inversion H; subst. split; [lia|]. rewrite Z.sub_diag. exists s. split; auto.
      apply items_eqb_eq; auto.
    - intros H. apply IH in H. destruct H as (H1 & s' & H2 & H3). split; [lia|]. exists s'. split; auto.
      replace (Z.to_nat (k - i)) with (Datatypes.S (Z.to_nat (k - (i + 1)))) by lia. auto.
  Qed.

  Lemma add_transition_spec states i t states' :
    add_transition g5 states i t = Ok states' ->
    exists cur r states1 target j',
      nth_error states i = Some cur /\ jump g5 (st_items cur) t = Ok r /\
      (states1 = states \/ states1 = states ++ [mkSt r []]) /\
      (0 <= target)%Z /\ (exists sj, nth_error states1 (Z.to_nat target) = Some sj /\ st_items sj = r) /\
      incl (st_jump cur) j' /\
      (forall X j, In (X, j) j' -> In (X, j) (st_jump cur) \/ (X = t /\ j = target)) /\
      (exists j, In (t, j) j') /\
      states' = upd_nat states1 i (mkSt (st_items cur) j').
  Proof.
    unfold add_transition. intros H. bind_inv H cur Hcur. apply of_opt_Ok in Hcur.
    bind_inv H r Hr.
    assert (HJ : forall target,
      incl (st_jump cur) (match alookup sym_ltb (st_jump cur) t with
                          | Some _ => st_jump cur | None => ainsert sym_ltb (st_jump cur) t target end) /\
      (forall X j, In (X, j) (match alookup sym_ltb (st_jump cur) t with
                          | Some _ => st_jump cur | None => ainsert sym_ltb (st_jump cur) t target end) ->
                   In (X, j) (st_jump cur) \/ (X = t /\ j = target)) /\
      (exists j, In (t, j) (match alookup sym_ltb (st_jump cur) t with
                          | Some _ => st_jump cur | None => ainsert sym_ltb (st_jump cur) t target end))).
    { intros target. destruct (alookup sym_ltb (st_jump cur) t) as [v|] eqn:EA.
      - split; [apply incl_refl|split; [auto|]]. exists v. apply alookup_In; auto.
      - split; [apply ainsert_incl; auto|split].
        + intros X j HX. apply In_ainsert in HX. destruct HX as [HX|HX]; auto. inversion HX; auto.
        + exists target. apply ainsert_In_new. }
    destruct (find_state states r 0%Z) as [k|] eqn:EF.
    - cbv beta iota in H. bind_inv H cur1 Hcur1. apply of_opt_Ok in Hcur1.
      assert (cur1 = cur) by congruence. subst cur1. inversion H; subst states'.
      apply find_state_spec in EF. destruct EF as (Hk & sk & Hsk & Hit).
      rewrite Z.sub_0_r in Hsk. destruct (HJ k) as (J1 & J2 & J3).
      exists cur, r, states, k,
        (match alookup sym_ltb (st_jump cur) t with
         | Some _ => st_jump cur | None => ainsert sym_ltb (st_jump cur) t k end).
      repeat split; eauto.
    - cbv beta iota in H. bind_inv H cur1 Hcur1. apply of_opt_Ok in Hcur1.
      assert (Hlt : (i < length states)%nat) by (apply nth_error_Some; congruence).
      rewrite nth_error_app1 in Hcur1 by auto.
      assert (cur1 = cur) by congruence. subst cur1. inversion H; subst states'.
      destruct (HJ (zlen states)) as (J1 & J2 & J3).
      exists cur, r, (states ++ [mkSt r []]), (zlen states),
        (match alookup sym_ltb (st_jump cur) t with
         | Some _ => st_jump cur | None => ainsert sym_ltb (st_jump cur) t (zlen states) end).
      repeat split; eauto.
      + unfold zlen. lia.
      + exists (mkSt r []). split; auto. unfold zlen. rewrite Nat2Z.id.
        rewrite nth_error_app2 by lia. rewrite Nat.sub_diag. reflexivity.
  Qed.

  Lemma add_transition_inv states i t states' cur :
    SInv states -> nth_error states i = Some cur -> t <> Eps ->
    (exists e a, In e (st_items cur) /\ fetch_right g5 e = Ok a /\ expecting a e = t) ->
    add_transition g5 states i t = Ok states' ->
    SInv states' /\ ext states states' /\
    exists s' j, nth_error states' i = Some s' /\ In (t, j) (st_jump s').
  Proof.
    intros HS Hcur Ht Hexp HA.
    destruct (add_transition_spec _ _ _ _ HA)
      as (cur' & r & states1 & target & j' & C1 & C2 & C3 & C4 & (sj & C5 & C5') & C6 & C7 & (jt & C8) & ->).
    assert (cur' = cur) by congruence. subst cur'.
    set (newi := mkSt (st_items cur) j').
    assert (E1 : ext states states1).
    { destruct C3 as [->| ->]; [apply ext_refl|apply ext_app]. }
    assert (Hcur1 : nth_error states1 i = Some cur).
    { destruct (E1 _ _ Hcur) as (s' & A & _). destruct C3 as [->| ->]; auto.
      rewrite nth_error_app1; auto. apply nth_error_Some. congruence. }
    assert (E2 : ext states1 (upd_nat states1 i newi)).
    { eapply ext_upd; eauto. }
    assert (E : ext states (upd_nat states1 i newi)) by (eapply ext_trans; eauto).
    assert (Hgood : forall e, In e (st_items cur) -> good e).
    { intros e He. apply (si_items _ HS _ _ Hcur e He). }
    destruct (jump_good _ _ _ Hgood C2) as [Hr1 Hr2].
    assert (Hnewi : nth_error (upd_nat states1 i newi) i = Some newi).
    { apply nth_error_upd_nat_same. apply nth_error_Some. congruence. }
    (* every state of the result is an old state (same items) or the new one *)
    assert (Hcase : forall k s', nth_error (upd_nat states1 i newi) k = Some s' ->
               (k = i /\ s' = newi) \/
               (k <> i /\ (nth_error states k = Some s' \/ s' = mkSt r []))).
    { intros k s' Hk. destruct (Nat.eq_dec k i) as [->|Hne].
      - left. split; auto. congruence.
      - right. split; auto. rewrite nth_error_upd_nat_other in Hk by auto.
        destruct C3 as [->| ->]; auto.
        destruct (Nat.lt_ge_cases k (length states)) as [L|L].
        + rewrite nth_error_app1 in Hk by auto. auto.
        + rewrite nth_error_app2 in Hk by auto. right.
          destruct (k - length states)%nat as [|m]; cbn [nth_error] in Hk.
          * inversion Hk; auto.
          * destruct m; discriminate. }
    split; [|split].
    - constructor.
      + destruct (si_zero _ HS) as (s0 & A & B). destruct (E _ _ A) as (s0' & A' & B' & _).
        exists s0'. split; auto. rewrite B'. auto.
      + intros k s' Hk. destruct (Hcase k s' Hk) as [[-> ->]|[Hne [Hold| ->]]].
        * cbn [newi st_items]. eapply si_items; eauto.
        * eapply si_items; eauto.
        * cbn [st_items]. auto.
      + intros k s' X j Hk HX. destruct (Hcase k s' Hk) as [[-> ->]|[Hne [Hold| ->]]].
        * cbn [newi st_jump] in HX. destruct (C7 X j HX) as [HX'|[-> ->]].
          -- apply (trans_ok_ext states _ cur newi X j E eq_refl). eapply si_trans; eauto.
          -- split; auto. split; auto. split; [|cbn [newi st_items]; auto].
             destruct (E2 _ _ C5) as (sj' & F1 & F2 & _). exists sj'. split; auto.
             cbn [newi st_items]. rewrite F2, C5'. auto.
        * apply (trans_ok_ext states _ s' s' X j E eq_refl). eapply si_trans; eauto.
        * cbn [st_jump] in HX. destruct HX.
    - exact E.
    - exists newi, jt. split; auto.
  Qed.

  Lemma add_transitions_inv i I : forall ts states states',
    SInv states -> (exists cur, nth_error states i = Some cur /\ st_items cur = I) ->
    (forall t, In t ts -> t <> Eps /\ exists e a, In e I /\ fetch_right g5 e = Ok a /\ expecting a e = t) ->
    add_transitions g5 states i ts = Ok states' ->
    SInv states' /\ ext states states' /\
    (forall t, In t ts -> exists s' j, nth_error states' i = Some s' /\ In (t, j) (st_jump s')).
  Proof.
    induction ts as [|t rest IH]; intros states states' HS (cur & Hcur & HI) Hts HA;
      cbn [add_transitions] in HA.
    - inversion HA; subst. split; auto. split; [apply ext_refl|]. intros t [].
    - bind_inv HA s1 Hs1.
      destruct (Hts t (or_introl eq_refl)) as [Ht Hexp]. rewrite <- HI in Hexp.
      destruct (add_transition_inv _ _ _ _ _ HS Hcur Ht Hexp Hs1) as (HS1 & E1 & s' & j & N1 & N2).
      destruct (E1 _ _ Hcur) as (cur1 & P1 & P2 & P3).
      destruct (IH s1 states' HS1) as (HS2 & E2 & HT); auto.
      { exists cur1. split; auto. congruence. }
      { intros t' Ht'. apply Hts. right; auto. }
      split; auto. split; [eapply ext_trans; eauto|].
      intros t' [<-|Ht']; auto.
      destruct (E2 _ _ N1) as (s'' & Q1 & Q2 & Q3). exists s'', j. split; auto.
  Qed.

  Definition Done (k : nat) (states : list lrstate) : Prop :=
    forall i si, (i < k)%nat -> nth_error states i = Some si ->
      forall e a, In e (st_items si) -> fetch_right g5 e = Ok a -> expecting a e <> Eps ->
        exists j, In (expecting a e, j) (st_jump si).

  Lemma Done_ext k s1 s2 : ext s1 s2 -> (k <= length s1)%nat -> Done k s1 -> Done k s2.
  Proof.
    intros HE Hk HD i si Hi Hsi e a He Ha Hne.
    destruct (nth_error s1 i) as [si1|] eqn:E1; [|apply nth_error_None in E1; lia].
    destruct (HE _ _ E1) as (s' & A & B & C). assert (s' = si) by congruence. subst s'.
    rewrite B in He. destruct (HD i si1 Hi E1 e a He Ha Hne) as [j Hj]. exists j. auto.
  Qed.

  Lemma elements_loop_inv : forall fuel states i final,
    SInv states -> Done i states -> (i <= length states)%nat ->
    elements_loop fuel g5 states i = Ok final -> SInv final /\ Done (length final) final.
  Proof.
    induction fuel as [|f IH]; intros states i final HS HD Hi HL; cbn [elements_loop] in HL; [discriminate|].
    destruct (nth_error states i) as [cur|] eqn:Ecur.
    - bind_inv HL ts Hts. bind_inv HL states' Hst.
      pose proof (befores_spec _ _ _ _ Hts) as HB.
      destruct (add_transitions_inv i (st_items cur) ts states states' HS) as (HS' & E & HT); auto.
      { exists cur. auto. }
      { intros t Ht. apply HB in Ht. destruct Ht as [[]|(e & a & A & B & C & D)]. split; auto.
        exists e, a. auto. }
      assert (Hlt : (i < length states)%nat) by (apply nth_error_Some; congruence).
      destruct (E _ _ Ecur) as (cur' & P1 & P2 & P3).
      eapply IH; [exact HS'| |  |exact HL].
      + intros k sk Hk Hsk e a He Ha Hne.
        destruct (Nat.eq_dec k i) as [->|Hne'].
        * assert (sk = cur') by congruence. subst sk. rewrite P2 in He.
          destruct (HT (expecting a e)) as (s' & j & Q1 & Q2).
          { apply HB. right. exists e, a. auto. }
          assert (s' = cur') by congruence. subst s'. exists j. auto.
        * eapply (Done_ext i states states'); eauto. lia.
      + assert ((i < length states')%nat) by (apply nth_error_Some; congruence). lia.
    - inversion HL; subst final. split; auto. apply nth_error_None in Ecur.
      intros k sk Hk. apply HD. lia.
  Qed.

  Lemma SInv_init h : hull g5 [mkItem Sp 0 0 eof] = Ok h -> SInv [mkSt h []].
  Proof.
    intros Hh. destruct (hull0 _ Hh) as [A B]. constructor.
    - exists (mkSt h []). split; auto.
    - intros [|i] si Hi; cbn [nth_error] in Hi; [inversion Hi; subst; auto|destruct i; discriminate].
    - intros [|i] si X j Hi HX; cbn [nth_error] in Hi; [inversion Hi; subst; destruct HX|destruct i; discriminate].
  Qed.

  Lemma elements_inv ms h states :
    hull g5 [mkItem Sp 0 0 eof] = Ok h -> elements_loop ms g5 [mkSt h []] 0 = Ok states ->
    SInv states /\ Done (length states) states.
  Proof.
    intros Hh HL. destruct (hull0 _ Hh) as [A B].
    eapply elements_loop_inv; [| | |exact HL].
    - constructor.
      + exists (mkSt h []). split; auto.
      + intros [|i] si Hi; cbn [nth_error] in Hi; [inversion Hi; subst; auto|destruct i; discriminate].
      + intros [|i] si X j Hi HX; cbn [nth_error] in Hi; [inversion Hi; subst; destruct HX|destruct i; discriminate].
    - intros i si Hi. lia.
    - cbn [length]. lia.
  Qed.
End Ext.

(* ================================================================================================ *)
(* 7. the tables: every non-error cell is justified by the automaton                                  *)
(* ================================================================================================ *)
Section Tab.
  Variable g5 : grammar.
  Variable prefix : bool.
  Variable eof : sym.
  Local Open Scope N_scope.

  Definition justified (s : lrstate) (a : Z) (act : lr_action) : Prop :=
    match act with
    | AShift j => exists i, a = Z.of_N i /\ In (Tm i, j) (st_jump s)
    | AReduce l b lhs alt =>
        exists e rhs, In e (st_items s) /\ i_left e = lhs /\ i_alt e = alt /\
          fetch_right g5 e = Ok rhs /\ i_dot e = N.of_nat (length rhs) /\ b = N.of_nat (length rhs) /\
          l = sym_index lhs /\ sym_index lhs <> sprime_index g5
    | AAccept =>
        exists e rhs, In e (st_items s) /\ sym_index (i_left e) = sprime_index g5 /\
          fetch_right g5 e = Ok rhs /\ i_dot e = N.of_nat (length rhs) /\
          (prefix = false -> a = Z.of_N (sym_index (i_follow e)))
    | AErr => True
    end.

  Definition RowJ (s : lrstate) (row : list lr_action) : Prop :=
    forall a act, znth row a = Some act -> justified s a act.

  Lemma RowJ_upd s row t act row' :
    RowJ s row -> zupd row t act = Some row' -> justified s t act -> RowJ s row'.
  Proof.
    intros HR HU HJ a act' Ha. destruct (znth_zupd _ _ _ _ _ _ HU Ha) as [[-> ->]|H]; auto.
  Qed.

  Lemma place_shift_J s st row confs i target r :
    RowJ s row -> In (Tm i, target) (st_jump s) ->
    place_shift st row confs (Z.of_N i) target = Ok r -> RowJ s (fst r).
  Proof.
    unfold place_shift, row_set. intros HR HI H. bind_inv H cur Hc.
    assert (HJ : justified s (Z.of_N i) (AShift target)) by (cbn; eauto).
    destruct cur;
      try (bind_inv H row' Hr; apply of_opt_Ok in Hr; inversion H; subst r; cbn [fst];
           eapply RowJ_upd; eauto).
    inversion H; subst; auto.
  Qed.

  Lemma place_item_J s st acc e t a acc' :
    RowJ s (fst acc) -> In e (st_items s) -> fetch_right g5 e = Ok a -> i_dot e = N.of_nat (length a) ->
    (prefix = false -> t = Z.of_N (sym_index (i_follow e))) ->
    place_item g5 st acc e t (N.of_nat (length a)) = Ok acc' -> RowJ s (fst acc').
  Proof.
    intros HR He Ha Hd Ht H. unfold place_item in H.
    destruct (N.eqb_spec (sym_index (i_left e)) (sprime_index g5)) as [ES|ES].
    - unfold place_accept, row_set in H. bind_inv H cur Hc.
      assert (HJ : justified s t AAccept) by (cbn; exists e, a; auto).
      destruct cur;
        try (bind_inv H row' Hr; apply of_opt_Ok in Hr; inversion H; subst acc'; cbn [fst];
             eapply RowJ_upd; eauto);
        inversion H; subst; auto.
    - unfold place_reduce, row_set in H. bind_inv H cur Hc.
      assert (HJ : justified s t (AReduce (sym_index (i_left e)) (N.of_nat (length a)) (i_left e) (i_alt e))).
      { cbn. exists e, a. repeat split; auto. }
      destruct cur;
        try (bind_inv H row' Hr; apply of_opt_Ok in Hr; inversion H; subst acc'; cbn [fst];
             eapply RowJ_upd; eauto);
        inversion H; subst; auto.
  Qed.

  Lemma place_all_J s st e a : forall ts acc acc',
    prefix = true ->
    RowJ s (fst acc) -> In e (st_items s) -> fetch_right g5 e = Ok a -> i_dot e = N.of_nat (length a) ->
    place_all g5 st acc e (N.of_nat (length a)) ts = Ok acc' -> RowJ s (fst acc').
  Proof.
    induction ts as [|t rest IH]; intros acc acc' HP HR He Ha Hd H; cbn [place_all] in H.
    - inversion H; subst; auto.
    - bind_inv H acc1 H1. eapply IH; [auto| |auto|exact Ha|auto|exact H].
      eapply place_item_J; [exact HR|exact He|exact Ha|auto| |exact H1].
      intros HF. congruence.
  Qed.

  Lemma fill_items_J s st : forall its acc acc',
    incl its (st_items s) -> RowJ s (fst acc) ->
    fill_items g5 prefix eof st acc its = Ok acc' -> RowJ s (fst acc').
  Proof.
    induction its as [|e rest IH]; intros acc acc' HI HR H; cbn [fill_items] in H.
    - inversion H; subst; auto.
    - bind_inv H a Ha.
      assert (He : In e (st_items s)) by (apply HI; left; auto).
      assert (HI' : incl rest (st_items s)) by (intros x Hx; apply HI; right; auto).
      destruct (N.eqb_spec (i_dot e) (N.of_nat (length a))) as [ED|ED]; cbn [negb] in H.
      + bind_inv H acc1 H1. eapply IH; [exact HI'| |exact H].
        destruct ((sym_index (i_follow e) =? sym_index eof) && prefix) eqn:EC.
        * apply andb_true_iff in EC. destruct EC as [_ EP].
          eapply place_all_J; eauto.
        * eapply place_item_J; [exact HR|exact He|exact Ha|auto| |exact H1]. auto.
      + eapply IH; eauto.
  Qed.

  Definition JRowJ (L : list (sym * Z)) (jrow : list Z) : Prop :=
    forall A j, znth jrow A = Some j -> j = (-1)%Z \/ exists i, A = Z.of_N i /\ In (Nt i, j) L.
  Definition JC (L : list (sym * Z)) (jrow : list Z) (i : N) : Prop :=
    exists j', znth jrow (Z.of_N i) = Some j' /\ In (Nt i, j') L.

  Lemma fill_jumps_J s st : forall js row jrow confs row' jrow' confs',
    incl js (st_jump s) -> RowJ s row -> JRowJ (st_jump s) jrow ->
    fill_jumps st row jrow confs js = Ok (row', jrow', confs') ->
    RowJ s row' /\ JRowJ (st_jump s) jrow' /\ length jrow' = length jrow /\
    (forall i, JC (st_jump s) jrow i -> JC (st_jump s) jrow' i) /\
    (forall i j, In (Nt i, j) js -> JC (st_jump s) jrow' i).
  Proof.
    induction js as [|[X target] rest IH]; intros row jrow confs row' jrow' confs' HI HR HJ H;
      cbn [fill_jumps] in H.
    - inversion H; subst. repeat split; auto. intros i j [].
    - assert (HX : In (X, target) (st_jump s)) by (apply HI; left; auto).
      assert (HI' : incl rest (st_jump s)) by (intros x Hx; apply HI; right; auto).
      destruct X as [|i|i].
      + destruct (IH _ _ _ _ _ _ HI' HR HJ H) as (A & B & C & D & E). repeat split; auto.
        intros i j [Hij|Hij]; [inversion Hij|eauto].
      + bind_inv H r Hr.
        pose proof (place_shift_J _ _ _ _ _ _ _ HR HX Hr) as HR1.
        destruct (IH _ _ _ _ _ _ HI' HR1 HJ H) as (A & B & C & D & E). repeat split; auto.
        intros i' j [Hij|Hij]; [inversion Hij|eauto].
      + bind_inv H jrow1 Hj1. apply of_opt_Ok in Hj1.
        assert (HJ1 : JRowJ (st_jump s) jrow1).
        { intros A j HA. destruct (znth_zupd _ _ _ _ _ _ Hj1 HA) as [[-> ->]|HA']; eauto. }
        destruct (IH _ _ _ _ _ _ HI' HR HJ1 H) as (A & B & C & D & E).
        assert (Hkeep : forall i', JC (st_jump s) jrow i' -> JC (st_jump s) jrow1 i').
        { intros i' (j' & P & Q). destruct (N.eq_dec i' i) as [->|Hne].
          - exists target. split; auto. eapply znth_zupd_same; eauto.
          - exists j'. split; auto. rewrite (znth_zupd_other _ _ _ _ _ Hj1); auto. lia. }
        repeat split; auto.
        * rewrite C. eapply zupd_length; eauto.
        * intros i' j [Hij|Hij]; [|eauto]. inversion Hij; subst i' j. apply D.
          exists target. split; auto. eapply znth_zupd_same; eauto.
  Qed.

  Definition RowOK (s : lrstate) (row : list lr_action) (jrow : list Z) : Prop :=
    RowJ s row /\ JRowJ (st_jump s) jrow /\ length jrow = N.to_nat (total_nt g5) /\
    (forall i j, In (Nt i, j) (st_jump s) -> JC (st_jump s) jrow i).

  Fixpoint tabs_ok (states : list lrstate) (rows : list (list lr_action)) (jrows : list (list Z)) : Prop :=
    match states, rows, jrows with
    | [], [], [] => True
    | s :: ss, r :: rs, j :: js => RowOK s r j /\ tabs_ok ss rs js
    | _, _, _ => False
    end.

  Lemma fill_states_J : forall states st confs rows jrows confs',
    fill_states g5 prefix eof st states confs = Ok (rows, jrows, confs') -> tabs_ok states rows jrows.
  Proof.
    induction states as [|s rest IH]; intros st confs rows jrows confs' H; cbn [fill_states] in H.
    - inversion H; subst. exact I.
    - bind_inv H r1 H1. destruct r1 as [[row1 jrow1] confs1].
      bind_inv H r2 H2. bind_inv H r3 H3. destruct r3 as [[rows3 jrows3] confs3].
      inversion H; subst. cbn [tabs_ok]. split; [|eapply IH; eauto].
      assert (R0 : RowJ s (zrepeat AErr (width g5))).
      { intros a act Ha. apply znth_zrepeat in Ha. subst act. exact I. }
      assert (J0 : JRowJ (st_jump s) (zrepeat (-1)%Z (N.to_nat (total_nt g5)))).
      { intros a j Ha. apply znth_zrepeat in Ha. auto. }
      destruct (fill_jumps_J s st (st_jump s) _ _ _ _ _ _ (incl_refl _) R0 J0 H1) as (A & B & C & D & E).
      split; [|split; [auto|split; [|auto]]].
      * eapply (fill_items_J s st (st_items s) (row1, confs1)); [apply incl_refl|exact A|exact H2].
      * rewrite C. apply zrepeat_length.
  Qed.

  Lemma tabs_ok_states : forall states rows jrows k s,
    tabs_ok states rows jrows -> nth_error states k = Some s ->
    exists row jrow, nth_error rows k = Some row /\ nth_error jrows k = Some jrow /\ RowOK s row jrow.
  Proof.
    induction states as [|s0 ss IH]; intros [|r rs] [|j js] k s HT Hk; cbn [tabs_ok] in HT; try contradiction.
    - destruct k; discriminate.
    - destruct HT as [H0 HT]. destruct k; cbn [nth_error] in *.
      + inversion Hk; subst. eauto.
      + eapply IH; eauto.
  Qed.

  Lemma tabs_ok_rows : forall states rows jrows k row,
    tabs_ok states rows jrows -> nth_error rows k = Some row ->
    exists s jrow, nth_error states k = Some s /\ nth_error jrows k = Some jrow /\ RowOK s row jrow.
  Proof.
    induction states as [|s0 ss IH]; intros [|r rs] [|j js] k row HT Hk; cbn [tabs_ok] in HT; try contradiction.
    - destruct k; discriminate.
    - destruct HT as [H0 HT]. destruct k; cbn [nth_error] in *.
      + inversion Hk; subst. eauto.
      + eapply IH; eauto.
  Qed.

  Lemma tabs_ok_jrows : forall states rows jrows k jrow,
    tabs_ok states rows jrows -> nth_error jrows k = Some jrow ->
    exists s row, nth_error states k = Some s /\ nth_error rows k = Some row /\ RowOK s row jrow.
  Proof.
    induction states as [|s0 ss IH]; intros [|r rs] [|j js] k jrow HT Hk; cbn [tabs_ok] in HT; try contradiction.
    - destruct k; discriminate.
    - destruct HT as [H0 HT]. destruct k; cbn [nth_error] in *.
      + inversion Hk; subst. eauto.
      + eapply IH; eauto.
  Qed.
End Tab.

(* ================================================================================================ *)
(* 8. totality: no step of table generation leaves the vectors                                        *)
(* ================================================================================================ *)
Definition fetchable (g : grammar) (e : item) : Prop := exists a, fetch_right g e = Ok a.

Lemma closure_of_total g e : fetchable g e -> exists new, closure_of g e = Ok new.
Proof. intros [a Ha]. unfold closure_of. rewrite Ha. cbn [bind]. destruct (expecting a e); eauto. Qed.

Lemma closure_of_fetchable g e new x : closure_of g e = Ok new -> In x new -> fetchable g x.
Proof.
  intros HC Hx. destruct (closure_of_spec _ _ _ _ HC Hx) as (a & n & _ & _ & HL & _ & HA & _).
  unfold fetchable, fetch_right, nth_N. rewrite HL.
  destruct (nth_error (rs_get g (Nt n)) (N.to_nat (i_alt x))) as [ax|] eqn:E; [eexists; reflexivity|].
  apply nth_error_None in E. lia.
Qed.

Lemma closure_round_total g : forall todo acc,
  (forall e, In e todo -> fetchable g e) -> exists r, closure_round g todo acc = Ok r.
Proof.
  induction todo as [|e rest IH]; intros acc H; cbn [closure_round]; [eauto|].
  destruct (closure_of_total g e) as [new Hn]; [apply H; left; auto|]. rewrite Hn. cbn [bind].
  apply IH. intros e' He'. apply H; right; auto.
Qed.

Lemma hull_fuel_total g : forall fuel I, (forall e, In e I -> fetchable g e) ->
  hull_fuel fuel g I = Fuel \/ exists H, hull_fuel fuel g I = Ok H.
Proof.
  induction fuel as [|f IH]; intros I HI; cbn [hull_fuel]; [left; reflexivity|].
  destruct (closure_round_total g I I HI) as [I' HI']. rewrite HI'. cbn [bind].
  destruct (Nat.eqb (length I') (length I)); [right; eauto|].
  apply IH. intros x Hx. destruct (closure_round_spec _ _ _ _ HI') as (_ & M2 & _).
  destruct (M2 x Hx) as [Hx'|(e & new & A & B & C)]; auto. eapply closure_of_fetchable; eauto.
Qed.

Lemma advance_items_total g X : forall I acc,
  (forall e, In e I -> fetchable g e) -> exists J, advance_items g I X acc = Ok J.
Proof.
  induction I as [|e rest IH]; intros acc H; cbn [advance_items]; [eauto|].
  destruct (H e (or_introl eq_refl)) as [a Ha]. rewrite Ha. cbn [bind].
  destruct (sym_eqb (expecting a e) X); apply IH; intros e' He'; apply H; right; auto.
Qed.

Lemma jump_total g I X :
  (forall e, In e I -> fetchable g e) -> jump g I X = Fuel \/ exists J, jump g I X = Ok J.
Proof.
  intros HI. unfold jump. destruct (advance_items_total g X I [] HI) as [J0 HJ0]. rewrite HJ0. cbn [bind].
  unfold hull. apply hull_fuel_total. intros x Hx.
  destruct (advance_items_spec _ _ _ _ _ HJ0 x Hx) as [[]|(e & a & A & B & C & ->)].
  exists a. rewrite fetch_right_adv. auto.
Qed.

Lemma befores_total g : forall I acc,
  (forall e, In e I -> fetchable g e) -> exists ts, befores g I acc = Ok ts.
Proof.
  induction I as [|e rest IH]; intros acc H; cbn [befores]; [eauto|].
  destruct (H e (or_introl eq_refl)) as [a Ha]. rewrite Ha. cbn [bind].
  destruct (expecting a e); apply IH; intros e' He'; apply H; right; auto.
Qed.

Lemma znth_range {A} (l : list A) i : (0 <= i < Z.of_nat (length l))%Z -> exists x, znth l i = Some x.
Proof.
  intros H. destruct (nth_error l (Z.to_nat i)) as [x|] eqn:E.
  - exists x. apply znth_of_nth; auto. lia.
  - apply nth_error_None in E. lia.
Qed.

Section TabTotal.
  Variable g5 : grammar.
  Variable prefix : bool.
  Variable eof : sym.
  Local Open Scope N_scope.

  Definition in_row (row : list lr_action) (t : Z) : Prop := (0 <= t < Z.of_nat (length row))%Z.

  Lemma row_get_ok row t : in_row row t -> exists c, row_get row t = Ok c.
  Proof. intros H. unfold row_get. destruct (znth_range row t H) as [c ->]. cbn [of_opt]. eauto. Qed.

  Lemma row_set_ok row t a : in_row row t -> exists row', row_set row t a = Ok row' /\ length row' = length row.
  Proof.
    intros H. unfold row_set. rewrite zupd_ok by exact H. cbn [of_opt]. eexists. split; [reflexivity|].
    apply length_upd_nat.
  Qed.

  Lemma place_shift_total st row confs t target :
    in_row row t -> exists r, place_shift st row confs t target = Ok r /\ length (fst r) = length row.
  Proof.
    intros H. unfold place_shift. destruct (row_get_ok row t H) as [c Hc]. rewrite Hc. cbn [bind].
    destruct (row_set_ok row t (AShift target) H) as (row' & Hr & HL).
    destruct c; try (rewrite Hr; cbn [bind]); eexists; (split; [reflexivity|]); auto.
  Qed.

  Lemma place_item_total st acc e t size :
    in_row (fst acc) t ->
    exists acc', place_item g5 st acc e t size = Ok acc' /\ length (fst acc') = length (fst acc).
  Proof.
    intros H. unfold place_item. destruct (row_get_ok _ t H) as [c Hc].
    destruct (sym_index (i_left e) =? sprime_index g5).
    - unfold place_accept. rewrite Hc. cbn [bind].
      destruct (row_set_ok (fst acc) t AAccept H) as (row' & Hr & HL).
      destruct c; try (rewrite Hr; cbn [bind]); eexists; (split; [reflexivity|]); auto.
    - unfold place_reduce. rewrite Hc. cbn [bind].
      destruct (row_set_ok (fst acc) t (AReduce (sym_index (i_left e)) size (i_left e) (i_alt e)) H)
        as (row' & Hr & HL).
      destruct c; try (rewrite Hr; cbn [bind]); eexists; (split; [reflexivity|]); auto.
  Qed.

  Lemma place_all_total st e size : forall ts acc,
    (forall t, In t ts -> in_row (fst acc) t) ->
    exists acc', place_all g5 st acc e size ts = Ok acc' /\ length (fst acc') = length (fst acc).
  Proof.
    induction ts as [|t rest IH]; intros acc H; cbn [place_all]; [eauto|].
    destruct (place_item_total st acc e t size) as (acc1 & E1 & L1); [apply H; left; auto|].
    rewrite E1. cbn [bind].
    destruct (IH acc1) as (acc' & E' & L').
    { intros t' Ht'. unfold in_row. rewrite L1. apply H. right; auto. }
    exists acc'. split; auto. congruence.
  Qed.

  Lemma fill_items_total st : forall its acc,
    length (fst acc) = width g5 ->
    (forall e, In e its -> fetchable g5 e /\ sym_index (i_follow e) <= max_term g5) ->
    exists acc', fill_items g5 prefix eof st acc its = Ok acc' /\ length (fst acc') = width g5.
  Proof.
    induction its as [|e rest IH]; intros acc HL H; cbn [fill_items]; [eauto|].
    destruct (H e (or_introl eq_refl)) as [[a Ha] Hf]. rewrite Ha. cbn [bind].
    assert (H' : forall e', In e' rest -> fetchable g5 e' /\ sym_index (i_follow e') <= max_term g5).
    { intros e' He'. apply H. right; auto. }
    destruct (negb (i_dot e =? N.of_nat (length a))); [apply IH; auto|].
    destruct ((sym_index (i_follow e) =? sym_index eof) && prefix).
    - destruct (place_all_total st e (N.of_nat (length a)) (map (fun n => Z.of_N n) (count_up (width g5) 0)) acc)
        as (acc1 & E1 & L1).
      { intros t Ht. apply in_map_iff in Ht. destruct Ht as (n & <- & Hn). apply In_count_up in Hn.
        unfold in_row. rewrite HL. lia. }
      rewrite E1. cbn [bind]. apply IH; auto. congruence.
    - destruct (place_item_total st acc e (Z.of_N (sym_index (i_follow e))) (N.of_nat (length a)))
        as (acc1 & E1 & L1).
      { unfold in_row. rewrite HL. unfold width. lia. }
      rewrite E1. cbn [bind]. apply IH; auto. congruence.
  Qed.

  Definition key_ok (jlen : nat) (X : sym) : Prop :=
    match X with Tm i => i <= max_term g5 | Nt i => (N.to_nat i < jlen)%nat | Eps => True end.

  Lemma fill_jumps_total st : forall js row jrow confs,
    length row = width g5 ->
    (forall X j, In (X, j) js -> key_ok (length jrow) X) ->
    exists row' jrow' confs', fill_jumps st row jrow confs js = Ok (row', jrow', confs') /\
      length row' = width g5 /\ length jrow' = length jrow.
  Proof.
    induction js as [|[X target] rest IH]; intros row jrow confs HL H; cbn [fill_jumps]; [eauto 6|].
    pose proof (H X target (or_introl eq_refl)) as HX.
    assert (H' : forall X' j, In (X', j) rest -> key_ok (length jrow) X').
    { intros X' j HI. eapply H. right; eauto. }
    destruct X as [|i|i]; cbn [key_ok] in HX.
    - apply IH; auto.
    - destruct (place_shift_total st row confs (Z.of_N i) target) as (r & Er & Lr).
      { unfold in_row. rewrite HL. unfold width. lia. }
      rewrite Er. cbn [bind]. apply IH; auto. congruence.
    - rewrite zupd_ok by lia. cbn [of_opt bind].
      destruct (IH row (upd_nat jrow (Z.to_nat (Z.of_N i)) target) confs HL) as (row' & jrow' & confs' & E & L1 & L2).
      { rewrite length_upd_nat. auto. }
      exists row', jrow', confs'. split; auto. split; auto. rewrite L2. apply length_upd_nat.
  Qed.

  Lemma fill_states_total : forall states st confs,
    (forall s, In s states ->
       (forall X j, In (X, j) (st_jump s) -> key_ok (N.to_nat (total_nt g5)) X) /\
       (forall e, In e (st_items s) -> fetchable g5 e /\ sym_index (i_follow e) <= max_term g5)) ->
    exists r, fill_states g5 prefix eof st states confs = Ok r.
  Proof.
    induction states as [|s rest IH]; intros st confs H; cbn [fill_states]; [eauto|].
    destruct (H s (or_introl eq_refl)) as [HK HI].
    destruct (fill_jumps_total st (st_jump s) (zrepeat AErr (width g5))
                (zrepeat (-1)%Z (N.to_nat (total_nt g5))) confs) as (row1 & jrow1 & confs1 & E1 & L1 & L2).
    { apply zrepeat_length. }
    { rewrite zrepeat_length. exact HK. }
    rewrite E1. cbn [bind]. cbv beta iota.
    destruct (fill_items_total st (st_items s) (row1, confs1)) as (acc2 & E2 & L3); auto.
    rewrite E2. cbn [bind].
    destruct (IH (st + 1)%Z (snd acc2)) as [r3 E3].
    { intros s' Hs'. apply H. right; auto. }
    rewrite E3. cbn [bind]. destruct r3 as [[rows jrows] confs3]. eauto.
  Qed.
End TabTotal.

Section Total.
  Variables (g : grammar) (S eof : sym).
  Hypothesis WF : wf_grammar g.
  Hypothesis SOK : start_ok g S eof.
  Hypothesis RC : rhs_closed g.
  Variable g5 : grammar.
  Hypothesis H5 : calculate_first_sets (ext_grammar g S eof) = Ok g5.
  Local Open Scope N_scope.

  Lemma good_fetchable e : good g eof g5 e -> fetchable g5 e.
  Proof. intros (n & a & _ & _ & H & _). exists a; auto. Qed.

  Lemma state_fetchable states i s :
    SInv g eof g5 states -> nth_error states i = Some s -> forall e, In e (st_items s) -> fetchable g5 e.
  Proof. intros HS Hs e He. apply good_fetchable. apply (si_items _ _ _ _ HS _ _ Hs e He). Qed.

  Lemma add_transition_total states i t cur :
    SInv g eof g5 states -> nth_error states i = Some cur ->
    add_transition g5 states i t = Fuel \/ exists s', add_transition g5 states i t = Ok s'.
  Proof.
    intros HS Hcur. unfold add_transition. rewrite Hcur. cbn [of_opt bind].
    destruct (jump_total g5 (st_items cur) t) as [HJ|[r HJ]];
      [eapply state_fetchable; eauto| |]; rewrite HJ; cbn [bind]; [left; reflexivity|].
    destruct (find_state states r 0%Z) as [k|]; cbv beta iota.
    - rewrite Hcur. cbn [of_opt bind]. right; eauto.
    - rewrite nth_error_app1 by (apply nth_error_Some; congruence).
      rewrite Hcur. cbn [of_opt bind]. right; eauto.
  Qed.

  Lemma add_transitions_total i I : forall ts states,
    SInv g eof g5 states -> (exists cur, nth_error states i = Some cur /\ st_items cur = I) ->
    (forall t, In t ts -> t <> Eps /\ exists e a, In e I /\ fetch_right g5 e = Ok a /\ expecting a e = t) ->
    add_transitions g5 states i ts = Fuel \/ exists s', add_transitions g5 states i ts = Ok s'.
  Proof.
    induction ts as [|t rest IH]; intros states HS (cur & Hcur & HI) Hts; cbn [add_transitions]; [right; eauto|].
    destruct (add_transition_total states i t cur HS Hcur) as [HA|[s1 HA]]; rewrite HA; cbn [bind];
      [left; reflexivity|].
    destruct (Hts t (or_introl eq_refl)) as [Ht Hexp]. rewrite <- HI in Hexp.
    destruct (add_transition_inv g S eof WF SOK RC g5 H5 states i t s1 cur HS Hcur Ht Hexp HA) as (HS1 & E1 & _).
    destruct (E1 _ _ Hcur) as (cur1 & P1 & P2 & _).
    apply IH; auto.
    - exists cur1. split; auto. congruence.
    - intros t' Ht'. apply Hts. right; auto.
  Qed.

  Lemma elements_loop_total : forall fuel states i,
    SInv g eof g5 states ->
    elements_loop fuel g5 states i = Fuel \/ exists r, elements_loop fuel g5 states i = Ok r.
  Proof.
    induction fuel as [|f IH]; intros states i HS; cbn [elements_loop]; [left; reflexivity|].
    destruct (nth_error states i) as [cur|] eqn:Ecur; [|right; eauto].
    destruct (befores_total g5 (st_items cur) []) as [ts Hts]; [eapply state_fetchable; eauto|].
    rewrite Hts. cbn [bind].
    pose proof (befores_spec _ _ _ _ Hts) as HB.
    assert (Hcond : forall t, In t ts -> t <> Eps /\
              exists e a, In e (st_items cur) /\ fetch_right g5 e = Ok a /\ expecting a e = t).
    { intros t Ht. apply HB in Ht. destruct Ht as [[]|(e & a & A & B & C & D)]. split; auto.
      exists e, a. auto. }
    assert (Hc : exists c, nth_error states i = Some c /\ st_items c = st_items cur) by (exists cur; auto).
    destruct (add_transitions_total i (st_items cur) ts states HS Hc Hcond) as [HA|[s' HA]];
      rewrite HA; cbn [bind]; [left; reflexivity|].
    apply IH.
    destruct (add_transitions_inv g S eof WF SOK RC g5 H5 i (st_items cur) ts states s' HS Hc Hcond HA)
      as (HS' & _). exact HS'.
  Qed.

  (* what fill_states needs to know about the automaton *)
  Lemma SInv_fill_cond states :
    SInv g eof g5 states ->
    forall s, In s states ->
      (forall X j, In (X, j) (st_jump s) -> key_ok g5 (N.to_nat (total_nt g5)) X) /\
      (forall e, In e (st_items s) -> fetchable g5 e /\ sym_index (i_follow e) <= max_term g5).
  Proof.
    intros HS s Hs. apply In_nth_error in Hs. destruct Hs as [k Hk]. split.
    - intros X j HX.
      destruct (si_trans _ _ _ _ HS _ _ _ _ Hk HX) as (HXe & _ & _ & (e & a & He & Ha & Hexp)).
      apply expecting_nth in Hexp; auto. apply nth_error_In in Hexp.
      pose proof (proj1 (si_items _ _ _ _ HS _ _ Hk e He)) as Hg.
      destruct X as [|i|i]; cbn [key_ok]; auto.
      + apply (mentioned4_bound g S eof WF SOK g5 H5). eapply rule_mentioned4; eauto.
      + pose proof (good_rhs_nt g S eof SOK RC g5 H5 e a i Hg Ha Hexp) as Hlt.
        rewrite (tn5 _ _ _ _ H5). lia.
    - intros e He. pose proof (proj1 (si_items _ _ _ _ HS _ _ Hk e He)) as Hg. split.
      + apply good_fetchable; auto.
      + destruct Hg as (_ & _ & _ & _ & _ & Hb). exact Hb.
  Qed.
End Total.
