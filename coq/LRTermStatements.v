(* LRTermStatements.v — termination of the generated LR drivers (C02: "after work bounded by the input size"; C13).
   The C++ driver is a loop without a budget; the model runs it on fuel and the totality theorems so far say "Fuel or
   Ok".  For grammars without empty right-hand sides (except for the start symbol) and without cycles of unit rules —
   the detector grammar of macro.cpp is one — the driver terminates on EVERY input, with or without conflicts, within a
   budget linear in the input; the budget the model gives detection (40 * |input| + 100) always suffices. *)
From Coq Require Import Sorting.Sorted.
From Theo Require Import Base Tokens Errors MacroExtract Grammar LR Gen_MacroGrammar Gen_Consts MacroApply SpecMacro SpecLR LRStatements Proofs_First Proofs_LRSound0
                         CompileStatements ApplyStatements MacroStatements.
Local Open Scope N_scope.

(* no empty right-hand side, except possibly for the start symbol S (which must then not occur in a right-hand side) *)
Definition eps_free (g : grammar) (S : sym) : Prop :=
  (forall X alts rhs, In (X, alts) (right_sides g) -> In rhs alts -> rhs = [] -> X = S) /\
  (forall X alts rhs, In (X, alts) (right_sides g) -> In rhs alts -> ~ In S rhs).

(* a ranking of the non-terminals that strictly decreases along unit rules A -> B *)
Definition unit_acyclic (g : grammar) : Prop :=
  exists rank : N -> nat,
    forall a alts b, In (Nt a, alts) (right_sides g) -> In [Nt b] alts -> (rank b < rank a)%nat.

(* the driver terminates: some budget yields an answer (by C13_driver_safe it is never undefined) *)
Definition C13_parse_terminates_stmt : Prop :=
  forall (T V : Type) (translator : T -> N) (creator : T -> V) (semantic : sym -> N -> list V -> V)
         max_states g prefix S eof g' tab confs states input,
    wf_grammar g -> start_ok g S eof -> rhs_closed g -> eof_fresh g eof ->
    eps_free g S -> unit_acyclic g ->
    generate_tables max_states g prefix S eof = Ok (g', tab, confs, states) ->
    exists fuel, forall k, parse translator creator semantic tab (fuel + k) input <> Fuel.

(* detection never runs out of the model's budget: the C++ loop it stands for terminates *)
Definition C09_detect_no_fuel_stmt : Prop :=
  forall m d input, macro_ok m -> make_detector m = Ok d -> detect d input <> Fuel.

(* hence macro application can be out of budget only in table generation (the model's bound on the number of LR
   states, max_states = 20000, which no pattern of fewer than a few thousand tokens reaches) *)
Definition C02_apply_fuel_only_tables_stmt : Prop :=
  forall input defs passes, eof_terminated input -> Forall macro_ok defs ->
    apply_macros input defs passes = Fuel -> make_detectors defs = Fuel.
