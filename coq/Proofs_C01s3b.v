(* Proofs_C01s3b.v — C01, stage 3, part 2: the STATIC part, components of the joint invariant.
   As Proofs_C01s2b.v §7, with (a) the block lengths and imatch3 of stage 3, (b) jumps to source labels: the label
   table of the generator (f_marks, g_labels) against the label table of the flattener (b_labels), (c) the agreement
   "the last VM instruction is a potential break iff the last reference instruction is a site", which makes
   get_mark_pos and mark_pos name the same place.  Register tables, RW, JV, RMof are those of stage 2. *)
From Coq Require Import List ZArith NArith Lia Bool.
From Theo Require Import Base Tokens Errors MacroExtract Parser VMModel VMSpec GenModel Compile RefSem RefSemChk C01Statements C01Stages Gen_Consts Proofs_VM_mem Proofs_VM_dbg Proofs_Gen0 Proofs_Gen Proofs_Sem Proofs_C01a Proofs_C01b Proofs_C01 Proofs_C01s2a Proofs_C01s2b Proofs_C01s3a.
Import ListNotations.
Local Open Scope Z_scope.

(* ================================================================================================ *)
(* 1. label tables                                                                                  *)
(* ================================================================================================ *)
Definition mle (m m' : list (str * Z)) : Prop :=
  forall l f, alookup str_ltb m l = Some f -> alookup str_ltb m' l = Some f.

Lemma mle_refl m : mle m m.
Proof. intros l f H; exact H. Qed.
Lemma mle_trans a b c : mle a b -> mle b c -> mle a c.
Proof. intros H1 H2 l f H. apply H2, H1, H. Qed.

Lemma mle_insert m nm v : alookup str_ltb m nm = None -> mle m (ainsert str_ltb m nm v).
Proof.
  intros Hn l f H. rewrite str_lookup_insert. destruct (keqb str_ltb l nm) eqn:E; [|exact H].
  apply str_keqb_eq in E. subst l. congruence.
Qed.

Lemma label_pos_put_same l k v : label_pos (put l k v) k = v.
Proof.
  induction l as [|[k0 w] t IH]; cbn [put label_pos].
  - rewrite str_eqb_refl. reflexivity.
  - destruct (str_eqb k0 k) eqn:E; cbn [label_pos]; rewrite E; auto.
Qed.

Lemma label_pos_put_other l k v k' : k' <> k -> label_pos (put l k v) k' = label_pos l k'.
Proof.
  intros H. induction l as [|[k0 w] t IH]; cbn [put label_pos].
  - rewrite str_eqb_neq by congruence. reflexivity.
  - destruct (str_eqb k0 k) eqn:E; cbn [label_pos].
    + apply str_eqb_eq in E. subst k0. rewrite str_eqb_neq by congruence. reflexivity.
    + destruct (str_eqb k0 k'); auto.
Qed.

Lemma label_pos_touch b l k : label_pos (b_labels (touch_label b l)) k = label_pos (b_labels b) k.
Proof.
  unfold touch_label. destruct (existsb _ _); [reflexivity|]. cbn [b_labels].
  induction (b_labels b) as [|[k0 w] t IH]; cbn [app label_pos].
  - destruct (str_eqb l k); reflexivity.
  - destruct (str_eqb k0 k); auto.
Qed.

(* ================================================================================================ *)
(* 2. the last instruction                                                                          *)
(* ================================================================================================ *)
Definition code_last_pb (code : list instr) : bool :=
  match rev code with i :: _ => opcode_eqb (iop i) POTENTIAL_BREAK | [] => false end.
Definition rlast_site (rc : list rinstr) : bool :=
  match rev rc with RSite _ :: _ => true | _ => false end.

Lemma code_last_pb_znth code ins : znth code (zlen code - 1) = Some ins ->
  code_last_pb code = opcode_eqb (iop ins) POTENTIAL_BREAK.
Proof.
  intros H. unfold code_last_pb. destruct (rev code) as [|x r] eqn:E.
  - apply (f_equal (@rev instr)) in E. rewrite rev_involutive in E. cbn [rev] in E. subst code. rewrite znth_nil in H. discriminate.
  - apply rev_cons_inv in E. subst code. rewrite zlen_snoc in H. replace (zlen (rev r) + 1 - 1) with (zlen (rev r)) in H by lia.
    rewrite znth_app_last in H. inversion H; subst. reflexivity.
Qed.

Lemma rlast_site_snoc rc i : rlast_site (rc ++ [i]) = is_site i.
Proof. unfold rlast_site. rewrite rev_app_distr. cbn [rev app]. destruct i; reflexivity. Qed.

Lemma code_last_pb_snoc code ins : code_last_pb (code ++ [ins]) = opcode_eqb (iop ins) POTENTIAL_BREAK.
Proof. unfold code_last_pb. rewrite rev_app_distr. reflexivity. Qed.

(* ================================================================================================ *)
(* 3. components                                                                                    *)
(* ================================================================================================ *)
Definition jpre3 (lmap : list Z) (marks : list (str * Z)) (todo : list Z) : jrel3 :=
  fun q f tg => In q todo /\
    match tg with
    | JId e => znth lmap e = Some f
    | JLab l => alookup str_ltb marks l = Some f
    end.

Section Static3.
  Variable P0 : Z.

  Definition JC3 (code : list instr) (ks : list (str * bool)) (marks : list (str * Z)) (todo lmap : list Z)
             (rcode : list rinstr) (p : Z) : Prop :=
    zlen code = P0 + boff3 rcode (length rcode) + p /\
    (forall pc i, znth rcode pc = Some i -> imatch3 (RMof ks) code (jpre3 lmap marks todo) (pm_of3 P0 rcode pc) i) /\
    (p = 0 -> code_last_pb code = rlast_site rcode).

  Lemma JC3_mono code ks marks todo lmap rcode p code' ks' marks' todo' lmap' p' :
    JC3 code ks marks todo lmap rcode p -> 0 <= p ->
    (exists blk, code' = code ++ blk) -> kext ks ks' -> mle marks marks' -> incl todo todo' -> (exists m, lmap' = lmap ++ m) ->
    zlen code' = P0 + boff3 rcode (length rcode) + p' ->
    JC3 code' ks' marks' todo' lmap' rcode p'.
  Proof.
    intros (HL0 & HM & HS) Hp [blk ->] Hk Hmk Ht [m ->] Hl. split; [exact Hl|]. split.
    - intros pc i Hi. eapply imatch3_mono; [apply RMof_mono; exact Hk | | | apply HM; exact Hi].
      + intros q' ins _ Hz. apply znth_app_some; exact Hz.
      + intros q' f e _ [A B]. split; [apply Ht; exact A|]. destruct e; [apply znth_app_some; exact B | apply Hmk; exact B].
    - intros ->. rewrite zlen_app in Hl. pose proof (zlen_nonneg blk).
      assert (p = 0) by lia. assert (zlen blk = 0) by lia.
      destruct blk; [|rewrite zlen_cons in *; pose proof (zlen_nonneg blk); lia]. rewrite app_nil_r. auto.
  Qed.

  Lemma JC3_bemit code ks marks todo lmap rcode p i :
    JC3 code ks marks todo lmap rcode p -> blen3 i = p ->
    imatch3 (RMof ks) code (jpre3 lmap marks todo) (zlen code - p) i ->
    JC3 code ks marks todo lmap (rcode ++ [i]) 0.
  Proof.
    intros (HL & HM & HS) Hb Hi. split; [|split].
    - rewrite app_length. cbn [length]. rewrite Nat.add_1_r, boff3_snoc. lia.
    - intros pc j Hz. apply znth_snoc_inv in Hz. destruct Hz as [[Hlt Hz]|[-> ->]].
      + rewrite pm_of3_app by lia. apply HM; exact Hz.
      + rewrite pm_of3_app by lia. unfold pm_of3, zlen. rewrite Nat2Z.id.
        replace (P0 + boff3 rcode (length rcode)) with (zlen code - p) by lia. exact Hi.
    - intros _. rewrite rlast_site_snoc. destruct (imatch3_last _ _ _ _ _ Hi) as (ins & Hz & Hop).
      rewrite <- Hop. apply code_last_pb_znth. replace (zlen code - 1) with (zlen code - p + blen3 i - 1) by lia. exact Hz.
  Qed.

  (* labels of the generator against targets (lmap : target id -> label id) and source labels of the flattener *)
  Record JL3 (labels : list Z) (marks blabels : list (str * Z)) (targets lmap : list Z) (rcode : list rinstr) : Prop := mkJL3 {
    jl_len : zlen lmap = zlen targets;
    jl_nd : NoDup lmap;
    jl_mrng : forall nm l, alookup str_ltb marks nm = Some l -> 0 <= l < zlen labels;
    jl_minj : forall n1 n2 l, alookup str_ltb marks n1 = Some l -> alookup str_ltb marks n2 = Some l -> n1 = n2;
    jl_str : forall e lab, znth lmap e = Some lab ->
        0 <= lab < zlen labels /\ (forall nm, alookup str_ltb marks nm <> Some lab) /\
        exists lv t, znth labels lab = Some lv /\ znth targets e = Some t /\ -1 <= t <= zlen rcode /\
                     (0 <= t -> lv = pm_of3 P0 rcode t);
    jl_mark : forall nm lab, alookup str_ltb marks nm = Some lab ->
        exists lv, znth labels lab = Some lv /\ -1 <= label_pos blabels nm <= zlen rcode /\
                   (0 <= label_pos blabels nm -> lv = pm_of3 P0 rcode (label_pos blabels nm));
    jl_none : forall nm, alookup str_ltb marks nm = None -> label_pos blabels nm = -1 }.

  Lemma JL3_bemit labels marks blabels targets lmap rcode i :
    JL3 labels marks blabels targets lmap rcode -> JL3 labels marks blabels targets lmap (rcode ++ [i]).
  Proof.
    intros [H1 H2 H3 H4 H5 H6 H7]. pose proof (@zlen_nonneg rinstr [i]) as Hi.
    constructor; auto.
    - intros e lab He. destruct (H5 _ _ He) as (A & B & lv & t & C1 & C2 & C3 & C4).
      split; [exact A|]. split; [exact B|]. exists lv, t. split; [exact C1|]. split; [exact C2|]. split.
      + rewrite zlen_app. lia.
      + intros Ht. rewrite pm_of3_app by lia. auto.
    - intros nm lab Hm. destruct (H6 _ _ Hm) as (lv & C1 & C3 & C4). exists lv. split; [exact C1|]. split.
      + rewrite zlen_app. lia.
      + intros Ht. rewrite pm_of3_app by lia. auto.
  Qed.

  Lemma JL3_new labels marks blabels targets lmap rcode :
    JL3 labels marks blabels targets lmap rcode ->
    JL3 (labels ++ [-1]) marks blabels (targets ++ [-1]) (lmap ++ [zlen labels]) rcode.
  Proof.
    intros [H1 H2 H3 H4 H5 H6 H7]. pose proof (zlen_nonneg labels) as Hl0. constructor; auto.
    - rewrite !zlen_snoc; lia.
    - apply NoDup_snoc; [exact H2|]. intros Hin. apply In_znth in Hin. destruct Hin as [e He].
      destruct (H5 _ _ He) as [A _]. lia.
    - intros nm l Hin. rewrite zlen_snoc. apply H3 in Hin. lia.
    - intros e lab He. apply znth_snoc_inv in He. destruct He as [[Hlt He]|[-> ->]].
      + destruct (H5 _ _ He) as (A & B & lv & t & C1 & C2 & C3 & C4).
        split; [rewrite zlen_snoc; lia|]. split; [exact B|]. exists lv, t.
        split; [apply znth_app_some; exact C1|]. split; [apply znth_app_some; exact C2|]. split; [lia | exact C4].
      + split; [rewrite zlen_snoc; lia|]. split.
        * intros nm Hin. apply H3 in Hin. lia.
        * exists (-1), (-1). rewrite H1. rewrite !znth_app_last. pose proof (zlen_nonneg rcode).
          split; [reflexivity|]. split; [reflexivity|]. split; [lia|]. intros; lia.
    - intros nm lab Hm. destruct (H6 _ _ Hm) as (lv & C1 & C3). exists lv. split; [apply znth_app_some; exact C1 | exact C3].
  Qed.

  Lemma JL3_set labels marks blabels targets lmap rcode e0 lab0 labels' targets' :
    JL3 labels marks blabels targets lmap rcode -> znth lmap e0 = Some lab0 ->
    zupd labels lab0 (pm_of3 P0 rcode (zlen rcode)) = Some labels' ->
    zupd targets e0 (zlen rcode) = Some targets' ->
    JL3 labels' marks blabels targets' lmap rcode.
  Proof.
    intros [H1 H2 H3 H4 H5 H6 H7] He0 Ul Ut.
    pose proof (zupd_length _ _ _ _ Ul) as Ll. pose proof (zupd_length _ _ _ _ Ut) as Lt.
    constructor; auto.
    - lia.
    - intros nm l Hin. rewrite Ll. eapply H3; eauto.
    - intros e lab He. destruct (H5 _ _ He) as (A & B & lv & t & C1 & C2 & C3 & C4).
      split; [lia|]. split; [exact B|].
      rewrite (znth_zupd _ _ _ _ Ul), (znth_zupd _ _ _ _ Ut).
      destruct (Z.eqb_spec e e0) as [->|Hne].
      + assert (lab = lab0) by congruence. subst lab. rewrite Z.eqb_refl.
        exists (pm_of3 P0 rcode (zlen rcode)), (zlen rcode). pose proof (zlen_nonneg rcode).
        split; [reflexivity|]. split; [reflexivity|]. split; [lia|]. intros; reflexivity.
      + destruct (Z.eqb_spec lab lab0) as [->|Hne2].
        * exfalso. apply Hne. eapply NoDup_znth; eauto.
        * exists lv, t. split; [exact C1|]. split; [exact C2|]. split; [lia | exact C4].
    - intros nm lab Hm. destruct (H6 _ _ Hm) as (lv & C1 & C3). exists lv. split; [|exact C3].
      rewrite (znth_zupd _ _ _ _ Ul). destruct (Z.eqb_spec lab lab0) as [->|]; [|exact C1].
      exfalso. destruct (H5 _ _ He0) as (_ & B & _). exact (B _ Hm).
  Qed.

  Lemma JL3_mark_set labels marks blabels targets lmap rcode nm lab t labels' blabels' :
    JL3 labels marks blabels targets lmap rcode -> alookup str_ltb marks nm = Some lab ->
    0 <= t <= zlen rcode ->
    zupd labels lab (pm_of3 P0 rcode t) = Some labels' ->
    label_pos blabels' nm = t -> (forall nm', nm' <> nm -> label_pos blabels' nm' = label_pos blabels nm') ->
    JL3 labels' marks blabels' targets lmap rcode.
  Proof.
    intros [H1 H2 H3 H4 H5 H6 H7] Hin Ht Ul Hs Ho. pose proof (zupd_length _ _ _ _ Ul) as Ll.
    constructor; auto.
    - intros nm' l Hin'. rewrite Ll. eapply H3; eauto.
    - intros e lab' He. destruct (H5 _ _ He) as (A & B & lv & t' & C1 & C2 & C3 & C4).
      split; [lia|]. split; [exact B|]. exists lv, t'. split; [|split; [exact C2|split; [lia | exact C4]]].
      rewrite (znth_zupd _ _ _ _ Ul). destruct (Z.eqb_spec lab' lab) as [->|]; [|exact C1].
      exfalso. exact (B _ Hin).
    - intros nm' lab' Hm. destruct (str_eqb nm' nm) eqn:E.
      + apply str_eqb_eq in E. subst nm'. assert (lab' = lab) by congruence. subst lab'.
        exists (pm_of3 P0 rcode t). rewrite (znth_zupd _ _ _ _ Ul), Z.eqb_refl, Hs.
        split; [reflexivity|]. split; [lia|]. intros; reflexivity.
      + assert (Hne : nm' <> nm) by (intros ->; rewrite str_eqb_refl in E; discriminate).
        destruct (H6 _ _ Hm) as (lv & C1 & C3). exists lv. rewrite (Ho _ Hne). split; [|exact C3].
        rewrite (znth_zupd _ _ _ _ Ul). destruct (Z.eqb_spec lab' lab) as [->|]; [|exact C1].
        exfalso. apply Hne. eapply H4; eauto.
    - intros nm' Hn. assert (Hne : nm' <> nm) by (intros ->; congruence). rewrite (Ho _ Hne). apply H7; exact Hn.
  Qed.

  Lemma JL3_mark_new labels marks blabels targets lmap rcode nm :
    JL3 labels marks blabels targets lmap rcode -> alookup str_ltb marks nm = None ->
    JL3 (labels ++ [-1]) (ainsert str_ltb marks nm (zlen labels)) blabels targets lmap rcode.
  Proof.
    intros [H1 H2 H3 H4 H5 H6 H7] Hn. pose proof (zlen_nonneg labels) as Hl0. constructor; auto.
    - intros nm' l Hin. rewrite zlen_snoc. rewrite str_lookup_insert in Hin.
      destruct (keqb str_ltb nm' nm); [inversion Hin; lia|]. apply H3 in Hin. lia.
    - intros n1 n2 l A B. rewrite str_lookup_insert in A, B.
      destruct (keqb str_ltb n1 nm) eqn:E1; destruct (keqb str_ltb n2 nm) eqn:E2.
      + apply str_keqb_eq in E1, E2. congruence.
      + inversion A; subst l. apply H3 in B. lia.
      + inversion B; subst l. apply H3 in A. lia.
      + eapply H4; eauto.
    - intros e lab He. destruct (H5 _ _ He) as (A & B & lv & t & C1 & C2 & C3 & C4).
      split; [rewrite zlen_snoc; lia|]. split.
      + intros nm' Hin. rewrite str_lookup_insert in Hin. destruct (keqb str_ltb nm' nm); [inversion Hin; lia|]. exact (B _ Hin).
      + exists lv, t. split; [apply znth_app_some; exact C1|]. split; [exact C2|]. split; [lia | exact C4].
    - intros nm' lab Hm. rewrite str_lookup_insert in Hm. destruct (keqb str_ltb nm' nm) eqn:E.
      + apply str_keqb_eq in E. subst nm'. inversion Hm; subst lab. exists (-1). rewrite znth_app_last.
        rewrite (H7 _ Hn). pose proof (zlen_nonneg rcode). split; [reflexivity|]. split; [lia|]. intros; lia.
      + destruct (H6 _ _ Hm) as (lv & C1 & C3). exists lv. split; [apply znth_app_some; exact C1 | exact C3].
    - intros nm' Hm. rewrite str_lookup_insert in Hm. destruct (keqb str_ltb nm' nm); [discriminate|]. apply H7; exact Hm.
  Qed.

  Lemma JL3_blabels labels marks blabels blabels' targets lmap rcode :
    JL3 labels marks blabels targets lmap rcode -> (forall nm, label_pos blabels' nm = label_pos blabels nm) ->
    JL3 labels marks blabels' targets lmap rcode.
  Proof.
    intros [H1 H2 H3 H4 H5 H6 H7] He. constructor; auto.
    - intros nm lab Hm. rewrite He. apply H6; exact Hm.
    - intros nm Hm. rewrite He. apply H7; exact Hm.
  Qed.

  Definition JB3 (code : list instr) (ks : list (str * bool)) (marks : list (str * Z)) (labels todo : list Z) (L : Z)
             (rcode : list rinstr) (blabels : list (str * Z)) (targets : list Z) (vars : list str) (lmap : list Z) (p : Z) : Prop :=
    JC3 code ks marks todo lmap rcode p /\ JL3 labels marks blabels targets lmap rcode /\ JT todo code /\
    RW ks L /\ JV ks vars /\ 0 <= L /\ 0 <= p.

  Lemma JB3_intro code ks marks labels todo L rcode blabels targets vars lmap p :
    JC3 code ks marks todo lmap rcode p -> JL3 labels marks blabels targets lmap rcode -> JT todo code ->
    RW ks L -> JV ks vars -> 0 <= L -> 0 <= p ->
    JB3 code ks marks labels todo L rcode blabels targets vars lmap p.
  Proof. unfold JB3. tauto. Qed.

  Lemma JB3_emit code ks marks labels todo L rcode blabels targets vars lmap p ins :
    JB3 code ks marks labels todo L rcode blabels targets vars lmap p ->
    JB3 (code ++ [ins]) ks marks labels todo L rcode blabels targets vars lmap (p + 1).
  Proof.
    intros (HC & HL & (T1 & T2) & HR & HV & H0 & Hp). apply JB3_intro; auto; try lia.
    - eapply JC3_mono; [exact HC | exact Hp | eexists; reflexivity | apply kext_refl | apply mle_refl | apply incl_refl | apply nil_ex |].
      rewrite zlen_snoc. destruct HC as [E _]. lia.
    - split; [exact T1|]. intros q Hq. apply T2 in Hq. rewrite zlen_snoc. lia.
  Qed.

  Lemma JB3_emit_bp code ks marks labels todo L rcode blabels targets vars lmap p ins :
    JB3 code ks marks labels todo L rcode blabels targets vars lmap p ->
    JB3 (code ++ [ins]) ks marks labels (todo ++ [zlen code]) L rcode blabels targets vars lmap (p + 1).
  Proof.
    intros (HC & HL & (T1 & T2) & HR & HV & H0 & Hp). pose proof (zlen_nonneg code). apply JB3_intro; auto; try lia.
    - eapply JC3_mono; [exact HC | exact Hp | eexists; reflexivity | apply kext_refl | apply mle_refl | | apply nil_ex |].
      + intros q Hq. apply in_or_app; left; exact Hq.
      + rewrite zlen_snoc. destruct HC as [E _]. lia.
    - split.
      + apply NoDup_snoc; [exact T1|]. intros Hin. apply T2 in Hin. lia.
      + intros q Hq. rewrite zlen_snoc. apply in_app_or in Hq. destruct Hq as [Hq|[<-|[]]]; [apply T2 in Hq; lia | lia].
  Qed.

  Lemma JB3_bemit code ks marks labels todo L rcode blabels targets vars lmap p i :
    JB3 code ks marks labels todo L rcode blabels targets vars lmap p -> blen3 i = p ->
    imatch3 (RMof ks) code (jpre3 lmap marks todo) (zlen code - p) i ->
    JB3 code ks marks labels todo L (rcode ++ [i]) blabels targets vars lmap 0.
  Proof.
    intros (HC & HL & HT & HR & HV & H0 & Hp) Hb Hi. apply JB3_intro; auto; try lia.
    - eapply JC3_bemit; eauto.
    - apply JL3_bemit; exact HL.
  Qed.

  Lemma JB3_ks code ks marks labels todo L rcode blabels targets vars lmap p ks' vars' L' :
    JB3 code ks marks labels todo L rcode blabels targets vars lmap p ->
    kext ks ks' -> RW ks' L' -> JV ks' vars' -> 0 <= L' ->
    JB3 code ks' marks labels todo L' rcode blabels targets vars' lmap p.
  Proof.
    intros (HC & HL & HT & HR & HV & H0 & Hp) Hk HR' HV' HL'. apply JB3_intro; auto.
    eapply JC3_mono; [exact HC | exact Hp | apply nil_ex | exact Hk | apply mle_refl | apply incl_refl | apply nil_ex | apply HC].
  Qed.

  Lemma JB3_newlab code ks marks labels todo L rcode blabels targets vars lmap p :
    JB3 code ks marks labels todo L rcode blabels targets vars lmap p ->
    JB3 code ks marks (labels ++ [-1]) todo L rcode blabels (targets ++ [-1]) vars (lmap ++ [zlen labels]) p.
  Proof.
    intros (HC & HL & HT & HR & HV & H0 & Hp). apply JB3_intro; auto.
    - eapply JC3_mono; [exact HC | exact Hp | apply nil_ex | apply kext_refl | apply mle_refl | apply incl_refl | eexists; reflexivity | apply HC].
    - apply JL3_new; exact HL.
  Qed.

  Lemma JB3_setlab code ks marks labels todo L rcode blabels targets vars lmap e0 lab0 labels' targets' :
    JB3 code ks marks labels todo L rcode blabels targets vars lmap 0 -> znth lmap e0 = Some lab0 ->
    zupd labels lab0 (zlen code) = Some labels' -> zupd targets e0 (zlen rcode) = Some targets' ->
    JB3 code ks marks labels' todo L rcode blabels targets' vars lmap 0.
  Proof.
    intros (HC & HL & HT & HR & HV & H0 & Hp) He Ul Ut. apply JB3_intro; auto.
    eapply JL3_set; eauto. unfold pm_of3, zlen at 1. rewrite Nat2Z.id. destruct HC as [E _].
    replace (P0 + boff3 rcode (length rcode)) with (zlen code) by lia. exact Ul.
  Qed.

  (* a change of the label tables *)
  Lemma JB3_labels code ks marks labels todo L rcode blabels targets vars lmap p marks' labels' blabels' :
    JB3 code ks marks labels todo L rcode blabels targets vars lmap p ->
    JL3 labels' marks' blabels' targets lmap rcode -> mle marks marks' ->
    JB3 code ks marks' labels' todo L rcode blabels' targets vars lmap p.
  Proof.
    intros (HC & HL & HT & HR & HV & H0 & Hp) HL' Hm. apply JB3_intro; auto.
    eapply JC3_mono; [exact HC | exact Hp | apply nil_ex | apply kext_refl | exact Hm | apply incl_refl | apply nil_ex | apply HC].
  Qed.
End Static3.
