(* Proofs_C01s2a.v — C01, stage 2 (LOOP / WHILE), part 1:
   (1) the checked reference interpreter run_chk, one level unfolded, and the proof that a checked run that
       does not end in OBad is the reference run (C01_chk_is_run_proof);
   (2) the DYNAMIC part of the compiler-correctness proof: a generic simulation between the reference machine
       running a flat routine and the VM running code related to it by a position map.  Everything here is
       parametrised by the routine, its index, the frame base and the register map, and does not mention the
       generator. *)
From Coq Require Import List ZArith NArith Lia Bool.
From Theo Require Import Base Tokens Errors MacroExtract Parser VMModel VMSpec GenModel Compile RefSem RefSemChk C01Statements C01Stages Gen_Consts Proofs_VM_mem Proofs_VM_dbg Proofs_Gen0 Proofs_Gen Proofs_Sem Proofs_C01a Proofs_C01b Proofs_C01.
Import ListNotations.
Local Open Scope Z_scope.

(* ================================================================================================ *)
(* 1. run_chk, one level unfolded                                                                   *)
(* ================================================================================================ *)
Section BodyC.
  Variable rs : list routine.
  Variable rec : rviews -> nat -> ract -> Z -> nat -> rtrace -> outcome.

  Definition evargs_of_c (ev : rvalue -> nat -> rtrace -> evres_c) :=
    fix evargs (l : list rvalue) (acc : list Z) (steps : nat) (trace : rtrace) {struct l}
      : option (list Z * nat * rtrace) + evres_c :=
      match l with
      | [] => inl (Some (acc, steps, trace))
      | x :: rest =>
          match ev x steps trace with
          | EValc z st tr => evargs rest (acc ++ [z]) st tr
          | other => inr other
          end
      end.

  Definition call_of_c (here : rviews) (j : nat) (x : option (list Z * nat * rtrace) + evres_c) : evres_c :=
    match x with
    | inr other => other
    | inl None => EBadc
    | inl (Some (vals, st, tr)) =>
        match nth_error rs j with
        | None => EBadc
        | Some callee =>
            if negb (Nat.eqb (length vals) (length (r_params callee))) then EBadc
            else
              let a' := mkRAct (fold_left (fun s pv => put s (fst pv) (snd pv))
                                          (combine (r_params callee) vals) []) [] in
              match rec here j a' 0 st tr with
              | ODone ret st' tr' => EValc ret st' tr'
              | OStop vs st' tr' => EStopc vs st' tr'
              | OFuel => EFuelc
              | OBad => EBadc
              end
        end
    end.

  Section EvalC.
  Variable a : ract.
  Variable here : rviews.
  Fixpoint eval_c (v : rvalue) (steps : nat) (trace : rtrace) {struct v} : evres_c :=
    match v with
    | RVar y => EValc (get (ra_vars a) y) steps trace
    | RNum c => EValc c steps trace
    | RInc y c =>
        match eval_c y steps trace with
        | EValc x st tr => if INT_MAX <=? x + c then EBadc else EValc (x + c) st tr
        | other => other
        end
    | RDec y c =>
        match eval_c y steps trace with
        | EValc x st tr => EValc (Z.max (x - c) 0) st tr
        | other => other
        end
    | RCall j args => call_of_c here j (evargs_of_c eval_c args [] steps trace)
    end.
  End EvalC.

  Definition exec_instr_c (r : routine) (ctx : rviews) (k : nat) (a : ract) (pc : Z) (steps : nat) (trace : rtrace)
             (i : rinstr) : outcome :=
    let here := ctx ++ [view_of r a] in
    let steps1 := S steps in
    match i with
    | RSite l => rec ctx k a (pc + 1) steps1 (trace ++ [(l, here)])
    | RAssign x v =>
        match eval_c a here v steps1 trace with
        | EValc z st tr => rec ctx k (mkRAct (put (ra_vars a) x z) (ra_cnt a)) (pc + 1) st tr
        | EStopc vs st tr => OStop vs st tr
        | EFuelc => OFuel
        | EBadc => OBad
        end
    | RLoopInit id v =>
        match eval_c a here v steps1 trace with
        | EValc z st tr => rec ctx k (mkRAct (ra_vars a) (putc (ra_cnt a) id z)) (pc + 1) st tr
        | EStopc vs st tr => OStop vs st tr
        | EFuelc => OFuel
        | EBadc => OBad
        end
    | RLoopTest id exit =>
        if getc (ra_cnt a) id =? 0
        then match znth (r_targets r) exit with Some t => goto_of rec ctx k t a steps1 trace | None => OBad end
        else rec ctx k a (pc + 1) steps1 trace
    | RLoopDec id back =>
        let a' := mkRAct (ra_vars a) (putc (ra_cnt a) id (Z.max (getc (ra_cnt a) id - 1) 0)) in
        match znth (r_targets r) back with Some t => goto_of rec ctx k t a' steps1 trace | None => OBad end
    | RWhileTest v exit =>
        match eval_c a here v steps1 trace with
        | EValc z st tr =>
            if z =? 0
            then match znth (r_targets r) exit with Some t => goto_of rec ctx k t a st tr | None => OBad end
            else rec ctx k a (pc + 1) st tr
        | EStopc vs st tr => OStop vs st tr
        | EFuelc => OFuel
        | EBadc => OBad
        end
    | RJump target =>
        match znth (r_targets r) target with Some t => goto_of rec ctx k t a steps1 trace | None => OBad end
    | RGoto l => goto_of rec ctx k (label_pos (r_labels r) l) a steps1 trace
    | RIfGoto x y l =>
        match eval_c a here x steps1 trace with
        | EValc zx st tr =>
            match eval_c a here y st tr with
            | EValc zy st' tr' =>
                if zx =? zy then goto_of rec ctx k (label_pos (r_labels r) l) a st' tr'
                else rec ctx k a (pc + 1) st' tr'
            | EStopc vs st' tr' => OStop vs st' tr'
            | EFuelc => OFuel
            | EBadc => OBad
            end
        | EStopc vs st tr => OStop vs st tr
        | EFuelc => OFuel
        | EBadc => OBad
        end
    | RStop => OStop here steps1 trace
    | RHalt => OStop here steps1 trace
    | RReturn out => ODone (get (ra_vars a) out) steps1 trace
    end.

  Definition body_c (ctx : rviews) (k : nat) (a : ract) (pc : Z) (steps : nat) (trace : rtrace) : outcome :=
    match nth_error rs k with
    | None => OBad
    | Some r =>
        match znth (r_code r) pc with
        | None => OBad
        | Some i => exec_instr_c r ctx k a pc steps trace i
        end
    end.

  Lemma eval_c_call a here j args steps trace :
    eval_c a here (RCall j args) steps trace = call_of_c here j (evargs_of_c (eval_c a here) args [] steps trace).
  Proof. reflexivity. Qed.

  Lemma evargs_c_cons ev x rest acc steps trace :
    evargs_of_c ev (x :: rest) acc steps trace =
    match ev x steps trace with
    | EValc z st tr => evargs_of_c ev rest (acc ++ [z]) st tr
    | other => inr other
    end.
  Proof. reflexivity. Qed.
End BodyC.

Lemma run_chk_S rs f ctx k a pc steps trace :
  run_chk rs (S f) ctx k a pc steps trace = body_c rs (run_chk rs f) ctx k a pc steps trace.
Proof. reflexivity. Qed.

(* ================================================================================================ *)
(* 2. a checked run that is not OBad is the reference run                                           *)
(* ================================================================================================ *)
Definition ev_sim (ec : evres_c) (e : evres) : Prop :=
  match ec with
  | EValc v s t => e = EVal v s t
  | EStopc v s t => e = EStop v s t
  | EFuelc => e = EFuel
  | EBadc => True
  end.

Definition rec_sim (recc rec : rec_t) : Prop :=
  forall ctx k a pc st tr, recc ctx k a pc st tr <> OBad -> rec ctx k a pc st tr = recc ctx k a pc st tr.

Definition args_sim (xc : option (list Z * nat * rtrace) + evres_c) (x : option (list Z * nat * rtrace) + evres) : Prop :=
  match xc with
  | inl v => x = inl v
  | inr ec => ec = EBadc \/ exists e, x = inr e /\ ev_sim ec e
  end.

Section ChkSim.
  Variable rs : list routine.
  Variables recc rec : rec_t.
  Hypothesis L : rec_sim recc rec.

  Lemma call_of_sim here j xc x : args_sim xc x -> ev_sim (call_of_c rs recc here j xc) (call_of rs rec here j x).
  Proof.
    unfold args_sim. destruct xc as [[[[vals st] tr]|]|ec].
    - intros ->. unfold call_of_c, call_of.
      destruct (nth_error rs j) as [callee|]; [|exact I].
      destruct (negb _); [exact I|]. cbv zeta.
      set (a' := mkRAct _ _).
      pose proof (L here j a' 0 st tr) as Hl.
      destruct (recc here j a' 0 st tr) eqn:E; cbn [ev_sim]; try exact I;
        rewrite Hl by discriminate; reflexivity.
    - intros ->. exact I.
    - intros [->|(e & -> & He)]; [exact I|]. exact He.
  Qed.

  Lemma evargs_sim a here args :
    Forall (fun v => forall st tr, ev_sim (eval_c rs recc a here v st tr) (eval rs rec a here v st tr)) args ->
    forall acc st tr,
      args_sim (evargs_of_c (eval_c rs recc a here) args acc st tr) (evargs_of (eval rs rec a here) args acc st tr).
  Proof.
    induction 1 as [|x rest Hx Hrest IH]; intros acc st tr; [reflexivity|].
    rewrite evargs_c_cons, evargs_cons. specialize (Hx st tr).
    destruct (eval_c rs recc a here x st tr) as [z st1 tr1|vs st1 tr1| |] eqn:E; cbn [ev_sim] in Hx.
    - rewrite Hx. apply IH.
    - right. rewrite Hx. eexists; split; [reflexivity|]. reflexivity.
    - right. rewrite Hx. eexists; split; [reflexivity|]. reflexivity.
    - left; reflexivity.
  Qed.

  Lemma eval_sim a here : forall v st tr, ev_sim (eval_c rs recc a here v st tr) (eval rs rec a here v st tr).
  Proof.
    induction v as [y|c|y c IH|y c IH|j args IH] using rvalue_ind'; intros st tr.
    - reflexivity.
    - reflexivity.
    - cbn [eval_c eval]. specialize (IH st tr).
      destruct (eval_c rs recc a here y st tr) as [x st1 tr1|vs st1 tr1| |]; cbn [ev_sim] in IH |- *.
      + rewrite IH. destruct (INT_MAX <=? x + c); [exact I | reflexivity].
      + rewrite IH. reflexivity.
      + rewrite IH. reflexivity.
      + exact I.
    - cbn [eval_c eval]. specialize (IH st tr).
      destruct (eval_c rs recc a here y st tr) as [x st1 tr1|vs st1 tr1| |]; cbn [ev_sim] in IH |- *.
      + rewrite IH. reflexivity.
      + rewrite IH. reflexivity.
      + rewrite IH. reflexivity.
      + exact I.
    - rewrite eval_c_call, eval_call. apply call_of_sim. apply evargs_sim. exact IH.
  Qed.

  Lemma goto_of_sim ctx k t a st tr :
    goto_of recc ctx k t a st tr <> OBad -> goto_of rec ctx k t a st tr = goto_of recc ctx k t a st tr.
  Proof. unfold goto_of. destruct (t <? 0); [reflexivity|]. apply L. Qed.

  Lemma exec_instr_sim r ctx k a pc st tr i :
    exec_instr_c rs recc r ctx k a pc st tr i <> OBad ->
    exec_instr rs rec r ctx k a pc st tr i = exec_instr_c rs recc r ctx k a pc st tr i.
  Proof.
    unfold exec_instr_c, exec_instr. cbv zeta. set (here := ctx ++ [view_of r a]).
    destruct i as [l|x v|id v|id ex|id back|v ex|target|l|x y l| |out|]; intros H.
    - apply L; exact H.
    - pose proof (eval_sim a here v (S st) tr) as Ev.
      destruct (eval_c rs recc a here v (S st) tr) eqn:E; cbn [ev_sim] in Ev; try rewrite Ev; try reflexivity.
      + apply L; exact H.
      + exfalso; apply H; reflexivity.
    - pose proof (eval_sim a here v (S st) tr) as Ev.
      destruct (eval_c rs recc a here v (S st) tr) eqn:E; cbn [ev_sim] in Ev; try rewrite Ev; try reflexivity.
      + apply L; exact H.
      + exfalso; apply H; reflexivity.
    - destruct (getc (ra_cnt a) id =? 0).
      + destruct (znth (r_targets r) ex); [apply goto_of_sim; exact H | reflexivity].
      + apply L; exact H.
    - destruct (znth (r_targets r) back); [apply goto_of_sim; exact H | reflexivity].
    - pose proof (eval_sim a here v (S st) tr) as Ev.
      destruct (eval_c rs recc a here v (S st) tr) eqn:E; cbn [ev_sim] in Ev; try rewrite Ev; try reflexivity.
      + destruct (v0 =? 0).
        * destruct (znth (r_targets r) ex); [apply goto_of_sim; exact H | reflexivity].
        * apply L; exact H.
      + exfalso; apply H; reflexivity.
    - destruct (znth (r_targets r) target); [apply goto_of_sim; exact H | reflexivity].
    - apply goto_of_sim; exact H.
    - pose proof (eval_sim a here x (S st) tr) as Ex.
      destruct (eval_c rs recc a here x (S st) tr) as [zx st1 tr1|vs st1 tr1| |] eqn:E; cbn [ev_sim] in Ex;
        try rewrite Ex; try reflexivity.
      + pose proof (eval_sim a here y st1 tr1) as Ey.
        destruct (eval_c rs recc a here y st1 tr1) as [zy st2 tr2|vs st2 tr2| |] eqn:E2; cbn [ev_sim] in Ey;
          try rewrite Ey; try reflexivity.
        * destruct (zx =? zy); [apply goto_of_sim; exact H | apply L; exact H].
        * exfalso; apply H; reflexivity.
      + exfalso; apply H; reflexivity.
    - reflexivity.
    - reflexivity.
    - reflexivity.
  Qed.

  Lemma body_sim ctx k a pc st tr :
    body_c rs recc ctx k a pc st tr <> OBad -> body rs rec ctx k a pc st tr = body_c rs recc ctx k a pc st tr.
  Proof.
    unfold body_c, body. destruct (nth_error rs k) as [r|]; [|reflexivity].
    destruct (znth (r_code r) pc) as [i|]; [|reflexivity].
    apply exec_instr_sim.
  Qed.
End ChkSim.

Lemma run_chk_sim rs : forall fuel, rec_sim (run_chk rs fuel) (run rs fuel).
Proof.
  induction fuel as [|f IH]; intros ctx k a pc st tr H.
  - reflexivity.
  - rewrite run_S, run_chk_S in *. apply body_sim; [exact IH | exact H].
Qed.

Lemma C01_chk_is_run_proof : C01_chk_is_run_stmt.
Proof.
  intros rs fuel ctx k a pc steps trace o H Hne. subst o. apply run_chk_sim. exact Hne.
Qed.

(* ================================================================================================ *)
(* 3. the VM, one instruction at a time, on an arbitrary frame                                      *)
(* ================================================================================================ *)
Definition vm_at (s : vm) (q : Z) (d : list Z) : vm := mkVM (stepping s) q (prog s) d (stack s) (enabled s).
Definition clampz (z : Z) : Z := Z.max 0 (Z.min z INT_MAX).

Lemma vm_at_at s q d q' d' : vm_at (vm_at s q d) q' d' = vm_at s q' d'.
Proof. reflexivity. Qed.

Lemma vm_at_self s : vm_at s (ip s) (data s) = s.
Proof. destruct s; reflexivity. Qed.

Lemma exec1_pb s :
  znth (code (prog s)) (ip s) = Some IPotentialBreak ->
  exec1 s = Ok (vm_at s (ip s + 1) (data s), stepping s).
Proof.
  intros Hz. unfold exec1, exec1_gen. rewrite Hz. reflexivity.
Qed.

Lemma exec1_add s act rest t src c x d' :
  znth (code (prog s)) (ip s) = Some (IAdd t src c) -> stack s = act :: rest ->
  znth (data s) (data_start act + src) = Some x ->
  zupd (data s) (data_start act + t) (clampz (x + c)) = Some d' ->
  exec1 s = Ok (vm_at s (ip s + 1) d', false).
Proof.
  intros Hz Hs Hx Hu. unfold exec1, exec1_gen. rewrite Hz. cbn [of_opt bind IAdd iop ia ib ic].
  unfold top. rewrite Hs. cbn [hd_error of_opt bind]. unfold rd. rewrite Hx. cbn [of_opt bind].
  rewrite add_const_now. cbn [bind]. unfold wr. fold (clampz (x + c)). rewrite Hu. reflexivity.
Qed.

Lemma exec1_const s act rest t c d' :
  znth (code (prog s)) (ip s) = Some (IConst t c) -> stack s = act :: rest ->
  zupd (data s) (data_start act + t) c = Some d' ->
  exec1 s = Ok (vm_at s (ip s + 1) d', false).
Proof.
  intros Hz Hs Hu. unfold exec1, exec1_gen. rewrite Hz. cbn [of_opt bind IConst iop ia ib ic].
  unfold top. rewrite Hs. cbn [hd_error of_opt bind]. unfold wr. rewrite Hu. reflexivity.
Qed.

Lemma exec1_jmp s f :
  znth (code (prog s)) (ip s) = Some (IJmp f) ->
  exec1 s = Ok (vm_at s (ip s + f) (data s), false).
Proof.
  intros Hz. unfold exec1, exec1_gen. rewrite Hz. reflexivity.
Qed.

Lemma exec1_jmpc s act rest f src x :
  znth (code (prog s)) (ip s) = Some (IJmpC f src) -> stack s = act :: rest ->
  znth (data s) (data_start act + src) = Some x ->
  exec1 s = Ok (vm_at s (if x =? 0 then ip s + f else ip s + 1) (data s), false).
Proof.
  intros Hz Hs Hx. unfold exec1, exec1_gen. rewrite Hz. cbn [of_opt bind IJmpC iop ia ib ic].
  unfold top. rewrite Hs. cbn [hd_error of_opt bind]. unfold rd. rewrite Hx. reflexivity.
Qed.

Lemma vm_run_1 s s' b : exec1 s = Ok (s', b) -> vm_run 1 s = Ok s'.
Proof. intros H. rewrite vm_run_S, H. reflexivity. Qed.

Lemma vm_run_trans n m s s' s'' : vm_run n s = Ok s' -> vm_run m s' = Ok s'' -> vm_run (n + m) s = Ok s''.
Proof. intros H1 H2. rewrite Proofs_VM_dbg.vm_run_add, H1. exact H2. Qed.

Lemma zupd_ex {A} (l : list A) i x : 0 <= i < zlen l -> exists l', zupd l i x = Some l'.
Proof. intros H. eexists. apply Proofs_Gen0.zupd_some. exact H. Qed.

(* the same steps, from a state given as  vm_at s q d  (no conversion under exec1 is needed to chain them) *)
Lemma at_pb s q d :
  znth (code (prog s)) q = Some IPotentialBreak -> vm_run 1 (vm_at s q d) = Ok (vm_at s (q + 1) d).
Proof. intros H. apply vm_run_1 with (b := stepping s). exact (exec1_pb (vm_at s q d) H). Qed.

Lemma at_add s act rest q d t src c x d' :
  znth (code (prog s)) q = Some (IAdd t src c) -> stack s = act :: rest ->
  znth d (data_start act + src) = Some x -> zupd d (data_start act + t) (clampz (x + c)) = Some d' ->
  vm_run 1 (vm_at s q d) = Ok (vm_at s (q + 1) d').
Proof.
  intros H1 H2 H3 H4. apply vm_run_1 with (b := false). exact (exec1_add (vm_at s q d) act rest t src c x d' H1 H2 H3 H4).
Qed.

Lemma at_const s act rest q d t c d' :
  znth (code (prog s)) q = Some (IConst t c) -> stack s = act :: rest ->
  zupd d (data_start act + t) c = Some d' ->
  vm_run 1 (vm_at s q d) = Ok (vm_at s (q + 1) d').
Proof.
  intros H1 H2 H3. apply vm_run_1 with (b := false). exact (exec1_const (vm_at s q d) act rest t c d' H1 H2 H3).
Qed.

Lemma at_jmp s q d f :
  znth (code (prog s)) q = Some (IJmp f) -> vm_run 1 (vm_at s q d) = Ok (vm_at s (q + f) d).
Proof. intros H. apply vm_run_1 with (b := false). exact (exec1_jmp (vm_at s q d) f H). Qed.

Lemma at_jmpc s act rest q d f src x :
  znth (code (prog s)) q = Some (IJmpC f src) -> stack s = act :: rest ->
  znth d (data_start act + src) = Some x ->
  vm_run 1 (vm_at s q d) = Ok (vm_at s (if x =? 0 then q + f else q + 1) d).
Proof.
  intros H1 H2 H3. apply vm_run_1 with (b := false). exact (exec1_jmpc (vm_at s q d) act rest f src x H1 H2 H3).
Qed.

(* ================================================================================================ *)
(* 4. register maps and the relation between a reference activation and a VM frame                  *)
(* ================================================================================================ *)
Record regmap := mkRM { rm_var : str -> Z -> Prop; rm_cnt : Z -> Z -> Prop; rm_tmp : Z -> Prop }.

Record rm_ok (rm : regmap) (N : Z) : Prop := mkRMok {
  rmo_var_rng : forall x i, rm_var rm x i -> 0 <= i < N;
  rmo_cnt_rng : forall c i, rm_cnt rm c i -> 0 <= i < N;
  rmo_tmp_rng : forall t, rm_tmp rm t -> 0 <= t < N;
  rmo_var_fun : forall x i j, rm_var rm x i -> rm_var rm x j -> i = j;
  rmo_var_inj : forall x y i, rm_var rm x i -> rm_var rm y i -> x = y;
  rmo_cnt_fun : forall c i j, rm_cnt rm c i -> rm_cnt rm c j -> i = j;
  rmo_cnt_inj : forall c c' i, rm_cnt rm c i -> rm_cnt rm c' i -> c = c';
  rmo_var_cnt : forall x c i, rm_var rm x i -> rm_cnt rm c i -> False;
  rmo_var_tmp : forall x i, rm_var rm x i -> rm_tmp rm i -> False;
  rmo_cnt_tmp : forall c i, rm_cnt rm c i -> rm_tmp rm i -> False }.

(* variable registers hold the reference store, counter registers the reference counters, temporaries anything;
   every value is a proper VM word *)
Record SR (rm : regmap) (base N : Z) (a : ract) (d : list Z) : Prop := mkSR {
  sr_fit : 0 <= base /\ base + N <= zlen d;
  sr_var : forall x i, rm_var rm x i -> znth d (base + i) = Some (get (ra_vars a) x);
  sr_cnt : forall c i, rm_cnt rm c i -> znth d (base + i) = Some (getc (ra_cnt a) c);
  sr_vb : forall x, 0 <= get (ra_vars a) x < INT_MAX;
  sr_cb : forall c, 0 <= getc (ra_cnt a) c < INT_MAX }.

(* d' differs from d at most at the absolute indices in W and at the temporaries of the frame *)
Definition chg (rm : regmap) (base : Z) (d d' : list Z) (W : Z -> Prop) : Prop :=
  zlen d' = zlen d /\
  forall j, ~ W j -> (forall t, rm_tmp rm t -> j <> base + t) -> znth d' j = znth d j.

Lemma chg_refl rm base d W : chg rm base d d W.
Proof. split; auto. Qed.

Lemma chg_trans rm base d d1 d2 (W1 W2 W : Z -> Prop) :
  (forall j, W1 j -> W j) -> (forall j, W2 j -> W j) ->
  chg rm base d d1 W1 -> chg rm base d1 d2 W2 -> chg rm base d d2 W.
Proof.
  intros H1 H2 [L1 C1] [L2 C2]. split; [congruence|]. intros j Hj Ht.
  rewrite C2 by auto. apply C1; auto.
Qed.

Lemma chg_weaken rm base d d' (W W' : Z -> Prop) : (forall j, W j -> W' j) -> chg rm base d d' W -> chg rm base d d' W'.
Proof. intros H [L Cc]. split; auto. Qed.

Lemma chg_zupd_tmp rm base d d' t z : rm_tmp rm t -> zupd d (base + t) z = Some d' -> chg rm base d d' (fun _ => False).
Proof.
  intros Ht Hu. split; [apply (zupd_length _ _ _ _ Hu)|]. intros j _ Hj.
  rewrite (znth_zupd _ _ _ _ Hu). destruct (Z.eqb_spec j (base + t)) as [->|]; [|reflexivity].
  exfalso. apply (Hj t Ht). reflexivity.
Qed.

Lemma chg_zupd rm base d d' i z : zupd d (base + i) z = Some d' -> chg rm base d d' (fun j => j = base + i).
Proof.
  intros Hu. split; [apply (zupd_length _ _ _ _ Hu)|]. intros j Hj _.
  rewrite (znth_zupd _ _ _ _ Hu). destruct (Z.eqb_spec j (base + i)); [contradiction | reflexivity].
Qed.

Lemma getc_putc_same s i v : getc (putc s i v) i = v.
Proof.
  induction s as [|[k w] t IH]; cbn [putc getc].
  - rewrite Z.eqb_refl. reflexivity.
  - destruct (k =? i) eqn:E; cbn [getc]; rewrite E; auto.
Qed.

Lemma getc_putc_other s i v j : j <> i -> getc (putc s i v) j = getc s j.
Proof.
  intros H. induction s as [|[k w] t IH]; cbn [putc getc].
  - destruct (Z.eqb_spec i j); [congruence | reflexivity].
  - destruct (Z.eqb_spec k i) as [->|Hk]; cbn [getc].
    + destruct (Z.eqb_spec i j); [congruence | reflexivity].
    + destruct (k =? j); auto.
Qed.

Section SRfacts.
  Variables (rm : regmap) (base N : Z).
  Hypothesis OK : rm_ok rm N.

  Lemma SR_tmp a d d' : SR rm base N a d -> chg rm base d d' (fun _ => False) -> SR rm base N a d'.
  Proof.
    intros [Hf Hv Hc Hvb Hcb] [Hl Hch]. constructor; auto.
    - rewrite Hl. exact Hf.
    - intros x i Hx. rewrite Hch; auto. intros t Ht E.
      assert (i = t) by lia. subst t. exact (rmo_var_tmp _ _ OK _ _ Hx Ht).
    - intros c i Hx. rewrite Hch; auto. intros t Ht E.
      assert (i = t) by lia. subst t. exact (rmo_cnt_tmp _ _ OK _ _ Hx Ht).
  Qed.

  Lemma SR_var a d d' x i z : SR rm base N a d -> rm_var rm x i ->
    chg rm base d d' (fun j => j = base + i) -> znth d' (base + i) = Some z -> 0 <= z < INT_MAX ->
    SR rm base N (mkRAct (put (ra_vars a) x z) (ra_cnt a)) d'.
  Proof.
    intros [Hf Hv Hc Hvb Hcb] Hx [Hl Hch] Hz Hzb. constructor; cbn [ra_vars ra_cnt]; auto.
    - rewrite Hl. exact Hf.
    - intros y j Hy. destruct (Z.eq_dec j i) as [->|Hne].
      + rewrite (rmo_var_inj _ _ OK _ _ _ Hy Hx). rewrite get_put_same. exact Hz.
      + assert (y <> x) by (intros ->; apply Hne; exact (rmo_var_fun _ _ OK _ _ _ Hy Hx)).
        rewrite get_put_other by assumption. rewrite Hch; auto; [lia|].
        intros t Ht E. assert (j = t) by lia. subst t. exact (rmo_var_tmp _ _ OK _ _ Hy Ht).
    - intros c j Hy. rewrite Hch; auto.
      + intros E. assert (j = i) by lia. subst j. exact (rmo_var_cnt _ _ OK _ _ _ Hx Hy).
      + intros t Ht E. assert (j = t) by lia. subst t. exact (rmo_cnt_tmp _ _ OK _ _ Hy Ht).
    - intros y. destruct (str_eqb y x) eqn:E.
      + apply str_eqb_eq in E. subst y. rewrite get_put_same. exact Hzb.
      + rewrite get_put_other; [apply Hvb|]. intros ->. rewrite str_eqb_refl in E. discriminate.
  Qed.

  Lemma SR_cnt a d d' c i z : SR rm base N a d -> rm_cnt rm c i ->
    chg rm base d d' (fun j => j = base + i) -> znth d' (base + i) = Some z -> 0 <= z < INT_MAX ->
    SR rm base N (mkRAct (ra_vars a) (putc (ra_cnt a) c z)) d'.
  Proof.
    intros [Hf Hv Hc Hvb Hcb] Hx [Hl Hch] Hz Hzb. constructor; cbn [ra_vars ra_cnt]; auto.
    - rewrite Hl. exact Hf.
    - intros y j Hy. rewrite Hch; auto.
      + intros E. assert (j = i) by lia. subst j. exact (rmo_var_cnt _ _ OK _ _ _ Hy Hx).
      + intros t Ht E. assert (j = t) by lia. subst t. exact (rmo_var_tmp _ _ OK _ _ Hy Ht).
    - intros c' j Hy. destruct (Z.eq_dec j i) as [->|Hne].
      + rewrite (rmo_cnt_inj _ _ OK _ _ _ Hy Hx). rewrite getc_putc_same. exact Hz.
      + assert (c' <> c) by (intros ->; apply Hne; exact (rmo_cnt_fun _ _ OK _ _ _ Hy Hx)).
        rewrite getc_putc_other by assumption. rewrite Hch; auto; [lia|].
        intros t Ht E. assert (j = t) by lia. subst t. exact (rmo_cnt_tmp _ _ OK _ _ Hy Ht).
    - intros c'. destruct (Z.eq_dec c' c) as [->|Hne].
      + rewrite getc_putc_same. exact Hzb.
      + rewrite getc_putc_other by assumption. apply Hcb.
  Qed.
End SRfacts.

(* ================================================================================================ *)
(* 5. the shape of compiled code: values, instructions, the position map                            *)
(* ================================================================================================ *)
(* number of VM instructions of a simple value / of a reference instruction *)
Definition vlen (v : rvalue) : Z :=
  match v with
  | RVar _ | RNum _ => 1
  | RInc _ _ | RDec _ _ => 3
  | RCall _ _ => 0
  end.
Definition blen (i : rinstr) : Z :=
  match i with
  | RSite _ => 1
  | RAssign _ v => vlen v
  | RLoopInit _ v => vlen v
  | RLoopTest _ _ => 1
  | RLoopDec _ _ => 2
  | RWhileTest v _ => vlen v + 1
  | RJump _ => 1
  | RHalt => 1
  | _ => 0
  end.

Lemma vlen_nonneg v : 0 <= vlen v.
Proof. destruct v; cbn; lia. Qed.
Lemma blen_nonneg i : 0 <= blen i.
Proof. destruct i; cbn [blen]; try lia; try apply vlen_nonneg. pose proof (vlen_nonneg v). lia. Qed.

(* offset of the block of reference instruction n *)
Fixpoint boff (rc : list rinstr) (n : nat) {struct n} : Z :=
  match n, rc with
  | S n', i :: t => blen i + boff t n'
  | _, _ => 0
  end.

Lemma boff_nonneg rc : forall n, 0 <= boff rc n.
Proof.
  induction rc as [|i t IH]; intros [|n]; cbn [boff]; try lia.
  pose proof (blen_nonneg i). specialize (IH n). lia.
Qed.

Lemma boff_S rc : forall n i, nth_error rc n = Some i -> boff rc (S n) = boff rc n + blen i.
Proof.
  induction rc as [|j t IH]; intros [|n] i H; cbn [nth_error] in H; try discriminate.
  - inversion H; subst. cbn [boff]. lia.
  - change (boff (j :: t) (S (S n))) with (blen j + boff t (S n)). rewrite (IH _ _ H). cbn [boff]. lia.
Qed.

Lemma boff_app rc l : forall n, (n <= length rc)%nat -> boff (rc ++ l) n = boff rc n.
Proof.
  induction rc as [|j t IH]; intros [|n] H; cbn [length] in H; cbn [app boff]; try reflexivity; try lia.
  rewrite IH by lia. reflexivity.
Qed.

Lemma boff_snoc rc i : boff (rc ++ [i]) (S (length rc)) = boff rc (length rc) + blen i.
Proof.
  rewrite (boff_S (rc ++ [i]) (length rc) i).
  - rewrite boff_app by lia. reflexivity.
  - rewrite nth_error_app2 by lia. rewrite Nat.sub_diag. reflexivity.
Qed.

Definition pm_of (P0 : Z) (rc : list rinstr) (pc : Z) : Z := P0 + boff rc (Z.to_nat pc).

Lemma pm_of_next P0 rc pc i : znth rc pc = Some i -> pm_of P0 rc (pc + 1) = pm_of P0 rc pc + blen i.
Proof.
  intros H. pose proof (znth_some_range _ _ _ H) as R. unfold pm_of.
  replace (Z.to_nat (pc + 1)) with (S (Z.to_nat pc)) by lia.
  rewrite (boff_S rc (Z.to_nat pc) i); [lia|]. apply znth_nth_error. exact H.
Qed.

(* how a jump instruction at position q with offset field f is tied to the structural target id e *)
Definition jrel := Z -> Z -> Z -> Prop.

(* code at q that computes the simple value v into register tgt (vlen v instructions) *)
Definition vmatch (rm : regmap) (C : list instr) (v : rvalue) (tgt q : Z) : Prop :=
  match v with
  | RVar y => exists ry, rm_var rm y ry /\ znth C q = Some (IAdd tgt ry 0)
  | RNum c => 0 <= c < INT_MAX /\ znth C q = Some (IConst tgt c)
  | RInc (RVar y) c =>
      exists ry t1 t2, rm_var rm y ry /\ rm_tmp rm t1 /\ rm_tmp rm t2 /\ t1 <> t2 /\ 0 <= c < INT_MAX /\
        znth C q = Some (IAdd t1 ry 0) /\ znth C (q + 1) = Some (IConst t2 c) /\ znth C (q + 2) = Some (IAdd tgt t1 c)
  | RDec (RVar y) c =>
      exists ry t1 t2, rm_var rm y ry /\ rm_tmp rm t1 /\ rm_tmp rm t2 /\ t1 <> t2 /\ 0 <= c < INT_MAX /\
        znth C q = Some (IAdd t1 ry 0) /\ znth C (q + 1) = Some (IConst t2 c) /\ znth C (q + 2) = Some (IAdd tgt t1 (- c))
  | _ => False
  end.

(* the block of VM code at q implements the reference instruction i *)
Definition imatch (rm : regmap) (C : list instr) (J : jrel) (q : Z) (i : rinstr) : Prop :=
  match i with
  | RSite _ => znth C q = Some IPotentialBreak
  | RAssign x v => exists rx, rm_var rm x rx /\ vmatch rm C v rx q
  | RLoopInit id v => exists rc, rm_cnt rm id rc /\ vmatch rm C v rc q
  | RLoopTest id e => exists rc f, rm_cnt rm id rc /\ znth C q = Some (IJmpC f rc) /\ J q f e
  | RLoopDec id b =>
      exists rc f, rm_cnt rm id rc /\ znth C q = Some (IAdd rc rc (-1)) /\ znth C (q + 1) = Some (IJmp f) /\ J (q + 1) f b
  | RWhileTest v e =>
      exists t f, rm_tmp rm t /\ vmatch rm C v t q /\ znth C (q + vlen v) = Some (IJmpC f t) /\ J (q + vlen v) f e
  | RJump t => exists f, znth C q = Some (IJmp f) /\ J q f t
  | RHalt => znth C q = Some IHalt
  | _ => False
  end.

Definition rm_le (rm rm' : regmap) : Prop :=
  (forall x i, rm_var rm x i -> rm_var rm' x i) /\
  (forall c i, rm_cnt rm c i -> rm_cnt rm' c i) /\
  (forall t, rm_tmp rm t -> rm_tmp rm' t).

Lemma rm_le_refl rm : rm_le rm rm.
Proof. repeat split; auto. Qed.

Lemma vmatch_mono rm rm' C C' v tgt q : rm_le rm rm' ->
  (forall q' ins, q <= q' -> znth C q' = Some ins -> znth C' q' = Some ins) ->
  vmatch rm C v tgt q -> vmatch rm' C' v tgt q.
Proof.
  intros (Hv & Hc & Ht) HC. destruct v as [y|c|y c|y c|j args]; cbn [vmatch]; auto.
  - intros (ry & H1 & H2). exists ry. split; auto. apply HC; [lia | exact H2].
  - intros (H1 & H2). split; auto. apply HC; [lia | exact H2].
  - destruct y; auto. intros (ry & t1 & t2 & A1 & A2 & A3 & A4 & A5 & A6 & A7 & A8).
    exists ry, t1, t2. repeat split; auto; try lia; apply HC; auto; lia.
  - destruct y; auto. intros (ry & t1 & t2 & A1 & A2 & A3 & A4 & A5 & A6 & A7 & A8).
    exists ry, t1, t2. repeat split; auto; try lia; apply HC; auto; lia.
Qed.

Lemma imatch_mono rm rm' C C' (J J' : jrel) q i : rm_le rm rm' ->
  (forall q' ins, q <= q' -> znth C q' = Some ins -> znth C' q' = Some ins) ->
  (forall q' f e, q <= q' -> J q' f e -> J' q' f e) ->
  imatch rm C J q i -> imatch rm' C' J' q i.
Proof.
  intros Hrm HC HJ. pose proof Hrm as (Hv & Hc & Ht).
  destruct i as [l|x v|id v|id ex|id back|v ex|target|l|x y l| |out|]; cbn [imatch]; auto.
  - intros H. apply HC; [lia | exact H].
  - intros (rx & H1 & H2). exists rx. split; auto. eapply vmatch_mono; eauto.
  - intros (rc & H1 & H2). exists rc. split; auto. eapply vmatch_mono; eauto.
  - intros (rc & f & H1 & H2 & H3). exists rc, f. repeat split; auto; [apply HC; auto; lia | apply HJ; auto; lia].
  - intros (rc & f & H1 & H2 & H3 & H4). exists rc, f.
    repeat split; auto; [apply HC; auto; lia | apply HC; auto; lia | apply HJ; auto; lia].
  - intros (t & f & H1 & H2 & H3 & H4). pose proof (vlen_nonneg v). exists t, f.
    repeat split; auto; [eapply vmatch_mono; eauto | apply HC; auto; lia | apply HJ; auto; lia].
  - intros (f & H1 & H2). exists f. split; [apply HC; auto; lia | apply HJ; auto; lia].
  - intros H. apply HC; [lia | exact H].
Qed.

(* ================================================================================================ *)
(* 6. simple values: the checked evaluator and the VM                                               *)
(* ================================================================================================ *)
Definition sval (st : list (str * Z)) (v : rvalue) : option Z :=
  match v with
  | RVar y => Some (get st y)
  | RNum c => Some c
  | RInc (RVar y) c => if INT_MAX <=? get st y + c then None else Some (get st y + c)
  | RDec (RVar y) c => Some (Z.max (get st y - c) 0)
  | _ => None
  end.

Definition vshape (v : rvalue) : bool :=
  match v with
  | RVar _ | RNum _ | RInc (RVar _) _ | RDec (RVar _) _ => true
  | _ => false
  end.

Lemma vmatch_shape rm C v tgt q : vmatch rm C v tgt q -> vshape v = true.
Proof. destruct v as [y|c|y c|y c|j args]; cbn; auto; destruct y; auto; contradiction. Qed.

Lemma eval_c_simple rs rec a here v st tr : vshape v = true ->
  eval_c rs rec a here v st tr =
  match sval (ra_vars a) v with Some z => EValc z st tr | None => EBadc end.
Proof.
  destruct v as [y|c|y c|y c|j args]; cbn [vshape]; intros H; try discriminate; try reflexivity.
  - destruct y; try discriminate. cbn [eval_c sval]. destruct (INT_MAX <=? get (ra_vars a) y + c); reflexivity.
  - destruct y; try discriminate. reflexivity.
Qed.

Section Val.
  Variables (rm : regmap) (base N : Z) (C : list instr).
  Hypothesis OK : rm_ok rm N.

  Lemma run_val v tgt q s d act rest a z :
    SR rm base N a d -> code (prog s) = C -> stack s = act :: rest -> data_start act = base ->
    vmatch rm C v tgt q -> 0 <= tgt < N -> sval (ra_vars a) v = Some z ->
    exists d', vm_run (Z.to_nat (vlen v)) (vm_at s q d) = Ok (vm_at s (q + vlen v) d') /\
               chg rm base d d' (fun j => j = base + tgt) /\
               znth d' (base + tgt) = Some z /\ 0 <= z < INT_MAX.
  Proof.
    intros HS HC Hst Hb HM Ht Hv. pose proof HS as [Hf Hvar Hcnt Hvb Hcb]. subst base.
    destruct v as [y|c|y c|y c|j args]; cbn [vmatch sval vlen] in *; try contradiction.
    - (* variable *)
      destruct HM as (ry & Hy & Hz). inversion Hv; subst z; clear Hv.
      destruct (zupd_ex d (data_start act + tgt) (clampz (get (ra_vars a) y + 0)) ltac:(lia)) as [d' Hu].
      assert (Ec : clampz (get (ra_vars a) y + 0) = get (ra_vars a) y).
      { specialize (Hvb y). unfold clampz, INT_MAX in *. lia. }
      exists d'. split.
      + change (Z.to_nat 1) with 1%nat.
        eapply at_add; [rewrite HC; exact Hz | exact Hst | apply Hvar; exact Hy | exact Hu].
      + split; [eapply chg_zupd; exact Hu|]. split; [|apply Hvb].
        rewrite (znth_zupd _ _ _ _ Hu), Z.eqb_refl, Ec. reflexivity.
    - (* literal *)
      destruct HM as (Hc & Hz). inversion Hv; subst z; clear Hv.
      destruct (zupd_ex d (data_start act + tgt) c ltac:(lia)) as [d' Hu].
      exists d'. split.
      + change (Z.to_nat 1) with 1%nat.
        eapply at_const; [rewrite HC; exact Hz | exact Hst | exact Hu].
      + split; [eapply chg_zupd; exact Hu|]. split; [|exact Hc].
        rewrite (znth_zupd _ _ _ _ Hu), Z.eqb_refl. reflexivity.
    - (* y + c *)
      destruct y as [y| | | |]; try contradiction.
      destruct HM as (ry & t1 & t2 & Hy & T1 & T2 & Hne & Hc & Z0 & Z1 & Z2).
      destruct (Z.leb_spec INT_MAX (get (ra_vars a) y + c)) as [|Hlt]; [discriminate|]. inversion Hv; subst z; clear Hv.
      pose proof (rmo_tmp_rng _ _ OK _ T1) as R1. pose proof (rmo_tmp_rng _ _ OK _ T2) as R2.
      pose proof (Hvb y) as By.
      set (x := get (ra_vars a) y) in *.
      destruct (zupd_ex d (data_start act + t1) (clampz (x + 0)) ltac:(lia)) as [d1 U1].
      assert (E1 : clampz (x + 0) = x) by (unfold clampz; lia).
      pose proof (zupd_length _ _ _ _ U1) as L1.
      destruct (zupd_ex d1 (data_start act + t2) c ltac:(lia)) as [d2 U2].
      pose proof (zupd_length _ _ _ _ U2) as L2.
      destruct (zupd_ex d2 (data_start act + tgt) (clampz (x + c)) ltac:(lia)) as [d3 U3].
      assert (E3 : clampz (x + c) = x + c) by (unfold clampz; lia).
      assert (R : znth d2 (data_start act + t1) = Some x).
      { rewrite (znth_zupd _ _ _ _ U2). destruct (Z.eqb_spec (data_start act + t1) (data_start act + t2)); [lia|].
        rewrite (znth_zupd _ _ _ _ U1), Z.eqb_refl, E1. reflexivity. }
      exists d3. split.
      + change (Z.to_nat 3) with (1 + (1 + 1))%nat.
        replace (q + 3) with (q + 1 + 1 + 1) by lia.
        eapply vm_run_trans; [eapply at_add; [rewrite HC; exact Z0 | exact Hst | apply Hvar; exact Hy | exact U1]|].
        eapply vm_run_trans; [eapply at_const; [rewrite HC; exact Z1 | exact Hst | exact U2]|].
        eapply at_add; [rewrite HC; replace (q + 1 + 1) with (q + 2) by lia; exact Z2 | exact Hst | exact R | exact U3].
      + split.
        * eapply chg_trans with (W1 := fun _ => False) (W2 := fun j => j = data_start act + tgt);
            [tauto | auto | | eapply chg_zupd; exact U3].
          eapply chg_trans with (W1 := fun _ => False) (W2 := fun _ => False);
            [tauto | tauto | exact (chg_zupd_tmp _ _ _ _ _ _ T1 U1) | exact (chg_zupd_tmp _ _ _ _ _ _ T2 U2)].
        * split; [|lia].
          rewrite (znth_zupd _ _ _ _ U3), Z.eqb_refl, E3. reflexivity.
    - (* y - c *)
      destruct y as [y| | | |]; try contradiction.
      destruct HM as (ry & t1 & t2 & Hy & T1 & T2 & Hne & Hc & Z0 & Z1 & Z2).
      inversion Hv; subst z; clear Hv.
      pose proof (rmo_tmp_rng _ _ OK _ T1) as R1. pose proof (rmo_tmp_rng _ _ OK _ T2) as R2.
      pose proof (Hvb y) as By.
      set (x := get (ra_vars a) y) in *.
      destruct (zupd_ex d (data_start act + t1) (clampz (x + 0)) ltac:(lia)) as [d1 U1].
      assert (E1 : clampz (x + 0) = x) by (unfold clampz; lia).
      pose proof (zupd_length _ _ _ _ U1) as L1.
      destruct (zupd_ex d1 (data_start act + t2) c ltac:(lia)) as [d2 U2].
      pose proof (zupd_length _ _ _ _ U2) as L2.
      destruct (zupd_ex d2 (data_start act + tgt) (clampz (x + - c)) ltac:(lia)) as [d3 U3].
      assert (E3 : clampz (x + - c) = Z.max (x - c) 0) by (unfold clampz; lia).
      assert (R : znth d2 (data_start act + t1) = Some x).
      { rewrite (znth_zupd _ _ _ _ U2). destruct (Z.eqb_spec (data_start act + t1) (data_start act + t2)); [lia|].
        rewrite (znth_zupd _ _ _ _ U1), Z.eqb_refl, E1. reflexivity. }
      exists d3. split.
      + change (Z.to_nat 3) with (1 + (1 + 1))%nat.
        replace (q + 3) with (q + 1 + 1 + 1) by lia.
        eapply vm_run_trans; [eapply at_add; [rewrite HC; exact Z0 | exact Hst | apply Hvar; exact Hy | exact U1]|].
        eapply vm_run_trans; [eapply at_const; [rewrite HC; exact Z1 | exact Hst | exact U2]|].
        eapply at_add; [rewrite HC; replace (q + 1 + 1) with (q + 2) by lia; exact Z2 | exact Hst | exact R | exact U3].
      + split.
        * eapply chg_trans with (W1 := fun _ => False) (W2 := fun j => j = data_start act + tgt);
            [tauto | auto | | eapply chg_zupd; exact U3].
          eapply chg_trans with (W1 := fun _ => False) (W2 := fun _ => False);
            [tauto | tauto | exact (chg_zupd_tmp _ _ _ _ _ _ T1 U1) | exact (chg_zupd_tmp _ _ _ _ _ _ T2 U2)].
        * split; [|lia].
          rewrite (znth_zupd _ _ _ _ U3), Z.eqb_refl, E3. reflexivity.
  Qed.
End Val.

(* ================================================================================================ *)
(* 7. one reference instruction against its block of VM code                                        *)
(* ================================================================================================ *)
Section Sim.
  Variables (rs : list routine) (k : nat) (r : routine).
  Hypothesis Hk : nth_error rs k = Some r.
  Variables (rm : regmap) (base N : Z) (C : list instr) (P0 : Z).
  Hypothesis OK : rm_ok rm N.

  Definition pm (pc : Z) : Z := pm_of P0 (r_code r) pc.
  (* after backpatching: the jump lands on the block of the reference target *)
  Definition jpost : jrel := fun q f e => exists t, znth (r_targets r) e = Some t /\ (0 <= t -> q + f = pm t).
  Hypothesis CM : forall pc i, znth (r_code r) pc = Some i -> imatch rm C jpost (pm pc) i.

  Definition frame_of (s : vm) : Prop :=
    code (prog s) = C /\ exists act rest, stack s = act :: rest /\ data_start act = base.

  Definition in_frame (j : Z) : Prop := base <= j < base + N.

  Lemma chg_in_frame d d' i : 0 <= i < N -> chg rm base d d' (fun j => j = base + i) -> chg rm base d d' in_frame.
  Proof. intros Hi. apply chg_weaken. unfold in_frame. intros j ->. lia. Qed.

  Lemma chg_outside d d' j : chg rm base d d' in_frame -> ~ in_frame j -> znth d' j = znth d j.
  Proof.
    intros [_ H] Hj. apply H; [exact Hj|]. intros t Ht ->. apply Hj. pose proof (rmo_tmp_rng _ _ OK _ Ht). unfold in_frame. lia.
  Qed.

  Lemma sim_step rec ctx a pc steps trace i s d views steps' trace' :
    znth (r_code r) pc = Some i -> frame_of s -> SR rm base N a d ->
    exec_instr_c rs rec r ctx k a pc steps trace i = OStop views steps' trace' ->
    (i = RHalt /\ views = ctx ++ [view_of r a] /\ steps' = S steps) \/
    (exists a' pc' tr1 n d',
        (1 <= n)%nat /\ vm_run n (vm_at s (pm pc) d) = Ok (vm_at s (pm pc') d') /\
        SR rm base N a' d' /\ chg rm base d d' in_frame /\
        rec ctx k a' pc' (S steps) tr1 = OStop views steps' trace').
  Proof.
    intros Hi (HC & act & rest & Hst & Hb) HS HX.
    pose proof (CM _ _ Hi) as HM. pose proof (pm_of_next P0 _ _ _ Hi) as Hnext. fold (pm (pc + 1)) in Hnext. fold (pm pc) in Hnext.
    pose proof HS as [Hf Hvar Hcnt Hvb Hcb].
    unfold exec_instr_c in HX. cbv zeta in HX.
    destruct i as [l|x v|id v|id ex|id back|v ex|target|l|x y l| |out|]; cbn [imatch blen] in HM, Hnext; try contradiction.
    - (* RSite *)
      right. exists a, (pc + 1), (trace ++ [(l, ctx ++ [view_of r a])]), 1%nat, d.
      split; [lia|]. split; [|split; [exact HS|split; [apply chg_refl | exact HX]]].
      rewrite Hnext. apply at_pb. rewrite HC. exact HM.
    - (* RAssign *)
      destruct HM as (rx & Hx & HV).
      rewrite (eval_c_simple _ _ _ _ _ _ _ (vmatch_shape _ _ _ _ _ HV)) in HX.
      destruct (sval (ra_vars a) v) as [z|] eqn:Ev; [|discriminate].
      pose proof (rmo_var_rng _ _ OK _ _ Hx) as Rx.
      destruct (run_val rm base N C OK v rx (pm pc) s d act rest a z HS HC Hst Hb HV Rx Ev) as (d' & Hrun & Hch & Hz & Hzb).
      right. exists (mkRAct (put (ra_vars a) x z) (ra_cnt a)), (pc + 1), trace, (Z.to_nat (vlen v)), d'.
      split; [pose proof (vmatch_shape _ _ _ _ _ HV); destruct v as [| |[]|[]|]; cbn in *; try discriminate; lia|].
      split; [rewrite Hnext; exact Hrun|].
      split; [eapply SR_var; eauto|]. split; [eapply chg_in_frame; eauto | exact HX].
    - (* RLoopInit *)
      destruct HM as (rc & Hx & HV).
      rewrite (eval_c_simple _ _ _ _ _ _ _ (vmatch_shape _ _ _ _ _ HV)) in HX.
      destruct (sval (ra_vars a) v) as [z|] eqn:Ev; [|discriminate].
      pose proof (rmo_cnt_rng _ _ OK _ _ Hx) as Rx.
      destruct (run_val rm base N C OK v rc (pm pc) s d act rest a z HS HC Hst Hb HV Rx Ev) as (d' & Hrun & Hch & Hz & Hzb).
      right. exists (mkRAct (ra_vars a) (putc (ra_cnt a) id z)), (pc + 1), trace, (Z.to_nat (vlen v)), d'.
      split; [pose proof (vmatch_shape _ _ _ _ _ HV); destruct v as [| |[]|[]|]; cbn in *; try discriminate; lia|].
      split; [rewrite Hnext; exact Hrun|].
      split; [eapply SR_cnt; eauto|]. split; [eapply chg_in_frame; eauto | exact HX].
    - (* RLoopTest *)
      destruct HM as (rc & f & Hx & Hz & (t & Ht & Hj)).
      pose proof (Hcnt _ _ Hx) as Hrd. rewrite <- Hb in Hrd.
      pose proof (at_jmpc s act rest (pm pc) d f rc _ ltac:(rewrite HC; exact Hz) Hst Hrd) as Hrun.
      right. destruct (getc (ra_cnt a) id =? 0).
      + rewrite Ht in HX. unfold goto_of in HX. destruct (Z.ltb_spec t 0) as [|Hge]; [discriminate|].
        exists a, t, trace, 1%nat, d. split; [lia|]. rewrite <- (Hj Hge).
        split; [exact Hrun|]. split; [exact HS|]. split; [apply chg_refl | exact HX].
      + exists a, (pc + 1), trace, 1%nat, d. split; [lia|]. rewrite Hnext.
        split; [exact Hrun|]. split; [exact HS|]. split; [apply chg_refl | exact HX].
    - (* RLoopDec *)
      destruct HM as (rc & f & Hx & Hz & Hz1 & (t & Ht & Hj)).
      rewrite Ht in HX. unfold goto_of in HX. destruct (Z.ltb_spec t 0) as [|Hge]; [discriminate|].
      pose proof (Hcnt _ _ Hx) as Hrd. rewrite <- Hb in Hrd.
      pose proof (rmo_cnt_rng _ _ OK _ _ Hx) as Rx. pose proof (Hcb id) as Bc.
      set (x := getc (ra_cnt a) id) in *.
      destruct (zupd_ex d (data_start act + rc) (clampz (x + -1)) ltac:(lia)) as [d' Hu].
      assert (Ec : clampz (x + -1) = Z.max (x - 1) 0) by (unfold clampz; lia).
      right. exists (mkRAct (ra_vars a) (putc (ra_cnt a) id (Z.max (x - 1) 0))), t, trace, (1 + 1)%nat, d'.
      split; [lia|]. split.
      + rewrite <- (Hj Hge).
        eapply vm_run_trans; [eapply at_add; [rewrite HC; exact Hz | exact Hst | exact Hrd | exact Hu]|].
        apply at_jmp. rewrite HC. exact Hz1.
      + rewrite Hb in Hu. split.
        * eapply SR_cnt; eauto; [eapply chg_zupd; exact Hu | | lia].
          rewrite (znth_zupd _ _ _ _ Hu), Z.eqb_refl, Ec. reflexivity.
        * split; [|exact HX]. eapply chg_in_frame; [exact Rx|]. eapply chg_zupd; exact Hu.
    - (* RWhileTest *)
      destruct HM as (tt & f & Htt & HV & Hz & (t & Ht & Hj)).
      rewrite (eval_c_simple _ _ _ _ _ _ _ (vmatch_shape _ _ _ _ _ HV)) in HX.
      destruct (sval (ra_vars a) v) as [z|] eqn:Ev; [|discriminate].
      pose proof (rmo_tmp_rng _ _ OK _ Htt) as Rt.
      destruct (run_val rm base N C OK v tt (pm pc) s d act rest a z HS HC Hst Hb HV Rt Ev) as (d' & Hrun & Hch & Hzz & Hzb).
      assert (HS' : SR rm base N a d').
      { eapply SR_tmp; eauto. destruct Hch as [Hl Hc']. split; [exact Hl|]. intros j _ Hj'. apply Hc'; [|exact Hj'].
        intros ->. apply (Hj' tt Htt). reflexivity. }
      assert (Hch' : chg rm base d d' in_frame) by (eapply chg_in_frame; eauto).
      rewrite <- Hb in Hzz.
      pose proof (at_jmpc s act rest (pm pc + vlen v) d' f tt z ltac:(rewrite HC; exact Hz) Hst Hzz) as Hrun2.
      assert (Hn : (Z.to_nat (vlen v) + 1 >= 1)%nat) by lia.
      right. destruct (z =? 0).
      + rewrite Ht in HX. unfold goto_of in HX. destruct (Z.ltb_spec t 0) as [|Hge]; [discriminate|].
        exists a, t, trace, (Z.to_nat (vlen v) + 1)%nat, d'. split; [lia|]. rewrite <- (Hj Hge).
        split; [eapply vm_run_trans; [exact Hrun | exact Hrun2]|]. split; [exact HS'|]. split; [exact Hch' | exact HX].
      + exists a, (pc + 1), trace, (Z.to_nat (vlen v) + 1)%nat, d'. split; [lia|]. rewrite Hnext.
        replace (pm pc + (vlen v + 1)) with (pm pc + vlen v + 1) by lia.
        split; [eapply vm_run_trans; [exact Hrun | exact Hrun2]|]. split; [exact HS'|]. split; [exact Hch' | exact HX].
    - (* RJump *)
      destruct HM as (f & Hz & (t & Ht & Hj)).
      rewrite Ht in HX. unfold goto_of in HX. destruct (Z.ltb_spec t 0) as [|Hge]; [discriminate|].
      right. exists a, t, trace, 1%nat, d. split; [lia|]. rewrite <- (Hj Hge).
      split; [apply at_jmp; rewrite HC; exact Hz|]. split; [exact HS|]. split; [apply chg_refl | exact HX].
    - (* RHalt *)
      left. inversion HX; subst. auto.
  Qed.

  (* the run of the reference machine, by induction on its fuel *)
  Theorem sim_run : forall fuel ctx a pc steps trace s d views steps' trace',
    frame_of s -> SR rm base N a d ->
    run_chk rs fuel ctx k a pc steps trace = OStop views steps' trace' ->
    exists n pcf a' d',
      vm_run n (vm_at s (pm pc) d) = Ok (vm_at s (pm pcf) d') /\
      znth C (pm pcf) = Some IHalt /\
      SR rm base N a' d' /\ chg rm base d d' in_frame /\
      views = ctx ++ [view_of r a'] /\ (steps' <= steps + n + 1)%nat.
  Proof.
    induction fuel as [|f IH]; intros ctx a pc steps trace s d views steps' trace' HF HS Hrun; [discriminate|].
    rewrite run_chk_S in Hrun. unfold body_c in Hrun. rewrite Hk in Hrun.
    destruct (znth (r_code r) pc) as [i|] eqn:Hi; [|discriminate].
    destruct (sim_step _ _ _ _ _ _ _ s d _ _ _ Hi HF HS Hrun) as [(-> & Hv & Hs)|(a' & pc' & tr1 & n & d' & Hn & Hvm & HS' & Hch & Hrec)].
    - exists 0%nat, pc, a, d. split; [reflexivity|]. split; [exact (CM _ _ Hi)|]. split; [exact HS|].
      split; [apply chg_refl|]. split; [exact Hv | lia].
    - destruct (IH _ _ _ _ _ s d' _ _ _ HF HS' Hrec) as (n2 & pcf & a2 & d2 & Hvm2 & Hh & HS2 & Hch2 & Hv & Hs).
      exists (n + n2)%nat, pcf, a2, d2. split; [eapply vm_run_trans; eauto|]. split; [exact Hh|]. split; [exact HS2|].
      split; [eapply chg_trans; [| |exact Hch|exact Hch2]; auto|]. split; [exact Hv | lia].
  Qed.

  Lemma halted_at s q d : code (prog s) = C -> znth C q = Some IHalt -> isDone (vm_at s q d) = Ok true.
  Proof. intros HC Hz. unfold isDone, vm_at. cbn [prog ip]. rewrite HC, Hz. reflexivity. Qed.
End Sim.
