(* VMStatements.v — the full statements of the VM-level property theorems, as Props.
   Proofs_VM_*.v prove them; Properties_Cxx.v re-export them under the property's name with
   Print Assumptions.  Keeping the statements here (and nothing else) means they cannot be
   weakened silently by an edit to a proof file. *)
From Theo Require Import Base VMModel VMSpec.
Local Open Scope Z_scope.

(* n instructions under an explicit configuration (for the refutations at the pinned commit) *)
Fixpoint vm_run_gen (cfg : vmcfg) (n : nat) (s : vm) : result vm :=
  match n with
  | O => Ok s
  | S k => do r <- exec1_gen cfg s; vm_run_gen cfg k (fst r)
  end.

(* ===== C19 : VM memory is proportional to the live activations ================================ *)
Definition C19_step_stmt : Prop :=
  forall s s' b, counts_ok (prog s) = true ->
    tiled (stack s) (zlen (data s)) -> exec1 s = Ok (s', b) -> tiled (stack s') (zlen (data s')).

Definition C19_stmt : Prop :=
  forall p h fuel s, counts_ok p = true -> run_hist fuel h (init p) = Ok s ->
    tiled (stack s) (zlen (data s)) /\
    zlen (data s) = sum_sizes (stack s) /\
    zlen (data s) <= zlen (stack s) * max_frame p.

(* with the pinned RET (no release) the statement is false *)
Definition C19_refuted_at_pinned_stmt : Prop :=
  exists p n s, counts_ok p = true /\ vm_run_gen cfg_pinned n (init p) = Ok s /\
    zlen (data s) <> sum_sizes (stack s).

(* ===== C20 : arithmetic is defined; values stay natural numbers ================================= *)
Definition C20_range_stmt : Prop :=
  forall p h fuel s, consts_in_range p = true -> run_hist fuel h (init p) = Ok s -> Forall word_ok (data s).

Definition C20_no_overflow_stmt : Prop :=
  (forall s, exec1 s <> UB ub_overflow) /\
  (forall fuel h s, run_hist fuel h s <> UB ub_overflow).

Definition C20_sub_stmt : Prop :=
  forall x c, word_ok x -> 0 <= c -> add_const cfg_now x (- c) = Ok (Z.max (x - c) 0).

Definition C20_add_stmt : Prop :=
  forall x c, word_ok x -> 0 <= c -> add_const cfg_now x c = Ok (Z.min (x + c) INT_MAX).

Definition C20_refuted_at_pinned_stmt : Prop :=
  exists x c, word_ok x /\ word_ok c /\ add_const cfg_pinned x c = UB ub_overflow.

(* ===== the invariant behind C05 / C06 / C17 ====================================================== *)
Definition rel_reachable_stmt : Prop :=
  forall p h fuel s, tables_ok p = true -> no_break p = true ->
    run_hist fuel h (init p) = Ok s -> rel p s.

(* ===== C17 : reset gives a fresh machine; the end is absorbing ================================== *)
Definition C17_reset_stmt : Prop :=
  forall p h fuel s, tables_ok p = true -> no_break p = true ->
    run_hist fuel h (init p) = Ok s -> reset s = Ok (init p).

Definition C17_after_stmt : Prop :=
  forall p h h' fuel s, tables_ok p = true -> no_break p = true ->
    run_hist fuel h (init p) = Ok s ->
    run_hist fuel (AReset :: h') s = run_hist fuel h' (init p).

Definition C17_halt_stmt : Prop :=
  forall s, isDone s = Ok true ->
    exec1 s = Ok (s, true) /\ (forall fuel, execute (S fuel) s = Ok s).

(* ===== C05 : debugging is transparent ============================================================ *)
(* one instruction of the debugged machine is one instruction of the stripped machine *)
Definition C05_exec_core_stmt : Prop :=
  forall s s' b, exec1 s = Ok (s', b) -> exists b', exec1 (strip s) = Ok (strip s', b').

Definition is_debug_op (c : api) : bool :=
  match c with ASetBP _ _ _ | AClear | AStepping _ => true | _ => false end.

(* breakpoint and stepping requests do not move the stripped machine *)
Definition C05_ops_core_stmt : Prop :=
  forall p s c fuel s' r, tables_ok p = true -> rel p s -> is_debug_op c = true ->
    api_step fuel s c = Ok (s', r) -> strip s' = strip s.

(* after any history the machine is at a point of the uninterrupted run of the same program *)
Definition C05_transparent_stmt : Prop :=
  forall p h fuel s, tables_ok p = true -> no_break p = true ->
    run_hist fuel h (init p) = Ok s -> exists n, vm_run n (init p) = Ok (strip s).

(* and when it has reached the end, every client-visible value equals the uninterrupted run's *)
Definition C05_same_result_stmt : Prop :=
  forall p h fuel s, tables_ok p = true -> no_break p = true ->
    run_hist fuel h (init p) = Ok s -> isDone s = Ok true ->
    forall m s0, vm_run m (init p) = Ok s0 -> isDone s0 = Ok true ->
      views s0 = views s /\ data s0 = data s /\ stack s0 = stack s /\ ip s0 = ip s.

(* ===== C06 : the debugger stops exactly where asked ============================================== *)
(* execute = silent steps followed by one stopping step *)
Inductive runs_to : vm -> vm -> Prop :=
| runs_stop : forall s s', exec1 s = Ok (s', true) -> runs_to s s'
| runs_more : forall s s1 s', exec1 s = Ok (s1, false) -> runs_to s1 s' -> runs_to s s'.

Definition C06_execute_stmt : Prop :=
  (forall fuel s s', execute fuel s = Ok s' -> runs_to s s') /\
  (forall s s', runs_to s s' -> exists fuel, execute fuel s = Ok s').

(* a step stops iff it stands on a stop site (site of an enabled line, or any site while stepping) or on HALT *)
Definition C06_stop_iff_stmt : Prop :=
  forall p s s' b, tables_ok p = true -> rel p s -> exec1 s = Ok (s', b) ->
    (b = true <-> (stop_site s (ip s) \/ halt_at s (ip s))).

(* the location reported after stopping on a site is that site's; none before the start *)
Definition C06_location_stmt : Prop :=
  (forall p s s', tables_ok p = true -> rel p s -> exec1 s = Ok (s', true) -> ~ halt_at s (ip s) ->
     exists b, alookup z_ltb (line_info p) (ip s) = Some b /\ getCurrentBreak s' = Some b) /\
  (forall p, tables_ok p = true -> getCurrentBreak (init p) = None).

(* a request succeeds exactly for available locations, and never fails otherwise *)
Definition C06_enable_stmt : Prop :=
  forall p s f l v, tables_ok p = true -> rel p s ->
    exists s' r, setBreakPoint s f l v = Ok (s', r) /\
      (r = true <-> alookup bp_ltb (potential_breaks p) (mkBP f l) <> None).

(* the enabled set is the fold of the successful requests *)
Definition C06_enabled_stmt : Prop :=
  forall p h fuel s, tables_ok p = true -> no_break p = true ->
    run_hist fuel h (init p) = Ok s ->
    forall b, smem bp_ltb (enabled s) b = req_fold p h b.
